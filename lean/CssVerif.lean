import CssVerif.Model.Re
import CssVerif.Model.Tokenizer
import CssVerif.Gen.Productions
import CssVerif.Props.C08
import CssVerif.Props.C09
import CssVerif.Props.C11
import CssVerif.Props.C07
import CssVerif.Props.C14
