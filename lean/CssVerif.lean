import CssVerif.Model.Re
import CssVerif.Model.Tokenizer
import CssVerif.Gen.Productions
