/-
Model driver: one operation per input line, one canonical line out.
Built as a native executable (`lake build driver`); imports model files only.
-/
import CssVerif.Driver.Proto
import CssVerif.Model.Tokenizer
import CssVerif.Gen.Productions
import CssVerif.Driver.DeclOps
import CssVerif.Driver.SheetOps
import CssVerif.Driver.CodecOps
import CssVerif.Driver.NumOps
import CssVerif.Driver.SelOps
import CssVerif.Driver.UptoOps
import CssVerif.Driver.ImportOps
import CssVerif.Driver.LinkOps
import CssVerif.Driver.OwnOps
import CssVerif.Driver.ResolveOps
import CssVerif.Driver.OmitOps
import CssVerif.Driver.SaveStackOps
import CssVerif.Driver.PPOps
import CssVerif.Driver.UrlOps
import CssVerif.Driver.EscOps
import CssVerif.Driver.ValueOps
import CssVerif.Driver.OutOps
open CssVerif CssVerif.Proto

def showTok (t : Tok) : String :=
  s!"{t.typ}:{showText t.val}:{t.line}:{t.col}"

def opTok (mode : String) (hex : String) : String :=
  match parseText hex with
  | none => "bad-op"
  | some s =>
    let ml := mode.toList
    let cfg : Cfg := { fullsheet := ml[0]? == some 'F', doComments := ml[1]? == some 'C' }
    let r := tokenize Gen.tables cfg s
    let e := match r.endKind with | .done => "done" | .stuck => "stuck" | .fuel => "fuel"
    e ++ " " ++ " ".intercalate (r.toks.map showTok)

/-- `re <prod index> <prev|~> <text>` → matched length or `~` -/
def opRe (idx prev hex : String) : String :=
  match idx.toNat?, parseText hex with
  | some i, some s =>
    let allp : List Prod := { name := "BOM", notAfter := none, re := Gen.bom } :: Gen.prods
    match allp[i]? with
    | none => "bad-op"
    | some p =>
      let pv := if prev == "~" then none else parseHex prev
      match matchProd p pv s with
      | none => "~"
      | some rem => toString (s.length - rem.length)
  | _, _ => "bad-op"

def step (line : String) : String :=
  match line.trimAscii.toString.splitOn " " with
  | ["tok", mode, hex] => opTok mode hex
  | ["re", idx, prev, hex] => opRe idx prev hex
  | ["decl", hist] => DeclOps.run hist
  | ["sheet", fx, hist] => SheetOps.run fx hist
  | ["cont", which, hist] => SheetOps.runCont which hist
  | ["nsform", d, attr, ns] => SheetOps.runNsForm d attr ns
  | ["upto", fx, mode, start, toks] => UptoOps.opUpto fx mode start toks
  | ["split", fx, toks] => UptoOps.opSplit fx toks
  | ["dsplit", fx, toks] => UptoOps.opDsplit fx toks
  | ["stmts", fx, items] => UptoOps.opStmts fx items
  | ["encsel", o, h, e, p] => ImportOps.opEncSel o h e p
  | ["encsel2", o, h1, e1, p1, h2, e2] => ImportOps.opEncSel2 o h1 e1 p1 h2 e2
  | ["fetchout", fx, k] => ImportOps.opFetchOut fx k
  | ["urlpath", b, r] => ImportOps.opUrlPath b r
  | ["rfcpath", m] => ImportOps.opRfcPath m
  | ["tree", fx, n, hist] => LinkOps.run fx n hist
  | ["own", roots, hist] => OwnOps.run roots hist
  | ["savestack", pvs, flag, evs] => SaveStackOps.run pvs flag evs
  | ["resolve", sh] => ResolveOps.opResolve sh
  | ["omit", bits, sheet] => OmitOps.opOmit bits sheet
  | ["pp", g, fl, toks] => PP.PPOps.opPP g fl toks
  | ["ppshow", g, toks] => PP.PPOps.opShow g toks
  | ["urlrt", u] => UrlOps.opUrlRt u
  | ["urltrav", t] => UrlOps.opUrlTrav t
  | ["escall", e, t] => EscOps.opEscAll e t
  | ["unesc", t] => EscOps.opUnesc t
  | ["decode", t] => EscOps.opDecode t
  | ["norm", t] => EscOps.opNorm t
  | ["vparse", w] => ValueOps.opVparse w
  | ["vser", p, w] => ValueOps.opVser p w
  | "out" :: args => OutOps.opOut args
  | ["sel", ns, hex] => SelOps.opSel ns hex
  | ["num", fx, om, hex] => NumOps.opNum fx om hex
  | ["numval", hex] => NumOps.opVal hex
  | ["hexc", hex] => NumOps.opHex hex
  | ["hash", m, hex] => NumOps.opHash m hex
  | ["cdet", f, hex] => CodecOps.opDetect f hex
  | ["cdetu", f, hex] => CodecOps.opDetectU f hex
  | ["cfix", f, enc, hex] => CodecOps.opFix f enc hex
  | ["cdec", enc, force, hex] => CodecOps.opDec enc force hex
  | ["cenc", enc, hex] => CodecOps.opEnc enc hex
  | ["cidec", enc, force, chunks] => CodecOps.opIDec enc force chunks
  | ["cienc", enc, chunks] => CodecOps.opIEnc enc chunks
  | _ => "bad-op"

partial def loop (h : IO.FS.Stream) (out : IO.FS.Stream) : IO Unit := do
  let line ← h.getLine
  if line.isEmpty then return ()
  out.putStrLn (step line)
  loop h out

def main : IO Unit := do
  let out ← IO.getStdout
  loop (← IO.getStdin) out
  out.flush
