/-
Greedy repetition on runs: the complete list of successes of `a*` on a run of characters that `a`
consumes one at a time, followed by a text that `a` does not match; character tests; ordered
alternatives whose first branch fails.
-/
import CssVerif.Proofs.Re
namespace CssVerif.Re

/-! ### small list facts -/

theorem flatMap_eq_nil_of_forall {α β} (l : List α) (f : α → List β) (h : ∀ x ∈ l, f x = []) :
    l.flatMap f = [] := by
  induction l with
  | nil => rfl
  | cons x xs ih =>
    simp only [List.flatMap_cons, h x List.mem_cons_self, List.nil_append]
    exact ih (fun y hy => h y (List.mem_cons_of_mem _ hy))

/-- a non-nullable expression does not match the empty text -/
theorem ms_nil_of_not_nullable (r : Re) (h : nullable r = false) : ms r [] = [] := by
  apply List.eq_nil_iff_forall_not_mem.mpr
  intro t ht
  have := ms_progress r h [] t ht
  simp at this

theorem exec_none_of_ms_nil (r : Re) (s : Text) (h : ms r s = []) : exec r s = none := by
  rw [exec_eq_head, h]; rfl

theorem exec_some_of_head (r : Re) (s t : Text) (h : (ms r s).head? = some t) : exec r s = some t := by
  rw [exec_eq_head, h]

theorem ms_seq (a b : Re) (s : Text) : ms (seq a b) s = (ms a s).flatMap (ms b) := by
  simp only [ms]

theorem ms_alt (a b : Re) (s : Text) : ms (alt a b) s = ms a s ++ ms b s := by
  simp only [ms]

theorem ms_seq_nil_left (a b : Re) (s : Text) (h : ms a s = []) : ms (seq a b) s = [] := by
  simp [ms, h]

theorem ms_seq_single (a b : Re) (s t : Text) (h : ms a s = [t]) : ms (seq a b) s = ms b t := by
  simp [ms, h]

/-! ### character tests -/

/-- `a` consumes exactly one character, and exactly when the character satisfies `P` -/
structure IsTest (a : Re) (P : Nat → Bool) : Prop where
  nil : ms a [] = []
  cons : ∀ c s, ms a (c :: s) = if P c = true then [s] else []

theorem isTest_cls (neg : Bool) (rs : List (Nat × Nat)) : IsTest (cls neg rs) (clsMatch neg rs) :=
  ⟨rfl, fun _ _ => rfl⟩

theorem IsTest.congr {a : Re} {P Q : Nat → Bool} (h : IsTest a P) (hpq : ∀ c, P c = Q c) : IsTest a Q :=
  ⟨h.nil, fun c s => by rw [h.cons, hpq]⟩

theorem IsTest.pos {a : Re} {P : Nat → Bool} (h : IsTest a P) {c : Nat} (hc : P c = true) (s : Text) :
    ms a (c :: s) = [s] := by
  rw [h.cons, if_pos hc]

theorem IsTest.neg {a : Re} {P : Nat → Bool} (h : IsTest a P) {c : Nat} (hc : P c = false) (s : Text) :
    ms a (c :: s) = [] := by
  rw [h.cons, hc]; rfl

/-- the test fails on a text whose first character (if any) fails it -/
theorem IsTest.stop {a : Re} {P : Nat → Bool} (h : IsTest a P) (t : Text)
    (ht : ∀ d ∈ t.head?, P d = false) : ms a t = [] := by
  cases t with
  | nil => exact h.nil
  | cons d r => exact h.neg (ht d (by simp)) r

theorem IsTest.seq_stop {a : Re} {P : Nat → Bool} (h : IsTest a P) (b : Re) (t : Text)
    (ht : ∀ d ∈ t.head?, P d = false) : ms (seq a b) t = [] :=
  ms_seq_nil_left a b t (h.stop t ht)

theorem IsTest.opt_stop {a : Re} {P : Nat → Bool} (h : IsTest a P) (t : Text)
    (ht : ∀ d ∈ t.head?, P d = false) : ms (opt a) t = [t] := by
  simp [ms, h.stop t ht]

theorem IsTest.opt_pos {a : Re} {P : Nat → Bool} (h : IsTest a P) {c : Nat} (hc : P c = true) (s : Text) :
    ms (opt a) (c :: s) = [s, c :: s] := by
  simp [ms, h.pos hc]

/-! ### the successes of a greedy star on a run -/

/-- `[rest, cₙ :: rest, …, run ++ rest]`: what `a*` returns on `run ++ rest`, longest match first -/
def backoffs : Text → Text → List Text
  | [], rest => [rest]
  | c :: cs, rest => backoffs cs rest ++ [c :: cs ++ rest]

theorem backoffs_head (run rest : Text) : (backoffs run rest).head? = some rest := by
  induction run with
  | nil => rfl
  | cons c cs ih =>
    simp only [backoffs, List.head?_append, ih]
    rfl

theorem backoffs_ne_nil (run rest : Text) : backoffs run rest ≠ [] := by
  intro h
  have := backoffs_head run rest
  rw [h] at this
  cases this

/-- every success other than the greedy one starts with a character of the run -/
theorem backoffs_mem (run rest t : Text) (h : t ∈ backoffs run rest) :
    t = rest ∨ ∃ c post, t = c :: post ∧ c ∈ run := by
  induction run with
  | nil => left; simpa [backoffs] using h
  | cons c cs ih =>
    simp only [backoffs, List.mem_append, List.mem_singleton] at h
    rcases h with h | h
    · rcases ih h with h' | ⟨x, post, hx, hm⟩
      · exact Or.inl h'
      · exact Or.inr ⟨x, post, hx, List.mem_cons_of_mem _ hm⟩
    · exact Or.inr ⟨c, cs ++ rest, h, List.mem_cons_self⟩

/-- a continuation that fails on every text starting with a character of the run only sees the
greedy success -/
theorem backoffs_flatMap (run rest : Text) (g : Text → List Text)
    (hg : ∀ c ∈ run, ∀ post, g (c :: post) = []) : (backoffs run rest).flatMap g = g rest := by
  induction run with
  | nil => simp [backoffs]
  | cons c cs ih =>
    simp only [backoffs, List.flatMap_append, List.flatMap_cons, List.flatMap_nil, List.append_nil]
    rw [ih (fun x hx => hg x (List.mem_cons_of_mem _ hx)), List.cons_append, hg c List.mem_cons_self]
    simp

theorem starIter_run (step : Text → List Text) (P : Nat → Bool)
    (hstep : ∀ c s, P c = true → step (c :: s) = [s]) :
    ∀ (run rest : Text) (n : Nat), (∀ c ∈ run, P c = true) → step rest = [] →
      run.length + rest.length ≤ n → starIter step n (run ++ rest) = backoffs run rest := by
  intro run
  induction run with
  | nil =>
    intro rest n _ hrest _
    cases n with
    | zero => simp [starIter, backoffs]
    | succ n => simp [starIter, backoffs, hrest]
  | cons c cs ih =>
    intro rest n hrun hrest hn
    cases n with
    | zero => simp at hn
    | succ n =>
      have hc := hrun c List.mem_cons_self
      have hlt : (cs ++ rest).length < (c :: (cs ++ rest)).length := by simp
      simp only [List.cons_append, starIter, hstep c _ hc, List.filter_cons, hlt, decide_true, if_true,
        List.filter_nil, List.flatMap_cons, List.flatMap_nil, List.append_nil, backoffs]
      rw [ih rest n (fun x hx => hrun x (List.mem_cons_of_mem _ hx)) hrest
        (by simp only [List.length_cons] at hn; omega)]

/-- `a*` on a run of characters that `a` consumes one by one, followed by a text `a` rejects -/
theorem ms_star_run (a : Re) (P : Nat → Bool) (hstep : ∀ c s, P c = true → ms a (c :: s) = [s])
    (run rest : Text) (hrun : ∀ c ∈ run, P c = true) (hrest : ms a rest = []) :
    ms (star a) (run ++ rest) = backoffs run rest := by
  simp only [ms]
  exact starIter_run (ms a) P hstep run rest _ hrun hrest (by simp)

theorem IsTest.star_run {a : Re} {P : Nat → Bool} (h : IsTest a P) (run rest : Text)
    (hrun : ∀ c ∈ run, P c = true) (hrest : ∀ d ∈ rest.head?, P d = false) :
    ms (star a) (run ++ rest) = backoffs run rest :=
  ms_star_run a P (fun _ s hc => h.pos hc s) run rest hrun (h.stop rest hrest)

/-- `a*` on a text that `a` rejects matches empty -/
theorem IsTest.star_stop {a : Re} {P : Nat → Bool} (h : IsTest a P) (t : Text)
    (ht : ∀ d ∈ t.head?, P d = false) : ms (star a) t = [t] :=
  h.star_run [] t (by simp) ht

/-- `a+` on `c :: run ++ rest` -/
theorem IsTest.plus_run {a : Re} {P : Nat → Bool} (h : IsTest a P) (c : Nat) (run rest : Text)
    (hc : P c = true) (hrun : ∀ c ∈ run, P c = true) (hrest : ∀ d ∈ rest.head?, P d = false) :
    ms (seq a (star a)) (c :: (run ++ rest)) = backoffs run rest := by
  rw [ms_seq_single a _ _ _ (h.pos hc _)]
  exact h.star_run run rest hrun hrest

/-- a text splits into its maximal `P`-run and the remainder -/
theorem run_split (P : Nat → Bool) (t : Text) :
    ∃ run rest, t = run ++ rest ∧ (∀ c ∈ run, P c = true) ∧ (∀ d ∈ rest.head?, P d = false) ∧
      t.dropWhile P = rest := by
  induction t with
  | nil => exact ⟨[], [], rfl, by simp, by simp, rfl⟩
  | cons x xs ih =>
    cases hx : P x with
    | true =>
      obtain ⟨run, rest, h1, h2, h3, h4⟩ := ih
      refine ⟨x :: run, rest, by rw [h1]; rfl, ?_, h3, by simp [hx, h4]⟩
      intro c hc
      rcases List.mem_cons.mp hc with rfl | hc
      · exact hx
      · exact h2 c hc
    | false =>
      exact ⟨[], x :: xs, rfl, by simp, by simp [hx], by simp [hx]⟩

/-- `a* b …` where `b` is a test disjoint from `a`: fails unless the first character after the
`a`-run satisfies `b` -/
theorem IsTest.star_then_stop {a b : Re} {P Q : Nat → Bool} (ha : IsTest a P) (hb : IsTest b Q)
    (hdis : ∀ c, P c = true → Q c = false) (k : Re) (t : Text)
    (ht : ∀ d ∈ (t.dropWhile P).head?, Q d = false) : ms (seq (star a) (seq b k)) t = [] := by
  obtain ⟨run, rest, hsplit, hrun, hrest, hdw⟩ := run_split P t
  rw [hdw] at ht
  simp only [ms]
  have := ha.star_run _ _ hrun hrest
  rw [← hsplit] at this
  simp only [ms] at this
  rw [this]
  apply flatMap_eq_nil_of_forall
  intro u hu
  rcases backoffs_mem _ _ _ hu with rfl | ⟨c, post, rfl, hc⟩
  · exact hb.seq_stop k _ ht
  · exact hb.seq_stop k _ (fun d hd => by simp at hd; subst hd; exact hdis _ (hrun _ hc))

/-! ### unrolling a star -/

theorem flatMap_congr' {α β} (l : List α) (f g : α → List β) (h : ∀ x ∈ l, f x = g x) :
    l.flatMap f = l.flatMap g := by
  induction l with
  | nil => rfl
  | cons x xs ih =>
    simp only [List.flatMap_cons, h x List.mem_cons_self]
    rw [ih (fun y hy => h y (List.mem_cons_of_mem _ hy))]

/-- any fuel at least the length of the text gives the same iteration -/
theorem starIter_fuel (step : Text → List Text) :
    ∀ (n m : Nat) (s : Text), s.length ≤ n → s.length ≤ m → starIter step n s = starIter step m s := by
  intro n
  induction n with
  | zero =>
    intro m s hn _
    have hs : s = [] := List.eq_nil_of_length_eq_zero (Nat.le_zero.mp hn)
    subst hs
    cases m with
    | zero => rfl
    | succ m =>
      simp [starIter]
  | succ n ih =>
    intro m s hn hm
    cases m with
    | zero =>
      have hs : s = [] := List.eq_nil_of_length_eq_zero (Nat.le_zero.mp hm)
      subst hs
      simp [starIter]
    | succ m =>
      simp only [starIter]
      congr 1
      apply flatMap_congr'
      intro t ht
      have hlt : t.length < s.length := by
        have := (List.mem_filter.mp ht).2
        simpa using this
      exact ih m t (by omega) (by omega)

/-- `a* = (a a*)?` for a non-nullable body, as lists of successes -/
theorem ms_star_unroll (a : Re) (hn : nullable a = false) (s : Text) :
    ms (star a) s = (ms a s).flatMap (ms (star a)) ++ [s] := by
  have hfilter : (ms a s).filter (fun t => decide (t.length < s.length)) = ms a s := by
    apply List.filter_eq_self.mpr
    intro t ht
    simpa using ms_progress a hn s t ht
  cases s with
  | nil =>
    have : ms a [] = [] := ms_nil_of_not_nullable a hn
    simp [ms, starIter, this]
  | cons c s' =>
    simp only [ms, List.length_cons, starIter]
    simp only [List.length_cons] at hfilter
    rw [hfilter]
    congr 1
    apply flatMap_congr'
    intro t ht
    have hlt := ms_progress a hn (c :: s') t ht
    simp only [List.length_cons] at hlt
    exact starIter_fuel (ms a) _ _ t (by omega) (Nat.le_refl _)

/-- `a* k = a a* k | k` for a non-nullable body -/
theorem ms_star_seq_unroll (a k : Re) (hn : nullable a = false) (s : Text) :
    ms (seq (star a) k) s = ms (seq a (seq (star a) k)) s ++ ms k s := by
  rw [ms_seq, ms_star_unroll a hn s, List.flatMap_append, ms_seq]
  simp only [List.flatMap_cons, List.flatMap_nil, List.append_nil]
  congr 1
  rw [List.flatMap_assoc]
  apply flatMap_congr'
  intro t _
  rw [ms_seq]

theorem IsTest.progress {a : Re} {P : Nat → Bool} (h : IsTest a P) (s t : Text) (ht : t ∈ ms a s) :
    t.length < s.length := by
  cases s with
  | nil => rw [h.nil] at ht; cases ht
  | cons c s' =>
    rw [h.cons] at ht
    split at ht
    · simp at ht; subst ht; simp
    · cases ht

end CssVerif.Re
