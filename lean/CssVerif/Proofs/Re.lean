/-
Generic facts about the regex semantics `ms` and the executable matcher `m`.
-/
import CssVerif.Model.Re
namespace CssVerif.Re

theorem starIter_suffix {step : Text → List Text}
    (h : ∀ s t, t ∈ step s → t <:+ s) :
    ∀ n s t, t ∈ starIter step n s → t <:+ s := by
  intro n
  induction n with
  | zero => intro s t ht; simp [starIter] at ht; subst ht; exact List.suffix_refl _
  | succ n ih =>
    intro s t ht
    simp only [starIter, List.mem_append, List.mem_flatMap, List.mem_filter, List.mem_singleton] at ht
    rcases ht with ⟨u, ⟨hu, _⟩, htu⟩ | rfl
    · exact (ih u t htu).trans (h s u hu)
    · exact List.suffix_refl _

theorem lazyIter_suffix {step : Text → List Text}
    (h : ∀ s t, t ∈ step s → t <:+ s) :
    ∀ n s t, t ∈ lazyIter step n s → t <:+ s := by
  intro n
  induction n with
  | zero => intro s t ht; simp [lazyIter] at ht; subst ht; exact List.suffix_refl _
  | succ n ih =>
    intro s t ht
    simp only [lazyIter, List.mem_cons, List.mem_flatMap, List.mem_filter] at ht
    rcases ht with rfl | ⟨u, ⟨hu, _⟩, htu⟩
    · exact List.suffix_refl _
    · exact (ih u t htu).trans (h s u hu)

/-- every remainder is a suffix of the input -/
theorem ms_suffix : ∀ (r : Re) (s t : Text), t ∈ ms r s → t <:+ s := by
  intro r
  induction r with
  | eps => intro s t h; simp [ms] at h; subst h; exact List.suffix_refl _
  | cls neg rs =>
    intro s t h
    cases s with
    | nil => simp [ms] at h
    | cons c s =>
      simp only [ms] at h
      split at h
      · simp at h; subst h; exact List.suffix_cons _ _
      · simp at h
  | seq a b iha ihb =>
    intro s t h
    simp only [ms, List.mem_flatMap] at h
    obtain ⟨u, hu, ht⟩ := h
    exact (ihb u t ht).trans (iha s u hu)
  | alt a b iha ihb =>
    intro s t h
    simp only [ms, List.mem_append] at h
    rcases h with h | h
    · exact iha s t h
    · exact ihb s t h
  | star a iha => intro s t h; exact starIter_suffix iha _ s t h
  | opt a iha =>
    intro s t h
    simp only [ms, List.mem_append, List.mem_singleton] at h
    rcases h with h | rfl
    · exact iha s t h
    · exact List.suffix_refl _
  | lazyStar a iha => intro s t h; exact lazyIter_suffix iha _ s t h
  | ahead c =>
    intro s t h
    cases s with
    | nil => simp [ms] at h
    | cons d s =>
      simp only [ms] at h
      split at h
      · simp at h; subst h; exact List.suffix_refl _
      · simp at h
  | nahead neg rs =>
    intro s t h
    cases s with
    | nil => simp [ms] at h; subst h; exact List.suffix_refl _
    | cons d s =>
      simp only [ms] at h
      split at h
      · simp at h
      · simp at h; subst h; exact List.suffix_refl _

theorem ms_length_le (r : Re) (s t : Text) (h : t ∈ ms r s) : t.length ≤ s.length :=
  (ms_suffix r s t h).length_le

/-- a non-nullable expression consumes at least one character -/
theorem ms_progress : ∀ (r : Re), nullable r = false →
    ∀ (s t : Text), t ∈ ms r s → t.length < s.length := by
  intro r
  induction r with
  | eps => intro h; simp [nullable] at h
  | cls neg rs =>
    intro _ s t h
    cases s with
    | nil => simp [ms] at h
    | cons c s =>
      simp only [ms] at h
      split at h
      · simp at h; subst h; simp
      · simp at h
  | seq a b iha ihb =>
    intro hn s t h
    simp only [ms, List.mem_flatMap] at h
    obtain ⟨u, hu, ht⟩ := h
    simp only [nullable, Bool.and_eq_false_iff] at hn
    have h1 := ms_length_le a s u hu
    have h2 := ms_length_le b u t ht
    rcases hn with hn | hn
    · have := iha hn s u hu; omega
    · have := ihb hn u t ht; omega
  | alt a b iha ihb =>
    intro hn s t h
    simp only [nullable, Bool.or_eq_false_iff] at hn
    simp only [ms, List.mem_append] at h
    rcases h with h | h
    · exact iha hn.1 s t h
    · exact ihb hn.2 s t h
  | star a _ => intro h; simp [nullable] at h
  | opt a _ => intro h; simp [nullable] at h
  | lazyStar a _ => intro h; simp [nullable] at h
  | ahead c => intro h; simp [nullable] at h
  | nahead neg rs => intro h; simp [nullable] at h

theorem starIter_ne_nil (step : Text → List Text) (n : Nat) (s : Text) : starIter step n s ≠ [] := by
  cases n <;> simp [starIter]

theorem lazyIter_ne_nil (step : Text → List Text) (n : Nat) (s : Text) : lazyIter step n s ≠ [] := by
  cases n <;> simp [lazyIter]

theorem flatMap_ne_nil {α β} (l : List α) (f : α → List β) (hl : l ≠ []) (hf : ∀ x, f x ≠ []) :
    l.flatMap f ≠ [] := by
  cases l with
  | nil => exact absurd rfl hl
  | cons x xs =>
    simp only [List.flatMap_cons]
    intro h
    exact hf x (List.append_eq_nil_iff.mp h).1

/-- `total r` ⇒ `r` matches at the front of every text -/
theorem total_ms : ∀ (r : Re), covers.total r = true → ∀ s, ms r s ≠ [] := by
  intro r
  induction r with
  | eps => intro _ s; simp [ms]
  | cls neg rs => intro h; simp [covers.total] at h
  | seq a b iha ihb =>
    intro h s
    simp only [covers.total, Bool.and_eq_true] at h
    simp only [ms]
    exact flatMap_ne_nil _ _ (iha h.1 s) (fun x => ihb h.2 x)
  | alt a b iha ihb =>
    intro h s
    simp only [covers.total, Bool.or_eq_true] at h
    simp only [ms]
    intro hc
    have := List.append_eq_nil_iff.mp hc
    rcases h with h | h
    · exact iha h s this.1
    · exact ihb h s this.2
  | star a _ => intro _ s; exact starIter_ne_nil _ _ _
  | opt a _ => intro _ s; simp [ms]
  | lazyStar a _ => intro _ s; exact lazyIter_ne_nil _ _ _
  | ahead c => intro h; simp [covers.total] at h
  | nahead neg rs => intro h; simp [covers.total] at h

/-- `covers r c` ⇒ `r` matches at the front of every text that starts with `c` -/
theorem covers_ms : ∀ (r : Re) (c : Nat), covers r c = true → ∀ s, ms r (c :: s) ≠ [] := by
  intro r
  induction r with
  | eps => intro c _ s; simp [ms]
  | cls neg rs => intro c h s; simp only [covers] at h; simp [ms, h]
  | seq a b iha _ =>
    intro c h s
    simp only [covers, Bool.and_eq_true] at h
    simp only [ms]
    exact flatMap_ne_nil _ _ (iha c h.1 s) (fun x => total_ms b h.2 x)
  | alt a b iha ihb =>
    intro c h s
    simp only [covers, Bool.or_eq_true] at h
    simp only [ms]
    intro hc
    have := List.append_eq_nil_iff.mp hc
    rcases h with h | h
    · exact iha c h s this.1
    · exact ihb c h s this.2
  | star a _ => intro c _ s; exact starIter_ne_nil _ _ _
  | opt a _ => intro c _ s; simp [ms]
  | lazyStar a _ => intro c _ s; exact lazyIter_ne_nil _ _ _
  | ahead c => intro d h; simp [covers] at h
  | nahead neg rs => intro d h; simp [covers] at h

/-! ### the executable matcher computes the head of the list of successes -/

theorem findSome?_flatMap {α β γ} (l : List α) (f : α → List β) (k : β → Option γ) :
    (l.flatMap f).findSome? k = l.findSome? (fun a => (f a).findSome? k) := by
  induction l with
  | nil => simp
  | cons x xs ih => simp [List.findSome?_append, ih, List.findSome?_cons]; cases (f x).findSome? k <;> simp

theorem mStar_eq {α} (stepM : Text → (Text → Option α) → Option α) (step : Text → List Text)
    (h : ∀ s k, stepM s k = (step s).findSome? k) (k : Text → Option α) :
    ∀ n s, mStar stepM k n s = (starIter step n s).findSome? k := by
  intro n
  induction n with
  | zero => intro s; simp [mStar, starIter]
  | succ n ih =>
    intro s
    simp only [mStar, starIter, List.findSome?_append, findSome?_flatMap, h]
    have : (step s).findSome? (fun t => if t.length < s.length then mStar stepM k n t else none)
         = ((step s).filter (fun t => t.length < s.length)).findSome? (fun a => (starIter step n a).findSome? k) := by
      simp only [ih]
      generalize step s = l
      induction l with
      | nil => simp
      | cons x xs ihx =>
        simp only [List.findSome?_cons, List.filter_cons]
        by_cases hx : x.length < s.length
        · simp only [hx, if_true, decide_true, List.findSome?_cons]
          cases (starIter step n x).findSome? k <;> simp [ihx]
        · simp [hx, ihx]
    rw [this]
    cases ((step s).filter (fun t => t.length < s.length)).findSome? (fun a => (starIter step n a).findSome? k) <;> simp

theorem mLazy_eq {α} (stepM : Text → (Text → Option α) → Option α) (step : Text → List Text)
    (h : ∀ s k, stepM s k = (step s).findSome? k) (k : Text → Option α) :
    ∀ n s, mLazy stepM k n s = (lazyIter step n s).findSome? k := by
  intro n
  induction n with
  | zero => intro s; simp [mLazy, lazyIter]
  | succ n ih =>
    intro s
    simp only [mLazy, lazyIter, List.findSome?_cons, findSome?_flatMap, h]
    have : (step s).findSome? (fun t => if t.length < s.length then mLazy stepM k n t else none)
         = ((step s).filter (fun t => t.length < s.length)).findSome? (fun a => (lazyIter step n a).findSome? k) := by
      simp only [ih]
      generalize step s = l
      induction l with
      | nil => simp
      | cons x xs ihx =>
        simp only [List.findSome?_cons, List.filter_cons]
        by_cases hx : x.length < s.length
        · simp only [hx, if_true, decide_true, List.findSome?_cons]
          cases (lazyIter step n x).findSome? k <;> simp [ihx]
        · simp [hx, ihx]
    rw [this]
    cases k s <;> simp

theorem m_eq_ms {α} : ∀ (r : Re) (s : Text) (k : Text → Option α), m r s k = (ms r s).findSome? k := by
  intro r
  induction r with
  | eps => intro s k; simp [m, ms]
  | cls neg rs =>
    intro s k
    cases s with
    | nil => simp [m, ms]
    | cons c s =>
      simp only [m, ms]
      split
      · simp
      · simp
  | seq a b iha ihb =>
    intro s k
    simp only [m, ms, findSome?_flatMap, iha]
    congr 1
    funext t
    exact ihb t k
  | alt a b iha ihb =>
    intro s k
    simp only [m, ms, List.findSome?_append, iha, ihb]
    cases (ms a s).findSome? k <;> simp
  | star a iha => intro s k; simp only [m, ms]; exact mStar_eq _ _ iha k _ s
  | opt a iha =>
    intro s k
    simp only [m, ms, List.findSome?_append, iha]
    cases (ms a s).findSome? k <;> simp
  | lazyStar a iha => intro s k; simp only [m, ms]; exact mLazy_eq _ _ iha k _ s
  | ahead c =>
    intro s k
    cases s with
    | nil => simp [m, ms]
    | cons d s =>
      simp only [m, ms]
      split
      · simp
      · simp
  | nahead neg rs =>
    intro s k
    cases s with
    | nil => simp [m, ms]
    | cons d s =>
      simp only [m, ms]
      split
      · simp
      · simp

/-- `exec` is `re.match`: the head of the list of successes -/
theorem exec_eq_head (r : Re) (s : Text) : exec r s = (ms r s).head? := by
  simp only [exec, m_eq_ms]
  generalize ms r s = l
  cases l <;> simp

theorem exec_suffix (r : Re) (s t : Text) (h : exec r s = some t) : t <:+ s := by
  rw [exec_eq_head] at h
  exact ms_suffix r s t (List.mem_of_mem_head? h)

theorem exec_progress (r : Re) (hn : nullable r = false) (s t : Text) (h : exec r s = some t) :
    t.length < s.length := by
  rw [exec_eq_head] at h
  exact ms_progress r hn s t (List.mem_of_mem_head? h)

theorem exec_isSome_of_ne_nil (r : Re) (s : Text) (h : ms r s ≠ []) : (exec r s).isSome := by
  rw [exec_eq_head]
  cases hl : ms r s with
  | nil => exact absurd hl h
  | cons x xs => simp

end CssVerif.Re
