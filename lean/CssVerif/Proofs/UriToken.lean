/-
The text written by `helper.uri` is one URI token.

The expected shape of the URI production (`uriRe`: `{U}{R}{L}\({w}({string}|{urlchar}*){w}\)`, the letter
macros allowing escapes) is defined here; that the regenerated table has this shape is an obligation
discharged by `rfl`/`decide` in Props/C12.lean (`gen_uri_layout`).  The lemmas give the *first* success
(what `re.match` returns) of the production on `url(` body `)` for the two forms the writer uses: a bare
body of characters that do not force quoting, and a quoted body in which every `"` is written `\"`.
-/
import CssVerif.Proofs.ClassifyMore
import CssVerif.Proofs.Urls
namespace CssVerif
open Re Urls

/-! ### greedy star: first success over blocks the body consumes whole -/

theorem star_head_step (a : Re) (hn : nullable a = false) (s s' t : Text) (h : ms a s = [s'])
    (ih : (ms (.star a) s').head? = some t) : (ms (.star a) s).head? = some t := by
  rw [ms_star_unroll a hn s, h]
  simp only [List.flatMap_cons, List.flatMap_nil, List.append_nil, List.head?_append, ih]
  rfl

theorem star_stop_single (a : Re) (hn : nullable a = false) (t : Text) (h : ms a t = []) :
    ms (.star a) t = [t] := by
  rw [ms_star_unroll a hn t, h]; rfl

/-! ### the letters `U`, `R`, `L` -/

/-- a letter expression (`U|u|\…`) consumes exactly the letter first -/
theorem letter_head (a : Re) (U u x : Nat) (ha : letterOK a U u = true) (hcov : covers a x = true)
    (hx : x ≠ 92) (s : Text) : (ms a (x :: s)).head? = some s := by
  have hne := covers_ms a x hcov s
  cases h : ms a (x :: s) with
  | nil => exact absurd h hne
  | cons t ts =>
    have := (letterOK_spec a U u ha x s hx t (by rw [h]; exact List.mem_cons_self)).1
    rw [this]; rfl

/-! ### the URI production -/

def rparR : Re := .cls false [(41, 41)]

theorem test_rpar : IsTest rparR (fun c => c == 41) :=
  (isTest_cls _ _).congr (fun c => by
    rw [Bool.eq_iff_iff]; simp [clsMatch, inRanges]; omega)

/-- `{w}\)` -/
def closeRe : Re := .seq (.star wsR) rparR

/-- `({string}|{urlchar}*){w}\)`; `B` is what may follow the backslash of an escape -/
def uriTail (rsU : List (Nat × Nat)) (A B : Re) : Re :=
  .seq (.alt (stringRe A B) (.star (nmRe rsU B))) closeRe

/-- `{U}{R}{L}\({w}({string}|{urlchar}*){w}\)` -/
def uriRe (a b c : Re) (rsU : List (Nat × Nat)) (A B : Re) : Re :=
  .seq a (.seq b (.seq c (.seq lparR (.seq (.star wsR) (uriTail rsU A B)))))

theorem close_head (rest : Text) : ms closeRe (41 :: rest) = [rest] := by
  unfold closeRe
  rw [ms_seq, test_ws.star_stop (41 :: rest) (by intro d hd; simp at hd; subst hd; decide)]
  simp only [List.flatMap_cons, List.flatMap_nil, List.append_nil]
  exact test_rpar.pos (by rfl) rest

theorem close_nil (c : Nat) (post : Text) (hws : isWsC c = false) (h41 : c ≠ 41) :
    ms closeRe (c :: post) = [] := by
  unfold closeRe
  rw [ms_seq, test_ws.star_stop (c :: post) (by intro d hd; simp at hd; subst hd; exact hws)]
  simp only [List.flatMap_cons, List.flatMap_nil, List.append_nil]
  exact test_rpar.neg (by simpa using h41) post

/-! ### bare body -/

/-- the class of `{urlchar}` lies in ASCII, contains every ASCII character that does not force quotes
(other than the backslash), and does not contain `)`: decidable on a concrete class -/
def urlClsOK (rsU : List (Nat × Nat)) : Bool :=
  rsU.all (fun lh => lh.2 < 128) &&
    (List.range 128).all (fun c => forbidden true c || c == 92 || inRanges c rsU) && !inRanges 41 rsU

def isUrlChar (rsU : List (Nat × Nat)) (c : Nat) : Bool := clsMatch false rsU c || decide (128 ≤ c)

theorem test_urlchar (rsU : List (Nat × Nat)) (B : Re) (hok : urlClsOK rsU = true) :
    IsTestNB (nmRe rsU B) (isUrlChar rsU) := by
  simp only [urlClsOK, Bool.and_eq_true] at hok
  refine test_nm rsU B _ (fun _ => rfl) ?_
  intro c hc
  apply Nat.lt_of_not_le
  intro hge
  have := inRanges_false_of_bounded 128 c hge rsU hok.1.1
  simp [clsMatch, this] at hc

/-- what "does not force quotes" means, character by character -/
theorem forbidden_facts {c : Nat} (h : forbidden true c = false) :
    33 ≤ c ∧ c ≠ 34 ∧ c ≠ 39 ∧ c ≠ 40 ∧ c ≠ 41 ∧ c ≠ 44 ∧ c ≠ 59 ∧ c ≠ 127 ∧ isWsC c = false := by
  simp only [forbidden, isSpace, Bool.true_and, Bool.or_eq_false_iff, Bool.and_eq_false_iff, beq_eq_false_iff_ne,
    ne_eq, decide_eq_false_iff_not, Nat.not_le, Nat.not_lt] at h
  simp only [isWsC, Bool.or_eq_false_iff, decide_eq_false_iff_not]
  omega

theorem urlchar_of_bare (rsU : List (Nat × Nat)) (hok : urlClsOK rsU = true) {c : Nat}
    (hf : forbidden true c = false) (hb : c ≠ 92) : isUrlChar rsU c = true := by
  simp only [urlClsOK, Bool.and_eq_true] at hok
  by_cases hlt : c < 128
  · have := List.all_eq_true.mp hok.1.2 c (List.mem_range.mpr hlt)
    simp only [hf, Bool.false_or, Bool.or_eq_true, beq_iff_eq] at this
    rcases this with h | h
    · exact absurd h hb
    · simp [isUrlChar, clsMatch, h]
  · simp only [isUrlChar, Bool.or_eq_true, decide_eq_true_eq]
    right; omega

theorem head_append_cons (u : Text) (x : Nat) (rest : Text) :
    ∀ d ∈ (u ++ x :: rest).head?, d = x ∨ d ∈ u := by
  intro d hd
  cases u with
  | nil => simp at hd; exact Or.inl hd.symm
  | cons c cs => simp at hd; subst hd; exact Or.inr List.mem_cons_self

/-- a string does not start at a character other than a quote -/
theorem string_nil (A B : Re) (t : Text) (ht : ∀ d ∈ t.head?, d ≠ 34 ∧ d ≠ 39) : ms (stringRe A B) t = [] := by
  unfold stringRe
  rw [ms_alt, test_dq.seq_stop _ t (fun d hd => by simpa using (ht d hd).1),
    test_sq.seq_stop _ t (fun d hd => by simpa using (ht d hd).2)]
  rfl

/-- bare body: exactly one success, right after the closing bracket -/
theorem ms_uriTail_bare (rsU : List (Nat × Nat)) (A B : Re) (hok : urlClsOK rsU = true) (u rest : Text)
    (hu : ∀ c ∈ u, forbidden true c = false ∧ c ≠ 92) : ms (uriTail rsU A B) (u ++ 41 :: rest) = [rest] := by
  have h41 : isUrlChar rsU 41 = false := by
    simp only [urlClsOK, Bool.and_eq_true, Bool.not_eq_true'] at hok
    simp [isUrlChar, clsMatch, hok.2]
  unfold uriTail
  rw [ms_seq, ms_alt, string_nil A B _ (fun d hd => by
      rcases head_append_cons u 41 rest d hd with rfl | h
      · decide
      · have := forbidden_facts (hu d h).1
        exact ⟨this.2.1, this.2.2.1⟩),
    List.nil_append,
    (test_urlchar rsU B hok).star_run u (41 :: rest)
      (fun c hc => ⟨urlchar_of_bare rsU hok (hu c hc).1 (hu c hc).2, (hu c hc).2⟩)
      (by intro d hd; simp at hd; subst hd; exact ⟨h41, by decide⟩),
    backoffs_flatMap]
  · exact close_head rest
  · intro c hc post
    have := forbidden_facts (hu c hc).1
    exact close_nil c post this.2.2.2.2.2.2.2.2 this.2.2.2.2.1

/-! ### quoted body -/

/-- `\"` is consumed whole by the string-character expression: the escape `\` *non-hex* takes it, the
line continuation `\` *newline* and the `\` *hex…* escape do not -/
theorem ms_strChar_esc (rs : List (Nat × Nat)) (A B1 : Re) (rsB : List (Nat × Nat))
    (hrs : clsMatch true rs 92 = false) (hA : canStart A 34 = false) (hB1 : canStart B1 34 = false)
    (hB : clsMatch true rsB 34 = true) (s : Text) :
    ms (strCharRe rs A (.alt B1 (.cls true rsB))) (92 :: 34 :: s) = [s] := by
  have hbs : ms bsR (92 :: 34 :: s) = [34 :: s] := test_bs.pos (by rfl) _
  unfold strCharRe
  rw [ms_alt, ms_alt, ms_seq, ms_seq, hbs]
  simp only [List.flatMap_cons, List.flatMap_nil, List.append_nil]
  rw [canStart_false A 34 s hA, ms_alt, canStart_false B1 34 s hB1]
  simp [ms, hrs, hB]

theorem strChar_not_nullable (rs : List (Nat × Nat)) (A B : Re) : nullable (strCharRe rs A B) = false := by
  simp [strCharRe, bsR, nullable]

/-- the escaped body `escQ u` (every `"` written `\"`) is consumed whole, greedily, up to the closing quote -/
theorem star_strChar_escQ (A B1 : Re) (rsB : List (Nat × Nat))
    (hA : canStart A 34 = false) (hB1 : canStart B1 34 = false) (hB : clsMatch true rsB 34 = true)
    (rest : Text) : ∀ u : Text, (∀ c ∈ u, c ≠ 92 ∧ c ≠ 10 ∧ c ≠ 12 ∧ c ≠ 13) →
      (ms (.star (strCharRe dqEx A (.alt B1 (.cls true rsB)))) (escQ u ++ 34 :: rest)).head? =
        some (34 :: rest) := by
  intro u
  induction u with
  | nil =>
    intro _
    have : ms (strCharRe dqEx A (.alt B1 (.cls true rsB))) (34 :: rest) = [] :=
      (test_strChar dqEx A _).stop _ (by intro d hd; simp at hd; subst hd; exact ⟨by decide, by decide⟩)
    simp only [escQ, List.flatMap_nil, List.nil_append]
    rw [star_stop_single _ (strChar_not_nullable _ _ _) _ this]; rfl
  | cons c u ih =>
    intro hu
    have ih' := ih (fun x hx => hu x (List.mem_cons_of_mem _ hx))
    have hc := hu c List.mem_cons_self
    have hcons : escQ (c :: u) = (if c = 34 then [92, 34] else [c]) ++ escQ u := by simp [escQ]
    rw [hcons]
    by_cases h : c = 34
    · subst h
      simp only [if_true, List.cons_append, List.nil_append]
      exact star_head_step _ (strChar_not_nullable _ _ _) _ _ _
        (ms_strChar_esc dqEx A B1 rsB (by decide) hA hB1 hB _) ih'
    · simp only [h, if_false, List.cons_append, List.nil_append]
      refine star_head_step _ (strChar_not_nullable _ _ _) _ _ _
        ((test_strChar dqEx A _).pos hc.1 ?_ _) ih'
      rw [dqEx_spec]
      simp [isStrChar, hc.1, hc.2.1, hc.2.2.1, hc.2.2.2, h]

/-- quoted body: the first success is right after the closing bracket -/
theorem ms_uriTail_quoted (rsU : List (Nat × Nat)) (A B1 : Re) (rsB : List (Nat × Nat))
    (hA : canStart A 34 = false) (hB1 : canStart B1 34 = false) (hB : clsMatch true rsB 34 = true)
    (u rest : Text) (hu : ∀ c ∈ u, c ≠ 92 ∧ c ≠ 10 ∧ c ≠ 12 ∧ c ≠ 13) :
    (ms (uriTail rsU A (.alt B1 (.cls true rsB))) (34 :: (escQ u ++ 34 :: 41 :: rest))).head? = some rest := by
  unfold uriTail
  rw [ms_seq]
  apply head?_flatMap_of_head _ _ (41 :: rest) rest _ (by rw [close_head]; rfl)
  rw [ms_alt, List.head?_append]
  have : (ms (stringRe A (.alt B1 (.cls true rsB))) (34 :: (escQ u ++ 34 :: 41 :: rest))).head? =
      some (41 :: rest) := by
    unfold stringRe
    rw [ms_alt, List.head?_append, ms_seq_single _ _ _ _ (test_dq.pos (by rfl) _), ms_seq]
    rw [head?_flatMap_of_head _ _ (34 :: 41 :: rest) (41 :: rest)
      (star_strChar_escQ A B1 rsB hA hB1 hB (41 :: rest) u hu) (by rw [test_dq.pos (by rfl)]; rfl)]
    rfl
  rw [this]; rfl

/-! ### the whole production on `url(` body `)` -/

/-- hypotheses on the three letter expressions -/
structure UrlLetters (a b c : Re) : Prop where
  la : letterOK a 85 117 = true
  lb : letterOK b 82 114 = true
  lc : letterOK c 76 108 = true
  ca : covers a 117 = true
  cb : covers b 114 = true
  cc : covers c 108 = true

/-- `url(` then a text on which the tail's first success is `rest`, whose first character is not CSS
white space -/
theorem ms_uri_head (a b c : Re) (rsU : List (Nat × Nat)) (A B : Re) (hl : UrlLetters a b c)
    (body rest : Text) (hws : ∀ d ∈ body.head?, isWsC d = false)
    (htail : (ms (uriTail rsU A B) body).head? = some rest) :
    (ms (uriRe a b c rsU A B) (117 :: 114 :: 108 :: 40 :: body)).head? = some rest := by
  unfold uriRe
  rw [ms_seq]
  apply head?_flatMap_of_head _ _ _ _ (letter_head a 85 117 117 hl.la hl.ca (by decide) _)
  rw [ms_seq]
  apply head?_flatMap_of_head _ _ _ _ (letter_head b 82 114 114 hl.lb hl.cb (by decide) _)
  rw [ms_seq]
  apply head?_flatMap_of_head _ _ _ _ (letter_head c 76 108 108 hl.lc hl.cc (by decide) _)
  rw [ms_seq_single _ _ _ _ (test_lpar.pos (by rfl) _), ms_seq_single _ _ _ _ (test_ws.star_stop body hws)]
  exact htail

/-! ### the written text -/

/-- the URL strings of the property: no backslash, no newline, form feed or carriage return -/
def UrlOK (u : Url) : Prop := ∀ c ∈ u, c ≠ 92 ∧ c ≠ 10 ∧ c ≠ 12 ∧ c ≠ 13

instance (u : Url) : Decidable (UrlOK u) := by unfold UrlOK; infer_instance

theorem UrlOK.safe {u : Url} (h : UrlOK u) : Safe u := fun c hc => (h c hc).1

theorem none_forbidden {u : Url} (hq : ¬ u.any (forbidden true) = true) : ∀ c ∈ u, forbidden true c = false := by
  intro c hc
  cases hf : forbidden true c with
  | false => rfl
  | true => exact absurd (List.any_eq_true.2 ⟨c, hc, hf⟩) hq

/-- the two forms `helper.uri` writes -/
theorem cssUri_forms (u : Url) (hs : Safe u) :
    cssUri true u = 117 :: 114 :: 108 :: 40 ::
      (if u.any (forbidden true) = true then 34 :: (escQ u ++ [34, 41]) else u ++ [41]) := by
  simp only [cssUri]
  split
  · rw [cssString_safe u hs]; simp
  · simp

theorem cssUri_head (a b c : Re) (rsU : List (Nat × Nat)) (A B1 : Re) (rsB : List (Nat × Nat))
    (hl : UrlLetters a b c) (hok : urlClsOK rsU = true)
    (hA : canStart A 34 = false) (hB1 : canStart B1 34 = false) (hB : clsMatch true rsB 34 = true)
    (u rest : Text) (hu : UrlOK u) :
    (ms (uriRe a b c rsU A (.alt B1 (.cls true rsB))) (cssUri true u ++ rest)).head? = some rest := by
  rw [cssUri_forms u hu.safe]
  by_cases hq : u.any (forbidden true) = true
  · simp only [hq, if_true, List.cons_append, List.append_assoc, List.nil_append]
    exact ms_uri_head a b c rsU A _ hl _ rest (by intro d hd; simp at hd; subst hd; decide)
      (ms_uriTail_quoted rsU A B1 rsB hA hB1 hB u rest hu)
  · simp only [hq, Bool.false_eq_true, if_false, List.cons_append, List.append_assoc, List.nil_append]
    have hnf := none_forbidden hq
    refine ms_uri_head a b c rsU A _ hl _ rest ?_ ?_
    · intro d hd
      rcases head_append_cons u 41 rest d hd with rfl | h
      · decide
      · exact (forbidden_facts (hnf d h)).2.2.2.2.2.2.2.2
    · rw [ms_uriTail_bare rsU A _ hok u rest (fun c hc => ⟨hnf c hc, (hu c hc).1⟩)]; rfl

/-! ### the value: `\"` is not rewritten -/

/-- every backslash is followed by a double quote -/
def EscQuote : Text → Prop
  | [] => True
  | c :: r => (c = 92 → r.head? = some 34) ∧ EscQuote r

theorem reSub_escQuote (X : Re) (hX : canStart X 34 = false) (f : Text → Text) :
    ∀ (n : Nat) (s : Text), EscQuote s → reSub (.seq (.cls false [(92, 92)]) X) f n s = s := by
  intro n
  induction n with
  | zero => intro s _; simp [reSub]
  | succ n ih =>
    intro s hs
    cases s with
    | nil => simp [reSub]
    | cons c s =>
      have hnone : exec (.seq (.cls false [(92, 92)]) X) (c :: s) = none := by
        by_cases hc : c = 92
        · subst hc
          have := hs.1 rfl
          cases s with
          | nil => cases this
          | cons d r =>
            simp only [List.head?_cons, Option.some.injEq] at this
            subst this
            apply exec_none_of_ms_nil
            have hb : ms bsR (92 :: 34 :: r) = [34 :: r] := test_bs.pos (by rfl) _
            unfold bsR at hb
            rw [ms_seq_single _ _ _ _ hb]
            exact canStart_false X 34 r hX
        · exact exec_backslash_none _ rfl c s hc
      simp only [reSub]
      rw [hnone]
      simp only
      rw [ih s hs.2]

theorem EscQuote_of_nobs {t : Text} (h : ∀ c ∈ t, c ≠ 92) : EscQuote t := by
  induction t with
  | nil => trivial
  | cons c r ih =>
    exact ⟨fun hc => absurd hc (h c List.mem_cons_self), ih (fun x hx => h x (List.mem_cons_of_mem _ hx))⟩

theorem EscQuote_escQ (u t : Text) (hu : Safe u) (ht : EscQuote t) : EscQuote (escQ u ++ t) := by
  induction u with
  | nil => simpa [escQ] using ht
  | cons c u ih =>
    have ih' := ih (fun x hx => hu x (List.mem_cons_of_mem _ hx))
    have hc : c ≠ 92 := hu c List.mem_cons_self
    have hcons : escQ (c :: u) = (if c = 34 then [92, 34] else [c]) ++ escQ u := by simp [escQ]
    rw [hcons]
    by_cases h : c = 34
    · subst h
      simp only [if_true, List.cons_append, List.nil_append]
      exact ⟨fun _ => rfl, fun h => absurd h (by decide), ih'⟩
    · simp only [h, if_false, List.cons_append, List.nil_append]
      exact ⟨fun h' => absurd h' hc, ih'⟩

theorem EscQuote_cssUri (u : Url) (hs : Safe u) : EscQuote (cssUri true u) := by
  rw [cssUri_forms u hs]
  refine ⟨fun h => absurd h (by decide), fun h => absurd h (by decide), fun h => absurd h (by decide),
    fun h => absurd h (by decide), ?_⟩
  split
  · refine ⟨fun h => absurd h (by decide), ?_⟩
    exact EscQuote_escQ u _ hs (EscQuote_of_nobs (by decide))
  · apply EscQuote_of_nobs
    intro c hc
    rcases List.mem_append.mp hc with h | h
    · exact hs c h
    · simp at h; omega

/-- what `finish` does outside full-sheet mode for a URI match in which every backslash is followed by a
double quote: the value is the match (`\"` is not a `\hex` escape) -/
theorem finish_uri (T : Tables) (X : Re) (hsub : T.unicodesub = .seq (.cls false [(92, 92)]) X)
    (hX : canStart X 34 = false) (hesc : T.escTypes.contains "URI" = true)
    (cfg : Cfg) (hfs : cfg.fullsheet = false) (hdc : cfg.doComments = true) (st : St) (found rem : Text)
    (hq : EscQuote found) :
    finish T cfg st "URI" found rem =
      { emit := some ⟨"URI", found, st.line, st.col⟩, raw := found, st := advance st found } := by
  have hv : unicodeSub T found = found := by
    unfold unicodeSub
    rw [hsub]
    exact reSub_escQuote X hX _ _ _ hq
  have hesc' : "URI" ∈ T.escTypes := by simpa using hesc
  simp [finish, finishName, finishVal, hfs, hdc, hesc', hv]

end CssVerif
