/-
Composition lemmas for C09: from per-lexeme "first token" statements about `step` to a statement about
the whole `loop` / `tokenize` on a concatenation of lexemes.

Everything here is generic in the lexeme type `α`: a lexeme is rendered by `render`, its expected
token is `exp`, and `P prev a rest` is the side condition under which `step` on `render a ++ rest`
(previous character `prev`) produces exactly that token.  `Spaced` threads `P` through a list; the
instance for the CSS lexemes lives in Props/C09.lean.
-/
import CssVerif.Proofs.ClassifyMore
import CssVerif.Gen.Productions
namespace CssVerif
open Re

/-! ### unfolding the loop -/

theorem loop_nil (T : Tables) (cfg : Cfg) (n : Nat) (st : St) (h : st.rest = []) :
    loop T cfg n st = ([], st, .done) := by
  cases n with
  | zero => simp [loop, h]
  | succ n => simp only [loop]; split <;> simp_all

theorem loop_succ_of_step (T : Tables) (cfg : Cfg) (n : Nat) (st : St) (r : Res) (hne : st.rest ≠ [])
    (h : step T cfg st = some r) :
    loop T cfg (n + 1) st =
      ((r.emit, r.raw) :: (loop T cfg n r.st).1, (loop T cfg n r.st).2.1, (loop T cfg n r.st).2.2) := by
  simp only [loop]
  split
  · rename_i hr; exact absurd hr hne
  · split
    · rename_i hnone; rw [h] at hnone; cases hnone
    · rename_i r' hsome
      rw [h] at hsome
      cases hsome
      rfl

/-! ### a list of lexemes, each of which `step` classifies under its side condition -/

section
variable {α : Type} (render : α → Text) (P : Option Nat → α → Text → Prop)

/-- the side condition `P` holds at every lexeme of the list, with the previous character and the
remaining text the tokenizer will see there -/
def Spaced : Option Nat → List α → Prop
  | _, [] => True
  | prev, a :: ls => P prev a (ls.flatMap render) ∧ Spaced (render a).getLast? ls

/-- what the projection of one loop item to (type, value) and raw text is -/
def itemView (it : Option Tok × Text) : Option (String × Text) × Text :=
  (it.1.map (fun t => (t.typ, t.val)), it.2)

/-- **composition.**  If `step` classifies every lexeme under `P`, the loop started on the
concatenation of a `Spaced` list returns exactly the expected tokens with the lexemes as raw texts,
and ends because the text is used up. -/
theorem loop_spaced (T : Tables) (cfg : Cfg) (exp : α → String × Text)
    (hstep : ∀ (st : St) (a : α) (rest : Text), P st.prev a rest → st.rest = render a ++ rest →
      render a ≠ [] ∧ ∃ r, step T cfg st = some r ∧ r.emit.map (fun t => (t.typ, t.val)) = some (exp a) ∧
        r.raw = render a ∧ r.st.prev = (render a).getLast? ∧ r.st.rest = rest) :
    ∀ (ls : List α) (fuel : Nat) (st : St), st.rest = ls.flatMap render → Spaced render P st.prev ls →
      st.rest.length ≤ fuel →
      (loop T cfg fuel st).1.map itemView = ls.map (fun a => (some (exp a), render a)) ∧
        (loop T cfg fuel st).2.2 = .done := by
  intro ls
  induction ls with
  | nil =>
    intro fuel st hr _ _
    rw [loop_nil T cfg fuel st (by simpa using hr)]
    exact ⟨rfl, rfl⟩
  | cons a ls ih =>
    intro fuel st hr hsp hfuel
    obtain ⟨hP, hsp'⟩ := hsp
    rw [List.flatMap_cons] at hr
    obtain ⟨hne, r, hs, hemit, hraw, hprev, hrest⟩ := hstep st a _ hP hr
    have hlen : 0 < (render a).length := List.length_pos_iff.mpr hne
    have hstne : st.rest ≠ [] := by
      rw [hr]; intro h
      exact hne (List.append_eq_nil_iff.mp h).1
    have hl : st.rest.length = (render a).length + (ls.flatMap render).length := by rw [hr]; simp
    cases fuel with
    | zero => omega
    | succ n =>
      rw [loop_succ_of_step T cfg n st r hstne hs]
      have := ih n r.st hrest (hprev ▸ hsp') (by rw [hrest]; omega)
      refine ⟨?_, this.2⟩
      simp only [List.map_cons, this.1]
      congr 1
      simp [itemView, hemit, hraw]

end

/-! ### the prelude does nothing on a text without byte-order mark and without leading `@charset␠` -/

/-- the text starts with one of the two byte-order-mark spellings the tokenizer looks for
(`þÿ` = FE FF, `ï»¿` = EF BB BF, as code points) -/
def startsWithBom (s : Text) : Bool := hasAt s [254, 255] || hasAt s [239, 187, 191]

theorem ms_lit (a : Nat) (s : Text) :
    ms (.cls false [(a, a)]) s = match s with | [] => [] | c :: t => if c = a then [t] else [] := by
  cases s with
  | nil => simp [ms]
  | cons c t =>
    by_cases h : c = a
    · subst h; simp [ms, clsMatch, inRanges]
    · have : ¬ (a ≤ c ∧ c ≤ a) := by omega
      simp [ms, clsMatch, inRanges, h, this]

theorem ms_lit_seq (a : Nat) (K : Re) (s : Text) :
    ms (.seq (.cls false [(a, a)]) K) s = match s with | [] => [] | c :: t => if c = a then ms K t else [] := by
  rw [ms_seq, ms_lit]
  cases s with
  | nil => rfl
  | cons c t => by_cases h : c = a <;> simp [h]

theorem gen_bom_none (s : Text) (h : startsWithBom s = false) : exec Gen.tables.bom s = none := by
  apply exec_none_of_ms_nil
  simp only [startsWithBom, hasAt, Bool.or_eq_false_iff] at h
  show ms Gen.bom s = []
  simp only [Gen.bom, Gen.r0, Gen.r1, ms_alt, ms_lit_seq, ms_lit]
  rcases s with _ | ⟨a, _ | ⟨b, _ | ⟨c, t⟩⟩⟩
  · rfl
  · by_cases ha : a = 254 <;> by_cases hb : a = 239 <;> simp [ha, hb]
  · have h1' : ¬ (a = 254 ∧ b = 255) := by
      rintro ⟨rfl, rfl⟩; simp [List.isPrefixOf] at h
    by_cases ha : a = 254 <;> by_cases hb : a = 239 <;> by_cases hc : b = 255 <;> by_cases hd : b = 187 <;>
      simp_all
  · have h1' : ¬ (a = 254 ∧ b = 255) := by
      rintro ⟨rfl, rfl⟩; simp [List.isPrefixOf] at h
    have h2' : ¬ (a = 239 ∧ b = 187 ∧ c = 191) := by
      rintro ⟨rfl, rfl, rfl⟩; simp [List.isPrefixOf] at h
    by_cases ha : a = 254 <;> by_cases hb : a = 239 <;> by_cases hc : b = 255 <;> by_cases hd : b = 187 <;>
      by_cases he : c = 191 <;> simp_all

theorem prelude_trivial (T : Tables) (s : Text) (hbom : exec T.bom s = none) (hcs : hasAt s charsetLit = false) :
    prelude T s = ([], { prev := none, rest := s, line := 1, col := 1 }) := by
  simp [prelude, hbom, hcs]

/-- outside full-sheet mode, on a text where the prelude does nothing, the tokens are those of the loop -/
theorem tokenize_of_trivial_prelude (T : Tables) (cfg : Cfg) (hfs : cfg.fullsheet = false) (s : Text)
    (hbom : exec T.bom s = none) (hcs : hasAt s charsetLit = false) :
    (tokenize T cfg s).items = (loop T cfg (s.length + 1) ⟨none, s, 1, 1⟩).1 ∧
    (tokenize T cfg s).eof = none := by
  simp [tokenize, prelude_trivial T s hbom hcs, hfs]

/-! ### a maximal run of name characters is determined by the text -/

theorem run_unique (p : Nat → Bool) : ∀ (a b r1 r2 : Text), (∀ x ∈ a, p x = true) → (∀ x ∈ b, p x = true) →
    (∀ d ∈ r1.head?, p d = false) → (∀ d ∈ r2.head?, p d = false) → a ++ r1 = b ++ r2 → a = b ∧ r1 = r2 := by
  intro a
  induction a with
  | nil =>
    intro b r1 r2 _ hb h1 _ heq
    cases b with
    | nil => exact ⟨rfl, by simpa using heq⟩
    | cons y ys =>
      simp only [List.nil_append, List.cons_append] at heq
      subst heq
      have := h1 y (by simp)
      rw [hb y List.mem_cons_self] at this
      cases this
  | cons x xs ih =>
    intro b r1 r2 ha hb h1 h2 heq
    cases b with
    | nil =>
      simp only [List.nil_append, List.cons_append] at heq
      subst heq
      have := h2 x (by simp)
      rw [ha x List.mem_cons_self] at this
      cases this
    | cons y ys =>
      simp only [List.cons_append, List.cons.injEq] at heq
      obtain ⟨rfl, heq⟩ := heq
      obtain ⟨h, h'⟩ := ih ys r1 r2 (fun z hz => ha z (List.mem_cons_of_mem _ hz))
        (fun z hz => hb z (List.mem_cons_of_mem _ hz)) h1 h2 heq
      exact ⟨by rw [h], h'⟩

/-! ### delimiters that an earlier production can start with: when that production fails -/

/-- the two-character operator `a=` fails on `a` not followed by `=` -/
theorem op_nil (a : Nat) (s : Text) (h : s.head? ≠ some 61) :
    ms (.seq (.cls false [(a, a)]) (.cls false [(61, 61)])) (a :: s) = [] := by
  rw [ms_lit_seq]
  simp only [if_true]
  rw [ms_lit]
  cases s with
  | nil => rfl
  | cons c t =>
    have : c ≠ 61 := by simpa using h
    simp [this]

/-- COMMENT fails on `/` not followed by `*` -/
theorem comment_nil (s : Text) (h : s.head? ≠ some 42) : ms commentRe (47 :: s) = [] := by
  unfold commentRe
  rw [ms_seq_single _ _ _ _ (test_slash.pos (by rfl) s)]
  refine test_star.seq_stop _ _ ?_
  intro d hd
  have hd' : s.head? = some d := by simpa using hd
  rw [hd'] at h
  simpa using h

/-- the number expression fails on `.` not followed by a digit -/
theorem num_nil_dot (s : Text) (h : ∀ d ∈ s.head?, isDigit d = false) : ms numRe (46 :: s) = [] := by
  have hs : ∀ d ∈ (46 :: s).head?, isSign d = false := by intro d hd; simp at hd; subst hd; rfl
  have hd : ∀ d ∈ (46 :: s).head?, isDigit d = false := by intro d hd; simp at hd; subst hd; rfl
  unfold numRe
  rw [ms_alt, ms_seq_single _ _ _ _ (test_sgn.opt_stop _ hs), ms_seq_single _ _ _ _ (test_sgn.opt_stop _ hs),
    ms_seq_single _ _ _ _ (test_dg.star_stop _ hd), ms_seq_single _ _ _ _ (test_dot.pos (by rfl) s),
    test_dg.seq_stop _ _ h, test_dg.seq_stop _ _ hd]
  rfl

/-- CDC fails on `-` not followed by `-` -/
theorem cdc_nil (s : Text) (h : s.head? ≠ some 45) :
    ms (.seq minusR (.seq minusR (.cls false [(62, 62)]))) (45 :: s) = [] := by
  rw [ms_seq_single _ _ _ _ (test_minus.pos (by rfl) s)]
  refine test_minus.seq_stop _ _ ?_
  intro d hd
  have hd' : s.head? = some d := by simpa using hd
  rw [hd'] at h
  simpa using h

/-- CDO fails on `<` not followed by `!` -/
theorem cdo_nil (K : Re) (s : Text) (h : s.head? ≠ some 33) :
    ms (.seq (.cls false [(60, 60)]) (.seq (.cls false [(33, 33)]) K)) (60 :: s) = [] := by
  rw [ms_lit_seq]
  simp only [if_true]
  rw [ms_lit_seq]
  cases s with
  | nil => rfl
  | cons c t =>
    have : c ≠ 33 := by simpa using h
    simp [this]

/-- HASH fails on `#` not followed by a name character or a backslash -/
theorem hash_nil (X : Re) (s : Text) (h : NameStop s) : ms (hashRe X) (35 :: s) = [] := by
  unfold hashRe
  rw [ms_seq_single _ _ _ _ ((isTest_cls false [(35, 35)]).pos (by decide) _)]
  exact ms_seq_nil_left _ _ _ ((test_nmchar X).stop s h)

/-- ATKEYWORD fails on `@` not followed by the start of an identifier -/
theorem at_nil (X : Re) (s : Text) (h : identStart s = false) : ms (atRe X) (64 :: s) = [] := by
  unfold atRe
  rw [ms_seq_single _ _ _ _ ((isTest_cls false [(64, 64)]).pos (by decide) _)]
  exact ident_nil X s h

end CssVerif
