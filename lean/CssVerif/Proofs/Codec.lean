/-
Stability of the detectors under extension of the input, and chunking invariance of the
incremental decoder.
-/
import CssVerif.Model.Codec
namespace CssVerif.Codec

/-! ### list helpers -/

theorem isPrefixOf_append_left {a p q : Text} (h : a.isPrefixOf p = true) : a.isPrefixOf (p ++ q) = true := by
  rw [List.isPrefixOf_iff_prefix] at h ⊢
  exact h.trans (List.prefix_append p q)

theorem isPrefixOf_of_append {a p q : Text} (hl : a.length ≤ p.length) (h : a.isPrefixOf (p ++ q) = true) :
    a.isPrefixOf p = true := by
  rw [List.isPrefixOf_iff_prefix] at h ⊢
  induction a generalizing p with
  | nil => exact List.nil_prefix
  | cons x xs ih =>
    cases p with
    | nil => simp at hl
    | cons y ys =>
      simp only [List.cons_append, List.cons_prefix_cons] at h ⊢
      exact ⟨h.1, ih (by simpa using hl) h.2⟩

theorem prefix_of_prefix_of_le {a b c : Text} (ha : a <+: c) (hb : b <+: c) (hl : a.length ≤ b.length) : a <+: b := by
  induction a generalizing b c with
  | nil => exact List.nil_prefix
  | cons x xs ih =>
    cases b with
    | nil => simp at hl
    | cons y ys =>
      cases c with
      | nil => simp at ha
      | cons z zs =>
        simp only [List.cons_prefix_cons] at ha hb ⊢
        exact ⟨ha.1.trans hb.1.symm, ih ha.2 hb.2 (by simpa using hl)⟩

/-! ### the first quote does not move when text is appended -/

theorem findQuote_append {t q : Text} {s pos : Nat} (hs : s ≤ t.length) (h : findQuote t s = some pos) :
    findQuote (t ++ q) s = some pos ∧ pos < t.length ∧ s ≤ pos := by
  unfold findQuote at h ⊢
  cases hf : (t.drop s).findIdx? (· == 34) with
  | none => rw [hf] at h; cases h
  | some i =>
    rw [hf] at h
    cases h
    have hlt : i < (t.drop s).length := by
      have := List.findIdx?_eq_some_iff_findIdx_eq.mp hf
      exact this.1
    rw [List.drop_append_of_le_length hs, List.findIdx?_append, hf]
    refine ⟨by simp, ?_, Nat.le_add_right _ _⟩
    simp only [List.length_drop] at hlt
    omega

/-! ### `_fixencoding` -/

theorem charsetPrefix_length : charsetPrefix.length = 10 := by decide

/-- once the header has been rewritten, appending more text just appends it to the result -/
theorem fix_stable (p q e : Text) (f : Bool) (t : Text) (h : fixEncoding p e false = some t) :
    fixEncoding (p ++ q) e f = some (t ++ q) := by
  unfold fixEncoding at h ⊢
  by_cases hlen : p.length > charsetPrefix.length
  · have hlen' : (p ++ q).length > charsetPrefix.length := by simp; omega
    simp only [hlen, hlen', if_true] at h ⊢
    by_cases hp : charsetPrefix.isPrefixOf p = true
    · simp only [hp, isPrefixOf_append_left hp, if_true] at h ⊢
      cases hq : findQuote p charsetPrefix.length with
      | none => simp [hq] at h
      | some pos =>
        simp only [hq] at h
        cases h
        obtain ⟨h1, h2, _⟩ := findQuote_append (q := q) (Nat.le_of_lt hlen) hq
        simp only [h1]
        rw [List.drop_append_of_le_length (Nat.le_of_lt h2)]
        simp [List.append_assoc]
    · have hp' : charsetPrefix.isPrefixOf (p ++ q) = false := by
        cases hb : charsetPrefix.isPrefixOf (p ++ q) with
        | false => rfl
        | true => exact absurd (isPrefixOf_of_append (Nat.le_of_lt hlen) hb) hp
      have hpf : charsetPrefix.isPrefixOf p = false := by
        cases hb : charsetPrefix.isPrefixOf p with
        | false => rfl
        | true => exact absurd hb hp
      simp only [hpf, hp', Bool.false_eq_true, if_false] at h ⊢
      cases h; rfl
  · simp only [hlen, if_false, Bool.or_false, Bool.not_eq_true'] at h
    have hnp : p.isPrefixOf charsetPrefix = false := by
      cases hb : p.isPrefixOf charsetPrefix with
      | false => rfl
      | true => simp [hb] at h
    simp only [hnp, Bool.not_false, if_true] at h
    cases h
    have hle : p.length ≤ charsetPrefix.length := Nat.le_of_not_gt hlen
    by_cases hlen2 : (p ++ q).length > charsetPrefix.length
    · simp only [hlen2, if_true]
      have : charsetPrefix.isPrefixOf (p ++ q) = false := by
        cases hb : charsetPrefix.isPrefixOf (p ++ q) with
        | false => rfl
        | true =>
          exfalso
          have h1 : charsetPrefix <+: p ++ q := List.isPrefixOf_iff_prefix.mp hb
          have h2 : p <+: p ++ q := List.prefix_append p q
          have := prefix_of_prefix_of_le h2 h1 hle
          rw [← List.isPrefixOf_iff_prefix] at this
          rw [this] at hnp; cases hnp
      simp [this]
    · simp only [hlen2, if_false]
      have : (p ++ q).isPrefixOf charsetPrefix = false := by
        cases hb : (p ++ q).isPrefixOf charsetPrefix with
        | false => rfl
        | true =>
          exfalso
          have h1 : p ++ q <+: charsetPrefix := List.isPrefixOf_iff_prefix.mp hb
          have := (List.prefix_append p q).trans h1
          rw [← List.isPrefixOf_iff_prefix] at this
          rw [this] at hnp; cases hnp
      simp [this]

/-- at the end of input the answer is never "don't know yet" -/
theorem fix_final (p e : Text) : (fixEncoding p e true).isSome = true := by
  unfold fixEncoding
  split
  · split
    · split <;> simp
    · simp
  · simp


/-! ### `detectencoding_str`: candidates only shrink, and a decision is never revised -/

theorem patOK_prefix : ∀ (ps : List (Option Nat)) (p q : Bytes), patOK ps (p ++ q) = true → patOK ps p = true := by
  intro ps
  induction ps with
  | nil => intro p q _; simp [patOK]
  | cons x xs ih =>
    intro p q h
    cases p with
    | nil => cases x <;> simp [patOK]
    | cons b bs =>
      cases x with
      | none => simp only [List.cons_append, patOK] at h ⊢; exact ih bs q h
      | some v =>
        simp only [List.cons_append, patOK, Bool.and_eq_true] at h ⊢
        exact ⟨h.1, ih bs q h.2⟩

theorem patOK_long : ∀ (ps : List (Option Nat)) (p q : Bytes), ps.length ≤ p.length →
    patOK ps (p ++ q) = patOK ps p := by
  intro ps
  induction ps with
  | nil => intro p q _; simp [patOK]
  | cons x xs ih =>
    intro p q hl
    cases p with
    | nil => simp at hl
    | cons b bs =>
      have hl' : xs.length ≤ bs.length := by simpa using hl
      cases x with
      | none => simp only [List.cons_append, patOK]; exact ih bs q hl'
      | some v => simp only [List.cons_append, patOK]; rw [ih bs q hl']

theorem pat_length (c : Cand) : (pat c).length = 4 := by cases c <;> rfl

theorem compat_long (c : Cand) (p q : Bytes) (h : 4 ≤ p.length) : compat c (p ++ q) = compat c p := by
  unfold compat
  rw [patOK_long _ _ _ (by rw [pat_length]; exact h)]
  have h1 : ((p ++ q).drop 2).take 2 = (p.drop 2).take 2 := by
    rw [List.drop_append_of_le_length (by omega), List.take_append_of_le_length (by simp; omega)]
  have h2 : (decide ((p ++ q).length ≥ 4)) = true := by simp; omega
  have h3 : (decide (p.length ≥ 4)) = true := by simp; omega
  rw [h1, h2, h3]

theorem compat_mono (c : Cand) (p q : Bytes) (h : compat c (p ++ q) = true) : compat c p = true := by
  by_cases hl : 4 ≤ p.length
  · rw [compat_long c p q hl] at h; exact h
  · unfold compat at h ⊢
    simp only [Bool.and_eq_true, Bool.not_eq_true'] at h ⊢
    refine ⟨patOK_prefix _ _ _ h.1, ?_⟩
    have : decide (p.length ≥ 4) = false := by simp; omega
    simp [this]

theorem cands_sublist (p q : Bytes) : (cands (p ++ q)).Sublist (cands p) := by
  unfold cands
  have : allCands.filter (fun c => compat c (p ++ q)) =
      (allCands.filter (fun c => compat c p)).filter (fun c => compat c (p ++ q)) := by
    rw [List.filter_filter]
    apply List.filter_congr
    intro c _
    cases h : compat c (p ++ q) with
    | false => simp
    | true => simp [compat_mono c p q h]
  rw [this]
  exact List.filter_sublist

theorem cands_long (p q : Bytes) (h : 4 ≤ p.length) : cands (p ++ q) = cands p := by
  unfold cands
  apply List.filter_congr
  intro c _
  exact compat_long c p q h

theorem mem_cands (c : Cand) (p : Bytes) : c ∈ cands p ↔ compat c p = true := by
  unfold cands
  rw [List.mem_filter]
  constructor
  · exact fun h => h.2
  · intro h; exact ⟨by cases c <;> simp [allCands], h⟩

theorem sublist_singleton {α} {l : List α} {c : α} (h : l.Sublist [c]) (hc : c ∈ l) : l = [c] := by
  cases l with
  | nil => cases hc
  | cons x xs =>
    cases xs with
    | nil =>
      rcases List.mem_singleton.mp hc with rfl
      rfl
    | cons y ys =>
      have hlen := h.length_le
      simp at hlen

theorem patOK_append_none : ∀ (ps : List (Option Nat)) (p q : Bytes), patOK ps p = true →
    (∀ x ∈ ps.drop p.length, x = none) → patOK ps (p ++ q) = true := by
  intro ps
  induction ps with
  | nil => intro p q _ _; simp [patOK]
  | cons x xs ih =>
    intro p q h hn
    cases p with
    | nil =>
      simp only [List.nil_append, List.length_nil, List.drop_zero] at hn ⊢
      have hx : x = none := hn x List.mem_cons_self
      subst hx
      cases q with
      | nil => simp [patOK]
      | cons b bs =>
        simp only [patOK]
        have := ih [] bs (by cases xs <;> simp [patOK]) (by
          intro y hy; exact hn y (List.mem_cons_of_mem _ (by simpa using hy)))
        simpa using this
    | cons b bs =>
      have hn' : ∀ y ∈ xs.drop bs.length, y = none := by
        intro y hy; exact hn y (by simpa using hy)
      cases x with
      | none => simp only [List.cons_append, patOK] at h ⊢; exact ih bs q h hn'
      | some v =>
        simp only [List.cons_append, patOK, Bool.and_eq_true] at h ⊢
        exact ⟨h.1, ih bs q h.2 hn'⟩

theorem charsetName_append {p q n : Text} (hl : 10 < p.length) (h : charsetName p = some n) :
    charsetName (p ++ q) = some n := by
  unfold charsetName at h ⊢
  by_cases hp : charsetPrefix.isPrefixOf p = true
  · simp only [hp, isPrefixOf_append_left hp, if_true] at h ⊢
    cases hq : findQuote p charsetPrefix.length with
    | none => simp [hq] at h
    | some pos =>
      simp only [hq] at h
      obtain ⟨h1, h2, _⟩ := findQuote_append (q := q) (by rw [charsetPrefix_length]; omega) hq
      simp only [h1]
      rw [List.take_append_of_le_length (Nat.le_of_lt h2)]
      exact h
  · have : charsetPrefix.isPrefixOf p = false := by
      cases hb : charsetPrefix.isPrefixOf p with
      | false => rfl
      | true => exact absurd hb hp
    simp [this] at h

theorem charsetName_length {p n : Text} (h : charsetName p = some n) : 10 < p.length := by
  unfold charsetName at h
  split at h
  · rename_i hp
    have h1 : charsetPrefix <+: p := List.isPrefixOf_iff_prefix.mp hp
    have hl := h1.length_le
    rw [charsetPrefix_length] at hl
    cases hq : findQuote p charsetPrefix.length with
    | none => simp [hq] at h
    | some pos =>
      unfold findQuote at hq
      cases hf : (p.drop charsetPrefix.length).findIdx? (· == 34) with
      | none => simp [hf] at hq
      | some i =>
        have := (List.findIdx?_eq_some_iff_findIdx_eq.mp hf).1
        simp only [List.length_drop, charsetPrefix_length] at this
        omega
  · cases h

/-- **a decision is final**: once the detector has named an encoding for a prefix of the stream,
it names the same encoding (with the same explicit flag) for every extension, final or not -/
theorem detect_stable (p q : Bytes) (f : Bool) (e : Text) (x : Bool)
    (h : detectStr p false = (some e, x)) : detectStr (p ++ q) f = (some e, x) := by
  unfold detectStr at h
  simp only [Bool.false_eq_true, if_false] at h
  have hsub := cands_sublist p q
  cases hc : cands p with
  | nil =>
    rw [hc] at h hsub
    simp only at h
    have : cands (p ++ q) = [] := List.sublist_nil.mp hsub
    unfold detectStr
    rw [this]
    exact h
  | cons c rest =>
    cases rest with
    | cons c2 r2 => rw [hc] at h; simp at h
    | nil =>
      rw [hc] at h hsub
      simp only at h
      by_cases hn : p.length ≥ need c
      · simp only [hn, if_true] at h
        have hcp : compat c p = true := (mem_cands c p).mp (by rw [hc]; simp)
        -- the surviving candidate stays compatible with every extension
        have hcq : compat c (p ++ q) = true := by
          by_cases hl : 4 ≤ p.length
          · rw [compat_long c p q hl]; exact hcp
          · have hlt : p.length < 4 := Nat.lt_of_not_ge hl
            have h32 : compat .utf32asLE p = false := by
              cases hb : compat .utf32asLE p with
              | false => rfl
              | true =>
                have : Cand.utf32asLE ∈ cands p := (mem_cands _ _).mpr hb
                rw [hc] at this
                simp only [List.mem_singleton] at this
                subst this
                simp [need] at hn; omega
            have hpat : patOK (pat c) p = true := by
              unfold compat at hcp
              simp only [Bool.and_eq_true] at hcp
              exact hcp.1
            -- beyond the bytes seen so far the surviving pattern has only wildcards
            have hwild : ∀ x ∈ (pat c).drop p.length, x = none := by
              have h23 : p.length = 2 ∨ p.length = 3 := by
                cases c <;> simp [need] at hn <;> omega
              cases c <;> simp [need] at hn <;> first
                | omega
                | (rcases h23 with h | h <;> first | omega | (rw [h]; simp [pat]))
            have hp1 := patOK_append_none (pat c) p q hpat hwild
            unfold compat
            simp only [Bool.and_eq_true, Bool.not_eq_true', hp1, true_and]
            by_cases hcu : c = .utf16asLE
            · subst hcu
              -- FF FE x with x ≠ 0, or FF FE alone would still admit the UTF-32 BOM
              have hlen23 : p.length = 2 ∨ p.length = 3 := by simp [need] at hn; omega
              rcases hlen23 with h2 | h3
              · match p, h2 with
                | [a, b], _ =>
                  simp [compat, pat, patOK] at h32 hpat
                  exact absurd hpat.2 (by intro hb; exact h32 hpat.1 hb)
              · match p, h3 with
                | [a, b, d], _ =>
                  simp [compat, pat, patOK] at h32 hpat
                  have hd : d ≠ 0 := fun hd0 => by
                    have := h32 hpat.1 hpat.2
                    exact this hd0.symm
                  cases q with
                  | nil => simp
                  | cons y ys =>
                    simp
                    intro hd0
                    exact absurd hd0 hd
            · have : (c == Cand.utf16asLE) = false := by simpa using hcu
              simp [this]
        have hq : cands (p ++ q) = [c] :=
          sublist_singleton hsub ((mem_cands c _).mpr hcq)
        have hnq : (p ++ q).length ≥ need c := by simp; omega
        unfold detectStr
        rw [hq]
        simp only [hnq, if_true]
        by_cases hcs : (c == Cand.charset) = true
        · simp only [hcs, if_true] at h ⊢
          cases hcn : charsetName p with
          | none => simp [hcn] at h
          | some n =>
            simp only [hcn] at h
            rw [charsetName_append (charsetName_length hcn) hcn]
            exact h
        · simp only [hcs, Bool.false_eq_true, if_false] at h ⊢
          exact h
      · simp [hn] at h


/-! ### chunking invariance of the incremental decoder -/

/-- what the css codec assumes of Python's own incremental decoders: feeding `a` and then `b` is
the same as feeding `a ++ b`, failures are not forgotten, feeding nothing is harmless -/
structure DecLaw (I : Inner) : Prop where
  split : ∀ (d : I.D) (a b : Bytes) (f : Bool) (t1 : Text) (d1 : I.D),
    I.dec d a false = some (t1, d1) →
      I.dec d (a ++ b) f = (I.dec d1 b f).map (fun r => (t1 ++ r.1, r.2))
  fail : ∀ (d : I.D) (a b : Bytes) (f : Bool), I.dec d a false = none → I.dec d (a ++ b) f = none

/-- two steps in a row, outputs concatenated -/
def twoSteps (I : Inner) (st : DecSt I) (a b : Bytes) (f : Bool) : Except CErr (Text × DecSt I) :=
  match decStep I st a false with
  | .error e => .error e
  | .ok (o1, st1) =>
    match decStep I st1 b f with
    | .error e => .error e
    | .ok (o2, st2) => .ok (o1 ++ o2, st2)

theorem decHeader_decoder (I : Inner) (st1 : DecSt I) (d' : I.D) (out : Text) (f : Bool) :
    (decHeader I st1 d' out f).2.decoder = some d' := by
  unfold decHeader
  split
  · rfl
  · split <;> rfl

/-- header handling composes: text `o1` now and `o2` later = text `o1 ++ o2` at once -/
theorem decHeader_merge (I : Inner) (st1 : DecSt I) (d1 d2 : I.D) (o1 o2 : Text) (f : Bool) :
    ((decHeader I st1 d1 o1 false).1 ++ (decHeader I (decHeader I st1 d1 o1 false).2 d2 o2 f).1,
     (decHeader I (decHeader I st1 d1 o1 false).2 d2 o2 f).2) = decHeader I st1 d2 (o1 ++ o2) f := by
  unfold decHeader
  by_cases hf : st1.headerfixed = true
  · simp [hf]
  · have hf' : st1.headerfixed = false := by
      cases h : st1.headerfixed with
      | false => rfl
      | true => exact absurd h hf
    simp only [hf', Bool.false_eq_true, if_false]
    cases h1 : fixEncoding (st1.tbuf ++ o1) (st1.encoding.getD utf8) false with
    | none =>
      simp only [Bool.false_eq_true, if_false, List.nil_append, List.append_assoc]
      try (cases h2 : fixEncoding (st1.tbuf ++ (o1 ++ o2)) (st1.encoding.getD utf8) f <;> rfl)
    | some o =>
      have h2 := fix_stable (st1.tbuf ++ o1) o2 (st1.encoding.getD utf8) f o h1
      rw [List.append_assoc] at h2
      simp [h2]

theorem decRun_ok_decoder (I : Inner) (st1 : DecSt I) (d : I.D) (a : Bytes) (f : Bool) (o : Text)
    (s : DecSt I) (h : decRun I st1 d a f = .ok (o, s)) : ∃ d', s.decoder = some d' := by
  unfold decRun at h
  cases h1 : I.dec d a f with
  | none => simp [h1] at h
  | some x =>
    simp only [h1] at h
    have : (o, s) = decHeader I st1 x.2 x.1 f := (Except.ok.inj h).symm
    have hs : s = (decHeader I st1 x.2 x.1 f).2 := congrArg Prod.snd this
    exact ⟨x.2, by rw [hs]; exact decHeader_decoder _ _ _ _ _⟩

/-- running the inner decoder on `a` and then on `b` = running it on `a ++ b` -/
theorem decRun_merge (I : Inner) (law : DecLaw I) (st1 : DecSt I) (d : I.D) (a b : Bytes) (f : Bool) :
    (match decRun I st1 d a false with
     | .error e => (.error e : Except CErr (Text × DecSt I))
     | .ok (o1, s1) =>
       match decStep I s1 b f with
       | .error e => .error e
       | .ok (o2, s2) => .ok (o1 ++ o2, s2)) = decRun I st1 d (a ++ b) f := by
  cases hr : decRun I st1 d a false with
  | error e =>
    simp only
    unfold decRun at hr ⊢
    cases h1 : I.dec d a false with
    | none =>
      simp only [h1] at hr
      have he : CErr.unicode = e := Except.error.inj hr
      simp [law.fail d a b f h1, he]
    | some x => simp [h1] at hr
  | ok r =>
    obtain ⟨o1, s1⟩ := r
    simp only
    unfold decRun at hr
    cases h1 : I.dec d a false with
    | none => simp [h1] at hr
    | some x =>
      obtain ⟨t1, d1⟩ := x
      simp only [h1] at hr
      have hpair : (o1, s1) = decHeader I st1 d1 t1 false := (Except.ok.inj hr).symm
      have ho : o1 = (decHeader I st1 d1 t1 false).1 := congrArg Prod.fst hpair
      have hs : s1 = (decHeader I st1 d1 t1 false).2 := congrArg Prod.snd hpair
      have hdec : s1.decoder = some d1 := by rw [hs]; exact decHeader_decoder _ _ _ _ _
      unfold decStep decRun
      simp only [hdec]
      rw [law.split d a b f t1 d1 h1]
      cases h2 : I.dec d1 b f with
      | none => simp
      | some r2 =>
        obtain ⟨t2, d2⟩ := r2
        simp only [Option.map_some]
        have := decHeader_merge I st1 d1 d2 t1 t2 f
        rw [← this, ho, hs]

theorem chooseFrom_stable (encoding : Option Text) (force : Bool) (p q : Bytes) (f : Bool)
    (h : chooseFrom encoding force (detectStr p false) ≠ .ok none) :
    chooseFrom encoding force (detectStr (p ++ q) f) = chooseFrom encoding force (detectStr p false) := by
  cases hd : (detectStr p false).1 with
  | some e =>
    have hx : detectStr p false = (some e, (detectStr p false).2) := Prod.ext hd rfl
    rw [detect_stable p q f e _ hx, ← hx]
  | none =>
    unfold chooseFrom at h ⊢
    by_cases hnd : (encoding.isNone || !force) = true
    · simp [hnd, hd] at h
    · have : (encoding.isNone || !force) = false := by
        cases hb : (encoding.isNone || !force) with
        | false => rfl
        | true => exact absurd hb hnd
      simp [this]

/-- **two chunks = one chunk**, from any state of the decoder -/
theorem twoSteps_eq (I : Inner) (law : DecLaw I) (st : DecSt I) (a b : Bytes) (f : Bool) :
    twoSteps I st a b f = decStep I st (a ++ b) f := by
  unfold twoSteps
  cases hd : st.decoder with
  | some d =>
    have hm := decRun_merge I law st d a b f
    have h1 : decStep I st a false = decRun I st d a false := by unfold decStep; simp [hd]
    have h2 : decStep I st (a ++ b) f = decRun I st d (a ++ b) f := by unfold decStep; simp [hd]
    rw [h1, h2, ← hm]
    try (cases decRun I st d a false with
    | error e => rfl
    | ok r => rfl)
  | none =>
    cases hch : chooseFrom st.encoding st.force (detectStr (st.bbuf ++ a) false) with
    | error e =>
      have hne : chooseFrom st.encoding st.force (detectStr (st.bbuf ++ a) false) ≠ .ok none := by
        rw [hch]; intro h; cases h
      have hst := chooseFrom_stable st.encoding st.force (st.bbuf ++ a) b f hne
      rw [List.append_assoc, hch] at hst
      have h1 : decStep I st a false = .error e := by unfold decStep; simp [hd, hch]
      have h2 : decStep I st (a ++ b) f = .error e := by unfold decStep; simp [hd, hst]
      rw [h1, h2]
    | ok oenc =>
      cases oenc with
      | none =>
        -- buffered: the second step sees bbuf ++ a ++ b, exactly like the single step
        have h1 : decStep I st a false = .ok ([], { st with bbuf := st.bbuf ++ a }) := by
          unfold decStep; simp [hd, hch]
        rw [h1]
        simp only [List.nil_append]
        have h2 : decStep I { st with bbuf := st.bbuf ++ a } b f = decStep I st (a ++ b) f := by
          unfold decStep
          simp only [hd, List.append_assoc]
          try (cases chooseFrom st.encoding st.force (detectStr (st.bbuf ++ (a ++ b)) f) with
          | error e => rfl
          | ok o2 =>
            cases o2 with
            | none => rfl
            | some enc => rfl)
        rw [h2]
        try (cases decStep I st (a ++ b) f with
        | error e => rfl
        | ok r => rfl)
      | some enc =>
        have hne : chooseFrom st.encoding st.force (detectStr (st.bbuf ++ a) false) ≠ .ok none := by
          rw [hch]; intro h; cases h
        have hst := chooseFrom_stable st.encoding st.force (st.bbuf ++ a) b f hne
        rw [List.append_assoc, hch] at hst
        by_cases hk : I.known enc = true
        · have h1 : decStep I st a false =
              decRun I { st with encoding := some enc, bbuf := [] } (I.dinit enc) (st.bbuf ++ a) false := by
            unfold decStep; simp [hd, hch, hk]
          have h2 : decStep I st (a ++ b) f =
              decRun I { st with encoding := some enc, bbuf := [] } (I.dinit enc) (st.bbuf ++ (a ++ b)) f := by
            unfold decStep; simp [hd, hst, hk]
          have hm := decRun_merge I law { st with encoding := some enc, bbuf := [] } (I.dinit enc) (st.bbuf ++ a) b f
          rw [List.append_assoc] at hm
          rw [h1, h2, ← hm]
          try (cases decRun I { st with encoding := some enc, bbuf := [] } (I.dinit enc) (st.bbuf ++ a) false with
          | error e => rfl
          | ok r => rfl)
        · have hk' : I.known enc = false := by
            cases hb : I.known enc with
            | false => rfl
            | true => exact absurd hb hk
          have h1 : decStep I st a false = .error .lookup := by unfold decStep; simp [hd, hch, hk']
          have h2 : decStep I st (a ++ b) f = .error .lookup := by unfold decStep; simp [hd, hst, hk']
          rw [h1, h2]


/-- **any chunking = one final call on the whole input** -/
theorem decFeed_eq (I : Inner) (law : DecLaw I) :
    ∀ (cs : List Bytes) (st : DecSt I), decFeed I st cs = decStep I st cs.flatten true := by
  intro cs
  induction cs with
  | nil => intro st; rfl
  | cons c cs ih =>
    intro st
    have h2 := twoSteps_eq I law st c cs.flatten true
    simp only [List.flatten_cons]
    rw [← h2]
    unfold twoSteps decFeed
    cases decStep I st c false with
    | error e => rfl
    | ok r =>
      obtain ⟨o, st'⟩ := r
      simp only
      rw [ih st']
      cases decStep I st' cs.flatten true <;> rfl

theorem detect_final (b : Bytes) : ∃ e x, detectStr b true = (some e, x) := by
  unfold detectStr
  simp only [if_true]
  split
  · exact ⟨_, _, rfl⟩
  · split
    · split
      · split
        · exact ⟨_, _, rfl⟩
        · split <;> exact ⟨_, _, rfl⟩
      · exact ⟨_, _, rfl⟩
    · split <;> exact ⟨_, _, rfl⟩
  · split <;> exact ⟨_, _, rfl⟩

theorem run_oneshot (I : Inner) (force : Bool) (e : Text) (all : Bytes) :
    (if (!I.known e) = true then (Except.error CErr.lookup : Except CErr (Text × DecSt I))
      else decRun I { decoder := none, encoding := some e, force := force, bbuf := [], tbuf := [],
                      headerfixed := false } (I.dinit e) all true).map (·.1) =
    decodeWith I e all := by
  unfold decodeWith
  by_cases hk : I.known e = true
  · simp only [hk, Bool.not_true, Bool.false_eq_true, if_false]
    unfold decRun decHeader Inner.decodeAll
    cases hdec : I.dec (I.dinit e) all true with
    | none => rfl
    | some r =>
      simp only [Option.map_some, List.nil_append, Bool.false_eq_true, if_false, Option.getD_some]
      have hfix := fix_final r.1 e
      cases hf : fixEncoding r.1 e true with
      | none => rw [hf] at hfix; cases hfix
      | some o => rfl
  · have hk' : I.known e = false := by
      cases hb : I.known e with
      | false => rfl
      | true => exact absurd hb hk
    simp only [hk', Bool.not_false, if_true]
    rfl

/-- the one-shot function is the incremental decoder fed everything at once -/
theorem decStep_oneshot (I : Inner) (all : Bytes) (enc : Option Text) (force : Bool) :
    (decStep I (decInit I enc force) all true).map (·.1) = decode I all enc force := by
  obtain ⟨de, x, hd⟩ := detect_final all
  unfold decStep decInit decode chooseFrom
  simp only [List.nil_append, hd]
  cases enc with
  | none =>
    simp only [Option.isNone_none, Bool.true_or, if_true, Bool.or_true, Option.getD_some, Bool.true_and]
    by_cases hcss : (isCss de) = true
    · have : ((some de).map isCss).getD false = true := by simpa using hcss
      simp only [hcss, if_true, this]
      rfl
    · have h1 : (isCss de) = false := by
        cases hb : (isCss de) with
        | false => rfl
        | true => exact absurd hb hcss
      have h2 : ((some de).map isCss).getD false = false := by simpa using h1
      simp only [h1, h2, Bool.false_eq_true, if_false]
      exact run_oneshot I force de all
  | some e =>
    cases force with
    | true =>
      simp only [Option.isNone_some, Bool.not_true, Bool.or_self, Bool.false_eq_true, if_false,
        Option.getD_some, Bool.false_and]
      exact run_oneshot I true e all
    | false =>
      simp only [Option.isNone_some, Bool.not_false, Bool.or_true, if_true, Bool.true_and, Bool.and_true,
        Bool.or_false, Option.getD_some]
      by_cases hcss : (isCss de) = true
      · have : ((some de).map isCss).getD false = true := by simpa using hcss
        simp only [hcss, if_true, this]
        rfl
      · have h1 : (isCss de) = false := by
          cases hb : (isCss de) with
          | false => rfl
          | true => exact absurd hb hcss
        have h2 : ((some de).map isCss).getD false = false := by simpa using h1
        simp only [h1, h2, Bool.false_eq_true, if_false]
        cases x with
        | true => exact run_oneshot I false de all
        | false => exact run_oneshot I false e all

end CssVerif.Codec
