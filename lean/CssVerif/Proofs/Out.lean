import CssVerif.Model.Out
namespace CssVerif.Out

/-- a piece of text that is none of the characters `Out.append` treats specially -/
structure Word (p : Prefs) (w : Text) : Prop where
  nonempty : w.isEmpty = false
  nodelim : isSub w (str "+>~,:{;)]/=}") = false
  noline : (w == p.lineSeparator) = false
  nobrace : (w == str "}") = false
  nospace : (w.getLast? == some 32) = false
  nocomb : isSub w (str "+>~") = false
  noparen : (w == str ")") = false
  nocomma : (w == str ",") = false
  nocolon : (w == str ":") = false
  noopen : (w == str "{") = false
  nosemi : (w == str ";") = false
  nobracket : isSub w (str "}[]()/=") = false

/-- what is written after a word: the spacer, or one blank when the spacer is empty -/
def gapAfter (p : Prefs) : List Text := if p.spacer.isEmpty then [p.spacer, [32]] else [p.spacer]

theorem append_word (p : Prefs) (out : List Text) (w : Text) (hw : Word p w) :
    append p out w .other true false false false = out ++ [w] ++ gapAfter p := by
  obtain ⟨h1, h2, h3, h4, h5, h6, h7, h8, h9, h10, h11, h12⟩ := hw
  have e3 : w ≠ p.lineSeparator := by simpa using h3
  have e4 : w ≠ str "}" := by simpa using h4
  have e5 : w.getLast? ≠ some 32 := by simpa using h5
  have e7 : w ≠ str ")" := by simpa using h7
  have e8 : w ≠ str "," := by simpa using h8
  have e9 : w ≠ str ":" := by simpa using h9
  have e10 : w ≠ str "{" := by simpa using h10
  have e11 : w ≠ str ";" := by simpa using h11
  unfold append gapAfter
  by_cases hs : p.spacer.isEmpty = true
  · have : p.spacer = [] := by simpa using hs
    simp [h1, h2, h6, h12, e3, e4, e5, e7, e8, e9, e10, e11, hs, this]
  · simp [h1, h2, h6, h12, e3, e4, e5, e7, e8, e9, e10, e11, hs]

/-- **two words are never written next to each other**: whatever the preferences are, the pieces between them
are the spacer, or - when the spacer is empty - a blank -/
theorem words_separated (p : Prefs) (out : List Text) (w1 w2 : Text) (h1 : Word p w1) (h2 : Word p w2) :
    append p (append p out w1 .other true false false false) w2 .other true false false false =
      out ++ [w1] ++ gapAfter p ++ [w2] ++ gapAfter p := by
  rw [append_word p out w1 h1, append_word p _ w2 h2]

/-- the text between the two words is not empty -/
theorem gap_not_empty (p : Prefs) : (gapAfter p).flatten ≠ [] := by
  unfold gapAfter
  by_cases hs : p.spacer.isEmpty = true
  · simp [hs]
  · have : p.spacer ≠ [] := by simpa using hs
    simp [hs, this]

/-- and it is white space whenever the spacer is -/
theorem gap_is_space (p : Prefs) (hsp : ∀ c ∈ p.spacer, isSpaceC c = true) : ∀ c ∈ (gapAfter p).flatten, isSpaceC c = true := by
  unfold gapAfter
  intro c hc
  by_cases hs : p.spacer.isEmpty = true
  · have : p.spacer = [] := by simpa using hs
    simp [hs, this] at hc
    subst hc; decide
  · simp [hs] at hc
    exact hsp c hc

end CssVerif.Out
