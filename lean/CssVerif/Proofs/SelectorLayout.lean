/-
C16, layouts.  `Proofs/SelectorText.lean` writes a selector with exactly one blank at every place where the
grammar (`Sel`) has white space: the descendant combinator, the `before` / `after` flags of the `Layout` of
an explicit combinator, and `ArgTok.ws` among the arguments of a functional pseudo-class.  Here each of
these places gets an arbitrary non-empty run of the characters of the S production (`Spacing`,
`Sel.textWith`), and three things are proved:

* `step_s_value` / `run_normS`: the state machine never looks at the VALUE of an S token;
* `prepass_normS`: the pre-pass commutes with forgetting the values of S tokens (as long as those values do
  not start with `:` `*` `|` and are not `.` — white space qualifies);
* `lexWith_classify`, `prepass_lexWith`, `run_lexWith`: the re-spaced lexeme sequence still meets the
  hypotheses of `C09.classify_sequence` (a lexeme of the classes a selector is written with may be followed
  by ANY white space, `tol_stop`; white-space-free patterns such as the byte-order marks see the same start
  of the text, `resp_bom`), its tokens are those of the single-blank layout up to S values, and the state
  machine ends in the same state.
-/
import CssVerif.Proofs.SelectorText
namespace CssVerif.Selector
open CssVerif.C09 (Lexeme canFollow chain ratioFree)

/-! ## the value of an S token does not matter -/

/-- every S token gets the value of a single blank -/
def normS (t : T2) : T2 := if t.1 = .s then (.s, str " ") else t

theorem normS_s (v : Text) : normS (.s, v) = (.s, str " ") := rfl
theorem normS_of_ne {t : T2} (h : t.1 ≠ .s) : normS t = t := by simp [normS, h]

/-- **the state machine ignores the value of an S token** -/
theorem step_s_value (T : Tables) (m : NsMap) (st : St) (v w : Text) :
    step T m st (.s, v) = step T m st (.s, w) := rfl

theorem step_normS (T : Tables) (m : NsMap) (st : St) (t : T2) : step T m st (normS t) = step T m st t := by
  obtain ⟨ty, v⟩ := t
  by_cases h : ty = .s
  · subst h; rfl
  · rw [normS_of_ne h]

theorem runFrom_normS (T : Tables) (m : NsMap) : ∀ (ts : List T2) (st : St),
    runFrom T m st (ts.map normS) = runFrom T m st ts := by
  intro ts
  induction ts with
  | nil => intro _; rfl
  | cons t ts ih => intro st; simp only [List.map_cons, runFrom_cons, step_normS, ih]

theorem run_normS (T : Tables) (m : NsMap) (ts : List T2) : run T m (ts.map normS) = run T m ts :=
  runFrom_normS T m ts init

/-- an S token carries a value the pre-pass does not look at twice: it does not start with `:` `*` `|`
and is not `.` -/
def SOk (t : T2) : Prop := t.1 = .s → Plain t.2

theorem plain_blank : Plain (str " ") := ⟨32, [], rfl, by decide, by decide, by decide, fun _ => by decide⟩

theorem sok_normS (t : T2) : SOk (normS t) := by
  intro h
  by_cases ht : t.1 = .s
  · simp only [normS, ht, if_true]; exact plain_blank
  · rw [normS_of_ne ht] at h; exact absurd h ht

/-- after an S token nothing is merged -/
theorem pstep_after_s (v : Text) (hv : Plain v) (rest : List T2) (t : T2) :
    pstep ((.s, v) :: rest) t =
      (if t.2 == str "*" then (.universal, t.2) else if t.2 == str "|" then (.nsprefix, t.2) else t) ::
        (.s, v) :: rest := by
  obtain ⟨h1, h2, h3, h4, h5⟩ := plain_facts hv
  have h1' : v ≠ str ":" := by simpa using h1
  have h4' : v ≠ str "." := by simpa using h4
  simp only [pstep, prepassStep]
  simp [h1', h4', h5]
  split <;> simp_all
  split <;> simp_all


theorem normS_kind (c : Bool) (v : Text) :
    normS (if c then TT.pelem else TT.pclass, v) = (if c then TT.pelem else TT.pclass, v) := by
  cases c <;> rfl

/-- neither token is an S token: the same case of the pre-pass on both sides -/
theorem pstep_comm_plain (l t : T2) (hl : l.1 ≠ .s) (ht : t.1 ≠ .s) (R : List T2) :
    pstep (l :: R.map normS) t = (pstep (l :: R) t).map normS := by
  have e1 : normS l = l := normS_of_ne hl
  have e2 : normS t = t := normS_of_ne ht
  have e3 : ∀ v, normS (t.1, v) = (t.1, v) := fun v => normS_of_ne ht
  have e4 : ∀ v, normS (TT.cls, v) = (TT.cls, v) := fun v => rfl
  have e5 : ∀ v, normS (TT.negation, v) = (TT.negation, v) := fun v => rfl
  have e6 : ∀ v, normS (TT.universal, v) = (TT.universal, v) := fun v => rfl
  have e7 : ∀ v, normS (TT.nsprefix, v) = (TT.nsprefix, v) := fun v => rfl
  simp only [pstep, prepassStep, apply_ite (List.map normS), List.map_cons, e1, e2, e3, e4, e5, e6, e7, normS_kind]


theorem pstep_s (acc : List T2) (v : Text) (hv : Plain v) : pstep acc (.s, v) = (.s, v) :: acc :=
  pp_plain acc (.s, v) hv rfl rfl

/-- the head of the accumulator after one step is the token itself or not an S token -/
theorem pstep_head (acc : List T2) (t : T2) (ht : t.1 ≠ .s) : ∀ x ∈ (pstep acc t).head?, x.1 ≠ .s := by
  cases acc with
  | nil =>
    simp only [pstep, prepassStep]
    split
    · intro x hx; simp at hx; subst hx; intro h; cases h
    · split
      · intro x hx; simp at hx; subst hx; intro h; cases h
      · intro x hx; simp at hx; subst hx; exact ht
  | cons l R =>
    simp only [pstep, prepassStep]
    repeat' split
    all_goals (intro x hx; simp at hx; subst hx; first | exact ht | (intro h; cases h))

theorem pstep_comm (acc : List T2) (t : T2) (ht : SOk t) (hh : ∀ x ∈ acc.head?, SOk x) :
    pstep (acc.map normS) (normS t) = (pstep acc t).map normS ∧ ∀ x ∈ (pstep acc t).head?, SOk x := by
  obtain ⟨ty, v⟩ := t
  by_cases hs : ty = .s
  · subst hs
    have hv : Plain v := ht rfl
    rw [normS_s, pstep_s _ _ plain_blank, pstep_s _ _ hv]
    exact ⟨rfl, by intro x hx; simp at hx; subst hx; exact ht⟩
  · refine ⟨?_, fun x hx h => absurd h (pstep_head acc (ty, v) hs x hx)⟩
    rw [normS_of_ne (t := (ty, v)) hs]
    cases acc with
    | nil =>
      simp only [List.map_nil, pstep, prepassStep, apply_ite (List.map normS), List.map_cons,
        normS_of_ne (t := (ty, v)) hs]
      rfl
    | cons l R =>
      obtain ⟨lt, lv⟩ := l
      by_cases hl : lt = .s
      · subst hl
        have hlv : Plain lv := hh (.s, lv) (by simp) rfl
        rw [List.map_cons, normS_s, pstep_after_s _ plain_blank, pstep_after_s _ hlv]
        simp only [List.map_cons, normS_s, List.cons.injEq, and_true]
        split
        · rfl
        · split
          · rfl
          · exact (normS_of_ne (t := (ty, v)) hs).symm
      · rw [List.map_cons, normS_of_ne (t := (lt, lv)) hl]
        exact pstep_comm_plain (lt, lv) (ty, v) hl hs R

theorem pp_comm : ∀ (ts acc : List T2), (∀ t ∈ ts, SOk t) → (∀ x ∈ acc.head?, SOk x) →
    pp (acc.map normS) (ts.map normS) = (pp acc ts).map normS := by
  intro ts
  induction ts with
  | nil => intro acc _ _; rfl
  | cons t ts ih =>
    intro acc hts hh
    obtain ⟨h1, h2⟩ := pstep_comm acc t (hts t List.mem_cons_self) hh
    simp only [List.map_cons, pp_cons, h1]
    exact ih _ (fun x hx => hts x (List.mem_cons_of_mem _ hx)) h2

/-- **the pre-pass commutes with forgetting the values of the S tokens** (their values are white space) -/
theorem prepass_normS (ts : List T2) (h : ∀ t ∈ ts, SOk t) :
    prepass Gen.tables (ts.map normS) = (prepass Gen.tables ts).map normS := by
  have := pp_comm ts [] h (by intro x hx; cases hx)
  show (pp [] (ts.map normS)).reverse = ((pp [] ts).reverse).map normS
  rw [List.map_reverse, ← this]; rfl


/-! ## layouts: any non-empty run of white space where the grammar has a blank -/

def isWsLex : Lexeme → Bool
  | .ws _ _ => true
  | _ => false

/-- the white-space runs (first character, remaining characters) for the white-space places of a
selector, in the order of the text; places beyond the end of the list keep their single blank -/
abbrev Spacing := List (Nat × Text)

/-- a non-empty run of the characters of the S production: space, tab, LF, FF, CR (`C09.gen_S_first`) -/
def wsRunOK (p : Nat × Text) : Bool := C09.isWs p.1 && p.2.all C09.isWs

/-- replace the white-space lexemes, from left to right, by the runs of the spacing -/
def respace : Spacing → List Lexeme → List Lexeme
  | _, [] => []
  | sp, l :: ls =>
    if isWsLex l then
      (match sp with
       | p :: sp' => Lexeme.ws p.1 p.2 :: respace sp' ls
       | [] => l :: respace [] ls)
    else l :: respace sp ls

def Sel.lexWith (sp : Spacing) (σ : Sel) : List Lexeme := respace sp σ.lex

/-- the selector text with the layout `sp` -/
def Sel.textWith (sp : Spacing) (σ : Sel) : Text := (σ.lexWith sp).flatMap Lexeme.render

/-- `ls'` is `ls` with every white-space lexeme replaced by some white-space lexeme -/
inductive Resp : List Lexeme → List Lexeme → Prop
  | nil : Resp [] []
  | keep (l : Lexeme) (ls ls' : List Lexeme) : isWsLex l = false → Resp ls ls' → Resp (l :: ls) (l :: ls')
  | ws (c : Nat) (r : Text) (c' : Nat) (r' : Text) (ls ls' : List Lexeme) : wsRunOK (c', r') = true →
      Resp ls ls' → Resp (.ws c r :: ls) (.ws c' r' :: ls')

theorem resp_respace : ∀ (ls : List Lexeme) (sp : Spacing), sp.all wsRunOK = true → (∀ l ∈ ls, l.wf = true) →
    Resp ls (respace sp ls) := by
  intro ls
  induction ls with
  | nil => intro _ _ _; exact .nil
  | cons l ls ih =>
    intro sp hsp hwf
    have hwf' : ∀ x ∈ ls, x.wf = true := fun x hx => hwf x (List.mem_cons_of_mem _ hx)
    cases l with
    | ws c r =>
      cases sp with
      | nil =>
        have : wsRunOK (c, r) = true := hwf (.ws c r) List.mem_cons_self
        exact .ws c r c r _ _ this (ih [] rfl hwf')
      | cons p sp' =>
        simp only [List.all_cons, Bool.and_eq_true] at hsp
        exact .ws c r p.1 p.2 _ _ hsp.1 (ih sp' hsp.2 hwf')
    | _ => exact .keep _ _ _ rfl (ih sp hsp hwf')

/-- the lexeme classes a selector is written with: each of them may be followed by any white space -/
def tol : Lexeme → Bool
  | .ws _ _ | .fast _ | .delim _ | .cdelim _ | .includes | .dashmatch | .prefixmatch | .suffixmatch
  | .substringmatch | .number _ _ | .dimension _ _ _ _ _ | .ident _ _ _ | .function _ _ _ | .hash _ _
  | .string _ _ => true
  | _ => false

theorem ws_facts {c : Nat} (h : C09.isWs c = true) :
    c ≠ 42 ∧ c ≠ 61 ∧ isDigit c = false ∧ c ≠ 46 ∧ isNmStart c = false ∧ c ≠ 92 ∧ c ≠ 45 ∧ c ≠ 33 ∧
    isNmChar c = false ∧ c ≠ 40 ∧ c ≠ 43 ∧ c ≠ 37 ∧ c ≠ 58 ∧ c ≠ 124 ∧ c ≠ 47 := by
  simp only [C09.isWs, Bool.or_eq_true, decide_eq_true_eq] at h
  rcases h with (((h | h) | h) | h) | h <;> subst h <;> decide

/-- a lexeme of these classes other than white space accepts any white space after it -/
theorem tol_stop (x : Lexeme) (ht : tol x = true) (hw : x.wf = true) (hn : isWsLex x = false) (c : Nat) (r : Text)
    (hc : C09.isWs c = true) : x.stopLocal (c :: r) = true := by
  obtain ⟨h42, h61, hdg, h46, hns, h92, h45, h33, hnc, h40, h43, h37, -, -, -⟩ := ws_facts hc
  cases x with
  | ws c0 r0 => cases hn
  | cdelim c0 =>
    simp only [Lexeme.wf, C09.ctxDelims, List.contains_iff_mem, List.mem_cons, List.not_mem_nil, or_false] at hw
    rcases hw with h | h | h | h | h | h | h | h | h | h | h | h <;> subst h <;>
      simp [Lexeme.stopLocal, C09.ctxStop, C09.nameStop, h42, h61, hdg, h46, hns, h92, h45, h33, hnc]
  | number s n =>
    simp [Lexeme.stopLocal, C09.numStop, identStart, nameStart, dotDigit, h45, hns, h92, hdg, h37, h46]
  | dimension s n m u us => simp [Lexeme.stopLocal, C09.nameStop, hnc, h92]
  | ident m u us => simp [Lexeme.stopLocal, C09.identStop, hnc, h92, h40, h43]
  | hash n ns => simp [Lexeme.stopLocal, C09.nameStop, hnc, h92]
  | fast _ => rfl
  | delim _ => rfl
  | includes => rfl
  | dashmatch => rfl
  | prefixmatch => rfl
  | suffixmatch => rfl
  | substringmatch => rfl
  | function _ _ _ => rfl
  | string _ _ => rfl
  | _ => cases ht


theorem canFollow_to_ws (x : Lexeme) (ht : tol x = true) (hw : x.wf = true) (hn : isWsLex x = false) (c : Nat)
    (r : Text) (hc : C09.isWs c = true) : canFollow x (.ws c r) = true := by
  have := tol_stop x ht hw hn c r hc
  cases x <;> simp_all [canFollow, Lexeme.render]

theorem canFollow_from_ws (c : Nat) (r : Text) (c' : Nat) (r' : Text) (y : Lexeme) :
    canFollow (.ws c' r') y = canFollow (.ws c r) y := rfl

theorem canFollow_ws_ws (c : Nat) (r : Text) (c2 : Nat) (r2 : Text) (h : C09.isWs c2 = true) :
    canFollow (.ws c r) (.ws c2 r2) = false := by
  simp [canFollow, Lexeme.stopLocal, Lexeme.render, h]

/-- what is known about every lexeme of a selector -/
def GT (l : Lexeme) : Prop := l.wf = true ∧ sf l = true ∧ tol l = true

theorem gt_ws (c : Nat) (r : Text) (h : wsRunOK (c, r) = true) : GT (.ws c r) := by
  refine ⟨h, ?_, rfl⟩
  simp only [wsRunOK, Bool.and_eq_true, List.all_eq_true] at h
  simp only [sf, Lexeme.render, Bool.or_eq_true, List.all_eq_true]
  left
  intro x hx
  rcases List.mem_cons.mp hx with rfl | hx
  · exact h.1
  · exact h.2 x hx

theorem resp_gt {ls ls' : List Lexeme} (h : Resp ls ls') (hg : ∀ l ∈ ls, GT l) : ∀ l ∈ ls', GT l := by
  induction h with
  | nil => intro l hl; cases hl
  | keep l ls ls' _ _ ih =>
    intro x hx
    rcases List.mem_cons.mp hx with rfl | hx
    · exact hg _ List.mem_cons_self
    · exact ih (fun y hy => hg y (List.mem_cons_of_mem _ hy)) x hx
  | ws c r c' r' ls ls' hok _ ih =>
    intro x hx
    rcases List.mem_cons.mp hx with rfl | hx
    · exact gt_ws c' r' hok
    · exact ih (fun y hy => hg y (List.mem_cons_of_mem _ hy)) x hx

theorem chain_cons2 (a b : Lexeme) (l : List Lexeme) :
    K (a :: b :: l) ↔ canFollow a b = true ∧ K (b :: l) := by
  show (canFollow a b && chain canFollow (b :: l)) = true ↔ _
  simp

/-- adjacency survives a change of layout -/
theorem resp_chain {ls ls' : List Lexeme} (h : Resp ls ls') (hg : ∀ l ∈ ls, GT l) (hk : K ls) : K ls' := by
  induction h with
  | nil => rfl
  | keep l ls ls' hl hr ih =>
    have hg' : ∀ y ∈ ls, GT y := fun y hy => hg y (List.mem_cons_of_mem _ hy)
    cases hr with
    | nil => rfl
    | keep b t t' hb ht =>
      rw [chain_cons2] at hk ⊢
      exact ⟨hk.1, ih hg' hk.2⟩
    | ws c r c' r' t t' hok ht =>
      rw [chain_cons2] at hk ⊢
      have hgl := hg l List.mem_cons_self
      simp only [wsRunOK, Bool.and_eq_true] at hok
      exact ⟨canFollow_to_ws l hgl.2.2 hgl.1 hl c' r' hok.1, ih hg' hk.2⟩
  | ws c r c' r' ls ls' hok hr ih =>
    have hg' : ∀ y ∈ ls, GT y := fun y hy => hg y (List.mem_cons_of_mem _ hy)
    cases hr with
    | nil => rfl
    | keep b t t' hb ht =>
      rw [chain_cons2] at hk ⊢
      exact ⟨(canFollow_from_ws c r c' r' b).trans hk.1, ih hg' hk.2⟩
    | ws c2 r2 c2' r2' t t' hok2 ht =>
      rw [chain_cons2] at hk
      have hw2 : C09.isWs c2 = true := by
        have := (hg' (.ws c2 r2) List.mem_cons_self).1
        simp only [Lexeme.wf, Bool.and_eq_true] at this
        exact this.1
      rw [canFollow_ws_ws c r c2 r2 hw2] at hk
      exact absurd hk.1 (by decide)


/-! ### the start of the text: patterns without white space see the same thing -/

/-- two texts have the same white-space-free prefixes -/
def SamePre (B B' : Text) : Prop := ∀ pat : Text, (∀ x ∈ pat, C09.isWs x = false) → pat.isPrefixOf B = pat.isPrefixOf B'

theorem samePre_append (A : Text) {B B' : Text} (h : SamePre B B') : SamePre (A ++ B) (A ++ B') := by
  induction A with
  | nil => exact h
  | cons a A ih =>
    intro pat hp
    cases pat with
    | nil => rfl
    | cons p ps =>
      simp only [List.cons_append, List.isPrefixOf]
      rw [ih ps (fun x hx => hp x (List.mem_cons_of_mem _ hx))]

theorem samePre_ws (c c' : Nat) (A A' : Text) (hc : C09.isWs c = true) (hc' : C09.isWs c' = true) :
    SamePre (c :: A) (c' :: A') := by
  intro pat hp
  cases pat with
  | nil => rfl
  | cons p ps =>
    have hpw := hp p List.mem_cons_self
    have h1 : (p == c) = false := by
      cases hb : (p == c) with
      | false => rfl
      | true => rw [show p = c by simpa using hb, hc] at hpw; cases hpw
    have h2 : (p == c') = false := by
      cases hb : (p == c') with
      | false => rfl
      | true => rw [show p = c' by simpa using hb, hc'] at hpw; cases hpw
    simp [List.isPrefixOf, h1, h2]

theorem resp_samePre {ls ls' : List Lexeme} (h : Resp ls ls') (hg : ∀ l ∈ ls, GT l) :
    SamePre (ls.flatMap Lexeme.render) (ls'.flatMap Lexeme.render) := by
  induction h with
  | nil => intro _ _; rfl
  | keep l ls ls' _ _ ih =>
    simp only [List.flatMap_cons]
    exact samePre_append _ (ih (fun y hy => hg y (List.mem_cons_of_mem _ hy)))
  | ws c r c' r' ls ls' hok _ _ =>
    have hw := (hg (.ws c r) List.mem_cons_self).1
    simp only [Lexeme.wf, Bool.and_eq_true] at hw
    simp only [wsRunOK, Bool.and_eq_true] at hok
    exact samePre_ws c c' _ _ hw.1 hok.1

theorem resp_bom {ls ls' : List Lexeme} (h : Resp ls ls') (hg : ∀ l ∈ ls, GT l) :
    startsWithBom (ls'.flatMap Lexeme.render) = startsWithBom (ls.flatMap Lexeme.render) := by
  have := resp_samePre h hg
  simp only [startsWithBom, hasAt]
  rw [this [254, 255] (by decide), this [239, 187, 191] (by decide)]

/-! ### the tokens: the same up to the values of the S tokens -/

theorem resp_toks {ls ls' : List Lexeme} (h : Resp ls ls') :
    (ls'.map tokOf).map normS = (ls.map tokOf).map normS := by
  induction h with
  | nil => rfl
  | keep l ls ls' _ _ ih => simp only [List.map_cons, ih]
  | ws c r c' r' ls ls' _ _ ih =>
    simp only [List.map_cons, ih]
    rfl

theorem sok_tok (l : Lexeme) (h : GT l) : SOk (tokOf l) := by
  obtain ⟨hw, -, ht⟩ := h
  cases l with
  | ws c r =>
    intro _
    simp only [Lexeme.wf, Bool.and_eq_true] at hw
    have := ws_facts hw.1
    exact ⟨c, r, rfl, this.2.2.2.2.2.2.2.2.2.2.2.2.1, this.1, this.2.2.2.2.2.2.2.2.2.2.2.2.2.1, fun _ => this.2.2.2.1⟩
  | fast _ => intro h; cases h
  | delim _ => intro h; cases h
  | cdelim _ => intro h; cases h
  | includes => intro h; cases h
  | dashmatch => intro h; cases h
  | prefixmatch => intro h; cases h
  | suffixmatch => intro h; cases h
  | substringmatch => intro h; cases h
  | number _ _ => intro h; cases h
  | dimension _ _ _ _ _ => intro h; cases h
  | ident _ _ _ => intro h; cases h
  | function _ _ _ => intro h; cases h
  | hash _ _ => intro h; cases h
  | string _ _ => intro h; cases h
  | _ => cases ht


/-! ### every lexeme of a selector is of a white-space-tolerant class -/

def AllTol (ls : List Lexeme) : Prop := ∀ l ∈ ls, tol l = true

theorem AllTol.nil : AllTol [] := by intro l hl; cases hl
theorem AllTol.cons {l : Lexeme} {ls : List Lexeme} (h1 : tol l = true) (h2 : AllTol ls) : AllTol (l :: ls) := by
  intro x hx
  rcases List.mem_cons.mp hx with rfl | h
  · exact h1
  · exact h2 x h
theorem AllTol.append {a b : List Lexeme} (h1 : AllTol a) (h2 : AllTol b) : AllTol (a ++ b) := by
  intro x hx
  rcases List.mem_append.mp hx with h | h
  · exact h1 x h
  · exact h2 x h
theorem AllTol.flatMap {α} (f : α → List Lexeme) (l : List α) (h : ∀ a ∈ l, AllTol (f a)) :
    AllTol (l.flatMap f) := by
  intro x hx
  obtain ⟨a, ha, hxa⟩ := List.mem_flatMap.mp hx
  exact h a ha x hxa
theorem AllTol.map {α} (f : α → Lexeme) (l : List α) (h : ∀ a ∈ l, tol (f a) = true) : AllTol (l.map f) := by
  intro x hx
  obtain ⟨a, ha, rfl⟩ := List.mem_map.mp hx
  exact h a ha

theorem tol_pfx (p : Pfx) : AllTol p.lex := by
  cases p
  · exact .nil
  · exact .cons rfl (.cons rfl .nil)
  · exact .cons rfl .nil
  · exact .cons rfl (.cons rfl .nil)

theorem tol_arg (a : ArgTok) : tol a.lex = true := by cases a <;> rfl
theorem tol_op (op : AttrOp) : tol op.lex = true := by cases op <;> rfl
theorem tol_val (v : AttrVal) : tol v.lex = true := by cases v <;> rfl

theorem tol_attr_pfx (p : Option Text) : AllTol (attrPfxLex p) := by
  cases p with
  | none => exact .nil
  | some q =>
    simp only [attrPfxLex]
    refine .append ?_ (.cons rfl .nil)
    split
    · exact .nil
    · split
      · exact .cons rfl .nil
      · exact .cons rfl .nil

theorem tol_simple (s : Simple) : AllTol s.lex := by
  cases s with
  | id v => exact .cons rfl .nil
  | cls v => exact .cons rfl (.cons rfl .nil)
  | attrib p name rhs =>
    refine .append (.append (.append (.append (.cons rfl .nil) (tol_attr_pfx p)) (.cons rfl .nil)) ?_) (.cons rfl .nil)
    cases rhs with
    | none => exact .nil
    | some ov => exact .cons (tol_op ov.1) (.cons (tol_val ov.2) .nil)
  | pclass v => exact .cons rfl (.cons rfl .nil)
  | pfunc v a args =>
    exact .append (.append (.cons rfl (.cons rfl .nil)) (.map _ _ (fun b _ => tol_arg b))) (.cons rfl .nil)

theorem tol_negarg (a : NegArg) : AllTol a.lex := by
  cases a with
  | type p name => exact .append (tol_pfx p) (.cons rfl .nil)
  | universal p => exact .append (tol_pfx p) (.cons rfl .nil)
  | simple s => exact tol_simple s

theorem tol_part (p : Part) : AllTol p.lex := by
  cases p with
  | simple s => exact tol_simple s
  | neg a => exact .append (.append (.cons rfl (.cons rfl .nil)) (tol_negarg a)) (.cons rfl .nil)

theorem tol_compound (c : Compound) : AllTol c.lex := by
  obtain ⟨hd, ps, pe⟩ := c
  refine .append (.append ?_ (.flatMap _ _ (fun p _ => tol_part p))) ?_
  · cases hd with
    | none => exact .nil
    | some x =>
      cases x with
      | type p name => exact .append (tol_pfx p) (.cons rfl .nil)
      | universal p => exact .append (tol_pfx p) (.cons rfl .nil)
  · cases pe with
    | none => exact .nil
    | some e =>
      cases e with
      | dbl v => exact .cons rfl (.cons rfl (.cons rfl .nil))
      | legacy v => exact .cons rfl (.cons rfl .nil)

theorem tol_comb (cb : Comb) (l : Layout) : AllTol (cb.lex l) := by
  have hb : AllTol [blank] := .cons rfl .nil
  have hopt : ∀ b : Bool, AllTol (if b then [blank] else []) := by intro b; cases b; exact .nil; exact hb
  cases cb with
  | descendant => exact hb
  | child => exact .append (.append (hopt _) (.cons rfl .nil)) (hopt _)
  | adjacent => exact .append (.append (hopt _) (.cons rfl .nil)) (hopt _)
  | following => exact .append (.append (hopt _) (.cons rfl .nil)) (hopt _)

theorem tol_sel (σ : Sel) : AllTol σ.lex :=
  .append (tol_compound σ.first)
    (.flatMap _ _ (fun x _ => .append (tol_comb x.1 x.2.1) (tol_compound x.2.2)))

theorem gt_sel (σ : Sel) (h : σ.NamesOK = true) : ∀ l ∈ σ.lex, GT l :=
  fun l hl => ⟨(good_sel σ h l hl).1, (good_sel σ h l hl).2, tol_sel σ l hl⟩


/-! ### the laid-out selector -/

theorem resp_lexWith (σ : Sel) (hn : σ.NamesOK = true) (sp : Spacing) (hsp : sp.all wsRunOK = true) :
    Resp σ.lex (σ.lexWith sp) :=
  resp_respace σ.lex sp hsp (fun l hl => (gt_sel σ hn l hl).1)

/-- **the lexemes of a selector in any layout meet the hypotheses of `C09.classify_sequence`** -/
theorem lexWith_classify (σ : Sel) (hn : σ.NamesOK = true) (sp : Spacing) (hsp : sp.all wsRunOK = true) :
    (∀ l ∈ σ.lexWith sp, l.wf = true) ∧ chain canFollow (σ.lexWith sp) = true ∧
      ratioFree none (σ.lexWith sp) = true ∧ startsWithBom (σ.textWith sp) = false := by
  have hr := resp_lexWith σ hn sp hsp
  have hg := gt_sel σ hn
  have hg' := resp_gt hr hg
  refine ⟨fun l hl => (hg' l hl).1, resp_chain hr hg (chain_sel σ hn),
    ratioFree_sf _ none (fun l hl => (hg' l hl).2.1), ?_⟩
  exact (resp_bom hr hg).trans (lex_classify σ hn).2.2.2

/-- the pre-pass on the tokens of the laid-out lexemes gives the token rendering of the grammar, up to
the values of the S tokens -/
theorem prepass_lexWith (σ : Sel) (hn : σ.NamesOK = true) (sp : Spacing) (hsp : sp.all wsRunOK = true) :
    (prepass Gen.tables ((σ.lexWith sp).map tokOf)).map normS = σ.toks.map normS := by
  have hr := resp_lexWith σ hn sp hsp
  have hg := gt_sel σ hn
  have hg' := resp_gt hr hg
  have s1 : ∀ t ∈ (σ.lexWith sp).map tokOf, SOk t := by
    intro t ht
    obtain ⟨l, hl, rfl⟩ := List.mem_map.mp ht
    exact sok_tok l (hg' l hl)
  have s2 : ∀ t ∈ σ.lex.map tokOf, SOk t := by
    intro t ht
    obtain ⟨l, hl, rfl⟩ := List.mem_map.mp ht
    exact sok_tok l (hg l hl)
  rw [← prepass_normS _ s1, resp_toks hr, prepass_normS _ s2, prepass_lex σ hn]

theorem run_lexWith (m : NsMap) (σ : Sel) (hn : σ.NamesOK = true) (sp : Spacing) (hsp : sp.all wsRunOK = true) :
    run Gen.tables m (prepass Gen.tables ((σ.lexWith sp).map tokOf)) = run Gen.tables m σ.toks := by
  rw [← run_normS, prepass_lexWith σ hn sp hsp, run_normS]

/-! ### comments (NOT covered by the layouts)

Selector tokenizes with comments kept (`Cfg ⟨false, true⟩`; `_COMMENT` of /repo appends a `CSSComment` item),
so a comment at a white-space place is not a matter of S values.  What a second theorem needs, layer by layer:

* token grammar — C09 has the lexeme `comment body` (`noClose body`), but `ratioFree` is proved here from "no
  lexeme starts with `/`" (`sf`); with comments it has to be "no unsigned integer argument is followed, after
  optional white space, by a comment" (`2 /**/` is outside `C09.classify_number`'s sufficient condition);
* pre-pass — a COMMENT token is pushed and the next token sees it as `last`, so it blocks every merge:
  `prepass_normS` has no analogue (`.`,`/**/`,`c` is not a class).  The unit lemmas `pp_compound`, `pp_comb`
  need `HeadReady` widened from the five concrete tokens to "S, combinator, `:not(` or COMMENT" and a token
  rendering with comments to compare with;
* state machine — `step_comment` below: with no prefix pending only an item is recorded, so `Between`,
  `ReadyHead` and `Adv` of `Proofs/Selector.lean` (which constrain `items` only by `≠ []`) are preserved; but
  `specificity` is stated for `Sel.toks`, which has no comments: `run_explicit` / `run_rest` must be re-run over a
  rendering `S? (COMMENT S?)* char …`, and a comment alone is not a descendant combinator (`a/**/b` is
  rejected), so the descendant place needs at least one S;
* `step_comment_pfx`: right after a namespace prefix a comment consumes the prefix — such a place must stay
  excluded. -/

/-- when no namespace prefix is pending, a COMMENT token only records an item: context, `expected`,
counters and verdict are untouched -/
theorem step_comment (T : Tables) (m : NsMap) (st : St) (v : Text) (hp : st.pfx = none) (hv : v ≠ str "[") :
    step T m st (.comment, v) = { st with items := ⟨.comment, v, none⟩ :: st.items } := by
  simp [step, append, hp, count, IT.isSelector, hv]

/-- … but a pending prefix is consumed by it: a comment right after `p|` swallows the prefix -/
theorem step_comment_pfx (T : Tables) (m : NsMap) (st : St) (v p : Text) (hp : st.pfx = some p) (hv : v ≠ str "[") :
    (step T m st (.comment, v)).pfx = none := by
  simp [step, append, hp, count, IT.isSelector, hv]


end CssVerif.Selector
