import CssVerif.Model.Urls
namespace CssVerif.Urls

/-! ### traversal -/

mutual
  theorem decls_replace (f : Url → Url) : ∀ n : Node, declsOf true (replaceIn true f n) = (declsOf true n).map f
    | .import_ _ => rfl
    | .style us => rfl
    | .page own ms => by simp [replaceIn, declsOf, List.map_flatten]
    | .media kids => by simp only [replaceIn, declsOf]; exact declsList_replace f kids
    | .other => rfl
  theorem declsList_replace (f : Url → Url) : ∀ ns : List Node,
      declsOfList true (replaceInList true f ns) = (declsOfList true ns).map f
    | [] => rfl
    | n :: ns => by simp [replaceInList, declsOfList, decls_replace f n, declsList_replace f ns]
end

theorem imports_replaceIn (fx : Bool) (f : Url → Url) : ∀ ns : List Node,
    importHrefs (replaceInList fx f ns) = importHrefs ns
  | [] => rfl
  | n :: ns => by cases n <;> simp [replaceInList, replaceIn, importHrefs, imports_replaceIn fx f ns]

theorem imports_replaceImports (f : Url → Url) : ∀ ns : List Node,
    importHrefs (replaceImports f ns) = (importHrefs ns).map f
  | [] => rfl
  | n :: ns => by cases n <;> simp [replaceImports, importHrefs, imports_replaceImports f ns]

mutual
  theorem decls_replaceImports_node (fx : Bool) : ∀ n : Node, True
    | _ => trivial
end

theorem decls_replaceImports (fx : Bool) (f : Url → Url) : ∀ ns : List Node,
    declsOfList fx (replaceImports f ns) = declsOfList fx ns
  | [] => rfl
  | n :: ns => by cases n <;> simp [replaceImports, declsOfList, declsOf, decls_replaceImports fx f ns]

/-- **replace, then get = map**: every URL is handed to the replacer exactly once, imports optional -/
theorem replace_then_get (f : Url → Url) (sheet : List Node) :
    getUrls true (replaceUrls true f false sheet) = (getUrls true sheet).map f ∧
    getUrls true (replaceUrls true f true sheet) = importHrefs sheet ++ (declsOfList true sheet).map f := by
  constructor
  · simp [getUrls, replaceUrls, imports_replaceIn, imports_replaceImports, declsList_replace, decls_replaceImports]
  · simp [getUrls, replaceUrls, imports_replaceIn, declsList_replace]

/-- the declarations of an @page rule are seen, at any nesting depth inside @media -/
def nest : Nat → Node → Node
  | 0, n => n
  | d + 1, n => .media [nest d n]

theorem page_seen (d : Nat) (own : List Url) (ms : List (List Url)) (pre post : List Node) (u : Url) (hu : u ∈ own) :
    u ∈ getUrls true (pre ++ nest d (.page own ms) :: post) := by
  have h1 : ∀ d, u ∈ declsOf true (nest d (.page own ms)) := by
    intro d
    induction d with
    | zero => simp [nest, declsOf, hu]
    | succ d ih => simp [nest, declsOf, declsOfList, ih]
  have h2 : ∀ pre : List Node, u ∈ declsOfList true (pre ++ nest d (.page own ms) :: post) := by
    intro pre
    induction pre with
    | nil => simp [declsOfList, h1 d]
    | cons p pre ih => simp [declsOfList, ih]
  simp [getUrls, h2 pre]

/-- the pinned snapshot skipped them -/
theorem snapshot_page :
    getUrls false [.page [[1]] [[[2]]]] = [[2]] ∧ getUrls true [.page [[1]] [[[2]]]] = [[1], [2]] := by decide

/-! ### quoting and un-quoting -/

/-- no backslash (and, as the property says, no newline / form feed / carriage return) -/
def Safe (u : Url) : Prop := ∀ c ∈ u, c ≠ 92

def escQ (v : Url) : Url := v.flatMap (fun c => if c = 34 then [92, 34] else [c])

theorem unescape_esc (v t : Url) (hs : Safe v) : unescape 34 (escQ v ++ t) = v ++ unescape 34 t := by
  induction v with
  | nil => simp [escQ]
  | cons c v ih =>
    have hc : c ≠ 92 := hs c (List.mem_cons_self ..)
    have hs' : Safe v := fun x hx => hs x (List.mem_cons_of_mem _ hx)
    have ih' := ih hs'
    by_cases h : c = 34
    · subst h
      simp only [escQ, List.flatMap_cons, if_true, List.cons_append, List.nil_append] at ih' ⊢
      simp only [unescape, if_true]
      rw [ih']
    · simp only [escQ, List.flatMap_cons, h, if_false, List.cons_append, List.nil_append] at ih' ⊢
      have : unescape 34 (c :: (List.flatMap (fun c => if c = 34 then [92, 34] else [c]) v ++ t)) =
          c :: unescape 34 (List.flatMap (fun c => if c = 34 then [92, 34] else [c]) v ++ t) := by
        cases hh : (List.flatMap (fun c => if c = 34 then [92, 34] else [c]) v ++ t) with
        | nil => simp [unescape]
        | cons d r =>
          rw [unescape.eq_def]
          simp [hc]
      rw [this, ih']

theorem getLast_snoc (a b : Nat) (x : List Nat) : (a :: (x ++ [b])).getLast? = some b := by
  rw [show a :: (x ++ [b]) = (a :: x) ++ [b] by simp, List.getLast?_append]; simp

theorem escQ_getLast (v : Url) : (escQ v).getLast? = v.getLast? := by
  induction v with
  | nil => rfl
  | cons c v ih =>
    have hcons : escQ (c :: v) = (if c = 34 then [92, 34] else [c]) ++ escQ v := by simp [escQ]
    rw [hcons, List.getLast?_append, ih]
    cases v with
    | nil => by_cases h : c = 34 <;> simp [h]
    | cons d r =>
      have : ∃ x, (d :: r).getLast? = some x := ⟨(d :: r).getLast (by simp), List.getLast?_eq_getLast _⟩
      obtain ⟨x, hx⟩ := this
      have hc : (c :: d :: r).getLast? = (d :: r).getLast? := by simp [List.getLast?_cons_cons]
      rw [hc, hx]; rfl

theorem escQ_last (v : Url) (hs : Safe v) : (escQ v).getLast? ≠ some 92 := by
  rw [escQ_getLast]
  intro h
  exact hs 92 (List.mem_of_getLast? h) rfl

theorem cssString_safe (v : Url) (hs : Safe v) : cssString v = [34] ++ escQ v ++ [34] := by
  have := escQ_last v hs
  simp only [cssString]
  split
  · rename_i h
    have h' : (escQ v).getLast? = some 92 := by simpa [escQ] using h
    exact absurd h' this
  · rfl

theorem stringValue_cssString (v : Url) (hs : Safe v) : stringValue (cssString v) = v := by
  rw [cssString_safe v hs]
  simp only [stringValue, List.cons_append, List.nil_append]
  have h1 : unescape 34 (34 :: (escQ v ++ [34])) = 34 :: unescape 34 (escQ v ++ [34]) := by
    cases hh : escQ v ++ [34] with
    | nil => simp at hh
    | cons d r => simp [unescape]
  rw [h1, unescape_esc v [34] hs]
  simp [unescape]

theorem strip_id (s : Url) (h1 : ∀ a, s.head? = some a → isSpace a = false)
    (h2 : ∀ b, s.getLast? = some b → isSpace b = false) : strip s = s := by
  have ws_sp : ∀ c, isSpace c = false → isCssWs c = false := by
    intro c hc
    cases hw : isCssWs c with
    | false => rfl
    | true =>
      exfalso
      simp only [isCssWs, Bool.or_eq_true, beq_iff_eq] at hw
      have : isSpace c = true := by
        rcases hw with (((h | h) | h) | h) | h <;> subst h <;> decide
      rw [this] at hc; cases hc
  have h1 := fun a h => ws_sp a (h1 a h)
  have h2 := fun b h => ws_sp b (h2 b h)
  cases s with
  | nil => rfl
  | cons a r =>
    have ha := h1 a rfl
    have hd : (a :: r).dropWhile isCssWs = a :: r := by simp [List.dropWhile, ha]
    simp only [strip, hd]
    have hr : ((a :: r).reverse).dropWhile isCssWs = (a :: r).reverse := by
      cases hrev : (a :: r).reverse with
      | nil => simp at hrev
      | cons b t =>
        have hb : (a :: r).getLast? = some b := by
          rw [← List.head?_reverse, hrev]; rfl
        simp [List.dropWhile, h2 b hb]
    rw [hr, List.reverse_reverse]

theorem forbidden_of_space (c : Nat) (h : isSpace c = true) : forbidden true c = true := by simp [forbidden, h]

/-- **a URL survives being written and read back**: for every string without backslash, whatever else it
contains (quotes, brackets, separators, spaces, control characters, any non-ASCII character) -/
theorem uri_roundtrip (u : Url) (hs : Safe u) : uriValue (cssUri true u) = u := by
  simp only [cssUri, uriValue]
  have hfind : (([117, 114, 108, 40] ++ (if u.any (forbidden true) = true then cssString u else u) ++ [41]).findIdx?
      (· == 40)) = some 3 := by
    simp [List.findIdx?_cons]
  rw [hfind]
  simp only [Option.getD_some]
  have hdrop : ∀ x : Url, (([117, 114, 108, 40] ++ x ++ [41]).drop (3 + 1)).dropLast = x := by
    intro x; simp
  rw [hdrop]
  by_cases hq : u.any (forbidden true) = true
  · -- quoted
    simp only [hq, if_true]
    have hcs := cssString_safe u hs
    have hstrip : strip (cssString u) = cssString u := by
      apply strip_id
      · intro a ha; rw [hcs] at ha; simp at ha; subst ha; decide
      · intro b hb
        rw [hcs] at hb
        simp only [List.cons_append, List.nil_append] at hb
        rw [getLast_snoc] at hb
        cases hb; decide
    rw [hstrip]
    have hh : (cssString u).head? = some 34 := by rw [hcs]; rfl
    have hl : (cssString u).getLast? = some 34 := by
      rw [hcs]; simp only [List.cons_append, List.nil_append]; exact getLast_snoc 34 34 _
    simp only [hh, hl]
    simp [stringValue_cssString u hs]
  · -- bare
    simp only [hq, Bool.false_eq_true, if_false]
    have hnone : ∀ c ∈ u, forbidden true c = false := by
      intro c hc
      cases hf : forbidden true c with
      | false => rfl
      | true => exact absurd (List.any_eq_true.2 ⟨c, hc, hf⟩) hq
    have hstrip : strip u = u := by
      apply strip_id
      · intro a ha
        have : a ∈ u := by cases u with
          | nil => simp at ha
          | cons x r => simp at ha; subst ha; exact List.mem_cons_self ..
        cases hsp : isSpace a with
        | false => rfl
        | true => exact absurd (hnone a this) (by simp [forbidden_of_space a hsp])
      · intro b hb
        have : b ∈ u := List.mem_of_getLast? hb
        cases hsp : isSpace b with
        | false => rfl
        | true => exact absurd (hnone b this) (by simp [forbidden_of_space b hsp])
    rw [hstrip]
    cases hhd : u.head? with
    | none => cases u with
      | nil => rfl
      | cons _ _ => simp at hhd
    | some a =>
      cases hlt : u.getLast? with
      | none => cases u with
        | nil => simp at hhd
        | cons _ _ => simp at hlt
      | some b =>
        have ha : a ∈ u := by cases u with
          | nil => simp at hhd
          | cons x r => simp at hhd; subst hhd; exact List.mem_cons_self ..
        have hfa := hnone a ha
        have hnq : ¬ (a = 34 ∨ a = 39) := by
          intro h
          rcases h with h | h <;> subst h <;> simp [forbidden] at hfa
        simp [hnq]

end CssVerif.Urls
