import CssVerif.Model.Escape
namespace CssVerif.Escape

/-! ### hex digits -/

theorem hexVal_digit (d : Nat) (h : d < 16) : hexVal (hexDigit d) = some d := by
  simp only [hexDigit, hexVal]
  by_cases h1 : d < 10
  · simp [h1]; omega
  · simp only [h1, if_false]
    have : ¬ (48 ≤ 55 + d ∧ 55 + d ≤ 57) := by omega
    simp only [this, if_false]
    have : 65 ≤ 55 + d ∧ 55 + d ≤ 70 := by omega
    simp [this]

def foldHex (acc : Nat) (a : Text) : Nat := a.foldl (fun x c => x * 16 + (hexVal c).getD 0) acc

def allHex (a : Text) : Prop := ∀ c ∈ a, (hexVal c).isSome

theorem takeHex_append (a : Text) : ∀ (k acc n : Nat) (b : Text), allHex a → a.length ≤ k →
    takeHex k acc n (a ++ b) = takeHex (k - a.length) (foldHex acc a) (n + a.length) b := by
  induction a with
  | nil => intro k acc n b _ _; simp [foldHex]
  | cons c a ih =>
    intro k acc n b hh hk
    have hc := hh c (List.mem_cons_self ..)
    obtain ⟨d, hd⟩ := Option.isSome_iff_exists.1 hc
    cases k with
    | zero => simp at hk
    | succ k =>
      simp only [List.cons_append, takeHex, hd]
      rw [ih k _ _ b (fun x hx => hh x (List.mem_cons_of_mem _ hx)) (by simpa using hk)]
      simp only [foldHex, List.foldl_cons, hd, Option.getD_some, List.length_cons]
      have e1 : k + 1 - (a.length + 1) = k - a.length := by omega
      have e2 : n + 1 + a.length = n + (a.length + 1) := by omega
      rw [e1, e2]

theorem hexUpper_spec : ∀ (fuel n : Nat), n < 16 ^ fuel → 0 < fuel →
    allHex (hexUpper fuel n) ∧ (∀ acc, foldHex acc (hexUpper fuel n) = acc * 16 ^ (hexUpper fuel n).length + n) ∧
    (∀ k, n < 16 ^ k → 0 < k → (hexUpper fuel n).length ≤ k) ∧ 0 < (hexUpper fuel n).length := by
  intro fuel
  induction fuel with
  | zero => intro n _ h; omega
  | succ f ih =>
    intro n hn _
    simp only [hexUpper]
    by_cases h16 : n < 16
    · simp only [h16, if_true]
      refine ⟨?_, ?_, ?_, by simp⟩
      · intro c hc; simp at hc; subst hc; rw [hexVal_digit n h16]; rfl
      · intro acc; simp [foldHex, hexVal_digit n h16]
      · intro k _ hk; simp; omega
    · simp only [h16, if_false]
      have hf : 0 < f := by
        cases f with
        | zero => simp at hn; omega
        | succ _ => omega
      have hdiv : n / 16 < 16 ^ f := by
        rw [Nat.pow_succ] at hn
        exact Nat.div_lt_of_lt_mul (by omega)
      obtain ⟨i1, i2, i3, i4⟩ := ih (n / 16) hdiv hf
      have hm : n % 16 < 16 := Nat.mod_lt _ (by omega)
      refine ⟨?_, ?_, ?_, by simp⟩
      · intro c hc
        simp only [List.mem_append, List.mem_singleton] at hc
        rcases hc with hc | hc
        · exact i1 c hc
        · subst hc; rw [hexVal_digit _ hm]; rfl
      · intro acc
        simp only [foldHex, List.foldl_append, List.foldl_cons, List.foldl_nil, hexVal_digit _ hm,
          Option.getD_some, List.length_append, List.length_singleton]
        have := i2 acc
        simp only [foldHex] at this
        rw [this, Nat.pow_succ]
        have := Nat.div_add_mod n 16
        calc (acc * 16 ^ (hexUpper f (n / 16)).length + n / 16) * 16 + n % 16
            = acc * 16 ^ (hexUpper f (n / 16)).length * 16 + (16 * (n / 16) + n % 16) := by
              rw [Nat.add_mul]; omega
          _ = acc * (16 ^ (hexUpper f (n / 16)).length * 16) + n := by rw [this, Nat.mul_assoc]
      · intro k hk hk0
        simp only [List.length_append, List.length_singleton]
        cases k with
        | zero => omega
        | succ k =>
          have : n / 16 < 16 ^ k := by
            rw [Nat.pow_succ] at hk
            exact Nat.div_lt_of_lt_mul (by omega)
          have hk' : 0 < k := by
            cases k with
            | zero => simp at this; omega
            | succ _ => omega
          have := i3 k this hk'
          omega

/-- reading back what `escChar` writes -/
theorem takeHex_escChar (c : Nat) (hc : c ≤ 0x10FFFF) (rest : Text) :
    ∃ len, 0 < len ∧ takeHex 6 0 0 (hexUpper 8 c ++ 32 :: rest) = (c, len, 32 :: rest) := by
  have hlt : c < 16 ^ 8 := by omega
  obtain ⟨h1, h2, h3, h4⟩ := hexUpper_spec 8 c hlt (by omega)
  have hlen : (hexUpper 8 c).length ≤ 6 := h3 6 (by omega) (by omega)
  refine ⟨(hexUpper 8 c).length, h4, ?_⟩
  rw [takeHex_append _ 6 0 0 _ h1 hlen, h2 0]
  simp only [Nat.zero_mul, Nat.zero_add]
  cases hk : 6 - (hexUpper 8 c).length with
  | zero => rfl
  | succ k => simp [takeHex, hexVal]

/-! ### escaping, then reading -/

theorem unescape_plain (fuel c : Nat) (s : Text) (hc : c ≠ 92) : unescape (fuel + 1) (c :: s) = c :: unescape fuel s := by
  have hc' : ¬ 92 = c := fun h => hc h.symm
  simp [unescape, hc, hc']

theorem unescape_esc (fuel c : Nat) (rest : Text) (hc : c ≤ 0x10FFFF) :
    unescape (fuel + 1) (escChar c ++ rest) = c :: unescape fuel rest := by
  obtain ⟨len, hlen, ht⟩ := takeHex_escChar c hc rest
  have hn : ¬ len = 0 := by omega
  simp only [escChar, List.cons_append, List.append_assoc, List.singleton_append, List.nil_append]
  simp [unescape, ht, hn, isWs, hc]

theorem escapeAll_length_ge (can : Nat → Bool) (t : Text) : t.length ≤ (escapeAll can t).length := by
  induction t with
  | nil => simp [escapeAll]
  | cons c t ih =>
    simp only [escapeAll, List.flatMap_cons, List.length_append, List.length_cons] at ih ⊢
    have : 1 ≤ (if can c = true then [c] else escChar c).length := by split <;> simp [escChar]
    omega

/-- **escaping the characters an encoding lacks and reading the result gives the text back**: for any text
without backslash and any set of encodable characters -/
theorem escape_roundtrip (can : Nat → Bool) (t : Text) (hb : ∀ c ∈ t, c ≠ 92) (hu : ∀ c ∈ t, c ≤ 0x10FFFF) :
    ∀ fuel, t.length < fuel → unescape fuel (escapeAll can t) = t := by
  induction t with
  | nil => intro fuel _; cases fuel <;> simp [escapeAll, unescape]
  | cons c t ih =>
    intro fuel hf
    cases fuel with
    | zero => simp at hf
    | succ f =>
      have hb' : ∀ x ∈ t, x ≠ 92 := fun x hx => hb x (List.mem_cons_of_mem _ hx)
      have hu' : ∀ x ∈ t, x ≤ 0x10FFFF := fun x hx => hu x (List.mem_cons_of_mem _ hx)
      have hrec := ih hb' hu' f (by simpa using hf)
      simp only [escapeAll, List.flatMap_cons] at hrec ⊢
      by_cases hcan : can c = true
      · simp only [hcan, if_true, List.singleton_append]
        rw [unescape_plain f c _ (hb c (List.mem_cons_self ..)), hrec]
      · simp only [hcan, Bool.false_eq_true, if_false]
        rw [unescape_esc f c _ (hu c (List.mem_cons_self ..)), hrec]

/-- the written text uses only characters the encoding has, if it has backslash, space and the hex digits -/
theorem escape_encodable (can : Nat → Bool) (t : Text) (h92 : can 92 = true) (h32 : can 32 = true)
    (hhex : ∀ d, d < 16 → can (hexDigit d) = true) (hu : ∀ c ∈ t, c ≤ 0x10FFFF) :
    ∀ x ∈ escapeAll can t, can x = true := by
  have hdig : ∀ fuel n, ∀ x ∈ hexUpper fuel n, can x = true := by
    intro fuel
    induction fuel with
    | zero => intro n x hx; simp [hexUpper] at hx
    | succ f ih =>
      intro n x hx
      simp only [hexUpper] at hx
      split at hx
      · simp at hx; subst hx; exact hhex n (by assumption)
      · simp only [List.mem_append, List.mem_singleton] at hx
        rcases hx with hx | hx
        · exact ih _ x hx
        · subst hx; exact hhex _ (Nat.mod_lt _ (by omega))
  intro x hx
  simp only [escapeAll, List.mem_flatMap] at hx
  obtain ⟨c, _, hxc⟩ := hx
  split at hxc
  · simp at hxc; subst hxc; assumption
  · simp only [escChar, List.mem_cons, List.mem_append, List.not_mem_nil, or_false] at hxc
    rcases hxc with (h | h) | h
    · subst h; exact h92
    · exact hdig 8 c x h
    · subst h; exact h32

end CssVerif.Escape
