/-
Facts about the tokenizer model, for an arbitrary `Tables` value satisfying
decidable side conditions (checked on the regenerated tables in Props/C08).
-/
import CssVerif.Model.Tokenizer
import CssVerif.Proofs.Re
namespace CssVerif
open Re

/-! ### side conditions on the tables (all decidable) -/

def allNonNullable (T : Tables) : Bool := T.prods.all (fun p => !nullable p.re)

/-- some production is a negated class `[^…]` without look-behind and not named IDENT, and every
character it excludes is covered by some other such production -/
def coversAll (T : Tables) : Bool :=
  T.prods.any (fun p =>
    match p.re with
    | .cls true rs =>
      p.notAfter.isNone && p.name != "IDENT" &&
      rs.all (fun lh => (List.range (lh.2 + 1 - lh.1)).all (fun i =>
        T.prods.any (fun q => q.notAfter.isNone && q.name != "IDENT" && covers q.re (lh.1 + i))))
    | _ => false)

def fastNoNl (T : Tables) : Bool := !T.fastChars.contains 10

def startsWithBackslash : Re → Bool
  | .seq (.cls false [(92, 92)]) _ => true
  | _ => false

def backslashOnly (T : Tables) : Bool :=
  startsWithBackslash T.unicodesub && startsWithBackslash T.cleanstring

/-! ### list helpers -/

theorem consumed_append {s rem : Text} (h : rem <:+ s) : consumed s rem ++ rem = s := by
  obtain ⟨p, rfl⟩ := h
  simp [consumed]

theorem consumed_prefix (s rem : Text) : consumed s rem <+: s := List.take_prefix _ _

theorem consumed_length {s rem : Text} (h : rem.length ≤ s.length) :
    (consumed s rem).length = s.length - rem.length := by
  simp [consumed]

theorem consumed_ne_nil {s rem : Text} (h : rem.length < s.length) : consumed s rem ≠ [] := by
  intro hc
  have := congrArg List.length hc
  rw [consumed_length (Nat.le_of_lt h)] at this
  simp at this
  omega

theorem matchProd_exec {p : Prod} {prev : Option Nat} {s rem : Text}
    (h : matchProd p prev s = some rem) : exec p.re s = some rem := by
  unfold matchProd at h
  split at h
  · split at h
    · cases h
    · exact h
  · exact h

theorem prefix_take_of_le {a b e : Text} (h : a <+: b ++ e) (hl : a.length ≤ b.length) : a <+: b := by
  induction a generalizing b with
  | nil => exact List.nil_prefix
  | cons x xs ih =>
    cases b with
    | nil => simp at hl
    | cons y ys =>
      simp only [List.cons_append, List.cons_prefix_cons] at h
      simp only [List.cons_prefix_cons]
      exact ⟨h.1, ih h.2 (by simpa using hl)⟩

theorem prefix_drop_eq {a b : Text} (h : a <+: b) : a ++ b.drop a.length = b := by
  obtain ⟨t, rfl⟩ := h
  simp

theorem prefix_of_ge {a b e : Text} (h : a <+: b ++ e) (hl : b.length ≤ a.length) : b <+: a := by
  induction b generalizing a with
  | nil => exact List.nil_prefix
  | cons y ys ih =>
    cases a with
    | nil => simp at hl
    | cons x xs =>
      simp only [List.cons_append, List.cons_prefix_cons] at h
      simp only [List.cons_prefix_cons]
      exact ⟨h.1.symm, ih h.2 (by simpa using hl)⟩

/-! ### what one loop iteration guarantees -/

/-- position update of the tokenizer for a raw match `f` -/
def adv (lc : Nat × Nat) (f : Text) : Nat × Nat :=
  (lc.1 + countNl f, if countNl f > 0 then tailFromLastNl f else lc.2 + f.length)

structure StepSpec (cfg : Cfg) (st : St) (r : Res) : Prop where
  raw_ne : r.raw ≠ []
  raw_pre : ∃ e, r.raw <+: st.rest ++ e ∧ e.length ≤ 2 ∧ (cfg.fullsheet = false → e = [])
  rest_eq : r.st.rest = st.rest.drop r.raw.length
  pos : (r.st.line, r.st.col) = adv (st.line, st.col) r.raw ∨ r.st.rest = []
  emit_pos : ∀ t, r.emit = some t → t.line = st.line ∧ t.col = st.col

theorem advance_pos (st : St) (f : Text) :
    ((advance st f).line, (advance st f).col) = adv (st.line, st.col) f := by
  simp [advance, adv]

theorem findProd_mem {ps : List Prod} {n : String} {p : Prod} (h : findProd ps n = some p) : p ∈ ps := by
  unfold findProd at h
  exact List.mem_of_find?_eq_some h

theorem completeUri_spec (T : Tables) (hnn : allNonNullable T = true) (rest : Text) :
    ∀ (es : List Text) (u : Text), (∀ e ∈ es, e.length ≤ 2) → completeUri T rest es = some u →
      u ≠ [] ∧ ∃ e, u <+: rest ++ e ∧ e.length ≤ 2 := by
  intro es
  induction es with
  | nil => intro u _ h; simp [completeUri] at h
  | cons e es ih =>
    intro u hes h
    simp only [completeUri] at h
    split at h
    · cases h
    · rename_i up hup
      split at h
      · rename_i rem hrem
        cases h
        have hmem := findProd_mem hup
        have hn : nullable up.re = false := by
          have := List.all_eq_true.mp hnn up hmem
          simpa using this
        have hlt := exec_progress up.re hn _ _ hrem
        exact ⟨consumed_ne_nil hlt, e, consumed_prefix _ _, hes e (List.mem_cons_self)⟩
      · exact ih u (fun e' he' => hes e' (List.mem_cons_of_mem _ he')) h

theorem uriEnds_len : ∀ e ∈ uriEnds, e.length ≤ 2 := by
  intro e he
  simp [uriEnds] at he
  rcases he with rfl | rfl | rfl <;> simp

theorem finishName_spec (T : Tables) (hnn : allNonNullable T = true) (cfg : Cfg) (st : St)
    (name0 : String) (rem : Text) (hrem : rem <:+ st.rest) (hlt : rem.length < st.rest.length) :
    (finishName T cfg st name0 (consumed st.rest rem) rem).2 ≠ [] ∧
    ∃ e, (finishName T cfg st name0 (consumed st.rest rem) rem).2 <+: st.rest ++ e ∧ e.length ≤ 2 ∧
      (cfg.fullsheet = false → e = []) := by
  have h0 : consumed st.rest rem ≠ [] := consumed_ne_nil hlt
  have hbase : consumed st.rest rem ≠ [] ∧
      ∃ e, consumed st.rest rem <+: st.rest ++ e ∧ e.length ≤ 2 ∧ (cfg.fullsheet = false → e = []) :=
    ⟨h0, [], by simpa using consumed_prefix _ _, by simp, fun _ => rfl⟩
  simp only [finishName]
  split
  · rename_i hfull
    split
    · rename_i hinv
      simp only [Bool.and_eq_true, List.isEmpty_iff] at hinv
      have hr : rem = [] := hinv.2
      subst hr
      have hc : consumed st.rest [] = st.rest := by simp [consumed]
      refine ⟨by simp [h0], (consumed st.rest []).take 1, ?_, by simp; omega, ?_⟩
      · rw [hc]; exact List.prefix_refl _
      · intro hf; simp [hfull] at hf
    · split
      · split
        · rename_i u hu
          obtain ⟨hne, e, hpre, hlen⟩ := completeUri_spec T hnn st.rest uriEnds u uriEnds_len hu
          exact ⟨hne, e, hpre, hlen, fun hf => by simp [hfull] at hf⟩
        · exact hbase
      · exact hbase
  · exact hbase

theorem hasAt_cons_drop {rest : Text} {n c : Nat} (h : hasAt (rest.drop n) [c] = true) :
    ∃ tl, rest.drop n = c :: tl := by
  unfold hasAt at h
  cases hd : rest.drop n with
  | nil => rw [hd] at h; simp at h
  | cons x xs =>
    rw [hd] at h
    simp only [List.isPrefixOf, Bool.and_true] at h
    exact ⟨xs, by simp [beq_iff_eq.mp h]⟩

theorem prefix_snoc_of_drop {found rest e : Text} {c : Nat} (hp : found <+: rest ++ e)
    (hd : ∃ tl, rest.drop found.length = c :: tl) : found ++ [c] <+: rest := by
  obtain ⟨tl, htl⟩ := hd
  have hlen : found.length < rest.length := by
    apply Nat.lt_of_not_le
    intro hc
    have : rest.drop found.length = [] := List.drop_eq_nil_iff.mpr hc
    rw [this] at htl; cases htl
  have hpre : found <+: rest := prefix_take_of_le hp (Nat.le_of_lt hlen)
  have := prefix_drop_eq hpre
  rw [htl] at this
  exact ⟨tl, by rw [← this]; simp⟩

theorem finishVal_spec (T : Tables) (cfg : Cfg) (st : St) (name : String) (found : Text)
    (hne : found ≠ [])
    (hpre : ∃ e, found <+: st.rest ++ e ∧ e.length ≤ 2 ∧ (cfg.fullsheet = false → e = [])) :
    (finishVal T st name found).2.1 ≠ [] ∧
    ∃ e, (finishVal T st name found).2.1 <+: st.rest ++ e ∧ e.length ≤ 2 ∧ (cfg.fullsheet = false → e = []) := by
  simp only [finishVal]
  split
  · exact ⟨hne, hpre⟩
  · split
    · split
      · exact ⟨hne, hpre⟩
      · split
        · rename_i hcs
          simp only [Bool.and_eq_true] at hcs
          obtain ⟨e, hp, _, _⟩ := hpre
          refine ⟨by simp, [], ?_, by simp, fun _ => rfl⟩
          simpa using prefix_snoc_of_drop hp (hasAt_cons_drop hcs.2)
        · exact ⟨hne, hpre⟩
    · exact ⟨hne, hpre⟩

theorem finish_spec (T : Tables) (hnn : allNonNullable T = true) (cfg : Cfg) (st : St)
    (name0 : String) (rem : Text) (hrem : rem <:+ st.rest) (hlt : rem.length < st.rest.length) :
    StepSpec cfg st (finish T cfg st name0 (consumed st.rest rem) rem) := by
  have h1 := finishName_spec T hnn cfg st name0 rem hrem hlt
  have h2 := finishVal_spec T cfg st (finishName T cfg st name0 (consumed st.rest rem) rem).1 _ h1.1 h1.2
  refine ⟨h2.1, h2.2, ?_, Or.inl ?_, ?_⟩
  · simp [finish, advance]
  · simp only [finish]; exact advance_pos _ _
  · intro t ht
    simp only [finish] at ht
    split at ht
    · cases ht; exact ⟨rfl, rfl⟩
    · cases ht

theorem tryProds_spec (T : Tables) (hnn : allNonNullable T = true) (cfg : Cfg) (st : St)
    (hrest : st.rest ≠ []) :
    ∀ (ps : List Prod), (∀ p ∈ ps, p ∈ T.prods) → ∀ r, tryProds T cfg st ps = some r → StepSpec cfg st r := by
  intro ps
  induction ps with
  | nil => intro _ r h; simp [tryProds] at h
  | cons p ps ih =>
    intro hps r h
    have ih' := ih (fun q hq => hps q (List.mem_cons_of_mem _ hq))
    simp only [tryProds] at h
    split at h
    · -- special incomplete-comment branch fired
      rename_i r' hsp
      cases h
      split at hsp
      · rename_i hcond
        split at hsp
        · split at hsp
          · cases hsp
            simp only [Bool.and_eq_true] at hcond
            refine ⟨by simp, ⟨[42, 47], List.prefix_refl _, by simp, ?_⟩, ?_, Or.inr rfl, ?_⟩
            · intro hf; simp [hf] at hcond
            · simp
            · intro t ht; cases ht; exact ⟨rfl, rfl⟩
          · cases hsp
        · cases hsp
      · cases hsp
    · split at h
      · exact ih' r h
      · rename_i rem hm
        have hex := matchProd_exec hm
        have hn : nullable p.re = false := by
          have := List.all_eq_true.mp hnn p (hps p List.mem_cons_self)
          simpa using this
        have hsuf := exec_suffix _ _ _ hex
        have hlt := exec_progress _ hn _ _ hex
        split at h
        · exact ih' r h
        · cases h
          exact finish_spec T hnn cfg st p.name rem hsuf hlt

theorem step_spec (T : Tables) (hnn : allNonNullable T = true) (hfast : fastNoNl T = true)
    (cfg : Cfg) (st : St) (r : Res)
    (h : step T cfg st = some r) : StepSpec cfg st r := by
  unfold step at h
  split at h
  · cases h
  · rename_i c rs hr
    split at h
    · cases h
      refine ⟨by simp, ⟨[], ?_, by simp, fun _ => rfl⟩, ?_, Or.inl ?_, ?_⟩
      · rw [hr]; simp
      · simp [hr]
      · rename_i hfc
        have hc10 : c ≠ 10 := by
          intro h10; subst h10
          simp only [fastNoNl, hfc] at hfast; cases hfast
        have : List.count 10 [c] = 0 := by simp [List.count_cons]; omega
        simp [adv, countNl, this]
      · intro t ht; cases ht; exact ⟨rfl, rfl⟩
    · exact tryProds_spec T hnn cfg st (by rw [hr]; simp) T.prods (fun _ h => h) r h

/-! ### totality of one iteration -/

theorem tryProds_isSome (T : Tables) (cfg : Cfg) (st : St) :
    ∀ (ps : List Prod) (p : Prod), p ∈ ps → p.name ≠ "IDENT" → (matchProd p st.prev st.rest).isSome →
      (tryProds T cfg st ps).isSome := by
  intro ps
  induction ps with
  | nil => intro p hp; cases hp
  | cons q qs ih =>
    intro p hp hname hmatch
    simp only [tryProds]
    split
    · simp
    · split
      · rename_i hq
        rcases List.mem_cons.mp hp with rfl | hp'
        · rw [hq] at hmatch; simp at hmatch
        · exact ih p hp' hname hmatch
      · split
        · rename_i hcont
          rcases List.mem_cons.mp hp with rfl | hp'
          · simp only [Bool.and_eq_true, beq_iff_eq] at hcont
            exact absurd hcont.1.1 hname
          · exact ih p hp' hname hmatch
        · simp

theorem coversAll_spec (T : Tables) (h : coversAll T = true) (c : Nat) (s : Text) :
    ∃ p ∈ T.prods, p.notAfter = none ∧ p.name ≠ "IDENT" ∧ ms p.re (c :: s) ≠ [] := by
  unfold coversAll at h
  obtain ⟨p, hp, hcond⟩ := List.any_eq_true.mp h
  split at hcond
  · rename_i rs hre
    simp only [Bool.and_eq_true, Option.isNone_iff_eq_none, bne_iff_ne, ne_eq, List.all_eq_true] at hcond
    obtain ⟨⟨hna, hname⟩, hall⟩ := hcond
    by_cases hin : inRanges c rs = true
    · -- c is excluded by the class: some other production covers it
      have : ∃ lh ∈ rs, lh.1 ≤ c ∧ c ≤ lh.2 := by
        clear hall hre
        induction rs with
        | nil => simp [inRanges] at hin
        | cons x xs ihx =>
          obtain ⟨lo, hi⟩ := x
          simp only [inRanges, Bool.or_eq_true, Bool.and_eq_true, decide_eq_true_eq] at hin
          rcases hin with hh | hh
          · exact ⟨(lo, hi), List.mem_cons_self, hh.1, hh.2⟩
          · obtain ⟨lh, hm, hb⟩ := ihx hh
            exact ⟨lh, List.mem_cons_of_mem _ hm, hb⟩
      obtain ⟨lh, hm, hlo, hhi⟩ := this
      have := hall lh hm (c - lh.1) (List.mem_range.mpr (by omega))
      obtain ⟨q, hq, hqc⟩ := List.any_eq_true.mp this
      simp only [Bool.and_eq_true, Option.isNone_iff_eq_none, bne_iff_ne, ne_eq] at hqc
      have hc : lh.1 + (c - lh.1) = c := by omega
      rw [hc] at hqc
      exact ⟨q, hq, hqc.1.1, hqc.1.2, covers_ms q.re c hqc.2 s⟩
    · refine ⟨p, hp, hna, hname, ?_⟩
      rw [hre]
      simp [ms, clsMatch, hin]
  · cases hcond

theorem step_isSome (T : Tables) (hcov : coversAll T = true) (cfg : Cfg) (st : St)
    (hrest : st.rest ≠ []) : (step T cfg st).isSome := by
  unfold step
  split
  · rename_i h; exact absurd h hrest
  · rename_i c rs hr
    split
    · simp
    · obtain ⟨p, hp, hna, hname, hms⟩ := coversAll_spec T hcov c rs
      apply tryProds_isSome T cfg st T.prods p hp hname
      rw [hr]
      unfold matchProd
      rw [hna]
      exact exec_isSome_of_ne_nil _ _ hms

/-! ### the loop -/

theorem step_rest_lt (T : Tables) (hnn : allNonNullable T = true) (hfast : fastNoNl T = true) (cfg : Cfg) (st : St) (r : Res)
    (hrest : st.rest ≠ []) (h : step T cfg st = some r) : r.st.rest.length < st.rest.length := by
  have sp := step_spec T hnn hfast cfg st r h
  rw [sp.rest_eq, List.length_drop]
  have h1 : 0 < r.raw.length := List.length_pos_iff.mpr sp.raw_ne
  have h2 : 0 < st.rest.length := List.length_pos_iff.mpr hrest
  omega

/-- with fuel ≥ |rest| the loop never runs out of fuel and never gets stuck -/
theorem loop_done (T : Tables) (hnn : allNonNullable T = true) (hfast : fastNoNl T = true) (hcov : coversAll T = true) (cfg : Cfg) :
    ∀ (n : Nat) (st : St), st.rest.length ≤ n → (loop T cfg n st).2.2 = .done := by
  intro n
  induction n with
  | zero =>
    intro st h
    have : st.rest = [] := List.eq_nil_of_length_eq_zero (by omega)
    simp [loop, this]
  | succ n ih =>
    intro st h
    simp only [loop]
    split
    · rfl
    · rename_i c rs hr
      have hne : st.rest ≠ [] := by rw [hr]; simp
      have hs := step_isSome T hcov cfg st hne
      split
      · rename_i hnone; rw [hnone] at hs; simp at hs
      · rename_i r hsome
        have := step_rest_lt T hnn hfast cfg st r hne hsome
        exact ih r.st (by omega)

theorem loop_rest_nil (T : Tables) (cfg : Cfg) :
    ∀ (n : Nat) (st : St), (loop T cfg n st).2.2 = .done → (loop T cfg n st).2.1.rest = [] := by
  intro n
  induction n with
  | zero =>
    intro st h
    simp only [loop] at h ⊢
    split at h
    · rename_i he; simpa using he
    · cases h
  | succ n ih =>
    intro st h
    simp only [loop] at h ⊢
    split
    · rename_i hr; simpa using hr
    · rename_i c rs hr
      rw [hr] at h
      simp only at h
      split
      · rename_i hnone; rw [hnone] at h; cases h
      · rename_i r hsome
        rw [hsome] at h
        exact ih r.st h

/-- partition: the raw matches, in order, spell out the rest of the text followed by at most a
two-character completion, and by nothing when not in full-sheet mode -/
theorem loop_partition (T : Tables) (hnn : allNonNullable T = true) (hfast : fastNoNl T = true) (cfg : Cfg) :
    ∀ (n : Nat) (st : St), ∃ c,
      (loop T cfg n st).1.flatMap (·.2) ++ (loop T cfg n st).2.1.rest = st.rest ++ c ∧
      (c ≠ [] → (loop T cfg n st).2.1.rest = []) ∧ c.length ≤ 2 ∧ (cfg.fullsheet = false → c = []) := by
  intro n
  induction n with
  | zero => intro st; exact ⟨[], by simp [loop], by simp, by simp, fun _ => rfl⟩
  | succ n ih =>
    intro st
    simp only [loop]
    split
    · rename_i hr; exact ⟨[], by simp [hr], by simp, by simp, fun _ => rfl⟩
    · rename_i c0 rs hr
      split
      · exact ⟨[], by simp, by simp, by simp, fun _ => rfl⟩
      · rename_i r hsome
        have sp := step_spec T hnn hfast cfg st r hsome
        obtain ⟨c, hc, hcn, hcl, hcf⟩ := ih r.st
        obtain ⟨e, hpre, hel, hef⟩ := sp.raw_pre
        simp only [List.flatMap_cons, List.append_assoc]
        rw [hc, sp.rest_eq]
        by_cases hle : r.raw.length ≤ st.rest.length
        · have hp : r.raw <+: st.rest := prefix_take_of_le hpre hle
          refine ⟨c, ?_, hcn, hcl, hcf⟩
          rw [← List.append_assoc, prefix_drop_eq hp]
        · have hge : st.rest.length ≤ r.raw.length := by omega
          have hdrop : st.rest.drop r.raw.length = [] := List.drop_eq_nil_iff.mpr hge
          have hp : st.rest <+: r.raw := prefix_of_ge hpre hge
          obtain ⟨e', he'⟩ := hp
          -- the loop stops right after this step
          have hc0 : c = [] := by
            have h0 : r.st.rest = [] := by rw [sp.rest_eq, hdrop]
            have : (loop T cfg n r.st).1 = [] ∧ (loop T cfg n r.st).2.1 = r.st := by
              cases n with
              | zero => simp [loop]
              | succ m => simp [loop, h0]
            rw [this.1, this.2, h0] at hc
            simp at hc
            exact hc
          subst hc0
          have he'e : e' <+: e := by
            have : st.rest ++ e' <+: st.rest ++ e := by rw [he']; exact hpre
            exact (List.prefix_append_right_inj _).mp this
          refine ⟨e', ?_, ?_, ?_, ?_⟩
          · rw [hdrop, ← he']; simp
          · intro _
            have h0 : r.st.rest = [] := by rw [sp.rest_eq, hdrop]
            cases n with
            | zero => simp [loop, h0]
            | succ m => simp [loop, h0]
          · have := he'e.length_le; omega
          · intro hf; have := hef hf; subst this; exact List.prefix_nil.mp he'e

/-! ### positions -/

theorem countNl_append (a b : Text) : countNl (a ++ b) = countNl a + countNl b := by
  simp [countNl, List.count_append]

theorem takeWhile_append_of_all {α} (p : α → Bool) (a b : List α) (h : ∀ x ∈ a, p x = true) :
    (a ++ b).takeWhile p = a ++ b.takeWhile p := by
  induction a with
  | nil => simp
  | cons x xs ih =>
    simp only [List.cons_append, List.takeWhile_cons, h x List.mem_cons_self, if_true]
    rw [ih (fun y hy => h y (List.mem_cons_of_mem _ hy))]

theorem takeWhile_append_of_exists {α} (p : α → Bool) (a b : List α) (h : ∃ x ∈ a, p x = false) :
    (a ++ b).takeWhile p = a.takeWhile p := by
  induction a with
  | nil => obtain ⟨x, hx, _⟩ := h; cases hx
  | cons y ys ih =>
    simp only [List.cons_append, List.takeWhile_cons]
    by_cases hy : p y = true
    · simp only [hy, if_true]
      obtain ⟨x, hx, hpx⟩ := h
      rcases List.mem_cons.mp hx with rfl | hx'
      · rw [hy] at hpx; cases hpx
      · rw [ih ⟨x, hx', hpx⟩]
    · simp [hy]

theorem adv_append (lc : Nat × Nat) (a b : Text) : adv (adv lc a) b = adv lc (a ++ b) := by
  simp only [adv, countNl_append]
  by_cases hb : countNl b > 0
  · have hex : ∃ x ∈ b.reverse, (fun c => decide (c ≠ 10)) x = false := by
      have : 10 ∈ b := List.count_pos_iff.mp hb
      exact ⟨10, List.mem_reverse.mpr this, by simp⟩
    have h1 : countNl a + countNl b > 0 := by omega
    simp only [hb, h1, if_true, tailFromLastNl, List.reverse_append]
    rw [takeWhile_append_of_exists _ _ _ hex]
    simp [Nat.add_assoc]
  · have hb0 : countNl b = 0 := by omega
    have hall : ∀ x ∈ b.reverse, (fun c => decide (c ≠ 10)) x = true := by
      intro x hx
      have hx' := List.mem_reverse.mp hx
      have : ¬ (10 ∈ b) := fun hm => by
        have := List.count_pos_iff.mpr hm
        unfold countNl at hb0; omega
      simp only [ne_eq, decide_eq_true_eq]
      intro hx10; subst hx10; exact this hx'
    simp only [hb0, Nat.add_zero, Nat.lt_irrefl, gt_iff_lt, if_false]
    by_cases ha : countNl a > 0
    · simp only [ha, if_true, tailFromLastNl, List.reverse_append]
      rw [takeWhile_append_of_all _ _ _ hall]
      simp; omega
    · simp only [ha, if_false, List.length_append]
      simp [Nat.add_assoc]

theorem lineCol_eq_adv (p : Text) : lineCol p = adv (1, 1) p := by
  simp only [lineCol, adv]
  by_cases hp : countNl p > 0
  · simp [hp, tailFromLastNl]
  · have hp0 : countNl p = 0 := by omega
    have hall : ∀ x ∈ p.reverse, (fun c => decide (c ≠ 10)) x = true := by
      intro x hx
      have hx' := List.mem_reverse.mp hx
      have : ¬ (10 ∈ p) := fun hm => by
        have := List.count_pos_iff.mpr hm
        unfold countNl at hp0; omega
      simp only [ne_eq, decide_eq_true_eq]
      intro hx10; subst hx10; exact this hx'
    have : p.reverse.takeWhile (fun c => decide (c ≠ 10)) = p.reverse := by
      have := takeWhile_append_of_all (fun c => decide (c ≠ 10)) p.reverse [] hall
      simpa using this
    have h2 : (p.reverse.takeWhile (fun c => decide (c ≠ 10))).length = p.length := by rw [this]; simp
    simp [hp0]
    simp at h2
    omega

/-- every emitted token carries the position reached by the raw matches before it -/
theorem loop_position (T : Tables) (hnn : allNonNullable T = true) (hfast : fastNoNl T = true) (cfg : Cfg) :
    ∀ (n : Nat) (st : St) (i : Nat) (t : Tok) (raw : Text),
      (loop T cfg n st).1[i]? = some (some t, raw) →
      (t.line, t.col) = adv (st.line, st.col) (((loop T cfg n st).1.take i).flatMap (·.2)) := by
  intro n
  induction n with
  | zero => intro st i t raw h; simp [loop] at h
  | succ n ih =>
    intro st i t raw h
    simp only [loop] at h ⊢
    split at h
    · simp at h
    · rename_i c0 rs hr
      split at h
      · simp at h
      · rename_i r hsome
        have sp := step_spec T hnn hfast cfg st r hsome
        cases i with
        | zero =>
          simp only [List.getElem?_cons_zero, Option.some.injEq] at h
          have := sp.emit_pos t (congrArg Prod.fst h)
          simp [adv, countNl, this.1, this.2]
        | succ j =>
          simp only [List.getElem?_cons_succ] at h
          simp only [List.take_succ_cons, List.flatMap_cons]
          rcases sp.pos with hpos | hnil
          · rw [← adv_append, ← hpos]
            exact ih r.st j t raw h
          · -- the special comment branch ends the loop: no further items
            have : (loop T cfg n r.st).1 = [] := by
              cases n with
              | zero => simp [loop]
              | succ m => simp [loop, hnil]
            rw [this] at h
            simp at h

/-! ### values: a text without backslashes is not rewritten -/

theorem exec_backslash_none (r : Re) (h : startsWithBackslash r = true) (c : Nat) (s : Text)
    (hc : c ≠ 92) : exec r (c :: s) = none := by
  unfold startsWithBackslash at h
  split at h
  · rw [exec_eq_head]
    simp [ms, clsMatch, inRanges, hc]
    intro h1 h2
    omega
  · cases h

theorem reSub_id (r : Re) (h : startsWithBackslash r = true) (f : Text → Text) :
    ∀ (n : Nat) (s : Text), (∀ c ∈ s, c ≠ 92) → reSub r f n s = s := by
  intro n
  induction n with
  | zero => intro s _; simp [reSub]
  | succ n ih =>
    intro s hs
    cases s with
    | nil => simp [reSub]
    | cons c s =>
      simp only [reSub]
      rw [exec_backslash_none r h c s (hs c List.mem_cons_self)]
      simp only
      rw [ih s (fun x hx => hs x (List.mem_cons_of_mem _ hx))]


/-! ### escape-free texts: raw matches contain no backslash and values equal raw matches -/

def NoBs (t : Text) : Prop := ∀ c ∈ t, c ≠ 92

theorem NoBs_of_prefix {a b : Text} (h : a <+: b) (hb : NoBs b) : NoBs a :=
  fun c hc => hb c (h.subset hc)

theorem NoBs_append {a b : Text} (ha : NoBs a) (hb : NoBs b) : NoBs (a ++ b) := by
  intro c hc
  rcases List.mem_append.mp hc with h | h
  · exact ha c h
  · exact hb c h

theorem completeUri_nobs (T : Tables) (rest : Text) (hr : NoBs rest) :
    ∀ (es : List Text) (u : Text), (∀ e ∈ es, NoBs e) → completeUri T rest es = some u → NoBs u := by
  intro es
  induction es with
  | nil => intro u _ h; simp [completeUri] at h
  | cons e es ih =>
    intro u hes h
    simp only [completeUri] at h
    split at h
    · cases h
    · split at h
      · cases h
        exact NoBs_of_prefix (consumed_prefix _ _) (NoBs_append hr (hes e List.mem_cons_self))
      · exact ih u (fun e' he' => hes e' (List.mem_cons_of_mem _ he')) h

theorem uriEnds_nobs : ∀ e ∈ uriEnds, NoBs e := by
  intro e he
  simp [uriEnds] at he
  rcases he with rfl | rfl | rfl <;> (intro c hc; simp at hc; omega)

theorem finishName_nobs (T : Tables) (cfg : Cfg) (st : St) (name0 : String) (rem : Text)
    (hr : NoBs st.rest) : NoBs (finishName T cfg st name0 (consumed st.rest rem) rem).2 := by
  have h0 : NoBs (consumed st.rest rem) := NoBs_of_prefix (consumed_prefix _ _) hr
  simp only [finishName]
  split
  · split
    · exact NoBs_append h0 (fun c hc => h0 c (List.mem_of_mem_take hc))
    · split
      · split
        · rename_i u hu
          exact completeUri_nobs T st.rest hr uriEnds u uriEnds_nobs hu
        · exact h0
      · exact h0
  · exact h0

theorem unicodeSub_id (T : Tables) (hb : backslashOnly T = true) (t : Text) (h : NoBs t) :
    unicodeSub T t = t := by
  simp only [backslashOnly, Bool.and_eq_true] at hb
  exact reSub_id _ hb.1 _ _ _ h

theorem cleanString_id (T : Tables) (hb : backslashOnly T = true) (t : Text) (h : NoBs t) :
    cleanString T t = t := by
  simp only [backslashOnly, Bool.and_eq_true] at hb
  exact reSub_id _ hb.2 _ _ _ h

theorem finishVal_nobs (T : Tables) (hb : backslashOnly T = true) (st : St) (name : String)
    (found : Text) (h : NoBs found) :
    NoBs (finishVal T st name found).2.1 ∧ (finishVal T st name found).2.2 = (finishVal T st name found).2.1 := by
  simp only [finishVal]
  split
  · refine ⟨h, ?_⟩
    simp only [unicodeSub_id T hb found h]
    split
    · exact cleanString_id T hb found h
    · rfl
  · split
    · split
      · exact ⟨h, rfl⟩
      · split
        · exact ⟨NoBs_append h (by intro c hc; simp at hc; omega), rfl⟩
        · exact ⟨h, unicodeSub_id T hb found h⟩
    · exact ⟨h, rfl⟩

/-- escape-free part of the step specification -/
structure StepVal (st : St) (r : Res) : Prop where
  raw_nobs : NoBs r.raw
  val_eq : ∀ t, r.emit = some t → t.val = r.raw

theorem tryProds_val (T : Tables) (hb : backslashOnly T = true) (cfg : Cfg) (st : St)
    (hr : NoBs st.rest) :
    ∀ (ps : List Prod) r, tryProds T cfg st ps = some r → StepVal st r := by
  intro ps
  induction ps with
  | nil => intro r h; simp [tryProds] at h
  | cons p ps ih =>
    intro r h
    simp only [tryProds] at h
    split at h
    · rename_i r' hsp
      cases h
      split at hsp
      · split at hsp
        · split at hsp
          · cases hsp
            exact ⟨NoBs_append hr (by intro c hc; simp at hc; omega), fun t ht => by cases ht; rfl⟩
          · cases hsp
        · cases hsp
      · cases hsp
    · split at h
      · exact ih r h
      · split at h
        · exact ih r h
        · cases h
          rename_i rem _ _
          have h1 := finishName_nobs T cfg st p.name rem hr
          have h2 := finishVal_nobs T hb st (finishName T cfg st p.name (consumed st.rest rem) rem).1 _ h1
          refine ⟨h2.1, ?_⟩
          intro t ht
          simp only [finish] at ht
          split at ht
          · cases ht; exact h2.2
          · cases ht

theorem step_val (T : Tables) (hb : backslashOnly T = true) (cfg : Cfg) (st : St) (r : Res)
    (hr : NoBs st.rest) (h : step T cfg st = some r) : StepVal st r := by
  unfold step at h
  split at h
  · cases h
  · rename_i c rs hrs
    split at h
    · cases h
      refine ⟨?_, fun t ht => by cases ht; rfl⟩
      intro x hx
      simp at hx; rw [hx]
      exact hr c (by rw [hrs]; exact List.mem_cons_self)
    · exact tryProds_val T hb cfg st hr T.prods r h

/-- in an escape-free text every emitted token's value is its raw match -/
theorem loop_values (T : Tables) (hnn : allNonNullable T = true) (hfast : fastNoNl T = true)
    (hb : backslashOnly T = true) (cfg : Cfg) :
    ∀ (n : Nat) (st : St), NoBs st.rest →
      ∀ it ∈ (loop T cfg n st).1, ∀ t, it.1 = some t → t.val = it.2 := by
  intro n
  induction n with
  | zero => intro st _ it hit; simp [loop] at hit
  | succ n ih =>
    intro st hr it hit t ht
    simp only [loop] at hit
    split at hit
    · simp at hit
    · split at hit
      · simp at hit
      · rename_i r hsome
        have sv := step_val T hb cfg st r hr hsome
        have sp := step_spec T hnn hfast cfg st r hsome
        rcases List.mem_cons.mp hit with rfl | hit'
        · exact sv.val_eq t ht
        · have hr' : NoBs r.st.rest := by
            rw [sp.rest_eq]
            exact fun c hc => hr c (List.mem_of_mem_drop hc)
          exact ih r.st hr' it hit' t ht

/-! ### with comments kept, every iteration emits its token -/

theorem tryProds_emits (T : Tables) (cfg : Cfg) (hc : cfg.doComments = true) (st : St) :
    ∀ (ps : List Prod) r, tryProds T cfg st ps = some r → r.emit.isSome := by
  intro ps
  induction ps with
  | nil => intro r h; simp [tryProds] at h
  | cons p ps ih =>
    intro r h
    simp only [tryProds] at h
    split at h
    · rename_i r' hsp
      cases h
      split at hsp
      · split at hsp
        · split at hsp
          · cases hsp; rfl
          · cases hsp
        · cases hsp
      · cases hsp
    · split at h
      · exact ih r h
      · split at h
        · exact ih r h
        · cases h
          simp [finish, hc]

theorem step_emits (T : Tables) (cfg : Cfg) (hc : cfg.doComments = true) (st : St) (r : Res)
    (h : step T cfg st = some r) : r.emit.isSome := by
  unfold step at h
  split at h
  · cases h
  · split at h
    · cases h; rfl
    · exact tryProds_emits T cfg hc st T.prods r h

theorem loop_emits (T : Tables) (cfg : Cfg) (hc : cfg.doComments = true) :
    ∀ (n : Nat) (st : St), ∀ it ∈ (loop T cfg n st).1, it.1.isSome := by
  intro n
  induction n with
  | zero => intro st it hit; simp [loop] at hit
  | succ n ih =>
    intro st it hit
    simp only [loop] at hit
    split at hit
    · simp at hit
    · split at hit
      · simp at hit
      · rename_i r hsome
        rcases List.mem_cons.mp hit with rfl | hit'
        · exact step_emits T cfg hc st r hsome
        · exact ih r.st it hit'

end CssVerif
