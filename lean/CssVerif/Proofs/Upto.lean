import CssVerif.Model.Upto
namespace CssVerif.Upto

/-! ### balanced token lists -/

def isOpen : TK → Bool
  | .lbrace | .lbracket | .lparen | .func => true
  | _ => false

def isClose : TK → Bool
  | .rbrace | .rbracket | .rparen => true
  | _ => false

/-- neither a bracket nor EOF -/
def isAtom (t : TK) : Bool := !isOpen t && !isClose t && t != .eof

def pairs : TK → TK → Bool
  | .lbrace, .rbrace => true
  | .lbracket, .rbracket => true
  | .lparen, .rparen => true
  | .func, .rparen => true
  | _, _ => false

/-- `()`, `[]`, `{}` nest properly (FUNCTION counts as `(`), no EOF -/
inductive Bal : List TK → Prop
  | nil : Bal []
  | atom (t : TK) (rest : List TK) : isAtom t = true → Bal rest → Bal (t :: rest)
  | group (o c : TK) (inner rest : List TK) : pairs o c = true → Bal inner → Bal rest →
      Bal (o :: (inner ++ c :: rest))

/-- all counters ≥ 0 and one of them > 0: inside some bracket -/
def Inside (c : Cnt) : Prop := 0 ≤ c.brace ∧ 0 ≤ c.bracket ∧ 0 ≤ c.paren ∧ 0 < c.brace + c.bracket + c.paren

theorem inside_not_stops (m : Mode) (c : Cnt) (t : TK) (h : Inside c) : stops m c t = false := by
  obtain ⟨h1, h2, h3, h4⟩ := h
  have hz : c.zero = false := by
    simp only [Cnt.zero]
    by_cases a : c.brace = 0
    · by_cases b : c.bracket = 0
      · have : c.paren ≠ 0 := by omega
        simp [a, b, this]
      · simp [b]
    · simp [a]
  have hb : (c.brace == -1) = false := by
    have : c.brace ≠ -1 := by omega
    simpa using this
  simp [stops, hz, hb]

theorem bump_atom (c : Cnt) (t : TK) (h : isAtom t = true) : bump c t = c := by
  cases t <;> simp_all [isAtom, isOpen, isClose, bump]

theorem inside_bump_open (c : Cnt) (o : TK) (ho : isOpen o = true)
    (h : 0 ≤ c.brace ∧ 0 ≤ c.bracket ∧ 0 ≤ c.paren) : Inside (bump c o) := by
  obtain ⟨h1, h2, h3⟩ := h
  cases o <;> simp_all [isOpen, bump, Inside] <;> omega

theorem bump_match (c : Cnt) (o cl : TK) (h : pairs o cl = true) : bump (bump c o) cl = c := by
  cases o <;> cases cl <;> simp_all [pairs, bump] <;> (cases c; simp; omega)

theorem matches_open (o c : TK) (h : pairs o c = true) : isOpen o = true := by
  cases o <;> cases c <;> simp_all [pairs, isOpen]

theorem matches_ne_eof (o c : TK) (h : pairs o c = true) : o ≠ .eof ∧ c ≠ .eof := by
  cases o <;> cases c <;> simp_all [pairs]

theorem atom_ne_eof (t : TK) (h : isAtom t = true) : t ≠ .eof := by
  cases t <;> simp_all [isAtom]

/-- inside a bracket a balanced segment is passed over whole, and the counters are back where they were -/
theorem scan_inside (m : Mode) (seg : List TK) (hb : Bal seg) :
    ∀ (c : Cnt) (rest : List TK), Inside c →
      scan m c (seg ++ rest) = (seg ++ (scan m c rest).1, (scan m c rest).2) := by
  induction hb with
  | nil => intro c rest _; simp
  | atom t rest' ha _ ih =>
    intro c rest hc
    have hne := atom_ne_eof t ha
    simp only [List.cons_append, scan, hne, if_false, bump_atom c t ha, inside_not_stops m c t hc,
      Bool.false_eq_true]
    rw [ih c rest hc]
  | group o cl inner rest' hm _ _ ih1 ih2 =>
    intro c rest hc
    obtain ⟨ho, hcl⟩ := matches_ne_eof o cl hm
    have hin : Inside (bump c o) := inside_bump_open c o (matches_open o cl hm) ⟨hc.1, hc.2.1, hc.2.2.1⟩
    have e1 : (o :: (inner ++ cl :: rest')) ++ rest = o :: (inner ++ (cl :: (rest' ++ rest))) := by simp
    rw [e1]
    simp only [scan, ho, if_false, inside_not_stops m _ o hin, Bool.false_eq_true]
    rw [ih1 (bump c o) (cl :: (rest' ++ rest)) hin]
    simp only [scan, hcl, if_false, bump_match c o cl hm, inside_not_stops m c cl hc, Bool.false_eq_true]
    rw [ih2 c rest hc]
    simp

/-! ### the prelude of a statement: balanced, nothing at depth 0 that ends it -/

inductive Prel (m : Mode) : List TK → Prop
  | nil : Prel m []
  | atom (t : TK) (rest : List TK) : isAtom t = true → endTok m t = false → Prel m rest → Prel m (t :: rest)
  | group (o c : TK) (inner rest : List TK) : pairs o c = true → endTok m c = false → endTok m o = false →
      Bal inner → Prel m rest → Prel m (o :: (inner ++ c :: rest))

def zero : Cnt := ⟨0, 0, 0⟩

theorem zero_stops (m : Mode) (t : TK) (hmq : m.mq = false) : stops m zero t = endTok m t := by
  simp [stops, zero, Cnt.zero, hmq]

theorem scan_prel (m : Mode) (hmq : m.mq = false) (seg : List TK) (hp : Prel m seg) (rest : List TK) :
    scan m zero (seg ++ rest) = (seg ++ (scan m zero rest).1, (scan m zero rest).2) := by
  induction hp with
  | nil => simp
  | atom t rest' ha he _ ih =>
    have hne := atom_ne_eof t ha
    simp only [List.cons_append, scan, hne, if_false, bump_atom zero t ha, zero_stops m t hmq, he,
      Bool.false_eq_true]
    rw [ih]
  | group o cl inner rest' hm he heo hbal _ ih =>
    obtain ⟨ho, hcl⟩ := matches_ne_eof o cl hm
    have hin : Inside (bump zero o) := inside_bump_open zero o (matches_open o cl hm) (by simp [zero])
    have e1 : (o :: (inner ++ cl :: rest')) ++ rest = o :: (inner ++ (cl :: (rest' ++ rest))) := by simp
    rw [e1]
    simp only [scan, ho, if_false, inside_not_stops m _ o hin, Bool.false_eq_true]
    rw [scan_inside m inner hbal (bump zero o) (cl :: (rest' ++ rest)) hin]
    simp only [scan, hcl, if_false, bump_match zero o cl hm, zero_stops m cl hmq, he, Bool.false_eq_true]
    rw [ih]
    simp

/-- a statement in the default mode: a prelude, then `;` — or a `{ … }` block -/
inductive Stmt : List TK → Prop
  | semi (seg : List TK) : Prel default seg → Stmt (seg ++ [.semi])
  | block (seg inner : List TK) : Prel default seg → Bal inner → Stmt (seg ++ .lbrace :: (inner ++ [.rbrace]))

theorem scan_semi (rest : List TK) : scan default zero (.semi :: rest) = ([.semi], rest) := by
  simp [scan, stops, default, endTok, zero, bump, Cnt.zero]

theorem scan_block (inner : List TK) (hb : Bal inner) (rest : List TK) :
    scan default zero (.lbrace :: (inner ++ .rbrace :: rest)) = (.lbrace :: (inner ++ [.rbrace]), rest) := by
  have hin : Inside (bump zero .lbrace) := by simp [bump, zero, Inside]
  simp only [scan, if_false, inside_not_stops default _ .lbrace hin, Bool.false_eq_true,
    show (TK.lbrace = TK.eof) = False by simp]
  rw [scan_inside default inner hb _ _ hin]
  simp [scan, bump, zero, stops, Cnt.zero, default, endTok]

/-- **the boundary finder stops exactly at the end of a statement** -/
theorem scan_stmt (st : List TK) (hs : Stmt st) (rest : List TK) :
    scan default zero (st ++ rest) = (st, rest) := by
  cases hs with
  | semi seg hp =>
    rw [List.append_assoc, scan_prel default rfl seg hp]
    simp [scan_semi]
  | block seg inner hp hb =>
    rw [List.append_assoc, scan_prel default rfl seg hp]
    have : (TK.lbrace :: (inner ++ [TK.rbrace])) ++ rest = .lbrace :: (inner ++ .rbrace :: rest) := by simp
    rw [this, scan_block inner hb rest]

/-- with the start token passed separately (as the productions do) the result is the same, provided the
start token is not itself an end token or a closing bracket -/
theorem upto_eq_scan (m : Mode) (s : TK) (toks : List TK) (hmq : m.mq = false) (hattr : m.attrStart = false)
    (h0 : m.brace0 = 0 ∧ m.paren0 = 0)
    (he : endTok m s = false) (hc : isClose s = false) (hne : s ≠ .eof) :
    upto true m (some s) toks = scan m zero (s :: toks) := by
  have hi : initCnt m (some s) = zero := by simp [initCnt, hattr, h0.1, h0.2, zero]
  have hb : bumpStart true zero s = bump zero s := by
    cases s <;> simp_all [bumpStart, bump, isClose]
  simp only [upto, hi, hb, scan, hne, if_false]
  have hst : stops m (bump zero s) s = false := by
    by_cases ho : isOpen s = true
    · exact inside_not_stops m _ s (inside_bump_open zero s ho (by simp [zero]))
    · have ha : isAtom s = true := by simp [isAtom, ho, hc, hne]
      rw [bump_atom zero s ha, zero_stops m s hmq, he]
  simp [hst]

/-- first token of a statement: what `upto_eq_scan` needs -/
def goodStart (s : TK) : Bool := !endTok default s && !isClose s && s != .eof

theorem upto_stmt (s : TK) (tail rest : List TK) (hs : Stmt (s :: tail)) (hg : goodStart s = true) :
    upto true default (some s) (tail ++ rest) = (s :: tail, rest) := by
  simp only [goodStart, Bool.and_eq_true, Bool.not_eq_true', bne_iff_ne, ne_eq] at hg
  rw [upto_eq_scan default s _ rfl rfl ⟨rfl, rfl⟩ hg.1.1 hg.1.2 hg.2]
  exact scan_stmt (s :: tail) hs rest

end CssVerif.Upto

namespace CssVerif.Upto

/-! ### the statement loop -/

theorem scan_rest_le (m : Mode) (toks : List TK) : ∀ c, (scan m c toks).2.length ≤ toks.length := by
  induction toks with
  | nil => intro c; simp [scan]
  | cons t ts ih =>
    intro c
    simp only [scan]
    split
    · simp
    · split
      · simp
      · have := ih (bump c t); simp only [List.length_cons]; omega

theorem upto_rest_le (fx : Bool) (m : Mode) (s : TK) (toks : List TK) :
    (upto fx m (some s) toks).2.length ≤ toks.length := by
  simp only [upto]; exact scan_rest_le m toks _

/-- enough fuel is enough -/
theorem split_fuel (fx : Bool) : ∀ (f1 f2 : Nat) (toks : List TK), toks.length < f1 → toks.length < f2 →
    split fx f1 toks = split fx f2 toks := by
  intro f1
  induction f1 with
  | zero => intro f2 toks h; omega
  | succ f1 ih =>
    intro f2 toks h1 h2
    cases f2 with
    | zero => omega
    | succ f2 =>
      cases toks with
      | nil => simp [split]
      | cons t ts =>
        simp only [List.length_cons] at h1 h2
        simp only [split]
        split
        · rfl
        · split
          · rw [ih f2 ts (by omega) (by omega)]
          · have hle := upto_rest_le fx default t ts
            rw [ih f2 _ (by omega) (by omega)]

theorem splitAll_eq (fx : Bool) (toks : List TK) (f : Nat) (h : toks.length < f) :
    split fx f toks = splitAll fx toks := split_fuel fx f _ toks h (by simp)

/-- what the loop sees: single tokens (S, CDO, CDC, COMMENT) and whole statements -/
inductive Item : List TK → Prop
  | single (t : TK) : single t = true → Item [t]
  | stmt (s : TK) (tail : List TK) : goodStart s = true → single s = false → Stmt (s :: tail) → Item (s :: tail)

/-- what is handed to a production for an item -/
def out (it : List TK) : List (List TK) :=
  match it with
  | [t] => if single t then (if t = .comment then [[t]] else []) else [it]
  | _ => [it]

theorem single_ne_eof (t : TK) (h : single t = true) : t ≠ .eof := by
  cases t <;> simp_all [single]

theorem splitAll_item (it : List TK) (hi : Item it) (rest : List TK) :
    splitAll true (it ++ rest) = out it ++ splitAll true rest := by
  cases hi with
  | single t ht =>
    have hne := single_ne_eof t ht
    simp only [splitAll, List.cons_append, List.nil_append, List.length_cons, split, hne, if_false, ht, if_true, out]
  | stmt s tail hg hs hst =>
    have hne : s ≠ .eof := by
      simp only [goodStart, Bool.and_eq_true, bne_iff_ne, ne_eq] at hg; exact hg.2
    have hout : out (s :: tail) = [s :: tail] := by
      cases tail with
      | nil => simp [out, hs]
      | cons _ _ => simp [out]
    simp only [splitAll, List.cons_append, List.length_cons, split, hne, if_false, hs, Bool.false_eq_true]
    rw [upto_stmt s tail rest hst hg, hout]
    simp only [List.singleton_append, List.cons.injEq, true_and]
    rw [splitAll_eq true rest _ (by simp; omega)]
    simp [splitAll]

/-- **the statement loop is a homomorphism over items** -/
theorem splitAll_items (items : List (List TK)) (h : ∀ it ∈ items, Item it) (rest : List TK) :
    splitAll true (items.flatten ++ rest) = items.flatMap out ++ splitAll true rest := by
  induction items with
  | nil => simp
  | cons it items ih =>
    simp only [List.flatten_cons, List.append_assoc, List.flatMap_cons]
    rw [splitAll_item it (h it (List.mem_cons_self ..)), ih (fun x hx => h x (List.mem_cons_of_mem _ hx))]

/-- **a balanced junk statement is delimited exactly**: its neighbours reach their productions with
exactly the tokens they have without it -/
theorem split_skips_junk (g1 g2 : List (List TK)) (j : List TK) (h1 : ∀ it ∈ g1, Item it)
    (h2 : ∀ it ∈ g2, Item it) (hj : Item j) :
    splitAll true (g1.flatten ++ j ++ g2.flatten) = g1.flatMap out ++ out j ++ g2.flatMap out ∧
    splitAll true (g1.flatten ++ g2.flatten) = g1.flatMap out ++ g2.flatMap out := by
  constructor
  · have := splitAll_items (g1 ++ [j] ++ g2) (by
      intro it hit
      simp only [List.mem_append, List.mem_singleton] at hit
      rcases hit with (h | h) | h
      · exact h1 it h
      · exact h ▸ hj
      · exact h2 it h) []
    simpa [splitAll, split] using this
  · have := splitAll_items (g1 ++ g2) (by
      intro it hit
      rcases List.mem_append.1 hit with h | h
      · exact h1 it h
      · exact h2 it h) []
    simpa [splitAll, split] using this

/-! ### a rejected statement leaves the order state alone -/

theorem stmts_skip_junk (a b : List SItem) (k : Sheet.Kind) (st : Nat × Sheet.Sheet) :
    stmts true (a ++ .stmt k none :: b) st = stmts true (a ++ b) st := by
  simp [stmts, List.foldl_append, sitemStep, stmtStep]

theorem parseStmts_skip_junk (a b : List SItem) (k : Sheet.Kind) :
    parseStmts true (a ++ .stmt k none :: b) = parseStmts true (a ++ b) := by
  simp only [parseStmts, stmts_skip_junk]

/-- the pinned snapshot: a rejected rule-set in front of an @import made the import illegal -/
theorem snapshot_order_counterexample :
    (stmts false [.stmt .style none, .ws, .stmt .import (some { kind := .import })] (0, [])).2 = [] ∧
    (stmts true [.stmt .style none, .ws, .stmt .import (some { kind := .import })] (0, [])).2 =
      [{ kind := .import }] := by
  decide

/-- the pinned snapshot: a statement starting with a FUNCTION token swallowed everything after it -/
theorem snapshot_function_counterexample :
    upto false default (some .func) [.other, .rparen, .lbrace, .rbrace, .other, .lbrace, .rbrace] =
      ([.func, .other, .rparen, .lbrace, .rbrace, .other, .lbrace, .rbrace], []) ∧
    upto true default (some .func) [.other, .rparen, .lbrace, .rbrace, .other, .lbrace, .rbrace] =
      ([.func, .other, .rparen, .lbrace, .rbrace], [.other, .lbrace, .rbrace]) := by decide

end CssVerif.Upto

namespace CssVerif.Upto

/-! ### the declaration loop -/

theorem dsplit_fuel (fx : Bool) : ∀ (f1 f2 : Nat) (toks : List TK), toks.length < f1 → toks.length < f2 →
    dsplit fx f1 toks = dsplit fx f2 toks := by
  intro f1
  induction f1 with
  | zero => intro f2 toks h; omega
  | succ f1 ih =>
    intro f2 toks h1 h2
    cases f2 with
    | zero => omega
    | succ f2 =>
      cases toks with
      | nil => simp [dsplit]
      | cons t ts =>
        simp only [List.length_cons] at h1 h2
        have hs := upto_rest_le true semicolon t ts
        have hd := upto_rest_le true default t ts
        have hp : (upto true propertyvalueendonly none ts).2.length ≤ ts.length := by
          simp only [upto]; exact scan_rest_le _ ts _
        cases t <;> simp only [dsplit] <;>
          first
          | rfl
          | (rw [ih f2 _ (by omega) (by omega)]; done)
          | (cases fx
             · simp only [Bool.false_eq_true, if_false]; rw [ih f2 _ (by omega) (by omega)]
             · simp only [if_true]; rw [ih f2 _ (by omega) (by omega)])

theorem dsplitAll_eq (fx : Bool) (toks : List TK) (f : Nat) (h : toks.length < f) :
    dsplit fx f toks = dsplitAll fx toks := dsplit_fuel fx f _ toks h (by simp)

/-- how the first token of a declaration is dispatched -/
def dkind : TK → DKind
  | .ident => .property
  | _ => .ignored

/-- first token of a span that goes through `upto semicolon` -/
def declStart (s : TK) : Bool :=
  match s with
  | .eof | .ws | .semi | .comment | .atkw _ | .rbrace | .rbracket | .rparen => false
  | _ => true

theorem scan_semicolon_semi (rest : List TK) : scan semicolon zero (.semi :: rest) = ([.semi], rest) := by
  simp [scan, stops, semicolon, endTok, zero, bump, Cnt.zero]

/-- **a declaration — well-formed or junk — is delimited by its own `;`**: whatever its first token is and
whatever balanced tokens it contains (`!`, nested brackets with `;` inside, strings) -/
theorem dsplit_decl (s : TK) (tail rest : List TK) (hs : declStart s = true)
    (hp : Prel semicolon (s :: tail)) :
    dsplitAll true (s :: tail ++ .semi :: rest) = (dkind s, s :: tail ++ [.semi]) :: dsplitAll true rest := by
  have he : endTok semicolon s = false := by cases s <;> simp_all [declStart, endTok, semicolon]
  have hc : isClose s = false := by cases s <;> simp_all [declStart, isClose]
  have hne : s ≠ .eof := by cases s <;> simp_all [declStart]
  have hup : upto true semicolon (some s) (tail ++ .semi :: rest) = (s :: tail ++ [.semi], rest) := by
    rw [upto_eq_scan semicolon s _ rfl rfl ⟨rfl, rfl⟩ he hc hne]
    have := scan_prel semicolon rfl (s :: tail) hp (.semi :: rest)
    rw [List.cons_append] at this
    rw [this, scan_semicolon_semi]
  have hlen : rest.length < (tail ++ TK.semi :: rest).length + 1 := by simp; omega
  have hrest := dsplitAll_eq true rest _ hlen
  cases s <;> simp only [declStart, Bool.false_eq_true] at hs <;>
    simp only [dsplitAll, List.cons_append, List.length_cons, dsplit, hup, dkind, if_true] <;>
    (rw [hrest]) <;> rfl

/-- the pinned snapshot: `top:0; $ ! color: red; left:0` handed `color: red` to the property parser, and a
junk declaration starting with `(` swallowed the rest of the block -/
theorem snapshot_decl_counterexample :
    dsplitAll false [.other, .bang, .ident, .colon, .other, .semi, .ident, .colon, .other] =
      [(.ignored, [.other, .bang]), (.property, [.ident, .colon, .other, .semi]), (.property, [.ident, .colon, .other])] ∧
    dsplitAll true [.other, .bang, .ident, .colon, .other, .semi, .ident, .colon, .other] =
      [(.ignored, [.other, .bang, .ident, .colon, .other, .semi]), (.property, [.ident, .colon, .other])] ∧
    dsplitAll false [.lparen, .other, .rparen, .semi, .ident, .colon, .other] =
      [(.ignored, [.lparen, .other, .rparen, .semi, .ident, .colon, .other])] ∧
    dsplitAll true [.lparen, .other, .rparen, .semi, .ident, .colon, .other] =
      [(.ignored, [.lparen, .other, .rparen, .semi]), (.property, [.ident, .colon, .other])] := by decide

end CssVerif.Upto
