import CssVerif.Model.Value
namespace CssVerif.Value

/-! ### renderings: every way to write a value as tokens -/

def AllGap (g : List VT) : Prop := ∀ t ∈ g, isGap t = true
def HasWs (g : List VT) : Prop := AllGap g ∧ VT.ws ∈ g

/-- the components of a colour function after the first, up to `)` -/
def RComps : List (Bool × VT) → List VT → Prop
  | [], ts => ∃ g, AllGap g ∧ ts = g ++ [.rparen]
  | (comma, c) :: l, ts => ∃ g1 g2 tt, AllGap g1 ∧ AllGap g2 ∧ isComponent c = true ∧ RComps l tt ∧
      ((comma = false ∧ ts = g1 ++ c :: tt) ∨ (comma = true ∧ ts = g1 ++ .comma :: (g2 ++ c :: tt)))

/-- operator / operand pairs of calc(), up to `)` -/
def RCalc : List (VT × VT) → List VT → Prop
  | [], ts => ∃ g, AllGap g ∧ ts = g ++ [.rparen]
  | (op, x) :: l, ts => ∃ g1 g2 tt, isOperand x = true ∧ RCalc l tt ∧ ts = g1 ++ op :: (g2 ++ x :: tt) ∧
      (((op = .star ∨ op = .slash) ∧ AllGap g1 ∧ AllGap g2) ∨ ((op = .plus ∨ op = .minus) ∧ HasWs g1 ∧ HasWs g2))

mutual
  def RComp : Comp → List VT → Prop
    | .atom k, ts => isAtom k = true ∧ ts = [k]
    | .fn a, ts => ∃ tt, RArgs true a tt ∧ ts = .func :: tt
    | .colorFn al l, ts =>
      match l with
      | (false, c) :: l' => ∃ g tt, AllGap g ∧ isComponent c = true ∧ RComps l' tt ∧
          l'.length + 1 = (if al then 4 else 3) ∧ ts = .colorFunc al :: (g ++ c :: tt)
      | _ => False
    | .calc x l, ts => ∃ g tt, AllGap g ∧ isOperand x = true ∧ RCalc l tt ∧ ts = .calcFunc :: (g ++ x :: tt)
  def RArgs : Bool → Args → List VT → Prop
    | _, .nil, ts => ∃ g, AllGap g ∧ ts = g ++ [.rparen]
    | first, .cons comma c tl, ts => ∃ g1 g2 tc tt, AllGap g1 ∧ AllGap g2 ∧ RComp c tc ∧ RArgs false tl tt ∧
        ((comma = false ∧ ts = g1 ++ (tc ++ tt)) ∨ (comma = true ∧ first = false ∧ ts = g1 ++ .comma :: (g2 ++ (tc ++ tt))))
end

/-- the terms after the first, to the end -/
def RMore : Value → List VT → Prop
  | [], ts => AllGap ts
  | (sep, c) :: v, ts => ∃ g1 g2 tc tt, AllGap g1 ∧ AllGap g2 ∧ RComp c tc ∧ RMore v tt ∧
      ((sep = .none ∧ ts = g1 ++ (tc ++ tt)) ∨ (sep = .comma ∧ ts = g1 ++ .comma :: (g2 ++ (tc ++ tt))) ∨
       (sep = .slash ∧ ts = g1 ++ .slash :: (g2 ++ (tc ++ tt))))

/-- all token sequences that write the value `v` -/
def RValue : Value → List VT → Prop
  | (.none, c) :: v, ts => ∃ g tc tt, AllGap g ∧ RComp c tc ∧ RMore v tt ∧ ts = g ++ (tc ++ tt)
  | _, _ => False

/-! ### gaps -/

def NoGapHead : List VT → Prop
  | [] => True
  | t :: _ => isGap t = false

theorem skipGap_append (g r : List VT) (hg : AllGap g) (hr : NoGapHead r) : skipGap (g ++ r) = r := by
  induction g with
  | nil =>
    cases r with
    | nil => rfl
    | cons t r => simp only [NoGapHead] at hr; simp [skipGap, hr]
  | cons t g ih =>
    have ht : isGap t = true := hg t (List.mem_cons_self ..)
    simp only [List.cons_append, skipGap, ht, if_true]
    exact ih (fun x hx => hg x (List.mem_cons_of_mem _ hx))

theorem takeWs_append (g r : List VT) (hg : AllGap g) (hr : NoGapHead r) :
    takeWs (g ++ r) = (decide (VT.ws ∈ g), r) := by
  induction g with
  | nil =>
    cases r with
    | nil => simp [takeWs]
    | cons t r =>
      simp only [NoGapHead] at hr
      cases t <;> simp_all [takeWs, isGap]
  | cons t g ih =>
    have ht : isGap t = true := hg t (List.mem_cons_self ..)
    have ih' := ih (fun x hx => hg x (List.mem_cons_of_mem _ hx))
    cases t <;> simp_all [takeWs, isGap]

theorem ws_true (g r : List VT) (h : HasWs g) (hr : NoGapHead r) : takeWs (g ++ r) = (true, r) := by
  rw [takeWs_append g r h.1 hr]; simp [h.2]

theorem component_cases (c : VT) (h : isComponent c = true) : c = .num ∨ c = .pct := by
  cases c <;> simp_all [isComponent]

theorem operand_cases (c : VT) (h : isOperand c = true) : c = .num ∨ c = .pct ∨ c = .dim := by
  cases c <;> simp_all [isOperand]

theorem ngh_cons (t : VT) (r : List VT) (h : isGap t = false) : NoGapHead (t :: r) := h

/-! ### colour components -/

theorem pcomps_ok : ∀ (l : List (Bool × VT)) (ts rest : List VT) (f : Nat), RComps l ts → ts.length < f →
    pcomps f (ts ++ rest) = some (l, rest) := by
  intro l
  induction l with
  | nil =>
    intro ts rest f h hf
    obtain ⟨g, hg, rfl⟩ := h
    obtain ⟨f, rfl⟩ : ∃ k, f = k + 1 := ⟨f - 1, by omega⟩
    simp only [pcomps, List.append_assoc, List.singleton_append]
    rw [skipGap_append g _ hg (ngh_cons .rparen rest rfl)]
  | cons p l ih =>
    obtain ⟨comma, c⟩ := p
    intro ts rest f h hf
    obtain ⟨g1, g2, tt, hg1, hg2, hc, hl, hts⟩ := h
    obtain ⟨f, rfl⟩ : ∃ k, f = k + 1 := ⟨f - 1, by omega⟩
    have hcg : isGap c = false := by rcases component_cases c hc with rfl | rfl <;> rfl
    rcases hts with ⟨rfl, rfl⟩ | ⟨rfl, rfl⟩
    · have hlen : tt.length < f := by simp at hf; omega
      simp only [pcomps, List.append_assoc, List.cons_append]
      rw [skipGap_append g1 _ hg1 (ngh_cons c _ hcg)]
      rcases component_cases c hc with rfl | rfl <;> simp [isComponent, ih tt rest f hl hlen]
    · have hlen : tt.length < f := by simp at hf; omega
      simp only [pcomps, List.append_assoc, List.cons_append]
      rw [skipGap_append g1 _ hg1 (ngh_cons .comma _ rfl)]
      simp only []
      rw [skipGap_append g2 _ hg2 (ngh_cons c _ hcg)]
      simp [hc, ih tt rest f hl hlen]

/-! ### calc -/

theorem pcalc_ok : ∀ (l : List (VT × VT)) (ts rest : List VT) (f : Nat), RCalc l ts → ts.length < f →
    pcalcRest f (ts ++ rest) = some (l, rest) := by
  intro l
  induction l with
  | nil =>
    intro ts rest f h hf
    obtain ⟨g, hg, rfl⟩ := h
    obtain ⟨f, rfl⟩ : ∃ k, f = k + 1 := ⟨f - 1, by omega⟩
    simp only [pcalcRest, List.append_assoc, List.singleton_append]
    rw [takeWs_append g _ hg (ngh_cons .rparen rest rfl)]
  | cons p l ih =>
    obtain ⟨op, x⟩ := p
    intro ts rest f h hf
    obtain ⟨g1, g2, tt, hx, hl, rfl, hop⟩ := h
    obtain ⟨f, rfl⟩ : ∃ k, f = k + 1 := ⟨f - 1, by omega⟩
    have hxg : isGap x = false := by rcases operand_cases x hx with rfl | rfl | rfl <;> rfl
    have hlen : tt.length < f := by simp at hf; omega
    have ihh := ih tt rest f hl hlen
    simp only [pcalcRest, List.append_assoc, List.cons_append]
    rcases hop with ⟨hop, hg1, hg2⟩ | ⟨hop, hg1, hg2⟩
    · have hog : isGap op = false := by rcases hop with rfl | rfl <;> rfl
      rw [takeWs_append g1 _ hg1 (ngh_cons op _ hog)]
      rcases hop with rfl | rfl
      · simp only [true_or, if_true]
        rw [skipGap_append g2 _ hg2 (ngh_cons x _ hxg)]
        simp [hx, ihh]
      · simp only [or_true, if_true]
        rw [skipGap_append g2 _ hg2 (ngh_cons x _ hxg)]
        simp [hx, ihh]
    · have hog : isGap op = false := by rcases hop with rfl | rfl <;> rfl
      rw [ws_true g1 _ hg1 (ngh_cons op _ hog)]
      rcases hop with rfl | rfl
      · simp only [ws_true g2 _ hg2 (ngh_cons x _ hxg)]
        simp [hx, ihh]
      · simp only [ws_true g2 _ hg2 (ngh_cons x _ hxg)]
        simp [hx, ihh]

/-! ### terms and function arguments -/

def TermHead (t : VT) : Prop := isGap t = false ∧ t ≠ .rparen ∧ t ≠ .comma ∧ t ≠ .slash

theorem rcomp_head (c : Comp) (tc : List VT) (h : RComp c tc) : ∃ t tl, tc = t :: tl ∧ TermHead t := by
  cases c with
  | atom k =>
    simp only [RComp] at h
    obtain ⟨hk, rfl⟩ := h
    refine ⟨k, [], rfl, ?_⟩
    cases k <;> simp_all [isAtom, TermHead, isGap]
  | fn a =>
    simp only [RComp] at h
    obtain ⟨tt, _, rfl⟩ := h
    exact ⟨.func, tt, rfl, by simp [TermHead, isGap]⟩
  | colorFn al l =>
    simp only [RComp] at h
    split at h
    · obtain ⟨g, tt, _, _, _, _, rfl⟩ := h
      exact ⟨.colorFunc al, _, rfl, by simp [TermHead, isGap]⟩
    · exact absurd h id
  | «calc» x l =>
    simp only [RComp] at h
    obtain ⟨g, tt, _, _, _, rfl⟩ := h
    exact ⟨.calcFunc, _, rfl, by simp [TermHead, isGap]⟩

theorem pargs_term (f : Nat) (first : Bool) (t : VT) (r : List VT) (h : TermHead t) (c : Comp) (r' : List VT)
    (hp : pterm f (t :: r) = some (c, r')) :
    pargs (f + 1) first (t :: r) = (pargs f false r').map (fun (a, r'') => (Args.cons false c a, r'')) := by
  obtain ⟨hg, h1, h2, _⟩ := h
  cases t <;> simp_all [pargs, skipGap, isGap]

mutual
  theorem pterm_ok : ∀ (c : Comp) (ts rest : List VT) (f : Nat), RComp c ts → ts.length < f →
      pterm f (ts ++ rest) = some (c, rest)
    | .atom k, ts, rest, f, h, hf => by
      simp only [RComp] at h
      obtain ⟨hk, rfl⟩ := h
      obtain ⟨f, rfl⟩ : ∃ k, f = k + 1 := ⟨f - 1, by omega⟩
      simp [pterm, hk]
    | .fn a, ts, rest, f, h, hf => by
      simp only [RComp] at h
      obtain ⟨tt, ha, rfl⟩ := h
      obtain ⟨f, rfl⟩ : ∃ k, f = k + 1 := ⟨f - 1, by omega⟩
      have := pargs_ok a true tt rest f ha (by simp at hf; omega)
      simp [pterm, isAtom, this]
    | .colorFn al l, ts, rest, f, h, hf => by
      simp only [RComp] at h
      split at h
      · rename_i c l'
        obtain ⟨g, tt, hg, hc, hl, hn, rfl⟩ := h
        obtain ⟨f, rfl⟩ : ∃ k, f = k + 1 := ⟨f - 1, by omega⟩
        have hcg : isGap c = false := by rcases component_cases c hc with rfl | rfl <;> rfl
        have hp := pcomps_ok l' tt rest ((tt ++ rest).length + 1) hl (by simp; omega)
        simp only [pterm, isAtom, List.cons_append, List.append_assoc, Bool.false_eq_true, if_false]
        rw [skipGap_append g _ hg (ngh_cons c _ hcg)]
        simp only [hc, if_true, hp, hn]
      · exact absurd h id
    | .calc x l, ts, rest, f, h, hf => by
      simp only [RComp] at h
      obtain ⟨g, tt, hg, hx, hl, rfl⟩ := h
      obtain ⟨f, rfl⟩ : ∃ k, f = k + 1 := ⟨f - 1, by omega⟩
      have hxg : isGap x = false := by rcases operand_cases x hx with rfl | rfl | rfl <;> rfl
      have hp := pcalc_ok l tt rest ((tt ++ rest).length + 1) hl (by simp; omega)
      simp only [pterm, isAtom, List.cons_append, List.append_assoc, Bool.false_eq_true, if_false]
      rw [skipGap_append g _ hg (ngh_cons x _ hxg)]
      simp only [hx, if_true, hp]
      rfl
  theorem pargs_ok : ∀ (a : Args) (first : Bool) (ts rest : List VT) (f : Nat), RArgs first a ts → ts.length < f →
      pargs f first (ts ++ rest) = some (a, rest)
    | .nil, first, ts, rest, f, h, hf => by
      simp only [RArgs] at h
      obtain ⟨g, hg, rfl⟩ := h
      obtain ⟨f, rfl⟩ : ∃ k, f = k + 1 := ⟨f - 1, by omega⟩
      simp only [pargs, List.append_assoc, List.singleton_append]
      rw [skipGap_append g _ hg (ngh_cons .rparen rest rfl)]
    | .cons comma c tl, first, ts, rest, f, h, hf => by
      simp only [RArgs] at h
      obtain ⟨g1, g2, tc, tt, hg1, hg2, hc, htl, hts⟩ := h
      obtain ⟨f, rfl⟩ : ∃ k, f = k + 1 := ⟨f - 1, by omega⟩
      obtain ⟨t, tl', rfl, hth⟩ := rcomp_head c tc hc
      have hne : 0 < tt.length := by
        cases tl <;> simp only [RArgs] at htl
        · obtain ⟨g, _, rfl⟩ := htl; simp
        · obtain ⟨_, _, tc', _, _, _, hc', _, h'⟩ := htl
          obtain ⟨t', _, rfl, _⟩ := rcomp_head _ tc' hc'
          rcases h' with ⟨_, rfl⟩ | ⟨_, _, rfl⟩ <;> simp <;> omega
      rcases hts with ⟨rfl, rfl⟩ | ⟨rfl, rfl, rfl⟩
      · have h1 := pterm_ok c (t :: tl') (tt ++ rest) f hc (by simp at hf ⊢; omega)
        have h2 := pargs_ok tl false tt rest f htl (by simp at hf ⊢; omega)
        have e : (g1 ++ (t :: tl' ++ tt)) ++ rest = g1 ++ (t :: (tl' ++ (tt ++ rest))) := by simp
        rw [e]
        have e2 : pargs (f + 1) first (g1 ++ t :: (tl' ++ (tt ++ rest))) = pargs (f + 1) first (t :: (tl' ++ (tt ++ rest))) := by
          simp only [pargs]
          rw [skipGap_append g1 _ hg1 (ngh_cons t _ hth.1)]
          have : skipGap (t :: (tl' ++ (tt ++ rest))) = t :: (tl' ++ (tt ++ rest)) := by simp [skipGap, hth.1]
          rw [this]
        have e3 : t :: (tl' ++ (tt ++ rest)) = (t :: tl') ++ (tt ++ rest) := by simp
        rw [e2, pargs_term f first t _ hth c (tt ++ rest) (by rw [e3]; exact h1), h2]
        rfl
      · have h1 := pterm_ok c (t :: tl') (tt ++ rest) f hc (by simp at hf ⊢; omega)
        have h2 := pargs_ok tl false tt rest f htl (by simp at hf ⊢; omega)
        have e : (g1 ++ VT.comma :: (g2 ++ (t :: tl' ++ tt))) ++ rest =
            g1 ++ (VT.comma :: (g2 ++ ((t :: tl') ++ (tt ++ rest)))) := by simp
        rw [e]
        simp only [pargs]
        rw [skipGap_append g1 _ hg1 (ngh_cons .comma _ rfl)]
        simp only [Bool.false_eq_true, if_false]
        rw [skipGap_append g2 _ hg2 (by exact ngh_cons t _ hth.1), h1]
        simp [h2]
end

/-! ### the whole value -/

theorem skipGap_all (g : List VT) (hg : AllGap g) : skipGap g = [] := by
  have := skipGap_append g [] hg trivial
  simpa using this

theorem pmore_term (f : Nat) (t : VT) (r : List VT) (h : TermHead t) (c : Comp) (r' : List VT)
    (hp : pterm (r.length + 2) (t :: r) = some (c, r')) :
    pmore (f + 1) (t :: r) = (pmore f r').map (fun v => (Sep.none, c) :: v) := by
  obtain ⟨hg, h1, h2, h3⟩ := h
  cases t <;> simp_all [pmore, skipGap, isGap]

theorem pmore_ok : ∀ (v : Value) (ts : List VT) (f : Nat), RMore v ts → ts.length < f → pmore f ts = some v := by
  intro v
  induction v with
  | nil =>
    intro ts f h hf
    simp only [RMore] at h
    obtain ⟨f, rfl⟩ : ∃ k, f = k + 1 := ⟨f - 1, by omega⟩
    simp [pmore, skipGap_all ts h]
  | cons p v ih =>
    obtain ⟨sep, c⟩ := p
    intro ts f h hf
    simp only [RMore] at h
    obtain ⟨g1, g2, tc, tt, hg1, hg2, hc, hv, hts⟩ := h
    obtain ⟨f, rfl⟩ : ∃ k, f = k + 1 := ⟨f - 1, by omega⟩
    obtain ⟨t, tl', rfl, hth⟩ := rcomp_head c tc hc
    rcases hts with ⟨rfl, rfl⟩ | ⟨rfl, rfl⟩ | ⟨rfl, rfl⟩
    · have h2 := ih tt f hv (by simp at hf; omega)
      have h1 := pterm_ok c (t :: tl') tt ((tl' ++ tt).length + 2) hc (by simp; omega)
      have e2 : pmore (f + 1) (g1 ++ (t :: tl' ++ tt)) = pmore (f + 1) (t :: (tl' ++ tt)) := by
        simp only [pmore, List.cons_append]
        rw [skipGap_append g1 _ hg1 (ngh_cons t _ hth.1)]
        have : skipGap (t :: (tl' ++ tt)) = t :: (tl' ++ tt) := by simp [skipGap, hth.1]
        rw [this]
      rw [e2, pmore_term f t _ hth c tt (by simpa using h1), h2]
      rfl
    · have h2 := ih tt f hv (by simp at hf; omega)
      have h1 := pterm_ok c (t :: tl') tt ((g2 ++ (t :: tl' ++ tt)).length + 1) hc (by simp; omega)
      simp only [pmore]
      rw [skipGap_append g1 _ hg1 (ngh_cons .comma _ rfl)]
      simp only []
      rw [skipGap_append g2 _ hg2 (by exact ngh_cons t _ hth.1), h1]
      simp [h2]
    · have h2 := ih tt f hv (by simp at hf; omega)
      have h1 := pterm_ok c (t :: tl') tt ((g2 ++ (t :: tl' ++ tt)).length + 1) hc (by simp; omega)
      simp only [pmore]
      rw [skipGap_append g1 _ hg1 (ngh_cons .slash _ rfl)]
      simp only []
      rw [skipGap_append g2 _ hg2 (by exact ngh_cons t _ hth.1), h1]
      simp [h2]

/-- **the parser reads every writing of a value as that value** -/
theorem pvalue_ok (v : Value) (ts : List VT) (h : RValue v ts) : pvalue ts = some v := by
  cases v with
  | nil => exact absurd h id
  | cons p v =>
    obtain ⟨sep, c⟩ := p
    cases sep <;> simp only [RValue] at h
    obtain ⟨g, tc, tt, hg, hc, hv, rfl⟩ := h
    obtain ⟨t, tl', rfl, hth⟩ := rcomp_head c tc hc
    have h1 := pterm_ok c (t :: tl') tt ((g ++ (t :: tl' ++ tt)).length + 1) hc (by simp; omega)
    have h2 := pmore_ok v tt (tt.length + 1) hv (by omega)
    simp only [pvalue]
    rw [skipGap_append g _ hg (by exact ngh_cons t _ hth.1), h1]
    simp [h2]

/-! ### removing the comments (`parseComments=False`) keeps a writing a writing of the same value -/

def dropComments (ts : List VT) : List VT := ts.filter (fun t => t != .comment)

theorem dc_append (a b : List VT) : dropComments (a ++ b) = dropComments a ++ dropComments b := by
  simp [dropComments]

theorem dc_cons (t : VT) (l : List VT) (h : t ≠ .comment) : dropComments (t :: l) = t :: dropComments l := by
  simp [dropComments, h]

theorem dc_gap (g : List VT) (h : AllGap g) : AllGap (dropComments g) := by
  intro t ht
  simp only [dropComments, List.mem_filter] at ht
  exact h t ht.1

theorem dc_ws (g : List VT) (h : HasWs g) : HasWs (dropComments g) := by
  refine ⟨dc_gap g h.1, ?_⟩
  simp only [dropComments, List.mem_filter]
  exact ⟨h.2, by decide⟩

theorem component_ne (c : VT) (h : isComponent c = true) : c ≠ .comment := by
  rcases component_cases c h with rfl | rfl <;> decide

theorem operand_ne (c : VT) (h : isOperand c = true) : c ≠ .comment := by
  rcases operand_cases c h with rfl | rfl | rfl <;> decide

theorem dc_comps : ∀ (l : List (Bool × VT)) (ts : List VT), RComps l ts → RComps l (dropComments ts) := by
  intro l
  induction l with
  | nil =>
    intro ts h
    obtain ⟨g, hg, rfl⟩ := h
    exact ⟨dropComments g, dc_gap g hg, by rw [dc_append]; rfl⟩
  | cons p l ih =>
    obtain ⟨comma, c⟩ := p
    intro ts h
    obtain ⟨g1, g2, tt, hg1, hg2, hc, hl, hts⟩ := h
    refine ⟨dropComments g1, dropComments g2, dropComments tt, dc_gap _ hg1, dc_gap _ hg2, hc, ih tt hl, ?_⟩
    rcases hts with ⟨rfl, rfl⟩ | ⟨rfl, rfl⟩
    · left; exact ⟨rfl, by rw [dc_append, dc_cons c _ (component_ne c hc)]⟩
    · right
      exact ⟨rfl, by rw [dc_append, dc_cons .comma _ (by decide), dc_append, dc_cons c _ (component_ne c hc)]⟩

theorem dc_calc : ∀ (l : List (VT × VT)) (ts : List VT), RCalc l ts → RCalc l (dropComments ts) := by
  intro l
  induction l with
  | nil =>
    intro ts h
    obtain ⟨g, hg, rfl⟩ := h
    exact ⟨dropComments g, dc_gap g hg, by rw [dc_append]; rfl⟩
  | cons p l ih =>
    obtain ⟨op, x⟩ := p
    intro ts h
    obtain ⟨g1, g2, tt, hx, hl, rfl, hop⟩ := h
    have hopne : op ≠ .comment := by
      rcases hop with ⟨h | h, _⟩ | ⟨h | h, _⟩ <;> subst h <;> decide
    refine ⟨dropComments g1, dropComments g2, dropComments tt, hx, ih tt hl, ?_, ?_⟩
    · rw [dc_append, dc_cons op _ hopne, dc_append, dc_cons x _ (operand_ne x hx)]
    · rcases hop with ⟨h, hg1, hg2⟩ | ⟨h, hg1, hg2⟩
      · exact Or.inl ⟨h, dc_gap _ hg1, dc_gap _ hg2⟩
      · exact Or.inr ⟨h, dc_ws _ hg1, dc_ws _ hg2⟩

mutual
  theorem dc_comp : ∀ (c : Comp) (ts : List VT), RComp c ts → RComp c (dropComments ts)
    | .atom k, ts, h => by
      simp only [RComp] at h ⊢
      obtain ⟨hk, rfl⟩ := h
      refine ⟨hk, ?_⟩
      rw [dc_cons k [] (by cases k <;> simp_all [isAtom])]
      rfl
    | .fn a, ts, h => by
      simp only [RComp] at h ⊢
      obtain ⟨tt, ha, rfl⟩ := h
      exact ⟨dropComments tt, dc_args a true tt ha, dc_cons .func _ (by decide)⟩
    | .colorFn al l, ts, h => by
      simp only [RComp] at h ⊢
      split at h
      · rename_i c l'
        obtain ⟨g, tt, hg, hc, hl, hn, rfl⟩ := h
        refine ⟨dropComments g, dropComments tt, dc_gap _ hg, hc, dc_comps l' tt hl, hn, ?_⟩
        rw [dc_cons (.colorFunc al) _ (by simp), dc_append, dc_cons c _ (component_ne c hc)]
      · exact absurd h id
    | .calc x l, ts, h => by
      simp only [RComp] at h ⊢
      obtain ⟨g, tt, hg, hx, hl, rfl⟩ := h
      refine ⟨dropComments g, dropComments tt, dc_gap _ hg, hx, dc_calc l tt hl, ?_⟩
      rw [dc_cons .calcFunc _ (by decide), dc_append, dc_cons x _ (operand_ne x hx)]
  theorem dc_args : ∀ (a : Args) (first : Bool) (ts : List VT), RArgs first a ts → RArgs first a (dropComments ts)
    | .nil, first, ts, h => by
      simp only [RArgs] at h ⊢
      obtain ⟨g, hg, rfl⟩ := h
      exact ⟨dropComments g, dc_gap g hg, by rw [dc_append]; rfl⟩
    | .cons comma c tl, first, ts, h => by
      simp only [RArgs] at h ⊢
      obtain ⟨g1, g2, tc, tt, hg1, hg2, hc, htl, hts⟩ := h
      refine ⟨dropComments g1, dropComments g2, dropComments tc, dropComments tt, dc_gap _ hg1, dc_gap _ hg2,
        dc_comp c tc hc, dc_args tl false tt htl, ?_⟩
      rcases hts with ⟨rfl, rfl⟩ | ⟨rfl, rfl, rfl⟩
      · left; exact ⟨rfl, by rw [dc_append, dc_append]⟩
      · right
        exact ⟨rfl, rfl, by rw [dc_append, dc_cons .comma _ (by decide), dc_append, dc_append]⟩
end

theorem dc_more : ∀ (v : Value) (ts : List VT), RMore v ts → RMore v (dropComments ts) := by
  intro v
  induction v with
  | nil => intro ts h; simp only [RMore] at h ⊢; exact dc_gap ts h
  | cons p v ih =>
    obtain ⟨sep, c⟩ := p
    intro ts h
    simp only [RMore] at h ⊢
    obtain ⟨g1, g2, tc, tt, hg1, hg2, hc, hv, hts⟩ := h
    refine ⟨dropComments g1, dropComments g2, dropComments tc, dropComments tt, dc_gap _ hg1, dc_gap _ hg2,
      dc_comp c tc hc, ih tt hv, ?_⟩
    rcases hts with ⟨rfl, rfl⟩ | ⟨rfl, rfl⟩ | ⟨rfl, rfl⟩
    · left; exact ⟨rfl, by rw [dc_append, dc_append]⟩
    · right; left; exact ⟨rfl, by rw [dc_append, dc_cons .comma _ (by decide), dc_append, dc_append]⟩
    · right; right; exact ⟨rfl, by rw [dc_append, dc_cons .slash _ (by decide), dc_append, dc_append]⟩

theorem dc_value (v : Value) (ts : List VT) (h : RValue v ts) : RValue v (dropComments ts) := by
  cases v with
  | nil => exact absurd h id
  | cons p v =>
    obtain ⟨sep, c⟩ := p
    cases sep <;> simp only [RValue] at h ⊢
    obtain ⟨g, tc, tt, hg, hc, hv, rfl⟩ := h
    exact ⟨dropComments g, dropComments tc, dropComments tt, dc_gap _ hg, dc_comp c tc hc, dc_more v tt hv,
      by rw [dc_append, dc_append]⟩

/-! ### what the serialiser writes is a writing of the value, for every preference -/

theorem gap_nil : AllGap [] := by intro t ht; simp at ht
theorem gap_ws : AllGap [VT.ws] := by intro t ht; simp at ht; subst ht; rfl
theorem hasws_ws : HasWs [VT.ws] := ⟨gap_ws, by simp⟩
theorem gap_lsp (p : SerPrefs) : AllGap (lsp p) := by
  unfold lsp; split
  · exact gap_nil
  · exact gap_ws

theorem ser_comps (p : SerPrefs) : ∀ l, wfComps l = true → RComps l (serComps p l) := by
  intro l
  induction l with
  | nil => intro _; exact ⟨[], gap_nil, rfl⟩
  | cons q l ih =>
    obtain ⟨comma, c⟩ := q
    intro h
    simp only [wfComps, Bool.and_eq_true] at h
    cases comma
    · exact ⟨[.ws], [], _, gap_ws, gap_nil, h.1, ih h.2, Or.inl ⟨rfl, by simp [serComps]⟩⟩
    · exact ⟨[], lsp p, _, gap_nil, gap_lsp p, h.1, ih h.2, Or.inr ⟨rfl, by simp [serComps]⟩⟩

theorem ser_calc : ∀ l, wfCalc l = true → RCalc l (serCalc l) := by
  intro l
  induction l with
  | nil => intro _; exact ⟨[], gap_nil, rfl⟩
  | cons q l ih =>
    obtain ⟨op, x⟩ := q
    intro h
    simp only [wfCalc, Bool.and_eq_true] at h
    obtain ⟨⟨hop, hx⟩, hl⟩ := h
    refine ⟨[.ws], [.ws], _, hx, ih hl, by simp [serCalc], ?_⟩
    simp only [isOp, Bool.or_eq_true, beq_iff_eq] at hop
    rcases hop with ((h | h) | h) | h
    · exact Or.inl ⟨Or.inl h, gap_ws, gap_ws⟩
    · exact Or.inl ⟨Or.inr h, gap_ws, gap_ws⟩
    · exact Or.inr ⟨Or.inl h, hasws_ws, hasws_ws⟩
    · exact Or.inr ⟨Or.inr h, hasws_ws, hasws_ws⟩

mutual
  theorem ser_comp (p : SerPrefs) : ∀ c, wfComp c = true → RComp c (serComp p c)
    | .atom k, h => by
      simp only [wfComp] at h
      simp only [RComp, serComp]
      exact ⟨h, trivial⟩
    | .fn a, h => by
      simp only [wfComp] at h
      simp only [RComp, serComp]
      exact ⟨_, ser_args p a true h, rfl⟩
    | .colorFn al l, h => by
      simp only [wfComp] at h
      split at h
      · rename_i c l'
        simp only [Bool.and_eq_true, beq_iff_eq] at h
        simp only [RComp, serComp]
        exact ⟨[], _, gap_nil, h.1.1, ser_comps p l' h.1.2, h.2, rfl⟩
      · exact absurd h (by simp)
    | .calc x l, h => by
      simp only [wfComp, Bool.and_eq_true] at h
      simp only [RComp, serComp]
      exact ⟨[], _, gap_nil, h.1, ser_calc l h.2, rfl⟩
  theorem ser_args (p : SerPrefs) : ∀ a first, wfArgs first a = true → RArgs first a (serArgs p first a)
    | .nil, first, _ => by
      simp only [RArgs, serArgs]
      exact ⟨[], gap_nil, rfl⟩
    | .cons comma c tl, first, h => by
      simp only [wfArgs, Bool.and_eq_true, Bool.not_eq_true', Bool.and_eq_false_iff] at h
      obtain ⟨⟨hcf, hc⟩, htl⟩ := h
      simp only [RArgs, serArgs]
      cases comma
      · refine ⟨if first then [] else [.ws], [], _, _, ?_, gap_nil, ser_comp p c hc, ser_args p tl false htl,
          Or.inl ⟨rfl, by simp⟩⟩
        split
        · exact gap_nil
        · exact gap_ws
      · have hf : first = false := by simpa using hcf
        exact ⟨[], lsp p, _, _, gap_nil, gap_lsp p, ser_comp p c hc, ser_args p tl false htl,
          Or.inr ⟨rfl, hf, by simp⟩⟩
end

theorem ser_more (p : SerPrefs) : ∀ v, wfMore v = true → RMore v (serMore p v) := by
  intro v
  induction v with
  | nil => intro _; simp only [RMore, serMore]; exact gap_nil
  | cons q v ih =>
    obtain ⟨sep, c⟩ := q
    intro h
    simp only [wfMore, Bool.and_eq_true] at h
    simp only [RMore]
    cases sep
    · exact ⟨[.ws], [], _, _, gap_ws, gap_nil, ser_comp p c h.1, ih h.2, Or.inl ⟨rfl, by simp [serMore]⟩⟩
    · exact ⟨[], lsp p, _, _, gap_nil, gap_lsp p, ser_comp p c h.1, ih h.2, Or.inr (Or.inl ⟨rfl, by simp [serMore]⟩)⟩
    · exact ⟨[], [], _, _, gap_nil, gap_nil, ser_comp p c h.1, ih h.2, Or.inr (Or.inr ⟨rfl, by simp [serMore]⟩)⟩

theorem ser_value (p : SerPrefs) (v : Value) (h : wfValue v = true) : RValue v (serValue p v) := by
  cases v with
  | nil => simp [wfValue] at h
  | cons q v =>
    obtain ⟨sep, c⟩ := q
    cases sep <;> simp only [wfValue, Bool.and_eq_true] at h
    · simp only [RValue, serValue]
      exact ⟨[], _, _, gap_nil, ser_comp p c h.1, ser_more p v h.2, by simp⟩
    all_goals exact absurd h (by simp)

end CssVerif.Value
