import CssVerif.Model.Resolve
/-!
`resolveImports`: what the flat sheet holds, for import trees of any depth and width.

The three projections of a sheet — its @import rules, whether it has an @namespace rule, and its
"body" rules (everything `add` appends at the end) — are computed from the import tree by a
structural traversal (`sumL`); `resolve_sum` shows that this is what `resolve` returns.
-/
namespace CssVerif.Resolve

def imports (t : Sheet) : Sheet := t.filter Rule.isImport
def body (t : Sheet) : Sheet := t.filter Rule.isBody
def hasNs (t : Sheet) : Bool := t.any Rule.isNs
def hasCharset (t : Sheet) : Bool := t.any Rule.isCharset
/-- `keepimport`: some rule is not a comment or style rule -/
def hasHard (t : Sheet) : Bool := t.any (fun x => !x.canWrap)

/-! ### the traversal -/

/-- what a sheet contributes to a flat sheet -/
structure Sum where
  imps : List Rule     -- @import rules left
  ns : Bool            -- some @namespace rule
  body : List Rule
  deriving Repr

/-- the flat sheet holds something that is not a comment or style rule: an @namespace rule, an @import
rule that was left, or such a body rule -/
def Sum.hard (s : Sum) : Bool := s.ns || !s.imps.isEmpty || s.body.any (fun x => !x.canWrap)

/-- a loaded @import is kept as a rule when it is media-restricted and its flat sheet holds something
that is not a comment or style rule -/
def Sum.keptAs (s : Sum) (q : Nat) : Bool := q != 0 && s.hard

def Sum.nil : Sum := ⟨[], false, []⟩
def Sum.app (a b : Sum) : Sum := ⟨a.imps ++ b.imps, a.ns || b.ns, a.body ++ b.body⟩

mutual
def Rule.sum : Rule → Sum
  | .charset _ => .nil
  | .ns _ _ => ⟨[], true, []⟩
  | .imp id q none => ⟨[.imp id q none], false, []⟩
  | .imp id q (some sub) =>
    let s := sumL sub
    if s.keptAs q then ⟨[.imp id q (some sub)], false, [.start id]⟩
    else if q = 0 then ⟨s.imps, s.ns, .start id :: s.body⟩
    else ⟨[], false, [.start id, .media q s.body]⟩
  | .media q rs => ⟨[], false, [.media q rs]⟩
  | .comment i => ⟨[], false, [.comment i]⟩
  | .start i => ⟨[], false, [.start i]⟩
  | .style i u => ⟨[], false, [.style i u]⟩
  | .block k i => ⟨[], false, [.block k i]⟩
def sumL : List Rule → Sum
  | [] => .nil
  | r :: rs => r.sum.app (sumL rs)
end

/-! ### lists -/

theorem filter_insertAt_neg (p : Rule → Bool) (s : Sheet) (i : Nat) (r : Rule) (h : p r = false) :
    (insertAt s i r).filter p = s.filter p := by
  unfold insertAt
  rw [List.filter_append, List.filter_cons, h]
  simp only [Bool.false_eq_true, if_false]
  rw [← List.filter_append, List.take_append_drop]

theorem any_insertAt (p : Rule → Bool) (s : Sheet) (i : Nat) (r : Rule) :
    (insertAt s i r).any p = (s.any p || p r) := by
  unfold insertAt
  rw [List.any_append, List.any_cons]
  conv => rhs; rw [← List.take_append_drop i s, List.any_append]
  cases (List.take i s).any p <;> cases p r <;> simp

theorem afterLast_none (p : Rule → Bool) : ∀ s, afterLast p s = none → s.filter p = []
  | [], _ => rfl
  | r :: rs, h => by
    unfold afterLast at h
    cases h' : afterLast p rs with
    | some i => rw [h'] at h; simp at h
    | none =>
      rw [h'] at h
      cases hp : p r with
      | true => rw [hp] at h; simp at h
      | false => rw [List.filter_cons, hp]; simpa using afterLast_none p rs h'

theorem afterLast_some (p : Rule → Bool) : ∀ s i, afterLast p s = some i → (s.drop i).filter p = []
  | [], i, h => by simp [afterLast] at h
  | r :: rs, i, h => by
    unfold afterLast at h
    cases h' : afterLast p rs with
    | some j =>
      rw [h'] at h
      have : i = j + 1 := by simpa using h.symm
      subst this
      simpa using afterLast_some p rs j h'
    | none =>
      rw [h'] at h
      cases hp : p r with
      | true =>
        rw [hp] at h
        have : i = 1 := by simpa using h.symm
        subst this
        simpa using afterLast_none p rs h'
      | false => rw [hp] at h; simp at h

/-- inserting a `p`-rule behind the last `p`-rule (anywhere, if there is none) appends it to the `p`-rules -/
theorem filter_insert_afterLast (p : Rule → Bool) (s : Sheet) (r : Rule) (hr : p r = true) (dflt : Nat) :
    (insertAt s ((afterLast p s).getD dflt) r).filter p = s.filter p ++ [r] := by
  unfold insertAt
  rw [List.filter_append, List.filter_cons, hr]
  simp only [if_true]
  cases h : afterLast p s with
  | some i =>
    simp only [Option.getD_some]
    have hd := afterLast_some p s i h
    rw [hd]
    have : s.filter p = (s.take i).filter p := by
      conv => lhs; rw [← List.take_append_drop i s, List.filter_append, hd, List.append_nil]
    rw [this]
  | none =>
    simp only [Option.getD_none]
    have hn := afterLast_none p s h
    have h1 : (s.take dflt).filter p = [] := by
      rw [List.filter_eq_nil_iff] at hn ⊢
      intro a ha; exact hn a (List.mem_of_mem_take ha)
    have h2 : (s.drop dflt).filter p = [] := by
      rw [List.filter_eq_nil_iff] at hn ⊢
      intro a ha; exact hn a (List.mem_of_mem_drop ha)
    rw [h1, h2, hn]

/-! ### namespaces -/

theorem mem_nsPairs : ∀ (s : Sheet) (p u : Nat), (p, u) ∈ nsPairs s ↔ Rule.ns p u ∈ s
  | [], _, _ => by simp [nsPairs]
  | r :: rs, p, u => by
    cases r <;> simp [nsPairs, mem_nsPairs rs p u]

theorem hasNs_cons (r : Rule) (rs : Sheet) : hasNs (r :: rs) = (r.isNs || hasNs rs) := by simp [hasNs]

theorem nsPairs_nil_of_noNs : ∀ (s : Sheet), hasNs s = false → nsPairs s = []
  | [], _ => rfl
  | r :: rs, h => by
    rw [hasNs_cons, Bool.or_eq_false_iff] at h
    have ih := nsPairs_nil_of_noNs rs h.2
    cases r with
    | ns p u => simp [Rule.isNs] at h
    | _ => simp [nsPairs, ih]

theorem view_step_mono (d : List (Nat × Nat)) (pu x : Nat × Nat) (h : x ∈ d) :
    x ∈ (if d.any (·.2 = pu.2) || d.any (·.1 = pu.1) then d else d ++ [pu]) := by
  split
  · exact h
  · exact List.mem_append_left _ h

theorem view_foldl_mono (l : List (Nat × Nat)) : ∀ (d : List (Nat × Nat)) (x : Nat × Nat), x ∈ d →
    x ∈ l.foldl (fun d pu => if d.any (·.2 = pu.2) || d.any (·.1 = pu.1) then d else d ++ [pu]) d := by
  induction l with
  | nil => intro d x h; exact h
  | cons a l ih => intro d x h; exact ih _ x (view_step_mono d a x h)

/-- the last @namespace rule of a sheet is always effective -/
theorem last_mem_viewOf (init : List (Nat × Nat)) (pu : Nat × Nat) : pu ∈ viewOf (init ++ [pu]) := by
  unfold viewOf
  rw [List.reverse_append]
  simp only [List.reverse_cons, List.reverse_nil, List.nil_append, List.cons_append, List.foldl_cons,
    List.any_nil, Bool.or_self, Bool.false_eq_true, if_false]
  exact view_foldl_mono _ _ pu (by simp)

theorem viewOf_nil : viewOf [] = [] := rfl

/-- what `_cleanNamespaces` leaves: every rule but the @namespace rules that are not items of the view -/
def keepNs (items : List (Nat × Nat)) : Rule → Bool
  | .ns p u => items.contains (p, u)
  | _ => true

/-- `_cleanNamespaces` removes @namespace rules only, and only those that are not effective -/
theorem cleanGo_eq (items : List (Nat × Nat)) (used : List Nat) : ∀ (rest acc out : Sheet),
    cleanGo items used acc rest = some out →
    out = acc ++ rest.filter (keepNs items)
  | [], acc, out, h => by simp [cleanGo] at h; simp [h]
  | r :: rest, acc, out, h => by
    cases r with
    | ns p u =>
      unfold cleanGo at h
      by_cases hc : items.contains (p, u) = true
      · rw [if_pos hc] at h
        have := cleanGo_eq items used rest _ out h
        have hm : (p, u) ∈ items := by simpa using hc
        rw [this, List.filter_cons]; simp [keepNs, hm]
      · rw [if_neg hc] at h
        split at h
        · simp at h
        · have := cleanGo_eq items used rest _ out h
          have hm : ¬ (p, u) ∈ items := by simpa using hc
          rw [this, List.filter_cons]; simp [keepNs, hm]
    | charset e => unfold cleanGo at h; have := cleanGo_eq items used rest _ out h; rw [this]; simp [keepNs, List.filter_cons]
    | imp i q t => unfold cleanGo at h; have := cleanGo_eq items used rest _ out h; rw [this]; simp [keepNs, List.filter_cons]
    | media q rs => unfold cleanGo at h; have := cleanGo_eq items used rest _ out h; rw [this]; simp [keepNs, List.filter_cons]
    | comment i => unfold cleanGo at h; have := cleanGo_eq items used rest _ out h; rw [this]; simp [keepNs, List.filter_cons]
    | start i => unfold cleanGo at h; have := cleanGo_eq items used rest _ out h; rw [this]; simp [keepNs, List.filter_cons]
    | style i us => unfold cleanGo at h; have := cleanGo_eq items used rest _ out h; rw [this]; simp [keepNs, List.filter_cons]
    | block k i => unfold cleanGo at h; have := cleanGo_eq items used rest _ out h; rw [this]; simp [keepNs, List.filter_cons]


theorem mem_insertAt (s : Sheet) (i : Nat) (r : Rule) : r ∈ insertAt s i r := by
  unfold insertAt; simp

/-- after `_cleanNamespaces` of a sheet with an @namespace rule there still is one -/
theorem cleanNamespaces_hasNs (s out : Sheet) (h : cleanNamespaces s = some out) (hs : hasNs s = true) :
    hasNs out = true := by
  unfold cleanNamespaces at h
  have he := cleanGo_eq _ _ _ _ _ h
  simp only [List.nil_append] at he
  have hne : nsPairs s ≠ [] := by
    intro hnil
    simp only [hasNs, List.any_eq_true] at hs
    obtain ⟨x, hx, hxn⟩ := hs
    cases x <;> simp [Rule.isNs] at hxn
    rename_i p u
    have := (mem_nsPairs s p u).2 hx
    rw [hnil] at this; simp at this
  have hlast := List.dropLast_concat_getLast hne
  obtain ⟨init, pu, hip⟩ : ∃ init pu, nsPairs s = init ++ [pu] := ⟨_, _, hlast.symm⟩
  have hv : pu ∈ view s := by unfold view; rw [hip]; exact last_mem_viewOf _ _
  have hm : pu ∈ nsPairs s := by rw [hip]; simp
  obtain ⟨p, u⟩ := pu
  have hr := (mem_nsPairs s p u).1 hm
  simp only [hasNs, List.any_eq_true]
  refine ⟨.ns p u, ?_, rfl⟩
  rw [he, List.mem_filter]
  exact ⟨hr, by simpa [keepNs] using hv⟩

theorem filter_clean (p : Rule → Bool) (hp : ∀ a b, p (.ns a b) = false) (items : List (Nat × Nat)) (s : Sheet) :
    (s.filter (keepNs items)).filter p = s.filter p := by
  rw [List.filter_filter]
  apply List.filter_congr
  intro x _
  cases x <;> simp [hp, keepNs]

theorem any_clean (p : Rule → Bool) (hp : ∀ a b, p (.ns a b) = false) (items : List (Nat × Nat)) (s : Sheet) :
    (s.filter (keepNs items)).any p = s.any p := by
  induction s with
  | nil => rfl
  | cons x xs ih =>
    cases x with
    | ns a b =>
      by_cases hc : items.contains (a, b) = true
      · rw [List.filter_cons]; simp only [keepNs, hc, if_true, List.any_cons, hp, ih]
      · rw [List.filter_cons]; simp only [keepNs, hc, Bool.false_eq_true, if_false, List.any_cons, hp, ih, Bool.false_or]
    | _ => rw [List.filter_cons]; simp only [keepNs, if_true, List.any_cons, ih]

theorem dictGet_some_ne_nil (d : List (Nat × Nat)) (k v : Nat) (h : dictGet d k = some v) : d ≠ [] := by
  intro hd; subst hd; simp [dictGet] at h

/-- what `add` does to the projections of the sheet -/
theorem add_spec (t : Sheet) (r : Rule) (t' : Sheet) (h : add t r = some t') :
    imports t' = imports t ++ (if r.isImport then [r] else []) ∧
    body t' = body t ++ (if r.isBody then [r] else []) ∧
    hasNs t' = (hasNs t || r.isNs) ∧
    (r.isCharset = false → hasCharset t' = hasCharset t) := by
  cases r with
  | charset e =>
    cases t with
    | nil => simp [add] at h; subst h; simp [imports, body, hasNs, Rule.isImport, Rule.isBody, Rule.isNs, Rule.isCharset]
    | cons hd tl =>
      cases hd <;> simp [add] at h <;> subst h <;>
        simp [imports, body, hasNs, Rule.isImport, Rule.isBody, Rule.isNs, Rule.isCharset]
  | imp i q tg =>
    simp only [add, importIdx] at h
    injection h with h; subst h
    refine ⟨?_, ?_, ?_, ?_⟩
    · simpa [imports, Rule.isImport] using filter_insert_afterLast Rule.isImport t (.imp i q tg) rfl _
    · simpa [body, Rule.isBody, Rule.isImport, Rule.isCharset, Rule.isNs] using
        filter_insertAt_neg Rule.isBody t _ (.imp i q tg) rfl
    · simp [hasNs, any_insertAt, Rule.isNs]
    · intro _; simp [hasCharset, any_insertAt, Rule.isCharset]
  | ns p u =>
    simp only [add] at h
    split at h
    · -- already effective: the sheet is unchanged, and it has an @namespace rule
      injection h with h; subst h
      rename_i hd
      have hv := dictGet_some_ne_nil _ _ _ hd
      have hns : hasNs t = true := by
        cases hn : hasNs t with
        | true => rfl
        | false => exfalso; apply hv; unfold view; rw [nsPairs_nil_of_noNs t hn]; rfl
      simp [hns, Rule.isImport, Rule.isBody, Rule.isNs, Rule.isCharset]
    · generalize nsIdx t = idx at h
      have hh := cleanNamespaces_hasNs _ _ h (by simp [hasNs, any_insertAt, Rule.isNs])
      unfold cleanNamespaces at h
      have he := cleanGo_eq _ _ _ _ _ h
      simp only [List.nil_append] at he
      refine ⟨?_, ?_, ?_, ?_⟩
      · rw [he]; unfold imports
        rw [filter_clean _ (by intros; rfl), filter_insertAt_neg _ _ _ _ rfl]; simp [Rule.isImport]
      · rw [he]; unfold body
        rw [filter_clean _ (by intros; rfl), filter_insertAt_neg _ _ _ _ rfl]; simp [Rule.isBody, Rule.isNs]
      · rw [hh]; simp [Rule.isNs]
      · intro _; rw [he]; unfold hasCharset
        rw [any_clean _ (by intros; rfl), any_insertAt]; simp [Rule.isCharset]
  | media q rs =>
    simp [add] at h; subst h
    simp [imports, body, hasNs, hasCharset, Rule.isImport, Rule.isBody, Rule.isNs, Rule.isCharset]
  | comment i =>
    simp [add] at h; subst h
    simp [imports, body, hasNs, hasCharset, Rule.isImport, Rule.isBody, Rule.isNs, Rule.isCharset]
  | start i =>
    simp [add] at h; subst h
    simp [imports, body, hasNs, hasCharset, Rule.isImport, Rule.isBody, Rule.isNs, Rule.isCharset]
  | style i us =>
    simp [add] at h; subst h
    simp [imports, body, hasNs, hasCharset, Rule.isImport, Rule.isBody, Rule.isNs, Rule.isCharset]
  | block k i =>
    simp [add] at h; subst h
    simp [imports, body, hasNs, hasCharset, Rule.isImport, Rule.isBody, Rule.isNs, Rule.isCharset]


/-! ### the loops over an imported sheet -/

theorem imports_cons (r : Rule) (rs : Sheet) : imports (r :: rs) = (if r.isImport then [r] else []) ++ imports rs := by
  unfold imports; rw [List.filter_cons]; split <;> simp
theorem body_cons (r : Rule) (rs : Sheet) : body (r :: rs) = (if r.isBody then [r] else []) ++ body rs := by
  unfold body; rw [List.filter_cons]; split <;> simp
theorem hasCharset_cons (r : Rule) (rs : Sheet) : hasCharset (r :: rs) = (r.isCharset || hasCharset rs) := by
  simp [hasCharset]

theorem addAll_spec : ∀ (rs t t' : Sheet), addAll t rs = some t' →
    imports t' = imports t ++ imports rs ∧ body t' = body t ++ body rs ∧ hasNs t' = (hasNs t || hasNs rs) ∧
    (hasCharset rs = false → hasCharset t' = hasCharset t)
  | [], t, t', h => by simp [addAll] at h; subst h; simp [imports, body, hasNs]
  | r :: rs, t, t', h => by
    unfold addAll at h
    cases ha : add t r with
    | none => rw [ha] at h; simp at h
    | some t1 =>
      rw [ha] at h
      obtain ⟨a1, a2, a3, a4⟩ := add_spec t r t1 ha
      obtain ⟨b1, b2, b3, b4⟩ := addAll_spec rs t1 t' h
      refine ⟨?_, ?_, ?_, ?_⟩
      · rw [b1, a1, imports_cons, List.append_assoc]
      · rw [b2, a2, body_cons, List.append_assoc]
      · rw [b3, a3, hasNs_cons, Bool.or_assoc]
      · intro hc
        rw [hasCharset_cons, Bool.or_eq_false_iff] at hc
        rw [b4 hc.2, a4 hc.1]

theorem wrapAll_some : ∀ (rs k k' : Sheet), wrapAll k rs = some k' → k' = k ++ rs ∧ rs.any Rule.mediaForbids = false
  | [], k, k', h => by simp [wrapAll] at h; subst h; simp
  | r :: rs, k, k', h => by
    unfold wrapAll mediaAdd at h
    cases hf : r.mediaForbids with
    | true => rw [hf] at h; simp at h
    | false =>
      rw [hf] at h
      simp only [Bool.false_eq_true, if_false] at h
      obtain ⟨e, a⟩ := wrapAll_some rs _ k' h
      exact ⟨by rw [e]; simp, by simp [hf, a]⟩

theorem wrapAll_none : ∀ (rs k : Sheet), wrapAll k rs = none → rs.any Rule.mediaForbids = true
  | [], k, h => by simp [wrapAll] at h
  | r :: rs, k, h => by
    unfold wrapAll mediaAdd at h
    cases hf : r.mediaForbids with
    | true => simp [hf]
    | false =>
      rw [hf] at h
      simp only [Bool.false_eq_true, if_false] at h
      simp [hf, wrapAll_none rs _ h]

theorem hasHard_eq : ∀ (t : Sheet),
    hasHard t = (hasNs t || !(imports t).isEmpty || (body t).any (fun x => !x.canWrap) || hasCharset t)
  | [] => rfl
  | r :: rs => by
    have ih := hasHard_eq rs
    unfold hasHard at ih ⊢
    rw [List.any_cons, ih, hasNs_cons, hasCharset_cons, body_cons, imports_cons]
    cases r <;> simp [Rule.canWrap, Rule.isNs, Rule.isBody, Rule.isCharset, Rule.isImport] <;>
      cases hasNs rs <;> cases hasCharset rs <;> cases (imports rs).isEmpty <;> simp

/-- a sheet of comments and style rules: @media refuses none of them, and there is no @import -/
theorem forbids_of_canWrap : ∀ (t : Sheet), hasHard t = false →
    t.any Rule.mediaForbids = false ∧ imports t = [] ∧ body t = t
  | [], _ => by simp [imports, body]
  | r :: rs, h => by
    unfold hasHard at h
    rw [List.any_cons, Bool.or_eq_false_iff] at h
    obtain ⟨ih1, ih2, ih3⟩ := forbids_of_canWrap rs (by unfold hasHard; exact h.2)
    have h1 := h.1
    rw [List.any_cons, ih1, imports_cons, body_cons, ih2, ih3]
    cases r <;> simp [Rule.canWrap] at h1 <;>
      simp [Rule.mediaForbids, Rule.isImport, Rule.isBody, Rule.isCharset, Rule.isNs]


/-! ### one rule, one sheet, the whole tree -/

/-- the outcome `res` of processing something whose traversal is `S`, starting from the target `t0`;
HierarchyRequestErr is not among the outcomes -/
def Good (res : Res) (t0 : Sheet) (S : Sum) : Prop :=
  match res with
  | .ok t => imports t = imports t0 ++ S.imps ∧ body t = body t0 ++ S.body ∧
      hasNs t = (hasNs t0 || S.ns) ∧ hasCharset t = false
  | .raised .hierarchy => False
  | .raised .noModification => True
  | .raised .fuel => False

theorem good_liftAdd (t0 t1 : Sheet) (r : Rule) (S : Sum) (hc : hasCharset t1 = false) (hr : r.isCharset = false)
    (hi : imports t1 ++ (if r.isImport then [r] else []) = imports t0 ++ S.imps)
    (hb : body t1 ++ (if r.isBody then [r] else []) = body t0 ++ S.body)
    (hn : (hasNs t1 || r.isNs) = (hasNs t0 || S.ns)) :
    Good (liftAdd (add t1 r)) t0 S := by
  cases ha : add t1 r with
  | none => simp [liftAdd, Good]
  | some t2 =>
    obtain ⟨a1, a2, a3, a4⟩ := add_spec t1 r t2 ha
    simp only [liftAdd, Good]
    exact ⟨by rw [a1, hi], by rw [a2, hb], by rw [a3, hn], by rw [a4 hr, hc]⟩

theorem add_start (t : Sheet) (i : Nat) : add t (.start i) = some (t ++ [.start i]) := rfl

theorem step_good (rec : Sheet → Res) (t0 : Sheet) (r : Rule) (hc : hasCharset t0 = false)
    (hrec : ∀ i q sub, r = .imp i q (some sub) → Good (rec sub) [] (sumL sub)) :
    Good (step rec t0 r) t0 r.sum := by
  cases r with
  | charset e => simp [step, Good, Rule.sum, Sum.nil, hc]
  | ns p u =>
    simp only [step, Rule.sum]
    exact good_liftAdd t0 t0 _ _ hc rfl (by simp [Rule.isImport]) (by simp [Rule.isBody, Rule.isNs]) (by simp [Rule.isNs])
  | media q rs =>
    simp only [step, Rule.sum]
    exact good_liftAdd t0 t0 _ _ hc rfl (by simp [Rule.isImport]) (by simp [Rule.isBody, Rule.isNs, Rule.isCharset, Rule.isImport]) (by simp [Rule.isNs])
  | comment i =>
    simp only [step, Rule.sum]
    exact good_liftAdd t0 t0 _ _ hc rfl (by simp [Rule.isImport]) (by simp [Rule.isBody, Rule.isNs, Rule.isCharset, Rule.isImport]) (by simp [Rule.isNs])
  | start i =>
    simp only [step, Rule.sum]
    exact good_liftAdd t0 t0 _ _ hc rfl (by simp [Rule.isImport]) (by simp [Rule.isBody, Rule.isNs, Rule.isCharset, Rule.isImport]) (by simp [Rule.isNs])
  | style i us =>
    simp only [step, Rule.sum]
    exact good_liftAdd t0 t0 _ _ hc rfl (by simp [Rule.isImport]) (by simp [Rule.isBody, Rule.isNs, Rule.isCharset, Rule.isImport]) (by simp [Rule.isNs])
  | block k i =>
    simp only [step, Rule.sum]
    exact good_liftAdd t0 t0 _ _ hc rfl (by simp [Rule.isImport]) (by simp [Rule.isBody, Rule.isNs, Rule.isCharset, Rule.isImport]) (by simp [Rule.isNs])
  | imp i q tg =>
    cases tg with
    | none =>
      simp only [step, Rule.sum]
      exact good_liftAdd t0 t0 _ _ hc rfl (by simp [Rule.isImport]) (by simp [Rule.isBody, Rule.isImport]) (by simp [Rule.isNs])
    | some sub =>
      have hsub := hrec i q sub rfl
      -- the START comment
      have hc1 : hasCharset (t0 ++ [Rule.start i]) = false := by simp [hasCharset, Rule.isCharset] at hc ⊢; exact hc
      have hi1 : imports (t0 ++ [Rule.start i]) = imports t0 := by simp [imports, Rule.isImport]
      have hb1 : body (t0 ++ [Rule.start i]) = body t0 ++ [.start i] := by
        simp [body, Rule.isBody, Rule.isImport, Rule.isNs, Rule.isCharset]
      have hn1 : hasNs (t0 ++ [Rule.start i]) = hasNs t0 := by simp [hasNs, Rule.isNs]
      -- keeping the rule
      have keep : (sumL sub).keptAs q = true →
          Good (liftAdd (add (t0 ++ [Rule.start i]) (.imp i q (some sub)))) t0 (Rule.imp i q (some sub)).sum := by
        intro hk
        simp only [Rule.sum, hk, if_true]
        exact good_liftAdd t0 _ _ _ hc1 rfl (by simp [hi1, Rule.isImport])
          (by simp [hb1, Rule.isBody, Rule.isImport]) (by simp [hn1, Rule.isNs])
      simp only [step, add_start]
      cases hres : rec sub with
      | raised e =>
        rw [hres] at hsub
        cases e with
        | hierarchy => simp [Good] at hsub        -- the nested call never raises it: the `except` branch is dead
        | noModification => simp [Good]
        | fuel => simp [Good] at hsub
      | ok imported =>
        rw [hres] at hsub
        simp only [Good, imports, body, hasNs, List.filter_nil, List.any_nil, List.nil_append, Bool.false_or] at hsub
        obtain ⟨s2, s3, s4, s5⟩ := hsub
        have s2' : imports imported = (sumL sub).imps := s2
        have s3' : body imported = (sumL sub).body := s3
        have s4' : hasNs imported = (sumL sub).ns := s4
        simp only []
        by_cases hq : q = 0
        · -- media `all`: every rule of the imported flat sheet goes to the target
          subst hq
          have hk : (sumL sub).keptAs 0 = false := by simp [Sum.keptAs]
          simp only [Rule.sum, hk, if_true, Bool.false_eq_true, if_false]
          cases hall : addAll (t0 ++ [Rule.start i]) imported with
          | none => simp [liftAdd, Good]
          | some t2 =>
            obtain ⟨b1, b2, b3, b4⟩ := addAll_spec imported _ t2 hall
            simp only [liftAdd, Good]
            refine ⟨?_, ?_, ?_, ?_⟩
            · rw [b1, hi1, s2']
            · rw [b2, hb1, s3']; simp
            · rw [b3, hn1, s4']
            · rw [b4 s5, hc1]
        · have hhard : hasHard imported = (sumL sub).hard := by
            rw [hasHard_eq, s5, s4', s3', s2']; simp [Sum.hard]
          simp only [hq, if_false]
          have hhard' : (imported.any fun x => !x.canWrap) = (sumL sub).hard := hhard
          rw [hhard']
          cases hh : (sumL sub).hard with
          | true =>
            simp only [if_true]
            exact keep (by simp [Sum.keptAs, hh, hq])
          | false =>
            simp only [Bool.false_eq_true, if_false]
            have hk : (sumL sub).keptAs q = false := by simp [Sum.keptAs, hh]
            obtain ⟨f1, f2, f3⟩ := forbids_of_canWrap imported (by rw [hhard, hh])
            simp only [Rule.sum, hk, hq, if_false, Bool.false_eq_true]
            cases hw : wrapAll [] imported with
            | none =>
              -- `CSSMediaRule.add` refuses none of the rules that passed the check
              have := wrapAll_none imported [] hw
              rw [f1] at this
              simp at this
            | some kids =>
              obtain ⟨w1, _⟩ := wrapAll_some imported [] kids hw
              have hkids : kids = (sumL sub).body := by rw [w1, List.nil_append, ← f3, s3']
              simp only []
              refine good_liftAdd t0 _ _ _ hc1 rfl ?_ ?_ ?_
              · simp [hi1, Rule.isImport]
              · simp [hb1, hkids, Rule.isBody, Rule.isImport, Rule.isNs, Rule.isCharset]
              · simp [hn1, Rule.isNs]


theorem sumL_cons (r : Rule) (rs : Sheet) : sumL (r :: rs) = r.sum.app (sumL rs) := by simp [sumL]
theorem sumL_nil : sumL [] = Sum.nil := by simp [sumL]

theorem run_good (rec : Sheet → Res) : ∀ (s t0 : Sheet), hasCharset t0 = false →
    (∀ r ∈ s, ∀ i q sub, r = .imp i q (some sub) → Good (rec sub) [] (sumL sub)) →
    Good (run rec s t0) t0 (sumL s)
  | [], t0, hc, _ => by simp [run, Good, sumL_nil, Sum.nil, hc]
  | r :: rs, t0, hc, hrec => by
    have hs := step_good rec t0 r hc (fun i q sub h => hrec r (by simp) i q sub h)
    rw [sumL_cons]
    unfold run
    cases hst : step rec t0 r with
    | ok t1 =>
      rw [hst] at hs
      simp only [Good] at hs
      obtain ⟨f2, f3, f4, f5⟩ := hs
      have ih := run_good rec rs t1 f5 (fun r' hr' => hrec r' (by simp [hr']))
      simp only []
      cases hrun : run rec rs t1 with
      | ok t =>
        rw [hrun] at ih
        simp only [Good] at ih ⊢
        obtain ⟨g2, g3, g4, g5⟩ := ih
        refine ⟨?_, ?_, ?_, g5⟩
        · rw [g2, f2]; simp [Sum.app]
        · rw [g3, f3]; simp [Sum.app]
        · rw [g4, f4]; simp [Sum.app, Bool.or_assoc]
      | raised e =>
        rw [hrun] at ih
        cases e with
        | hierarchy => simp [Good] at ih
        | noModification => simp [Good]
        | fuel => simp [Good] at ih
    | raised e =>
      rw [hst] at hs
      simp only []
      cases e with
      | hierarchy => simp [Good] at hs
      | noModification => simp [Good]
      | fuel => simp [Good] at hs

theorem heightL_pos : ∀ (s : Sheet), 1 ≤ heightL s
  | [] => by simp [heightL]
  | r :: rs => by have := heightL_pos rs; simp only [heightL]; omega

theorem height_le_of_mem : ∀ (s : Sheet) (r : Rule), r ∈ s → r.height ≤ heightL s
  | [], r, h => by simp at h
  | x :: xs, r, h => by
    simp only [heightL]
    rcases List.mem_cons.1 h with h | h
    · subst h; omega
    · have := height_le_of_mem xs r h; omega

theorem height_loaded (i q : Nat) (sub : Sheet) : (Rule.imp i q (some sub)).height = heightL sub + 1 := by
  simp [Rule.height]

/-- **the flat sheet is the traversal of the import tree** (any depth, any width) -/
theorem resolve_good : ∀ (fuel : Nat) (s : Sheet), heightL s ≤ fuel → Good (resolve fuel s) [] (sumL s)
  | 0, s, h => by have := heightL_pos s; omega
  | fuel + 1, s, h => by
    simp only [resolve]
    apply run_good _ s [] rfl
    intro r hr i q sub he
    apply resolve_good fuel sub
    have h1 := height_le_of_mem s r hr
    rw [he, height_loaded] at h1
    omega

/-! ### fuel -/

theorem run_congr (rec1 rec2 : Sheet → Res) : ∀ (s t : Sheet),
    (∀ r ∈ s, ∀ i q sub, r = .imp i q (some sub) → rec1 sub = rec2 sub) → run rec1 s t = run rec2 s t
  | [], t, _ => rfl
  | r :: rs, t, h => by
    have hstep : step rec1 t r = step rec2 t r := by
      cases r with
      | imp i q tg =>
        cases tg with
        | none => rfl
        | some sub => simp only [step]; rw [h _ (by simp) i q sub rfl]
      | _ => rfl
    unfold run
    rw [hstep]
    cases step rec2 t r with
    | ok t' => exact run_congr rec1 rec2 rs t' (fun r' hr' => h r' (by simp [hr']))
    | raised e => rfl

theorem resolve_succ : ∀ (fuel : Nat) (s : Sheet), heightL s ≤ fuel → resolve (fuel + 1) s = resolve fuel s
  | 0, s, h => by have := heightL_pos s; omega
  | fuel + 1, s, h => by
    simp only [resolve]
    apply run_congr
    intro r hr i q sub he
    apply resolve_succ fuel sub
    have h1 := height_le_of_mem s r hr
    rw [he, height_loaded] at h1
    omega

/-- the fuel `heightL s` is enough: more fuel changes nothing -/
theorem resolve_fuel (s : Sheet) : ∀ (fuel : Nat), heightL s ≤ fuel → resolve fuel s = resolveImports s := by
  intro fuel h
  unfold resolveImports
  induction fuel with
  | zero => have := heightL_pos s; omega
  | succ n ih =>
    by_cases hn : heightL s ≤ n
    · rw [resolve_succ n s hn]; exact ih hn
    · have : heightL s = n + 1 := by omega
      rw [this]


/-! ### reading the traversal -/

/-- the body rules of the flat sheet, in order -/
def flatBody (s : Sheet) : List Rule := (sumL s).body
/-- the @import rules of the flat sheet, in order -/
def flatImports (s : Sheet) : List Rule := (sumL s).imps
/-- this loaded @import stays an @import rule of the flat sheet -/
def kept (q : Nat) (sub : Sheet) : Bool := (sumL sub).keptAs q
/-- the flat sheet of `s` holds a rule that is not a comment or style rule (an @namespace rule, an
@import rule that was left, or such a body rule) -/
def flatHard (s : Sheet) : Bool := (sumL s).hard

def Rule.isUnloaded : Rule → Bool | .imp _ _ none => true | _ => false
def Rule.isLoaded : Rule → Bool | .imp _ _ (some _) => true | _ => false

theorem kept_iff (q : Nat) (sub : Sheet) : kept q sub = (q != 0 && flatHard sub) := rfl

theorem flatHard_eq (s : Sheet) :
    flatHard s = ((sumL s).ns || !(flatImports s).isEmpty || (flatBody s).any (fun x => !x.canWrap)) := rfl

theorem kept_zero (sub : Sheet) : kept 0 sub = false := rfl

theorem sumL_append : ∀ (a b : Sheet), sumL (a ++ b) = (sumL a).app (sumL b)
  | [], b => by simp [sumL_nil, Sum.nil, Sum.app]
  | r :: rs, b => by
    rw [List.cons_append, sumL_cons, sumL_cons, sumL_append rs b]
    simp [Sum.app, Bool.or_assoc]

theorem flatBody_nil : flatBody [] = [] := by simp [flatBody, sumL_nil, Sum.nil]
theorem flatBody_append (a b : Sheet) : flatBody (a ++ b) = flatBody a ++ flatBody b := by
  simp [flatBody, sumL_append, Sum.app]
theorem flatImports_append (a b : Sheet) : flatImports (a ++ b) = flatImports a ++ flatImports b := by
  simp [flatImports, sumL_append, Sum.app]

/-- document order: a body rule stays where it is, @charset / @namespace / unloaded @import contribute
nothing to the body, a loaded @import is replaced by its START comment followed by — nothing if it is
kept as a rule, else the body of its own flat sheet, inside one @media block if it is media-restricted -/
theorem flatBody_cons (r : Rule) (rs : Sheet) : flatBody (r :: rs) =
    (match r with
     | .charset _ => [] | .ns _ _ => [] | .imp _ _ none => []
     | .imp i q (some sub) => .start i ::
        (if kept q sub then [] else if q = 0 then flatBody sub else [.media q (flatBody sub)])
     | r => [r]) ++ flatBody rs := by
  cases r with
  | imp i q tg =>
    cases tg with
    | none => simp [flatBody, sumL_cons, Sum.app, Rule.sum]
    | some sub =>
      by_cases hq : q = 0
      · subst hq
        by_cases hk : (sumL sub).keptAs 0 = true <;> simp [flatBody, sumL_cons, Sum.app, Rule.sum, kept, hk]
      · by_cases hk : (sumL sub).keptAs q = true <;> simp [flatBody, sumL_cons, Sum.app, Rule.sum, kept, hk, hq]
  | _ => simp [flatBody, sumL_cons, Sum.app, Rule.sum, Sum.nil]

/-- an unloaded @import stays; a loaded one stays if kept, hands up the @imports of its flat sheet if
its media is `all`, and has none to hand up otherwise (with an @import in its flat sheet it is kept) -/
theorem flatImports_cons (r : Rule) (rs : Sheet) : flatImports (r :: rs) =
    (match r with
     | .imp i q none => [.imp i q none]
     | .imp i q (some sub) =>
        if kept q sub then [.imp i q (some sub)] else if q = 0 then flatImports sub else []
     | _ => []) ++ flatImports rs := by
  cases r with
  | imp i q tg =>
    cases tg with
    | none => simp [flatImports, sumL_cons, Sum.app, Rule.sum]
    | some sub =>
      by_cases hq : q = 0
      · subst hq
        by_cases hk : (sumL sub).keptAs 0 = true <;> simp [flatImports, sumL_cons, Sum.app, Rule.sum, kept, hk]
      · by_cases hk : (sumL sub).keptAs q = true <;> simp [flatImports, sumL_cons, Sum.app, Rule.sum, kept, hk, hq]
  | _ => simp [flatImports, sumL_cons, Sum.app, Rule.sum, Sum.nil]

/-! ### the outcome of `resolveImports` -/

theorem resolve_ok (s t : Sheet) (h : resolveImports s = .ok t) :
    imports t = flatImports s ∧ body t = flatBody s ∧ hasNs t = (sumL s).ns ∧ hasCharset t = false := by
  have := resolve_good (heightL s) s (Nat.le_refl _)
  unfold resolveImports at h
  rw [h] at this
  simpa [Good, imports, body, hasNs, flatImports, flatBody] using this

/-- HierarchyRequestErr never leaves `resolveImports` -/
theorem resolve_hierarchy_never (s : Sheet) : resolveImports s ≠ .raised .hierarchy := by
  intro h
  have := resolve_good (heightL s) s (Nat.le_refl _)
  unfold resolveImports at h
  rw [h] at this
  simp [Good] at this

theorem resolve_fuel_never (s : Sheet) : resolveImports s ≠ .raised .fuel := by
  intro h
  have := resolve_good (heightL s) s (Nat.le_refl _)
  unfold resolveImports at h
  rw [h] at this
  simp [Good] at this


/-! ### (b) @imports that were not loaded -/

theorem unloaded_sublist_flatImports : ∀ (s : Sheet), (s.filter Rule.isUnloaded).Sublist (flatImports s)
  | [] => by simp
  | r :: rs => by
    rw [flatImports_cons, List.filter_cons]
    have ih := unloaded_sublist_flatImports rs
    cases r with
    | imp i q tg =>
      cases tg with
      | none => simpa [Rule.isUnloaded] using ih
      | some sub => simpa [Rule.isUnloaded] using ih.trans (List.sublist_append_right _ _)
    | _ => simpa [Rule.isUnloaded] using ih

theorem imports_sublist (t : Sheet) : (imports t).Sublist t := List.filter_sublist

/-! ### trees in which every loaded @import can be inlined -/

mutual
/-- the naive document-order traversal: every loaded @import expanded in place -/
def Rule.expand : Rule → List Rule
  | .charset _ => []
  | .ns _ _ => []
  | .imp _ _ none => []
  | .imp i q (some sub) => .start i :: (if q = 0 then expandL sub else [.media q (expandL sub)])
  | .media q rs => [.media q rs]
  | .comment i => [.comment i]
  | .start i => [.start i]
  | .style i u => [.style i u]
  | .block k i => [.block k i]
def expandL : List Rule → List Rule
  | [] => []
  | r :: rs => r.expand ++ expandL rs
end

mutual
/-- may stand in a sheet that is imported with a media restriction: @charset, comments, style rules and
loaded unrestricted @imports of such sheets -/
def Rule.plain : Rule → Bool
  | .charset _ => true
  | .comment _ => true
  | .start _ => true
  | .style _ _ => true
  | .imp _ q (some sub) => q == 0 && plainL sub
  | _ => false
def plainL : List Rule → Bool
  | [] => true
  | r :: rs => r.plain && plainL rs
end

mutual
/-- every media-restricted loaded @import, at any depth, imports a plain sheet -/
def Rule.inlinable : Rule → Bool
  | .imp _ q (some sub) => inlinableL sub && (q == 0 || plainL sub)
  | _ => true
def inlinableL : List Rule → Bool
  | [] => true
  | r :: rs => r.inlinable && inlinableL rs
end

mutual
theorem Rule.plain_sum : ∀ (r : Rule), r.plain = true →
    r.sum = ⟨[], false, r.expand⟩ ∧ r.expand.all Rule.canWrap = true
  | .charset _, _ => by simp [Rule.sum, Sum.nil, Rule.expand]
  | .comment _, _ => by simp [Rule.sum, Rule.expand, Rule.canWrap]
  | .start _, _ => by simp [Rule.sum, Rule.expand, Rule.canWrap]
  | .style _ _, _ => by simp [Rule.sum, Rule.expand, Rule.canWrap]
  | .imp i q (some sub), h => by
    simp only [Rule.plain, Bool.and_eq_true, beq_iff_eq] at h
    obtain ⟨hq, hp⟩ := h
    subst hq
    obtain ⟨h1, h2⟩ := plainL_sum sub hp
    have hk : (sumL sub).keptAs 0 = false := by simp [Sum.keptAs]
    simp only [Rule.sum, hk, Rule.expand, if_true, Bool.false_eq_true, if_false]
    rw [h1]
    simp [Rule.canWrap, h2]
  | .imp _ _ none, h => by simp [Rule.plain] at h
  | .ns _ _, h => by simp [Rule.plain] at h
  | .media _ _, h => by simp [Rule.plain] at h
  | .block _ _, h => by simp [Rule.plain] at h
theorem plainL_sum : ∀ (s : Sheet), plainL s = true →
    sumL s = ⟨[], false, expandL s⟩ ∧ (expandL s).all Rule.canWrap = true
  | [], _ => by simp [sumL, Sum.nil, expandL]
  | r :: rs, h => by
    simp only [plainL, Bool.and_eq_true] at h
    obtain ⟨h1, h2⟩ := Rule.plain_sum r h.1
    obtain ⟨h3, h4⟩ := plainL_sum rs h.2
    simp only [sumL, expandL, h1, h3, Sum.app, List.all_append, h2, h4]
    simp
end


theorem any_not_canWrap_of_all (l : List Rule) (h : l.all Rule.canWrap = true) :
    l.any (fun x => !x.canWrap) = false := by
  induction l with
  | nil => rfl
  | cons a l ih =>
    simp only [List.all_cons, Bool.and_eq_true] at h
    simp [h.1, ih h.2]

mutual
theorem Rule.inlinable_sum : ∀ (r : Rule), r.inlinable = true →
    r.sum.body = r.expand ∧ r.sum.imps.all Rule.isUnloaded = true
  | .imp i q (some sub), h => by
    simp only [Rule.inlinable, Bool.and_eq_true, Bool.or_eq_true, beq_iff_eq] at h
    obtain ⟨hi, hq⟩ := h
    obtain ⟨h2, h3⟩ := inlinableL_sum sub hi
    by_cases hq0 : q = 0
    · subst hq0
      have hk : (sumL sub).keptAs 0 = false := by simp [Sum.keptAs]
      simp [Rule.sum, hk, Rule.expand, h2, h3]
    · have hp := hq.resolve_left hq0
      obtain ⟨p1, p2⟩ := plainL_sum sub hp
      have hk : (sumL sub).keptAs q = false := by
        rw [p1]; simp [Sum.keptAs, Sum.hard, any_not_canWrap_of_all _ p2]
      simp only [Rule.sum, hk, Rule.expand, hq0, if_false, Bool.false_eq_true]
      rw [p1]; simp
  | .imp _ _ none, _ => by simp [Rule.sum, Rule.expand, Rule.isUnloaded]
  | .charset _, _ => by simp [Rule.sum, Sum.nil, Rule.expand]
  | .ns _ _, _ => by simp [Rule.sum, Rule.expand]
  | .media _ _, _ => by simp [Rule.sum, Rule.expand]
  | .comment _, _ => by simp [Rule.sum, Rule.expand]
  | .start _, _ => by simp [Rule.sum, Rule.expand]
  | .style _ _, _ => by simp [Rule.sum, Rule.expand]
  | .block _ _, _ => by simp [Rule.sum, Rule.expand]
theorem inlinableL_sum : ∀ (s : Sheet), inlinableL s = true →
    (sumL s).body = expandL s ∧ (sumL s).imps.all Rule.isUnloaded = true
  | [], _ => by simp [sumL, Sum.nil, expandL]
  | r :: rs, h => by
    simp only [inlinableL, Bool.and_eq_true] at h
    obtain ⟨h2, h3⟩ := Rule.inlinable_sum r h.1
    obtain ⟨h5, h6⟩ := inlinableL_sum rs h.2
    simp [sumL, expandL, Sum.app, h2, h5, List.all_append, h3, h6]
end

end CssVerif.Resolve
