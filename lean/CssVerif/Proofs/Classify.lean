/-
First-character analysis of productions and the "first token" lemmas used by C09.
-/
import CssVerif.Proofs.Tokenizer
namespace CssVerif
open Re

namespace Re

/-- over-approximation: can `r` consume `c` as the first character of a match? -/
def first : Re → Nat → Bool
  | eps, _ => false
  | cls neg rs, c => clsMatch neg rs c
  | seq a b, c => first a c || (nullable a && first b c)
  | alt a b, c => first a c || first b c
  | star a, c => first a c
  | opt a, c => first a c
  | lazyStar a, c => first a c
  | ahead _, _ => false
  | nahead _ _, _ => false

/-- `canStart r c`: a non-nullable `r` can match at the front of a text starting with `c` only if
this holds -/
def canStart (r : Re) (c : Nat) : Bool := nullable r || first r c

/-- if `r` cannot consume `c`, every match of `r` on `c :: s` is empty -/
theorem first_false : ∀ (r : Re) (c : Nat) (s : Text), first r c = false →
    ∀ t ∈ ms r (c :: s), t = c :: s := by
  intro r
  induction r with
  | eps => intro c s _ t ht; simpa [ms] using ht
  | cls neg rs => intro c s h t ht; simp only [first] at h; simp [ms, h] at ht
  | seq a b iha ihb =>
    intro c s h t ht
    simp only [first, Bool.or_eq_false_iff, Bool.and_eq_false_iff] at h
    simp only [ms, List.mem_flatMap] at ht
    obtain ⟨u, hu, htu⟩ := ht
    have hu' := iha c s h.1 u hu
    subst hu'
    rcases h.2 with hn | hb
    · have := ms_progress a hn _ _ hu
      simp at this
    · exact ihb c s hb t htu
  | alt a b iha ihb =>
    intro c s h t ht
    simp only [first, Bool.or_eq_false_iff] at h
    simp only [ms, List.mem_append] at ht
    rcases ht with ht | ht
    · exact iha c s h.1 t ht
    · exact ihb c s h.2 t ht
  | star a iha =>
    intro c s h t ht
    simp only [first] at h
    simp only [ms] at ht
    have hf : (ms a (c :: s)).filter (fun t => t.length < (c :: s).length) = [] := by
      apply List.filter_eq_nil_iff.mpr
      intro u hu
      have := iha c s h u hu
      subst this
      simp
    cases hn : (c :: s).length with
    | zero => simp at hn
    | succ n =>
      rw [hn] at ht
      simp only [starIter, hf, List.flatMap_nil, List.nil_append, List.mem_singleton] at ht
      exact ht
  | opt a iha =>
    intro c s h t ht
    simp only [first] at h
    simp only [ms, List.mem_append, List.mem_singleton] at ht
    rcases ht with ht | ht
    · exact iha c s h t ht
    · exact ht
  | lazyStar a iha =>
    intro c s h t ht
    simp only [first] at h
    simp only [ms] at ht
    have hf : (ms a (c :: s)).filter (fun t => t.length < (c :: s).length) = [] := by
      apply List.filter_eq_nil_iff.mpr
      intro u hu
      have := iha c s h u hu
      subst this
      simp
    cases hn : (c :: s).length with
    | zero => simp at hn
    | succ n =>
      rw [hn] at ht
      simp only [lazyIter, hf, List.flatMap_nil, List.mem_cons, List.not_mem_nil, or_false] at ht
      exact ht
  | ahead d =>
    intro c s _ t ht
    simp only [ms] at ht
    split at ht
    · simpa using ht
    · simp at ht
  | nahead neg rs =>
    intro c s _ t ht
    simp only [ms] at ht
    split at ht
    · simp at ht
    · simpa using ht

theorem canStart_false (r : Re) (c : Nat) (s : Text) (h : canStart r c = false) : ms r (c :: s) = [] := by
  simp only [canStart, Bool.or_eq_false_iff] at h
  apply List.eq_nil_iff_forall_not_mem.mpr
  intro t ht
  have h1 := first_false r c s h.2 t ht
  have h2 := ms_progress r h.1 _ _ ht
  subst h1
  simp at h2

theorem exec_none_of_canStart_false (r : Re) (c : Nat) (s : Text) (h : canStart r c = false) :
    exec r (c :: s) = none := by
  rw [exec_eq_head, canStart_false r c s h]; rfl

/-- greedy run: `C*` on a run of `C`-characters followed by a text that does not start with one -/
theorem starIter_cls_run (neg : Bool) (rs : List (Nat × Nat)) :
    ∀ (run rest : Text) (n : Nat), (∀ c ∈ run, clsMatch neg rs c = true) →
      (∀ d ∈ rest.head?, clsMatch neg rs d = false) → run.length + rest.length ≤ n →
      (starIter (ms (cls neg rs)) n (run ++ rest)).head? = some rest := by
  intro run
  induction run with
  | nil =>
    intro rest n _ hrest _
    cases n with
    | zero => simp [starIter]
    | succ n =>
      cases rest with
      | nil => simp [starIter, ms]
      | cons d ds =>
        have := hrest d (by simp)
        simp [starIter, ms, this]
  | cons c cs ih =>
    intro rest n hrun hrest hn
    cases n with
    | zero => simp at hn
    | succ n =>
      have hc := hrun c List.mem_cons_self
      simp only [List.cons_append, starIter, ms, hc, if_true, List.filter_cons, List.length_cons,
        List.length_append, List.filter_nil]
      have hlt : (cs ++ rest).length < (cs ++ rest).length + 1 := Nat.lt_succ_self _
      simp only [List.length_append] at hlt
      simp only [hlt, decide_true, if_true, List.flatMap_cons, List.flatMap_nil, List.append_nil]
      have := ih rest n (fun x hx => hrun x (List.mem_cons_of_mem _ hx)) hrest
        (by simp only [List.length_cons] at hn; omega)
      rw [List.head?_append]
      rw [this]
      rfl

end Re

/-! ### skipping productions that cannot start with the current character -/

theorem matchProd_none_of_canStart (p : Prod) (prev : Option Nat) (c : Nat) (s : Text)
    (h : canStart p.re c = false) : matchProd p prev (c :: s) = none := by
  unfold matchProd
  have := exec_none_of_canStart_false p.re c s h
  split
  · split <;> simp [this]
  · exact this

/-- outside full-sheet mode, productions that cannot start with the current character are skipped -/
theorem tryProds_skip (T : Tables) (cfg : Cfg) (hfs : cfg.fullsheet = false) (st : St) (c : Nat) (s : Text)
    (hr : st.rest = c :: s) :
    ∀ (pre post : List Prod), (∀ q ∈ pre, canStart q.re c = false) →
      tryProds T cfg st (pre ++ post) = tryProds T cfg st post := by
  intro pre
  induction pre with
  | nil => intro post _; rfl
  | cons q qs ih =>
    intro post hpre
    simp only [List.cons_append, tryProds, hfs, Bool.false_and, if_false]
    rw [hr, matchProd_none_of_canStart q st.prev c s (hpre q List.mem_cons_self)]
    simp only
    rw [← hr]
    exact ih post (fun x hx => hpre x (List.mem_cons_of_mem _ hx))

/-- the production that classifies a text: all earlier ones cannot start with its first character,
this one matches, and (if it is IDENT) the look-ahead exception does not apply -/
theorem step_classify (T : Tables) (cfg : Cfg) (hfs : cfg.fullsheet = false) (st : St) (c : Nat) (s : Text)
    (hr : st.rest = c :: s) (hfast : T.fastChars.contains c = false)
    (pre post : List Prod) (p : Prod) (hT : T.prods = pre ++ p :: post)
    (hpre : ∀ q ∈ pre, canStart q.re c = false)
    (rem : Text) (hm : matchProd p st.prev (c :: s) = some rem) (hid : (p.name == "IDENT") = false) :
    step T cfg st = some (finish T cfg st p.name (consumed (c :: s) rem) rem) := by
  unfold step
  rw [hr]
  simp only [hfast, Bool.false_eq_true, if_false]
  rw [hT, tryProds_skip T cfg hfs st c s hr pre (p :: post) hpre]
  simp only [tryProds, hfs, Bool.false_and, Bool.false_eq_true, if_false, hr, hm, hid]

/-- indices of the productions that precede the first one named `n` all fail `canStart` on `c` -/
def earlierCannotStart (T : Tables) (n : String) (c : Nat) : Bool :=
  go T.prods
where
  go : List Prod → Bool
    | [] => false
    | p :: ps => if p.name == n then true else (!canStart p.re c) && go ps

theorem earlierCannotStart_split (ps : List Prod) (n : String) (c : Nat)
    (h : earlierCannotStart.go n c ps = true) :
    ∃ pre p post, ps = pre ++ p :: post ∧ (p.name == n) = true ∧
      (∀ q ∈ pre, canStart q.re c = false) ∧ (∀ q ∈ pre, (q.name == n) = false) := by
  induction ps with
  | nil => simp [earlierCannotStart.go] at h
  | cons p ps ih =>
    simp only [earlierCannotStart.go] at h
    split at h
    · rename_i hn
      exact ⟨[], p, ps, rfl, hn, by simp, by simp⟩
    · rename_i hn
      simp only [Bool.and_eq_true, Bool.not_eq_true'] at h
      obtain ⟨pre, p', post, hps, hn', hpre, hnm⟩ := ih h.2
      refine ⟨p :: pre, p', post, by simp [hps], hn', ?_, ?_⟩
      · intro q hq
        rcases List.mem_cons.mp hq with rfl | hq'
        · exact h.1
        · exact hpre q hq'
      · intro q hq
        rcases List.mem_cons.mp hq with rfl | hq'
        · simpa using hn
        · exact hnm q hq'

theorem find?_append_skip {α} (f : α → Bool) (pre : List α) (x : α) (post : List α)
    (hpre : ∀ q ∈ pre, f q = false) (hx : f x = true) : (pre ++ x :: post).find? f = some x := by
  induction pre with
  | nil => simp [List.find?_cons, hx]
  | cons y ys ih =>
    simp only [List.cons_append, List.find?_cons, hpre y List.mem_cons_self]
    exact ih (fun q hq => hpre q (List.mem_cons_of_mem _ hq))

/-- classification by the first production of a given name, when every earlier production cannot
start with the first character -/
theorem step_classify' (T : Tables) (cfg : Cfg) (hfs : cfg.fullsheet = false) (st : St) (c : Nat) (s : Text)
    (hr : st.rest = c :: s) (hfast : T.fastChars.contains c = false)
    (n : String) (hn : (n == "IDENT") = false) (he : earlierCannotStart T n c = true)
    (p : Prod) (hp : findProd T.prods n = some p)
    (rem : Text) (hm : matchProd p st.prev (c :: s) = some rem) :
    step T cfg st = some (finish T cfg st p.name (consumed (c :: s) rem) rem) := by
  obtain ⟨pre, p', post, hps, hn', hpre, hnm⟩ := earlierCannotStart_split T.prods n c he
  have hfind : findProd T.prods n = some p' := by
    unfold findProd
    rw [hps]
    exact find?_append_skip _ pre p' post hnm hn'
  rw [hp] at hfind
  cases hfind
  have hid : (p.name == "IDENT") = false := by
    have : p.name = n := by simpa using hn'
    rw [this]; exact hn
  exact step_classify T cfg hfs st c s hr hfast pre post p hps hpre rem hm hid

/-- universal: outside full-sheet mode the token at `c :: s` always comes from a production that can
start with `c` -/
theorem tryProds_first_char (T : Tables) (cfg : Cfg) (hfs : cfg.fullsheet = false) (st : St) (c : Nat)
    (s : Text) (hr : st.rest = c :: s) :
    ∀ (ps : List Prod) (r : Res), tryProds T cfg st ps = some r →
      ∃ p ∈ ps, canStart p.re c = true ∧ ∃ rem, r = finish T cfg st p.name (consumed (c :: s) rem) rem := by
  intro ps
  induction ps with
  | nil => intro r h; simp [tryProds] at h
  | cons q qs ih =>
    intro r h
    simp only [tryProds, hfs, Bool.false_and, Bool.false_eq_true, if_false] at h
    split at h
    · obtain ⟨p, hp, hc⟩ := ih r h
      exact ⟨p, List.mem_cons_of_mem _ hp, hc⟩
    · rename_i rem hm
      split at h
      · obtain ⟨p, hp, hc⟩ := ih r h
        exact ⟨p, List.mem_cons_of_mem _ hp, hc⟩
      · cases h
        refine ⟨q, List.mem_cons_self, ?_, rem, by rw [hr]⟩
        cases hcs : canStart q.re c with
        | true => rfl
        | false =>
          rw [hr, matchProd_none_of_canStart q st.prev c s hcs] at hm
          cases hm

end CssVerif
