/-
Proofs about Model/SaveStack.lean: the Stack discipline puts the flag and every parser's memory back over any
well-nested history (any depth, any mix of parser objects, re-entrant or not); the Slot discipline does so
exactly as long as no parser is entered while it is active.
-/
import CssVerif.Model.SaveStack
namespace CssVerif.SaveStack

/-! ### function update -/

@[simp] theorem upd_same {α : Type} (f : Nat → α) (p : Nat) (a : α) : upd f p a p = a := by simp [upd]
theorem upd_other {α : Type} (f : Nat → α) (p q : Nat) (a : α) (h : q ≠ p) : upd f p a q = f q := by
  simp [upd, h]
@[simp] theorem upd_upd {α : Type} (f : Nat → α) (p : Nat) (a b : α) : upd (upd f p a) p b = upd f p b := by
  funext q; simp only [upd]; split <;> rfl
@[simp] theorem upd_self {α : Type} (f : Nat → α) (p : Nat) : upd f p (f p) = f := by
  funext q; simp only [upd]; split
  · next h => rw [h]
  · rfl

/-! ### runs -/

theorem runStack_append (pv : Nat → Bool) (s : StackState) (h₁ h₂ : List Ev) :
    runStack pv s (h₁ ++ h₂) = runStack pv (runStack pv s h₁) h₂ := by
  induction h₁ generalizing s with
  | nil => rfl
  | cons e h ih => exact ih _

theorem runSlot_append (pv : Nat → Bool) (s : SlotState) (h₁ h₂ : List Ev) :
    runSlot pv s (h₁ ++ h₂) = runSlot pv (runSlot pv s h₁) h₂ := by
  induction h₁ generalizing s with
  | nil => rfl
  | cons e h ih => exact ih _

/-- the heart of the Stack discipline: the exit of a call undoes its entry, flag and memory -/
theorem exit_enter (pv : Nat → Bool) (s : StackState) (p : Nat) :
    stepStack pv (stepStack pv s (.enter p)) (.exit p) = s := by
  cases s with
  | mk flag mem => simp [stepStack]

/-! ### the grammar: a complete sequence of calls changes nothing -/

theorem calls_run (pv : Nat → Bool) {h : List Ev} (hc : Calls h) : ∀ s, runStack pv s h = s := by
  induction hc with
  | nil => intro s; rfl
  | call p _ _ ihi ihr =>
    intro s
    show runStack pv (stepStack pv s (.enter p)) (_ ++ .exit p :: _) = s
    rw [runStack_append, ihi]
    show runStack pv (stepStack pv (stepStack pv s (.enter p)) (.exit p)) _ = s
    rw [exit_enter, ihr]

/-! ### the state while the calls `stk` are open -/

/-- the state reached from `s` (flag `v`) by entering the parsers of `stk`, outermost (last) first -/
def opened (pv : Nat → Bool) (s : StackState) (v : Bool) : List Nat → StackState
  | [] => { s with flag := v }
  | p :: stk => stepStack pv (opened pv s v stk) (.enter p)

theorem opened_nil_self (pv : Nat → Bool) (s : StackState) : opened pv s s.flag [] = s := by
  cases s; rfl

theorem opened_flag_cons (pv : Nat → Bool) (s : StackState) (v : Bool) (p : Nat) (stk : List Nat) :
    (opened pv s v (p :: stk)).flag = pv p := rfl

theorem stack_master (pv : Nat → Bool) (s : StackState) : ∀ (h : List Ev) (stk : List Nat) (v : Bool)
    (stk' : List Nat), openAfter false stk h = some stk' →
    runStack pv (opened pv s v stk) h = opened pv s (lastSet v h) stk' := by
  intro h
  induction h with
  | nil =>
    intro stk v stk' ho
    simp only [openAfter, Option.some.injEq] at ho
    subst ho; rfl
  | cons e h ih =>
    intro stk v stk' ho
    cases e with
    | enter p =>
      simp only [openAfter, Bool.false_and, Bool.false_eq_true, if_false] at ho
      exact ih (p :: stk) v stk' ho
    | exit p =>
      cases stk with
      | nil => simp [openAfter] at ho
      | cons q stk =>
        simp only [openAfter] at ho
        split at ho
        · next hpq =>
          subst hpq
          show runStack pv (stepStack pv (stepStack pv (opened pv s v stk) (.enter p)) (.exit p)) h = _
          rw [exit_enter]
          exact ih stk v stk' ho
        · simp at ho
    | set v' =>
      cases stk with
      | nil =>
        simp only [openAfter] at ho
        exact ih [] v' stk' ho
      | cons q stk => simp [openAfter] at ho

/-! ### the checker and the grammar describe the same histories -/

theorem calls_open {inner : List Ev} (hc : Calls inner) : ∀ (stk : List Nat) (rest : List Ev),
    openAfter false stk (inner ++ rest) = openAfter false stk rest := by
  induction hc with
  | nil => intro stk rest; rfl
  | call p _ _ ihi ihr =>
    intro stk rest
    simp only [List.cons_append, List.append_assoc, openAfter, Bool.false_and, Bool.false_eq_true, if_false]
    rw [ihi]
    simp only [openAfter, if_true]
    exact ihr stk rest

theorem history_wellNested {h : List Ev} (hh : History h) : WellNested h := by
  unfold WellNested
  induction hh with
  | nil => rfl
  | set v _ ih => simpa only [openAfter] using ih
  | call p hc _ ih =>
    simp only [openAfter, Bool.false_and, Bool.false_eq_true, if_false]
    rw [calls_open hc]
    simpa only [openAfter, if_true] using ih

theorem calls_history {h : List Ev} (hc : Calls h) : History h := by
  induction hc with
  | nil => exact .nil
  | call p hi _ _ ihr => exact .call p hi ihr

/-- an open call of p that gets closed: what follows is complete calls, p's exit, and the rest -/
theorem open_decomp : ∀ (n : Nat) (h : List Ev), h.length ≤ n → ∀ (p : Nat) (stk : List Nat),
    openAfter false (p :: stk) h = some [] →
    ∃ inner rest, h = inner ++ .exit p :: rest ∧ Calls inner ∧ openAfter false stk rest = some [] := by
  intro n
  induction n with
  | zero =>
    intro h hl p stk ho
    cases h with
    | nil => simp [openAfter] at ho
    | cons e h => simp at hl
  | succ n ih =>
    intro h hl p stk ho
    cases h with
    | nil => simp [openAfter] at ho
    | cons e h =>
      have hl' : h.length ≤ n := by simpa using hl
      cases e with
      | enter q =>
        simp only [openAfter, Bool.false_and, Bool.false_eq_true, if_false] at ho
        obtain ⟨i₁, r₁, e₁, c₁, o₁⟩ := ih h hl' q (p :: stk) ho
        have hr₁ : r₁.length ≤ n := by
          have := congrArg List.length e₁
          simp at this; omega
        obtain ⟨i₂, r₂, e₂, c₂, o₂⟩ := ih r₁ hr₁ p stk o₁
        refine ⟨.enter q :: (i₁ ++ .exit q :: i₂), r₂, ?_, .call q c₁ c₂, o₂⟩
        rw [e₁, e₂]; simp
      | exit q =>
        simp only [openAfter] at ho
        split at ho
        · next hqp => subst hqp; exact ⟨[], h, rfl, .nil, ho⟩
        · simp at ho
      | set v => simp [openAfter] at ho

theorem wellNested_history_aux : ∀ (n : Nat) (h : List Ev), h.length ≤ n → WellNested h → History h := by
  intro n
  induction n with
  | zero =>
    intro h hl _
    cases h with
    | nil => exact .nil
    | cons e h => simp at hl
  | succ n ih =>
    intro h hl hw
    cases h with
    | nil => exact .nil
    | cons e h =>
      have hl' : h.length ≤ n := by simpa using hl
      unfold WellNested at hw
      cases e with
      | enter p =>
        simp only [openAfter, Bool.false_and, Bool.false_eq_true, if_false] at hw
        obtain ⟨i, r, e₁, c, o⟩ := open_decomp n h hl' p [] hw
        have hr : r.length ≤ n := by
          have := congrArg List.length e₁
          simp at this; omega
        rw [e₁]
        exact .call p c (ih r hr o)
      | exit p => simp [openAfter] at hw
      | set v =>
        simp only [openAfter] at hw
        exact .set v (ih h hl' hw)

theorem wellNested_iff_history (h : List Ev) : WellNested h ↔ History h :=
  ⟨wellNested_history_aux h.length h (Nat.le_refl _), history_wellNested⟩

/-- refusing re-entry only removes histories -/
theorem strict_open : ∀ (h : List Ev) (stk stk' : List Nat), openAfter true stk h = some stk' →
    openAfter false stk h = some stk' := by
  intro h
  induction h with
  | nil => intro stk stk' ho; simpa [openAfter] using ho
  | cons e h ih =>
    intro stk stk' ho
    cases e with
    | enter p =>
      simp only [openAfter, Bool.true_and, Bool.false_and, Bool.false_eq_true, if_false] at ho ⊢
      split at ho
      · simp at ho
      · exact ih _ _ ho
    | exit p =>
      cases stk with
      | nil => simp [openAfter] at ho
      | cons q stk =>
        simp only [openAfter] at ho ⊢
        split at ho
        · next hpq => simp only [hpq, if_true]; exact ih _ _ ho
        · simp at ho
    | set v =>
      cases stk with
      | nil => simp only [openAfter] at ho ⊢; exact ih _ _ ho
      | cons q stk => simp [openAfter] at ho

/-! ### the Slot discipline without re-entry -/

/-- the flag expected while the calls `stk` are open: the innermost parser's value, at top level the caller's -/
def top (pv : Nat → Bool) (v : Bool) : List Nat → Bool
  | [] => v
  | p :: _ => pv p

/-- every active parser is active once and its slot holds what the flag was when it was entered -/
def SlotsOk (pv : Nat → Bool) (v : Bool) (slot : Nat → Bool) : List Nat → Prop
  | [] => True
  | p :: rest => p ∉ rest ∧ slot p = top pv v rest ∧ SlotsOk pv v slot rest

theorem slotsOk_upd (pv : Nat → Bool) (v : Bool) (slot : Nat → Bool) (p : Nat) (a : Bool) :
    ∀ (stk : List Nat), p ∉ stk → SlotsOk pv v slot stk → SlotsOk pv v (upd slot p a) stk := by
  intro stk
  induction stk with
  | nil => intro _ _; trivial
  | cons q rest ih =>
    intro hp hs
    have hqp : q ≠ p := fun h => hp (by simp [h])
    have hpr : p ∉ rest := fun h => hp (by simp [h])
    exact ⟨hs.1, by rw [upd_other _ _ _ _ hqp]; exact hs.2.1, ih hpr hs.2.2⟩

theorem slot_master (pv : Nat → Bool) : ∀ (h : List Ev) (stk : List Nat) (v : Bool) (stk' : List Nat)
    (s : SlotState), openAfter true stk h = some stk' → s.flag = top pv v stk → SlotsOk pv v s.slot stk →
    (runSlot pv s h).flag = top pv (lastSet v h) stk' ∧ SlotsOk pv (lastSet v h) (runSlot pv s h).slot stk' := by
  intro h
  induction h with
  | nil =>
    intro stk v stk' s ho hf hs
    simp only [openAfter, Option.some.injEq] at ho
    subst ho; exact ⟨hf, hs⟩
  | cons e h ih =>
    intro stk v stk' s ho hf hs
    cases e with
    | enter p =>
      simp only [openAfter, Bool.true_and] at ho
      split at ho
      · simp at ho
      · next hc =>
        have hp : p ∉ stk := by simpa using hc
        refine ih (p :: stk) v stk' (stepSlot pv s (.enter p)) ho rfl ⟨hp, ?_, ?_⟩
        · show upd s.slot p s.flag p = _
          rw [upd_same, hf]
        · exact slotsOk_upd pv v s.slot p s.flag stk hp hs
    | exit p =>
      cases stk with
      | nil => simp [openAfter] at ho
      | cons q stk =>
        simp only [openAfter] at ho
        split at ho
        · next hpq =>
          subst hpq
          exact ih stk v stk' (stepSlot pv s (.exit p)) ho hs.2.1 hs.2.2
        · simp at ho
    | set v' =>
      cases stk with
      | nil =>
        simp only [openAfter] at ho
        exact ih [] v' stk' (stepSlot pv s (.set v')) ho rfl trivial
      | cons q stk => simp [openAfter] at ho

theorem opened_flag (pv : Nat → Bool) (s : StackState) (v : Bool) (stk : List Nat) :
    (opened pv s v stk).flag = top pv v stk := by
  cases stk <;> rfl

/-- a history without assignments by the caller is a sequence of calls -/
theorem history_calls {h : List Ev} (hh : History h) : (∀ v, Ev.set v ∉ h) → Calls h := by
  induction hh with
  | nil => intro _; exact .nil
  | set v _ _ => intro hn; exact absurd (List.mem_cons_self ..) (hn v)
  | call p hc _ ih =>
    intro hn
    refine .call p hc (ih ?_)
    intro v hv
    exact hn v (List.mem_cons_of_mem _ (List.mem_append_right _ (List.mem_cons_of_mem _ hv)))

theorem calls_no_set {h : List Ev} (hc : Calls h) : ∀ v, Ev.set v ∉ h := by
  induction hc with
  | nil => intro v; simp
  | call p _ _ ihi ihr =>
    intro v hv
    simp only [List.mem_cons, List.mem_append, reduceCtorEq, false_or] at hv
    rcases hv with hv | hv
    · exact ihi v hv
    · exact ihr v hv

end CssVerif.SaveStack
