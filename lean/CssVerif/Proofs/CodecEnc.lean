/-
Chunking invariance of the incremental ENCODER of the css codec, and the inverse
(encode then decode returns the text up to the `@charset` rewrite).
-/
import CssVerif.Proofs.Codec
namespace CssVerif.Codec

/-! ### what is assumed of Python's own incremental encoders -/

/-- the analogue of `DecLaw` for the inner incremental encoder: feeding `a` and then `b` is the same
as feeding `a ++ b`, and a failure on `a` is not forgotten when more text follows -/
structure EncLaw (I : Inner) : Prop where
  split : ∀ (e : I.E) (a b : Text) (f : Bool) (o1 : Bytes) (e1 : I.E),
    I.enc e a false = some (o1, e1) →
      I.enc e (a ++ b) f = (I.enc e1 b f).map (fun r => (o1 ++ r.1, r.2))
  fail : ∀ (e : I.E) (a b : Text) (f : Bool), I.enc e a false = none → I.enc e (a ++ b) f = none

/-! ### small facts -/

theorem bool_false_of_not_true {b : Bool} (h : ¬ b = true) : b = false := by
  cases b with
  | false => rfl
  | true => exact absurd rfl h

/-- the position found by `findQuote` holds a quote -/
theorem findQuote_drop {p : Text} {s pos : Nat} (h : findQuote p s = some pos) :
    p.drop pos = 34 :: p.drop (pos + 1) := by
  unfold findQuote at h
  cases hf : (p.drop s).findIdx? (· == 34) with
  | none => rw [hf] at h; cases h
  | some i =>
    rw [hf] at h
    cases h
    obtain ⟨hlt, hv, _⟩ := List.findIdx?_eq_some_iff_getElem.mp hf
    have hlt' : s + i < p.length := by
      simp only [List.length_drop] at hlt; omega
    rw [List.getElem_drop] at hv
    have hv' : p[s + i] = 34 := by simpa using hv
    rw [List.drop_eq_getElem_cons hlt', hv']

/-- the first quote of `name ++ '"' :: rest` is right after `name` when `name` has none -/
theorem findIdx_first_quote (name rest : Text) (hq : ∀ c ∈ name, c ≠ 34) :
    (name ++ 34 :: rest).findIdx? (· == 34) = some name.length := by
  induction name with
  | nil => simp [List.findIdx?_cons]
  | cons c cs ih =>
    have hc34 : (c == 34) = false := by
      have := hq c List.mem_cons_self
      simpa using this
    simp only [List.cons_append, List.findIdx?_cons, hc34, Bool.false_eq_true, if_false]
    rw [ih (fun x hx => hq x (List.mem_cons_of_mem _ hx))]
    simp

/-! ### `detectencoding_unicode`: a decision is never revised -/

/-- once the text-level detector has named an encoding for a prefix of the text, it names the same
encoding (with the same explicit flag) for every extension, final or not -/
theorem detectU_stable (p q : Text) (f : Bool) (e : Text) (x : Bool)
    (h : detectUnicode p false = (some e, x)) : detectUnicode (p ++ q) f = (some e, x) := by
  unfold detectUnicode at h ⊢
  by_cases hp : charsetPrefix.isPrefixOf p = true
  · simp only [hp, isPrefixOf_append_left hp, if_true] at h ⊢
    cases hq : findQuote p charsetPrefix.length with
    | none => simp [hq] at h
    | some pos =>
      simp only [hq] at h
      have hl : charsetPrefix.length ≤ p.length := (List.isPrefixOf_iff_prefix.mp hp).length_le
      obtain ⟨h1, h2, _⟩ := findQuote_append (q := q) hl hq
      simp only [h1]
      rw [List.take_append_of_le_length (Nat.le_of_lt h2)]
      exact h
  · have hpf : charsetPrefix.isPrefixOf p = false := bool_false_of_not_true hp
    simp only [hpf, Bool.false_eq_true, if_false, Bool.false_or] at h
    have hnp : p.isPrefixOf charsetPrefix = false := by
      cases hb : p.isPrefixOf charsetPrefix with
      | false => rfl
      | true => simp [hb] at h
    simp only [hnp, Bool.not_false, if_true] at h
    have h1 : charsetPrefix.isPrefixOf (p ++ q) = false := by
      cases hb : charsetPrefix.isPrefixOf (p ++ q) with
      | false => rfl
      | true =>
        exfalso
        have hc : charsetPrefix <+: p ++ q := List.isPrefixOf_iff_prefix.mp hb
        have hpp : p <+: p ++ q := List.prefix_append p q
        by_cases hle : p.length ≤ charsetPrefix.length
        · have := prefix_of_prefix_of_le hpp hc hle
          rw [← List.isPrefixOf_iff_prefix] at this
          rw [this] at hnp; cases hnp
        · have := prefix_of_prefix_of_le hc hpp (by omega)
          rw [← List.isPrefixOf_iff_prefix] at this
          exact hp this
    have h2 : (p ++ q).isPrefixOf charsetPrefix = false := by
      cases hb : (p ++ q).isPrefixOf charsetPrefix with
      | false => rfl
      | true =>
        exfalso
        have := (List.prefix_append p q).trans (List.isPrefixOf_iff_prefix.mp hb)
        rw [← List.isPrefixOf_iff_prefix] at this
        rw [this] at hnp; cases hnp
    simp only [h1, h2, Bool.false_eq_true, if_false, Bool.not_false, Bool.or_true, if_true]
    exact h

/-- when the text-level detector has decided, the header rewriter has decided too -/
theorem detectU_fix (p e e2 : Text) (x : Bool) (h : detectUnicode p false = (some e, x)) :
    (fixEncoding p e2 false).isSome = true := by
  unfold detectUnicode at h
  unfold fixEncoding
  by_cases hp : charsetPrefix.isPrefixOf p = true
  · simp only [hp, if_true] at h ⊢
    cases hq : findQuote p charsetPrefix.length with
    | none => simp [hq] at h
    | some pos =>
      have hl : charsetPrefix.length ≤ p.length := (List.isPrefixOf_iff_prefix.mp hp).length_le
      obtain ⟨_, h2, h3⟩ := findQuote_append (q := []) hl hq
      have hlen : p.length > charsetPrefix.length := by omega
      simp [hlen]
  · have hpf : charsetPrefix.isPrefixOf p = false := bool_false_of_not_true hp
    simp only [hpf, Bool.false_eq_true, if_false, Bool.false_or] at h
    have hnp : p.isPrefixOf charsetPrefix = false := by
      cases hb : p.isPrefixOf charsetPrefix with
      | false => rfl
      | true => simp [hb] at h
    simp only [hpf, hnp]
    split <;> simp

/-! ### `_fixencoding` is idempotent -/

/-- the name `_fixencoding` writes into the header -/
def written (e : Text) : Text := if isUtf8Sig e then utf8 else e

/-- a rewritten text is either the input itself, in which case the encoding name played no role,
or a header with the written name followed by a quote -/
theorem fix_cases (p e t : Text) (f : Bool) (h : fixEncoding p e f = some t) :
    (t = p ∧ ∀ e2, fixEncoding p e2 f = some p) ∨ ∃ rest, t = charsetPrefix ++ written e ++ 34 :: rest := by
  unfold fixEncoding at h
  by_cases hlen : p.length > charsetPrefix.length
  · simp only [hlen, if_true] at h
    by_cases hp : charsetPrefix.isPrefixOf p = true
    · simp only [hp, if_true] at h
      cases hq : findQuote p charsetPrefix.length with
      | some pos =>
        simp only [hq] at h
        right
        refine ⟨p.drop (pos + 1), ?_⟩
        rw [← findQuote_drop hq]
        exact (Option.some.inj h).symm
      | none =>
        simp only [hq] at h
        cases f with
        | false => simp at h
        | true =>
          simp only [if_true] at h
          left
          refine ⟨(Option.some.inj h).symm, ?_⟩
          intro e2
          unfold fixEncoding
          simp only [hlen, hp, hq, if_true]
    · have hpf : charsetPrefix.isPrefixOf p = false := bool_false_of_not_true hp
      simp only [hpf, Bool.false_eq_true, if_false] at h
      left
      refine ⟨(Option.some.inj h).symm, ?_⟩
      intro e2
      unfold fixEncoding
      simp only [hlen, hpf, if_true, Bool.false_eq_true, if_false]
  · simp only [hlen, if_false] at h
    left
    by_cases hc : (!(p.isPrefixOf charsetPrefix) || f) = true
    · simp only [hc, if_true] at h
      refine ⟨(Option.some.inj h).symm, ?_⟩
      intro e2
      unfold fixEncoding
      simp only [hlen, hc, if_true, if_false]
    · simp [hc] at h

/-- rewriting a complete header whose name has no quote -/
theorem fix_header (w rest e2 : Text) (f : Bool) (hq : ∀ c ∈ w, c ≠ 34) :
    fixEncoding (charsetPrefix ++ w ++ 34 :: rest) e2 f = some (charsetPrefix ++ written e2 ++ 34 :: rest) := by
  unfold fixEncoding
  have hlen : (charsetPrefix ++ w ++ 34 :: rest).length > charsetPrefix.length := by
    simp only [List.length_append, List.length_cons]; omega
  have hp : charsetPrefix.isPrefixOf (charsetPrefix ++ w ++ 34 :: rest) = true := by
    rw [List.isPrefixOf_iff_prefix, List.append_assoc]; exact List.prefix_append _ _
  have hfq : findQuote (charsetPrefix ++ w ++ 34 :: rest) charsetPrefix.length
      = some (charsetPrefix.length + w.length) := by
    unfold findQuote
    rw [List.append_assoc, List.drop_left, findIdx_first_quote w rest hq]
  simp only [hlen, hp, hfq, if_true]
  have hd : (charsetPrefix ++ w ++ 34 :: rest).drop (charsetPrefix.length + w.length) = 34 :: rest := by
    rw [← List.length_append, List.drop_left]
  rw [hd]
  rfl

/-- **idempotence**: fixing the result of a fix again, with any encoding that writes the same name,
changes nothing — provided the written name has no quote character (see `fix_idem_needs_noquote`) -/
theorem fix_idem (p e e2 t : Text) (f : Bool) (h : fixEncoding p e f = some t)
    (hq : ∀ c ∈ written e, c ≠ 34) (he : written e2 = written e) : fixEncoding t e2 f = some t := by
  rcases fix_cases p e t f h with ⟨ht, hall⟩ | ⟨rest, ht⟩
  · rw [ht]; exact hall e2
  · rw [ht, fix_header (written e) rest e2 f hq, he]

/-- without the hypothesis the second fix finds the quote inside the name -/
example : fixEncoding (ofStr "@charset \"x\";") (ofStr "a\"b") true = some (ofStr "@charset \"a\"b\";") ∧
    fixEncoding (ofStr "@charset \"a\"b\";") (ofStr "a\"b") true = some (ofStr "@charset \"a\"b\"b\";") := by
  decide

theorem utf8_noquote : ∀ c ∈ utf8, c ≠ 34 := by decide

theorem written_utf8 : written utf8 = utf8 := by decide

theorem written_sig {e : Text} (h : isUtf8Sig e = true) : written e = utf8 := by
  unfold written; simp [h]

/-- after a fix with a `utf-8-sig` name, the second fix (with `utf-8`) of the encoder is the identity -/
theorem fix_sig_idem (p e t : Text) (f : Bool) (h : fixEncoding p e f = some t) (hs : isUtf8Sig e = true) :
    fixEncoding t utf8 f = some t := by
  apply fix_idem p e utf8 t f h
  · rw [written_sig hs]; exact utf8_noquote
  · rw [written_sig hs, written_utf8]

/-- a decided rewrite stays decided when it is fixed again (whatever the names) -/
theorem fix_decided (p e e2 t : Text) (h : fixEncoding p e false = some t) :
    (fixEncoding t e2 false).isSome = true := by
  rcases fix_cases p e t false h with ⟨ht, hall⟩ | ⟨rest, ht⟩
  · rw [ht, hall e2]; rfl
  · -- a header with some quote after the prefix
    rw [ht]
    unfold fixEncoding
    have hlen : (charsetPrefix ++ written e ++ 34 :: rest).length > charsetPrefix.length := by
      simp only [List.length_append, List.length_cons]; omega
    have hp : charsetPrefix.isPrefixOf (charsetPrefix ++ written e ++ 34 :: rest) = true := by
      rw [List.isPrefixOf_iff_prefix, List.append_assoc]; exact List.prefix_append _ _
    simp only [hlen, hp, if_true]
    cases hfq : findQuote (charsetPrefix ++ written e ++ 34 :: rest) charsetPrefix.length with
    | some pos => rfl
    | none =>
      exfalso
      unfold findQuote at hfq
      rw [List.append_assoc, List.drop_left] at hfq
      cases hf : (written e ++ 34 :: rest).findIdx? (· == 34) with
      | some i => rw [hf] at hfq; cases hfq
      | none =>
        rw [List.findIdx?_eq_none_iff] at hf
        have := hf 34 (by simp)
        simp at this

/-! ### the incremental encoder -/

/-- what `encStep` does once the encoding `e` and the (header-fixed) text `t` are known: look the
codec up, fix once more for `utf-8-sig`, start the inner encoder -/
def encStart (I : Inner) (e : Text) (t : Text) (final : Bool) : Except CErr (Bytes × EncSt I) :=
  if isCss e then .error .value
  else if !I.known e then .error .lookup
  else
    let t' := if isUtf8Sig e then (fixEncoding t utf8 true).getD t else t
    match I.enc (I.einit e) t' final with
    | none => .error .unicode
    | some (b, e') => .ok (b, { encoder := some e', encoding := some e, buf := [] })

theorem encStep_running (I : Inner) (st : EncSt I) (e0 : I.E) (x : Text) (f : Bool) (hd : st.encoder = some e0) :
    encStep I st x f =
      match I.enc e0 x f with
      | none => .error .unicode
      | some (b, e') => .ok (b, { st with encoder := some e' }) := by
  unfold encStep
  simp only [hd]
  try (cases I.enc e0 x f <;> rfl)

theorem encStep_explicit_wait (I : Inner) (st : EncSt I) (e x : Text) (f : Bool)
    (hd : st.encoder = none) (he : st.encoding = some e) (hfix : fixEncoding (st.buf ++ x) e f = none) :
    encStep I st x f = .ok ([], { st with buf := st.buf ++ x }) := by
  unfold encStep
  simp only [hd, he, hfix]

theorem encStep_explicit_go (I : Inner) (st : EncSt I) (e x t : Text) (f : Bool)
    (hd : st.encoder = none) (he : st.encoding = some e) (hfix : fixEncoding (st.buf ++ x) e f = some t) :
    encStep I st x f = encStart I e t f := by
  unfold encStep encStart
  simp only [hd, he, hfix]
  try rfl

theorem encStep_detect_wait (I : Inner) (st : EncSt I) (x : Text)
    (hd : st.encoder = none) (he : st.encoding = none) (hdet : (detectUnicode (st.buf ++ x) false).1 = none) :
    encStep I st x false = .ok ([], { st with buf := st.buf ++ x }) := by
  unfold encStep
  simp only [hd, he, hdet, Bool.false_eq_true, if_false]
  try (cases st; simp_all)

theorem encStep_detect_go (I : Inner) (st : EncSt I) (e x : Text) (f : Bool)
    (hd : st.encoder = none) (he : st.encoding = none) (hdet : (detectUnicode (st.buf ++ x) f).1 = some e) :
    encStep I st x f = encStart I e (st.buf ++ x) f := by
  unfold encStep encStart
  simp only [hd, he, hdet]
  try rfl

theorem encStep_detect_final (I : Inner) (st : EncSt I) (x : Text)
    (hd : st.encoder = none) (he : st.encoding = none) (hdet : (detectUnicode (st.buf ++ x) true).1 = none) :
    encStep I st x true = encStart I utf8 (st.buf ++ x) true := by
  unfold encStep encStart
  simp only [hd, he, hdet, if_true]
  try rfl

/-- two steps in a row, outputs concatenated -/
def twoEncSteps (I : Inner) (st : EncSt I) (a b : Text) (f : Bool) : Except CErr (Bytes × EncSt I) :=
  match encStep I st a false with
  | .error e => .error e
  | .ok (o1, st1) =>
    match encStep I st1 b f with
    | .error e => .error e
    | .ok (o2, st2) => .ok (o1 ++ o2, st2)

/-- starting the inner encoder on `t` and then feeding `b` = starting it on `t ++ b`, when the
second fix of `t` (done for `utf-8-sig` only) is already decided -/
theorem encStart_merge (I : Inner) (law : EncLaw I) (e t b : Text) (f : Bool)
    (hfx : isUtf8Sig e = true → (fixEncoding t utf8 false).isSome = true) :
    (match encStart I e t false with
     | .error err => (.error err : Except CErr (Bytes × EncSt I))
     | .ok (o1, s1) =>
       match encStep I s1 b f with
       | .error err => .error err
       | .ok (o2, s2) => .ok (o1 ++ o2, s2)) = encStart I e (t ++ b) f := by
  unfold encStart
  by_cases hcss : (isCss e) = true
  · simp only [hcss, if_true]
  · have hcss' : (isCss e) = false := bool_false_of_not_true hcss
    simp only [hcss', Bool.false_eq_true, if_false]
    by_cases hk : I.known e = true
    · simp only [hk, Bool.not_true, Bool.false_eq_true, if_false]
      -- the text handed to the inner encoder
      have hT : ∃ T, (if isUtf8Sig e = true then (fixEncoding t utf8 true).getD t else t) = T ∧
          (if isUtf8Sig e = true then (fixEncoding (t ++ b) utf8 true).getD (t ++ b) else t ++ b) = T ++ b := by
        by_cases hs : isUtf8Sig e = true
        · simp only [hs, if_true]
          cases hfix : fixEncoding t utf8 false with
          | none => have := hfx hs; rw [hfix] at this; cases this
          | some t2 =>
            have h1 := fix_stable t [] utf8 true t2 hfix
            have h2 := fix_stable t b utf8 true t2 hfix
            rw [List.append_nil] at h1
            rw [h1, h2]
            exact ⟨t2, by simp, by simp⟩
        · have hs' : isUtf8Sig e = false := bool_false_of_not_true hs
          simp only [hs', Bool.false_eq_true, if_false]
          exact ⟨t, rfl, rfl⟩
      obtain ⟨T, hT1, hT2⟩ := hT
      simp only [hT1, hT2]
      cases h1 : I.enc (I.einit e) T false with
      | none => simp only [law.fail _ T b f h1]
      | some r =>
        obtain ⟨o1, e1⟩ := r
        simp only [law.split _ T b f o1 e1 h1]
        rw [encStep_running I { encoder := some e1, encoding := some e, buf := [] } e1 b f rfl]
        cases h2 : I.enc e1 b f with
        | none => rfl
        | some r2 => rfl
    · have hk' : I.known e = false := bool_false_of_not_true hk
      simp only [hk', Bool.not_false, if_true]

/-- **two chunks = one chunk**, from any state of the encoder -/
theorem twoEncSteps_eq (I : Inner) (law : EncLaw I) (st : EncSt I) (a b : Text) (f : Bool) :
    twoEncSteps I st a b f = encStep I st (a ++ b) f := by
  unfold twoEncSteps
  cases hd : st.encoder with
  | some e0 =>
    rw [encStep_running I st e0 a false hd, encStep_running I st e0 (a ++ b) f hd]
    cases h1 : I.enc e0 a false with
    | none => simp only [law.fail _ a b f h1]
    | some r =>
      obtain ⟨o1, e1⟩ := r
      simp only [law.split _ a b f o1 e1 h1]
      rw [encStep_running I { st with encoder := some e1 } e1 b f rfl]
      cases h2 : I.enc e1 b f with
      | none => rfl
      | some r2 => rfl
  | none =>
    cases he : st.encoding with
    | some e =>
      cases hfix : fixEncoding (st.buf ++ a) e false with
      | none =>
        rw [encStep_explicit_wait I st e a false hd he hfix]
        simp only [List.nil_append]
        have h2 : encStep I { st with buf := st.buf ++ a } b f = encStep I st (a ++ b) f := by
          unfold encStep
          simp only [hd, he, List.append_assoc]
          try (cases fixEncoding (st.buf ++ (a ++ b)) e f <;> rfl)
        rw [h2]
        cases encStep I st (a ++ b) f with
        | error err => rfl
        | ok r => rfl
      | some t =>
        have hst := fix_stable (st.buf ++ a) b e f t hfix
        rw [List.append_assoc] at hst
        rw [encStep_explicit_go I st e a t false hd he hfix,
          encStep_explicit_go I st e (a ++ b) (t ++ b) f hd he hst]
        exact encStart_merge I law e t b f (fun _ => fix_decided _ e utf8 t hfix)
    | none =>
      cases hdet : (detectUnicode (st.buf ++ a) false).1 with
      | none =>
        rw [encStep_detect_wait I st a hd he hdet]
        simp only [List.nil_append]
        have h2 : encStep I { st with buf := st.buf ++ a } b f = encStep I st (a ++ b) f := by
          unfold encStep
          simp only [hd, he, List.append_assoc]
          try (cases (detectUnicode (st.buf ++ (a ++ b)) f).1 with
          | some e => rfl
          | none => cases f <;> rfl)
        rw [h2]
        cases encStep I st (a ++ b) f with
        | error err => rfl
        | ok r => rfl
      | some e =>
        have hx : detectUnicode (st.buf ++ a) false = (some e, (detectUnicode (st.buf ++ a) false).2) :=
          Prod.ext hdet rfl
        have hst := detectU_stable (st.buf ++ a) b f e _ hx
        rw [List.append_assoc] at hst
        have hdet2 : (detectUnicode (st.buf ++ (a ++ b)) f).1 = some e := by rw [hst]
        rw [encStep_detect_go I st e a false hd he hdet, encStep_detect_go I st e (a ++ b) f hd he hdet2,
          ← List.append_assoc]
        exact encStart_merge I law e (st.buf ++ a) b f (fun _ => detectU_fix _ e utf8 _ hx)

/-- **any chunking = one final call on the whole text** -/
theorem encFeed_eq (I : Inner) (law : EncLaw I) :
    ∀ (cs : List Text) (st : EncSt I), encFeed I st cs = encStep I st cs.flatten true := by
  intro cs
  induction cs with
  | nil => intro st; rfl
  | cons c cs ih =>
    intro st
    have h2 := twoEncSteps_eq I law st c cs.flatten true
    simp only [List.flatten_cons]
    rw [← h2]
    unfold twoEncSteps encFeed
    cases encStep I st c false with
    | error e => rfl
    | ok r =>
      obtain ⟨o, st'⟩ := r
      simp only
      rw [ih st']
      cases encStep I st' cs.flatten true <;> rfl

/-- the tail of the one-shot `encode`, once the encoding and the text are settled -/
theorem encStart_oneshot (I : Inner) (e t : Text) :
    (encStart I e t true).map (·.1) =
      (if isCss e then .error .value
       else if !I.known e then .error .lookup
       else match I.encodeAll e (if isUtf8Sig e then (fixEncoding t utf8 true).getD t else t) with
         | none => .error .unicode | some b => .ok b) := by
  unfold encStart Inner.encodeAll
  by_cases hcss : (isCss e) = true
  · simp only [hcss, if_true]; rfl
  · have hcss' : (isCss e) = false := bool_false_of_not_true hcss
    simp only [hcss', Bool.false_eq_true, if_false]
    by_cases hk : I.known e = true
    · simp only [hk, Bool.not_true, Bool.false_eq_true, if_false]
      cases I.enc (I.einit e) (if isUtf8Sig e = true then (fixEncoding t utf8 true).getD t else t) true with
      | none => rfl
      | some r => rfl
    · have hk' : I.known e = false := bool_false_of_not_true hk
      simp only [hk', Bool.not_false, if_true]; rfl

/-- the one-shot function is the incremental encoder fed everything at once -/
theorem encStep_oneshot (I : Inner) (all : Text) (enc : Option Text) :
    (encStep I (encInit I enc) all true).map (·.1) = encode I all enc := by
  cases enc with
  | some e =>
    have hfin := fix_final all e
    cases hfix : fixEncoding all e true with
    | none => rw [hfix] at hfin; cases hfin
    | some t =>
      rw [encStep_explicit_go I (encInit I (some e)) e all t true rfl rfl (by simpa [encInit] using hfix),
        encStart_oneshot I e t]
      have hT : (if isUtf8Sig e = true then (fixEncoding t utf8 true).getD t else t) = t := by
        by_cases hs : isUtf8Sig e = true
        · simp [hs, fix_sig_idem all e t true hfix hs]
        · simp [hs]
      unfold encode
      simp only [hfix, Option.getD_some, hT]
      try rfl
  | none =>
    unfold encode
    cases hdet : (detectUnicode all true).1 with
    | some e =>
      rw [encStep_detect_go I (encInit I none) e all true rfl rfl (by simpa [encInit] using hdet),
        encStart_oneshot I e]
      simp only [Option.getD_some, encInit, List.nil_append]
      try rfl
    | none =>
      rw [encStep_detect_final I (encInit I none) all rfl rfl (by simpa [encInit] using hdet),
        encStart_oneshot I utf8]
      simp only [Option.getD_none, encInit, List.nil_append]
      try rfl

/-! ### the inverse: encode, then decode with the same explicit encoding -/

/-- what `encode` with an explicit encoding hands to the inner codec is a fixed point of the rewrite -/
theorem fix_getD_idem (t e : Text) (hq : ∀ c ∈ written e, c ≠ 34) :
    fixEncoding ((fixEncoding t e true).getD t) e true = some ((fixEncoding t e true).getD t) := by
  have hfin := fix_final t e
  cases hfix : fixEncoding t e true with
  | none => rw [hfix] at hfin; cases hfin
  | some t1 =>
    simp only [Option.getD_some]
    exact fix_idem t e e t1 true hfix hq rfl

/-- **encode then decode**: if the inner codec round-trips, then decoding what `encode` produced,
with the same explicit encoding, returns the text up to the `@charset` rewrite -/
theorem encode_decode (I : Inner)
    (rt : ∀ (e t : Text) (b : Bytes), I.known e = true → I.encodeAll e t = some b → I.decodeAll e b = some t)
    (t e : Text) (b : Bytes) (hq : ∀ c ∈ written e, c ≠ 34)
    (h : encode I t (some e) = .ok b) :
    decode I b (some e) true = .ok ((fixEncoding t e true).getD t) := by
  unfold encode at h
  simp only at h
  by_cases hcss : (isCss e) = true
  · simp [hcss] at h
  · have hcss' : (isCss e) = false := bool_false_of_not_true hcss
    simp only [hcss', Bool.false_eq_true, if_false] at h
    by_cases hk : I.known e = true
    · simp only [hk, Bool.not_true, Bool.false_eq_true, if_false] at h
      cases henc : I.encodeAll e ((fixEncoding t e true).getD t) with
      | none => simp [henc] at h
      | some b' =>
        simp only [henc] at h
        have hb : b' = b := Except.ok.inj h
        subst hb
        have hdec := rt e _ b' hk henc
        unfold decode decodeWith
        simp only [Option.isNone_some, Bool.not_true, Bool.or_self, Bool.false_and, Bool.false_eq_true,
          if_false, hk, hdec, fix_getD_idem t e hq, Option.getD_some]
    · have hk' : I.known e = false := bool_false_of_not_true hk
      simp [hk'] at h

/-! ### the identity inner codec (for counterexamples and non-vacuity) -/

/-- every name is known, text and bytes are the same numbers, no state -/
def idInner : Inner where
  D := Unit
  E := Unit
  known := fun _ => true
  dinit := fun _ => ()
  dec := fun _ b _ => some (b, ())
  einit := fun _ => ()
  enc := fun _ t _ => some (t, ())

theorem idInner_encLaw : EncLaw idInner where
  split := by
    intro e a b f o1 e1 h
    have : a = o1 := congrArg Prod.fst (Option.some.inj h)
    subst this
    rfl
  fail := by intro e a b f h; cases h

theorem idInner_decLaw : DecLaw idInner where
  split := by
    intro e a b f o1 e1 h
    have : a = o1 := congrArg Prod.fst (Option.some.inj h)
    subst this
    rfl
  fail := by intro e a b f h; cases h

theorem idInner_roundtrip (e t : Text) (b : Bytes) (_ : idInner.known e = true)
    (h : idInner.encodeAll e t = some b) : idInner.decodeAll e b = some t := by
  have : t = b := Option.some.inj h
  subst this
  rfl

end CssVerif.Codec
