/-
Namespace facts for C15: prefix resolution in the selector state machine, the `namespaces` view of the
sheet model, the serialiser's URI → prefix choice and its round trip.
-/
import CssVerif.Model.Selector
import CssVerif.Model.SelectorAst
import CssVerif.Model.Sheet
namespace CssVerif.Selector

/-! ### prefix resolution inside `append` -/

/-- what `append` stores for a namespaced item with saved prefix `q` (`none` = undeclared prefix) -/
def resolveO (m : NsMap) : Option Text → Option Ns
  | none => some (defaultNs m)
  | some p => if p == str "*" then some .any else if p == [] then some .empty else (nsGet m p).map .uri

theorem count_wf (st : St) (t : IT) (n : Text) (b : Bool) : (count st t n b).wellformed = st.wellformed := by
  simp only [count]; repeat' split
  all_goals rfl

theorem count_err (st : St) (t : IT) (n : Text) (b : Bool) : (count st t n b).firstErr = st.firstErr := by
  simp only [count]; repeat' split
  all_goals rfl

theorem count_items (st : St) (t : IT) (n : Text) (b : Bool) : (count st t n b).items = st.items := by
  simp only [count]; repeat' split
  all_goals rfl

/-- a type selector (also inside `:not()`) with saved prefix `q`: the item carries the URI the prefix
denotes in `m` — or the selector is rejected with NamespaceErr when the prefix is not declared -/
theorem append_type (m : NsMap) (st : St) (val : Text) (typ : IT) (q : Option Text)
    (hq : st.pfx = q) (ht : typ = .typesel ∨ typ = .negtypesel) :
    match resolveO m q with
    | some ns => (append m st val typ).items = ⟨typ, val, some ns⟩ :: st.items ∧
        (append m st val typ).wellformed = st.wellformed
    | none => (append m st val typ).wellformed = false ∧ (append m st val typ).items = st.items ∧
        (append m st val typ).firstErr = (if st.firstErr == "" then "NamespaceErr" else st.firstErr) := by
  rcases ht with rfl | rfl <;> cases q with
  | none => simp [resolveO, append, hq, IT.isSelector, count_items, count_wf]
  | some p =>
    simp only [resolveO]
    by_cases h1 : p = str "*"
    · simp [append, hq, IT.isSelector, h1, count_items, count_wf]
    · by_cases h2 : p = []
      · simp [append, hq, IT.isSelector, h2, count_items, count_wf, show ¬ ([] : Text) = str "*" by decide,
          show ¬ str "*" = ([] : Text) by decide]
      · cases h3 : nsGet m p with
        | none => simp [append, hq, IT.isSelector, h1, h2, h3, failWith]
        | some u => simp [append, hq, IT.isSelector, h1, h2, h3, count_items, count_wf]

/-- the attribute name: not namespaced without a prefix or with the empty prefix -/
theorem append_attr (m : NsMap) (st : St) (val : Text) (q : Option Text) (hq : st.pfx = q) :
    match q with
    | none => (append m st val .attrsel).items = ⟨.attrsel, val, none⟩ :: st.items
    | some p =>
      if p = [] then (append m st val .attrsel).items = ⟨.attrsel, val, none⟩ :: st.items
      else match resolveO m (some p) with
        | some ns => (append m st val .attrsel).items = ⟨.attrsel, val, some ns⟩ :: st.items
        | none => (append m st val .attrsel).wellformed = false := by
  cases q with
  | none => simp [append, hq, IT.isSelector, count_items]
  | some p =>
    by_cases h2 : p = []
    · simp [append, hq, IT.isSelector, h2, count_items]
    · simp only [h2, if_false, resolveO]
      by_cases h1 : p = str "*"
      · simp [append, hq, IT.isSelector, h1, count_items, show ¬ str "*" = ([] : Text) by decide]
      · cases h3 : nsGet m p with
        | none => simp [append, hq, IT.isSelector, h1, h2, h3, failWith]
        | some u => simp [append, hq, IT.isSelector, h1, h2, h3, count_items]

/-! ### a rejection is final -/

theorem fin_wf (st' : St) (typ : IT) (name : Text) (res : Option (Option Ns)) :
    (match res with
      | none => failWith st' "NamespaceErr"
      | some ns => { count st' typ name ns.isSome with
          items := ⟨typ, name, ns⟩ :: (count st' typ name ns.isSome).items }).wellformed = true →
    st'.wellformed = true := by
  cases res with
  | none => simp [failWith]
  | some ns => simp [count_wf]

theorem append_wf (m : NsMap) (st : St) (v : Text) (t : IT) :
    (append m st v t).wellformed = true → st.wellformed = true := by
  intro h
  have h2 := fin_wf _ _ _ _ h
  cases hp : st.pfx with
  | none =>
    simp only [hp] at h2
    split at h2 <;> exact h2
  | some p => simpa [hp] using h2


theorem ret_wf (st : St) (e : Text) : (ret st e).wellformed = st.wellformed := rfl

theorem ite_prop {α : Type} (P : α → Prop) {c : Prop} [Decidable c] {a b : α} (ha : P a) (hb : P b) :
    P (if c then a else b) := by split <;> assumption

theorem stepChar_wf (m : NsMap) (st : St) (v : Text) :
    (stepChar m st v).wellformed = true → st.wellformed = true := by
  simp only [stepChar]
  cases hi : st.items <;> simp only []
  all_goals repeat' with_reducible refine ite_prop (fun s : St => s.wellformed = true → st.wellformed = true) ?_ ?_
  all_goals intro h
  all_goals first
    | exact h
    | exact append_wf _ _ _ _ h
    | (simp only [ret] at h; exact append_wf _ _ _ _ h)
    | (simp [ret, fail, failWith] at h; done)
    | (simpa [ret] using h)

theorem step_wf (T : Tables) (m : NsMap) (st : St) (t : T2) :
    (step T m st t).wellformed = true → st.wellformed = true := by
  simp only [step]
  cases hi : st.items <;> cases t.1 <;> simp only []
  all_goals repeat' with_reducible refine ite_prop (fun s : St => s.wellformed = true → st.wellformed = true) ?_ ?_
  all_goals intro h
  all_goals first
    | exact h
    | exact stepChar_wf _ _ _ h
    | exact append_wf _ _ _ _ h
    | (simp only [ret] at h; exact append_wf _ _ _ _ h)
    | (simp only [ret] at h; have h' := append_wf _ _ _ _ h; simpa using h')
    | (simp [ret, fail, failWith, savePrefix] at h; done)
    | (simpa [ret, savePrefix] using h)

/-- once an error was logged the selector stays rejected, whatever follows -/
theorem run_wf (T : Tables) (m : NsMap) (toks : List T2) (st : St) :
    (toks.foldl (step T m) st).wellformed = true → st.wellformed = true := by
  induction toks generalizing st with
  | nil => exact id
  | cons t ts ih => intro h; exact step_wf T m st t (ih _ h)

theorem finish_wf (st : St) : (finish st).wellformed = true → st.wellformed = true := by
  simp only [finish]; intro h; simp only [Bool.and_eq_true] at h; exact h.1.1.1

end CssVerif.Selector

namespace CssVerif.Sheet

/-! ### the `namespaces` view -/

def viewStep (d : List (Nat × Nat)) (r : Rule) : List (Nat × Nat) :=
  if dictHasVal d r.u || dictHasKey d r.p then d else d ++ [(r.p, r.u)]

theorem view_eq (s : Sheet) : view s = (s.filter (isKind .namespace)).reverse.foldl viewStep [] := rfl

/-- prefixes pairwise distinct and URIs pairwise distinct: a bijection prefix ↔ URI -/
def DictOK (d : List (Nat × Nat)) : Prop := (d.map (·.1)).Nodup ∧ (d.map (·.2)).Nodup

theorem hasKey_iff (d : List (Nat × Nat)) (k : Nat) : dictHasKey d k = true ↔ k ∈ d.map (·.1) := by
  simp [dictHasKey]

theorem hasVal_iff (d : List (Nat × Nat)) (v : Nat) : dictHasVal d v = true ↔ v ∈ d.map (·.2) := by
  simp [dictHasVal]

theorem viewStep_ok (d : List (Nat × Nat)) (r : Rule) (h : DictOK d) : DictOK (viewStep d r) := by
  unfold viewStep
  split
  · exact h
  · rename_i hc
    simp only [Bool.or_eq_true, not_or] at hc
    have hk : r.p ∉ d.map (·.1) := fun hh => hc.2 ((hasKey_iff d r.p).2 hh)
    have hv : r.u ∉ d.map (·.2) := fun hh => hc.1 ((hasVal_iff d r.u).2 hh)
    constructor
    · rw [List.map_append, List.nodup_append]
      exact ⟨h.1, by simp, by intro a ha b hb; simp at hb; subst hb; intro hab; exact hk (hab ▸ ha)⟩
    · rw [List.map_append, List.nodup_append]
      exact ⟨h.2, by simp, by intro a ha b hb; simp at hb; subst hb; intro hab; exact hv (hab ▸ ha)⟩

theorem foldl_ok (l : List Rule) (d : List (Nat × Nat)) (h : DictOK d) : DictOK (l.foldl viewStep d) := by
  induction l generalizing d with
  | nil => exact h
  | cons r l ih => exact ih _ (viewStep_ok d r h)

/-- `sheet.namespaces` never binds a prefix twice and never gives one URI two prefixes -/
theorem view_ok (s : Sheet) : DictOK (view s) := foldl_ok _ _ ⟨List.nodup_nil, List.nodup_nil⟩

theorem viewStep_mono (d : List (Nat × Nat)) (r : Rule) (x : Nat × Nat) (h : x ∈ d) : x ∈ viewStep d r := by
  unfold viewStep; split
  · exact h
  · exact List.mem_append_left _ h

theorem foldl_mono (l : List Rule) (d : List (Nat × Nat)) (x : Nat × Nat) (h : x ∈ d) : x ∈ l.foldl viewStep d := by
  induction l generalizing d with
  | nil => exact h
  | cons r l ih => exact ih _ (viewStep_mono d r x h)

theorem foldl_sound (l : List Rule) (d : List (Nat × Nat)) (x : Nat × Nat) (h : x ∈ l.foldl viewStep d) :
    x ∈ d ∨ ∃ r ∈ l, (r.p, r.u) = x := by
  induction l generalizing d with
  | nil => exact Or.inl h
  | cons r l ih =>
    rcases ih _ h with h1 | ⟨r', hr', he⟩
    · unfold viewStep at h1
      split at h1
      · exact Or.inl h1
      · rcases List.mem_append.1 h1 with h2 | h2
        · exact Or.inl h2
        · simp at h2; exact Or.inr ⟨r, List.mem_cons_self .., h2.symm⟩
    · exact Or.inr ⟨r', List.mem_cons_of_mem _ hr', he⟩

/-- every entry of the mapping is the (prefix, URI) of some @namespace rule of the sheet -/
theorem view_sound (s : Sheet) (p u : Nat) (h : (p, u) ∈ view s) :
    ∃ r ∈ s, r.kind = .namespace ∧ r.p = p ∧ r.u = u := by
  rcases foldl_sound _ _ _ h with h | ⟨r, hr, he⟩
  · cases h
  · simp only [List.mem_reverse, List.mem_filter, isKind, decide_eq_true_eq] at hr
    cases he
    exact ⟨r, hr.1, hr.2, rfl, rfl⟩

theorem foldl_covers (l : List Rule) (d : List (Nat × Nat)) (r : Rule) (hr : r ∈ l) :
    dictHasKey (l.foldl viewStep d) r.p = true ∨ dictHasVal (l.foldl viewStep d) r.u = true := by
  induction l generalizing d with
  | nil => cases hr
  | cons x l ih =>
    rcases List.mem_cons.1 hr with rfl | h
    · -- after this step the prefix is bound or the URI is a value, and that is monotone
      have hstep : dictHasKey (viewStep d r) r.p = true ∨ dictHasVal (viewStep d r) r.u = true := by
        unfold viewStep
        split
        · rename_i hc
          simp only [Bool.or_eq_true] at hc
          exact hc.symm
        · left
          rw [hasKey_iff]; simp
      rcases hstep with h1 | h1
      · left
        rw [hasKey_iff] at h1 ⊢
        obtain ⟨x, hx, hxe⟩ := List.mem_map.1 h1
        exact List.mem_map.2 ⟨x, foldl_mono l _ x hx, hxe⟩
      · right
        rw [hasVal_iff] at h1 ⊢
        obtain ⟨x, hx, hxe⟩ := List.mem_map.1 h1
        exact List.mem_map.2 ⟨x, foldl_mono l _ x hx, hxe⟩
    · exact ih _ h

/-- every @namespace rule is accounted for: its prefix is bound, or its URI has a prefix -/
theorem view_covers (s : Sheet) (r : Rule) (hr : r ∈ s) (hk : r.kind = .namespace) :
    dictHasKey (view s) r.p = true ∨ dictHasVal (view s) r.u = true :=
  foldl_covers _ _ r (by simp [List.mem_filter, isKind, hr, hk])

/-- later rules win: the last @namespace rule is always effective -/
theorem view_last (s : Sheet) (r : Rule) (pre : List Rule)
    (h : s.filter (isKind .namespace) = pre ++ [r]) : (r.p, r.u) ∈ view s := by
  rw [view_eq, h, List.reverse_append, List.reverse_singleton, List.singleton_append, List.foldl_cons]
  apply foldl_mono
  simp [viewStep, dictHasVal, dictHasKey]

/-! ### URI → prefix at serialisation time, prefix → URI at parse time -/

theorem dictGet_of_mem (d : List (Nat × Nat)) (p u : Nat) (hk : (d.map (·.1)).Nodup) (h : (p, u) ∈ d) :
    dictGet d p = some u := by
  induction d with
  | nil => cases h
  | cons x d ih =>
    simp only [List.map_cons, List.nodup_cons] at hk
    unfold dictGet
    rw [List.find?_cons]
    rcases List.mem_cons.1 h with rfl | h'
    · simp
    · have hne : x.1 ≠ p := by
        intro he
        exact hk.1 (List.mem_map.2 ⟨(p, u), h', he.symm⟩)
      simp only [hne, decide_false]
      exact ih hk.2 h'

/-- **prefix round trip**: the prefix the serialiser picks for a declared URI denotes that URI again -/
theorem prefix_roundtrip (d : List (Nat × Nat)) (h : DictOK d) (u : Nat) (hu : dictHasVal d u = true) :
    ∃ p, prefixFor d u = some p ∧ dictGet d p = some u := by
  rw [hasVal_iff] at hu
  obtain ⟨x, hx, hxe⟩ := List.mem_map.1 hu
  have hfind : (d.find? (·.2 = u)).isSome := by
    rw [List.find?_isSome]; exact ⟨x, hx, by simpa using hxe⟩
  obtain ⟨y, hy⟩ := Option.isSome_iff_exists.1 hfind
  have hyu : y.2 = u := by simpa using List.find?_some hy
  have hym : y ∈ d := List.mem_of_find?_eq_some hy
  refine ⟨y.1, by simp [prefixFor, hy], ?_⟩
  have : (y.1, u) ∈ d := by rw [← hyu]; exact hym
  exact dictGet_of_mem d y.1 u h.1 this

end CssVerif.Sheet

namespace CssVerif.Sheet

/-! ### namespace operations never touch a selector -/

def isStyled (r : Rule) : Bool := r.kind = .style || r.kind = .media

/-- the rules that carry selectors (with the namespace URIs their selectors are bound to) -/
def styles (s : Sheet) : Sheet := s.filter isStyled

theorem styles_insertAt (s : Sheet) (i : Nat) (r : Rule) (h : isStyled r = false) :
    styles (insertAt s i r) = styles s := by
  simp only [styles, insertAt, List.filter_append, List.filter_cons, h, Bool.false_eq_true, if_false]
  rw [← List.filter_append, List.take_append_drop]

theorem styles_eraseIdx (s : Sheet) (i : Nat) (r : Rule) (hi : s[i]? = some r) (h : isStyled r = false) :
    styles (s.eraseIdx i) = styles s := by
  induction s generalizing i with
  | nil => rfl
  | cons x s ih =>
    cases i with
    | zero =>
      simp only [List.getElem?_cons_zero, Option.some.injEq] at hi
      subst hi
      simp [styles, List.filter_cons, h]
    | succ i =>
      simp only [List.getElem?_cons_succ] at hi
      simp only [List.eraseIdx_cons_succ, styles, List.filter_cons]
      have := ih i hi
      simp only [styles] at this
      rw [this]

theorem styles_deleteRule_ns (s : Sheet) (i : Nat) (r : Rule) (hi : s[i]? = some r) (h : isStyled r = false) :
    styles (deleteRule s i).1 = styles s := by
  have hlt : i < s.length := by
    rcases Nat.lt_or_ge i s.length with h | h
    · exact h
    · rw [List.getElem?_eq_none h] at hi; cases hi
  have hpi : pyIndex s.length (i : Int) = some i := by
    simp [pyIndex, hlt]
  simp only [deleteRule, hpi, hi]
  split
  · rfl
  · exact styles_eraseIdx s i r hi h

theorem styles_cleanLoop (items : List (Nat × Nat)) (fuel : Nat) (s : Sheet) (i : Nat) :
    styles (cleanLoop items fuel s i).1 = styles s := by
  induction fuel generalizing s i with
  | zero => rfl
  | succ fuel ih =>
    simp only [cleanLoop]
    cases hi : s[i]? with
    | none => rfl
    | some r =>
      simp only []
      split
      · rename_i hc
        simp only [Bool.and_eq_true, decide_eq_true_eq] at hc
        have hr : isStyled r = false := by simp [isStyled, hc.1]
        have hd := styles_deleteRule_ns s i r hi hr
        generalize hdr : deleteRule s (i : Int) = dr at hd ⊢
        obtain ⟨s', res⟩ := dr
        cases res with
        | raised e => exact hd
        | ok k => simp only []; rw [ih]; exact hd
        | none => simp only []; rw [ih]; exact hd
      · exact ih s (i + 1)

theorem styles_clean (s : Sheet) : styles (cleanNamespaces s).1 = styles s := styles_cleanLoop _ _ _ _

/-- inserting an @namespace rule (at an index, in order, accepted or refused) leaves every rule that
carries selectors — and so every selector's (URI, name) pairs — as it was -/
theorem styles_insert_ns (fx : Bool) (s : Sheet) (r : Rule) (idx : Option Nat) (io : Bool)
    (hk : r.kind = .namespace) : styles (insertRule fx s r idx io).1 = styles s := by
  have hr : isStyled r = false := by simp [isStyled, hk]
  simp only [insertRule, hk]
  split
  · rfl
  · split
    · rfl
    · split
      · rfl
      · simp only [if_true]
        rename_i place _ _
        have h2 := styles_clean (insertAt s place r)
        generalize hcn : cleanNamespaces (insertAt s place r) = cn at h2 ⊢
        obtain ⟨s'', e⟩ := cn
        cases e with
        | some e => rfl
        | none => show styles s'' = styles s; rw [h2, styles_insertAt s place r hr]

/-- `namespaces[p] = u` -/
theorem styles_nsSet (fx : Bool) (s : Sheet) (p u : Nat) : styles (nsSet fx s p u).1 = styles s := by
  simp only [nsSet]
  split
  · have h := styles_insert_ns fx s { kind := .namespace, p := p, u := u } none true rfl
    generalize insertRule fx s { kind := .namespace, p := p, u := u } none true = x at h ⊢
    obtain ⟨s', res⟩ := x
    cases res <;> exact h
  · split
    · rfl
    · split <;> rfl

end CssVerif.Sheet

namespace CssVerif.Sheet

/-! ### serialise → re-parse keeps the pair -/

/-- pairs the serialiser can express: a declared URI (for an attribute: one that has a prefix other than
the default namespace), `*|`, `|`, or no namespace while no default namespace is declared -/
def Expressible (d : List (Nat × Nat)) (attr : Bool) : NsV → Prop
  | .uri u => dictHasVal d u = true ∧ (attr = true → dictGet d 0 ≠ some u)
  | .none => attr = false ∧ dictGet d 0 = none
  | .any => True
  | .empty => attr = false

theorem dictGet_some_mem (d : List (Nat × Nat)) (p u : Nat) (h : dictGet d p = some u) : (p, u) ∈ d := by
  unfold dictGet at h
  cases hf : d.find? (·.1 = p) with
  | none => simp [hf] at h
  | some x =>
    simp only [hf, Option.map_some, Option.some.injEq] at h
    have h1 : x.1 = p := by simpa using List.find?_some hf
    have h2 := List.mem_of_find?_eq_some hf
    rw [← h1, ← h]; exact h2

theorem reparse_pair (d : List (Nat × Nat)) (hok : DictOK d) (attr : Bool) (ns : NsV)
    (he : Expressible d attr ns) : resolveForm d attr (serForm d ns) = some ns := by
  cases ns with
  | any => simp [serForm, resolveForm]
  | empty =>
    simp only [Expressible] at he
    simp [serForm, resolveForm, he]
  | none =>
    simp only [Expressible] at he
    simp [serForm, resolveForm, he.1, he.2]
  | uri u =>
    simp only [Expressible] at he
    obtain ⟨p, hp, hg⟩ := prefix_roundtrip d hok u he.1
    cases hd : dictGet d 0 with
    | none =>
      have hp0 : p ≠ 0 := by intro h; rw [h, hd] at hg; cases hg
      simp [serForm, resolveForm, hd, hp, hp0, hg]
    | some v =>
      by_cases huv : u = v
      · subst huv
        cases attr with
        | true => exact absurd hd (he.2 rfl)
        | false => simp [serForm, resolveForm, hd]
      · have hp0 : p ≠ 0 := by intro h; rw [h, hd] at hg; cases hg; exact huv rfl
        simp [serForm, resolveForm, hd, huv, hp, hp0, hg]

/-- recorded finding 1: a selector parsed while no default namespace was declared holds `None`;
once a default namespace exists it is written `|name`, which re-parses as the empty namespace -/
theorem none_pair_counterexample :
    resolveForm [(0, 1)] false (serForm [(0, 1)] .none) = some .empty ∧ ¬ Expressible [(0, 1)] false .none := by
  refine ⟨by decide, ?_⟩
  simp only [Expressible]; decide

/-- recorded finding 2: an attribute bound to a URI whose only prefix is (now) the default namespace is
written without a prefix, which re-parses as not namespaced -/
theorem attr_default_counterexample :
    resolveForm [(0, 1)] true (serForm [(0, 1)] (.uri 1)) = some .none ∧ ¬ Expressible [(0, 1)] true (.uri 1) := by
  refine ⟨by decide, ?_⟩
  simp only [Expressible]; decide

/-! ### a namespace in use is protected -/

/-- deleting the only @namespace rule for a URI some selector is bound to is refused and changes nothing -/
theorem in_use_protected (s : Sheet) (i : Nat) (r : Rule) (hi : s[i]? = some r) (hk : r.kind = .namespace)
    (hu : (usedURIs s).contains r.u = true)
    (h1 : ((s.filter (isKind .namespace)).map (·.u)).count r.u = 1) :
    deleteRule s i = (s, .raised .noModification) := by
  have hlt : i < s.length := by
    rcases Nat.lt_or_ge i s.length with h | h
    · exact h
    · rw [List.getElem?_eq_none h] at hi; cases hi
  have hpi : pyIndex s.length (i : Int) = some i := by simp [pyIndex, hlt]
  have hu' : r.u ∈ usedURIs s := by simpa using hu
  simp [deleteRule, hpi, hi, hk, hu', h1]

end CssVerif.Sheet
