/-
C15, the reachable-state half: every URI a selector is bound to stays declared.

`UsedDeclared s`: every URI used by a selector of a style / @media rule of `s` is a value of the
`namespaces` view of `s`.  On its own it is *not* inductive (`deleteRule` can break it on a sheet that
holds an ineffective @namespace rule, see `usedDeclared_not_inductive`); together with `NsClean s`
(every @namespace rule of the sheet is effective, i.e. `sheet.namespaces` is exactly the set of
(prefix, URI) pairs of the @namespace rules) it is preserved by every operation of the sheet model.
-/
import CssVerif.Proofs.Namespaces
import CssVerif.Proofs.Sheet
namespace CssVerif.Sheet

/-! ### definitions -/

/-- every URI a selector of the sheet is bound to has a prefix in `sheet.namespaces` -/
def UsedDeclared (s : Sheet) : Prop := ∀ u ∈ usedURIs s, dictHasVal (view s) u = true

instance (s : Sheet) : Decidable (UsedDeclared s) := by unfold UsedDeclared; infer_instance

/-- every @namespace rule of the sheet is effective: its (prefix, URI) is an entry of `sheet.namespaces` -/
def NsClean (s : Sheet) : Prop := ∀ r ∈ s, r.kind = .namespace → (r.p, r.u) ∈ view s

instance (s : Sheet) : Decidable (NsClean s) := by unfold NsClean; infer_instance

/-- the @namespace rules agree with each other: same prefix ⇔ same URI (the proof device behind `NsClean`) -/
def NsConsistent (s : Sheet) : Prop :=
  ∀ r ∈ s, ∀ r' ∈ s, r.kind = .namespace → r'.kind = .namespace → (r.p = r'.p ↔ r.u = r'.u)

/-- every used URI is the URI of some @namespace rule (effective or not) -/
def HasDecl (s : Sheet) : Prop := ∀ u ∈ usedURIs s, ∃ r ∈ s, r.kind = .namespace ∧ r.u = u

/-- number of @namespace rules with URI `u` (the count `deleteRule` looks at) -/
def nsCount (s : Sheet) (u : Nat) : Nat := ((s.filter (isKind .namespace)).map (·.u)).count u

/-! ### small list facts -/

theorem split_at {α} (s : List α) (i : Nat) (r : α) (hi : s[i]? = some r) :
    ∃ A B, s = A ++ r :: B ∧ s.eraseIdx i = A ++ B ∧ A.length = i := by
  obtain ⟨hlt, hr⟩ := List.getElem?_eq_some_iff.1 hi
  refine ⟨s.take i, s.drop (i + 1), ?_, List.eraseIdx_eq_take_drop_succ s i, ?_⟩
  · rw [← hr, ← List.drop_eq_getElem_cons hlt, List.take_append_drop]
  · rw [List.length_take]; omega

theorem nodup_map_inj {α β} {f : α → β} {l : List α} (h : (l.map f).Nodup) {a b : α}
    (ha : a ∈ l) (hb : b ∈ l) (hf : f a = f b) : a = b := by
  induction l with
  | nil => cases ha
  | cons x l ih =>
    simp only [List.map_cons, List.nodup_cons] at h
    rcases List.mem_cons.1 ha with rfl | ha' <;> rcases List.mem_cons.1 hb with rfl | hb'
    · rfl
    · exact absurd (List.mem_map.2 ⟨b, hb', hf.symm⟩) h.1
    · exact absurd (List.mem_map.2 ⟨a, ha', hf⟩) h.1
    · exact ih h.2 ha' hb'

/-! ### used URIs -/

theorem usedURIs_eq (s : Sheet) : usedURIs s = (styles s).flatMap (·.used) := by
  induction s with
  | nil => rfl
  | cons x s ih =>
    simp only [usedURIs, List.flatMap_cons, styles, List.filter_cons] at ih ⊢
    by_cases hx : isStyled x = true
    · have hx' : (x.kind = .style ∨ x.kind = .media) := by simpa [isStyled] using hx
      simp only [hx, if_true, List.flatMap_cons, ih]
      simp [hx']
    · have hx' : ¬ (x.kind = .style ∨ x.kind = .media) := by simpa [isStyled] using hx
      simp only [hx, ih]
      simp [hx']

theorem mem_usedURIs {s : Sheet} {u : Nat} :
    u ∈ usedURIs s ↔ ∃ r ∈ s, isStyled r = true ∧ u ∈ r.used := by
  rw [usedURIs_eq, List.mem_flatMap]
  constructor
  · rintro ⟨r, hr, hu⟩
    simp only [styles, List.mem_filter] at hr
    exact ⟨r, hr.1, hr.2, hu⟩
  · rintro ⟨r, hr, hs, hu⟩
    exact ⟨r, by simp [styles, List.mem_filter, hr, hs], hu⟩

theorem usedURIs_of_styles {s s' : Sheet} (h : styles s' = styles s) : usedURIs s' = usedURIs s := by
  rw [usedURIs_eq, usedURIs_eq, h]

theorem usedURIs_subset {s s' : Sheet} (h : ∀ x ∈ s', x ∈ s) {u : Nat} (hu : u ∈ usedURIs s') :
    u ∈ usedURIs s := by
  obtain ⟨r, hr, hs, hu⟩ := mem_usedURIs.1 hu
  exact mem_usedURIs.2 ⟨r, h r hr, hs, hu⟩

/-! ### the view only reads the @namespace rules -/

theorem view_of_filter {s s' : Sheet}
    (h : s'.filter (isKind .namespace) = s.filter (isKind .namespace)) : view s' = view s := by
  rw [view_eq, view_eq, h]

theorem viewStep_skip (d : List (Nat × Nat)) (r : Rule) (l : List Rule)
    (h : (r.p, r.u) ∉ l.foldl viewStep (viewStep d r)) : viewStep d r = d := by
  unfold viewStep at h ⊢
  split
  · rfl
  · rename_i hc
    simp only [hc] at h
    exact absurd (foldl_mono l _ _ (List.mem_append_right _ (List.mem_singleton.2 rfl))) h

/-- dropping a rule that is not an effective @namespace rule does not change `sheet.namespaces` -/
theorem view_drop (A B : Sheet) (r : Rule)
    (h : r.kind = .namespace → (r.p, r.u) ∉ view (A ++ r :: B)) : view (A ++ B) = view (A ++ r :: B) := by
  by_cases hk : r.kind = .namespace
  · have h := h hk
    have hk' : isKind .namespace r = true := by simp [isKind, hk]
    rw [view_eq] at h ⊢
    rw [view_eq]
    simp only [List.filter_append, List.filter_cons, hk', if_true, List.reverse_append, List.reverse_cons,
      List.foldl_append, List.foldl_cons, List.append_assoc, List.singleton_append] at h ⊢
    rw [viewStep_skip _ r _ h]
  · apply view_of_filter
    have hk' : isKind .namespace r = false := by simp [isKind, hk]
    simp [List.filter_append, hk']

/-! ### `NsClean` ⇔ `NsConsistent` -/

theorem foldl_clean (l : List Rule) (d : List (Nat × Nat))
    (hd : ∀ e ∈ d, ∀ r ∈ l, (e.1 = r.p ↔ e.2 = r.u))
    (hl : ∀ r ∈ l, ∀ r' ∈ l, (r.p = r'.p ↔ r.u = r'.u)) :
    ∀ r ∈ l, (r.p, r.u) ∈ l.foldl viewStep d := by
  induction l generalizing d with
  | nil => intro r hr; cases hr
  | cons x l ih =>
    have hx : (x.p, x.u) ∈ viewStep d x ∧ ∀ e ∈ viewStep d x, ∀ r ∈ l, (e.1 = r.p ↔ e.2 = r.u) := by
      unfold viewStep
      split
      · rename_i hc
        refine ⟨?_, fun e he r hr => hd e he r (List.mem_cons_of_mem _ hr)⟩
        simp only [Bool.or_eq_true, dictHasVal, dictHasKey, List.any_eq_true, decide_eq_true_eq] at hc
        rcases hc with ⟨e, he, h2⟩ | ⟨e, he, h1⟩
        · have h1 := (hd e he x List.mem_cons_self).2 h2
          have : e = (x.p, x.u) := Prod.ext h1 h2
          exact this ▸ he
        · have h2 := (hd e he x List.mem_cons_self).1 h1
          have : e = (x.p, x.u) := Prod.ext h1 h2
          exact this ▸ he
      · refine ⟨List.mem_append_right _ (List.mem_singleton.2 rfl), ?_⟩
        intro e he r hr
        rcases List.mem_append.1 he with he | he
        · exact hd e he r (List.mem_cons_of_mem _ hr)
        · rw [List.mem_singleton.1 he]
          exact hl x List.mem_cons_self r (List.mem_cons_of_mem _ hr)
    intro r hr
    rw [List.foldl_cons]
    rcases List.mem_cons.1 hr with rfl | hr'
    · exact foldl_mono l _ _ hx.1
    · exact ih _ hx.2 (fun a ha b hb => hl a (List.mem_cons_of_mem _ ha) b (List.mem_cons_of_mem _ hb)) r hr'

theorem clean_of_consistent {s : Sheet} (h : NsConsistent s) : NsClean s := by
  intro r hr hk
  rw [view_eq]
  have hmem : ∀ x, x ∈ (s.filter (isKind .namespace)).reverse ↔ x ∈ s ∧ x.kind = .namespace := by
    intro x; simp [List.mem_filter, isKind]
  apply foldl_clean
  · intro e he; cases he
  · intro a ha b hb
    exact h a ((hmem a).1 ha).1 b ((hmem b).1 hb).1 ((hmem a).1 ha).2 ((hmem b).1 hb).2
  · exact (hmem r).2 ⟨hr, hk⟩

theorem consistent_of_clean {s : Sheet} (h : NsClean s) : NsConsistent s := by
  intro r hr r' hr' hk hk'
  have h1 := h r hr hk
  have h2 := h r' hr' hk'
  have hok := view_ok s
  constructor
  · intro hp
    have := nodup_map_inj hok.1 h1 h2 hp
    exact congrArg Prod.snd this
  · intro hu
    have := nodup_map_inj hok.2 h1 h2 hu
    exact congrArg Prod.fst this

theorem consistent_subset {s s' : Sheet} (hsub : ∀ x ∈ s', x ∈ s) (h : NsConsistent s) : NsConsistent s' :=
  fun r hr r' hr' hk hk' => h r (hsub r hr) r' (hsub r' hr') hk hk'

theorem clean_subset {s s' : Sheet} (hsub : ∀ x ∈ s', x ∈ s) (h : NsClean s) : NsClean s' :=
  clean_of_consistent (consistent_subset hsub (consistent_of_clean h))

/-! ### `UsedDeclared` ⇔ `HasDecl` on clean sheets -/

theorem hasDecl_of_usedDeclared {s : Sheet} (h : UsedDeclared s) : HasDecl s := by
  intro u hu
  have := h u hu
  rw [hasVal_iff] at this
  obtain ⟨⟨p, v⟩, hx, hxe⟩ := List.mem_map.1 this
  obtain ⟨r, hr, hk, _, hru⟩ := view_sound s p v hx
  exact ⟨r, hr, hk, hru.trans hxe⟩

theorem usedDeclared_of_hasDecl {s : Sheet} (hc : NsClean s) (h : HasDecl s) : UsedDeclared s := by
  intro u hu
  obtain ⟨r, hr, hk, hru⟩ := h u hu
  rw [hasVal_iff]
  exact List.mem_map.2 ⟨(r.p, r.u), hc r hr hk, hru⟩

/-! ### deleteRule -/

theorem nsCount_append (A B : Sheet) (u : Nat) : nsCount (A ++ B) u = nsCount A u + nsCount B u := by
  simp [nsCount, List.filter_append, List.count_append]

theorem nsCount_cons_ns (r : Rule) (B : Sheet) (hk : r.kind = .namespace) :
    nsCount (r :: B) r.u = nsCount B r.u + 1 := by
  simp [nsCount, isKind, hk]

theorem nsCount_pos {s : Sheet} {u : Nat} (h : 0 < nsCount s u) : ∃ x ∈ s, x.kind = .namespace ∧ x.u = u := by
  unfold nsCount at h
  rw [List.count_pos_iff] at h
  obtain ⟨x, hx, hxu⟩ := List.mem_map.1 h
  simp only [List.mem_filter, isKind, decide_eq_true_eq] at hx
  exact ⟨x, hx.1, hx.2, hxu⟩

theorem nsCount_of_mem {s : Sheet} {x : Rule} (hx : x ∈ s) (hk : x.kind = .namespace) : 0 < nsCount s x.u := by
  unfold nsCount
  rw [List.count_pos_iff]
  exact List.mem_map.2 ⟨x, by simp [List.mem_filter, isKind, hx, hk], rfl⟩

/-- the protection test of `deleteRule` -/
def Protected (s : Sheet) (r : Rule) : Prop := r.kind = .namespace ∧ r.u ∈ usedURIs s ∧ nsCount s r.u = 1

instance (s : Sheet) (r : Rule) : Decidable (Protected s r) := by unfold Protected; infer_instance

theorem deleteRule_at (s : Sheet) (i : Int) (idx : Nat) (r : Rule) (hp : pyIndex s.length i = some idx)
    (hi : s[idx]? = some r) :
    deleteRule s i = if Protected s r then (s, .raised .noModification) else (s.eraseIdx idx, .none) := by
  simp only [deleteRule, hp, hi, Protected, nsCount]
  by_cases h1 : r.kind = .namespace <;> by_cases h2 : r.u ∈ usedURIs s <;>
    by_cases h3 : List.count r.u (List.map (fun x => x.u) (List.filter (isKind Kind.namespace) s)) = 1 <;>
    simp [h1, h2, h3]

theorem deleteRule_nat (s : Sheet) (idx : Nat) (r : Rule) (hi : s[idx]? = some r) :
    deleteRule s (idx : Int) =
      if Protected s r then (s, .raised .noModification) else (s.eraseIdx idx, .none) := by
  have hlt : idx < s.length := (List.getElem?_eq_some_iff.1 hi).1
  exact deleteRule_at s idx idx r (by simp [pyIndex, hlt]) hi

/-- whatever the index (negative ones count from the end): nothing happens, or an unprotected rule goes -/
theorem deleteRule_shape (s : Sheet) (i : Int) :
    (deleteRule s i).1 = s ∨ ∃ idx r, s[idx]? = some r ∧ ¬ Protected s r ∧ deleteRule s i = (s.eraseIdx idx, .none) := by
  cases hp : pyIndex s.length i with
  | none => left; simp [deleteRule, hp]
  | some idx =>
    cases hi : s[idx]? with
    | none => left; simp [deleteRule, hp, hi]
    | some r =>
      rw [deleteRule_at s i idx r hp hi]
      by_cases hpr : Protected s r
      · left; simp [hpr]
      · right; exact ⟨idx, r, hi, hpr, by simp [hpr]⟩

theorem hasDecl_erase (A B : Sheet) (r : Rule) (hn : ¬ Protected (A ++ r :: B) r)
    (h : HasDecl (A ++ r :: B)) : HasDecl (A ++ B) := by
  intro u hu
  have hsub : ∀ x ∈ A ++ B, x ∈ A ++ r :: B := by
    intro x hx
    rcases List.mem_append.1 hx with hx | hx
    · exact List.mem_append_left _ hx
    · exact List.mem_append_right _ (List.mem_cons_of_mem _ hx)
  have hu' := usedURIs_subset hsub hu
  obtain ⟨x, hx, hk, hxu⟩ := h u hu'
  rcases List.mem_append.1 hx with hxa | hxb
  · exact ⟨x, List.mem_append_left _ hxa, hk, hxu⟩
  · rcases List.mem_cons.1 hxb with rfl | hxb
    · -- the erased rule itself: it is in use, so it was not the only one
      have hc : nsCount (A ++ x :: B) x.u ≠ 1 := fun hc => hn ⟨hk, hxu ▸ hu', hc⟩
      rw [nsCount_append, nsCount_cons_ns x B hk] at hc
      have hpos : 0 < nsCount (A ++ B) x.u := by rw [nsCount_append]; omega
      obtain ⟨y, hy, hyk, hyu⟩ := nsCount_pos hpos
      exact ⟨y, hy, hyk, hyu.trans hxu⟩
    · exact ⟨x, List.mem_append_right _ hxb, hk, hxu⟩

theorem hasDecl_eraseIdx (s : Sheet) (idx : Nat) (r : Rule) (hi : s[idx]? = some r) (hn : ¬ Protected s r)
    (h : HasDecl s) : HasDecl (s.eraseIdx idx) := by
  obtain ⟨A, B, hs, he, _⟩ := split_at s idx r hi
  rw [he]; subst hs
  exact hasDecl_erase A B r hn h

theorem hasDecl_deleteRule (s : Sheet) (i : Int) (h : HasDecl s) : HasDecl (deleteRule s i).1 := by
  rcases deleteRule_shape s i with h1 | ⟨idx, r, hi, hn, h1⟩
  · rw [h1]; exact h
  · rw [h1]; exact hasDecl_eraseIdx s idx r hi hn h

theorem mem_of_mem_deleteRule (s : Sheet) (i : Int) : ∀ x ∈ (deleteRule s i).1, x ∈ s :=
  fun _ hx => (deleteRule_sublist s i).subset hx

/-- `deleteRule`, any index: a clean sheet whose used URIs are declared stays so -/
theorem deleteRule_inv (s : Sheet) (i : Int) (hc : NsClean s) (hu : UsedDeclared s) :
    NsClean (deleteRule s i).1 ∧ UsedDeclared (deleteRule s i).1 := by
  have hc' := clean_subset (mem_of_mem_deleteRule s i) hc
  exact ⟨hc', usedDeclared_of_hasDecl hc' (hasDecl_deleteRule s i (hasDecl_of_usedDeclared hu))⟩

/-! ### _cleanNamespaces -/

theorem cleanLoop_end (items : List (Nat × Nat)) (fuel : Nat) (s : Sheet) (i : Nat) (hi : s[i]? = none) :
    cleanLoop items (fuel + 1) s i = (s, none) := by
  simp only [cleanLoop, hi]

/-- one round of the clean-up loop, with the inner `deleteRule` spelled out -/
theorem cleanLoop_step (items : List (Nat × Nat)) (fuel : Nat) (s : Sheet) (i : Nat) (r : Rule)
    (hi : s[i]? = some r) :
    cleanLoop items (fuel + 1) s i =
      if r.kind = .namespace ∧ (r.p, r.u) ∉ items then
        if Protected s r then (s, some .noModification) else cleanLoop items fuel (s.eraseIdx i) i
      else cleanLoop items fuel s (i + 1) := by
  simp only [cleanLoop, hi]
  have hcond : (decide (r.kind = .namespace) && !(items.contains (r.p, r.u))) = true ↔
      (r.kind = .namespace ∧ (r.p, r.u) ∉ items) := by simp
  by_cases hc : r.kind = .namespace ∧ (r.p, r.u) ∉ items
  · rw [if_pos (hcond.2 hc), if_pos hc, deleteRule_nat s i r hi]
    by_cases hp : Protected s r <;> simp [hp]
  · rw [if_neg (mt hcond.1 hc), if_neg hc]

/-- the loop keeps `sheet.namespaces`, the rules that carry selectors, and "used ⇒ some rule declares it" -/
theorem cleanLoop_keep (items : List (Nat × Nat)) :
    ∀ (fuel : Nat) (s : Sheet) (i : Nat), view s = items → HasDecl s →
      view (cleanLoop items fuel s i).1 = items ∧ HasDecl (cleanLoop items fuel s i).1 := by
  intro fuel
  induction fuel with
  | zero => intro s i hv hd; exact ⟨hv, hd⟩
  | succ fuel ih =>
    intro s i hv hd
    cases hi : s[i]? with
    | none => rw [cleanLoop_end items fuel s i hi]; exact ⟨hv, hd⟩
    | some r =>
      rw [cleanLoop_step items fuel s i r hi]
      split
      · rename_i hc
        split
        · exact ⟨hv, hd⟩
        · rename_i hp
          obtain ⟨A, B, hs, he, _⟩ := split_at s i r hi
          apply ih
          · rw [he, ← hv, hs]
            exact view_drop A B r (fun _ => by rw [← hs, hv]; exact hc.2)
          · exact hasDecl_eraseIdx s i r hi hp hd
      · exact ih s (i + 1) hv hd

/-- with enough fuel, a run that did not raise leaves only effective @namespace rules -/
theorem cleanLoop_done (items : List (Nat × Nat)) :
    ∀ (fuel : Nat) (s : Sheet) (i : Nat), s.length - i < fuel →
      (∀ x ∈ s.take i, x.kind = .namespace → (x.p, x.u) ∈ items) →
      (cleanLoop items fuel s i).2 = none →
      ∀ x ∈ (cleanLoop items fuel s i).1, x.kind = .namespace → (x.p, x.u) ∈ items := by
  intro fuel
  induction fuel with
  | zero => intro s i hf; omega
  | succ fuel ih =>
    intro s i hf hpre
    cases hi : s[i]? with
    | none =>
      rw [cleanLoop_end items fuel s i hi]
      intro _ x hx
      have hle : s.length ≤ i := by simpa using hi
      rw [List.take_of_length_le hle] at hpre
      exact hpre x hx
    | some r =>
      have hlt : i < s.length := (List.getElem?_eq_some_iff.1 hi).1
      rw [cleanLoop_step items fuel s i r hi]
      split
      · split
        · intro h; cases h
        · obtain ⟨A, B, hs, he, hA⟩ := split_at s i r hi
          apply ih
          · rw [List.length_eraseIdx]; simp only [hlt, if_true]; omega
          · rw [he, ← hA, List.take_left]
            rw [hs, ← hA, List.take_left] at hpre
            exact hpre
      · rename_i hc
        apply ih
        · omega
        · intro x hx
          rw [List.take_add_one, hi] at hx
          rcases List.mem_append.1 hx with hx | hx
          · exact hpre x hx
          · simp only [Option.toList_some, List.mem_singleton] at hx
            subst hx
            intro hk
            exact Classical.byContradiction fun hm => hc ⟨hk, hm⟩

/-- while the used URIs are declared the loop never meets a protected rule -/
theorem cleanLoop_noerr (items : List (Nat × Nat)) :
    ∀ (fuel : Nat) (s : Sheet) (i : Nat), view s = items → UsedDeclared s →
      (cleanLoop items fuel s i).2 = none := by
  intro fuel
  induction fuel with
  | zero => intro s i _ _; rfl
  | succ fuel ih =>
    intro s i hv hu
    cases hi : s[i]? with
    | none => rw [cleanLoop_end items fuel s i hi]
    | some r =>
      rw [cleanLoop_step items fuel s i r hi]
      split
      · rename_i hc
        have hnp : ¬ Protected s r := by
          rintro ⟨hk, hused, hcnt⟩
          -- the URI is a value of the view: an effective rule declares it, and that rule is not `r`
          have hval := hu r.u hused
          rw [hasVal_iff] at hval
          obtain ⟨⟨p, v⟩, hx, hxe⟩ := List.mem_map.1 hval
          simp only at hxe
          obtain ⟨x, hxs, hxk, hxp, hxu⟩ := view_sound s p v hx
          have hne : x ≠ r := by
            rintro rfl
            apply hc.2
            rw [← hv, hxp, hxu]; exact hx
          obtain ⟨A, B, hs, _, _⟩ := split_at s i r hi
          subst hs
          rw [nsCount_append, nsCount_cons_ns r B hk] at hcnt
          have hxu' : x.u = r.u := hxu.trans hxe
          rcases List.mem_append.1 hxs with hxa | hxb
          · have := nsCount_of_mem hxa hxk; rw [hxu'] at this; omega
          · rcases List.mem_cons.1 hxb with rfl | hxb
            · exact hne rfl
            · have := nsCount_of_mem hxb hxk; rw [hxu'] at this; omega
        simp only [hnp, if_false]
        obtain ⟨A, B, hs, he, _⟩ := split_at s i r hi
        have hview : view (s.eraseIdx i) = items := by
          rw [he, ← hv, hs]
          exact view_drop A B r (fun _ => by rw [← hs, hv]; exact hc.2)
        apply ih _ _ hview
        intro u hu'
        rw [hview, ← hv]
        exact hu u (usedURIs_subset (fun x hx => List.mem_of_mem_eraseIdx hx) hu')
      · exact ih s (i + 1) hv hu

theorem cleanNamespaces_view (s : Sheet) : view (cleanNamespaces s).1 = view s := by
  -- `HasDecl` is not needed for the view half; run the loop lemma on the bare statement
  suffices h : ∀ fuel (t : Sheet) i, view t = view s → view (cleanLoop (view s) fuel t i).1 = view s from
    h _ s 0 rfl
  intro fuel
  induction fuel with
  | zero => intro t i hv; exact hv
  | succ fuel ih =>
    intro t i hv
    cases hi : t[i]? with
    | none => rw [cleanLoop_end _ fuel t i hi]; exact hv
    | some r =>
      rw [cleanLoop_step _ fuel t i r hi]
      split
      · rename_i hc
        split
        · exact hv
        · obtain ⟨A, B, hs, he, _⟩ := split_at t i r hi
          apply ih
          rw [he, ← hv, hs]
          exact view_drop A B r (fun _ => by rw [← hs, hv]; exact hc.2)
      · exact ih t (i + 1) hv

/-- a clean-up that did not raise: all remaining @namespace rules are effective, the mapping is the same -/
theorem cleanNamespaces_clean (s s' : Sheet) (h : cleanNamespaces s = (s', none)) : NsClean s' := by
  have hd := cleanLoop_done (view s) (s.length + 1) s 0 (by omega) (by intro x hx; simp at hx)
    (by unfold cleanNamespaces at h; rw [h])
  have hv := cleanNamespaces_view s
  unfold cleanNamespaces at h
  rw [h] at hd
  rw [cleanNamespaces, h] at hv
  intro x hx hk
  rw [hv]; exact hd x hx hk

theorem cleanNamespaces_used (s : Sheet) : usedURIs (cleanNamespaces s).1 = usedURIs s :=
  usedURIs_of_styles (styles_clean s)

theorem cleanNamespaces_hasDecl (s : Sheet) (h : HasDecl s) : HasDecl (cleanNamespaces s).1 :=
  (cleanLoop_keep (view s) _ s 0 rfl h).2

/-- `_cleanNamespaces` on a sheet whose used URIs are declared: no refusal, result clean and still declared -/
theorem cleanNamespaces_inv (s : Sheet) (hu : UsedDeclared s) :
    (cleanNamespaces s).2 = none ∧ NsClean (cleanNamespaces s).1 ∧ UsedDeclared (cleanNamespaces s).1 := by
  have he : (cleanNamespaces s).2 = none := cleanLoop_noerr (view s) _ s 0 rfl hu
  have hc : NsClean (cleanNamespaces s).1 := cleanNamespaces_clean s _ (by rw [← he])
  refine ⟨he, hc, ?_⟩
  intro u hu'
  rw [cleanNamespaces_view]
  rw [cleanNamespaces_used] at hu'
  exact hu u hu'

/-! ### insertRule -/

theorem insertAt_zero (s : Sheet) (r : Rule) : insertAt s 0 r = r :: s := by simp [insertAt]

theorem mem_insertAt {s : Sheet} {j : Nat} {r x : Rule} : x ∈ insertAt s j r ↔ x ∈ s ∨ x = r := by
  have hs : x ∈ s ↔ x ∈ s.take j ∨ x ∈ s.drop j := by
    rw [← List.mem_append, List.take_append_drop]
  simp only [insertAt, List.mem_append, List.mem_cons, hs]
  constructor
  · rintro (h | h | h)
    · exact Or.inl (Or.inl h)
    · exact Or.inr h
    · exact Or.inl (Or.inr h)
  · rintro ((h | h) | h)
    · exact Or.inl h
    · exact Or.inr (Or.inr h)
    · exact Or.inr (Or.inl h)

theorem filter_insertAt (s : Sheet) (j : Nat) (r : Rule) (hk : r.kind ≠ .namespace) :
    (insertAt s j r).filter (isKind .namespace) = s.filter (isKind .namespace) := by
  have hk' : isKind .namespace r = false := by simp [isKind, hk]
  simp only [insertAt, List.filter_append, List.filter_cons, hk', Bool.false_eq_true, if_false]
  rw [← List.filter_append, List.take_append_drop]

/-- what a call can do to the rule list unless it is an @namespace insertion with clean-up: nothing,
put the rule somewhere, or (in-order @charset) re-label the leading @charset rule -/
theorem insertRule_shape (fx : Bool) (s : Sheet) (r : Rule) (index : Option Nat) (inOrder clean : Bool)
    (h : r.kind ≠ .namespace ∨ clean = false) :
    (insertRule fx s r index inOrder clean).1 = s ∨
    (∃ j, (insertRule fx s r index inOrder clean).1 = insertAt s j r) ∨
    (∃ x t, s = x :: t ∧ x.kind = .charset ∧
      (insertRule fx s r index inOrder clean).1 = { x with p := r.p } :: t) := by
  unfold insertRule
  simp only
  repeat' split
  all_goals first
    | exact Or.inl rfl
    | exact Or.inr (Or.inl ⟨_, rfl⟩)
    | exact Or.inr (Or.inl ⟨0, (insertAt_zero _ _).symm⟩)
    | exact Or.inr (Or.inl ⟨_, (insertAt_length _ _).symm⟩)
    | (exfalso; rcases h with h | h <;> simp_all; done)
    | (rename_i hh; exact Or.inr (Or.inr ⟨_, _, rfl, by simpa [headIs] using hh, rfl⟩))

/-- transfer of the invariant to a sheet with the same @namespace rules -/
theorem inv_transfer {s s' : Sheet}
    (hf : s'.filter (isKind .namespace) = s.filter (isKind .namespace))
    (hst : ∀ y ∈ s', isStyled y = true → ∀ u ∈ y.used, dictHasVal (view s) u = true)
    (hc : NsClean s) : NsClean s' ∧ UsedDeclared s' := by
  have hv := view_of_filter hf
  constructor
  · intro x hx hk
    have : x ∈ s'.filter (isKind .namespace) := by simp [List.mem_filter, isKind, hx, hk]
    rw [hf] at this
    rw [hv]
    exact hc x (List.mem_filter.1 this).1 hk
  · intro u hu
    obtain ⟨y, hy, hs, hyu⟩ := mem_usedURIs.1 hu
    rw [hv]; exact hst y hy hs u hyu

theorem used_of_styled {s : Sheet} (hu : UsedDeclared s) {y : Rule} (hy : y ∈ s) (hs : isStyled y = true) :
    ∀ u ∈ y.used, dictHasVal (view s) u = true :=
  fun u hyu => hu u (mem_usedURIs.2 ⟨y, hy, hs, hyu⟩)

/-- inserting anything but an @namespace rule: the caller's rule must use declared URIs only -/
theorem insertRule_other_inv (fx : Bool) (s : Sheet) (r : Rule) (index : Option Nat) (inOrder : Bool)
    (hk : r.kind ≠ .namespace) (hc : NsClean s) (hu : UsedDeclared s)
    (hd : isStyled r = true → ∀ u ∈ r.used, dictHasVal (view s) u = true) :
    NsClean (insertRule fx s r index inOrder).1 ∧ UsedDeclared (insertRule fx s r index inOrder).1 := by
  rcases insertRule_shape fx s r index inOrder true (Or.inl hk) with h | ⟨j, h⟩ | ⟨x, t, hs, hx, h⟩
  · rw [h]; exact ⟨hc, hu⟩
  · rw [h]
    refine inv_transfer (filter_insertAt s j r hk) ?_ hc
    intro y hy hsy
    rcases mem_insertAt.1 hy with hy | rfl
    · exact used_of_styled hu hy hsy
    · exact hd hsy
  · rw [h]
    subst hs
    refine inv_transfer (by simp [isKind, hx]) ?_ hc
    intro y hy hsy
    rcases List.mem_cons.1 hy with rfl | hy
    · simp [isStyled, hx] at hsy
    · exact used_of_styled hu (List.mem_cons_of_mem _ hy) hsy

theorem insertRule_ns_shape (fx : Bool) (s : Sheet) (r : Rule) (idx : Option Nat) (io : Bool)
    (hk : r.kind = .namespace) :
    (insertRule fx s r idx io).1 = s ∨
    ∃ j s'', cleanNamespaces (insertAt s j r) = (s'', none) ∧ (insertRule fx s r idx io).1 = s'' := by
  simp only [insertRule, hk]
  split
  · exact Or.inl rfl
  · split
    · exact Or.inl rfl
    · split
      · exact Or.inl rfl
      · simp only [if_true]
        rename_i place _ _
        generalize hcn : cleanNamespaces (insertAt s place r) = cn
        obtain ⟨s'', e⟩ := cn
        cases e with
        | some e => exact Or.inl rfl
        | none => exact Or.inr ⟨place, s'', hcn, rfl⟩

/-- inserting an @namespace rule (any index, in order or not): accepted, it is followed by a complete
clean-up; were a used URI to lose its last rule the whole call is undone -/
theorem insertRule_ns_inv (fx : Bool) (s : Sheet) (r : Rule) (idx : Option Nat) (io : Bool)
    (hk : r.kind = .namespace) (hc : NsClean s) (hu : UsedDeclared s) :
    NsClean (insertRule fx s r idx io).1 ∧ UsedDeclared (insertRule fx s r idx io).1 := by
  rcases insertRule_ns_shape fx s r idx io hk with h | ⟨j, s'', hcn, h⟩
  · rw [h]; exact ⟨hc, hu⟩
  · rw [h]
    have hr : isStyled r = false := by simp [isStyled, hk]
    have hd' : HasDecl (insertAt s j r) := by
      intro u hu'
      rw [usedURIs_of_styles (styles_insertAt s j r hr)] at hu'
      obtain ⟨x, hx, hxk, hxu⟩ := hasDecl_of_usedDeclared hu u hu'
      exact ⟨x, mem_insertAt.2 (Or.inl hx), hxk, hxu⟩
    have hcl := cleanNamespaces_clean _ _ hcn
    have hd'' := cleanNamespaces_hasDecl _ hd'
    rw [hcn] at hd''
    exact ⟨hcl, usedDeclared_of_hasDecl hcl hd''⟩

/-! ### the other operations -/

theorem setEncoding_inv (fx : Bool) (s : Sheet) (e : Option Nat) (hc : NsClean s) (hu : UsedDeclared s) :
    NsClean (setEncoding fx s e).1 ∧ UsedDeclared (setEncoding fx s e).1 := by
  unfold setEncoding
  split
  · rename_i hh
    split
    · rename_i enc x t
      have hx : x.kind = .charset := by simpa [headIs] using hh
      refine inv_transfer (by simp [isKind, hx]) ?_ hc
      intro y hy hsy
      rcases List.mem_cons.1 hy with rfl | hy
      · simp [isStyled, hx] at hsy
      · exact used_of_styled hu (List.mem_cons_of_mem _ hy) hsy
    · exact deleteRule_inv s 0 hc hu
    · exact ⟨hc, hu⟩
  · split
    · rename_i enc
      have := insertRule_other_inv fx s { kind := .charset, p := enc } (some 0) false (by simp) hc hu
        (by simp [isStyled])
      generalize insertRule fx s { kind := .charset, p := enc } (some 0) false = x at this ⊢
      obtain ⟨s', r'⟩ := x
      cases r' <;> exact this
    · exact ⟨hc, hu⟩

theorem nsSet_inv (fx : Bool) (s : Sheet) (p u : Nat) (hc : NsClean s) (hu : UsedDeclared s) :
    NsClean (nsSet fx s p u).1 ∧ UsedDeclared (nsSet fx s p u).1 := by
  unfold nsSet
  split
  · have := insertRule_ns_inv fx s { kind := .namespace, p := p, u := u } none true rfl hc hu
    generalize insertRule fx s { kind := .namespace, p := p, u := u } none true = x at this ⊢
    obtain ⟨s', r'⟩ := x
    cases r' <;> exact this
  · split
    · exact ⟨hc, hu⟩
    · split <;> exact ⟨hc, hu⟩

theorem nsDel_inv (s : Sheet) (p : Nat) (hc : NsClean s) (hu : UsedDeclared s) :
    NsClean (nsDel s p).1 ∧ UsedDeclared (nsDel s p).1 := by
  unfold nsDel
  split
  · exact ⟨hc, hu⟩
  · exact deleteRule_inv s _ hc hu

/-- `cssText = …`: the kept rules must use URIs declared by the kept @namespace rules of the text -/
theorem assign_inv (fx : Bool) (s : Sheet) (rs : List Rule) (hc : NsClean s) (hu : UsedDeclared s)
    (hd : UsedDeclared (parseLoop fx rs 0 [] true).1) :
    NsClean (assignSheet fx s rs).1 ∧ UsedDeclared (assignSheet fx s rs).1 := by
  unfold assignSheet
  simp only
  split
  · exact (cleanNamespaces_inv _ hd).2
  · exact ⟨hc, hu⟩

theorem parseSheet_inv (fx : Bool) (rs : List Rule) (hd : UsedDeclared (parseLoop fx rs 0 [] true).1) :
    NsClean (parseSheet fx rs) ∧ UsedDeclared (parseSheet fx rs) := (cleanNamespaces_inv _ hd).2

/-! ### every operation, every history -/

/-- what the caller of an operation owes: the selectors of a style / @media rule handed to `insertRule`
are bound to URIs declared in the sheet at that moment (the real API resolves their prefixes against
`sheet.namespaces` and refuses undeclared ones); the rules kept from an assigned text are bound to URIs
declared by the @namespace rules kept from that text -/
def OpDeclared (fx : Bool) (s : Sheet) : Op → Prop
  | .insert r _ _ => isStyled r = true → ∀ u ∈ r.used, dictHasVal (view s) u = true
  | .assign rs => UsedDeclared (parseLoop fx rs 0 [] true).1
  | _ => True

instance (fx : Bool) (s : Sheet) (op : Op) : Decidable (OpDeclared fx s op) := by
  cases op <;> simp only [OpDeclared] <;> infer_instance

/-- the invariant: every @namespace rule is effective and every used URI is declared -/
def NsInv (s : Sheet) : Prop := NsClean s ∧ UsedDeclared s

instance (s : Sheet) : Decidable (NsInv s) := by unfold NsInv; infer_instance

theorem nsInv_nil : NsInv [] := ⟨fun _ h _ => (by cases h), fun _ h => (by cases h)⟩

theorem step_inv (fx : Bool) (s : Sheet) (op : Op) (h : NsInv s) (hd : OpDeclared fx s op) :
    NsInv (step fx s op).1 := by
  obtain ⟨hc, hu⟩ := h
  cases op with
  | insert r i o =>
    by_cases hk : r.kind = .namespace
    · exact insertRule_ns_inv fx s r i o hk hc hu
    · exact insertRule_other_inv fx s r i o hk hc hu hd
  | delete i => exact deleteRule_inv s i hc hu
  | encoding e => exact setEncoding_inv fx s e hc hu
  | nsSet p u => exact nsSet_inv fx s p u hc hu
  | nsDel p => exact nsDel_inv s p hc hu
  | assign rs => exact assign_inv fx s rs hc hu hd

/-- every operation of a history meets `OpDeclared` in the state it is applied to -/
def HistDeclared (fx : Bool) : Sheet → List Op → Prop
  | _, [] => True
  | s, op :: ops => OpDeclared fx s op ∧ HistDeclared fx (step fx s op).1 ops

instance (fx : Bool) : ∀ (s : Sheet) (ops : List Op), Decidable (HistDeclared fx s ops)
  | _, [] => isTrue trivial
  | s, op :: ops =>
    have := instDecidableHistDeclared fx (step fx s op).1 ops
    by unfold HistDeclared; infer_instance

theorem run_inv (fx : Bool) (ops : List Op) :
    ∀ (s : Sheet), NsInv s → HistDeclared fx s ops → NsInv (ops.foldl (fun s op => (step fx s op).1) s) := by
  induction ops with
  | nil => intro s h _; exact h
  | cons op ops ih =>
    intro s h hd
    rw [List.foldl_cons]
    exact ih _ (step_inv fx s op h hd.1) hd.2

/-! ### the payload of an assigned text -/

theorem parseInsert_styled (fx : Bool) (acc : Sheet) (r : Rule) :
    ∀ y ∈ (parseInsert fx acc r).1, isStyled y = true → y ∈ acc ∨ y = r := by
  have h := insertRule_shape fx acc r none false false (Or.inr rfl)
  unfold parseInsert
  generalize insertRule fx acc r none false false = x at h ⊢
  obtain ⟨s', r'⟩ := x
  have key : ∀ y ∈ s', isStyled y = true → y ∈ acc ∨ y = r := by
    intro y hy hsy
    rcases h with h | ⟨j, h⟩ | ⟨x, t, hs, hx, h⟩
    · exact Or.inl (h ▸ hy)
    · simp only at h; rw [h] at hy; exact mem_insertAt.1 hy
    · simp only at h; rw [h] at hy; subst hs
      rcases List.mem_cons.1 hy with rfl | hy
      · simp [isStyled, hx] at hsy
      · exact Or.inl (List.mem_cons_of_mem _ hy)
  cases r' <;> exact key

/-- every rule with selectors kept by the parse is one of the statements of the text (or was there before) -/
theorem parseLoop_styled (fx : Bool) : ∀ (rs : List Rule) (expected : Nat) (acc : Sheet) (ok : Bool),
    ∀ y ∈ (parseLoop fx rs expected acc ok).1, isStyled y = true → y ∈ acc ∨ y ∈ rs := by
  intro rs
  induction rs with
  | nil => intro _ acc _ y hy _; exact Or.inl hy
  | cons r rs ih =>
    intro expected acc ok
    have skip : ∀ e o, ∀ y ∈ (parseLoop fx rs e acc o).1, isStyled y = true → y ∈ acc ∨ y ∈ r :: rs := by
      intro e o y hy hsy
      rcases ih e acc o y hy hsy with h | h
      · exact Or.inl h
      · exact Or.inr (List.mem_cons_of_mem _ h)
    have ins : ∀ e o, ∀ y ∈ (parseLoop fx rs e (parseInsert fx acc r).1 o).1, isStyled y = true →
        y ∈ acc ∨ y ∈ r :: rs := by
      intro e o y hy hsy
      rcases ih e _ o y hy hsy with h | h
      · rcases parseInsert_styled fx acc r y h hsy with h | h
        · exact Or.inl h
        · exact Or.inr (h ▸ List.mem_cons_self)
      · exact Or.inr (List.mem_cons_of_mem _ h)
    unfold parseLoop
    split
    · split
      · exact skip _ _
      · exact ins _ _
    · split
      · exact skip _ _
      · exact ins _ _
    · split
      · exact skip _ _
      · split
        · exact ins _ _
        · intro y hy hsy
          rcases ih _ _ _ y hy hsy with h | h
          · left
            obtain ⟨x, hx, hxy⟩ := List.mem_map.1 h
            split at hxy
            · rename_i hc
              simp only [Bool.and_eq_true, decide_eq_true_eq] at hc
              subst hxy
              simp [isStyled, hc.1] at hsy
            · exact hxy ▸ hx
          · exact Or.inr (List.mem_cons_of_mem _ h)
    · split
      · exact skip _ _
      · exact ins _ _
    · exact ins _ _
    · exact ins _ _
    · exact ins _ _
    · exact ins _ _

/-- a sufficient form of the assignment hypothesis that reads the text only: every URI used by a style /
@media statement is declared by the @namespace rules the parse keeps -/
theorem assign_declared_of_text (fx : Bool) (rs : List Rule)
    (h : ∀ u ∈ usedURIs rs, dictHasVal (view (parseLoop fx rs 0 [] true).1) u = true) :
    UsedDeclared (parseLoop fx rs 0 [] true).1 := by
  intro u hu
  obtain ⟨y, hy, hsy, hyu⟩ := mem_usedURIs.1 hu
  rcases parseLoop_styled fx rs 0 [] true y hy hsy with h' | h'
  · cases h'
  · exact h u (mem_usedURIs.2 ⟨y, h', hsy, hyu⟩)

/-! ### `del namespaces[p]` -/

theorem findRuleIdx_some {s : Sheet} {p i : Nat} (h : findRuleIdx s p = some i) :
    ∃ r, s[i]? = some r ∧ r.kind = .namespace ∧ r.p = p := by
  unfold findRuleIdx at h
  simp only at h
  obtain ⟨ys, hys⟩ := List.getLast?_eq_some_iff.1 h
  have hm : i ∈ ys ++ [i] := by simp
  rw [← hys] at hm
  have := (List.mem_filter.1 hm).2
  cases hi : s[i]? with
  | none => simp [hi] at this
  | some r => simp [hi] at this; exact ⟨r, rfl, this.1, this.2⟩

theorem findRuleIdx_none {s : Sheet} {p : Nat} (h : findRuleIdx s p = none) :
    ∀ x ∈ s, ¬ (x.kind = .namespace ∧ x.p = p) := by
  unfold findRuleIdx at h
  simp only at h
  rw [List.getLast?_eq_none_iff, List.filter_eq_nil_iff] at h
  intro x hx hc
  obtain ⟨i, hlt, hi⟩ := List.mem_iff_getElem.1 hx
  have := h i (List.mem_range.2 hlt)
  simp [List.getElem?_eq_getElem hlt, hi, hc.1, hc.2] at this

/-- the @namespace rules lead the list (nothing but @namespace rules in front of an @namespace rule) -/
def nsLead (s : Sheet) : Bool := (s.dropWhile (isKind .namespace)).all (fun x => !isKind .namespace x)

theorem nsLead_spec : ∀ (s : Sheet), nsLead s = true → ∀ (i : Nat) (x : Rule), s[i]? = some x →
    x.kind = .namespace → ∀ j, j < i → ∃ y, s[j]? = some y ∧ y.kind = .namespace := by
  intro s
  induction s with
  | nil => intro _ i x hi; simp at hi
  | cons h t ih =>
    intro hl i x hi hk j hj
    by_cases hh : isKind .namespace h = true
    · have hl' : nsLead t = true := by
        simpa [nsLead, List.dropWhile_cons, hh] using hl
      cases i with
      | zero => omega
      | succ i =>
        cases j with
        | zero => exact ⟨h, rfl, by simpa [isKind] using hh⟩
        | succ j =>
          simp only [List.getElem?_cons_succ] at hi ⊢
          exact ih hl' i x hi hk j (by omega)
    · exfalso
      simp only [nsLead, List.dropWhile_cons, hh, List.all_eq_true] at hl
      have := hl x (List.mem_of_getElem? hi)
      simp [isKind, hk] at this

theorem filter_range_all (f : Nat → Bool) (i : Nat) (hl : ∀ j, j < i → f j = true) :
    ((List.range i).filter f).length = i := by
  rw [List.filter_eq_self.2, List.length_range]
  intro j hj
  exact hl j (List.mem_range.1 hj)

/-- on a clean sheet `namespaces[q]` is the URI of the @namespace rules with prefix `q` -/
theorem clean_dictGet {s : Sheet} (hc : NsClean s) (q v : Nat) :
    dictGet (view s) q = some v ↔ ∃ x ∈ s, x.kind = .namespace ∧ x.p = q ∧ x.u = v := by
  constructor
  · intro h; exact view_sound s q v (dictGet_some_mem _ q v h)
  · rintro ⟨x, hx, hk, rfl, rfl⟩
    exact dictGet_of_mem _ _ _ (view_ok s).1 (hc x hx hk)

/-- `del namespaces[p]` for an undeclared prefix -/
theorem nsDel_undeclared (s : Sheet) (p : Nat) (hc : NsClean s) (h : dictGet (view s) p = none) :
    nsDel s p = (s, .raised .namespaceErr) := by
  cases hf : findRuleIdx s p with
  | none => simp only [nsDel, hf]
  | some i =>
    obtain ⟨r, hi, hk, hp⟩ := findRuleIdx_some hf
    have := (clean_dictGet hc p r.u).2 ⟨r, List.mem_of_getElem? hi, hk, hp, rfl⟩
    rw [h] at this; cases this

/-- `del namespaces[p]` for a declared prefix, @namespace rules leading: refused when the URI is in use
and this is its only rule, else exactly that rule goes; the entry for `p` disappears (unless a
duplicate rule remains) and every other prefix keeps its URI -/
theorem nsDel_declared (s : Sheet) (p u : Nat) (hc : NsClean s) (hl : nsLead s = true)
    (h : dictGet (view s) p = some u) :
    if u ∈ usedURIs s ∧ nsCount s u = 1 then nsDel s p = (s, .raised .noModification)
    else (∃ i r, s[i]? = some r ∧ r.kind = .namespace ∧ r.p = p ∧ r.u = u ∧
            nsDel s p = (s.eraseIdx i, .none)) ∧
         (nsCount s u = 1 → dictGet (view (nsDel s p).1) p = none) ∧
         (∀ q, q ≠ p → dictGet (view (nsDel s p).1) q = dictGet (view s) q) := by
  cases hf : findRuleIdx s p with
  | none =>
    obtain ⟨x, hx, hk, hp, _⟩ := (clean_dictGet hc p u).1 h
    exact absurd ⟨hk, hp⟩ (findRuleIdx_none hf x hx)
  | some i =>
    obtain ⟨r, hi, hk, hp⟩ := findRuleIdx_some hf
    have hru : r.u = u := by
      have := (clean_dictGet hc p r.u).2 ⟨r, List.mem_of_getElem? hi, hk, hp, rfl⟩
      rw [h] at this; exact (Option.some.inj this).symm
    have hdel : nsDel s p = deleteRule s (i : Int) := by
      simp only [nsDel, hf]
      rw [filter_range_all _ i]
      intro j hj
      obtain ⟨y, hy, hyk⟩ := nsLead_spec s hl i r hi hk j hj
      simp [hy, hyk]
    rw [hdel, deleteRule_nat s i r hi]
    have hprot : Protected s r ↔ (u ∈ usedURIs s ∧ nsCount s u = 1) := by
      simp [Protected, hk, hru]
    by_cases hpr : Protected s r
    · rw [if_pos (hprot.1 hpr), if_pos hpr]
    · rw [if_neg (mt hprot.2 hpr), if_neg hpr]
      have hc' : NsClean (s.eraseIdx i) := clean_subset (fun x hx => List.mem_of_mem_eraseIdx hx) hc
      have hcons := consistent_of_clean hc
      obtain ⟨A, B, hs, he, _⟩ := split_at s i r hi
      refine ⟨⟨i, r, hi, hk, hp, hru, rfl⟩, ?_, ?_⟩
      · intro hcnt
        cases hg : dictGet (view (s.eraseIdx i)) p with
        | none => rfl
        | some v =>
          exfalso
          obtain ⟨x, hx, hxk, hxp, _⟩ := (clean_dictGet hc' p v).1 hg
          have hxs : x ∈ s := List.mem_of_mem_eraseIdx hx
          have hxu : x.u = r.u :=
            (hcons x hxs r (List.mem_of_getElem? hi) hxk hk).1 (hxp.trans hp.symm)
          rw [he] at hx
          have hpos := nsCount_of_mem hx hxk
          rw [hs, ← hru, nsCount_append, nsCount_cons_ns r B hk] at hcnt
          rw [hxu, nsCount_append] at hpos
          omega
      · intro q hq
        apply Option.ext
        intro v
        rw [clean_dictGet hc' q v, clean_dictGet hc q v]
        constructor
        · rintro ⟨x, hx, hrest⟩
          exact ⟨x, List.mem_of_mem_eraseIdx hx, hrest⟩
        · rintro ⟨x, hx, hxk, hxp, hxu⟩
          refine ⟨x, ?_, hxk, hxp, hxu⟩
          rw [he]
          rw [hs] at hx
          rcases List.mem_append.1 hx with hx | hx
          · exact List.mem_append_left _ hx
          · rcases List.mem_cons.1 hx with rfl | hx
            · exact absurd (hxp.symm.trans hp) hq
            · exact List.mem_append_right _ hx

end CssVerif.Sheet
