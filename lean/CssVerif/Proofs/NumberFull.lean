/-
C17, all branches of the number serializer (repaired code, `fixedRounding = true`):
zero branch, integer branch, the two float branches, the `+` prefix, the unit suffix and the
re-parse of the whole written text.
-/
import CssVerif.Proofs.Number
namespace CssVerif.Number

/-! ### what `parseNum` returns -/

/-- the text starts with `.` and a digit (so that, after an integer, it would be read as a fraction) -/
def dotDigit : Text → Bool
  | 46 :: c :: _ => isDigit c
  | _ => false

/-- unit texts that `parseNum` can produce after an *integer* literal: they do not start with a digit
and do not start with `.` digit -/
def UnitText (d : Text) : Prop := (∀ c ∈ d.head?, isDigit c = false) ∧ dotDigit d = false

/-- the facts about a `Parsed` that hold for everything `parseNum` returns -/
structure WF (p : Parsed) : Prop where
  sign : p.sign = none ∨ p.sign = some 43 ∨ p.sign = some 45
  neg : p.value.neg = (p.sign == some 45)
  den : 0 < p.value.den
  intDen : p.isFloat = false → p.value.den = 1
  dimHead : ∀ c ∈ p.dim.head?, isDigit c = false
  dimInt : p.isFloat = false → dotDigit p.dim = false

theorem dropWhile_head (l : List Nat) : ∀ c ∈ (l.dropWhile isDigit).head?, isDigit c = false := by
  induction l with
  | nil => intro c hc; simp at hc
  | cons x xs ih =>
    intro c hc
    by_cases hx : isDigit x = true
    · rw [List.dropWhile_cons_of_pos hx] at hc; exact ih c hc
    · rw [List.dropWhile_cons_of_neg hx] at hc
      simp at hc; subst hc; simpa using hx

theorem splitSign_sign (t : Text) :
    (splitSign t).1 = none ∨ (splitSign t).1 = some 43 ∨ (splitSign t).1 = some 45 := by
  unfold splitSign
  split <;> simp

theorem takeWhile_nil_dotDigit (r2 : List Nat) (h : (r2.takeWhile isDigit).isEmpty = true) :
    dotDigit (46 :: r2) = false := by
  cases r2 with
  | nil => rfl
  | cons c cs =>
    simp only [dotDigit]
    cases hc : isDigit c with
    | false => rfl
    | true => simp [hc] at h

theorem splitNum_some (t : Text) (sign : Option Nat) (ip : List Nat) (fpo : Option (List Nat)) (rest : Text)
    (h : splitNum t = some (sign, ip, fpo, rest)) :
    (sign = none ∨ sign = some 43 ∨ sign = some 45) ∧ (∀ c ∈ rest.head?, isDigit c = false) ∧
    (fpo = none → dotDigit rest = false) := by
  unfold splitNum at h
  simp only at h
  split at h
  · rename_i r2 hr1
    split at h
    · split at h
      · cases h
      · cases h
        refine ⟨splitSign_sign t, dropWhile_head _, ?_⟩
        intro _
        rw [hr1]
        apply takeWhile_nil_dotDigit; assumption
    · cases h
      exact ⟨splitSign_sign t, dropWhile_head _, fun hn => by cases hn⟩
  · rename_i hr1
    split at h
    · cases h
    · cases h
      refine ⟨splitSign_sign t, dropWhile_head _, ?_⟩
      intro _
      generalize List.dropWhile isDigit (splitSign t).2 = r1 at hr1
      unfold dotDigit
      split
      · exact absurd rfl (hr1 _)
      · rfl

theorem roundToDouble_den (num den : Nat) : 0 < (roundToDouble num den).2 := by
  unfold roundToDouble
  split
  · exact Nat.zero_lt_one
  · simp only
    split
    · exact Nat.zero_lt_one
    · exact Nat.pow_pos (by decide)

theorem parseNum_int (t : Text) (sign : Option Nat) (ip : List Nat) (rest : Text)
    (h : splitNum t = some (sign, ip, none, rest)) :
    parseNum t = some ⟨sign, false, ⟨sign == some 45, digitsVal ip, 1⟩, rest⟩ := by
  unfold parseNum; rw [h]

theorem parseNum_float (t : Text) (sign : Option Nat) (ip fp : List Nat) (rest : Text)
    (h : splitNum t = some (sign, ip, some fp, rest)) :
    parseNum t = some ⟨sign, true, ⟨sign == some 45, (roundToDouble (digitsVal (ip ++ fp)) (10 ^ fp.length)).1,
        (roundToDouble (digitsVal (ip ++ fp)) (10 ^ fp.length)).2⟩, rest⟩ := by
  unfold parseNum; rw [h]

/-- everything `parseNum` returns is well formed -/
theorem parseNum_wf (t : Text) (p : Parsed) (h : parseNum t = some p) : WF p := by
  cases hs : splitNum t with
  | none => unfold parseNum at h; rw [hs] at h; cases h
  | some r =>
    obtain ⟨sign, ip, fpo, rest⟩ := r
    obtain ⟨h1, h2, h3⟩ := splitNum_some t _ _ _ _ hs
    cases fpo with
    | none =>
      rw [parseNum_int t _ _ _ hs] at h
      cases h
      exact ⟨h1, rfl, Nat.zero_lt_one, fun _ => rfl, h2, fun _ => h3 rfl⟩
    | some fp =>
      rw [parseNum_float t _ _ _ _ hs] at h
      cases h
      exact ⟨h1, rfl, roundToDouble_den _ _, fun hf => Bool.noConfusion hf, h2, fun hf => Bool.noConfusion hf⟩

/-! ### the three parts written by the serializer -/

/-- the zero test of the repaired serializer (`round(value, 6) == 0`) -/
def printsZero (p : Parsed) : Bool := if p.isFloat then round6 p.value == 0 else p.value.isZero
/-- the integer test (`num == int(num)`) -/
def printsInt (p : Parsed) : Bool := if p.isFloat then round6 p.value % 1000000 == 0 else p.value.isInt
/-- `-1 < num < 1` -/
def printsSmall (p : Parsed) : Bool :=
  if p.isFloat then decide (round6 p.value < 1000000) else p.value.absLt ⟨false, 1, 1⟩
/-- `int(num)` (absolute value) -/
def intPart (p : Parsed) : Nat := if p.isFloat then round6 p.value / 1000000 else p.value.num / p.value.den

/-- the sign text: `+` exactly when written with `+` and the printed value is not zero -/
def signOut (p : Parsed) : Text := if p.sign == some 43 && !printsZero p then [43] else []
/-- the unit text: the unit as stored, except that a zero drops one of the eight length units -/
def unitOut (p : Parsed) : Text := if printsZero p && zeroUnits.contains p.dim then [] else p.dim
/-- the number text, by branch -/
def numOut (om : Bool) (p : Parsed) : Text :=
  if printsZero p then [48]
  else if printsInt p then (if p.value.neg && intPart p != 0 then [45] else []) ++ natDigits (intPart p)
  else if om && printsSmall p then
    (if p.sign == some 45 then (stripZeros (fmtF p.value)).take 1 ++ (stripZeros (fmtF p.value)).drop 2
     else (stripZeros (fmtF p.value)).drop 1)
  else stripZeros (fmtF p.value)

theorem fmtParts_eq (om : Bool) (p : Parsed) : fmtParts true om p = (signOut p, numOut om p, unitOut p) := by
  unfold fmtParts signOut numOut unitOut printsZero printsInt printsSmall intPart
  simp only [Bool.true_and]
  cases p.isFloat <;> simp only [Bool.false_eq_true, if_false, if_true]
  · cases hz : p.value.isZero <;> cases hi : p.value.isInt <;> simp
    split <;> simp
  · cases hz : (round6 p.value == 0) <;> cases hi : (round6 p.value % 1000000 == 0) <;>
      simp only [Bool.false_eq_true, if_false, if_true, Bool.not_true, Bool.not_false, Bool.and_false,
        Bool.and_true, Bool.true_and, Bool.false_and]
    all_goals (repeat' split) <;> rfl

/-- `out.append(sign + val + dim)` -/
theorem fmtNumber_eq (om : Bool) (p : Parsed) :
    fmtNumber true om p = signOut p ++ numOut om p ++ unitOut p := by
  unfold fmtNumber
  rw [fmtParts_eq]

/-! ### the value that is expected to be written -/

/-- the value the number text has to denote: for a float literal the value rounded to six places,
for an integer literal the value itself; the sign is that of the literal, but a zero carries no sign -/
def expected (p : Parsed) : Q :=
  if p.isFloat then ⟨p.value.neg && round6 p.value != 0, round6 p.value, 1000000⟩
  else ⟨p.value.neg && p.value.num != 0, p.value.num, p.value.den⟩

/-- optional minus -/
def minus (neg : Bool) : Text := if neg then [45] else []

/-- the two forms of the number text: digits, or digits `.` digits -/
inductive NumShape (p : Parsed) (t : Text) : Prop
  | int (ip : List Nat) (hip : ∀ c ∈ ip, isDigit c = true) (hne : ip ≠ []) (hint : printsInt p = true)
      (ht : t = minus (expected p).neg ++ ip)
      (hv : Q.same ⟨(expected p).neg, digitsVal ip, 1⟩ (expected p))
  | frac (ip fp : List Nat) (hip : ∀ c ∈ ip, isDigit c = true) (hfp : ∀ c ∈ fp, isDigit c = true)
      (hne : fp ≠ []) (hint : printsInt p = false)
      (ht : t = dec (expected p).neg ip fp)
      (hv : Q.same ⟨(expected p).neg, digitsVal (ip ++ fp), 10 ^ fp.length⟩ (expected p))

theorem round6_num_zero (q : Q) (h : q.num = 0) : round6 q = 0 := by
  simp [round6, h]

theorem pad6_length (n : Nat) : (pad6 n).length = 6 := rfl

/-- `_strip_zeros` on `ip . dddddd` keeps `ip`, at least one fraction digit, and removes only zeros -/
theorem strip_shape (neg : Bool) (ip : List Nat) (n : Nat) (hip : ∀ c ∈ ip, isDigit c = true) :
    ∃ fp k, stripZeros (dec neg ip (pad6 n)) = dec neg ip fp ∧ fp ≠ [] ∧ (∀ c ∈ fp, isDigit c = true) ∧
      pad6 n = fp ++ List.replicate k 48 := by
  have hpad : pad6 n = (48 + n / 100000 % 10) ::
      [48 + n / 10000 % 10, 48 + n / 1000 % 10, 48 + n / 100 % 10, 48 + n / 10 % 10, 48 + n % 10] := rfl
  have hpd := pad6_digits n
  rw [hpad] at hpd ⊢
  obtain ⟨fs', hst, hsub, k, hk⟩ := stripZeros_value neg ip (48 + n / 100000 % 10)
    [48 + n / 10000 % 10, 48 + n / 1000 % 10, 48 + n / 100 % 10, 48 + n / 10 % 10, 48 + n % 10] hip
  refine ⟨(48 + n / 100000 % 10) :: fs', k, hst, by simp, ?_, ?_⟩
  · intro c hc
    rcases List.mem_cons.mp hc with rfl | h
    · exact hpd _ List.mem_cons_self
    · exact hpd c (List.mem_cons_of_mem _ (hsub c h))
  · rw [hk]; simp

theorem shape_value (ip fp : List Nat) (k n : Nat) (hn : n < 1000000)
    (h : pad6 n = fp ++ List.replicate k 48) :
    digitsVal (ip ++ fp) * 1000000 = (digitsVal ip * 1000000 + n) * 10 ^ fp.length := by
  have h1 : digitsVal (ip ++ pad6 n) = digitsVal ip * 1000000 + n := by
    rw [digitsVal_append, pad6_val n hn, pad6_length]
  have h2 : ip ++ pad6 n = (ip ++ fp) ++ List.replicate k 48 := by rw [h]; simp
  rw [h2, digitsVal_zeros] at h1
  have hlen : fp.length + k = 6 := by
    have := congrArg List.length h
    rw [pad6_length] at this
    simp at this; omega
  have h6 : (1000000 : Nat) = 10 ^ k * 10 ^ fp.length := by
    rw [← Nat.pow_add]
    have : k + fp.length = 6 := by omega
    rw [this]
  rw [← h1]
  generalize digitsVal (ip ++ fp) = D
  calc D * 1000000 = D * (10 ^ k * 10 ^ fp.length) := by rw [← h6]
    _ = D * 10 ^ k * 10 ^ fp.length := by rw [Nat.mul_assoc]

theorem fmtF_dec (q : Q) :
    fmtF q = dec (q.neg && !q.isZero) (natDigits (round6 q / 1000000)) (pad6 (round6 q % 1000000)) := by
  unfold fmtF dec
  simp

theorem digit48 : ∀ c ∈ [48], isDigit c = true := by
  intro c hc; simp at hc; subst hc; decide

/-- float literal, zero or integer branch -/
theorem numOut_shape_float_int (om : Bool) (p : Parsed) (hf : p.isFloat = true)
    (hi : round6 p.value % 1000000 = 0) : NumShape p (numOut om p) := by
  have hpi : printsInt p = true := by simp [printsInt, hf, hi]
  have hex : expected p = ⟨p.value.neg && round6 p.value != 0, round6 p.value, 1000000⟩ := by
    simp [expected, hf]
  by_cases hz : round6 p.value = 0
  · have hpz : printsZero p = true := by simp [printsZero, hf, hz]
    have hno : numOut om p = [48] := by simp [numOut, hpz]
    have hex' : expected p = ⟨false, 0, 1000000⟩ := by rw [hex, hz]; simp
    refine NumShape.int [48] digit48 (by simp) hpi ?_ ?_
    · rw [hno, hex']; rfl
    · rw [hex']; exact ⟨rfl, rfl⟩
  · have hpz : printsZero p = false := by simp [printsZero, hf, hz]
    have hip : intPart p = round6 p.value / 1000000 := by simp [intPart, hf]
    have hk : round6 p.value / 1000000 ≠ 0 := by omega
    have hno : numOut om p = minus p.value.neg ++ natDigits (round6 p.value / 1000000) := by
      simp [numOut, hpz, hpi, hip, hk, minus]
    have hex' : expected p = ⟨p.value.neg, round6 p.value, 1000000⟩ := by rw [hex]; simp [hz]
    refine NumShape.int (natDigits (round6 p.value / 1000000)) (natDigits_digits _) (natDigits_ne_nil _) hpi ?_ ?_
    · rw [hno, hex']
    · rw [hex', natDigits_val]
      refine ⟨rfl, ?_⟩
      simp only
      omega

/-- integer literal (denominator 1): zero or integer branch -/
theorem numOut_shape_int (om : Bool) (p : Parsed) (hf : p.isFloat = false) (hd : p.value.den = 1) :
    NumShape p (numOut om p) := by
  have hpi : printsInt p = true := by simp [printsInt, hf, Q.isInt, hd, Nat.mod_one]
  have hex : expected p = ⟨p.value.neg && p.value.num != 0, p.value.num, 1⟩ := by
    simp [expected, hf, hd]
  by_cases hz : p.value.num = 0
  · have hpz : printsZero p = true := by simp [printsZero, hf, Q.isZero, hz]
    have hno : numOut om p = [48] := by simp [numOut, hpz]
    have hex' : expected p = ⟨false, 0, 1⟩ := by rw [hex, hz]; simp
    refine NumShape.int [48] digit48 (by simp) hpi ?_ ?_
    · rw [hno, hex']; rfl
    · rw [hex']; exact ⟨rfl, rfl⟩
  · have hpz : printsZero p = false := by simp [printsZero, hf, Q.isZero, hz]
    have hip : intPart p = p.value.num := by simp [intPart, hf, hd]
    have hno : numOut om p = minus p.value.neg ++ natDigits p.value.num := by
      simp [numOut, hpz, hpi, hip, hz, minus]
    have hex' : expected p = ⟨p.value.neg, p.value.num, 1⟩ := by rw [hex]; simp [hz]
    refine NumShape.int (natDigits p.value.num) (natDigits_digits _) (natDigits_ne_nil _) hpi ?_ ?_
    · rw [hno, hex']
    · rw [hex', natDigits_val]
      exact ⟨rfl, rfl⟩

/-- float literal, the two fraction branches -/
theorem numOut_shape_float_frac (om : Bool) (p : Parsed) (hf : p.isFloat = true)
    (hsign : p.value.neg = (p.sign == some 45))
    (hi : round6 p.value % 1000000 ≠ 0) : NumShape p (numOut om p) := by
  have hz : round6 p.value ≠ 0 := by intro h; rw [h] at hi; exact hi rfl
  have hpi : printsInt p = false := by simp [printsInt, hf, hi]
  have hpz : printsZero p = false := by simp [printsZero, hf, hz]
  have hex : expected p = ⟨p.value.neg, round6 p.value, 1000000⟩ := by simp [expected, hf, hz]
  have hq0 : p.value.isZero = false := by
    cases h : p.value.isZero with
    | false => rfl
    | true =>
      exfalso; apply hz
      exact round6_num_zero _ (by simpa [Q.isZero] using h)
  have hfm := fmtF_dec p.value
  have hneg : (p.value.neg && !p.value.isZero) = p.value.neg := by simp [hq0]
  rw [hneg] at hfm
  have hlt : round6 p.value % 1000000 < 1000000 := Nat.mod_lt _ (by decide)
  have hdm := Nat.div_add_mod (round6 p.value) 1000000
  by_cases hbr : (om && printsSmall p) = true
  · -- leading zero omitted
    have hsm : round6 p.value < 1000000 := by
      simp only [Bool.and_eq_true] at hbr
      simpa [printsSmall, hf] using hbr.2
    have hk : round6 p.value / 1000000 = 0 := Nat.div_eq_of_lt hsm
    rw [hk, natDigits_zero] at hfm
    obtain ⟨fp, k, hst, hne, hfp, hpad⟩ := strip_shape p.value.neg [48] (round6 p.value % 1000000) digit48
    have hno : numOut om p = dec p.value.neg [] fp := by
      simp only [numOut, hpz, hpi, hbr, Bool.false_eq_true, if_false, if_true]
      rw [hfm, hst, ← hsign]
      exact omit_surgery p.value.neg fp
    refine NumShape.frac [] fp (by intro c hc; cases hc) hfp hne hpi ?_ ?_
    · rw [hno, hex]
    · rw [hex]
      refine ⟨rfl, ?_⟩
      have := shape_value [] fp k _ hlt hpad
      have hd0 : digitsVal [] = 0 := rfl
      rw [hd0, Nat.zero_mul, Nat.zero_add, Nat.mod_eq_of_lt hsm] at this
      exact this
  · have hbr' : (om && printsSmall p) = false := by
      cases h : (om && printsSmall p) with
      | false => rfl
      | true => exact absurd h hbr
    obtain ⟨fp, k, hst, hne, hfp, hpad⟩ :=
      strip_shape p.value.neg (natDigits (round6 p.value / 1000000)) (round6 p.value % 1000000) (natDigits_digits _)
    have hno : numOut om p = dec p.value.neg (natDigits (round6 p.value / 1000000)) fp := by
      simp only [numOut, hpz, hpi, hbr', Bool.false_eq_true, if_false]
      rw [hfm, hst]
    refine NumShape.frac (natDigits (round6 p.value / 1000000)) fp (natDigits_digits _) hfp hne hpi ?_ ?_
    · rw [hno, hex]
    · rw [hex]
      refine ⟨rfl, ?_⟩
      have := shape_value (natDigits (round6 p.value / 1000000)) fp k _ hlt hpad
      have e : round6 p.value / 1000000 * 1000000 + round6 p.value % 1000000 = round6 p.value :=
        Nat.div_add_mod' _ _
      rw [natDigits_val, e] at this
      exact this

/-- **the number text in every branch**: digits (zero and integer branches) or digits `.` digits
(the two float branches), denoting exactly the expected value with the expected sign -/
theorem numOut_shape (om : Bool) (p : Parsed) (hwf : WF p) : NumShape p (numOut om p) := by
  cases hf : p.isFloat with
  | false => exact numOut_shape_int om p hf (hwf.intDen hf)
  | true =>
    by_cases hi : round6 p.value % 1000000 = 0
    · exact numOut_shape_float_int om p hf hi
    · exact numOut_shape_float_frac om p hf hwf.neg hi

/-! ### reading a written number back -/

theorem splitSign_signText (sign : Option Nat) (hs : sign = none ∨ sign = some 43 ∨ sign = some 45)
    (body : Text) (hb : ∀ c ∈ body.head?, c ≠ 43 ∧ c ≠ 45) :
    splitSign (signText sign ++ body) = (sign, body) := by
  rcases hs with rfl | rfl | rfl
  · simp only [signText, List.nil_append]
    exact splitSign_none body hb
  · simp [splitSign, signText]
  · simp [splitSign, signText]

theorem digit_not_sign (c : Nat) (h : isDigit c = true) : c ≠ 43 ∧ c ≠ 45 := by
  simp only [isDigit, Bool.and_eq_true, decide_eq_true_eq] at h
  constructor <;> omega

/-- `splitNum` reads `[sign] ip rest` back as an integer literal when `rest` is a unit text -/
theorem splitNum_int (sign : Option Nat) (hs : sign = none ∨ sign = some 43 ∨ sign = some 45)
    (ip rest : List Nat) (hip : ∀ c ∈ ip, isDigit c = true) (hne : ip ≠ []) (hr : UnitText rest) :
    splitNum (signText sign ++ ip ++ rest) = some (sign, ip, none, rest) := by
  have h1 := takeWhile_digits ip rest hip hr.1
  have hipe : ip.isEmpty = false := by cases ip with | nil => exact absurd rfl hne | cons _ _ => rfl
  have hsplit : splitSign (signText sign ++ ip ++ rest) = (sign, ip ++ rest) := by
    rw [List.append_assoc]
    apply splitSign_signText _ hs
    intro c hc
    cases ip with
    | nil => exact absurd rfl hne
    | cons d ds =>
      simp at hc; rw [← hc]
      exact digit_not_sign d (hip d List.mem_cons_self)
  unfold splitNum
  simp only [hsplit, h1.1, h1.2, hipe, Bool.false_eq_true, if_false]
  split
  · rename_i r2
    have hdd := hr.2
    cases r2 with
    | nil => simp
    | cons c cs =>
      simp only [dotDigit] at hdd
      simp [hdd]
  · rfl

theorem minus_eq (neg : Bool) : minus neg = signText (if neg then some 45 else none) := by
  cases neg <;> rfl

theorem unitText_nil : UnitText [] := ⟨fun c hc => by simp at hc, rfl⟩

theorem decimalValue_int (neg : Bool) (ip : List Nat) (hip : ∀ c ∈ ip, isDigit c = true) (hne : ip ≠ []) :
    decimalValue (minus neg ++ ip) = some ⟨neg, digitsVal ip, 1⟩ := by
  have h := splitNum_int (if neg then some 45 else none) (by cases neg <;> simp) ip [] hip hne unitText_nil
  rw [List.append_nil] at h
  unfold decimalValue
  rw [minus_eq, h]
  cases neg <;> simp

/-- the value denoted by a number text of either shape -/
theorem shape_decimalValue (p : Parsed) (t : Text) (h : NumShape p t) :
    ∃ v, decimalValue t = some v ∧ Q.same v (expected p) ∧ 0 < v.den ∧ (printsInt p = true → v.den = 1) := by
  cases h with
  | int ip hip hne hint ht hv =>
    exact ⟨_, by rw [ht]; exact decimalValue_int _ ip hip hne, hv, Nat.zero_lt_one, fun _ => rfl⟩
  | frac ip fp hip hfp hne hint ht hv =>
    exact ⟨_, by rw [ht]; exact decimalValue_dec _ ip fp hip hfp hne, hv, Nat.pow_pos (by decide),
      fun h => by rw [hint] at h; cases h⟩

theorem expected_den_pos (p : Parsed) (hd : 0 < p.value.den) : 0 < (expected p).den := by
  unfold expected
  split
  · show 0 < 1000000
    omega
  · exact hd

/-- a zero is never given a sign -/
theorem expected_no_neg_zero (p : Parsed) (h : (expected p).num = 0) : (expected p).neg = false := by
  unfold expected at h ⊢
  split
  · rename_i hf; simp only [hf, if_true] at h; simp [h]
  · rename_i hf; simp only [hf] at h; simp at h; simp [h]

theorem same_num_zero (v e : Q) (h : Q.same v e) (hv : 0 < v.den) (he : 0 < e.den) : v.num = 0 ↔ e.num = 0 := by
  have h2 := h.2
  constructor
  · intro h0
    rw [h0, Nat.zero_mul] at h2
    rcases Nat.mul_eq_zero.mp h2.symm with h | h
    · exact h
    · omega
  · intro h0
    rw [h0, Nat.zero_mul] at h2
    rcases Nat.mul_eq_zero.mp h2 with h | h
    · exact h
    · omega

theorem printsZero_iff (p : Parsed) : printsZero p = true ↔ (expected p).num = 0 := by
  unfold printsZero expected
  cases p.isFloat <;> simp [Q.isZero]

theorem printsZero_int (p : Parsed) (h : printsZero p = true) : printsInt p = true := by
  unfold printsZero at h
  unfold printsInt
  cases hf : p.isFloat
  · simp only [hf, Bool.false_eq_true, if_false, Q.isZero, beq_iff_eq] at h ⊢
    simp [Q.isInt, h]
  · simp only [hf, if_true, beq_iff_eq] at h ⊢
    simp [h]

/-- **every branch, both settings**: the number text is a decimal text denoting the expected value -/
theorem reparse_all (om : Bool) (p : Parsed) (hwf : WF p) :
    ∃ v, decimalValue (numOut om p) = some v ∧ Q.same v (expected p) ∧ 0 < v.den ∧
      (v.num = 0 → v.neg = false) ∧ (printsInt p = true → v.den = 1) ∧
      (printsZero p = true ↔ v.num = 0) ∧ (printsZero p = true → v = ⟨false, 0, 1⟩) := by
  obtain ⟨v, hv, hs, hd, hi⟩ := shape_decimalValue p _ (numOut_shape om p hwf)
  have hed := expected_den_pos p hwf.den
  have hz := same_num_zero v _ hs hd hed
  have hnz : v.num = 0 → v.neg = false := fun h0 => by
    rw [hs.1]; exact expected_no_neg_zero p (hz.mp h0)
  have hpz : printsZero p = true ↔ v.num = 0 := (printsZero_iff p).trans hz.symm
  refine ⟨v, hv, hs, hd, hnz, hi, hpz, ?_⟩
  intro h
  have h1 := hi (printsZero_int p h)
  have h2 := hpz.mp h
  have h3 := hnz h2
  cases v
  simp only at h1 h2 h3
  rw [h1, h2, h3]

/-- in the integer branch the digits written are those of `int(num)` -/
theorem int_branch_num (p : Parsed) (v : Q) (hden : 0 < p.value.den) (hs : Q.same v (expected p))
    (hd : v.den = 1) : v.num = intPart p := by
  have h := hs.2
  unfold expected at h
  unfold intPart
  cases hf : p.isFloat
  · simp only [hf, Bool.false_eq_true, if_false] at h ⊢
    rw [hd, Nat.mul_one] at h
    exact (Nat.div_eq_of_eq_mul_left hden h.symm).symm
  · simp only [hf, if_true] at h ⊢
    rw [hd, Nat.mul_one] at h
    exact (Nat.div_eq_of_eq_mul_left (by omega) h.symm).symm

/-! ### within half a unit of the sixth place -/

theorem close_arith (m e r n d M : Nat) (h : m * M = r * e) (hb : 2 * (r * d - n * M) ≤ d) :
    2 * M * (m * d - n * e) ≤ d * e := by
  have e1 : M * (m * d) = e * (r * d) := by
    rw [← Nat.mul_assoc, Nat.mul_comm M m, h, Nat.mul_comm r e, Nat.mul_assoc]
  have e2 : M * (n * e) = e * (n * M) := by
    rw [Nat.mul_comm n e, Nat.mul_comm n M, ← Nat.mul_assoc, ← Nat.mul_assoc, Nat.mul_comm M e]
  have e3 : M * (m * d - n * e) = e * (r * d - n * M) := by
    rw [Nat.mul_sub, e1, e2, ← Nat.mul_sub]
  rw [Nat.mul_assoc, e3, ← Nat.mul_assoc, Nat.mul_comm 2 e, Nat.mul_assoc, Nat.mul_comm d e]
  exact Nat.mul_le_mul_left e hb

theorem close_arith' (m e r n d M : Nat) (h : m * M = r * e) (hb : 2 * (n * M - r * d) ≤ d) :
    2 * M * (n * e - m * d) ≤ d * e := by
  have e1 : M * (m * d) = e * (r * d) := by
    rw [← Nat.mul_assoc, Nat.mul_comm M m, h, Nat.mul_comm r e, Nat.mul_assoc]
  have e2 : M * (n * e) = e * (n * M) := by
    rw [Nat.mul_comm n e, Nat.mul_comm n M, ← Nat.mul_assoc, ← Nat.mul_assoc, Nat.mul_comm M e]
  have e3 : M * (n * e - m * d) = e * (n * M - r * d) := by
    rw [Nat.mul_sub, e1, e2, ← Nat.mul_sub]
  rw [Nat.mul_assoc, e3, ← Nat.mul_assoc, Nat.mul_comm 2 e, Nat.mul_assoc, Nat.mul_comm d e]
  exact Nat.mul_le_mul_left e hb

/-- the value read back is within half a unit of the sixth decimal place of the parsed value
(exactly it for integer literals), with the same sign unless it is zero -/
theorem reparse_close (om : Bool) (p : Parsed) (hwf : WF p) :
    ∃ v, decimalValue (numOut om p) = some v ∧ 0 < v.den ∧
      (v.neg = true → p.value.neg = true) ∧ (v.num ≠ 0 → v.neg = p.value.neg) ∧
      2 * 1000000 * (v.num * p.value.den - p.value.num * v.den) ≤ p.value.den * v.den ∧
      2 * 1000000 * (p.value.num * v.den - v.num * p.value.den) ≤ p.value.den * v.den := by
  obtain ⟨v, hv, hs, hd, hnz, _, hpz, _⟩ := reparse_all om p hwf
  have hed := expected_den_pos p hwf.den
  have hz := same_num_zero v _ hs hd hed
  refine ⟨v, hv, hd, ?_, ?_, ?_⟩
  · intro h
    rw [hs.1] at h
    unfold expected at h
    split at h <;> simp at h <;> exact h.1
  · intro h
    have h' : (expected p).num ≠ 0 := fun h0 => h (hz.mpr h0)
    rw [hs.1]
    unfold expected at h' ⊢
    split <;> rename_i hf <;> simp only [hf, if_true, Bool.false_eq_true, if_false] at h' <;> simp [h']
  · have h2 := hs.2
    unfold expected at h2
    cases hf : p.isFloat
    · simp only [hf, Bool.false_eq_true, if_false] at h2
      rw [h2]
      simp
    · simp only [hf, if_true] at h2
      obtain ⟨ha, hb⟩ := round6_error p.value hwf.den
      exact ⟨close_arith _ _ _ _ _ _ h2 ha, close_arith' _ _ _ _ _ _ h2 hb⟩

/-! ### re-parsing the whole written text -/

/-- the sign character `parseNum` finds in the written text -/
def signBack (p : Parsed) : Option Nat :=
  if p.sign == some 43 && !printsZero p then some 43 else if (expected p).neg then some 45 else none

theorem signBack_cases (p : Parsed) : signBack p = none ∨ signBack p = some 43 ∨ signBack p = some 45 := by
  unfold signBack
  split
  · simp
  · split <;> simp

theorem expected_neg_imp (p : Parsed) (h : (expected p).neg = true) : p.value.neg = true := by
  unfold expected at h
  split at h <;> simp at h <;> exact h.1

/-- `+` is only written in front of a number text without `-` -/
theorem sign_minus (p : Parsed) (hwf : WF p) :
    signOut p ++ minus (expected p).neg = signText (signBack p) ∧
    (signBack p == some 45) = (expected p).neg := by
  unfold signOut signBack
  by_cases h : (p.sign == some 43 && !printsZero p) = true
  · simp only [h, if_true]
    have hs : p.sign = some 43 := by
      simp only [Bool.and_eq_true, beq_iff_eq] at h; exact h.1
    have hn : (expected p).neg = false := by
      cases he : (expected p).neg with
      | false => rfl
      | true =>
        have := expected_neg_imp p he
        rw [hwf.neg, hs] at this
        cases this
    rw [hn]
    exact ⟨rfl, rfl⟩
  · simp only [h, Bool.false_eq_true, if_false]
    cases (expected p).neg <;> exact ⟨rfl, rfl⟩

theorem unitOut_head (p : Parsed) (h : ∀ c ∈ p.dim.head?, isDigit c = false) :
    ∀ c ∈ (unitOut p).head?, isDigit c = false := by
  unfold unitOut
  split
  · intro c hc; simp at hc
  · exact h

theorem unitOut_unitText (p : Parsed) (h : UnitText p.dim) : UnitText (unitOut p) := by
  unfold unitOut
  split
  · exact unitText_nil
  · exact h

/-- **the written text parses again**: with the sign, the unit and — for the number — the Python
number of the decimal value written (an `int`, or the correctly rounded double of a fraction text) -/
theorem reparse_text (om : Bool) (p : Parsed) (hwf : WF p) (hdim : printsInt p = true → UnitText p.dim) :
    ∃ v, decimalValue (numOut om p) = some v ∧ Q.same v (expected p) ∧
      parseNum (signOut p ++ numOut om p ++ unitOut p) =
        some ⟨signBack p, !printsInt p,
          if printsInt p then v else ⟨v.neg, (roundToDouble v.num v.den).1, (roundToDouble v.num v.den).2⟩,
          unitOut p⟩ := by
  obtain ⟨hsm, hsb⟩ := sign_minus p hwf
  cases numOut_shape om p hwf with
  | int ip hip hne hint ht hv =>
    refine ⟨_, by rw [ht]; exact decimalValue_int _ ip hip hne, hv, ?_⟩
    have htxt : signOut p ++ numOut om p ++ unitOut p = signText (signBack p) ++ ip ++ unitOut p := by
      rw [ht, ← List.append_assoc, hsm]
    rw [htxt, parseNum_int _ _ _ _ (splitNum_int _ (signBack_cases p) ip _ hip hne (unitOut_unitText p (hdim hint)))]
    simp only [hint, hsb, Bool.not_true, if_true]
  | frac ip fp hip hfp hne hint ht hv =>
    refine ⟨_, by rw [ht]; exact decimalValue_dec _ ip fp hip hfp hne, hv, ?_⟩
    have htxt : signOut p ++ numOut om p ++ unitOut p
        = signText (signBack p) ++ ip ++ 46 :: fp ++ unitOut p := by
      rw [ht]
      unfold dec
      show signOut p ++ (minus (expected p).neg ++ ip ++ 46 :: fp) ++ unitOut p = _
      rw [← hsm]
      simp
    rw [htxt, parseNum_float _ _ _ _ _ (splitNum_float _ (signBack_cases p) ip fp _ hip hfp hne
      (unitOut_head p hwf.dimHead))]
    simp only [hint, hsb, Bool.not_false, Bool.false_eq_true, if_false]

/-- `UnitText` is exactly the set of units `parseNum` produces after an integer literal -/
theorem unitText_of_parse (t : Text) (p : Parsed) (h : parseNum t = some p) (hf : p.isFloat = false) :
    UnitText p.dim :=
  ⟨(parseNum_wf t p h).dimHead, (parseNum_wf t p h).dimInt hf⟩

theorem unitText_produced (d : Text) (h : UnitText d) : ∃ p, parseNum (49 :: d) = some p ∧ p.dim = d := by
  have := splitNum_int none (Or.inl rfl) [49] d (by intro c hc; simp at hc; subst hc; decide) (by simp) h
  exact ⟨_, parseNum_int _ _ _ _ this, rfl⟩

end CssVerif.Number
