import CssVerif.Model.Owners
namespace CssVerif.Owners

@[simp] theorem set_same (st : St) (x : Nat) (o : Obj) : (set st x o).objs x = o := by simp [set]
theorem set_other (st : St) (x y : Nat) (o : Obj) (h : y ≠ x) : (set st x o).objs y = st.objs y := by
  simp [set, h]
@[simp] theorem set_next (st : St) (x : Nat) (o : Obj) : (set st x o).next = st.next := rfl
theorem set_objs (st : St) (x y : Nat) (o : Obj) : (set st x o).objs y = if y = x then o else st.objs y := rfl

/-- `Consistent st r`: the executable check of Model/Owners.lean holds -/
def Consistent (st : St) (r : Nat) : Prop := consistent st r = true

/-- ids at or above the counter are unused -/
def Fresh (st : St) : Prop := ∀ i, st.next ≤ i → st.objs i = .free

theorem lt_next {st : St} (hf : Fresh st) {i : Nat} (h : st.objs i ≠ .free) : i < st.next := by
  apply Nat.lt_of_not_le; intro hle; exact h (hf i hle)

/-! ### the check, spelled out -/

theorem valueOk_iff (st : St) (p v : Nat) : valueOk st p v = true ↔ st.objs v = .value (some p) := by
  unfold valueOk; split <;> simp_all

theorem propOk_iff (st : St) (b p : Nat) :
    propOk st b p = true ↔ ∃ n v, st.objs p = .prop (some b) n v ∧ st.objs v = .value (some p) := by
  unfold propOk; split <;> simp_all [valueOk_iff] <;> grind

theorem selOk_iff (st : St) (l s : Nat) : selOk st l s = true ↔ ∃ t, st.objs s = .sel (some l) t := by
  unfold selOk; split <;> simp_all

theorem mediaOk_iff (st : St) (r m : Nat) : mediaOk st r m = true ↔ st.objs m = .media (some r) := by
  unfold mediaOk; split <;> simp_all

theorem blockOk_iff (st : St) (r b : Nat) :
    blockOk st r b = true ↔ ∃ ps, st.objs b = .block (some r) ps ∧ ∀ p ∈ ps, propOk st b p = true := by
  unfold blockOk; split <;> simp_all <;> grind

theorem selListOk_iff (st : St) (r l : Nat) :
    selListOk st r l = true ↔ ∃ ss, st.objs l = .sellist (some r) ss ∧ ∀ s ∈ ss, selOk st l s = true := by
  unfold selListOk; split <;> simp_all <;> grind

theorem consistent_iff (st : St) (r : Nat) :
    Consistent st r ↔ ∃ s l m, st.objs r = .rule s l m ∧ (∀ b, s = some b → blockOk st r b = true) ∧
      (∀ x, l = some x → selListOk st r x = true) ∧ (∀ x, m = some x → mediaOk st r x = true) := by
  unfold Consistent consistent; split
  · next s l m h =>
    cases s <;> cases l <;> cases m <;> simp [h, and_assoc]
  · simp_all

/-! ### creation only touches unused ids -/

/-- `st'` extends `st`: ids below the old counter and above the new one are untouched -/
structure Ext (st st' : St) : Prop where
  le : st.next ≤ st'.next
  low : ∀ i, i < st.next → st'.objs i = st.objs i
  high : ∀ i, st'.next ≤ i → st'.objs i = st.objs i

theorem Ext.refl (st : St) : Ext st st := ⟨Nat.le_refl _, fun _ _ => rfl, fun _ _ => rfl⟩

theorem Ext.trans {a b c : St} (h1 : Ext a b) (h2 : Ext b c) : Ext a c :=
  ⟨Nat.le_trans h1.le h2.le,
   fun i hi => (h2.low i (Nat.lt_of_lt_of_le hi h1.le)).trans (h1.low i hi),
   fun i hi => (h2.high i hi).trans (h1.high i (Nat.le_trans h2.le hi))⟩

theorem Ext.fresh {a b : St} (h : Ext a b) (hf : Fresh a) : Fresh b :=
  fun i hi => (h.high i hi).trans (hf i (Nat.le_trans h.le hi))

theorem Ext.bump (st : St) (k : Nat) : Ext st { st with next := st.next + k } :=
  ⟨Nat.le_add_right _ _, fun _ _ => rfl, fun _ _ => rfl⟩

theorem Ext.set {a b : St} (h : Ext a b) (x : Nat) (o : Obj) (h1 : a.next ≤ x) (h2 : x < b.next) :
    Ext a (set b x o) :=
  ⟨h.le, fun i hi => by rw [set_other _ _ _ _ (by omega)]; exact h.low i hi,
   fun i hi => by rw [set_other _ _ _ _ (by simp at hi; omega)]; exact h.high i hi⟩

/-- allocated objects are untouched -/
def Keeps (st st' : St) : Prop := ∀ i, st.objs i ≠ .free → st'.objs i = st.objs i

theorem Ext.keeps {a b : St} (h : Ext a b) (hf : Fresh a) : Keeps a b := fun i hi => h.low i (lt_next hf hi)

theorem Keeps.at {st st' : St} (k : Keeps st st') {i : Nat} {o : Obj} (h : st.objs i = o) (ho : o ≠ .free := by simp) :
    st'.objs i = o := by rw [k i (by rw [h]; exact ho), h]

theorem Keeps.propOk {st st' : St} (k : Keeps st st') {b p : Nat} (h : propOk st b p = true) :
    propOk st' b p = true := by
  rw [propOk_iff] at h ⊢
  obtain ⟨n, v, h1, h2⟩ := h
  exact ⟨n, v, k.at h1, k.at h2⟩

theorem Keeps.selOk {st st' : St} (k : Keeps st st') {l s : Nat} (h : selOk st l s = true) :
    selOk st' l s = true := by
  rw [selOk_iff] at h ⊢
  obtain ⟨t, h1⟩ := h
  exact ⟨t, k.at h1⟩

theorem Keeps.blockOk {st st' : St} (k : Keeps st st') {r b : Nat} (h : blockOk st r b = true) :
    blockOk st' r b = true := by
  rw [blockOk_iff] at h ⊢
  obtain ⟨ps, h1, h2⟩ := h
  exact ⟨ps, k.at h1, fun p hp => k.propOk (h2 p hp)⟩

theorem Keeps.selListOk {st st' : St} (k : Keeps st st') {r l : Nat} (h : selListOk st r l = true) :
    selListOk st' r l = true := by
  rw [selListOk_iff] at h ⊢
  obtain ⟨ss, h1, h2⟩ := h
  exact ⟨ss, k.at h1, fun p hp => k.selOk (h2 p hp)⟩

theorem Keeps.mediaOk {st st' : St} (k : Keeps st st') {r m : Nat} (h : mediaOk st r m = true) :
    mediaOk st' r m = true := by
  rw [mediaOk_iff] at h ⊢
  exact k.at h

theorem Keeps.consistent {st st' : St} (k : Keeps st st') {r : Nat} (h : Consistent st r) : Consistent st' r := by
  rw [consistent_iff] at h ⊢
  obtain ⟨s, l, m, h0, h1, h2, h3⟩ := h
  exact ⟨s, l, m, k.at h0, fun b hb => k.blockOk (h1 b hb), fun x hx => k.selListOk (h2 x hx),
    fun x hx => k.mediaOk (h3 x hx)⟩

/-! ### what the constructors build -/

theorem newProp_spec (st : St) (par : Option Nat) (n : Nat) :
    Ext st (newProp st par n).1 ∧ (newProp st par n).2 = st.next ∧ (newProp st par n).1.next = st.next + 2 ∧
    (newProp st par n).1.objs st.next = .prop par n (st.next + 1) ∧
    (newProp st par n).1.objs (st.next + 1) = .value (some st.next) := by
  refine ⟨?_, rfl, rfl, ?_, ?_⟩
  · exact ((Ext.bump st 2).set _ _ (Nat.le_refl _) (by simp)).set _ _ (by simp) (by simp)
  · simp [newProp, set_objs]
  · simp [newProp]

/-- a property object with its value, whatever its owner field says -/
def PropAt (st : St) (par : Option Nat) (lo : Nat) (p : Nat) : Prop :=
  ∃ n v, lo ≤ p ∧ p < st.next ∧ lo ≤ v ∧ v < st.next ∧ st.objs p = .prop par n v ∧ st.objs v = .value (some p)

theorem PropAt.ext {st st' : St} (h : Ext st st') {par : Option Nat} {lo : Nat} {p : Nat} (hp : PropAt st par lo p) :
    PropAt st' par lo p := by
  obtain ⟨n, v, a, b, c, d, e, f⟩ := hp
  exact ⟨n, v, a, Nat.lt_of_lt_of_le b h.le, c, Nat.lt_of_lt_of_le d h.le, (h.low p b).trans e, (h.low v d).trans f⟩

theorem newProps_spec (par : Option Nat) (names : List Nat) : ∀ st : St,
    Ext st (newProps st par names).1 ∧ ∀ p ∈ (newProps st par names).2, PropAt (newProps st par names).1 par st.next p := by
  induction names with
  | nil => intro st; exact ⟨Ext.refl st, by simp [newProps]⟩
  | cons n ns ih =>
    intro st
    obtain ⟨e1, h2, h3, h4, h5⟩ := newProp_spec st par n
    obtain ⟨e2, hps⟩ := ih (newProp st par n).1
    refine ⟨e1.trans e2, ?_⟩
    intro p hp
    simp only [newProps, List.mem_cons] at hp
    rcases hp with hp | hp
    · rw [h2] at hp; subst hp
      exact PropAt.ext e2 ⟨n, st.next + 1, Nat.le_refl _, by omega, by omega, by omega, h4, h5⟩
    · obtain ⟨n', v, a, b, c, d, e, f⟩ := hps p hp
      exact ⟨n', v, by omega, b, by omega, d, e, f⟩

theorem newBlock_spec (st : St) (par : Option Nat) (names : List Nat) :
    Ext st (newBlock st par names).1 ∧ (newBlock st par names).2 = st.next ∧
    ∃ ps, (newBlock st par names).1.objs st.next = .block par ps ∧
      ∀ p ∈ ps, propOk (newBlock st par names).1 st.next p = true := by
  obtain ⟨e, hps⟩ := newProps_spec (some st.next) names { st with next := st.next + 1 }
  refine ⟨?_, rfl, _, set_same _ _ _, ?_⟩
  · exact ((Ext.bump st 1).trans e).set _ _ (Nat.le_refl _) (Nat.lt_of_lt_of_le (Nat.lt_succ_self _) e.le)
  · intro p hp
    obtain ⟨n, v, a, _, c, _, h1, h2⟩ := hps p hp
    simp only [] at a c
    rw [propOk_iff]
    refine ⟨n, v, ?_, ?_⟩
    · simp only [newBlock]; rw [set_other _ _ _ _ (by omega)]; exact h1
    · simp only [newBlock]; rw [set_other _ _ _ _ (by omega)]; exact h2

theorem newSel_spec (st : St) (par : Option Nat) (t : Nat) :
    Ext st (newSel st par t).1 ∧ (newSel st par t).2 = st.next ∧ (newSel st par t).1.next = st.next + 1 ∧
    (newSel st par t).1.objs st.next = .sel par t :=
  ⟨(Ext.bump st 1).set _ _ (Nat.le_refl _) (by simp), rfl, rfl, by simp [newSel]⟩

def SelAt (st : St) (par : Option Nat) (lo : Nat) (s : Nat) : Prop :=
  ∃ t, lo ≤ s ∧ s < st.next ∧ st.objs s = .sel par t

theorem newSels_spec (par : Option Nat) (texts : List Nat) : ∀ st : St,
    Ext st (newSels st par texts).1 ∧ ∀ s ∈ (newSels st par texts).2, SelAt (newSels st par texts).1 par st.next s := by
  induction texts with
  | nil => intro st; exact ⟨Ext.refl st, by simp [newSels]⟩
  | cons t ts ih =>
    intro st
    obtain ⟨e1, h2, h3, h4⟩ := newSel_spec st par t
    obtain ⟨e2, hss⟩ := ih (newSel st par t).1
    refine ⟨e1.trans e2, ?_⟩
    intro s hs
    simp only [newSels, List.mem_cons] at hs
    rcases hs with hs | hs
    · rw [h2] at hs; subst hs
      exact ⟨t, Nat.le_refl _, Nat.lt_of_lt_of_le (by omega) e2.le, (e2.low _ (by omega)).trans h4⟩
    · obtain ⟨t', a, b, c⟩ := hss s hs
      exact ⟨t', by omega, b, c⟩

theorem newSelList_spec (st : St) (par : Option Nat) (texts : List Nat) :
    Ext st (newSelList st par texts).1 ∧ (newSelList st par texts).2 = st.next ∧
    ∃ ss, (newSelList st par texts).1.objs st.next = .sellist par ss ∧
      ∀ s ∈ ss, selOk (newSelList st par texts).1 st.next s = true := by
  obtain ⟨e, hss⟩ := newSels_spec (some st.next) texts { st with next := st.next + 1 }
  refine ⟨?_, rfl, _, set_same _ _ _, ?_⟩
  · exact ((Ext.bump st 1).trans e).set _ _ (Nat.le_refl _) (Nat.lt_of_lt_of_le (Nat.lt_succ_self _) e.le)
  · intro s hs
    obtain ⟨t, a, _, h1⟩ := hss s hs
    simp only [] at a
    rw [selOk_iff]
    refine ⟨t, ?_⟩
    simp only [newSelList]; rw [set_other _ _ _ _ (by omega)]; exact h1

theorem newMedia_spec (st : St) (par : Option Nat) :
    Ext st (newMedia st par).1 ∧ (newMedia st par).2 = st.next ∧ (newMedia st par).1.objs st.next = .media par :=
  ⟨(Ext.bump st 1).set _ _ (Nat.le_refl _) (by simp), rfl, by simp [newMedia]⟩

theorem Keeps.trans {a b c : St} (h1 : Keeps a b) (h2 : Keeps b c) : Keeps a c := fun i hi => by
  have := h1 i hi
  rw [h2 i (by rw [this]; exact hi), this]

theorem keeps_set_free {st : St} {x : Nat} (o : Obj) (h : st.objs x = .free) : Keeps st (set st x o) :=
  fun _ hi => set_other _ _ _ _ (fun e => hi (e ▸ h))

theorem optSelList_spec (st : St) (r : Nat) (sels : Option (List Nat)) :
    Ext st (optSelList st r sels).1 ∧ ∀ x, (optSelList st r sels).2 = some x →
      st.next ≤ x ∧ selListOk (optSelList st r sels).1 r x = true := by
  cases sels with
  | none => exact ⟨Ext.refl _, by simp [optSelList]⟩
  | some ts =>
    obtain ⟨e, h1, ss, h2, h3⟩ := newSelList_spec st (some r) ts
    refine ⟨e, fun x hx => ?_⟩
    simp only [optSelList, h1, Option.some.injEq] at hx; subst hx
    exact ⟨Nat.le_refl _, (selListOk_iff _ _ _).2 ⟨ss, h2, h3⟩⟩

theorem optBlock_spec (st : St) (r : Nat) (decls : Option (List Nat)) :
    Ext st (optBlock st r decls).1 ∧ ∀ x, (optBlock st r decls).2 = some x →
      st.next ≤ x ∧ blockOk (optBlock st r decls).1 r x = true := by
  cases decls with
  | none => exact ⟨Ext.refl _, by simp [optBlock]⟩
  | some ns =>
    obtain ⟨e, h1, ps, h2, h3⟩ := newBlock_spec st (some r) ns
    refine ⟨e, fun x hx => ?_⟩
    simp only [optBlock, h1, Option.some.injEq] at hx; subst hx
    exact ⟨Nat.le_refl _, (blockOk_iff _ _ _).2 ⟨ps, h2, h3⟩⟩

theorem optMedia_spec (st : St) (r : Nat) (media : Bool) :
    Ext st (optMedia st r media).1 ∧ ∀ x, (optMedia st r media).2 = some x →
      st.next ≤ x ∧ mediaOk (optMedia st r media).1 r x = true := by
  cases media with
  | false => exact ⟨Ext.refl _, by simp [optMedia]⟩
  | true =>
    obtain ⟨e, h1, h2⟩ := newMedia_spec st (some r)
    refine ⟨e, fun x hx => ?_⟩
    simp only [optMedia, h1, Option.some.injEq] at hx; subst hx
    exact ⟨Nat.le_refl _, (mediaOk_iff _ _ _).2 h2⟩

/-- a freshly parsed rule is consistent -/
theorem newRule_spec (st : St) (sels decls : Option (List Nat)) (media : Bool) (hf : Fresh st) :
    Ext st (newRule st sels decls media).1 ∧ (newRule st sels decls media).2 = st.next ∧
    Consistent (newRule st sels decls media).1 st.next := by
  have e0 := Ext.bump st 1
  obtain ⟨ea, ha⟩ := optSelList_spec { st with next := st.next + 1 } st.next sels
  obtain ⟨eb, hb⟩ := optBlock_spec (optSelList { st with next := st.next + 1 } st.next sels).1 st.next decls
  obtain ⟨ec, hc⟩ := optMedia_spec (optBlock (optSelList { st with next := st.next + 1 } st.next sels).1 st.next decls).1
    st.next media
  have fa := ea.fresh (e0.fresh hf)
  have fb := eb.fresh fa
  have fc := ec.fresh fb
  have eall := (e0.trans ea).trans (eb.trans ec)
  have hfree : (optMedia (optBlock (optSelList { st with next := st.next + 1 } st.next sels).1 st.next decls).1
      st.next media).1.objs st.next = .free := by
    rw [(ea.trans (eb.trans ec)).low _ (Nat.lt_succ_self _)]; exact hf _ (Nat.le_refl _)
  have kc := keeps_set_free (.rule (optBlock (optSelList { st with next := st.next + 1 } st.next sels).1 st.next decls).2
      (optSelList { st with next := st.next + 1 } st.next sels).2
      (optMedia (optBlock (optSelList { st with next := st.next + 1 } st.next sels).1 st.next decls).1 st.next media).2) hfree
  refine ⟨eall.set _ _ (Nat.le_refl _) (Nat.lt_of_lt_of_le (Nat.lt_succ_self _) (ea.trans (eb.trans ec)).le), rfl, ?_⟩
  rw [consistent_iff]
  refine ⟨_, _, _, set_same _ _ _, fun x hx => ?_, fun x hx => ?_, fun x hx => ?_⟩
  · exact ((ec.keeps fb).trans kc).blockOk (hb x hx).2
  · exact (((eb.keeps fa).trans (ec.keeps fb)).trans kc).selListOk (ha x hx).2
  · exact kc.mediaOk (hc x hx).2

/-! ### adoption and in-place replacement: two writes, everything else is framed by the object kinds -/

theorem setStyleObj_ok {st : St} {r0 x r : Nat} (hc : Consistent st r)
    (hin : r = r0 → ∀ pr ps, st.objs x = .block pr ps → ∀ p ∈ ps, propOk st x p = true)
    (hno : r ≠ r0 → ∀ s l m, st.objs r = .rule s l m → s ≠ some x) :
    Consistent (setStyleObj st r0 x) r := by
  unfold setStyleObj
  split
  · next s0 l0 m0 pr ps hr0 hx =>
    rw [consistent_iff] at hc ⊢
    obtain ⟨s, l, m, h0, h1, h2, h3⟩ := hc
    simp only [blockOk_iff, selListOk_iff, mediaOk_iff, propOk_iff, selOk_iff, set_objs] at *
    grind
  · exact hc

theorem setSelListObj_ok {st : St} {r0 x r : Nat} (hc : Consistent st r)
    (hin : r = r0 → ∀ pr ss, st.objs x = .sellist pr ss → ∀ s ∈ ss, selOk st x s = true)
    (hno : r ≠ r0 → ∀ s l m, st.objs r = .rule s l m → l ≠ some x) :
    Consistent (setSelListObj st r0 x) r := by
  unfold setSelListObj
  split
  · next s0 l0 m0 pr ps hr0 hx =>
    rw [consistent_iff] at hc ⊢
    obtain ⟨s, l, m, h0, h1, h2, h3⟩ := hc
    simp only [blockOk_iff, selListOk_iff, mediaOk_iff, propOk_iff, selOk_iff, set_objs] at *
    grind
  · exact hc

theorem setMediaObj_ok {st : St} {r0 x r : Nat} (hc : Consistent st r)
    (hno : r ≠ r0 → ∀ s l m, st.objs r = .rule s l m → m ≠ some x) :
    Consistent (setMediaObj st r0 x) r := by
  unfold setMediaObj
  split
  · next s0 l0 m0 pr hr0 hx =>
    rw [consistent_iff] at hc ⊢
    obtain ⟨s, l, m, h0, h1, h2, h3⟩ := hc
    simp only [blockOk_iff, selListOk_iff, mediaOk_iff, propOk_iff, selOk_iff, set_objs] at *
    grind
  · exact hc

theorem replaceProps_ok {st : St} {b r : Nat} {pr : Option Nat} {old new : List Nat} (hc : Consistent st r)
    (hb : st.objs b = .block pr old)
    (hnew : ∀ l m, st.objs r = .rule (some b) l m → ∀ p ∈ new, propOk st b p = true) :
    Consistent (set st b (.block pr new)) r := by
  rw [consistent_iff] at hc ⊢
  obtain ⟨s, l, m, h0, h1, h2, h3⟩ := hc
  simp only [blockOk_iff, selListOk_iff, mediaOk_iff, propOk_iff, selOk_iff, set_objs] at *
  grind

theorem replaceSels_ok {st : St} {l0 r : Nat} {pr : Option Nat} {old new : List Nat} (hc : Consistent st r)
    (hb : st.objs l0 = .sellist pr old)
    (hnew : ∀ s m, st.objs r = .rule s (some l0) m → ∀ p ∈ new, selOk st l0 p = true) :
    Consistent (set st l0 (.sellist pr new)) r := by
  rw [consistent_iff] at hc ⊢
  obtain ⟨s, l, m, h0, h1, h2, h3⟩ := hc
  simp only [blockOk_iff, selListOk_iff, mediaOk_iff, propOk_iff, selOk_iff, set_objs] at *
  grind

theorem reparentProp_ok {st : St} {b0 p r n v : Nat} {par : Option Nat} (hc : Consistent st r)
    (hp : st.objs p = .prop par n v)
    (hno : ∀ b l m, st.objs r = .rule (some b) l m → b ≠ b0 → ∀ pr ps, st.objs b = .block pr ps → p ∉ ps) :
    Consistent (set st p (.prop (some b0) n v)) r := by
  rw [consistent_iff] at hc ⊢
  obtain ⟨s, l, m, h0, h1, h2, h3⟩ := hc
  simp only [blockOk_iff, selListOk_iff, mediaOk_iff, propOk_iff, selOk_iff, set_objs] at *
  grind

theorem reparentSel_ok {st : St} {l0 x r t : Nat} {par : Option Nat} (hc : Consistent st r)
    (hx : st.objs x = .sel par t)
    (hno : ∀ s l m, st.objs r = .rule s (some l) m → l ≠ l0 → ∀ pr ss, st.objs l = .sellist pr ss → x ∉ ss) :
    Consistent (set st x (.sel (some l0) t)) r := by
  rw [consistent_iff] at hc ⊢
  obtain ⟨s, l, m, h0, h1, h2, h3⟩ := hc
  simp only [blockOk_iff, selListOk_iff, mediaOk_iff, propOk_iff, selOk_iff, set_objs] at *
  grind
theorem setPropObj_ok {st : St} {b0 p r : Nat} (hc : Consistent st r)
    (hin : ∀ l m, st.objs r = .rule (some b0) l m → ∀ par n v, st.objs p = .prop par n v → valueOk st p v = true)
    (hno : ∀ b l m, st.objs r = .rule (some b) l m → b ≠ b0 → ∀ pr ps, st.objs b = .block pr ps → p ∉ ps) :
    Consistent (setPropObj st b0 p) r := by
  unfold setPropObj
  split
  · next pr0 ps0 par n v hb0 hp =>
    split
    · exact hc
    · have hpb : b0 ≠ p := fun e => by rw [e, hp] at hb0; cases hb0
      have hc1 := reparentProp_ok (b0 := b0) hc hp hno
      refine replaceProps_ok hc1 (old := ps0) (by rw [set_other _ _ _ _ hpb]; exact hb0) ?_
      intro l m hr q hq
      have hrp : r ≠ p := fun e => by rw [e, set_same] at hr; cases hr
      rw [set_other _ _ _ _ hrp] at hr
      rcases List.mem_append.1 hq with hq | hq
      · have := hc1
        rw [consistent_iff] at this
        obtain ⟨s', l', m', h0, h1, -, -⟩ := this
        rw [set_other _ _ _ _ hrp, hr] at h0
        cases h0
        obtain ⟨ps, h4, h5⟩ := (blockOk_iff _ _ _).1 (h1 b0 rfl)
        rw [set_other _ _ _ _ hpb, hb0] at h4
        cases h4
        exact h5 q hq
      · simp only [List.mem_singleton] at hq; subst hq
        have hv := (valueOk_iff _ _ _).1 (hin l m hr par n v hp)
        have hvp : v ≠ q := fun e => by rw [e, hp] at hv; cases hv
        exact (propOk_iff _ _ _).2 ⟨n, v, set_same _ _ _, by rw [set_other _ _ _ _ hvp]; exact hv⟩
  · exact hc

theorem appendSelObj_ok {st : St} {l0 x r : Nat} (hc : Consistent st r)
    (hno : ∀ s l m, st.objs r = .rule s (some l) m → l ≠ l0 → ∀ pr ss, st.objs l = .sellist pr ss → x ∉ ss) :
    Consistent (appendSelObj st l0 x) r := by
  unfold appendSelObj
  split
  · next pr0 ss0 par t hl0 hx =>
    have hlx : l0 ≠ x := fun e => by rw [e, hx] at hl0; cases hl0
    have hc1 := reparentSel_ok (l0 := l0) hc hx hno
    refine replaceSels_ok hc1 (old := ss0) (by rw [set_other _ _ _ _ hlx]; exact hl0) ?_
    intro s m hr q hq
    have hrx : r ≠ x := fun e => by rw [e, set_same] at hr; cases hr
    rcases List.mem_append.1 hq with hq | hq
    · have := hc1
      rw [consistent_iff] at this
      obtain ⟨s', l', m', h0, -, h2, -⟩ := this
      rw [hr] at h0
      cases h0
      obtain ⟨ss, h4, h5⟩ := (selListOk_iff _ _ _).1 (h2 l0 rfl)
      rw [set_other _ _ _ _ hlx, hl0] at h4
      cases h4
      exact h5 q (List.mem_filter.1 hq).1
    · simp only [List.mem_singleton] at hq; subst hq
      exact (selOk_iff _ _ _).2 ⟨t, set_same _ _ _⟩
  · exact hc

/-! ### the counter stays ahead of every allocated id -/

theorem fresh_set {st : St} (hf : Fresh st) {x : Nat} (o : Obj) (hx : st.objs x ≠ .free) : Fresh (set st x o) :=
  fun i hi => by
    have := lt_next hf hx
    rw [set_other _ _ _ _ (by simp at hi; omega)]; exact hf i hi

theorem fresh_set2 {st : St} (hf : Fresh st) {x y : Nat} (o o' : Obj) (hx : st.objs x ≠ .free)
    (hy : st.objs y ≠ .free) : Fresh (set (set st x o) y o') :=
  fun i hi => by
    have := lt_next hf hx
    have := lt_next hf hy
    rw [set_other _ _ _ _ (by simp at hi; omega), set_other _ _ _ _ (by simp at hi; omega)]; exact hf i hi

theorem setStyleObj_fresh {st : St} (hf : Fresh st) (r x : Nat) : Fresh (setStyleObj st r x) := by
  unfold setStyleObj; split
  · next h1 h2 => exact fresh_set2 hf _ _ (by simp [h2]) (by simp [h1])
  · exact hf
theorem setSelListObj_fresh {st : St} (hf : Fresh st) (r x : Nat) : Fresh (setSelListObj st r x) := by
  unfold setSelListObj; split
  · next h1 h2 => exact fresh_set2 hf _ _ (by simp [h2]) (by simp [h1])
  · exact hf
theorem setMediaObj_fresh {st : St} (hf : Fresh st) (r x : Nat) : Fresh (setMediaObj st r x) := by
  unfold setMediaObj; split
  · next h1 h2 => exact fresh_set2 hf _ _ (by simp [h2]) (by simp [h1])
  · exact hf
theorem setPropObj_fresh {st : St} (hf : Fresh st) (b p : Nat) : Fresh (setPropObj st b p) := by
  unfold setPropObj; split
  · next h1 h2 =>
    split
    · exact hf
    · exact fresh_set2 hf _ _ (by simp [h2]) (by simp [h1])
  · exact hf
theorem appendSelObj_fresh {st : St} (hf : Fresh st) (l s : Nat) : Fresh (appendSelObj st l s) := by
  unfold appendSelObj; split
  · next h1 h2 => exact fresh_set2 hf _ _ (by simp [h2]) (by simp [h1])
  · exact hf

theorem step_fresh {st : St} (hf : Fresh st) (op : Op) : Fresh (step st op) := by
  cases op with
  | styleText r ns => exact setStyleObj_fresh ((newBlock_spec st (some r) ns).1.fresh hf) _ _
  | styleObj r x => exact setStyleObj_fresh hf _ _
  | ruleText r ts ns =>
    exact setStyleObj_fresh ((newBlock_spec _ (some r) ns).1.fresh
      (setSelListObj_fresh ((newSelList_spec st (some r) ts).1.fresh hf) _ _)) _ _
  | blockText b ns =>
    simp only [step, setBlockText]; split
    · next h =>
      have e := (newProps_spec (some b) ns st).1
      exact fresh_set (e.fresh hf) _ (by rw [e.low b (lt_next hf (by simp [h])), h]; simp)
    · exact hf
  | propText b n =>
    simp only [step, setPropText]; split
    · split
      · exact hf
      · exact setPropObj_fresh ((newProp_spec st (some b) n).1.fresh hf) _ _
    · exact hf
  | propObj b p => exact setPropObj_fresh hf _ _
  | removeProp b n =>
    simp only [step, removeProp]; split
    · next h => exact fresh_set hf _ (by simp [h])
    · exact hf
  | selectorText r ts =>
    simp only [step, setSelectorText]; split
    · exact hf
    · exact setSelListObj_fresh ((newSelList_spec st (some r) ts).1.fresh hf) _ _
  | selListObj r x => exact setSelListObj_fresh hf _ _
  | selListText l ts =>
    simp only [step, setSelListText]; split
    · next h =>
      split
      · exact hf
      · have e := (newSels_spec (some l) ts st).1
        exact fresh_set (e.fresh hf) _ (by rw [e.low l (lt_next hf (by simp [h])), h]; simp)
    · exact hf
  | appendSelText l t => exact appendSelObj_fresh ((newSel_spec st (some l) t).1.fresh hf) _ _
  | appendSelObj l s => exact appendSelObj_fresh hf _ _
  | mediaText r => exact setMediaObj_fresh ((newMedia_spec st (some r)).1.fresh hf) _ _
  | mediaObj r x => exact setMediaObj_fresh hf _ _
  | mediaEdit m => exact hf
  | mkBlock ns => exact (newBlock_spec st none ns).1.fresh hf
  | mkProp n => exact (newProp_spec st none n).1.fresh hf
  | mkSelList ts => exact (newSelList_spec st none ts).1.fresh hf
  | mkSel t => exact (newSel_spec st none t).1.fresh hf
  | mkMedia => exact (newMedia_spec st none).1.fresh hf
  | mkRule ss ds m => exact (newRule_spec st ss ds m hf).1.fresh hf

/-! ### text assignment: the constructor already wrote the owner, so the fresh object is listed nowhere else -/

theorem style_of {st : St} {r b : Nat} {l m : Option Nat} (hc : Consistent st r) (hr : st.objs r = .rule (some b) l m) :
    ∃ ps, st.objs b = .block (some r) ps ∧ ∀ p ∈ ps, propOk st b p = true := by
  rw [consistent_iff] at hc
  obtain ⟨s', l', m', h0, h1, -, -⟩ := hc
  rw [hr] at h0; cases h0
  exact (blockOk_iff _ _ _).1 (h1 b rfl)

theorem sellist_of {st : St} {r x : Nat} {s m : Option Nat} (hc : Consistent st r) (hr : st.objs r = .rule s (some x) m) :
    ∃ ss, st.objs x = .sellist (some r) ss ∧ ∀ q ∈ ss, selOk st x q = true := by
  rw [consistent_iff] at hc
  obtain ⟨s', l', m', h0, -, h2, -⟩ := hc
  rw [hr] at h0; cases h0
  exact (selListOk_iff _ _ _).1 (h2 x rfl)

theorem media_of {st : St} {r x : Nat} {s l : Option Nat} (hc : Consistent st r) (hr : st.objs r = .rule s l (some x)) :
    st.objs x = .media (some r) := by
  rw [consistent_iff] at hc
  obtain ⟨s', l', m', h0, -, -, h3⟩ := hc
  rw [hr] at h0; cases h0
  exact (mediaOk_iff _ _ _).1 (h3 x rfl)

theorem setStyleText_ok {st : St} (hf : Fresh st) {r0 r : Nat} (ns : List Nat) (hc : Consistent st r) :
    Consistent (setStyleText st r0 ns) r := by
  obtain ⟨e, h1, ps, h2, h3⟩ := newBlock_spec st (some r0) ns
  have hc1 := (e.keeps hf).consistent hc
  refine setStyleObj_ok hc1 (fun _ pr ps' hx p hp => ?_) (fun hne s l m hr hs => ?_)
  · rw [h1, h2] at hx; cases hx; rw [h1]; exact h3 p hp
  · subst hs
    obtain ⟨ps', h4, -⟩ := style_of hc1 hr
    rw [h1, h2] at h4; cases h4; exact hne rfl

theorem selListCore_ok {st : St} (hf : Fresh st) {r0 r : Nat} (ts : List Nat) (hc : Consistent st r) :
    Consistent (setSelListObj (newSelList st (some r0) ts).1 r0 (newSelList st (some r0) ts).2) r := by
  obtain ⟨e, h1, ss, h2, h3⟩ := newSelList_spec st (some r0) ts
  have hc1 := (e.keeps hf).consistent hc
  refine setSelListObj_ok hc1 (fun _ pr ss' hx p hp => ?_) (fun hne s l m hr hs => ?_)
  · rw [h1, h2] at hx; cases hx; rw [h1]; exact h3 p hp
  · subst hs
    obtain ⟨ss', h4, -⟩ := sellist_of hc1 hr
    rw [h1, h2] at h4; cases h4; exact hne rfl

theorem setMediaText_ok {st : St} (hf : Fresh st) {r0 r : Nat} (hc : Consistent st r) :
    Consistent (setMediaText st r0) r := by
  obtain ⟨e, h1, h2⟩ := newMedia_spec st (some r0)
  have hc1 := (e.keeps hf).consistent hc
  refine setMediaObj_ok hc1 (fun hne s l m hr hs => ?_)
  subst hs
  have h4 := media_of hc1 hr
  rw [h1, h2] at h4; cases h4; exact hne rfl

theorem setBlockText_ok {st : St} (hf : Fresh st) {b r : Nat} (ns : List Nat) (hc : Consistent st r) :
    Consistent (setBlockText st b ns) r := by
  unfold setBlockText; split
  · next pr old hb =>
    obtain ⟨e, hps⟩ := newProps_spec (some b) ns st
    have k := e.keeps hf
    refine replaceProps_ok (k.consistent hc) (k.at hb) (fun _ _ _ p hp => ?_)
    obtain ⟨n, v, -, -, -, -, h1, h2⟩ := hps p hp
    exact (propOk_iff _ _ _).2 ⟨n, v, h1, h2⟩
  · exact hc

theorem setSelListText_ok {st : St} (hf : Fresh st) {l0 r : Nat} (ts : List Nat) (hc : Consistent st r) :
    Consistent (setSelListText st l0 ts) r := by
  unfold setSelListText; split
  · next pr old hb =>
    split
    · exact hc
    · obtain ⟨e, hss⟩ := newSels_spec (some l0) ts st
      have k := e.keeps hf
      refine replaceSels_ok (k.consistent hc) (k.at hb) (fun _ _ _ p hp => ?_)
      obtain ⟨t, -, -, h1⟩ := hss p hp
      exact (selOk_iff _ _ _).2 ⟨t, h1⟩
  · exact hc

theorem setPropText_ok {st : St} (hf : Fresh st) {b0 r : Nat} (n : Nat) (hc : Consistent st r) :
    Consistent (setPropText st b0 n) r := by
  unfold setPropText; split
  · split
    · exact hc
    · obtain ⟨e, h1, -, h2, h3⟩ := newProp_spec st (some b0) n
      have hc1 := (e.keeps hf).consistent hc
      refine setPropObj_ok hc1 (fun l m _ par n' v hp => ?_) (fun b l m hr hne pr ps hb hp => ?_)
      · rw [h1, h2] at hp; cases hp; rw [h1]; exact (valueOk_iff _ _ _).2 h3
      · obtain ⟨ps', h4, h5⟩ := style_of hc1 hr
        rw [hb] at h4; cases h4
        obtain ⟨n', v', h6, -⟩ := (propOk_iff _ _ _).1 (h5 _ hp)
        rw [h1, h2] at h6; cases h6; exact hne rfl
  · exact hc

theorem removeProp_ok {st : St} {b r : Nat} (n : Nat) (hc : Consistent st r) : Consistent (removeProp st b n) r := by
  unfold removeProp; split
  · next pr old hb =>
    refine replaceProps_ok hc hb (fun l m hr p hp => ?_)
    obtain ⟨ps', h4, h5⟩ := style_of hc hr
    rw [hb] at h4; cases h4
    exact h5 p (List.mem_filter.1 hp).1
  · exact hc

theorem appendSelText_ok {st : St} (hf : Fresh st) {l0 r : Nat} (t : Nat) (hc : Consistent st r) :
    Consistent (appendSelText st l0 t) r := by
  obtain ⟨e, h1, -, h2⟩ := newSel_spec st (some l0) t
  have hc1 := (e.keeps hf).consistent hc
  refine appendSelObj_ok hc1 (fun s l m hr hne pr ss hl hx => ?_)
  obtain ⟨ss', h4, h5⟩ := sellist_of hc1 hr
  rw [hl] at h4; cases h4
  obtain ⟨t', h6⟩ := (selOk_iff _ _ _).1 (h5 _ hx)
  rw [h1, h2] at h6; cases h6; exact hne rfl

/-! ### the hypothesis for adopting an existing object -/

theorem reach_self (st : St) (d x : Nat) : x ∈ reach st d x := by cases d <;> simp [reach]

theorem reach_kid (st : St) (d x k : Nat) (h : k ∈ kids (st.objs x)) : k ∈ reach st (d + 1) x := by
  simp only [reach, List.mem_cons, List.mem_flatMap]
  exact Or.inr ⟨k, h, reach_self st d k⟩

theorem reach_kid2 (st : St) (d x k : Nat) (h : k ∈ kids (st.objs x)) : k ∈ reach st (d + 2) x := by
  simp only [reach, List.mem_cons, List.mem_flatMap]
  exact Or.inr ⟨k, h, Or.inl rfl⟩

/-- the adopted object's own children already name it (a block's properties, a property's value, a selector
list's selectors): adoption writes the object's link only -/
def inner (st : St) (x : Nat) : Bool :=
  match st.objs x with
  | .block _ ps => ps.all (propOk st x)
  | .prop _ _ v => valueOk st x v
  | .sellist _ ss => ss.all (selOk st x)
  | _ => true

/-- `Adopt st r c x` — container `c` may adopt object `x` without breaking rule `r`:
no container reachable from `r` other than `c` itself currently lists `x`; and if `c` belongs to `r`, the
children of `x` name `x`. -/
def Adopt (st : St) (r c x : Nat) : Prop :=
  (∀ c' ∈ reach st 3 r, x ∈ kids (st.objs c') → c' = c) ∧ (c ∈ reach st 3 r → inner st x = true)

def Safe (st : St) (r : Nat) : Op → Prop
  | .styleObj c x | .selListObj c x | .mediaObj c x | .propObj c x | .appendSelObj c x => Adopt st r c x
  | _ => True

theorem step_ok {st : St} (hf : Fresh st) {r : Nat} (hc : Consistent st r) (op : Op) (hs : Safe st r op) :
    Consistent (step st op) r := by
  cases op with
  | styleText r0 ns => exact setStyleText_ok hf ns hc
  | styleObj r0 x =>
    refine setStyleObj_ok hc (fun h pr ps hx => ?_) (fun hne s l m hr he => ?_)
    · have := hs.2 (h ▸ reach_self st 3 r)
      simpa [inner, hx] using this
    · exact hne (hs.1 r (reach_self st 3 r) (by simp [hr, he, kids]))
  | ruleText r0 ts ns =>
    exact setStyleText_ok (setSelListObj_fresh ((newSelList_spec st (some r0) ts).1.fresh hf) _ _) ns
      (selListCore_ok hf ts hc)
  | blockText b ns => exact setBlockText_ok hf ns hc
  | propText b n => exact setPropText_ok hf n hc
  | propObj b0 p =>
    refine setPropObj_ok hc (fun l m hr par n v hp => ?_) (fun b l m hr hne pr ps hb hp => ?_)
    · have := hs.2 (reach_kid st 2 r b0 (by simp [hr, kids]))
      simpa [inner, hp] using this
    · exact hne (hs.1 b (reach_kid st 2 r b (by simp [hr, kids])) (by simpa [hb, kids] using hp))
  | removeProp b n => exact removeProp_ok n hc
  | selectorText r0 ts =>
    simp only [step, setSelectorText]; split
    · exact hc
    · exact selListCore_ok hf ts hc
  | selListObj r0 x =>
    refine setSelListObj_ok hc (fun h pr ss hx => ?_) (fun hne s l m hr he => ?_)
    · have := hs.2 (h ▸ reach_self st 3 r)
      simpa [inner, hx] using this
    · exact hne (hs.1 r (reach_self st 3 r) (by simp [hr, he, kids]))
  | selListText l ts => exact setSelListText_ok hf ts hc
  | appendSelText l t => exact appendSelText_ok hf t hc
  | appendSelObj l0 x =>
    refine appendSelObj_ok hc (fun s l m hr hne pr ss hl hx => ?_)
    exact hne (hs.1 l (reach_kid st 2 r l (by simp [hr, kids])) (by simpa [hl, kids] using hx))
  | mediaText r0 => exact setMediaText_ok hf hc
  | mediaObj r0 x =>
    refine setMediaObj_ok hc (fun hne s l m hr he => ?_)
    exact hne (hs.1 r (reach_self st 3 r) (by simp [hr, he, kids]))
  | mediaEdit m => exact hc
  | mkBlock ns => exact ((newBlock_spec st none ns).1.keeps hf).consistent hc
  | mkProp n => exact ((newProp_spec st none n).1.keeps hf).consistent hc
  | mkSelList ts => exact ((newSelList_spec st none ts).1.keeps hf).consistent hc
  | mkSel t => exact ((newSel_spec st none t).1.keeps hf).consistent hc
  | mkMedia => exact ((newMedia_spec st none).1.keeps hf).consistent hc
  | mkRule ss ds m => exact ((newRule_spec st ss ds m hf).1.keeps hf).consistent hc

/-! ### the check is the property: every child of every reachable object names that object -/

theorem mem_reach3 {st : St} {r c : Nat} (h : c ∈ reach st 3 r) :
    c = r ∨ ∃ k ∈ kids (st.objs r), c = k ∨ ∃ k2 ∈ kids (st.objs k), c = k2 ∨ ∃ k3 ∈ kids (st.objs k2), c = k3 := by
  simpa [reach, List.mem_flatMap] using h

theorem parent_of_reach {st : St} {r : Nat} (hc : Consistent st r) {c x : Nat} (h : c ∈ reach st 3 r)
    (hx : x ∈ kids (st.objs c)) : parent (st.objs x) = some c := by
  rw [consistent_iff] at hc
  obtain ⟨s, l, m, h0, h1, h2, h3⟩ := hc
  have := mem_reach3 h
  simp only [blockOk_iff, selListOk_iff, mediaOk_iff, propOk_iff, selOk_iff] at *
  rw [h0] at this
  cases s <;> cases l <;> cases m <;> simp [kids] at this <;> grind [kids, parent]

/-! ### histories -/

def SafeAll (st : St) (r : Nat) : List Op → Prop
  | [] => True
  | op :: ops => Safe st r op ∧ SafeAll (step st op) r ops

theorem run_ok (r : Nat) (ops : List Op) : ∀ st : St, Fresh st → Consistent st r → SafeAll st r ops →
    Consistent (run st ops) r ∧ Fresh (run st ops) := by
  induction ops with
  | nil => intro st hf hc _; exact ⟨hc, hf⟩
  | cons op ops ih =>
    intro st hf hc hs
    exact ih (step st op) (step_fresh hf op) (step_ok hf hc op hs.1) hs.2

/-- operations that adopt an existing object -/
def Op.adopts : Op → Bool
  | .styleObj .. | .selListObj .. | .mediaObj .. | .propObj .. | .appendSelObj .. => true
  | _ => false

theorem safe_of_not_adopts (st : St) (r : Nat) (op : Op) (h : op.adopts = false) : Safe st r op := by
  cases op <;> first | trivial | simp [Op.adopts] at h

theorem safeAll_of_not_adopts (r : Nat) (ops : List Op) (h : ∀ op ∈ ops, op.adopts = false) :
    ∀ st : St, SafeAll st r ops := by
  induction ops with
  | nil => intro _; trivial
  | cons op ops ih =>
    intro st
    exact ⟨safe_of_not_adopts st r op (h op (by simp)), ih (fun o ho => h o (by simp [ho])) _⟩

/-! ### without the hypothesis: the rule whose block is taken keeps listing a block owned by the other rule -/

theorem steal_breaks {st : St} {r r0 x y : Nat} {l m l0 m0 pr : Option Nat} {ps : List Nat} (hne : r ≠ r0)
    (hr : st.objs r = .rule (some x) l m) (hr0 : st.objs r0 = .rule (some y) l0 m0)
    (hx : st.objs x = .block pr ps) :
    (setStyleObj st r0 x).objs r = .rule (some x) l m ∧ (setStyleObj st r0 x).objs r0 = .rule (some x) l0 m0 ∧
    (setStyleObj st r0 x).objs x = .block (some r0) ps ∧ ¬ Consistent (setStyleObj st r0 x) r := by
  have hxr0 : x ≠ r0 := fun e => by rw [e, hr0] at hx; cases hx
  have hxr : r ≠ x := fun e => by rw [e, hx] at hr; cases hr
  have h1 : (setStyleObj st r0 x).objs r = .rule (some x) l m := by
    simp only [setStyleObj, hr0, hx]; rw [set_other _ _ _ _ hne, set_other _ _ _ _ hxr, hr]
  have h2 : (setStyleObj st r0 x).objs x = .block (some r0) ps := by
    simp only [setStyleObj, hr0, hx]; rw [set_other _ _ _ _ hxr0, set_same]
  refine ⟨h1, by simp only [setStyleObj, hr0, hx]; rw [set_same], h2, fun hc => ?_⟩
  obtain ⟨ps', h3, -⟩ := style_of hc h1
  rw [h2] at h3; cases h3; exact hne rfl

end CssVerif.Owners
