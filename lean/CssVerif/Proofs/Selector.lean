/-
The selector state machine computes the CSS specificity of every selector of the level-3 grammar
(`Model/SelectorAst.lean`).
-/
import CssVerif.Model.SelectorAst
namespace CssVerif.Selector

def runFrom (T : Tables) (m : NsMap) (st : St) (toks : List T2) : St := toks.foldl (step T m) st

theorem runFrom_append (T : Tables) (m : NsMap) (st : St) (a b : List T2) :
    runFrom T m st (a ++ b) = runFrom T m (runFrom T m st a) b := by
  simp [runFrom, List.foldl_append]

theorem runFrom_cons (T : Tables) (m : NsMap) (st : St) (t : T2) (ts : List T2) :
    runFrom T m st (t :: ts) = runFrom T m (step T m st t) ts := rfl

theorem runFrom_nil (T : Tables) (m : NsMap) (st : St) : runFrom T m st [] = st := rfl

/-- progress of the machine over a piece of input: same context, still well-formed, no pending
prefix, specificity advanced by `sp`, now expecting `e'`, something recorded -/
structure Adv (st st' : St) (sp : Spec) (e' : Text) : Prop where
  ctx : st'.context = st.context
  wf : st'.wellformed = st.wellformed
  err : st'.firstErr = st.firstErr
  pfx : st'.pfx = none
  b : st'.b = st.b + sp.1
  c : st'.c = st.c + sp.2.1
  d : st'.d = st.d + sp.2.2
  exp : st'.expected = e'
  items : st'.items ≠ []

theorem Adv.trans {s1 s2 s3 : St} {p q : Spec} {e1 e2 : Text} (h1 : Adv s1 s2 p e1) (h2 : Adv s2 s3 q e2) :
    Adv s1 s3 (p.add q) e2 := by
  refine ⟨h2.ctx.trans h1.ctx, h2.wf.trans h1.wf, h2.err.trans h1.err, h2.pfx, ?_, ?_, ?_, h2.exp, h2.items⟩
  · rw [h2.b, h1.b]; simp [Spec.add, Nat.add_assoc]
  · rw [h2.c, h1.c]; simp [Spec.add, Nat.add_assoc]
  · rw [h2.d, h1.d]; simp [Spec.add, Nat.add_assoc]

/-! ### which `expected` strings accept what (substring tests, decided by evaluation) -/

/-- at the root a simple selector may start -/
def Acc (e : Text) : Prop := e = sss ∨ e = sss ++ combinator ∨ e = sss2 ++ combinator
/-- … and a type / universal selector too -/
def AccHead (e : Text) : Prop := e = sss ∨ e = sss ++ combinator

theorem AccHead.acc {e : Text} (h : AccHead e) : Acc e := by
  rcases h with h | h
  · exact Or.inl h
  · exact Or.inr (Or.inl h)

/-- what follows a simple selector in context `c` -/
def aft (c : Ctx) : Text := if c == .negation then negationEnd else sss2 ++ combinator
/-- what follows a functional pseudo-class in context `c` -/
def aftFunc (c : Ctx) : Text := if c == .negation then negationEnd else sss ++ combinator

/-- a simple selector may start: root with an accepting `expected`, or as the argument of `:not(` -/
def Ready (st : St) (c : Ctx) (rest : List Ctx) : Prop :=
  st.context = c :: rest ∧ st.pfx = none ∧
    ((c = .root ∧ Acc st.expected) ∨ (c = .negation ∧ st.expected = negationArg))

macro "has_tac" h:ident : tactic =>
  `(tactic| (first
    | (rcases $h:ident with ⟨_, hh⟩ | ⟨_, hh⟩
       · rcases hh with hh | hh | hh <;> rw [hh] <;> decide
       · rw [hh]; decide)))

/-! ### single-token simple selectors -/

theorem step_hash (T : Tables) (m : NsMap) (st : St) (c : Ctx) (rest : List Ctx) (v : Text)
    (h : Ready st c rest) : Adv st (step T m st (.hash, v)) (1, 0, 0) (aft c) := by
  obtain ⟨hc, hp, he⟩ := h
  have h1 : isInfix (str "HASH") st.expected = true := by has_tac he
  rcases he with ⟨rfl, _⟩ | ⟨rfl, _⟩ <;>
    (simp [step, h1, append, hp, count, ctx, hc, ret, IT.isSelector, aft]
     constructor <;> simp [hc, hp])

theorem step_cls (T : Tables) (m : NsMap) (st : St) (c : Ctx) (rest : List Ctx) (v : Text)
    (h : Ready st c rest) : Adv st (step T m st (.cls, v)) (0, 1, 0) (aft c) := by
  obtain ⟨hc, hp, he⟩ := h
  have h1 : isInfix (str "class") st.expected = true := by has_tac he
  rcases he with ⟨rfl, _⟩ | ⟨rfl, _⟩ <;>
    (simp [step, h1, append, hp, count, ctx, hc, ret, IT.isSelector, aft]
     constructor <;> simp [hc, hp])


/-- a plain pseudo-class: normalised, not functional, not one of the legacy pseudo-elements -/
theorem step_pclass (T : Tables) (m : NsMap) (st : St) (c : Ctx) (rest : List Ctx) (v : Text)
    (h : Ready st c rest) (hn : normalize T v = v) (hf : endsWith v (str "(") = false)
    (hl : legacyPseudoElements.contains v = false) :
    Adv st (step T m st (.pclass, v)) (0, 1, 0) (aft c) := by
  obtain ⟨hc, hp, he⟩ := h
  have hl' : ¬ v ∈ legacyPseudoElements := by simpa using hl
  have h1 : isInfix (str "pseudo") st.expected = true := by has_tac he
  have hw : (v != str ":where(") = true := by
    cases hb : (v != str ":where(") with
    | true => rfl
    | false =>
      have : v = str ":where(" := by simpa using hb
      rw [this] at hf
      exact absurd hf (by decide)
  rcases he with ⟨rfl, _⟩ | ⟨rfl, _⟩ <;>
    (simp [step, h1, hn, hf, hl', append, hp, count, ctx, hc, ret, IT.isSelector, aft, hw]
     constructor <;> simp [hc, hp])

/-- a pseudo-element (`::x`, or one of the four legacy single-colon ones) at the root -/
theorem step_pelem (T : Tables) (m : NsMap) (st : St) (rest : List Ctx) (v : Text)
    (h : Ready st .root rest) (hn : normalize T v = v) (hf : endsWith v (str "(") = false)
    (hb : v ≠ str "[") :
    Adv st (step T m st (.pelem, v)) (0, 0, 1) combinator := by
  obtain ⟨hc, hp, he⟩ := h
  have h1 : isInfix (str "pseudo") st.expected = true := by has_tac he
  simp [step, h1, hn, hf, hb, append, hp, count, ctx, hc, ret, IT.isSelector]
  constructor <;> simp [hc, hp]

/-! ### namespace prefixes -/

/-- the prefix is usable: `*`, empty, or declared -/
def PfxOK (m : NsMap) : Pfx → Prop
  | .none => True
  | .any => True
  | .empty => True
  | .named p => p ≠ str "*" ∧ p ≠ [] ∧ (nsGet m p).isSome ∧ ¬ (p.contains 124)

theorem take_append_bar (p : Text) : (p ++ str "|").take ((p ++ str "|").length - 1) = p := by
  simp [str]

theorem take_append_bar' (p : Text) : List.take (p.length + (str "|").length - 1) (p ++ str "|") = p := by
  simp [str]

theorem findIdx_any : List.findIdx? (fun x => x == 124) ([42, 124, 42] : List Nat) = some 1 := by decide
theorem findIdx_empty : List.findIdx? (fun x => x == 124) ([124, 42] : List Nat) = some 0 := by decide
theorem str_lbr : str "[" = [91] := by decide
theorem str_star : str "*" = [42] := by decide
theorem str_bar : str "|" = [124] := by decide
theorem str_anybar : str "*|" = [42, 124] := by decide

theorem findIdx_bar (p : Text) (h : p.contains 124 = false) (rest : Text) :
    (p ++ 124 :: rest).findIdx? (· == 124) = some p.length := by
  induction p with
  | nil => simp [List.findIdx?_cons]
  | cons x xs ih =>
    have hx : (x == 124) = false := by
      cases hb : (x == 124) with
      | false => rfl
      | true =>
        exfalso
        have hx' : x = 124 := by simpa using hb
        subst hx'
        simp at h
    have hxs : xs.contains 124 = false := by
      cases hb : xs.contains 124 with
      | false => rfl
      | true =>
        have : (x :: xs).contains 124 = true := by
          simp only [List.contains_cons, Bool.or_eq_true]; right; exact hb
        rw [this] at h; cases h
    simp only [List.cons_append, List.findIdx?_cons, hx, Bool.false_eq_true, if_false]
    rw [ih hxs]; simp


/-- a type or universal selector may start here -/
def ReadyHead (st : St) (c : Ctx) (rest : List Ctx) : Prop :=
  st.context = c :: rest ∧ st.pfx = none ∧
    ((c = .root ∧ AccHead st.expected) ∨ (c = .negation ∧ st.expected = negationArg))

macro "hashead_tac" h:ident : tactic =>
  `(tactic| (first
    | (rcases $h:ident with ⟨_, hh⟩ | ⟨_, hh⟩
       · rcases hh with hh | hh <;> rw [hh] <;> decide
       · rw [hh]; decide)))

/-- the bare name of a type selector, after an optional saved prefix `q` -/
theorem step_name (T : Tables) (m : NsMap) (st : St) (c : Ctx) (rest : List Ctx) (name : Text)
    (hc : st.context = c :: rest) (hcc : c = .root ∨ c = .negation)
    (he : (c = .root ∧ (isInfix (str "type_selector") st.expected = true ∨ st.expected = elementName)) ∨ c = .negation)
    (q : Option Text) (hq : st.pfx = q)
    (hok : ∀ p, q = some p → p = str "*" ∨ p = [] ∨ (nsGet m p).isSome) :
    Adv st (step T m st (.ident, name)) (0, 0, 1) (aft c) := by
  have hres : ∀ (typ : IT), typ = .typesel ∨ typ = .negtypesel →
      ∃ ns, append m st name typ =
        { st with pfx := none, d := st.d + 1, items := ⟨typ, name, some ns⟩ :: st.items } := by
    intro typ htyp
    cases q with
    | none =>
      refine ⟨defaultNs m, ?_⟩
      rcases htyp with rfl | rfl <;> rcases hcc with rfl | rfl <;>
        simp [append, hq, count, ctx, hc, IT.isSelector]
    | some p =>
      rcases hok p rfl with h | h | h
      · subst h
        refine ⟨Ns.any, ?_⟩
        rcases htyp with rfl | rfl <;> rcases hcc with rfl | rfl <;>
          simp [append, hq, count, ctx, hc, IT.isSelector, str]
      · subst h
        refine ⟨Ns.empty, ?_⟩
        rcases htyp with rfl | rfl <;> rcases hcc with rfl | rfl <;>
          simp [append, hq, count, ctx, hc, IT.isSelector, str]
      · by_cases h1 : p = str "*"
        · subst h1
          refine ⟨Ns.any, ?_⟩
          rcases htyp with rfl | rfl <;> rcases hcc with rfl | rfl <;>
            simp [append, hq, count, ctx, hc, IT.isSelector, str]
        · by_cases h2 : p = []
          · subst h2
            refine ⟨Ns.empty, ?_⟩
            rcases htyp with rfl | rfl <;> rcases hcc with rfl | rfl <;>
              simp [append, hq, count, ctx, hc, IT.isSelector, str]
          · cases hu : nsGet m p with
            | none => rw [hu] at h; cases h
            | some u =>
              refine ⟨Ns.uri u, ?_⟩
              have h1' : (p == str "*") = false := by simpa using h1
              have h2' : (p == ([] : Text)) = false := by simpa using h2
              rcases htyp with rfl | rfl <;> rcases hcc with rfl | rfl <;>
                simp [append, hq, count, ctx, hc, IT.isSelector, h1', h2', hu]
  rcases hcc with rfl | rfl
  · -- root
    have hcond : (isInfix (str "type_selector") st.expected || st.expected == elementName) = true := by
      rcases he with ⟨_, h | h⟩ | h
      · simp [h]
      · simp [h]
      · cases h
    obtain ⟨ns, hns⟩ := hres .typesel (Or.inl rfl)
    simp only [step, ctx, hc, List.head?_cons, Option.getD_some]
    simp only [show (Ctx.root == Ctx.attrib) = false from rfl, Bool.false_and, Bool.false_eq_true, if_false,
      show (Ctx.root == Ctx.negation) = false from rfl, Ctx.isPseudo, hcond, if_true, hns, ret, aft]
    constructor <;> simp [hc]
  · obtain ⟨ns, hns⟩ := hres .negtypesel (Or.inr rfl)
    simp only [step, ctx, hc, List.head?_cons, Option.getD_some]
    simp only [show (Ctx.negation == Ctx.attrib) = false from rfl, Bool.false_and, Bool.false_eq_true, if_false,
      show (Ctx.negation == Ctx.negation) = true from rfl, if_true, hns, ret, aft]
    constructor <;> simp [hc]


/-- `p|` in front of a type selector: the prefix is saved, an element name must follow -/
theorem step_prefix (T : Tables) (m : NsMap) (st : St) (c : Ctx) (rest : List Ctx) (p : Text)
    (h : ReadyHead st c rest) :
    let st' := step T m st (.nsprefix, p ++ str "|")
    st'.context = st.context ∧ st'.wellformed = st.wellformed ∧ st'.firstErr = st.firstErr ∧
      st'.pfx = some p ∧ st'.b = st.b ∧ st'.c = st.c ∧ st'.d = st.d ∧ st'.expected = elementName ∧
      st'.items = st.items := by
  obtain ⟨hc, hp, he⟩ := h
  have h1 : isInfix (str "type_selector") st.expected = true := by hashead_tac he
  have hcc : c = .root ∨ c = .negation := by
    rcases he with ⟨h, _⟩ | ⟨h, _⟩
    · exact Or.inl h
    · exact Or.inr h
  rcases hcc with rfl | rfl <;>
    simp [step, ctx, hc, h1, savePrefix, ret, take_append_bar']

theorem str_any_bar : str "*" ++ str "|" = str "*|" := by decide

/-- a complete type selector, with any usable prefix -/
theorem run_type (T : Tables) (m : NsMap) (st : St) (c : Ctx) (rest : List Ctx) (p : Pfx) (name : Text)
    (h : ReadyHead st c rest) (hp : PfxOK m p) :
    Adv st (runFrom T m st (p.toks ++ [(.ident, name)])) (0, 0, 1) (aft c) := by
  have hcc : c = .root ∨ c = .negation := by
    rcases h.2.2 with ⟨h, _⟩ | ⟨h, _⟩
    · exact Or.inl h
    · exact Or.inr h
  cases p with
  | none =>
    simp only [Pfx.toks, List.nil_append, runFrom_cons, runFrom_nil]
    apply step_name T m st c rest name h.1 hcc _ none h.2.1 (by intro p hp; cases hp)
    rcases h.2.2 with ⟨hr, he⟩ | ⟨hn, _⟩
    · left; refine ⟨hr, Or.inl ?_⟩; rcases he with e | e <;> rw [e] <;> decide
    · exact Or.inr hn
  | any =>
    simp only [Pfx.toks, List.cons_append, List.nil_append, runFrom_cons, runFrom_nil]
    have hs := step_prefix T m st c rest (str "*") h
    simp only [str_any_bar] at hs
    obtain ⟨h1, h2, h3, h4, h5, h6, h7, h8, h9⟩ := hs
    have hadv := step_name T m (step T m st (.nsprefix, str "*|")) c rest name (by rw [h1]; exact h.1) hcc
      (by rcases hcc with r | r
          · exact Or.inl ⟨r, Or.inr h8⟩
          · exact Or.inr r) (some (str "*")) h4 (by intro p hp; cases hp; exact Or.inl rfl)
    refine ⟨hadv.ctx.trans h1, hadv.wf.trans h2, hadv.err.trans h3, hadv.pfx, ?_, ?_, ?_, hadv.exp, hadv.items⟩
    · rw [hadv.b, h5]
    · rw [hadv.c, h6]
    · rw [hadv.d, h7]
  | empty =>
    simp only [Pfx.toks, List.cons_append, List.nil_append, runFrom_cons, runFrom_nil]
    have hs := step_prefix T m st c rest [] h
    simp only [List.nil_append] at hs
    obtain ⟨h1, h2, h3, h4, h5, h6, h7, h8, h9⟩ := hs
    have hadv := step_name T m (step T m st (.nsprefix, str "|")) c rest name (by rw [h1]; exact h.1) hcc
      (by rcases hcc with r | r
          · exact Or.inl ⟨r, Or.inr h8⟩
          · exact Or.inr r) (some []) h4 (by intro p hp; cases hp; exact Or.inr (Or.inl rfl))
    refine ⟨hadv.ctx.trans h1, hadv.wf.trans h2, hadv.err.trans h3, hadv.pfx, ?_, ?_, ?_, hadv.exp, hadv.items⟩
    · rw [hadv.b, h5]
    · rw [hadv.c, h6]
    · rw [hadv.d, h7]
  | named q =>
    simp only [Pfx.toks, List.cons_append, List.nil_append, runFrom_cons, runFrom_nil]
    have hs := step_prefix T m st c rest q h
    simp only at hs
    obtain ⟨h1, h2, h3, h4, h5, h6, h7, h8, h9⟩ := hs
    have hadv := step_name T m (step T m st (.nsprefix, q ++ str "|")) c rest name (by rw [h1]; exact h.1) hcc
      (by rcases hcc with r | r
          · exact Or.inl ⟨r, Or.inr h8⟩
          · exact Or.inr r) (some q) h4 (by intro p hp'; cases hp'; exact Or.inr (Or.inr hp.2.2.1))
    refine ⟨hadv.ctx.trans h1, hadv.wf.trans h2, hadv.err.trans h3, hadv.pfx, ?_, ?_, ?_, hadv.exp, hadv.items⟩
    · rw [hadv.b, h5]
    · rw [hadv.c, h6]
    · rw [hadv.d, h7]

/-- the universal selector, with any usable prefix: counts nothing -/
theorem step_universal (T : Tables) (m : NsMap) (st : St) (c : Ctx) (rest : List Ctx) (p : Pfx)
    (h : ReadyHead st c rest) (hp : PfxOK m p) :
    Adv st (step T m st (.universal, p.text ++ str "*")) (0, 0, 0) (aft c) := by
  obtain ⟨hc, hpf, he⟩ := h
  have h1 : isInfix (str "universal") st.expected = true := by hashead_tac he
  have hcc : c = .root ∨ c = .negation := by
    rcases he with ⟨h, _⟩ | ⟨h, _⟩
    · exact Or.inl h
    · exact Or.inr h
  cases p with
  | none =>
    rcases hcc with rfl | rfl <;>
      (simp [step, h1, append, hpf, count, ctx, hc, ret, IT.isSelector, aft, Pfx.text, str_star, str_bar, str_anybar]
       constructor <;> simp [hc, hpf])
  | any =>
    rcases hcc with rfl | rfl <;>
      (simp [step, h1, append, hpf, count, ctx, hc, ret, IT.isSelector, aft, Pfx.text, str_star, str_bar, str_anybar,
         findIdx_any, findIdx_empty, str_lbr]
       constructor <;> simp [hc, hpf])
  | empty =>
    rcases hcc with rfl | rfl <;>
      (simp [step, h1, append, hpf, count, ctx, hc, ret, IT.isSelector, aft, Pfx.text, str_star, str_bar, str_anybar,
         findIdx_any, findIdx_empty, str_lbr]
       constructor <;> simp [hc, hpf])
  | named q =>
    obtain ⟨hq1, hq2, hq3, hq4⟩ := hp
    have hbar : q.contains 124 = false := by
      cases hb : q.contains 124 with
      | false => rfl
      | true => exact absurd hb hq4
    have hidx := findIdx_bar q hbar [42]
    have hcont : (q ++ [124, 42]).contains 124 = true := by simp
    have htake : (q ++ [124, 42]).take q.length = q := by simp
    have hdrop : (q ++ [124, 42]).drop (q.length + 1) = [42] := by
      have : q ++ [124, 42] = (q ++ [124]) ++ [42] := by simp
      rw [this, List.drop_left' (by simp)]
    have h1' : (q == str "*") = false := by simpa using hq1
    have h2' : (q == ([] : Text)) = false := by simpa using hq2
    cases hu : nsGet m q with
    | none => rw [hu] at hq3; cases hq3
    | some u =>
      have hval : Pfx.text (Pfx.named q) ++ str "*" = q ++ [124, 42] := by simp [Pfx.text, str]
      rw [hval]
      rcases hcc with rfl | rfl <;>
        (simp only [step, h1, if_true, append, hpf, ctx, hc, List.head?_cons, Option.getD_some, hcont,
           show (IT.universal == IT.universal) = true from rfl, Bool.and_self, hidx, htake, hdrop, IT.isSelector,
           show (IT.universal == IT.attrsel) = false from rfl, Bool.false_and, Bool.not_false, Bool.true_and,
           h1', h2', hu, Bool.false_eq_true, if_false, count, ret, aft]
         constructor <;> simp [hc, hpf])


/-! ### functional pseudo-classes -/

/-- inside the parentheses of a functional pseudo-class -/
structure InP (sb st : St) (c : Ctx) (rest : List Ctx) (e : Text) : Prop where
  ctx : st.context = .pclass :: c :: rest
  pfx : st.pfx = none
  wf : st.wellformed = sb.wellformed
  err : st.firstErr = sb.firstErr
  b : st.b = sb.b
  c : st.c = sb.c
  d : st.d = sb.d
  exp : st.expected = e
  items : st.items ≠ []

theorem infix_plus : isInfix (str "+") (str "+-") = true := by decide
theorem infix_minus : isInfix (str "-") (str "+-") = true := by decide
theorem infix_rpar : isInfix (str ")") (str "+-") = false := by decide

/-- an argument token keeps the machine inside the function; a non-blank one moves it on to `expression` -/
theorem step_arg (T : Tables) (m : NsMap) (sb st : St) (c : Ctx) (rest : List Ctx) (e : Text) (a : ArgTok)
    (h : InP sb st c rest e) (he : e = expressionStart ∨ e = expression) :
    InP sb (step T m st a.tok) c rest (if a.nonWs then expression else e) := by
  obtain ⟨hc, hp, hw, her, hb, hcc, hd, hexp, hit⟩ := h
  obtain ⟨last, more, hl⟩ := List.exists_cons_of_ne_nil hit
  cases a with
  | ident v =>
    simp [ArgTok.tok, ArgTok.nonWs, step, ctx, hc, Ctx.isPseudo, append, hp, count, ret, IT.isSelector]
    constructor <;> simp [hc, hp, hw, her, hb, hcc, hd]
  | number v =>
    simp [ArgTok.tok, ArgTok.nonWs, step, ctx, hc, Ctx.isPseudo, append, hp, count, ret, IT.isSelector]
    constructor <;> simp [hc, hp, hw, her, hb, hcc, hd]
  | dimension v =>
    simp [ArgTok.tok, ArgTok.nonWs, step, ctx, hc, Ctx.isPseudo, append, hp, count, ret, IT.isSelector]
    constructor <;> simp [hc, hp, hw, her, hb, hcc, hd]
  | string v =>
    simp [ArgTok.tok, ArgTok.nonWs, step, ctx, hc, Ctx.isPseudo, append, hp, count, ret, IT.isSelector]
    constructor <;> simp [hc, hp, hw, her, hb, hcc, hd]
  | plus =>
    simp only [ArgTok.tok, ArgTok.nonWs, step, stepChar, ctx, hc, List.head?_cons, Option.getD_some, if_true]
    simp only [show (str "+" == str "]") = false by decide, show (str "+" == str "=") = false by decide,
      show (str "+" == str ")") = false by decide, Bool.false_and, Bool.false_eq_true, if_false,
      infix_plus, Ctx.isPseudo, Bool.and_self, if_true, hl]
    split
    · constructor <;> simp [hc, hp, hw, her, hb, hcc, hd, ret]
    · simp [append, hp, count, ctx, hc, ret, IT.isSelector]
      constructor <;> simp [hc, hp, hw, her, hb, hcc, hd]
  | minus =>
    simp only [ArgTok.tok, ArgTok.nonWs, step, stepChar, ctx, hc, List.head?_cons, Option.getD_some, if_true]
    simp only [show (str "-" == str "]") = false by decide, show (str "-" == str "=") = false by decide,
      show (str "-" == str ")") = false by decide, Bool.false_and, Bool.false_eq_true, if_false,
      infix_minus, Ctx.isPseudo, Bool.and_self, if_true, hl, show (str "-" == str "+") = false by decide]
    simp [append, hp, count, ctx, hc, ret, IT.isSelector]
    constructor <;> simp [hc, hp, hw, her, hb, hcc, hd]
  | ws =>
    simp only [ArgTok.tok, ArgTok.nonWs, step, ctx, hc, List.head?_cons, Option.getD_some, Ctx.isPseudo, if_true, hl,
      Bool.false_eq_true, if_false]
    split
    · simp [append, hp, count, ctx, hc, IT.isSelector]
      constructor <;> simp [hc, hp, hw, her, hb, hcc, hd, hexp]
    · exact ⟨hc, hp, hw, her, hb, hcc, hd, hexp, hit⟩

theorem run_args (T : Tables) (m : NsMap) (sb : St) (c : Ctx) (rest : List Ctx) :
    ∀ (args : List ArgTok) (st : St), InP sb st c rest expression →
      InP sb (runFrom T m st (args.map ArgTok.tok)) c rest expression := by
  intro args
  induction args with
  | nil => intro st h; exact h
  | cons a as ih =>
    intro st h
    simp only [List.map_cons, runFrom_cons]
    apply ih
    have := step_arg T m sb st c rest expression a h (Or.inr rfl)
    cases hn : a.nonWs <;> simpa [hn] using this

/-- the `)` that closes a functional pseudo-class -/
theorem step_rpar_pfunc (T : Tables) (m : NsMap) (s2 : St) (c : Ctx) (rest : List Ctx)
    (hcc : c = .root ∨ c = .negation) (q1 : s2.context = .pclass :: c :: rest) (q2 : s2.pfx = none)
    (q8 : s2.expected = expression) :
    step T m s2 (.char, str ")") =
      { s2 with expected := aftFunc c, context := c :: rest, items := ⟨.funcend, str ")", none⟩ :: s2.items } := by
  rcases hcc with rfl | rfl <;>
    simp [step, stepChar, ctx, q1, q8, q2, infix_rpar, Ctx.isPseudo, append, count, IT.isSelector, ret, aftFunc,
      show (str ")" == str "]") = false by decide, show (str ")" == str "=") = false by decide,
      show (str ")" = str "]") = False by decide, show (str ")" = str "=") = False by decide,
      show (str ")" = str "[") = False by decide]

/-- a complete functional pseudo-class `:f( a args )`; `:where(` counts nothing -/
theorem run_pfunc (T : Tables) (m : NsMap) (st : St) (c : Ctx) (rest : List Ctx) (v : Text) (a : ArgTok)
    (args : List ArgTok) (h : Ready st c rest) (hn : normalize T v = v) (hf : endsWith v (str "(") = true)
    (hl : legacyPseudoElements.contains v = false) (ha : a.nonWs = true) :
    Adv st (runFrom T m st ((Simple.pfunc v a args).toks)) (Simple.pfunc v a args).spec (aftFunc c) := by
  obtain ⟨hc, hp, he⟩ := h
  have h1 : isInfix (str "pseudo") st.expected = true := by has_tac he
  have hl' : ¬ v ∈ legacyPseudoElements := by simpa using hl
  have hcc : c = .root ∨ c = .negation := by
    rcases he with ⟨h, _⟩ | ⟨h, _⟩
    · exact Or.inl h
    · exact Or.inr h
  -- after the opening token
  let s1 := step T m st (.pclass, v)
  have hs1 : s1.context = .pclass :: c :: rest ∧ s1.pfx = none ∧ s1.wellformed = st.wellformed ∧
      s1.firstErr = st.firstErr ∧ s1.b = st.b ∧ s1.c = st.c + (Simple.pfunc v a args).spec.2.1 ∧ s1.d = st.d ∧
      s1.expected = expressionStart ∧ s1.items ≠ [] := by
    by_cases hw : v = str ":where("
    · subst hw
      rcases hcc with rfl | rfl <;>
        simp [s1, step, h1, hn, hf, hl', append, hp, count, ctx, hc, ret, IT.isSelector, Simple.spec]
    · have hw' : (v != str ":where(") = true := by simpa using hw
      have hw'' : (v == str ":where(") = false := by simpa using hw
      rcases hcc with rfl | rfl <;>
        simp [s1, step, h1, hn, hf, hl', append, hp, count, ctx, hc, ret, IT.isSelector, Simple.spec, hw', hw'', hw]
  obtain ⟨k1, k2, k3, k4, k5, k6, k7, k8, k9⟩ := hs1
  have hin0 : InP s1 s1 c rest expressionStart := ⟨k1, k2, rfl, rfl, rfl, rfl, rfl, k8, k9⟩
  have hin1 := step_arg T m s1 s1 c rest expressionStart a hin0 (Or.inl rfl)
  rw [ha] at hin1
  simp only [if_true] at hin1
  have hin2 := run_args T m s1 c rest args _ hin1
  -- the closing parenthesis
  simp only [Simple.toks, List.cons_append, List.nil_append, List.append_assoc, runFrom_cons, runFrom_append, runFrom_nil]
  generalize hs2 : runFrom T m (step T m (step T m st (TT.pclass, v)) a.tok) (List.map ArgTok.tok args) = s2 at hin2
  obtain ⟨q1, q2, q3, q4, q5, q6, q7, q8, q9⟩ := hin2
  have hclose := step_rpar_pfunc T m s2 c rest hcc q1 q2 q8
  rw [hclose]
  have hsp1 : (Simple.pfunc v a args).spec.1 = 0 := by
    by_cases hw : v = str ":where(" <;> simp [Simple.spec, hw]
  have hsp3 : (Simple.pfunc v a args).spec.2.2 = 0 := by
    by_cases hw : v = str ":where(" <;> simp [Simple.spec, hw]
  constructor <;> simp [hc, q2, q3, q4, q5, q6, q7, k3, k4, k5, k6, k7, s1, hsp1, hsp3]


/-! ### attribute selectors -/

/-- the prefix of an attribute selector is usable -/
def AttrPfxOK (m : NsMap) : Option Text → Prop
  | none => True
  | some p => p = [] ∨ p = str "*" ∨ (nsGet m p).isSome

theorem step_attr_open (T : Tables) (m : NsMap) (st : St) (c : Ctx) (rest : List Ctx) (h : Ready st c rest) :
    step T m st (.char, str "[") =
      { st with expected := attname, context := .attrib :: c :: rest, c := st.c + 1,
                items := ⟨.attrstart, str "[", none⟩ :: st.items } := by
  obtain ⟨hc, hp, he⟩ := h
  have h1 : isInfix (str "attrib") st.expected = true := by has_tac he
  have hcc : c = .root ∨ c = .negation := by
    rcases he with ⟨h, _⟩ | ⟨h, _⟩
    · exact Or.inl h
    · exact Or.inr h
  rcases hcc with rfl | rfl <;>
    simp [step, stepChar, ctx, hc, h1, hp, append, count, IT.isSelector, ret, Ctx.isPseudo,
      show (str "[" = str "]") = False by decide, show (str "[" = str "=") = False by decide,
      show (str "[" = str ")") = False by decide, show isInfix (str "[") (str "+-") = false by decide]

/-- inside `[ … ]`: only the bookkeeping that matters later -/
structure InA (sb st : St) (c : Ctx) (rest : List Ctx) (e : Text) (q : Option Text) : Prop where
  ctx : st.context = .attrib :: c :: rest
  pfx : st.pfx = q
  wf : st.wellformed = sb.wellformed
  err : st.firstErr = sb.firstErr
  b : st.b = sb.b
  c : st.c = sb.c
  d : st.d = sb.d
  exp : st.expected = e
  items : st.items ≠ []

theorem attr_prefix (T : Tables) (m : NsMap) (sb st : St) (c : Ctx) (rest : List Ctx) (p : Text)
    (h : InA sb st c rest attname none) :
    InA sb (step T m st (.nsprefix, p ++ str "|")) c rest attname2 (some p) := by
  obtain ⟨hc, hp, hw, her, hb, hcc, hd, hexp, hit⟩ := h
  have h1 : isInfix (str "prefix") st.expected = true := by rw [hexp]; decide
  simp [step, ctx, hc, h1, savePrefix, ret, take_append_bar']
  constructor <;> simp [hc, hw, her, hb, hcc, hd, hit]

theorem attr_name (T : Tables) (m : NsMap) (sb st : St) (c : Ctx) (rest : List Ctx) (name : Text) (q : Option Text)
    (e : Text) (he : e = attname ∨ e = attname2) (h : InA sb st c rest e q) (hq : AttrPfxOK m q) :
    InA sb (step T m st (.ident, name)) c rest attcombinator none := by
  obtain ⟨hc, hp, hw, her, hb, hcc, hd, hexp, hit⟩ := h
  have h1 : isInfix (str "attribute") st.expected = true := by
    rw [hexp]; rcases he with rfl | rfl <;> decide
  cases q with
  | none =>
    simp [step, ctx, hc, h1, append, hp, count, IT.isSelector, ret]
    constructor <;> simp [hc, hw, her, hb, hcc, hd]
  | some p =>
    rcases hq with rfl | rfl | hq
    · simp [step, ctx, hc, h1, append, hp, count, IT.isSelector, ret]
      constructor <;> simp [hc, hw, her, hb, hcc, hd]
    · simp [step, ctx, hc, h1, append, hp, count, IT.isSelector, ret, str_star]
      constructor <;> simp [hc, hw, her, hb, hcc, hd]
    · by_cases h0 : p = []
      · subst h0
        simp [step, ctx, hc, h1, append, hp, count, IT.isSelector, ret]
        constructor <;> simp [hc, hw, her, hb, hcc, hd]
      · by_cases hs : p = str "*"
        · subst hs
          simp [step, ctx, hc, h1, append, hp, count, IT.isSelector, ret, str_star]
          constructor <;> simp [hc, hw, her, hb, hcc, hd]
        · cases hu : nsGet m p with
          | none => rw [hu] at hq; cases hq
          | some u =>
            simp [step, ctx, hc, h1, append, hp, count, IT.isSelector, ret, h0, hs, hu]
            constructor <;> simp [hc, hw, her, hb, hcc, hd]

theorem attr_op (T : Tables) (m : NsMap) (sb st : St) (c : Ctx) (rest : List Ctx) (op : AttrOp)
    (h : InA sb st c rest attcombinator none) :
    InA sb (step T m st op.tok) c rest attvalue none := by
  obtain ⟨hc, hp, hw, her, hb, hcc, hd, hexp, hit⟩ := h
  have h1 : isInfix (str "combinator") st.expected = true := by rw [hexp]; decide
  have h2 : isInfix (str "]") st.expected = true := by rw [hexp]; decide
  cases op <;>
    (simp [AttrOp.tok, step, stepChar, ctx, hc, h1, append, hp, count, IT.isSelector, ret, matchItem,
       show (str "=" = str "]") = False by decide]
     constructor <;> simp [hc, hw, her, hb, hcc, hd])

theorem attr_val (T : Tables) (m : NsMap) (sb st : St) (c : Ctx) (rest : List Ctx) (v : AttrVal)
    (h : InA sb st c rest attvalue none) :
    InA sb (step T m st v.tok) c rest attend none := by
  obtain ⟨hc, hp, hw, her, hb, hcc, hd, hexp, hit⟩ := h
  have h1 : isInfix (str "value") st.expected = true := by rw [hexp]; decide
  have h2 : isInfix (str "attribute") st.expected = false := by rw [hexp]; decide
  cases v <;>
    (simp [AttrVal.tok, step, ctx, hc, h1, h2, append, hp, count, IT.isSelector, ret]
     constructor <;> simp [hc, hw, her, hb, hcc, hd])

theorem attr_close (T : Tables) (m : NsMap) (sb st : St) (c : Ctx) (rest : List Ctx) (e : Text)
    (hcc : c = .root ∨ c = .negation) (he : e = attcombinator ∨ e = attend) (h : InA sb st c rest e none) :
    let st' := step T m st (.char, str "]")
    st'.context = c :: rest ∧ st'.pfx = none ∧ st'.wellformed = sb.wellformed ∧ st'.firstErr = sb.firstErr ∧
      st'.b = sb.b ∧ st'.c = sb.c ∧ st'.d = sb.d ∧ st'.expected = aft c ∧ st'.items ≠ [] := by
  obtain ⟨hc, hp, hw, her, hb, hc2, hd, hexp, hit⟩ := h
  have h1 : isInfix (str "]") st.expected = true := by
    rw [hexp]; rcases he with rfl | rfl <;> decide
  rcases hcc with rfl | rfl <;>
    simp [step, stepChar, ctx, hc, h1, append, hp, count, IT.isSelector, ret, aft, hw, her, hb, hc2, hd]

theorem attr_finish (T : Tables) (m : NsMap) (st s3 : St) (c : Ctx) (rest : List Ctx) (e : Text)
    (h : Ready st c rest) (he : e = attcombinator ∨ e = attend)
    (hin : InA (step T m st (.char, str "[")) s3 c rest e none) :
    Adv st (step T m s3 (.char, str "]")) (0, 1, 0) (aft c) := by
  have hcc : c = .root ∨ c = .negation := by
    rcases h.2.2 with ⟨h, _⟩ | ⟨h, _⟩
    · exact Or.inl h
    · exact Or.inr h
  have hopen := step_attr_open T m st c rest h
  have hcl := attr_close T m _ s3 c rest e hcc he hin
  simp only at hcl
  obtain ⟨c1, c2, c3, c4, c5, c6, c7, c8, c9⟩ := hcl
  rw [hopen] at c3 c4 c5 c6 c7
  exact ⟨c1.trans h.1.symm, c3, c4, c2, by simpa using c5, by simpa using c6, by simpa using c7, c8, c9⟩

theorem attr_opened (T : Tables) (m : NsMap) (st : St) (c : Ctx) (rest : List Ctx) (h : Ready st c rest) :
    InA (step T m st (.char, str "[")) (step T m st (.char, str "[")) c rest attname none := by
  rw [step_attr_open T m st c rest h]
  exact ⟨rfl, h.2.1, rfl, rfl, rfl, rfl, rfl, rfl, by simp⟩

/-- a complete attribute selector -/
theorem run_attrib (T : Tables) (m : NsMap) (st : St) (c : Ctx) (rest : List Ctx) (p : Option Text) (name : Text)
    (rhs : Option (AttrOp × AttrVal)) (h : Ready st c rest) (hp : AttrPfxOK m p) :
    Adv st (runFrom T m st ((Simple.attrib p name rhs).toks)) (0, 1, 0) (aft c) := by
  have hin0 := attr_opened T m st c rest h
  cases p with
  | none =>
    have hin2 := attr_name T m _ _ c rest name none attname (Or.inl rfl) hin0 hp
    cases rhs with
    | none =>
      simp only [Simple.toks, List.nil_append, List.append_nil, List.singleton_append, List.cons_append,
        runFrom_cons, runFrom_nil]
      exact attr_finish T m st _ c rest attcombinator h (Or.inl rfl) hin2
    | some ov =>
      obtain ⟨op, v⟩ := ov
      simp only [Simple.toks, List.nil_append, List.append_nil, List.singleton_append, List.cons_append,
        runFrom_cons, runFrom_nil]
      exact attr_finish T m st _ c rest attend h (Or.inr rfl)
        (attr_val T m _ _ c rest v (attr_op T m _ _ c rest op hin2))
  | some q =>
    have hin2 := attr_name T m _ _ c rest name (some q) attname2 (Or.inr rfl) (attr_prefix T m _ _ c rest q hin0) hp
    cases rhs with
    | none =>
      simp only [Simple.toks, List.nil_append, List.append_nil, List.singleton_append, List.cons_append,
        runFrom_cons, runFrom_nil]
      exact attr_finish T m st _ c rest attcombinator h (Or.inl rfl) hin2
    | some ov =>
      obtain ⟨op, v⟩ := ov
      simp only [Simple.toks, List.nil_append, List.append_nil, List.singleton_append, List.cons_append,
        runFrom_cons, runFrom_nil]
      exact attr_finish T m st _ c rest attend h (Or.inr rfl)
        (attr_val T m _ _ c rest v (attr_op T m _ _ c rest op hin2))


/-! ### any simple selector, the argument of `:not()`, negation -/

def Simple.WF (T : Tables) (m : NsMap) : Simple → Prop
  | .id _ => True
  | .cls _ => True
  | .attrib p _ _ => AttrPfxOK m p
  | .pclass v => normalize T v = v ∧ endsWith v (str "(") = false ∧ legacyPseudoElements.contains v = false
  | .pfunc v a _ => normalize T v = v ∧ endsWith v (str "(") = true ∧ legacyPseudoElements.contains v = false ∧
      a.nonWs = true

/-- `expected` after a simple selector at the root -/
def AccEnd (e : Text) : Prop := e = sss2 ++ combinator ∨ e = sss ++ combinator

theorem AccEnd.acc {e : Text} (h : AccEnd e) : Acc e := by
  rcases h with h | h
  · exact Or.inr (Or.inr h)
  · exact Or.inr (Or.inl h)

def After (c : Ctx) (e : Text) : Prop := (c = .root ∧ AccEnd e) ∨ (c = .negation ∧ e = negationEnd)

theorem after_aft (c : Ctx) (hcc : c = .root ∨ c = .negation) : After c (aft c) := by
  rcases hcc with rfl | rfl
  · exact Or.inl ⟨rfl, Or.inl rfl⟩
  · exact Or.inr ⟨rfl, rfl⟩

theorem after_aftFunc (c : Ctx) (hcc : c = .root ∨ c = .negation) : After c (aftFunc c) := by
  rcases hcc with rfl | rfl
  · exact Or.inl ⟨rfl, Or.inr rfl⟩
  · exact Or.inr ⟨rfl, rfl⟩

theorem run_simple (T : Tables) (m : NsMap) (st : St) (c : Ctx) (rest : List Ctx) (s : Simple)
    (h : Ready st c rest) (hw : s.WF T m) :
    ∃ e, Adv st (runFrom T m st s.toks) s.spec e ∧ After c e := by
  have hcc : c = .root ∨ c = .negation := by
    rcases h.2.2 with ⟨h, _⟩ | ⟨h, _⟩
    · exact Or.inl h
    · exact Or.inr h
  cases s with
  | id v => exact ⟨_, step_hash T m st c rest v h, after_aft c hcc⟩
  | cls v => exact ⟨_, step_cls T m st c rest v h, after_aft c hcc⟩
  | attrib p name rhs => exact ⟨_, run_attrib T m st c rest p name rhs h hw, after_aft c hcc⟩
  | pclass v => exact ⟨_, step_pclass T m st c rest v h hw.1 hw.2.1 hw.2.2, after_aft c hcc⟩
  | pfunc v a args => exact ⟨_, run_pfunc T m st c rest v a args h hw.1 hw.2.1 hw.2.2.1 hw.2.2.2, after_aftFunc c hcc⟩

def NegArg.WF (T : Tables) (m : NsMap) : NegArg → Prop
  | .type p _ => PfxOK m p
  | .universal p => PfxOK m p
  | .simple s => s.WF T m

theorem run_negarg (T : Tables) (m : NsMap) (st : St) (rest : List Ctx) (a : NegArg)
    (hc : st.context = .negation :: rest) (hp : st.pfx = none) (he : st.expected = negationArg) (hw : a.WF T m) :
    Adv st (runFrom T m st a.toks) a.spec negationEnd := by
  cases a with
  | type p name =>
    have := run_type T m st .negation rest p name ⟨hc, hp, Or.inr ⟨rfl, he⟩⟩ hw
    simpa [NegArg.toks, NegArg.spec, aft] using this
  | universal p =>
    have := step_universal T m st .negation rest p ⟨hc, hp, Or.inr ⟨rfl, he⟩⟩ hw
    simpa [NegArg.toks, NegArg.spec, aft, runFrom_cons, runFrom_nil] using this
  | simple s =>
    obtain ⟨e, hadv, haft⟩ := run_simple T m st .negation rest s ⟨hc, hp, Or.inr ⟨rfl, he⟩⟩ hw
    rcases haft with ⟨h, _⟩ | ⟨_, h⟩
    · cases h
    · subst h; simpa [NegArg.toks, NegArg.spec] using hadv

def Part.WF (T : Tables) (m : NsMap) : Part → Prop
  | .simple s => s.WF T m
  | .neg a => a.WF T m

/-- the table normalises `:not(` to itself (decided on the regenerated tables) -/
def NotNorm (T : Tables) : Prop := normalize T (str ":not(") = str ":not("

theorem run_part (T : Tables) (m : NsMap) (hnn : NotNorm T) (st : St) (rest : List Ctx) (p : Part)
    (h : Ready st .root rest) (hw : p.WF T m) :
    ∃ e, Adv st (runFrom T m st p.toks) p.spec e ∧ AccEnd e := by
  cases p with
  | simple s =>
    obtain ⟨e, hadv, haft⟩ := run_simple T m st .root rest s h hw
    rcases haft with ⟨_, h⟩ | ⟨h, _⟩
    · exact ⟨e, by simpa [Part.toks, Part.spec] using hadv, h⟩
    · cases h
  | neg a =>
    obtain ⟨hc, hp, he⟩ := h
    have hacc : Acc st.expected := by
      rcases he with ⟨_, h⟩ | ⟨h, _⟩
      · exact h
      · cases h
    have h1 : isInfix (str "negation") st.expected = true := by
      rcases hacc with h | h | h <;> rw [h] <;> decide
    -- `:not(`
    let st1 : St := { st with expected := negationArg, context := .negation :: .root :: rest,
                              items := ⟨.negstart, str ":not(", none⟩ :: st.items }
    have hopen : step T m st (.negation, str ":not(") = st1 := by
      have hnn' : normalize T (str ":not(") = str ":not(" := hnn
      simp [step, h1, hnn', append, hp, count, ctx, IT.isSelector, ret, st1, hc,
        show (str ":not(" = str "[") = False by decide]
    simp only [Part.toks, List.cons_append, List.nil_append, runFrom_cons, runFrom_append, runFrom_nil, Part.spec]
    rw [hopen]
    have harg := run_negarg T m st1 (.root :: rest) a rfl hp rfl hw
    generalize runFrom T m st1 a.toks = s2 at harg ⊢
    obtain ⟨a1, a2, a3, a4, a5, a6, a7, a8, a9⟩ := harg
    have h2 : isInfix (str ")") s2.expected = true := by rw [a8]; decide
    refine ⟨sss ++ combinator, ?_, Or.inr rfl⟩
    simp only [st1] at a1 a2 a3 a5 a6 a7
    simp [step, stepChar, ctx, a1, h2, append, a4, count, IT.isSelector, ret,
      show (str ")" = str "]") = False by decide, show (str ")" = str "=") = False by decide,
      show (str ")" = str "[") = False by decide]
    constructor <;> simp [hc, a2, a3, a5, a6, a7]


/-! ### sequences of parts, compounds, combinators, selectors -/

theorem Spec.add_zero (x : Spec) : x.add (0, 0, 0) = x := by simp [Spec.add]
theorem Spec.zero_add (x : Spec) : Spec.add (0, 0, 0) x = x := by simp [Spec.add]
theorem Spec.add_assoc (x y z : Spec) : (x.add y).add z = x.add (y.add z) := by simp [Spec.add, Nat.add_assoc]

theorem foldl_add (l : List Spec) (a : Spec) : l.foldl Spec.add a = a.add (l.foldl Spec.add (0, 0, 0)) := by
  induction l generalizing a with
  | nil => simp [Spec.add_zero]
  | cons x l ih => rw [List.foldl_cons, List.foldl_cons, ih, ih (Spec.add (0, 0, 0) x), Spec.zero_add, Spec.add_assoc]

theorem sumSpec_cons (x : Spec) (l : List Spec) : sumSpec (x :: l) = x.add (sumSpec l) := by
  simp only [sumSpec, List.foldl_cons]; rw [foldl_add, Spec.zero_add]

theorem sumSpec_nil : sumSpec [] = (0, 0, 0) := rfl

theorem run_parts (T : Tables) (m : NsMap) (hnn : NotNorm T) (rest : List Ctx) (l : List Part) :
    ∀ (st : St), Ready st .root rest → (∀ p ∈ l, p.WF T m) → l ≠ [] →
    ∃ e, Adv st (runFrom T m st (l.flatMap Part.toks)) (sumSpec (l.map Part.spec)) e ∧ AccEnd e := by
  induction l with
  | nil => intro _ _ _ h; exact absurd rfl h
  | cons p l ih =>
    intro st h hw _
    obtain ⟨e1, hadv, he1⟩ := run_part T m hnn st rest p h (hw p (List.mem_cons_self ..))
    simp only [List.flatMap_cons, runFrom_append, List.map_cons, sumSpec_cons]
    by_cases hl : l = []
    · subst hl
      simp only [List.flatMap_nil, runFrom_nil, List.map_nil, sumSpec_nil, Spec.add_zero]
      exact ⟨e1, hadv, he1⟩
    · have hr : Ready (runFrom T m st p.toks) .root rest :=
        ⟨hadv.ctx.trans h.1, hadv.pfx, Or.inl ⟨rfl, by rw [hadv.exp]; exact he1.acc⟩⟩
      obtain ⟨e2, hadv2, he2⟩ := ih _ hr (fun q hq => hw q (List.mem_cons_of_mem _ hq)) hl
      exact ⟨e2, hadv.trans hadv2, he2⟩

/-- a legacy pseudo-element written with one colon arrives as a pseudo-class token -/
theorem step_legacy (T : Tables) (m : NsMap) (st : St) (rest : List Ctx) (v : Text)
    (h : Ready st .root rest) (hn : normalize T v = v) (hl : legacyPseudoElements.contains v = true) :
    Adv st (step T m st (.pclass, v)) (0, 0, 1) combinator := by
  obtain ⟨hc, hp, he⟩ := h
  have h1 : isInfix (str "pseudo") st.expected = true := by has_tac he
  have hl' : v ∈ legacyPseudoElements := by simpa using hl
  have hf : endsWith v (str "(") = false := by
    simp only [legacyPseudoElements, List.mem_cons, List.not_mem_nil, or_false] at hl'
    rcases hl' with rfl | rfl | rfl | rfl <;> decide
  have hb : v ≠ str "[" := by
    simp only [legacyPseudoElements, List.mem_cons, List.not_mem_nil, or_false] at hl'
    rcases hl' with rfl | rfl | rfl | rfl <;> decide
  simp [step, h1, hn, hf, hb, hl', append, hp, count, ctx, hc, ret, IT.isSelector]
  constructor <;> simp [hc, hp]

def Head.WF (m : NsMap) : Head → Prop
  | .type p _ => PfxOK m p
  | .universal p => PfxOK m p

def PElem.WF (T : Tables) : PElem → Prop
  | .dbl v => normalize T v = v ∧ endsWith v (str "(") = false ∧ v ≠ str "["
  | .legacy v => normalize T v = v ∧ legacyPseudoElements.contains v = true

structure Compound.WF (T : Tables) (m : NsMap) (c : Compound) : Prop where
  head : ∀ h, c.head = some h → h.WF m
  parts : ∀ p ∈ c.parts, p.WF T m
  pelem : ∀ e, c.pelem = some e → e.WF T
  nonempty : c.head.isSome ∨ c.parts ≠ [] ∨ c.pelem.isSome

/-- `expected` after a whole compound: every one of them allows a combinator, none is `sss` / `element_name` -/
def CEnd (e : Text) : Prop := e = sss2 ++ combinator ∨ e = sss ++ combinator ∨ e = combinator

theorem run_head (T : Tables) (m : NsMap) (st : St) (rest : List Ctx) (h : Head)
    (hr : ReadyHead st .root rest) (hw : h.WF m) :
    Adv st (runFrom T m st h.toks) h.spec (sss2 ++ combinator) := by
  cases h with
  | type p name => simpa [Head.toks, Head.spec, aft] using run_type T m st .root rest p name hr hw
  | universal p =>
    simpa [Head.toks, Head.spec, aft, runFrom_cons, runFrom_nil] using step_universal T m st .root rest p hr hw

theorem run_pelem (T : Tables) (m : NsMap) (st : St) (rest : List Ctx) (e : PElem)
    (hr : Ready st .root rest) (hw : e.WF T) :
    Adv st (runFrom T m st e.toks) (0, 0, 1) combinator := by
  cases e with
  | dbl v => simpa [PElem.toks, runFrom_cons, runFrom_nil] using step_pelem T m st rest v hr hw.1 hw.2.1 hw.2.2
  | legacy v => simpa [PElem.toks, runFrom_cons, runFrom_nil] using step_legacy T m st rest v hr hw.1 hw.2

/-- head followed by parts -/
theorem run_head_parts (T : Tables) (m : NsMap) (hnn : NotNorm T) (st : St) (rest : List Ctx)
    (h : Option Head) (l : List Part) (hr : ReadyHead st .root rest)
    (hwh : ∀ x, h = some x → x.WF m) (hwl : ∀ p ∈ l, p.WF T m) (hne : h.isSome ∨ l ≠ []) :
    ∃ e, Adv st (runFrom T m st ((h.map Head.toks).getD [] ++ l.flatMap Part.toks))
      (((h.map Head.spec).getD (0, 0, 0)).add (sumSpec (l.map Part.spec))) e ∧ AccEnd e := by
  have hready : Ready st .root rest := by
    obtain ⟨a, b, c⟩ := hr
    refine ⟨a, b, ?_⟩
    rcases c with ⟨c1, c2⟩ | ⟨c1, _⟩
    · exact Or.inl ⟨c1, c2.acc⟩
    · cases c1
  cases h with
  | none =>
    have hl : l ≠ [] := by simpa using hne
    simpa [Spec.zero_add] using run_parts T m hnn rest l st hready hwl hl
  | some x =>
    have h1 := run_head T m st rest x hr (hwh x rfl)
    simp only [runFrom_append, Option.map_some, Option.getD_some]
    by_cases hl : l = []
    · subst hl
      simp only [List.flatMap_nil, runFrom_nil, List.map_nil, sumSpec_nil, Spec.add_zero]
      exact ⟨_, h1, Or.inl rfl⟩
    · have hr2 : Ready (runFrom T m st x.toks) .root rest :=
        ⟨h1.ctx.trans hr.1, h1.pfx, Or.inl ⟨rfl, by rw [h1.exp]; exact Or.inr (Or.inr rfl)⟩⟩
      obtain ⟨e2, h2, he2⟩ := run_parts T m hnn rest l _ hr2 hwl hl
      exact ⟨e2, h1.trans h2, he2⟩

theorem run_compound (T : Tables) (m : NsMap) (hnn : NotNorm T) (st : St) (rest : List Ctx) (c : Compound)
    (hr : ReadyHead st .root rest) (hw : c.WF T m) :
    ∃ e, Adv st (runFrom T m st c.toks) c.spec e ∧ CEnd e := by
  obtain ⟨ch, cl, ce⟩ := c
  obtain ⟨w1, w2, w3, w4⟩ := hw
  simp only at w1 w2 w3 w4
  have hready : Ready st .root rest := by
    obtain ⟨a, b, c⟩ := hr
    refine ⟨a, b, ?_⟩
    rcases c with ⟨c1, c2⟩ | ⟨c1, _⟩
    · exact Or.inl ⟨c1, c2.acc⟩
    · cases c1
  simp only [Compound.toks, Compound.spec, runFrom_append]
  by_cases hhl : ch.isSome ∨ cl ≠ []
  · obtain ⟨e1, h1, he1⟩ := run_head_parts T m hnn st rest ch cl hr w1 w2 hhl
    simp only [runFrom_append] at h1
    cases ce with
    | none =>
      simp only [Option.map_none, Option.getD_none, Option.isSome_none, runFrom_nil, Bool.false_eq_true, ↓reduceIte, Spec.add_zero]
      exact ⟨e1, h1, by rcases he1 with h | h; exact Or.inl h; exact Or.inr (Or.inl h)⟩
    | some pe =>
      have hr2 : Ready (runFrom T m (runFrom T m st ((ch.map Head.toks).getD [])) (cl.flatMap Part.toks))
          .root rest := ⟨h1.ctx.trans hr.1, h1.pfx, Or.inl ⟨rfl, by rw [h1.exp]; exact he1.acc⟩⟩
      have h2 := run_pelem T m _ rest pe hr2 (w3 pe rfl)
      simp only [Option.map_some, Option.getD_some, Option.isSome_some, ↓reduceIte]
      exact ⟨combinator, h1.trans h2, Or.inr (Or.inr rfl)⟩
  · have hch : ch = none := by
      cases ch with
      | none => rfl
      | some x => exact absurd (Or.inl rfl) hhl
    have hcl : cl = [] := by
      by_cases h : cl = []
      · exact h
      · exact absurd (Or.inr h) hhl
    subst hch hcl
    cases ce with
    | none => simp at w4
    | some pe =>
      have h2 := run_pelem T m st rest pe hready (w3 pe rfl)
      simp only [List.flatMap_nil, runFrom_nil, List.map_nil, sumSpec_nil, Spec.add_zero, Spec.zero_add,
        Option.map_none, Option.getD_none, Option.map_some, Option.getD_some, Option.isSome_some, ↓reduceIte]
      exact ⟨combinator, h2, Or.inr (Or.inr rfl)⟩


theorem Adv.refl (st : St) (hp : st.pfx = none) (hi : st.items ≠ []) : Adv st st (0, 0, 0) st.expected :=
  ⟨rfl, rfl, rfl, hp, rfl, rfl, rfl, rfl, hi⟩

/-- between two compounds -/
structure Between (st : St) (rest : List Ctx) : Prop where
  ctx : st.context = .root :: rest
  pfx : st.pfx = none
  exp : CEnd st.expected
  items : st.items ≠ []

theorem cend_comb {e : Text} (h : CEnd e) : isInfix (str "combinator") e = true := by
  rcases h with h | h | h <;> rw [h] <;> decide

theorem step_descendant (T : Tables) (m : NsMap) (st : St) (rest : List Ctx) (h : Between st rest) :
    Adv st (step T m st (.s, str " ")) (0, 0, 0) (sss ++ combinator) ∧
      ∃ r, (step T m st (.s, str " ")).items = ⟨.descendant, str " ", none⟩ :: r := by
  obtain ⟨hc, hp, he, hi⟩ := h
  have h1 := cend_comb he
  simp [step, ctx, hc, Ctx.isPseudo, h1, append, hp, count, IT.isSelector, ret,
    show (str " " = str "[") = False by decide]
  constructor <;> simp [hc, hp]

/-- an explicit combinator character, after an optional descendant item -/
theorem step_combchar (T : Tables) (m : NsMap) (st : St) (rest : List Ctx) (v : Text)
    (hc : st.context = .root :: rest) (hp : st.pfx = none) (he : isInfix (str "combinator") st.expected = true)
    (hi : st.items ≠ []) (hv : v = str ">" ∨ v = str "+" ∨ v = str "~") :
    Adv st (step T m st (.char, v)) (0, 0, 0) sss := by
  have hattr : isInfix (str "attrib") st.expected = true ∨ isInfix (str "attrib") st.expected = false := by
    cases isInfix (str "attrib") st.expected <;> simp
  obtain ⟨last, r, hit⟩ : ∃ last r, st.items = last :: r := by
    cases hh : st.items with
    | nil => exact absurd hh hi
    | cons a b => exact ⟨a, b, rfl⟩
  rcases hv with rfl | rfl | rfl <;>
  · by_cases hlast : last.val = str " " ∧ last.ns = none
    · simp [step, stepChar, ctx, hc, Ctx.isPseudo, he, hit, hlast.1, hlast.2, ret,
        show isInfix (str ">") (str "+-") = false by decide, show isInfix (str "~") (str "+-") = false by decide,
        show isInfix (str ">") (str "+>~") = true by decide, show isInfix (str "+") (str "+>~") = true by decide,
        show isInfix (str "~") (str "+>~") = true by decide,
        show (str ">" = str "]") = False by decide, show (str ">" = str "=") = False by decide,
        show (str ">" = str ")") = False by decide, show (str ">" = str "[") = False by decide,
        show (str "+" = str "]") = False by decide, show (str "+" = str "=") = False by decide,
        show (str "+" = str ")") = False by decide, show (str "+" = str "[") = False by decide,
        show (str "~" = str "]") = False by decide, show (str "~" = str "=") = False by decide,
        show (str "~" = str ")") = False by decide, show (str "~" = str "[") = False by decide,
        show (str "+" = str ">") = False by decide, show (str "~" = str ">") = False by decide,
        show (str "~" = str "+") = False by decide]
      constructor <;> simp [hc, hp]
    · have hl2 : (last.val == str " " && last.ns.isNone) = false := by
        cases hb : (last.val == str " " && last.ns.isNone) with
        | false => rfl
        | true =>
          simp only [Bool.and_eq_true, beq_iff_eq, Option.isNone_iff_eq_none] at hb
          exact absurd hb hlast
      simp only [Bool.and_eq_false_iff] at hl2
      simp [step, stepChar, ctx, hc, Ctx.isPseudo, he, hit, ret, append, hp, count, IT.isSelector,
        show isInfix (str ">") (str "+-") = false by decide, show isInfix (str "~") (str "+-") = false by decide,
        show isInfix (str ">") (str "+>~") = true by decide, show isInfix (str "+") (str "+>~") = true by decide,
        show isInfix (str "~") (str "+>~") = true by decide,
        show (str ">" = str "]") = False by decide, show (str ">" = str "=") = False by decide,
        show (str ">" = str ")") = False by decide, show (str ">" = str "[") = False by decide,
        show (str "+" = str "]") = False by decide, show (str "+" = str "=") = False by decide,
        show (str "+" = str ")") = False by decide, show (str "+" = str "[") = False by decide,
        show (str "~" = str "]") = False by decide, show (str "~" = str "=") = False by decide,
        show (str "~" = str ")") = False by decide, show (str "~" = str "[") = False by decide,
        show (str "+" = str ">") = False by decide, show (str "~" = str ">") = False by decide,
        show (str "~" = str "+") = False by decide]
      rw [if_neg hlast]
      constructor <;> simp [hc]


/-- whitespace after an explicit combinator is dropped -/
theorem step_ws_after (T : Tables) (m : NsMap) (st : St) (rest : List Ctx)
    (hc : st.context = .root :: rest) (he : st.expected = sss) : step T m st (.s, str " ") = st := by
  have h1 : isInfix (str "combinator") st.expected = false := by rw [he]; decide
  simp [step, ctx, hc, Ctx.isPseudo, h1]

theorem run_explicit (T : Tables) (m : NsMap) (st : St) (rest : List Ctx) (l : Layout) (v : Text)
    (h : Between st rest) (hv : v = str ">" ∨ v = str "+" ∨ v = str "~") :
    Adv st (runFrom T m st ((if l.before then [(.s, str " ")] else []) ++ [(.char, v)] ++
      (if l.after then [(.s, str " ")] else []))) (0, 0, 0) sss := by
  have hmid : ∀ s1, Adv st s1 (0, 0, 0) s1.expected → isInfix (str "combinator") s1.expected = true →
      Adv st (runFrom T m s1 ([(.char, v)] ++ (if l.after then [(.s, str " ")] else []))) (0, 0, 0) sss := by
    intro s1 h1 hcomb
    have hc1 : s1.context = .root :: rest := h1.ctx.trans h.ctx
    have h2 := step_combchar T m s1 rest v hc1 h1.pfx hcomb h1.items hv
    have h12 : Adv st (step T m s1 (.char, v)) (0, 0, 0) sss := by simpa [Spec.add] using h1.trans h2
    simp only [List.cons_append, List.nil_append, runFrom_cons]
    cases l.after with
    | false => simpa [runFrom_nil] using h12
    | true =>
      simp only [if_true, runFrom_cons, runFrom_nil]
      rw [step_ws_after T m _ rest (h12.ctx.trans h.ctx) h12.exp]
      exact h12
  rw [List.append_assoc, runFrom_append]
  cases l.before with
  | false =>
    simp only [Bool.false_eq_true, if_false, runFrom_nil]
    exact hmid st (Adv.refl st h.pfx h.items) (cend_comb h.exp)
  | true =>
    simp only [if_true, runFrom_cons, runFrom_nil]
    have hd := (step_descendant T m st rest h).1
    exact hmid _ (by rw [hd.exp]; exact hd) (by rw [hd.exp]; decide)

theorem run_comb (T : Tables) (m : NsMap) (st : St) (rest : List Ctx) (cb : Comb) (l : Layout)
    (h : Between st rest) : ∃ e, Adv st (runFrom T m st (cb.toks l)) (0, 0, 0) e ∧ AccHead e := by
  cases cb with
  | descendant =>
    exact ⟨_, by simpa [Comb.toks, runFrom_cons, runFrom_nil] using (step_descendant T m st rest h).1, Or.inr rfl⟩
  | child => exact ⟨_, run_explicit T m st rest l _ h (Or.inl rfl), Or.inl rfl⟩
  | adjacent => exact ⟨_, run_explicit T m st rest l _ h (Or.inr (Or.inl rfl)), Or.inl rfl⟩
  | following => exact ⟨_, run_explicit T m st rest l _ h (Or.inr (Or.inr rfl)), Or.inl rfl⟩

def Sel.WF (T : Tables) (m : NsMap) (σ : Sel) : Prop :=
  σ.first.WF T m ∧ ∀ x ∈ σ.rest, x.2.2.WF T m

theorem run_rest (T : Tables) (m : NsMap) (hnn : NotNorm T) (rest : List Ctx)
    (l : List (Comb × Layout × Compound)) :
    ∀ st, Between st rest → (∀ x ∈ l, x.2.2.WF T m) →
    ∃ e, Adv st (runFrom T m st (l.flatMap (fun x => x.1.toks x.2.1 ++ x.2.2.toks)))
      (sumSpec (l.map (fun x => x.2.2.spec))) e ∧ CEnd e := by
  induction l with
  | nil => intro st h _; exact ⟨_, Adv.refl st h.pfx h.items, h.exp⟩
  | cons x l ih =>
    intro st h hw
    simp only [List.flatMap_cons, List.map_cons, sumSpec_cons, runFrom_append]
    obtain ⟨e1, h1, he1⟩ := run_comb T m st rest x.1 x.2.1 h
    have hr : ReadyHead (runFrom T m st (x.1.toks x.2.1)) .root rest :=
      ⟨h1.ctx.trans h.ctx, h1.pfx, Or.inl ⟨rfl, by rw [h1.exp]; exact he1⟩⟩
    obtain ⟨e2, h2, he2⟩ := run_compound T m hnn _ rest x.2.2 hr (hw x (List.mem_cons_self ..))
    have h12 := h1.trans h2
    rw [Spec.zero_add] at h12
    have hb : Between (runFrom T m (runFrom T m st (x.1.toks x.2.1)) x.2.2.toks) rest :=
      ⟨h12.ctx.trans h.ctx, h12.pfx, by rw [h12.exp]; exact he2, h12.items⟩
    obtain ⟨e3, h3, he3⟩ := ih _ hb (fun y hy => hw y (List.mem_cons_of_mem _ hy))
    exact ⟨e3, h12.trans h3, he3⟩

theorem cend_ne {e : Text} (h : CEnd e) : (e == elementName) = false ∧ (e == sss) = false := by
  rcases h with h | h | h <;> rw [h] <;> decide

/-- **Specificity of every well-formed selector.**  Running the selector state machine over the token
stream of any selector `σ` of the level-3 grammar ends well-formed, with no error logged, and with exactly
the specificity the CSS definition gives `σ`. -/
theorem run_sel (T : Tables) (m : NsMap) (hnn : NotNorm T) (σ : Sel) (hw : σ.WF T m) :
    (finish (run T m σ.toks)).wellformed = true ∧ (finish (run T m σ.toks)).firstErr = "" ∧
      (finish (run T m σ.toks)).spec = σ.spec := by
  have hinit : ReadyHead init .root [] := ⟨rfl, rfl, Or.inl ⟨rfl, Or.inl rfl⟩⟩
  obtain ⟨e1, h1, he1⟩ := run_compound T m hnn init [] σ.first hinit hw.1
  have hb : Between (runFrom T m init σ.first.toks) [] := ⟨h1.ctx, h1.pfx, by rw [h1.exp]; exact he1, h1.items⟩
  obtain ⟨e2, h2, he2⟩ := run_rest T m hnn [] σ.rest _ hb hw.2
  have h := h1.trans h2
  have hrun : run T m σ.toks = runFrom T m (runFrom T m init σ.first.toks)
      (σ.rest.flatMap (fun x => x.1.toks x.2.1 ++ x.2.2.toks)) := by
    simp [run, Sel.toks, runFrom]
  rw [hrun]
  generalize runFrom T m (runFrom T m init σ.first.toks) _ = s at h
  obtain ⟨a1, a2, a3, a4, a5, a6, a7, a8, a9⟩ := h
  obtain ⟨n1, n2⟩ := cend_ne he2
  have hwf : s.wellformed = true := a2
  have herr : s.firstErr = "" := a3
  have hne : s.items.isEmpty = false := by
    cases hh : s.items with
    | nil => exact absurd hh a9
    | cons _ _ => rfl
  have hctx : s.context = [.root] := a1
  simp [finish, hwf, herr, hne, hctx, a8, n1, n2, a5, a6, a7, Sel.spec, init, Spec.add]

end CssVerif.Selector
