/-
The inverse of the css codec WITHOUT an encoding argument on the decoder side: `encode t none`
chooses the encoding from the text (`detectUnicode`), `decode b none` has to find it again in the
bytes (`detectStr`).  This works when the inner codec writes ASCII text as the same bytes
(`AsciiTransparent`), so that the `@charset "name"` head of the text is literally the head of the
bytes.
-/
import CssVerif.Proofs.CodecEnc
namespace CssVerif.Codec

/-! ### what is assumed of the inner codec for one encoding name -/

/-- the inner codec for the name `e` exists, round-trips, and writes an ASCII prefix of the text as
the same bytes (true of UTF-8, Latin-1, the Windows code pages, …; false of UTF-16/32, of
`utf-8-sig` (which writes a byte-order mark first) and of EBCDIC code pages).  Nothing is assumed
about what follows the ASCII prefix. -/
structure AsciiTransparent (I : Inner) (e : Text) : Prop where
  known : I.known e = true
  roundtrip : ∀ (t : Text) (b : Bytes), I.encodeAll e t = some b → I.decodeAll e b = some t
  ascii_prefix : ∀ (p r : Text) (b : Bytes), (∀ c ∈ p, c < 128) → I.encodeAll e (p ++ r) = some b →
    ∃ b', b = p ++ b'

/-- the inner codec for a `utf-8-sig` spelling `e` writes the UTF-8 byte-order mark first, and the
decoder registered under the canonical name `utf-8-sig` (the name the byte detector answers) reads
it back -/
structure SigCodec (I : Inner) (e : Text) : Prop where
  known_sig : I.known (ofStr "utf-8-sig") = true
  bom : ∀ (t : Text) (b : Bytes), I.encodeAll e t = some b → ∃ b', b = 0xEF :: 0xBB :: 0xBF :: b'
  roundtrip : ∀ (t : Text) (b : Bytes), I.encodeAll e t = some b → I.decodeAll (ofStr "utf-8-sig") b = some t

/-! ### the two one-shot functions without an encoding argument, taken apart -/

/-- what a successful `encode t none` did -/
theorem encode_none_ok (I : Inner) (t : Text) (b : Bytes) (h : encode I t none = .ok b) :
    isCss ((detectUnicode t true).1.getD utf8) = false ∧
    I.known ((detectUnicode t true).1.getD utf8) = true ∧
    I.encodeAll ((detectUnicode t true).1.getD utf8)
      (if isUtf8Sig ((detectUnicode t true).1.getD utf8) then (fixEncoding t utf8 true).getD t else t) = some b := by
  unfold encode at h
  simp only at h
  generalize (detectUnicode t true).1.getD utf8 = e at h ⊢
  by_cases hcss : (isCss e) = true
  · simp [hcss] at h
  · have hcss' : (isCss e) = false := bool_false_of_not_true hcss
    simp only [hcss', Bool.false_eq_true, if_false] at h
    by_cases hk : I.known e = true
    · simp only [hk, Bool.not_true, Bool.false_eq_true, if_false] at h
      refine ⟨hcss', hk, ?_⟩
      cases henc : I.encodeAll e (if isUtf8Sig e = true then (fixEncoding t utf8 true).getD t else t) with
      | none => simp [henc] at h
      | some b' =>
        simp only [henc] at h
        rw [Except.ok.inj h]
    · have hk' : I.known e = false := bool_false_of_not_true hk
      simp [hk'] at h

/-- `decode b none` once the detector's answer for the bytes is known -/
theorem decode_none_of_detect (I : Inner) (b : Bytes) (e t : Text) (f : Bool)
    (hd : (detectStr b true).1 = some e) (hcss : isCss e = false) (hk : I.known e = true)
    (hdec : I.decodeAll e b = some t) :
    decode I b none f = .ok ((fixEncoding t e true).getD t) := by
  unfold decode decodeWith
  simp only [hd, Option.getD_some, Option.map_some, hcss, Option.isNone_none, Bool.true_or, Bool.true_and,
    Bool.false_eq_true, if_false, hk, Bool.not_true, hdec]

/-! ### heads -/

/-- the byte detector on a complete head (the same statement as `C14.priority_charset`) -/
theorem detect_header (name rest : Bytes) (f : Bool) (hq : ∀ c ∈ name, c ≠ 34) :
    detectStr (charsetPrefix ++ name ++ 34 :: rest) f = (some name, true) := by
  have hc : cands (charsetPrefix ++ name ++ 34 :: rest) = [.charset] := by
    have : charsetPrefix ++ name ++ 34 :: rest = [64, 99, 104, 97] ++ ([114, 115, 101, 116, 32, 34] ++ name ++ 34 :: rest) := by
      simp [charsetPrefix, ofStr]
    rw [this, cands_long _ _ (by simp)]
    decide
  have hname : charsetName (charsetPrefix ++ name ++ 34 :: rest) = some name := by
    unfold charsetName
    have hp : charsetPrefix.isPrefixOf (charsetPrefix ++ name ++ 34 :: rest) = true := by
      rw [List.isPrefixOf_iff_prefix, List.append_assoc]; exact List.prefix_append _ _
    simp only [hp, if_true]
    have hfq : findQuote (charsetPrefix ++ name ++ 34 :: rest) charsetPrefix.length = some (charsetPrefix.length + name.length) := by
      unfold findQuote
      rw [List.append_assoc, List.drop_left, findIdx_first_quote name rest hq]
    simp only [hfq]
    rw [List.append_assoc, ← List.length_append, ← List.append_assoc, List.take_left]
    simp
  unfold detectStr
  rw [hc]
  have hl : (charsetPrefix ++ name ++ 34 :: rest).length ≥ need .charset := by
    simp [need, charsetPrefix_length]; omega
  simp only [hl, if_true, hname]
  rfl

/-- the text detector on a complete head -/
theorem detectU_header (name rest : Text) (f : Bool) (hq : ∀ c ∈ name, c ≠ 34) :
    detectUnicode (charsetPrefix ++ name ++ 34 :: rest) f = (some name, true) := by
  unfold detectUnicode
  have hp : charsetPrefix.isPrefixOf (charsetPrefix ++ name ++ 34 :: rest) = true := by
    rw [List.isPrefixOf_iff_prefix, List.append_assoc]; exact List.prefix_append _ _
  have hfq : findQuote (charsetPrefix ++ name ++ 34 :: rest) charsetPrefix.length = some (charsetPrefix.length + name.length) := by
    unfold findQuote
    rw [List.append_assoc, List.drop_left, findIdx_first_quote name rest hq]
  simp only [hp, if_true, hfq]
  rw [List.append_assoc, ← List.length_append, ← List.append_assoc, List.take_left]
  simp

/-- conversely: when the text detector answers "explicit", the text IS a complete head with that
name, and the name has no quote -/
theorem detectU_explicit {t e : Text} {f : Bool} (h : detectUnicode t f = (some e, true)) :
    ∃ rest, t = charsetPrefix ++ e ++ 34 :: rest ∧ ∀ c ∈ e, c ≠ 34 := by
  unfold detectUnicode at h
  by_cases hp : charsetPrefix.isPrefixOf t = true
  · simp only [hp, if_true] at h
    obtain ⟨s, hs⟩ := List.isPrefixOf_iff_prefix.mp hp
    cases hfq : findQuote t charsetPrefix.length with
    | none => simp [hfq] at h
    | some pos =>
      simp only [hfq] at h
      have he : (t.take pos).drop charsetPrefix.length = e := by
        have := congrArg Prod.fst h
        exact Option.some.inj this
      unfold findQuote at hfq
      cases hf : (t.drop charsetPrefix.length).findIdx? (· == 34) with
      | none => rw [hf] at hfq; cases hfq
      | some i =>
        rw [hf] at hfq
        have hpos : pos = charsetPrefix.length + i := (Option.some.inj hfq).symm
        subst hs
        rw [List.drop_left] at hf
        obtain ⟨hlt, hv, hbefore⟩ := List.findIdx?_eq_some_iff_getElem.mp hf
        have hv' : s[i] = 34 := by simpa using hv
        have he' : s.take i = e := by
          rw [← he, hpos, List.take_length_add_append, List.drop_left]
        refine ⟨s.drop (i + 1), ?_, ?_⟩
        · rw [← he', List.append_assoc]
          congr 1
          rw [← hv', ← List.drop_eq_getElem_cons hlt, List.take_append_drop]
        · intro c hc
          rw [← he'] at hc
          obtain ⟨j, hj, rfl⟩ := List.getElem_of_mem hc
          rw [List.length_take] at hj
          have hji : j < i := by omega
          have := hbefore j hji
          rw [List.getElem_take]
          simpa using this
  · have hpf : charsetPrefix.isPrefixOf t = false := bool_false_of_not_true hp
    simp only [hpf, Bool.false_eq_true, if_false] at h
    split at h
    · have := congrArg Prod.snd h; cases this
    · have := congrArg Prod.snd h; cases this

/-- when the text detector does not answer "explicit", it answers UTF-8 or nothing -/
theorem detectU_implicit {t : Text} (h : (detectUnicode t true).2 = false) :
    (detectUnicode t true).1.getD utf8 = utf8 := by
  unfold detectUnicode at h ⊢
  by_cases hp : charsetPrefix.isPrefixOf t = true
  · simp only [hp, if_true] at h ⊢
    cases hfq : findQuote t charsetPrefix.length with
    | none => rfl
    | some pos => simp [hfq] at h
  · have hpf : charsetPrefix.isPrefixOf t = false := bool_false_of_not_true hp
    simp only [hpf, Bool.false_eq_true, if_false, Bool.true_or, if_true]
    rfl

/-- … and the header rewriter leaves the text alone, whatever the name -/
theorem fix_implicit {t : Text} (e : Text) (h : (detectUnicode t true).2 = false) :
    fixEncoding t e true = some t := by
  unfold detectUnicode at h
  unfold fixEncoding
  by_cases hp : charsetPrefix.isPrefixOf t = true
  · simp only [hp, if_true] at h ⊢
    cases hfq : findQuote t charsetPrefix.length with
    | none => simp
    | some pos => simp [hfq] at h
  · have hpf : charsetPrefix.isPrefixOf t = false := bool_false_of_not_true hp
    simp only [hpf, Bool.false_eq_true, if_false, Bool.or_true, if_true]
    split <;> rfl

/-! ### (a) the text starts with a complete `@charset "e"` head -/

/-- ASCII transparency puts the head of the text at the head of the bytes -/
theorem head_bytes (I : Inner) (e rest : Text) (b : Bytes) (tr : AsciiTransparent I e)
    (ha : ∀ c ∈ e, c < 128) (h : I.encodeAll e (charsetPrefix ++ e ++ 34 :: rest) = some b) :
    ∃ b', b = charsetPrefix ++ e ++ 34 :: b' := by
  have hp : ∀ c ∈ charsetPrefix ++ e ++ [34], c < 128 := by
    intro c hc
    simp only [List.mem_append, List.mem_singleton] at hc
    rcases hc with (hc | hc) | hc
    · revert c; decide
    · exact ha c hc
    · omega
  have heq : charsetPrefix ++ e ++ 34 :: rest = (charsetPrefix ++ e ++ [34]) ++ rest := by simp
  rw [heq] at h
  obtain ⟨b', hb'⟩ := tr.ascii_prefix _ _ _ hp h
  exact ⟨b', by rw [hb']; simp⟩

theorem encode_decode_head (I : Inner) (e rest : Text) (b : Bytes) (tr : AsciiTransparent I e)
    (hq : ∀ c ∈ e, c ≠ 34) (ha : ∀ c ∈ e, c < 128) (hs : isUtf8Sig e = false)
    (h : encode I (charsetPrefix ++ e ++ 34 :: rest) none = .ok b) (f : Bool) :
    decode I b none f = .ok (charsetPrefix ++ e ++ 34 :: rest) := by
  obtain ⟨hcss, hk, henc⟩ := encode_none_ok I _ b h
  rw [detectU_header e rest true hq] at hcss hk henc
  simp only [Option.getD_some, hs, Bool.false_eq_true, if_false] at hcss hk henc
  obtain ⟨b', hb'⟩ := head_bytes I e rest b tr ha henc
  have hd : (detectStr b true).1 = some e := by rw [hb', detect_header e b' true hq]
  rw [decode_none_of_detect I b e _ f hd hcss hk (tr.roundtrip _ _ henc), fix_header e rest e true hq]
  simp [written, hs]

/-- the `utf-8-sig` spellings: `encode` rewrites the head to `utf-8` before encoding, the inner codec
writes a BOM, the decoder sees the BOM, decodes with `utf-8-sig` and writes `utf-8` again -/
theorem encode_decode_head_sig (I : Inner) (e rest : Text) (b : Bytes) (sc : SigCodec I e)
    (hq : ∀ c ∈ e, c ≠ 34) (hs : isUtf8Sig e = true)
    (h : encode I (charsetPrefix ++ e ++ 34 :: rest) none = .ok b) (f : Bool) :
    decode I b none f = .ok (charsetPrefix ++ utf8 ++ 34 :: rest) := by
  obtain ⟨_, _, henc⟩ := encode_none_ok I _ b h
  rw [detectU_header e rest true hq] at henc
  simp only [Option.getD_some, hs, if_true] at henc
  rw [fix_header e rest utf8 true hq, written_utf8] at henc
  simp only [Option.getD_some] at henc
  obtain ⟨b', hb'⟩ := sc.bom _ _ henc
  have hd : (detectStr b true).1 = some (ofStr "utf-8-sig") := by
    rw [hb']
    cases b' <;> simp [detectStr, cands, allCands, compat, pat, patOK, need, candName]
  rw [decode_none_of_detect I b (ofStr "utf-8-sig") _ f hd (by decide) sc.known_sig (sc.roundtrip _ _ henc),
    fix_header utf8 rest (ofStr "utf-8-sig") true utf8_noquote]
  rfl

/-! ### (b) the text does not start with a complete head: UTF-8 -/

theorem encode_decode_nohead (I : Inner) (t : Text) (b : Bytes) (tr : AsciiTransparent I utf8)
    (hn : (detectUnicode t true).2 = false) (h : encode I t none = .ok b)
    (hd : (detectStr b true).1 = some utf8) (f : Bool) :
    decode I b none f = .ok t := by
  obtain ⟨_, _, henc⟩ := encode_none_ok I _ b h
  rw [detectU_implicit hn] at henc
  have h8 : isUtf8Sig utf8 = false := by decide
  simp only [h8, Bool.false_eq_true, if_false] at henc
  rw [decode_none_of_detect I b utf8 t f hd (by decide) tr.known (tr.roundtrip _ _ henc), fix_implicit utf8 hn]
  rfl

/-- conversely, when the byte detector answers anything else, the decoder does not even call the
UTF-8 decoder: it reports the css-in-css error or decodes with the detected name -/
theorem decode_none_other (I : Inner) (b : Bytes) (e : Text) (f : Bool)
    (hd : (detectStr b true).1 = some e) :
    decode I b none f = if isCss e then .error .value else decodeWith I e b := by
  unfold decode
  simp only [hd, Option.getD_some, Option.map_some, Option.isNone_none, Bool.true_or, Bool.true_and]

theorem cands_nil_append {p q : Bytes} (h : cands p = []) : cands (p ++ q) = [] := by
  have := cands_sublist p q
  rw [h] at this
  exact List.sublist_nil.mp this

theorem detect_cands_nil {b : Bytes} (f : Bool) (h : cands b = []) : detectStr b f = (some utf8, false) := by
  unfold detectStr
  rw [h]

/-- a first byte that no pattern starts with rules every candidate out -/
theorem cands_first (c : Nat) (h128 : c < 128) (h0 : c ≠ 0) (h64 : c ≠ 64) : cands [c] = [] := by
  have e1 : (0xEF == c) = false := by simp; omega
  have e2 : (0xFF == c) = false := by simp; omega
  have e3 : (0xFE == c) = false := by simp; omega
  have e4 : (64 == c) = false := by simp; omega
  have e5 : (0 == c) = false := by simp; omega
  simp [cands, allCands, compat, pat, patOK, e1, e2, e3, e4, e5]

/-- an ASCII prefix of the text that already rules out every candidate -/
theorem encode_decode_prefix (I : Inner) (p r : Text) (b : Bytes) (tr : AsciiTransparent I utf8)
    (hn : (detectUnicode (p ++ r) true).2 = false) (h : encode I (p ++ r) none = .ok b)
    (hp : ∀ c ∈ p, c < 128) (hc : cands p = []) (f : Bool) :
    decode I b none f = .ok (p ++ r) := by
  have henc := (encode_none_ok I _ b h).2.2
  rw [detectU_implicit hn] at henc
  have h8 : isUtf8Sig utf8 = false := by decide
  simp only [h8, Bool.false_eq_true, if_false] at henc
  obtain ⟨b', hb'⟩ := tr.ascii_prefix p r b hp henc
  refine encode_decode_nohead I _ b tr hn h ?_ f
  rw [hb', detect_cands_nil true (cands_nil_append hc)]

/-- a text whose first character is ASCII, not NUL and not `@` never starts with a head -/
theorem detectU_first (c : Nat) (r : Text) (h64 : c ≠ 64) : (detectUnicode (c :: r) true).2 = false := by
  unfold detectUnicode
  have : charsetPrefix.isPrefixOf (c :: r) = false := by
    have : charsetPrefix = 64 :: ofStr "charset \"" := by decide
    rw [this, List.isPrefixOf]
    have : (64 == c) = false := by simp; omega
    simp [this]
  simp [this]

/-! ### toy inner codecs (for counterexamples and non-vacuity) -/

/-- a fragment of UTF-8: ASCII and U+FEFF (`EF BB BF`); every other character is an error -/
def toyEnc : Text → Option Bytes
  | [] => some []
  | c :: r =>
    if c < 128 then (toyEnc r).map (c :: ·)
    else if c = 0xFEFF then (toyEnc r).map (fun x => 0xEF :: 0xBB :: 0xBF :: x)
    else none

def toyDec : Bytes → Option Text
  | [] => some []
  | c :: r =>
    if c < 128 then (toyDec r).map (c :: ·)
    else match r with
      | x :: y :: r' => if c = 0xEF ∧ x = 0xBB ∧ y = 0xBF then (toyDec r').map (0xFEFF :: ·) else none
      | _ => none

def stripBom : Bytes → Bytes
  | 0xEF :: 0xBB :: 0xBF :: r => r
  | b => b

/-- `utf-8` and, under its spellings, `utf-8-sig` (BOM written by the encoder, skipped by the
decoder); no other name is known; the state remembers whether the BOM is still due -/
def toyInner : Inner where
  D := Bool
  E := Bool
  known := fun e => normName e == utf8 || isUtf8Sig e
  dinit := fun e => isUtf8Sig e
  dec := fun d b _ => (toyDec (if d then stripBom b else b)).map (fun t => (t, false))
  einit := fun e => isUtf8Sig e
  enc := fun s t _ => (toyEnc t).map (fun b => (if s then 0xEF :: 0xBB :: 0xBF :: b else b, false))

theorem toy_roundtrip : ∀ (t : Text) (b : Bytes), toyEnc t = some b → toyDec b = some t := by
  intro t
  induction t with
  | nil => intro b h; simp [toyEnc] at h; subst h; rfl
  | cons c r ih =>
    intro b h
    unfold toyEnc at h
    by_cases hc : c < 128
    · simp only [hc, if_true] at h
      cases hr : toyEnc r with
      | none => simp [hr] at h
      | some b0 =>
        simp only [hr, Option.map_some] at h
        rw [← Option.some.inj h]
        unfold toyDec
        simp [hc, ih b0 hr]
    · simp only [hc, if_false] at h
      by_cases hf : c = 0xFEFF
      · simp only [hf, if_true] at h
        cases hr : toyEnc r with
        | none => simp [hr] at h
        | some b0 =>
          simp only [hr, Option.map_some] at h
          rw [← Option.some.inj h, hf]
          unfold toyDec
          simp [ih b0 hr]
      · simp [hf] at h

theorem toy_prefix : ∀ (p r : Text) (b : Bytes), (∀ c ∈ p, c < 128) → toyEnc (p ++ r) = some b → ∃ b', b = p ++ b' := by
  intro p
  induction p with
  | nil => intro r b _ _; exact ⟨b, rfl⟩
  | cons c p ih =>
    intro r b hp h
    have hc : c < 128 := hp c List.mem_cons_self
    simp only [List.cons_append] at h
    unfold toyEnc at h
    simp only [hc, if_true] at h
    cases hr : toyEnc (p ++ r) with
    | none => simp [hr] at h
    | some b0 =>
      simp only [hr, Option.map_some] at h
      obtain ⟨b', hb'⟩ := ih r b0 (fun x hx => hp x (List.mem_cons_of_mem _ hx)) hr
      exact ⟨b', by rw [← Option.some.inj h, hb']; rfl⟩

theorem toy_notsig {e : Text} (h : normName e = utf8) : isUtf8Sig e = false := by
  unfold isUtf8Sig; rw [h]; decide

/-- the toy codec is ASCII-transparent under every spelling of `utf-8` -/
theorem toyInner_transparent (e : Text) (hn : normName e = utf8) : AsciiTransparent toyInner e where
  known := by simp [toyInner, hn]
  roundtrip := by
    intro t b h
    have h8 : isUtf8Sig e = false := toy_notsig hn
    simp only [Inner.encodeAll, toyInner, h8, Bool.false_eq_true, if_false, Option.map_map] at h
    simp only [Inner.decodeAll, toyInner, h8, Bool.false_eq_true, if_false, Option.map_map]
    cases hr : toyEnc t with
    | none => simp [hr] at h
    | some b0 =>
      simp only [hr, Option.map_some, Function.comp] at h
      rw [← Option.some.inj h, toy_roundtrip t b0 hr]
      rfl
  ascii_prefix := by
    intro p r b hp h
    have h8 : isUtf8Sig e = false := toy_notsig hn
    simp only [Inner.encodeAll, toyInner, h8, Bool.false_eq_true, if_false, Option.map_map] at h
    cases hr : toyEnc (p ++ r) with
    | none => simp [hr] at h
    | some b0 =>
      simp only [hr, Option.map_some, Function.comp] at h
      rw [← Option.some.inj h]
      exact toy_prefix p r b0 hp hr

/-- … and a BOM-writing `utf-8-sig` codec under every spelling of that name -/
theorem toyInner_sig (e : Text) (hs : isUtf8Sig e = true) : SigCodec toyInner e where
  known_sig := by decide
  bom := by
    intro t b h
    simp only [Inner.encodeAll, toyInner, hs, if_true, Option.map_map] at h
    cases hr : toyEnc t with
    | none => simp [hr] at h
    | some b0 =>
      simp only [hr, Option.map_some, Function.comp] at h
      exact ⟨b0, (Option.some.inj h).symm⟩
  roundtrip := by
    intro t b h
    have hs' : isUtf8Sig (ofStr "utf-8-sig") = true := by decide
    simp only [Inner.encodeAll, toyInner, hs, if_true, Option.map_map] at h
    simp only [Inner.decodeAll, toyInner, hs', if_true, Option.map_map]
    cases hr : toyEnc t with
    | none => simp [hr] at h
    | some b0 =>
      simp only [hr, Option.map_some, Function.comp] at h
      rw [← Option.some.inj h]
      simp only [stripBom, toy_roundtrip t b0 hr]
      rfl

/-- the identity codec is ASCII-transparent for every name -/
theorem idInner_transparent (e : Text) : AsciiTransparent idInner e where
  known := rfl
  roundtrip := fun t b h => idInner_roundtrip e t b rfl h
  ascii_prefix := by
    intro p r b _ h
    have : p ++ r = b := Option.some.inj h
    exact ⟨r, this.symm⟩

end CssVerif.Codec
