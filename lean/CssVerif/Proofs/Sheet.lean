/-
Invariant `Valid` of the sheet model: preserved by every operation; rejected operations leave the
rule list unchanged.
-/
import CssVerif.Model.Sheet
namespace CssVerif.Sheet

abbrev lv (r : Rule) : Option Nat := lvl r.kind

def lvLe (m : Nat) (l : Sheet) : Prop := ∀ x ∈ l, ∀ n, lv x = some n → n ≤ m
def lvGe (m : Nat) (l : Sheet) : Prop := ∀ x ∈ l, ∀ n, lv x = some n → m ≤ n
def noCharset (l : Sheet) : Prop := ∀ x ∈ l, x.kind ≠ .charset

theorem lvLe_mono {m k : Nat} (h : m ≤ k) {l : Sheet} (hl : lvLe m l) : lvLe k l :=
  fun x hx n hn => Nat.le_trans (hl x hx n hn) h
theorem lvGe_mono {m k : Nat} (h : k ≤ m) {l : Sheet} (hl : lvGe m l) : lvGe k l :=
  fun x hx n hn => Nat.le_trans h (hl x hx n hn)
theorem lvLe_append {m : Nat} {a b : Sheet} (ha : lvLe m a) (hb : lvLe m b) : lvLe m (a ++ b) := by
  intro x hx; rcases List.mem_append.mp hx with h | h; exact ha x h; exact hb x h
theorem lvGe_append {m : Nat} {a b : Sheet} (ha : lvGe m a) (hb : lvGe m b) : lvGe m (a ++ b) := by
  intro x hx; rcases List.mem_append.mp hx with h | h; exact ha x h; exact hb x h

/-! ### sublists stay valid (deleteRule, clean-up) -/

theorem valid_of_sublist {s s' : Sheet} (h : s'.Sublist s) (hv : Valid s) : Valid s' := by
  refine ⟨?_, ?_⟩
  · intro r hr
    exact hv.1 r ((List.Sublist.tail h).subset hr)
  · exact List.Pairwise.sublist (List.Sublist.filterMap _ h) hv.2

theorem valid_nil : Valid [] := by
  refine ⟨?_, ?_⟩
  · intro r hr; cases hr
  · simp

/-! ### pivots -/

theorem filterMap_pairwise_append {a b : Sheet} :
    ((a ++ b).filterMap lv).Pairwise (· ≤ ·) ↔
      (a.filterMap lv).Pairwise (· ≤ ·) ∧ (b.filterMap lv).Pairwise (· ≤ ·) ∧
      ∀ x ∈ a, ∀ y ∈ b, ∀ n m, lv x = some n → lv y = some m → n ≤ m := by
  rw [List.filterMap_append, List.pairwise_append]
  constructor
  · rintro ⟨h1, h2, h3⟩
    refine ⟨h1, h2, ?_⟩
    intro x hx y hy n m hn hm
    exact h3 n (List.mem_filterMap.mpr ⟨x, hx, hn⟩) m (List.mem_filterMap.mpr ⟨y, hy, hm⟩)
  · rintro ⟨h1, h2, h3⟩
    refine ⟨h1, h2, ?_⟩
    intro n hn m hm
    obtain ⟨x, hx, hxn⟩ := List.mem_filterMap.mp hn
    obtain ⟨y, hy, hym⟩ := List.mem_filterMap.mp hm
    exact h3 x hx y hy n m hxn hym

/-- around a rule of level `m` everything before is ≤ m and everything after is ≥ m -/
theorem pivot {a b : Sheet} {x : Rule} {m : Nat} (hv : Valid (a ++ x :: b)) (hx : lv x = some m) :
    lvLe m a ∧ lvGe m b := by
  have h := filterMap_pairwise_append.mp hv.2
  refine ⟨?_, ?_⟩
  · intro y hy n hn
    exact h.2.2 y hy x List.mem_cons_self n m hn hx
  · intro y hy n hn
    have h2 : ((x :: b).filterMap lv).Pairwise (· ≤ ·) := h.2.1
    have : (([x] ++ b).filterMap lv).Pairwise (· ≤ ·) := by simpa using h2
    exact (filterMap_pairwise_append.mp this).2.2 x (by simp) y hy m n hx hn

/-! ### inserting one rule -/

theorem valid_insert {a b : Sheet} {r : Rule} (hv : Valid (a ++ b))
    (hc1 : r.kind = .charset → a = [] ∧ noCharset b)
    (hc2 : r.kind ≠ .charset → a = [] → ∀ h ∈ b.head?, h.kind ≠ .charset)
    (hl : ∀ m, lv r = some m → lvLe m a ∧ lvGe m b) : Valid (a ++ r :: b) := by
  refine ⟨?_, ?_⟩
  · cases a with
    | nil =>
      simp only [List.nil_append, List.tail_cons]
      by_cases hk : r.kind = .charset
      · exact (hc1 hk).2
      · intro x hx
        cases b with
        | nil => cases hx
        | cons h t =>
          rcases List.mem_cons.mp hx with rfl | hx'
          · exact hc2 hk rfl x (by simp)
          · exact hv.1 x (by simpa using hx')
    | cons y a' =>
      simp only [List.cons_append, List.tail_cons]
      intro x hx
      rcases List.mem_append.mp hx with h | h
      · exact hv.1 x (by simp [h])
      · rcases List.mem_cons.mp h with rfl | h'
        · intro hk; have := (hc1 hk).1; cases this
        · exact hv.1 x (by simp [h'])
  · have h0 := filterMap_pairwise_append.mp hv.2
    have : a ++ r :: b = a ++ ([r] ++ b) := by simp
    rw [this]
    apply filterMap_pairwise_append.mpr
    refine ⟨h0.1, ?_, ?_⟩
    · apply filterMap_pairwise_append.mpr
      refine ⟨?_, h0.2.1, ?_⟩
      · cases hr : lv r <;> simp [List.filterMap_cons, hr]
      · intro x hx y hy n m hn hm
        simp only [List.mem_singleton] at hx
        subst hx
        exact (hl n hn).2 y hy m hm
    · intro x hx y hy n m hn hm
      rcases List.mem_append.mp hy with h | h
      · simp only [List.mem_singleton] at h
        subst h
        exact (hl m hm).1 x hx n hn
      · exact h0.2.2 x hx y h n m hn hm

theorem insertAt_eq (s : Sheet) (i : Nat) (r : Rule) : insertAt s i r = s.take i ++ r :: s.drop i := rfl

theorem headIs_false_iff {s : Sheet} {k : Kind} : headIs s k = false ↔ ∀ h ∈ s.head?, h.kind ≠ k := by
  unfold headIs
  cases s with
  | nil => simp
  | cons h t => simp

theorem any_kindIn_false {l : Sheet} {ks : List Kind} (h : l.any (kindIn ks) = false) :
    ∀ x ∈ l, x.kind ∉ ks := by
  intro x hx hk
  have : l.any (kindIn ks) = true := List.any_eq_true.mpr ⟨x, hx, by simpa [kindIn] using hk⟩
  rw [h] at this; cases this

/-- non-charset rule inserted at `index` of a valid sheet with the given level bounds -/
theorem valid_insertAt {s : Sheet} {r : Rule} {i : Nat} (hv : Valid s) (hk : r.kind ≠ .charset)
    (h0 : ¬ (i = 0 ∧ headIs s .charset = true))
    (hl : ∀ m, lv r = some m → lvLe m (s.take i) ∧ lvGe m (s.drop i)) : Valid (insertAt s i r) := by
  rw [insertAt_eq]
  have hs : s.take i ++ s.drop i = s := List.take_append_drop i s
  apply valid_insert (by rw [hs]; exact hv) (fun h => absurd h hk) ?_ hl
  intro _ ha
  cases i with
  | zero =>
    simp only [List.drop_zero]
    have : headIs s .charset = false := by
      cases hh : headIs s .charset with
      | false => rfl
      | true => exact absurd ⟨rfl, hh⟩ h0
    exact headIs_false_iff.mp this
  | succ j =>
    -- take (j+1) s = [] means s = []
    have : s = [] := by
      cases s with
      | nil => rfl
      | cons x xs => simp at ha
    subst this
    simp

/-! ### split helpers -/

theorem mem_takeWhile_imp {α} {p : α → Bool} {l : List α} {x : α} (h : x ∈ l.takeWhile p) : p x = true := by
  induction l with
  | nil => cases h
  | cons y ys ih =>
    simp only [List.takeWhile_cons] at h
    split at h
    · rcases List.mem_cons.mp h with rfl | h'
      · assumption
      · exact ih h'
    · cases h


theorem splitLast_spec (p : Rule → Bool) (s : Sheet) :
    (splitLast p s).1 ++ (splitLast p s).2 = s ∧ (∀ x ∈ (splitLast p s).2, p x = false) ∧
    ((splitLast p s).1 = [] ∨ ∃ a x, (splitLast p s).1 = a ++ [x] ∧ p x = true) := by
  simp only [splitLast]
  refine ⟨?_, ?_, ?_⟩
  · rw [← List.reverse_append, List.takeWhile_append_dropWhile, List.reverse_reverse]
  · intro x hx
    have := mem_takeWhile_imp (List.mem_reverse.mp hx)
    simpa using this
  · cases hd : s.reverse.dropWhile (fun x => !p x) with
    | nil => left; rfl
    | cons y ys =>
      right
      refine ⟨ys.reverse, y, by simp, ?_⟩
      have := List.head_dropWhile_not (fun x => !p x) (l := s.reverse) (by rw [hd]; simp)
      simp only [hd, List.head_cons, Bool.not_not] at this
      simpa using this

theorem splitFirst_spec (q : Rule → Bool) (s : Sheet) :
    (splitFirst q s).1 ++ (splitFirst q s).2 = s ∧ (∀ x ∈ (splitFirst q s).1, q x = false) ∧
    ((splitFirst q s).2 = [] ∨ ∃ y b, (splitFirst q s).2 = y :: b ∧ q y = true) := by
  simp only [splitFirst]
  refine ⟨List.takeWhile_append_dropWhile, ?_, ?_⟩
  · intro x hx
    have := mem_takeWhile_imp hx
    simpa using this
  · cases hd : s.dropWhile (fun x => !q x) with
    | nil => left; rfl
    | cons y ys =>
      right
      refine ⟨y, ys, rfl, ?_⟩
      have := List.head_dropWhile_not (fun x => !q x) (l := s) (by rw [hd]; simp)
      simp only [hd, List.head_cons, Bool.not_not] at this
      simpa using this


/-! ### level facts by kind -/

theorem lv_ge_one (x : Rule) (n : Nat) (h : lv x = some n) : 1 ≤ n := by
  unfold lv lvl at h; split at h <;> simp at h <;> omega
theorem lv_le_three (x : Rule) (n : Nat) (h : lv x = some n) : n ≤ 3 := by
  unfold lv lvl at h; split at h <;> simp at h <;> omega
theorem lv_le_one_of (x : Rule) (hx : x.kind ∉ (Kind.namespace :: bodyKinds)) (n : Nat)
    (h : lv x = some n) : n ≤ 1 := by
  unfold lv lvl at h
  split at h <;> simp_all [bodyKinds] <;> omega
theorem lv_le_two_of (x : Rule) (hx : x.kind ∉ bodyKinds) (n : Nat) (h : lv x = some n) : n ≤ 2 := by
  unfold lv lvl at h
  split at h <;> simp_all [bodyKinds] <;> omega
theorem lv_le_two_of' (x : Rule) (hx : x.kind ∉ [Kind.media, .page, .style, .fontface]) (n : Nat)
    (h : lv x = some n) : n ≤ 2 := by
  unfold lv lvl at h
  split at h <;> simp_all <;> omega
theorem lv_ge_two_of (x : Rule) (hx : x.kind ≠ .import) (n : Nat) (h : lv x = some n) : 2 ≤ n := by
  unfold lv lvl at h
  split at h <;> simp_all <;> omega
theorem lv_ge_three_of (x : Rule) (h1 : x.kind ≠ .import) (h2 : x.kind ≠ .namespace) (n : Nat)
    (h : lv x = some n) : 3 ≤ n := by
  unfold lv lvl at h
  split at h <;> simp_all <;> omega

theorem lvGe_one (l : Sheet) : lvGe 1 l := fun x _ n hn => lv_ge_one x n hn
theorem lvLe_three (l : Sheet) : lvLe 3 l := fun x _ n hn => lv_le_three x n hn
theorem lvLe_nil (m : Nat) : lvLe m [] := fun x hx => by cases hx
theorem lvGe_nil (m : Nat) : lvGe m [] := fun x hx => by cases hx

/-- `Valid` only looks at kinds -/
theorem valid_of_kinds {s s' : Sheet} (h : s'.map (·.kind) = s.map (·.kind)) (hv : Valid s) : Valid s' := by
  have hfm : ∀ (l : Sheet), l.filterMap lv = (l.map (·.kind)).filterMap lvl := by
    intro l; induction l with
    | nil => rfl
    | cons x xs ih => simp [List.filterMap_cons, lv, ih]
  refine ⟨?_, ?_⟩
  · intro r hr hk
    have h2 : s'.tail.map (·.kind) = s.tail.map (·.kind) := by
      rw [List.map_tail, List.map_tail, h]
    have : Kind.charset ∈ s.tail.map (·.kind) := by
      rw [← h2]; exact List.mem_map.mpr ⟨r, hr, hk⟩
    obtain ⟨y, hy, hyk⟩ := List.mem_map.mp this
    exact hv.1 y hy hyk
  · rw [hfm, h, ← hfm]; exact hv.2

/-! ### deleteRule / clean-up -/

theorem deleteRule_sublist (s : Sheet) (i : Int) : (deleteRule s i).1.Sublist s := by
  unfold deleteRule
  split
  · exact List.Sublist.refl _
  · split
    · exact List.Sublist.refl _
    · split
      · exact List.Sublist.refl _
      · exact List.eraseIdx_sublist _ _

theorem deleteRule_cases (s : Sheet) (i : Int) :
    (deleteRule s i).1 = s ∨ (deleteRule s i).2 = .none := by
  unfold deleteRule
  split
  · exact Or.inl rfl
  · split
    · exact Or.inl rfl
    · split
      · exact Or.inl rfl
      · exact Or.inr rfl

theorem deleteRule_reject (s : Sheet) (i : Int) (e : Err) (h : (deleteRule s i).2 = .raised e) :
    (deleteRule s i).1 = s := by
  rcases deleteRule_cases s i with h1 | h1
  · exact h1
  · rw [h1] at h; cases h

theorem cleanLoop_sublist (items : List (Nat × Nat)) :
    ∀ (n : Nat) (s : Sheet) (i : Nat), (cleanLoop items n s i).1.Sublist s := by
  intro n
  induction n with
  | zero => intro s i; exact List.Sublist.refl _
  | succ n ih =>
    intro s i
    simp only [cleanLoop]
    split
    · exact List.Sublist.refl _
    · split
      · have hsub := deleteRule_sublist s i
        generalize deleteRule s i = d at hsub ⊢
        obtain ⟨s', r'⟩ := d
        cases r' with
        | raised e => exact hsub
        | ok j => exact (ih s' i).trans hsub
        | none => exact (ih s' i).trans hsub
      · exact ih s (i + 1)

theorem cleanNamespaces_sublist (s : Sheet) : (cleanNamespaces s).1.Sublist s :=
  cleanLoop_sublist _ _ _ _


/-! ### in-order placement (repaired code) -/

theorem isKind_true {k : Kind} {x : Rule} (h : isKind k x = true) : x.kind = k := by
  simpa [isKind] using h
theorem isKind_false {k : Kind} {x : Rule} (h : isKind k x = false) : x.kind ≠ k := by
  simpa [isKind] using h
theorem kindIn_true {ks : List Kind} {x : Rule} (h : kindIn ks x = true) : x.kind ∈ ks := by
  simpa [kindIn] using h
theorem kindIn_false {ks : List Kind} {x : Rule} (h : kindIn ks x = false) : x.kind ∉ ks := by
  simpa [kindIn] using h

theorem insertAt_append (A B : Sheet) (r : Rule) : insertAt (A ++ B) A.length r = A ++ r :: B := by
  simp [insertAt]

/-- where `add()` puts a rule that has to follow the `before` kinds -/
theorem inOrderPlace_spec (s : Sheet) (own : Kind) (before cands : List Kind) :
    ∃ A B, A ++ B = s ∧ inOrderPlace true s own before cands s.length = A.length ∧
      ((∃ a x, A = a ++ [x] ∧ x.kind = own) ∨
       ((∀ y ∈ s, y.kind ≠ own) ∧
        ∃ pre2 a, A = pre2 ++ a ∧ (pre2 = [] ∨ ∃ a2 x, pre2 = a2 ++ [x] ∧ x.kind ∈ before) ∧
          (∀ y ∈ a, y.kind ∉ cands ∧ y.kind ∉ before) ∧ (∀ y ∈ B, y.kind ∉ before))) := by
  obtain ⟨h1a, h1b, h1c⟩ := splitLast_spec (isKind own) s
  unfold inOrderPlace
  rcases h1c with hnil | ⟨a, x, hpre, hx⟩
  · -- no rule of its own kind
    rw [hnil] at h1a
    simp only [List.nil_append] at h1a
    have hown : ∀ y ∈ s, y.kind ≠ own := by
      intro y hy; rw [← h1a] at hy; exact isKind_false (h1b y hy)
    simp only [hnil, List.isEmpty_nil, Bool.not_true, Bool.false_eq_true, if_false, if_true]
    obtain ⟨h2a, h2b, h2c⟩ := splitLast_spec (kindIn before) s
    obtain ⟨h3a, h3b, h3c⟩ := splitFirst_spec (kindIn cands) (splitLast (kindIn before) s).2
    have hpre2 : (splitLast (kindIn before) s).1 = [] ∨
        ∃ a2 x, (splitLast (kindIn before) s).1 = a2 ++ [x] ∧ x.kind ∈ before := by
      rcases h2c with h | ⟨a2, x, h, hx⟩
      · exact Or.inl h
      · exact Or.inr ⟨a2, x, h, kindIn_true hx⟩
    have ha : ∀ y ∈ (splitFirst (kindIn cands) (splitLast (kindIn before) s).2).1,
        y.kind ∉ cands ∧ y.kind ∉ before := by
      intro y hy
      refine ⟨kindIn_false (h3b y hy), ?_⟩
      have : y ∈ (splitLast (kindIn before) s).2 := by rw [← h3a]; exact List.mem_append_left _ hy
      exact kindIn_false (h2b y this)
    have hB : ∀ y ∈ (splitFirst (kindIn cands) (splitLast (kindIn before) s).2).2, y.kind ∉ before := by
      intro y hy
      have : y ∈ (splitLast (kindIn before) s).2 := by rw [← h3a]; exact List.mem_append_right _ hy
      exact kindIn_false (h2b y this)
    refine ⟨(splitLast (kindIn before) s).1 ++ (splitFirst (kindIn cands) (splitLast (kindIn before) s).2).1,
      (splitFirst (kindIn cands) (splitLast (kindIn before) s).2).2, ?_, ?_, Or.inr ⟨hown, _, _, rfl, hpre2, ha, hB⟩⟩
    · rw [List.append_assoc, h3a, h2a]
    · rcases h3c with hb | ⟨y, b, hb, _⟩
      · simp only [hb, List.isEmpty_nil, Bool.not_true, Bool.false_eq_true, if_false]
        have : s = (splitLast (kindIn before) s).1 ++ (splitFirst (kindIn cands) (splitLast (kindIn before) s).2).1 := by
          have := h3a
          rw [hb, List.append_nil] at this
          rw [this, h2a]
        exact congrArg List.length this
      · simp [hb]
  · refine ⟨(splitLast (isKind own) s).1, (splitLast (isKind own) s).2, h1a, ?_,
      Or.inl ⟨a, x, hpre, isKind_true hx⟩⟩
    simp [hpre]

theorem valid_cons_charset_tail {x : Rule} {a b : Sheet} (hv : Valid (a ++ x :: b)) (hx : x.kind = .charset) :
    a = [] := by
  cases a with
  | nil => rfl
  | cons y ys =>
    exfalso
    exact hv.1 x (by simp) hx

/-- `add()` of a non-charset rule whose level is `m` (or none), placed by `inOrderPlace` after the
`before` kinds: the result is valid provided the `before` kinds are exactly those that must precede
and the candidates include every kind that must follow -/
theorem valid_inOrder (s : Sheet) (hv : Valid s) (r : Rule) (own : Kind) (before cands : List Kind)
    (hr : r.kind = own) (hnc : own ≠ .charset)
    (hcb : Kind.charset ∈ before)
    (hblv : ∀ x : Rule, x.kind ∈ before → x.kind ≠ .charset → (lv x).isSome = true)
    (m : Option Nat) (hm : lv r = m)
    -- kinds in `before` have level ≤ the new rule's; kinds outside `before` have level ≥ it
    (hbefore : ∀ x : Rule, x.kind ∈ before → ∀ n k, lv x = some n → m = some k → n ≤ k)
    (hafter : ∀ x : Rule, x.kind ∉ before → ∀ n k, lv x = some n → m = some k → k ≤ n)
    (hcand : ∀ x : Rule, x.kind ∉ cands → ∀ n k, lv x = some n → m = some k → n ≤ k) :
    Valid (insertAt s (inOrderPlace true s own before cands s.length) r) := by
  obtain ⟨A, B, hAB, hidx, hcase⟩ := inOrderPlace_spec s own before cands
  rw [hidx, ← hAB, insertAt_append]
  have hv' : Valid (A ++ B) := by rw [hAB]; exact hv
  rcases hcase with ⟨a, x, hA, hx⟩ | ⟨hown, pre2, a, hA, hpre2, ha, hB⟩
  · -- directly after the last rule of the same kind
    subst hA
    apply valid_insert hv' (fun h => absurd (hr ▸ h) hnc) (fun _ h => by simp at h)
    intro k hk
    have hxk : lv x = some k := by
      have : lv x = lv r := by simp [lv, hx, hr]
      rw [this, hk]
    have hvv : Valid (a ++ x :: B) := by simpa using hv'
    have hp := pivot hvv hxk
    refine ⟨?_, hp.2⟩
    intro y hy n hn
    rcases List.mem_append.mp hy with h | h
    · exact hp.1 y h n hn
    · simp only [List.mem_singleton] at h; subst h; rw [hxk] at hn; cases hn; exact Nat.le_refl _
  · subst hA
    have hBnc : ∀ y ∈ B, y.kind ≠ .charset := fun y hy hk => hB y hy (hk ▸ hcb)
    apply valid_insert hv' (fun h => absurd (hr ▸ h) hnc)
    · intro _ hnil y hy
      have : y ∈ B := List.mem_of_mem_head? hy
      exact hBnc y this
    · intro k hk
      have hmk : m = some k := by rw [← hm, hk]
      refine ⟨?_, ?_⟩
      · intro y hy n hn
        rcases List.mem_append.mp hy with h | h
        · -- y in pre2
          rcases hpre2 with hnil | ⟨a2, x, hp2, hxb⟩
          · subst hnil; cases h
          · subst hp2
            rcases List.mem_append.mp h with h' | h'
            · -- before the last `before`-rule x: bounded by x's level, or x is the charset at index 0
              by_cases hxc : x.kind = .charset
              · have hvv : Valid (a2 ++ x :: (a ++ B)) := by simpa [List.append_assoc] using hv'
                have := valid_cons_charset_tail hvv hxc
                subst this; cases h'
              · cases hxl : lv x with
                | none =>
                  have := hblv x hxb hxc
                  rw [hxl] at this; cases this
                | some j =>
                  have hvv : Valid (a2 ++ x :: (a ++ B)) := by simpa [List.append_assoc] using hv'
                  have hp := pivot hvv hxl
                  have h1 := hp.1 y h' n hn
                  have h2 := hbefore x hxb j k hxl hmk
                  omega
            · simp only [List.mem_singleton] at h'; subst h'
              exact hbefore y hxb n k hn hmk
        · exact hcand y (ha y h).1 n k hn hmk
      · intro y hy n hn
        exact hafter y (hB y hy) n k hn hmk


/-! ### insertRule keeps the sheet valid -/

theorem noCharset_of_valid_head {s : Sheet} (hv : Valid s) (hh : headIs s .charset = false) : noCharset s := by
  intro x hx
  cases s with
  | nil => cases hx
  | cons h t =>
    rcases List.mem_cons.mp hx with rfl | hx'
    · exact headIs_false_iff.mp hh x (by simp)
    · exact hv.1 x (by simpa using hx')

theorem valid_cons_charset {s : Sheet} {r : Rule} (hv : Valid s) (hh : headIs s .charset = false)
    (hk : r.kind = .charset) : Valid (r :: s) := by
  have : r :: s = [] ++ r :: s := rfl
  rw [this]
  apply valid_insert (by simpa using hv) (fun _ => ⟨rfl, noCharset_of_valid_head hv hh⟩)
    (fun h => absurd hk h)
  intro m hm
  simp [lv, hk, lvl] at hm

theorem lvLe_of_forall {m : Nat} {l : Sheet} (h : ∀ x ∈ l, ∀ n, lv x = some n → n ≤ m) : lvLe m l := h
theorem lvGe_of_forall {m : Nat} {l : Sheet} (h : ∀ x ∈ l, ∀ n, lv x = some n → m ≤ n) : lvGe m l := h

theorem mem_kinds_ne {x : Rule} {ks : List Kind} (h : x.kind ∉ ks) (k : Kind) (hk : k ∈ ks) : x.kind ≠ k :=
  fun he => h (he ▸ hk)

/-- `add()` (in-order) takes no index.  The validity proof needed this hypothesis for the code before repair df1e9ff
(`insertRule(rule, index, inOrder=True)` used the given index when no later rule was found); it is no longer used -/
def OpWF : Op → Prop
  | .insert _ idx o => o = true → idx = none
  | _ => True

theorem insertRule_valid (s : Sheet) (hv : Valid s) (r : Rule) (index : Option Nat) (inOrder : Bool)
    (clean : Bool) :
    Valid (insertRule true s r index inOrder clean).1 := by
  unfold insertRule
  simp only
  split
  · exact hv
  · rename_i hle
    have hle' : index.getD s.length ≤ s.length := Nat.le_of_not_gt hle
    cases hk : r.kind with
    | charset =>
      simp only
      split
      · split
        · -- replace the encoding of the existing @charset
          cases s with
          | nil => exact hv
          | cons h t => exact valid_of_kinds (by simp) hv
        · rename_i hh
          exact valid_cons_charset hv (by simpa using hh) hk
      · split
        · exact hv
        · rename_i hcond
          simp only [Bool.or_eq_true, decide_eq_true_eq, not_or, Decidable.not_not, Bool.not_eq_true] at hcond
          rw [insertAt_eq, hcond.1]
          simpa using valid_cons_charset hv hcond.2 hk
    | «import» =>
      simp only
      have hnc : r.kind ≠ .charset := by rw [hk]; decide
      have hlv : lv r = some 1 := by simp [lv, hk, lvl]
      split
      · -- in order
        obtain ⟨h1a, h1b, h1c⟩ := splitLast_spec (isKind .import) s
        rcases h1c with hnil | ⟨a, x, hpre, hx⟩
        · simp only [hnil, List.isEmpty_nil, Bool.not_true, Bool.false_eq_true, if_false]
          split
          · rename_i hh
            -- after the leading @charset / comment
            cases s with
            | nil => simp [headIs] at hh
            | cons h t =>
              have hhk : h.kind = .charset ∨ h.kind = .comment := by
                simpa [headIs] using hh
              have : insertAt (h :: t) 1 r = [h] ++ r :: t := by simp [insertAt]
              rw [this]
              apply valid_insert (by simpa using hv) (fun h' => absurd h' hnc) (fun _ h' => by simp at h')
              intro m hm
              rw [hlv] at hm; cases hm
              refine ⟨?_, lvGe_one _⟩
              intro y hy n hn
              simp only [List.mem_singleton] at hy; subst hy
              rcases hhk with h' | h' <;> simp [lv, h', lvl] at hn
          · rename_i hh
            simp only [Bool.or_eq_true, not_or, Bool.not_eq_true] at hh
            have : insertAt s 0 r = [] ++ r :: s := by simp [insertAt]
            rw [this]
            apply valid_insert (by simpa using hv) (fun h' => absurd h' hnc)
              (fun _ _ => headIs_false_iff.mp hh.1)
            intro m hm
            rw [hlv] at hm; cases hm
            exact ⟨lvLe_nil _, lvGe_one _⟩
        · have hne : (!(splitLast (isKind .import) s).1.isEmpty) = true := by simp [hpre]
          simp only [hne, if_true]
          have hs : s = (splitLast (isKind .import) s).1 ++ (splitLast (isKind .import) s).2 := h1a.symm
          conv => arg 1; arg 1; rw [hs]
          rw [insertAt_append, hpre]
          have hv' : Valid (a ++ x :: (splitLast (isKind .import) s).2) := by
            have := hv; rw [hs, hpre] at this; simpa using this
          have hxl : lv x = some 1 := by simp [lv, isKind_true hx, lvl]
          have hp := pivot hv' hxl
          apply valid_insert (by simpa using hv') (fun h' => absurd h' hnc) (fun _ h' => by simp at h')
          intro m hm
          rw [hlv] at hm; cases hm
          refine ⟨?_, hp.2⟩
          intro y hy n hn
          rcases List.mem_append.mp hy with h | h
          · exact hp.1 y h n hn
          · simp only [List.mem_singleton] at h; subst h; rw [hxl] at hn; cases hn; exact Nat.le_refl _
      · split
        · exact hv
        · split
          · exact hv
          · rename_i h1 h2
            simp only [Bool.and_eq_true, decide_eq_true_eq] at h1
            have h2' : (s.take (index.getD s.length)).any (kindIn (Kind.namespace :: bodyKinds)) = false := by
              simpa using h2
            apply valid_insertAt hv hnc h1
            intro m hm
            rw [hlv] at hm; cases hm
            exact ⟨fun y hy n hn => lv_le_one_of y (any_kindIn_false h2' y hy) n hn, lvGe_one _⟩
    | «namespace» =>
      simp only [if_true]
      have hnc : r.kind ≠ .charset := by rw [hk]; decide
      have hlv : lv r = some 2 := by simp [lv, hk, lvl]
      -- first: wherever it is placed, the sheet with the rule inserted is valid
      have key : ∀ idx, (if inOrder = true then
            some (inOrderPlace true s .namespace [.charset, .import] (bodyKinds ++ [.unknown, .comment]) s.length)
          else if (s.drop (index.getD s.length)).any (kindIn [.charset, .import]) = true then none
          else if (s.take (index.getD s.length)).any (kindIn bodyKinds) = true then none
          else some (index.getD s.length)) = some idx → Valid (insertAt s idx r) := by
        intro idx hplace
        split at hplace
        · rename_i ho
          cases hplace
          apply valid_inOrder s hv r .namespace _ _ hk (by decide) (by simp)
            (by
              intro x hx hxc
              simp only [List.mem_cons, List.mem_singleton, List.not_mem_nil, or_false] at hx
              rcases hx with h | h
              · exact absurd h hxc
              · simp [lv, h, lvl])
            (some 2) hlv
          · intro x hx n k hn hmk
            cases hmk
            simp only [List.mem_cons, List.not_mem_nil, or_false] at hx
            rcases hx with h | h <;> simp [lv, h, lvl] at hn
            omega
          · intro x hx n k hn hmk
            cases hmk
            exact lv_ge_two_of x (mem_kinds_ne hx _ (by simp)) n hn
          · intro x hx n k hn hmk
            cases hmk
            exact lv_le_two_of x (fun h => hx (List.mem_append_left _ h)) n hn
        · split at hplace
          · cases hplace
          · split at hplace
            · cases hplace
            · rename_i _ h1 h2
              cases hplace
              have h1' : (s.drop (index.getD s.length)).any (kindIn [.charset, .import]) = false := by simpa using h1
              have h2' : (s.take (index.getD s.length)).any (kindIn bodyKinds) = false := by simpa using h2
              apply valid_insertAt hv hnc
              · rintro ⟨h0, hh⟩
                rw [h0] at h1'
                simp only [List.drop_zero] at h1'
                cases s with
                | nil => simp [headIs] at hh
                | cons h t =>
                  have := any_kindIn_false h1' h (by simp)
                  simp [headIs] at hh
                  exact this (by simp [hh])
              · intro m hm
                rw [hlv] at hm; cases hm
                refine ⟨fun y hy n hn => lv_le_two_of y (any_kindIn_false h2' y hy) n hn, ?_⟩
                intro y hy n hn
                exact lv_ge_two_of y (mem_kinds_ne (any_kindIn_false h1' y hy) _ (by simp)) n hn
      generalize hplace : (if inOrder = true then
            some (inOrderPlace true s .namespace [.charset, .import] (bodyKinds ++ [.unknown, .comment]) s.length)
          else if (s.drop (index.getD s.length)).any (kindIn [.charset, .import]) = true then none
          else if (s.take (index.getD s.length)).any (kindIn bodyKinds) = true then none
          else some (index.getD s.length)) = place at key
      cases place with
      | none => exact hv
      | some idx =>
        simp only
        split
        · exact hv
        · split
          · have hsub := cleanNamespaces_sublist (insertAt s idx r)
            generalize cleanNamespaces (insertAt s idx r) = c at hsub ⊢
            obtain ⟨s'', oe⟩ := c
            cases oe with
            | some e => exact hv
            | none => exact valid_of_sublist hsub (key idx rfl)
          · exact key idx rfl
    | variables =>
      simp only [if_true]
      have hnc : r.kind ≠ .charset := by rw [hk]; decide
      have hlv : lv r = none := by simp [lv, hk, lvl]
      generalize hplace : (if inOrder = true then
            some (inOrderPlace true s .variables [.charset, .import, .namespace]
              [.media, .page, .style, .fontface, .unknown, .comment] s.length)
          else if (s.drop (index.getD s.length)).any (kindIn [.charset, .import, .namespace]) = true then none
          else if (s.take (index.getD s.length)).any (kindIn [.media, .page, .style, .fontface]) = true then none
          else some (index.getD s.length)) = place
      cases place with
      | none => exact hv
      | some idx =>
        simp only
        split at hplace
        · rename_i ho
          cases hplace
          apply valid_inOrder s hv r .variables _ _ hk (by decide) (by simp)
            (by
              intro x hx hxc
              simp only [List.mem_cons, List.not_mem_nil, or_false] at hx
              rcases hx with h | h | h
              · exact absurd h hxc
              · simp [lv, h, lvl]
              · simp [lv, h, lvl])
            none hlv
          · intro x _ n k _ hmk; cases hmk
          · intro x _ n k _ hmk; cases hmk
          · intro x _ n k _ hmk; cases hmk
        · split at hplace
          · cases hplace
          · split at hplace
            · cases hplace
            · rename_i _ h1 _
              cases hplace
              have h1' : (s.drop (index.getD s.length)).any (kindIn [.charset, .import, .namespace]) = false := by
                simpa using h1
              apply valid_insertAt hv hnc
              · rintro ⟨h0, hh⟩
                rw [h0] at h1'
                simp only [List.drop_zero] at h1'
                cases s with
                | nil => simp [headIs] at hh
                | cons h t =>
                  have := any_kindIn_false h1' h (by simp)
                  simp [headIs] at hh
                  exact this (by simp [hh])
              · intro m hm; rw [hlv] at hm; cases hm
    | unknown | comment | margin | style | media | page | fontface =>
      simp only
      have hnc : r.kind ≠ .charset := by rw [hk]; decide
      split
      · split
        · exact hv
        · rename_i hc h0
          simp only [Bool.and_eq_true, decide_eq_true_eq] at h0
          apply valid_insertAt hv hnc h0
          intro m hm
          simp [lv, hk, lvl] at hm hc
      · split
        · -- appended
          have : s ++ [r] = s ++ r :: [] := rfl
          rw [this]
          apply valid_insert (by simpa using hv) (fun h' => absurd h' hnc) (fun _ _ => by simp)
          intro m hm
          have : m = 3 := by
            simp [lv, hk, lvl] at hm <;> first | exact hm.symm | cases hm
          subst this
          exact ⟨lvLe_three _, lvGe_nil _⟩
        · split
          · exact hv
          · rename_i _ _ h1
            have h1' : (s.drop (index.getD s.length)).any (kindIn [.charset, .import, .namespace]) = false := by
              simpa using h1
            apply valid_insertAt hv hnc
            · rintro ⟨h0, hh⟩
              rw [h0] at h1'
              simp only [List.drop_zero] at h1'
              cases s with
              | nil => simp [headIs] at hh
              | cons h t =>
                have := any_kindIn_false h1' h (by simp)
                simp [headIs] at hh
                exact this (by simp [hh])
            · intro m hm
              have hm3 : m = 3 := by
                simp [lv, hk, lvl] at hm <;> first | exact hm.symm | cases hm
              subst hm3
              refine ⟨lvLe_three _, ?_⟩
              intro y hy n hn
              have hny := any_kindIn_false h1' y hy
              exact lv_ge_three_of y (mem_kinds_ne hny _ (by simp)) (mem_kinds_ne hny _ (by simp)) n hn


/-! ### a refused insertRule leaves the sheet as it was -/

theorem insertRule_cases (fx : Bool) (s : Sheet) (r : Rule) (index : Option Nat) (inOrder clean : Bool) :
    (insertRule fx s r index inOrder clean).1 = s ∨ ∃ i, (insertRule fx s r index inOrder clean).2 = .ok i := by
  unfold insertRule
  simp only
  repeat' split
  all_goals first
    | exact Or.inl rfl
    | exact Or.inr ⟨_, rfl⟩

theorem insertRule_reject (fx : Bool) (s : Sheet) (r : Rule) (index : Option Nat) (inOrder clean : Bool)
    (e : Err) (h : (insertRule fx s r index inOrder clean).2 = .raised e) :
    (insertRule fx s r index inOrder clean).1 = s := by
  rcases insertRule_cases fx s r index inOrder clean with h1 | ⟨i, h1⟩
  · exact h1
  · rw [h1] at h; cases h


/-! ### the other operations -/

theorem setEncoding_valid (s : Sheet) (hv : Valid s) (e : Option Nat) : Valid (setEncoding true s e).1 := by
  unfold setEncoding
  split
  · split
    · exact valid_of_kinds (by simp) hv
    · exact valid_of_sublist (deleteRule_sublist _ _) hv
    · exact hv
  · split
    · rename_i enc
      have := insertRule_valid s hv { kind := .charset, p := enc } (some 0) false true
      generalize insertRule true s { kind := .charset, p := enc } (some 0) false = x at this ⊢
      obtain ⟨s', r'⟩ := x
      cases r' <;> exact this
    · exact hv

theorem setEncoding_cases (fx : Bool) (s : Sheet) (e : Option Nat) :
    (setEncoding fx s e).1 = s ∨ (setEncoding fx s e).2 = .none := by
  unfold setEncoding
  split
  · split
    · exact Or.inr rfl
    · exact deleteRule_cases s 0
    · exact Or.inl rfl
  · split
    · rename_i enc
      have := insertRule_cases fx s { kind := .charset, p := enc } (some 0) false true
      generalize insertRule fx s { kind := .charset, p := enc } (some 0) false = x at this ⊢
      obtain ⟨s', r'⟩ := x
      cases r' with
      | ok i => exact Or.inr rfl
      | none => exact Or.inr rfl
      | raised e =>
        rcases this with h | ⟨i, h⟩
        · exact Or.inl h
        · cases h
    · exact Or.inl rfl

theorem nsSet_valid (s : Sheet) (hv : Valid s) (p u : Nat) : Valid (nsSet true s p u).1 := by
  unfold nsSet
  split
  · have := insertRule_valid s hv { kind := .namespace, p := p, u := u } none true true
    generalize insertRule true s { kind := .namespace, p := p, u := u } none true = x at this ⊢
    obtain ⟨s', r'⟩ := x
    cases r' <;> exact this
  · split
    · exact hv
    · split <;> exact hv

theorem nsSet_cases (fx : Bool) (s : Sheet) (p u : Nat) :
    (nsSet fx s p u).1 = s ∨ (nsSet fx s p u).2 = .none := by
  unfold nsSet
  split
  · have := insertRule_cases fx s { kind := .namespace, p := p, u := u } none true true
    generalize insertRule fx s { kind := .namespace, p := p, u := u } none true = x at this ⊢
    obtain ⟨s', r'⟩ := x
    cases r' with
    | ok i => exact Or.inr rfl
    | none => exact Or.inr rfl
    | raised e =>
      rcases this with h | ⟨i, h⟩
      · exact Or.inl h
      · cases h
  · split
    · exact Or.inl rfl
    · split <;> exact Or.inl rfl

theorem nsDel_valid (s : Sheet) (hv : Valid s) (p : Nat) : Valid (nsDel s p).1 := by
  unfold nsDel
  split
  · exact hv
  · exact valid_of_sublist (deleteRule_sublist _ _) hv

theorem nsDel_cases (s : Sheet) (p : Nat) : (nsDel s p).1 = s ∨ (nsDel s p).2 = .none := by
  unfold nsDel
  split
  · exact Or.inl rfl
  · exact deleteRule_cases _ _

theorem parseInsert_valid (acc : Sheet) (hv : Valid acc) (r : Rule) : Valid (parseInsert true acc r).1 := by
  unfold parseInsert
  have := insertRule_valid acc hv r none false false
  generalize insertRule true acc r none false false = x at this ⊢
  obtain ⟨s', r'⟩ := x
  cases r' <;> exact this

theorem parseLoop_valid : ∀ (rs : List Rule) (expected : Nat) (acc : Sheet) (ok : Bool), Valid acc →
    Valid (parseLoop true rs expected acc ok).1 := by
  intro rs
  induction rs with
  | nil => intro _ acc _ hv; exact hv
  | cons r rs ih =>
    intro expected acc ok hv
    unfold parseLoop
    split
    · split
      · exact ih _ _ _ hv
      · exact ih _ _ _ (parseInsert_valid acc hv r)
    · split
      · exact ih _ _ _ hv
      · exact ih _ _ _ (parseInsert_valid acc hv r)
    · split
      · exact ih _ _ _ hv
      · split
        · exact ih _ _ _ (parseInsert_valid acc hv r)
        · apply ih
          apply valid_of_kinds _ hv
          rw [List.map_map]
          apply List.map_congr_left
          intro x _
          simp only [Function.comp]
          split <;> rfl
    · split
      · exact ih _ _ _ hv
      · exact ih _ _ _ (parseInsert_valid acc hv r)
    · exact ih _ _ _ (parseInsert_valid acc hv r)
    · exact ih _ _ _ (parseInsert_valid acc hv r)
    · exact ih _ _ _ (parseInsert_valid acc hv r)
    · exact ih _ _ _ (parseInsert_valid acc hv r)

theorem assign_valid (s : Sheet) (hv : Valid s) (rs : List Rule) : Valid (assignSheet true s rs).1 := by
  unfold assignSheet
  simp only
  split
  · exact valid_of_sublist (cleanNamespaces_sublist _) (parseLoop_valid rs 0 [] true valid_nil)
  · exact hv

/-- every reachable parse result is valid too -/
theorem parseSheet_valid (rs : List Rule) : Valid (parseSheet true rs) :=
  valid_of_sublist (cleanNamespaces_sublist _) (parseLoop_valid rs 0 [] true valid_nil)

/-! ### the two C07 theorems for one step, and for every history -/

theorem step_valid (s : Sheet) (hv : Valid s) (op : Op) : Valid (step true s op).1 := by
  cases op with
  | insert r i o => exact insertRule_valid s hv r i o true
  | delete i => exact valid_of_sublist (deleteRule_sublist _ _) hv
  | encoding e => exact setEncoding_valid s hv e
  | nsSet p u => exact nsSet_valid s hv p u
  | nsDel p => exact nsDel_valid s hv p
  | assign rs => exact assign_valid s hv rs

theorem step_reject (fx : Bool) (s : Sheet) (op : Op) (e : Err) (h : (step fx s op).2 = .raised e) :
    (step fx s op).1 = s := by
  cases op with
  | insert r i o => exact insertRule_reject fx s r i o true e h
  | delete i => exact deleteRule_reject s i e h
  | encoding en =>
    rcases setEncoding_cases fx s en with h1 | h1
    · exact h1
    · simp only [step] at h; rw [h1] at h; cases h
  | nsSet p u =>
    rcases nsSet_cases fx s p u with h1 | h1
    · exact h1
    · simp only [step] at h; rw [h1] at h; cases h
  | nsDel p =>
    rcases nsDel_cases s p with h1 | h1
    · exact h1
    · simp only [step] at h; rw [h1] at h; cases h
  | assign rs =>
    simp only [step, assignSheet] at h ⊢
    split
    · rename_i hok; simp [hok] at h
    · rfl

theorem reachable_valid (ops : List Op) :
    Valid (ops.foldl (fun s op => (step true s op).1) []) := by
  suffices h : ∀ (s : Sheet), Valid s → Valid (ops.foldl (fun s op => (step true s op).1) s) from h [] valid_nil
  induction ops with
  | nil => intro s hv; exact hv
  | cons op ops ih =>
    intro s hv
    simp only [List.foldl_cons]
    exact ih _ (step_valid s hv op)


/-! ### a valid rule list re-parses to itself (sheets without @namespace / @variables rules) -/

def plain (l : Sheet) : Prop := ∀ x ∈ l, x.kind ≠ .namespace ∧ x.kind ≠ .variables

theorem cleanLoop_plain (items : List (Nat × Nat)) :
    ∀ (n : Nat) (s : Sheet) (i : Nat), plain s → cleanLoop items n s i = (s, none) := by
  intro n
  induction n with
  | zero => intro s i _; rfl
  | succ n ih =>
    intro s i hp
    simp only [cleanLoop]
    split
    · rfl
    · rename_i r hr
      have hmem : r ∈ s := List.mem_of_getElem? hr
      have : (r.kind = Kind.namespace) = False := by simp [(hp r hmem).1]
      simp only [this, decide_false, Bool.false_and, Bool.false_eq_true, if_false]
      exact ih s (i + 1) hp

theorem insertAt_length (acc : Sheet) (r : Rule) : insertAt acc acc.length r = acc ++ [r] := by
  simp [insertAt]

theorem any_false_of_forall {l : Sheet} {ks : List Kind} (h : ∀ x ∈ l, x.kind ∉ ks) :
    l.any (kindIn ks) = false := by
  cases hb : l.any (kindIn ks) with
  | false => rfl
  | true =>
    obtain ⟨x, hx, hk⟩ := List.any_eq_true.mp hb
    exact absurd (kindIn_true hk) (h x hx)

/-- appending a statement in source order is always accepted when the result is valid -/
theorem parseInsert_append (acc : Sheet) (r : Rule) (hv : Valid (acc ++ [r])) (hp : plain (acc ++ [r])) :
    parseInsert true acc r = (acc ++ [r], true) := by
  have hr := hp r (by simp)
  have hacc : plain acc := fun x hx => hp x (List.mem_append_left _ hx)
  have hvv : Valid (acc ++ r :: []) := hv
  have key : insertRule true acc r none false false = (acc ++ [r], .ok acc.length) := by
    unfold insertRule
    simp only [Option.getD_none, Nat.lt_irrefl, if_false, gt_iff_lt, List.take_length, List.drop_length,
      List.any_nil, Bool.false_eq_true, insertAt_length]
    cases hk : r.kind with
    | charset =>
      have hnil := valid_cons_charset_tail hvv hk
      subst hnil
      simp [headIs, insertAt]
    | «import» =>
      have hl : lv r = some 1 := by simp [lv, hk, lvl]
      have hp1 := (pivot hvv hl).1
      have hany : acc.any (kindIn (Kind.namespace :: bodyKinds)) = false := by
        apply any_false_of_forall
        intro x hx hxk
        have h2 := hacc x hx
        simp only [bodyKinds, List.mem_cons, List.not_mem_nil, or_false] at hxk
        rcases hxk with h | h | h | h | h | h
        · exact h2.1 h
        · exact h2.2 h
        all_goals
          have := hp1 x hx 3 (by simp [lv, h, lvl])
          omega
      have hhead : ¬ (acc.length = 0 ∧ headIs acc .charset = true) := by
        rintro ⟨h0, hh⟩
        have : acc = [] := List.eq_nil_of_length_eq_zero h0
        subst this; simp [headIs] at hh
      simp only [hany, Bool.false_eq_true, if_false]
      by_cases h0 : acc.length = 0
      · have : acc = [] := List.eq_nil_of_length_eq_zero h0
        subst this; simp [headIs, insertAt]
      · simp [h0]
    | «namespace» => exact absurd hk hr.1
    | variables => exact absurd hk hr.2
    | unknown | comment =>
      by_cases h0 : acc.length = 0
      · have : acc = [] := List.eq_nil_of_length_eq_zero h0
        subst this; simp [headIs, insertAt]
      · simp [h0]
    | margin | style | media | page | fontface => simp
  simp [parseInsert, key]

/-- what the parser's `expected` level can be while reading a valid plain sheet -/
def ExpInv (expected : Nat) (acc : Sheet) : Prop :=
  (acc = [] → expected = 0) ∧ (expected ≤ 1 ∨ ∃ x ∈ acc, lv x = some 3)

theorem parseLoop_accepts : ∀ (rest acc : Sheet) (expected : Nat) (ok : Bool),
    Valid (acc ++ rest) → plain (acc ++ rest) → ExpInv expected acc →
    parseLoop true rest expected acc ok = (acc ++ rest, ok) := by
  intro rest
  induction rest with
  | nil => intro acc e ok _ _ _; simp [parseLoop]
  | cons r rest ih =>
    intro acc expected ok hv hp hinv
    have hv1 : Valid (acc ++ [r]) := by
      apply valid_of_sublist _ hv
      simpa using (List.Sublist.refl acc).append (List.Sublist.cons₂ r (List.nil_sublist rest))
    have hp1 : plain (acc ++ [r]) := by
      intro x hx
      apply hp x
      rcases List.mem_append.mp hx with h | h
      · exact List.mem_append_left _ h
      · simp only [List.mem_singleton] at h; subst h; simp
    have hins := parseInsert_append acc r hv1 hp1
    have hassoc : acc ++ r :: rest = (acc ++ [r]) ++ rest := by simp
    have hne : acc ++ [r] ≠ [] := by simp
    have hr := hp r (by simp)
    unfold parseLoop
    cases hk : r.kind with
    | charset =>
      have hnil := valid_cons_charset_tail hv hk
      have he0 := hinv.1 hnil
      simp only [he0, Nat.lt_irrefl, gt_iff_lt, if_false, hins, Bool.and_true]
      rw [hassoc]
      exact ih _ _ _ (hassoc ▸ hv) (hassoc ▸ hp) ⟨fun h => absurd h hne, Or.inl (Nat.le_refl _)⟩
    | «import» =>
      have hl : lv r = some 1 := by simp [lv, hk, lvl]
      have hp1' := (pivot hv hl).1
      have hexp : ¬ expected > 1 := by
        rcases hinv.2 with h | ⟨x, hx, hx3⟩
        · omega
        · have := hp1' x hx 3 hx3; omega
      simp only [hexp, if_false, hins, Bool.and_true]
      rw [hassoc]
      exact ih _ _ _ (hassoc ▸ hv) (hassoc ▸ hp) ⟨fun h => absurd h hne, Or.inl (Nat.le_refl _)⟩
    | «namespace» => exact absurd hk hr.1
    | variables => exact absurd hk hr.2
    | unknown | comment | margin =>
      simp only [hins, Bool.and_true]
      rw [hassoc]
      apply ih _ _ _ (hassoc ▸ hv) (hassoc ▸ hp)
      refine ⟨fun h => absurd h hne, ?_⟩
      rcases hinv.2 with h | ⟨x, hx, hx3⟩
      · left; omega
      · right; exact ⟨x, List.mem_append_left _ hx, hx3⟩
    | style | media | page | fontface =>
      simp only [hins, Bool.and_true]
      rw [hassoc]
      apply ih _ _ _ (hassoc ▸ hv) (hassoc ▸ hp)
      exact ⟨fun h => absurd h hne, Or.inr ⟨r, by simp, by simp [lv, hk, lvl]⟩⟩

/-- **re-parse**: a valid rule list (without @namespace / @variables) goes through the parse-time
ordering machine unchanged, nothing refused -/
theorem reparse_same_plain (s : Sheet) (hv : Valid s) (hp : plain s) :
    parseSheet true s = s ∧ (parseLoop true s 0 [] true).2 = true := by
  have h := parseLoop_accepts s [] 0 true (by simpa using hv) (by simpa using hp) ⟨fun _ => rfl, Or.inl (by omega)⟩
  simp only [List.nil_append] at h
  refine ⟨?_, by rw [h]⟩
  simp only [parseSheet, h, cleanNamespaces]
  rw [cleanLoop_plain _ _ _ _ hp]

end CssVerif.Sheet
