/-
Re-parse of sheets that hold @namespace (and @variables) rules: the invariant `NsDistinct` (no two
@namespace rules share a prefix or a URI) holds in every reachable state, makes `_cleanNamespaces`
the identity and lets the parse-time ordering machine accept the rule list unchanged.
-/
import CssVerif.Proofs.Sheet
namespace CssVerif.Sheet

/-! ### the `namespaces` view

(the same facts as in `Proofs/Namespaces.lean`, repeated here in the namespace `RV` so that the C07 files do
not depend on the tokenizer and selector models that file imports) -/

namespace RV

def viewStep_rp (d : List (Nat × Nat)) (r : Rule) : List (Nat × Nat) :=
  if dictHasVal d r.u || dictHasKey d r.p then d else d ++ [(r.p, r.u)]

theorem view_eq_rp (s : Sheet) : view s = (s.filter (isKind .namespace)).reverse.foldl viewStep_rp [] := rfl

/-- prefixes pairwise distinct and URIs pairwise distinct: a bijection prefix ↔ URI -/
def DictOK_rp (d : List (Nat × Nat)) : Prop := (d.map (·.1)).Nodup ∧ (d.map (·.2)).Nodup

theorem hasKey_iff_rp (d : List (Nat × Nat)) (k : Nat) : dictHasKey d k = true ↔ k ∈ d.map (·.1) := by
  simp [dictHasKey]

theorem hasVal_iff_rp (d : List (Nat × Nat)) (v : Nat) : dictHasVal d v = true ↔ v ∈ d.map (·.2) := by
  simp [dictHasVal]

theorem viewStep_ok_rp (d : List (Nat × Nat)) (r : Rule) (h : DictOK_rp d) : DictOK_rp (viewStep_rp d r) := by
  unfold viewStep_rp
  split
  · exact h
  · rename_i hc
    simp only [Bool.or_eq_true, not_or] at hc
    have hk : r.p ∉ d.map (·.1) := fun hh => hc.2 ((hasKey_iff_rp d r.p).2 hh)
    have hv : r.u ∉ d.map (·.2) := fun hh => hc.1 ((hasVal_iff_rp d r.u).2 hh)
    constructor
    · rw [List.map_append, List.nodup_append]
      exact ⟨h.1, by simp, by intro a ha b hb; simp at hb; subst hb; intro hab; exact hk (hab ▸ ha)⟩
    · rw [List.map_append, List.nodup_append]
      exact ⟨h.2, by simp, by intro a ha b hb; simp at hb; subst hb; intro hab; exact hv (hab ▸ ha)⟩

theorem foldl_ok_rp (l : List Rule) (d : List (Nat × Nat)) (h : DictOK_rp d) : DictOK_rp (l.foldl viewStep_rp d) := by
  induction l generalizing d with
  | nil => exact h
  | cons r l ih => exact ih _ (viewStep_ok_rp d r h)

/-- `sheet.namespaces` never binds a prefix twice and never gives one URI two prefixes -/
theorem view_ok_rp (s : Sheet) : DictOK_rp (view s) := foldl_ok_rp _ _ ⟨List.nodup_nil, List.nodup_nil⟩

theorem viewStep_mono_rp (d : List (Nat × Nat)) (r : Rule) (x : Nat × Nat) (h : x ∈ d) : x ∈ viewStep_rp d r := by
  unfold viewStep_rp; split
  · exact h
  · exact List.mem_append_left _ h

theorem foldl_mono_rp (l : List Rule) (d : List (Nat × Nat)) (x : Nat × Nat) (h : x ∈ d) : x ∈ l.foldl viewStep_rp d := by
  induction l generalizing d with
  | nil => exact h
  | cons r l ih => exact ih _ (viewStep_mono_rp d r x h)

theorem foldl_sound_rp (l : List Rule) (d : List (Nat × Nat)) (x : Nat × Nat) (h : x ∈ l.foldl viewStep_rp d) :
    x ∈ d ∨ ∃ r ∈ l, (r.p, r.u) = x := by
  induction l generalizing d with
  | nil => exact Or.inl h
  | cons r l ih =>
    rcases ih _ h with h1 | ⟨r', hr', he⟩
    · unfold viewStep_rp at h1
      split at h1
      · exact Or.inl h1
      · rcases List.mem_append.1 h1 with h2 | h2
        · exact Or.inl h2
        · simp at h2; exact Or.inr ⟨r, List.mem_cons_self .., h2.symm⟩
    · exact Or.inr ⟨r', List.mem_cons_of_mem _ hr', he⟩

/-- every entry of the mapping is the (prefix, URI) of some @namespace rule of the sheet -/
theorem view_sound_rp (s : Sheet) (p u : Nat) (h : (p, u) ∈ view s) :
    ∃ r ∈ s, r.kind = .namespace ∧ r.p = p ∧ r.u = u := by
  rcases foldl_sound_rp _ _ _ h with h | ⟨r, hr, he⟩
  · cases h
  · simp only [List.mem_reverse, List.mem_filter, isKind, decide_eq_true_eq] at hr
    cases he
    exact ⟨r, hr.1, hr.2, rfl, rfl⟩

theorem foldl_covers_rp (l : List Rule) (d : List (Nat × Nat)) (r : Rule) (hr : r ∈ l) :
    dictHasKey (l.foldl viewStep_rp d) r.p = true ∨ dictHasVal (l.foldl viewStep_rp d) r.u = true := by
  induction l generalizing d with
  | nil => cases hr
  | cons x l ih =>
    rcases List.mem_cons.1 hr with rfl | h
    · -- after this step the prefix is bound or the URI is a value, and that is monotone
      have hstep : dictHasKey (viewStep_rp d r) r.p = true ∨ dictHasVal (viewStep_rp d r) r.u = true := by
        unfold viewStep_rp
        split
        · rename_i hc
          simp only [Bool.or_eq_true] at hc
          exact hc.symm
        · left
          rw [hasKey_iff_rp]; simp
      rcases hstep with h1 | h1
      · left
        rw [hasKey_iff_rp] at h1 ⊢
        obtain ⟨x, hx, hxe⟩ := List.mem_map.1 h1
        exact List.mem_map.2 ⟨x, foldl_mono_rp l _ x hx, hxe⟩
      · right
        rw [hasVal_iff_rp] at h1 ⊢
        obtain ⟨x, hx, hxe⟩ := List.mem_map.1 h1
        exact List.mem_map.2 ⟨x, foldl_mono_rp l _ x hx, hxe⟩
    · exact ih _ h

/-- every @namespace rule is accounted for: its prefix is bound, or its URI has a prefix -/
theorem view_covers_rp (s : Sheet) (r : Rule) (hr : r ∈ s) (hk : r.kind = .namespace) :
    dictHasKey (view s) r.p = true ∨ dictHasVal (view s) r.u = true :=
  foldl_covers_rp _ _ r (by simp [List.mem_filter, isKind, hr, hk])

theorem dictGet_of_mem_rp (d : List (Nat × Nat)) (p u : Nat) (hk : (d.map (·.1)).Nodup) (h : (p, u) ∈ d) :
    dictGet d p = some u := by
  induction d with
  | nil => cases h
  | cons x d ih =>
    simp only [List.map_cons, List.nodup_cons] at hk
    unfold dictGet
    rw [List.find?_cons]
    rcases List.mem_cons.1 h with rfl | h'
    · simp
    · have hne : x.1 ≠ p := by
        intro he
        exact hk.1 (List.mem_map.2 ⟨(p, u), h', he.symm⟩)
      simp only [hne, decide_false]
      exact ih hk.2 h'

end RV
open RV

/-! ### the invariants -/

/-- two @namespace rules differ in their prefix and in their URI -/
def nsR (a b : Rule) : Prop := a.p ≠ b.p ∧ a.u ≠ b.u
/-- … differ in prefix or URI -/
def pairR (a b : Rule) : Prop := ¬ (a.p = b.p ∧ a.u = b.u)
/-- … differ in their prefix -/
def pfxR (a b : Rule) : Prop := a.p ≠ b.p

instance (a b : Rule) : Decidable (nsR a b) := by unfold nsR; infer_instance

def nsRules (s : Sheet) : Sheet := s.filter (isKind .namespace)

/-- no two @namespace rules of the sheet have the same prefix, no two have the same URI:
every rule is effective, `_cleanNamespaces` has nothing to do -/
def NsDistinct (s : Sheet) : Prop := (nsRules s).Pairwise nsR
def PairOK (s : Sheet) : Prop := (nsRules s).Pairwise pairR
def PfxOK (s : Sheet) : Prop := (nsRules s).Pairwise pfxR

instance (s : Sheet) : Decidable (NsDistinct s) := by unfold NsDistinct; infer_instance

/-- where an @variables rule may stand for the parser to take it: no @media/@page/style/@font-face
rule in front of it, no @import/@namespace behind it -/
def varR (a b : Rule) : Prop :=
  (a.kind = .variables → b.kind ≠ .import ∧ b.kind ≠ .namespace) ∧
  (b.kind = .variables → a.kind ∉ [Kind.media, .page, .style, .fontface])

instance (a b : Rule) : Decidable (varR a b) := by unfold varR; infer_instance

def VarOrd (s : Sheet) : Prop := s.Pairwise varR
instance (s : Sheet) : Decidable (VarOrd s) := by unfold VarOrd; infer_instance

def noVariables (s : Sheet) : Prop := ∀ x ∈ s, x.kind ≠ .variables
instance (s : Sheet) : Decidable (noVariables s) := by unfold noVariables; infer_instance

theorem varOrd_of_noVariables {s : Sheet} (h : noVariables s) : VarOrd s := by
  unfold VarOrd
  rw [List.pairwise_iff_forall_sublist]
  intro a b hab
  have ha : a ∈ s := hab.subset (by simp)
  have hb : b ∈ s := hab.subset (by simp)
  exact ⟨fun hk => absurd hk (h a ha), fun hk => absurd hk (h b hb)⟩

/-! ### pairwise helpers -/

theorem pw_cases {R : Rule → Rule → Prop} (hs : ∀ a b, R a b → R b a) {l : Sheet} (h : l.Pairwise R)
    {x y : Rule} (hx : x ∈ l) (hy : y ∈ l) : x = y ∨ R x y := by
  induction l with
  | nil => cases hx
  | cons z l ih =>
    rw [List.pairwise_cons] at h
    rcases List.mem_cons.mp hx with rfl | hx' <;> rcases List.mem_cons.mp hy with rfl | hy'
    · exact Or.inl rfl
    · exact Or.inr (h.1 y hy')
    · exact Or.inr (hs _ _ (h.1 x hx'))
    · exact ih h.2 hx' hy'

theorem nsR_symm (a b : Rule) (h : nsR a b) : nsR b a := ⟨fun e => h.1 e.symm, fun e => h.2 e.symm⟩
theorem pfxR_symm (a b : Rule) (h : pfxR a b) : pfxR b a := fun e => h e.symm

theorem mem_nsRules {s : Sheet} {r : Rule} : r ∈ nsRules s ↔ r ∈ s ∧ r.kind = .namespace := by
  simp [nsRules, List.mem_filter, isKind]

theorem nsRules_sublist {s s' : Sheet} (h : s'.Sublist s) : (nsRules s').Sublist (nsRules s) :=
  List.Sublist.filter _ h

theorem nsdistinct_sublist {s s' : Sheet} (h : s'.Sublist s) (hc : NsDistinct s) : NsDistinct s' :=
  List.Pairwise.sublist (nsRules_sublist h) hc
theorem pairok_sublist {s s' : Sheet} (h : s'.Sublist s) (hc : PairOK s) : PairOK s' :=
  List.Pairwise.sublist (nsRules_sublist h) hc
theorem pfxok_sublist {s s' : Sheet} (h : s'.Sublist s) (hc : PfxOK s) : PfxOK s' :=
  List.Pairwise.sublist (nsRules_sublist h) hc

theorem nsdistinct_nil : NsDistinct [] := List.Pairwise.nil
theorem pfxok_nil : PfxOK [] := List.Pairwise.nil

theorem pairok_of_nsdistinct {s : Sheet} (h : NsDistinct s) : PairOK s :=
  List.Pairwise.imp (fun hab he => hab.1 he.1) h
theorem pairok_of_pfxok {s : Sheet} (h : PfxOK s) : PairOK s :=
  List.Pairwise.imp (fun hab he => hab he.1) h
theorem pfxok_of_nsdistinct {s : Sheet} (h : NsDistinct s) : PfxOK s :=
  List.Pairwise.imp (fun hab => hab.1) h

/-! ### the mapping of a clean sheet holds every rule -/

theorem nodup_map_inj_rp {α β} [DecidableEq β] (f : α → β) {l : List α} (h : (l.map f).Nodup) {x y : α}
    (hx : x ∈ l) (hy : y ∈ l) (he : f x = f y) : x = y := by
  induction l with
  | nil => cases hx
  | cons z l ih =>
    simp only [List.map_cons, List.nodup_cons] at h
    rcases List.mem_cons.mp hx with rfl | hx' <;> rcases List.mem_cons.mp hy with rfl | hy'
    · rfl
    · exact absurd (List.mem_map.mpr ⟨y, hy', he.symm⟩) h.1
    · exact absurd (List.mem_map.mpr ⟨x, hx', he⟩) h.1
    · exact ih h.2 hx' hy'

theorem dict_key_inj {d : List (Nat × Nat)} (h : DictOK_rp d) {p u u' : Nat} (h1 : (p, u) ∈ d) (h2 : (p, u') ∈ d) :
    u = u' := by
  have := nodup_map_inj_rp (·.1) h.1 h1 h2 rfl
  cases this; rfl

theorem dict_val_inj {d : List (Nat × Nat)} (h : DictOK_rp d) {p p' u : Nat} (h1 : (p, u) ∈ d) (h2 : (p', u) ∈ d) :
    p = p' := by
  have := nodup_map_inj_rp (·.2) h.2 h1 h2 rfl
  cases this; rfl

/-- in a clean sheet every @namespace rule is effective -/
theorem nsdistinct_effective {s : Sheet} (hc : NsDistinct s) {r : Rule} (hr : r ∈ s) (hk : r.kind = .namespace) :
    (r.p, r.u) ∈ view s := by
  have hrn : r ∈ nsRules s := mem_nsRules.mpr ⟨hr, hk⟩
  rcases view_covers_rp s r hr hk with h | h
  · rw [hasKey_iff_rp] at h
    obtain ⟨⟨p, u⟩, hx, hxe⟩ := List.mem_map.mp h
    simp only at hxe; subst hxe
    obtain ⟨r', hr', hk', hp', hu'⟩ := view_sound_rp s _ _ hx
    rcases pw_cases nsR_symm hc (mem_nsRules.mpr ⟨hr', hk'⟩) hrn with he | hne
    · subst he; rw [hu']; exact hx
    · exact absurd hp' hne.1
  · rw [hasVal_iff_rp] at h
    obtain ⟨⟨p, u⟩, hx, hxe⟩ := List.mem_map.mp h
    simp only at hxe; subst hxe
    obtain ⟨r', hr', hk', hp', hu'⟩ := view_sound_rp s _ _ hx
    rcases pw_cases nsR_symm hc (mem_nsRules.mpr ⟨hr', hk'⟩) hrn with he | hne
    · subst he; rw [hp']; exact hx
    · exact absurd hu' hne.2

/-! ### `_cleanNamespaces` unfolded -/

theorem pyIndex_nat {n i : Nat} (h : i < n) : pyIndex n (i : Int) = some i := by
  simp [pyIndex, h]

/-- the protection test of `deleteRule` -/
def protectedNs (s : Sheet) (r : Rule) : Bool :=
  r.kind = .namespace && (usedURIs s).contains r.u &&
    ((s.filter (isKind .namespace)).map (·.u)).count r.u = 1

theorem deleteRule_nat_rp (s : Sheet) (i : Nat) (r : Rule) (hi : s[i]? = some r) :
    deleteRule s (i : Int) =
      if protectedNs s r then (s, .raised .noModification) else (s.eraseIdx i, .none) := by
  have hlt : i < s.length := by
    rcases Nat.lt_or_ge i s.length with h | h
    · exact h
    · rw [List.getElem?_eq_none h] at hi; cases hi
  simp only [deleteRule, pyIndex_nat hlt, hi, protectedNs]
  rfl

theorem cleanLoop_succ (items : List (Nat × Nat)) (fuel : Nat) (s : Sheet) (i : Nat) :
    cleanLoop items (fuel + 1) s i =
      match s[i]? with
      | none => (s, none)
      | some r =>
        if r.kind = .namespace && !(items.contains (r.p, r.u)) then
          (if protectedNs s r then (s, some .noModification) else cleanLoop items fuel (s.eraseIdx i) i)
        else cleanLoop items fuel s (i + 1) := by
  simp only [cleanLoop]
  cases hi : s[i]? with
  | none => rfl
  | some r =>
    simp only [deleteRule_nat_rp s i r hi]
    cases protectedNs s r <;> simp

/-- nothing to do when every @namespace rule is in the item list -/
theorem cleanLoop_fix (items : List (Nat × Nat)) :
    ∀ (n : Nat) (s : Sheet) (i : Nat), (∀ r ∈ s, r.kind = .namespace → (r.p, r.u) ∈ items) →
      cleanLoop items n s i = (s, none) := by
  intro n
  induction n with
  | zero => intro s i _; rfl
  | succ n ih =>
    intro s i hp
    rw [cleanLoop_succ]
    cases hi : s[i]? with
    | none => rfl
    | some r =>
      have hmem : r ∈ s := List.mem_of_getElem? hi
      have : (r.kind = .namespace && !(items.contains (r.p, r.u))) = false := by
        by_cases hk : r.kind = .namespace
        · simp [hk, hp r hmem hk]
        · simp [hk]
      simp only [this, Bool.false_eq_true, if_false]
      exact ih s (i + 1) hp

/-- `_cleanNamespaces` leaves a clean sheet as it is -/
theorem cleanNamespaces_fix {s : Sheet} (hc : NsDistinct s) : cleanNamespaces s = (s, none) :=
  cleanLoop_fix _ _ _ _ (fun _ hr hk => nsdistinct_effective hc hr hk)


/-! ### the parser accepts a valid, clean, variables-ordered list as it stands -/

theorem nsRules_append (a b : Sheet) : nsRules (a ++ b) = nsRules a ++ nsRules b := by
  simp [nsRules]

theorem nsRules_cons_ns {r : Rule} (hk : r.kind = .namespace) (b : Sheet) : nsRules (r :: b) = r :: nsRules b := by
  simp [nsRules, isKind, hk]

theorem nsRules_cons_other {r : Rule} (hk : r.kind ≠ .namespace) (b : Sheet) : nsRules (r :: b) = nsRules b := by
  simp [nsRules, isKind, hk]

/-- the rules in front of an @namespace rule of a clean list have other prefixes and URIs -/
theorem nsdistinct_before {R : Rule → Rule → Prop} {acc rest : Sheet} {r : Rule}
    (hc : (nsRules (acc ++ r :: rest)).Pairwise R)
    (hk : r.kind = .namespace) : ∀ x ∈ acc, x.kind = .namespace → R x r := by
  intro x hx hxk
  rw [nsRules_append, nsRules_cons_ns hk, List.pairwise_append] at hc
  exact hc.2.2 x (mem_nsRules.mpr ⟨hx, hxk⟩) r (by simp)

theorem dictGet_mem {d : List (Nat × Nat)} {k v : Nat} (h : dictGet d k = some v) : (k, v) ∈ d := by
  unfold dictGet at h
  cases hf : d.find? (·.1 = k) with
  | none => rw [hf] at h; cases h
  | some x =>
    rw [hf] at h
    simp only [Option.map_some, Option.some.injEq] at h
    have h1 := List.find?_some hf
    have h2 := List.mem_of_find?_eq_some hf
    simp only [decide_eq_true_eq] at h1
    obtain ⟨a, b⟩ := x
    simp only at h h1
    subst h; subst h1
    exact h2

theorem lv3_kinds {x : Rule} (h : x.kind ∈ [Kind.media, .page, .style, .fontface]) : lv x = some 3 := by
  simp only [List.mem_cons, List.not_mem_nil, or_false] at h
  rcases h with h | h | h | h <;> simp [lv, h, lvl]

theorem kinds_of_lv3 {x : Rule} (h : lv x = some 3) : x.kind ∈ [Kind.media, .page, .style, .fontface] := by
  unfold lv lvl at h
  split at h <;> simp_all

theorem varOrd_before {acc rest : Sheet} {r : Rule} (ho : VarOrd (acc ++ r :: rest)) :
    ∀ x ∈ acc, varR x r := by
  intro x hx
  unfold VarOrd at ho
  rw [List.pairwise_append] at ho
  exact ho.2.2 x hx r (by simp)

/-- appending a statement in source order is accepted -/
theorem parseInsert_append_ns (acc : Sheet) (r : Rule) (hv : Valid (acc ++ [r])) (hc : NsDistinct (acc ++ [r]))
    (ho : VarOrd (acc ++ [r])) : parseInsert true acc r = (acc ++ [r], true) := by
  have hvv : Valid (acc ++ r :: []) := hv
  have hvar : ∀ x ∈ acc, varR x r := varOrd_before (rest := []) ho
  have key : insertRule true acc r none false false = (acc ++ [r], .ok acc.length) := by
    unfold insertRule
    simp only [Option.getD_none, Nat.lt_irrefl, if_false, gt_iff_lt, List.take_length, List.drop_length,
      List.any_nil, Bool.false_eq_true, insertAt_length]
    cases hk : r.kind with
    | charset =>
      have hnil := valid_cons_charset_tail hvv hk
      subst hnil
      simp [headIs]
    | «import» =>
      have hl : lv r = some 1 := by simp [lv, hk, lvl]
      have hp1 := (pivot hvv hl).1
      have hany : acc.any (kindIn (Kind.namespace :: bodyKinds)) = false := by
        apply any_false_of_forall
        intro x hx hxk
        simp only [bodyKinds, List.mem_cons, List.not_mem_nil, or_false] at hxk
        rcases hxk with h | h | h | h | h | h
        · have := hp1 x hx 2 (by simp [lv, h, lvl]); omega
        · exact ((hvar x hx).1 h).1 hk
        all_goals
          have := hp1 x hx 3 (by simp [lv, h, lvl])
          omega
      simp only [hany, Bool.false_eq_true, if_false]
      by_cases h0 : acc.length = 0
      · have : acc = [] := List.eq_nil_of_length_eq_zero h0
        subst this; simp [headIs]
      · simp [h0]
    | «namespace» =>
      have hl : lv r = some 2 := by simp [lv, hk, lvl]
      have hp1 := (pivot hvv hl).1
      have hany : acc.any (kindIn bodyKinds) = false := by
        apply any_false_of_forall
        intro x hx hxk
        simp only [bodyKinds, List.mem_cons, List.not_mem_nil, or_false] at hxk
        rcases hxk with h | h | h | h | h
        · exact ((hvar x hx).1 h).2 hk
        all_goals
          have := hp1 x hx 3 (by simp [lv, h, lvl])
          omega
      have hget : ¬ dictGet (view acc) r.p = some r.u := by
        intro hg
        obtain ⟨r', hr', hk', hp', _⟩ := view_sound_rp acc _ _ (dictGet_mem hg)
        exact (nsdistinct_before (rest := []) hc hk r' hr' hk').1 hp'
      simp [hany, hget, insertAt_length]
    | variables =>
      have hany : acc.any (kindIn [Kind.media, .page, .style, .fontface]) = false := by
        apply any_false_of_forall
        intro x hx hxk
        exact (hvar x hx).2 hk hxk
      simp [hany, insertAt_length]
    | unknown | comment =>
      by_cases h0 : acc.length = 0
      · have : acc = [] := List.eq_nil_of_length_eq_zero h0
        subst this; simp [headIs]
      · simp [h0]
    | margin | style | media | page | fontface => simp
  simp [parseInsert, key]

/-- what the parser's `expected` level can be while reading such a sheet -/
def ExpInv2 (expected : Nat) (acc : Sheet) : Prop :=
  (acc = [] → expected = 0) ∧
  (expected ≤ 1 ∨ (expected = 2 ∧ ∃ x ∈ acc, x.kind = .namespace ∨ x.kind = .variables) ∨
    ∃ x ∈ acc, lv x = some 3)

theorem parseLoop_accepts_ns : ∀ (rest acc : Sheet) (expected : Nat) (ok : Bool),
    Valid (acc ++ rest) → NsDistinct (acc ++ rest) → VarOrd (acc ++ rest) → ExpInv2 expected acc →
    parseLoop true rest expected acc ok = (acc ++ rest, ok) := by
  intro rest
  induction rest with
  | nil => intro acc e ok _ _ _ _; simp [parseLoop]
  | cons r rest ih =>
    intro acc expected ok hv hc ho hinv
    have hsub : (acc ++ [r]).Sublist (acc ++ r :: rest) := by
      exact (List.Sublist.refl acc).append (List.Sublist.cons_cons r (List.nil_sublist rest))
    have hv1 : Valid (acc ++ [r]) := valid_of_sublist hsub hv
    have hc1 : NsDistinct (acc ++ [r]) := nsdistinct_sublist hsub hc
    have ho1 : VarOrd (acc ++ [r]) := List.Pairwise.sublist hsub ho
    have hins := parseInsert_append_ns acc r hv1 hc1 ho1
    have hassoc : acc ++ r :: rest = (acc ++ [r]) ++ rest := by simp
    have hne : acc ++ [r] ≠ [] := by simp
    have hvar : ∀ x ∈ acc, varR x r := varOrd_before ho
    have hnext : ∀ e', ExpInv2 e' (acc ++ [r]) → parseLoop true rest e' (acc ++ [r]) ok = (acc ++ r :: rest, ok) := by
      intro e' he'
      rw [hassoc]
      exact ih _ _ _ (hassoc ▸ hv) (hassoc ▸ hc) (hassoc ▸ ho) he'
    unfold parseLoop
    cases hk : r.kind with
    | charset =>
      have hnil := valid_cons_charset_tail hv hk
      have he0 := hinv.1 hnil
      simp only [he0, Nat.lt_irrefl, gt_iff_lt, if_false, hins, Bool.and_true]
      exact hnext _ ⟨fun h => absurd h hne, Or.inl (Nat.le_refl _)⟩
    | «import» =>
      have hl : lv r = some 1 := by simp [lv, hk, lvl]
      have hp1' := (pivot hv hl).1
      have hexp : ¬ expected > 1 := by
        rcases hinv.2 with h | ⟨_, x, hx, hxk⟩ | ⟨x, hx, hx3⟩
        · omega
        · rcases hxk with h | h
          · have := hp1' x hx 2 (by simp [lv, h, lvl]); omega
          · exact absurd hk ((hvar x hx).1 h).1
        · have := hp1' x hx 3 hx3; omega
      simp only [hexp, if_false, hins, Bool.and_true]
      exact hnext _ ⟨fun h => absurd h hne, Or.inl (Nat.le_refl _)⟩
    | «namespace» =>
      have hl : lv r = some 2 := by simp [lv, hk, lvl]
      have hp1' := (pivot hv hl).1
      have hexp : ¬ expected > 2 := by
        rcases hinv.2 with h | ⟨h, _⟩ | ⟨x, hx, hx3⟩
        · omega
        · omega
        · have := hp1' x hx 3 hx3; omega
      have hpfx : acc.any (fun x => x.kind = .namespace && x.p = r.p) = false := by
        cases hb : acc.any (fun x => x.kind = .namespace && x.p = r.p) with
        | false => rfl
        | true =>
          obtain ⟨x, hx, hxe⟩ := List.any_eq_true.mp hb
          simp only [Bool.and_eq_true, decide_eq_true_eq] at hxe
          exact absurd hxe.2 (nsdistinct_before hc hk x hx hxe.1).1
      simp only [hexp, if_false, hpfx, Bool.not_false, if_true, hins, Bool.and_true]
      exact hnext _ ⟨fun h => absurd h hne, Or.inr (Or.inl ⟨rfl, r, by simp, Or.inl hk⟩)⟩
    | variables =>
      have hexp : ¬ expected > 2 := by
        rcases hinv.2 with h | ⟨h, _⟩ | ⟨x, hx, hx3⟩
        · omega
        · omega
        · exact absurd (kinds_of_lv3 hx3) ((hvar x hx).2 hk)
      simp only [hexp, if_false, hins, Bool.and_true]
      exact hnext _ ⟨fun h => absurd h hne, Or.inr (Or.inl ⟨rfl, r, by simp, Or.inr hk⟩)⟩
    | unknown | comment | margin =>
      simp only [hins, Bool.and_true]
      apply hnext
      refine ⟨fun h => absurd h hne, ?_⟩
      rcases hinv.2 with h | ⟨h, x, hx, hxk⟩ | ⟨x, hx, hx3⟩
      · left; omega
      · right; left; exact ⟨by omega, x, List.mem_append_left _ hx, hxk⟩
      · right; right; exact ⟨x, List.mem_append_left _ hx, hx3⟩
    | style | media | page | fontface =>
      simp only [hins, Bool.and_true]
      apply hnext
      exact ⟨fun h => absurd h hne, Or.inr (Or.inr ⟨r, by simp, by simp [lv, hk, lvl]⟩)⟩

/-- **re-parse**: a valid list whose @namespace rules are clean and whose @variables rules stand where
the parser takes them goes through the parse-time ordering machine unchanged, nothing refused -/
theorem reparse_same_full (s : Sheet) (hv : Valid s) (hc : NsDistinct s) (ho : VarOrd s) :
    parseSheet true s = s ∧ (parseLoop true s 0 [] true).2 = true := by
  have h := parseLoop_accepts_ns s [] 0 true (by simpa using hv) (by simpa using hc) (by simpa using ho)
    ⟨fun _ => rfl, Or.inl (by omega)⟩
  simp only [List.nil_append] at h
  refine ⟨?_, by rw [h]⟩
  simp only [parseSheet, h, cleanNamespaces_fix hc]


/-! ### what `insertRule` can do to the list -/

/-- the four outcomes of `insertRule`: nothing; the rule inserted somewhere; the encoding of the leading
@charset rule replaced; an @namespace rule inserted (and the list cleaned) -/
def Shape (s : Sheet) (r : Rule) (clean : Bool) (s' : Sheet) : Prop :=
  s' = s ∨
  (r.kind ≠ .namespace ∧ ∃ i, s' = insertAt s i r) ∨
  (∃ h t q, s = h :: t ∧ h.kind = .charset ∧ s' = { h with p := q } :: t) ∨
  (r.kind = .namespace ∧ dictGet (view s) r.p ≠ some r.u ∧ ∃ i,
     (clean = true ∧ cleanNamespaces (insertAt s i r) = (s', none)) ∨ (clean = false ∧ s' = insertAt s i r))

theorem insertRule_shape_rp (fx : Bool) (s : Sheet) (r : Rule) (index : Option Nat) (inOrder clean : Bool) :
    Shape s r clean (insertRule fx s r index inOrder clean).1 := by
  unfold insertRule
  simp only
  split
  · exact Or.inl rfl
  · cases hk : r.kind with
    | charset =>
      have hn : r.kind ≠ .namespace := by rw [hk]; decide
      simp only
      split
      · split
        · rename_i hh
          cases s with
          | nil => exact Or.inl rfl
          | cons h t =>
            refine Or.inr (Or.inr (Or.inl ⟨h, t, r.p, rfl, ?_, rfl⟩))
            simpa [headIs] using hh
        · exact Or.inr (Or.inl ⟨hn, 0, by simp [insertAt]⟩)
      · split
        · exact Or.inl rfl
        · exact Or.inr (Or.inl ⟨hn, _, rfl⟩)
    | «import» =>
      have hn : r.kind ≠ .namespace := by rw [hk]; decide
      simp only
      split
      · exact Or.inr (Or.inl ⟨hn, _, rfl⟩)
      · split
        · exact Or.inl rfl
        · split
          · exact Or.inl rfl
          · exact Or.inr (Or.inl ⟨hn, _, rfl⟩)
    | «namespace» =>
      simp only
      split
      · exact Or.inl rfl
      · rename_i idx _
        split
        · exact Or.inl rfl
        · rename_i hg
          split
          · generalize hcn : cleanNamespaces (insertAt s idx r) = c
            obtain ⟨s'', oe⟩ := c
            cases oe with
            | some e => exact Or.inl rfl
            | none => exact Or.inr (Or.inr (Or.inr ⟨hk, hg, idx, Or.inl ⟨by assumption, hcn⟩⟩))
          · rename_i hcl
            exact Or.inr (Or.inr (Or.inr ⟨hk, hg, idx, Or.inr ⟨by simpa using hcl, rfl⟩⟩))
    | variables =>
      have hn : r.kind ≠ .namespace := by rw [hk]; decide
      simp only
      split
      · exact Or.inl rfl
      · exact Or.inr (Or.inl ⟨hn, _, rfl⟩)
    | unknown | comment | margin | style | media | page | fontface =>
      have hn : r.kind ≠ .namespace := by rw [hk]; decide
      simp only
      split
      · split
        · exact Or.inl rfl
        · exact Or.inr (Or.inl ⟨hn, _, rfl⟩)
      · split
        · exact Or.inr (Or.inl ⟨hn, s.length, (insertAt_length s r).symm⟩)
        · split
          · exact Or.inl rfl
          · exact Or.inr (Or.inl ⟨hn, _, rfl⟩)


/-! ### what `_cleanNamespaces` leaves when it does not raise -/

theorem take_eraseIdx_self {α} (s : List α) (i : Nat) : (s.eraseIdx i).take i = s.take i := by
  induction s generalizing i with
  | nil => simp
  | cons x s ih =>
    cases i with
    | zero => simp
    | succ i => simp [ih]

theorem cleanLoop_all_in (items : List (Nat × Nat)) :
    ∀ (fuel : Nat) (s : Sheet) (i : Nat) (s' : Sheet), s.length ≤ i + fuel →
      (∀ r ∈ s.take i, r.kind = .namespace → (r.p, r.u) ∈ items) →
      cleanLoop items fuel s i = (s', none) →
      ∀ r ∈ s', r.kind = .namespace → (r.p, r.u) ∈ items := by
  intro fuel
  induction fuel with
  | zero =>
    intro s i s' hlen hp h
    simp only [cleanLoop] at h
    cases h
    rw [List.take_of_length_le (by omega)] at hp
    exact hp
  | succ fuel ih =>
    intro s i s' hlen hp h
    rw [cleanLoop_succ] at h
    cases hi : s[i]? with
    | none =>
      simp only [hi] at h
      cases h
      have : s.length ≤ i := List.getElem?_eq_none_iff.mp hi
      rw [List.take_of_length_le this] at hp
      exact hp
    | some r =>
      have hlt : i < s.length := by
        rcases Nat.lt_or_ge i s.length with h' | h'
        · exact h'
        · rw [List.getElem?_eq_none h'] at hi; cases hi
      simp only [hi] at h
      split at h
      · split at h
        · cases h
        · refine ih _ _ _ ?_ ?_ h
          · rw [List.length_eraseIdx_of_lt hlt]; omega
          · intro x hx
            apply hp x
            rw [take_eraseIdx_self] at hx
            exact hx
      · rename_i hcond
        refine ih _ _ _ ?_ ?_ h
        · omega
        · intro x hx hxk
          rw [List.take_add_one, hi] at hx
          rcases List.mem_append.mp hx with hx' | hx'
          · exact hp x hx' hxk
          · simp only [Option.toList_some, List.mem_singleton] at hx'
            subst hx'
            simpa [hxk] using hcond

/-- rules that differ pairwise in (prefix, URI) and all stand in one mapping differ in both -/
theorem nsdistinct_of_in_dict {s : Sheet} {d : List (Nat × Nat)} (hd : DictOK_rp d) (hp : PairOK s)
    (hin : ∀ r ∈ s, r.kind = .namespace → (r.p, r.u) ∈ d) : NsDistinct s := by
  apply List.Pairwise.imp_of_mem _ hp
  intro a b ha hb hab
  have ha' := mem_nsRules.mp ha
  have hb' := mem_nsRules.mp hb
  have hia := hin a ha'.1 ha'.2
  have hib := hin b hb'.1 hb'.2
  refine ⟨?_, ?_⟩
  · intro he
    rw [he] at hia
    exact hab ⟨he, dict_key_inj hd hia hib⟩
  · intro he
    rw [he] at hia
    exact hab ⟨dict_val_inj hd hia hib, he⟩

/-- a completed clean-up of a list without duplicate declarations is clean -/
theorem clean_result {s s' : Sheet} (hp : PairOK s) (h : cleanNamespaces s = (s', none)) : NsDistinct s' := by
  have hsub : s'.Sublist s := by
    have := cleanNamespaces_sublist s
    rw [h] at this; exact this
  apply nsdistinct_of_in_dict (view_ok_rp s) (pairok_sublist hsub hp)
  exact cleanLoop_all_in (view s) (s.length + 1) s 0 s' (by omega) (by intro r hr; simp at hr) h

/-! ### with distinct prefixes the clean-up never meets a protected rule -/

theorem count_ge_two {l : Sheet} {f : Rule → Nat} {v : Nat} {a b : Rule} (ha : a ∈ l) (hb : b ∈ l)
    (hne : a ≠ b) (hfa : f a = v) (hfb : f b = v) : 2 ≤ (l.map f).count v := by
  induction l with
  | nil => cases ha
  | cons x l ih =>
    simp only [List.map_cons, List.count_cons]
    rcases List.mem_cons.mp ha with rfl | ha' <;> rcases List.mem_cons.mp hb with rfl | hb'
    · exact absurd rfl hne
    · have : 0 < (l.map f).count v := List.count_pos_iff.mpr (List.mem_map.mpr ⟨b, hb', hfb⟩)
      have e : (f a == v) = true := by rw [hfa]; exact beq_self_eq_true v
      rw [e]; simp only [if_true]; omega
    · have : 0 < (l.map f).count v := List.count_pos_iff.mpr (List.mem_map.mpr ⟨a, ha', hfa⟩)
      have e : (f b == v) = true := by rw [hfb]; exact beq_self_eq_true v
      rw [e]; simp only [if_true]; omega
    · have := ih ha' hb'
      omega

/-- every ineffective @namespace rule has an effective one with the same URI beside it -/
def Shadowed (items : List (Nat × Nat)) (s : Sheet) : Prop :=
  ∀ r ∈ s, r.kind = .namespace → (r.p, r.u) ∉ items →
    ∃ r' ∈ s, r'.kind = .namespace ∧ r'.u = r.u ∧ (r'.p, r'.u) ∈ items

theorem shadowed_init {s : Sheet} (hp : PfxOK s) : Shadowed (view s) s := by
  intro r hr hk hni
  have hrn : r ∈ nsRules s := mem_nsRules.mpr ⟨hr, hk⟩
  rcases view_covers_rp s r hr hk with h | h
  · exfalso
    rw [hasKey_iff_rp] at h
    obtain ⟨⟨p, u⟩, hx, hxe⟩ := List.mem_map.mp h
    simp only at hxe; subst hxe
    obtain ⟨r', hr', hk', hp', hu'⟩ := view_sound_rp s _ _ hx
    rcases pw_cases pfxR_symm hp (mem_nsRules.mpr ⟨hr', hk'⟩) hrn with he | hne
    · subst he; rw [← hu'] at hx; exact hni hx
    · exact hne hp'
  · rw [hasVal_iff_rp] at h
    obtain ⟨⟨p, u⟩, hx, hxe⟩ := List.mem_map.mp h
    simp only at hxe; subst hxe
    obtain ⟨r', hr', hk', hp', hu'⟩ := view_sound_rp s _ _ hx
    exact ⟨r', hr', hk', hu', by rw [hp', hu']; exact hx⟩

theorem cleanLoop_noraise (items : List (Nat × Nat)) :
    ∀ (fuel : Nat) (s : Sheet) (i : Nat), Shadowed items s → (cleanLoop items fuel s i).2 = none := by
  intro fuel
  induction fuel with
  | zero => intro s i _; rfl
  | succ fuel ih =>
    intro s i hJ
    rw [cleanLoop_succ]
    cases hi : s[i]? with
    | none => rfl
    | some r =>
      simp only
      have hmem : r ∈ s := List.mem_of_getElem? hi
      split
      · rename_i hcond
        simp only [Bool.and_eq_true, decide_eq_true_eq, Bool.not_eq_true', List.contains_eq_mem,
          decide_eq_false_iff_not] at hcond
        obtain ⟨r', hr', hk', hu', hin'⟩ := hJ r hmem hcond.1 hcond.2
        have hne : r ≠ r' := by
          intro he; subst he; exact hcond.2 hin'
        have hcount := count_ge_two (l := s.filter (isKind .namespace)) (f := (·.u)) (v := r.u)
          (mem_nsRules.mpr ⟨hmem, hcond.1⟩) (mem_nsRules.mpr ⟨hr', hk'⟩) hne rfl hu'
        have hprot : protectedNs s r = false := by
          unfold protectedNs
          have : ¬ ((s.filter (isKind .namespace)).map (·.u)).count r.u = 1 := by omega
          simp [this]
        simp only [hprot, Bool.false_eq_true, if_false]
        apply ih
        intro x hx hxk hxni
        have hxs : x ∈ s := (List.eraseIdx_sublist s i).subset hx
        obtain ⟨y, hy, hyk, hyu, hyin⟩ := hJ x hxs hxk hxni
        refine ⟨y, ?_, hyk, hyu, hyin⟩
        obtain ⟨j, hj⟩ := List.mem_iff_getElem?.mp hy
        rw [List.mem_eraseIdx_iff_getElem?]
        refine ⟨j, ?_, hj⟩
        intro hji
        subst hji
        rw [hi] at hj
        cases hj
        exact hcond.2 hyin
      · exact ih s (i + 1) hJ

/-- the clean-up after parsing: distinct prefixes in, a clean list out -/
theorem clean_of_pfxok {s : Sheet} (hp : PfxOK s) : NsDistinct (cleanNamespaces s).1 := by
  have h2 : (cleanNamespaces s).2 = none := cleanLoop_noraise _ _ _ _ (shadowed_init hp)
  apply clean_result (pairok_of_pfxok hp) (s' := (cleanNamespaces s).1)
  rw [← h2]

/-! ### `NsDistinct` is kept by every operation -/

theorem pairwise_insert {R : Rule → Rule → Prop} {a b : Sheet} {r : Rule} (h : (a ++ b).Pairwise R)
    (hr : ∀ x ∈ a ++ b, R x r ∧ R r x) : (a ++ r :: b).Pairwise R := by
  rw [List.pairwise_append] at h ⊢
  refine ⟨h.1, ?_, ?_⟩
  · rw [List.pairwise_cons]
    exact ⟨fun x hx => (hr x (List.mem_append_right _ hx)).2, h.2.1⟩
  · intro x hx y hy
    rcases List.mem_cons.mp hy with rfl | hy'
    · exact (hr x (List.mem_append_left _ hx)).1
    · exact h.2.2 x hx y hy'

theorem nsRules_insertAt_other (s : Sheet) (i : Nat) {r : Rule} (hk : r.kind ≠ .namespace) :
    nsRules (insertAt s i r) = nsRules s := by
  rw [insertAt_eq, nsRules_append, nsRules_cons_other hk, ← nsRules_append, List.take_append_drop]

theorem nsRules_insertAt_ns (s : Sheet) (i : Nat) {r : Rule} (hk : r.kind = .namespace) :
    nsRules (insertAt s i r) = nsRules (s.take i) ++ r :: nsRules (s.drop i) := by
  rw [insertAt_eq, nsRules_append, nsRules_cons_ns hk]

theorem nsRules_take_drop (s : Sheet) (i : Nat) : nsRules (s.take i) ++ nsRules (s.drop i) = nsRules s := by
  rw [← nsRules_append, List.take_append_drop]

theorem nsRules_head_charset {h : Rule} (t : Sheet) (q : Nat) (hk : h.kind = .charset) :
    nsRules ({ h with p := q } :: t) = nsRules (h :: t) := by
  rw [nsRules_cons_other (by simp [hk]), nsRules_cons_other (by simp [hk])]

theorem insertRule_nsdistinct (s : Sheet) (hc : NsDistinct s) (r : Rule) (index : Option Nat) (inOrder : Bool) :
    NsDistinct (insertRule true s r index inOrder true).1 := by
  rcases insertRule_shape_rp true s r index inOrder true with h | ⟨hk, i, h⟩ | ⟨h', t, q, hs, hk, h⟩ | ⟨hk, hg, i, h⟩
  · rw [h]; exact hc
  · rw [h]; unfold NsDistinct; rw [nsRules_insertAt_other s i hk]; exact hc
  · rw [h]; subst hs; unfold NsDistinct; rw [nsRules_head_charset t q hk]; exact hc
  · rcases h with ⟨_, h⟩ | ⟨h, _⟩
    · apply clean_result _ h
      unfold PairOK
      rw [nsRules_insertAt_ns s i hk]
      apply pairwise_insert
      · rw [nsRules_take_drop]; exact pairok_of_nsdistinct hc
      · rw [nsRules_take_drop]
        intro x hx
        have hx' := mem_nsRules.mp hx
        have hne : ¬ (x.p = r.p ∧ x.u = r.u) := by
          rintro ⟨h1, h2⟩
          have := dictGet_of_mem_rp (view s) x.p x.u (view_ok_rp s).1 (nsdistinct_effective hc hx'.1 hx'.2)
          rw [h1, h2] at this
          exact hg this
        exact ⟨hne, fun he => hne ⟨he.1.symm, he.2.symm⟩⟩
    · cases h

theorem setEncoding_nsdistinct (s : Sheet) (hc : NsDistinct s) (e : Option Nat) : NsDistinct (setEncoding true s e).1 := by
  unfold setEncoding
  split
  · rename_i hh
    split
    · rename_i enc h t
      have hk : h.kind = .charset := by simpa [headIs] using hh
      unfold NsDistinct; rw [nsRules_head_charset t enc hk]; exact hc
    · exact nsdistinct_sublist (deleteRule_sublist _ _) hc
    · exact hc
  · split
    · rename_i enc
      have := insertRule_nsdistinct s hc { kind := .charset, p := enc } (some 0) false
      generalize insertRule true s { kind := .charset, p := enc } (some 0) false = x at this ⊢
      obtain ⟨s', r'⟩ := x
      cases r' <;> exact this
    · exact hc

theorem nsSet_nsdistinct (s : Sheet) (hc : NsDistinct s) (p u : Nat) : NsDistinct (nsSet true s p u).1 := by
  unfold nsSet
  split
  · have := insertRule_nsdistinct s hc { kind := .namespace, p := p, u := u } none true
    generalize insertRule true s { kind := .namespace, p := p, u := u } none true = x at this ⊢
    obtain ⟨s', r'⟩ := x
    cases r' <;> exact this
  · split
    · exact hc
    · split <;> exact hc

theorem nsDel_nsdistinct (s : Sheet) (hc : NsDistinct s) (p : Nat) : NsDistinct (nsDel s p).1 := by
  unfold nsDel
  split
  · exact hc
  · exact nsdistinct_sublist (deleteRule_sublist _ _) hc

/-! ### the parser keeps the prefixes of the @namespace rules distinct -/

theorem parseInsert_fst (fx : Bool) (acc : Sheet) (r : Rule) :
    (parseInsert fx acc r).1 = (insertRule fx acc r none false false).1 := by
  unfold parseInsert
  generalize insertRule fx acc r none false false = x
  obtain ⟨s', r'⟩ := x
  cases r' <;> rfl

theorem parseInsert_pfxok (acc : Sheet) (r : Rule) (hp : PfxOK acc)
    (hnew : r.kind = .namespace → ∀ x ∈ acc, x.kind = .namespace → x.p ≠ r.p) :
    PfxOK (parseInsert true acc r).1 := by
  rw [parseInsert_fst]
  rcases insertRule_shape_rp true acc r none false false with h | ⟨hk, i, h⟩ | ⟨h', t, q, hs, hk, h⟩ | ⟨hk, _, i, h⟩
  · rw [h]; exact hp
  · rw [h]; unfold PfxOK; rw [nsRules_insertAt_other acc i hk]; exact hp
  · rw [h]; subst hs; unfold PfxOK; rw [nsRules_head_charset t q hk]; exact hp
  · rcases h with ⟨h, _⟩ | ⟨_, h⟩
    · cases h
    · rw [h]
      unfold PfxOK
      rw [nsRules_insertAt_ns acc i hk]
      apply pairwise_insert
      · rw [nsRules_take_drop]; exact hp
      · rw [nsRules_take_drop]
        intro x hx
        have hx' := mem_nsRules.mp hx
        have := hnew hk x hx'.1 hx'.2
        exact ⟨this, fun he => this he.symm⟩

theorem pfxok_update (acc : Sheet) (p u : Nat) (hp : PfxOK acc) :
    PfxOK (acc.map (fun x => if x.kind = .namespace && x.p = p then { x with u := u } else x)) := by
  have hkind : ∀ x : Rule, (if (x.kind = .namespace && x.p = p) = true then { x with u := u } else x).kind = x.kind := by
    intro x; split <;> rfl
  have hpfx : ∀ x : Rule, (if (x.kind = .namespace && x.p = p) = true then { x with u := u } else x).p = x.p := by
    intro x; split <;> rfl
  unfold PfxOK nsRules
  rw [List.filter_map, List.pairwise_map]
  have : (isKind Kind.namespace ∘ fun x : Rule => if (x.kind = .namespace && x.p = p) = true then { x with u := u } else x)
      = isKind Kind.namespace := by
    funext x
    simp only [Function.comp, isKind, hkind]
  rw [this]
  apply List.Pairwise.imp _ hp
  intro a b hab
  unfold pfxR at hab ⊢
  rw [hpfx, hpfx]; exact hab

theorem parseLoop_pfxok : ∀ (rs : List Rule) (expected : Nat) (acc : Sheet) (ok : Bool), PfxOK acc →
    PfxOK (parseLoop true rs expected acc ok).1 := by
  intro rs
  induction rs with
  | nil => intro _ acc _ hp; exact hp
  | cons r rs ih =>
    intro expected acc ok hp
    have hother : r.kind ≠ .namespace → PfxOK (parseInsert true acc r).1 :=
      fun hk => parseInsert_pfxok acc r hp (fun h => absurd h hk)
    unfold parseLoop
    cases hk : r.kind with
    | «namespace» =>
      simp only
      split
      · exact ih _ _ _ hp
      · split
        · rename_i hany
          apply ih
          apply parseInsert_pfxok acc r hp
          intro _ x hx hxk hxp
          have : acc.any (fun x => x.kind = .namespace && x.p = r.p) = true :=
            List.any_eq_true.mpr ⟨x, hx, by simp [hxk, hxp]⟩
          simp [this] at hany
        · exact ih _ _ _ (pfxok_update acc r.p r.u hp)
    | charset | «import» | variables =>
      have hn : r.kind ≠ .namespace := by rw [hk]; decide
      simp only
      split
      · exact ih _ _ _ hp
      · exact ih _ _ _ (hother hn)
    | unknown | comment | margin | style | media | page | fontface =>
      have hn : r.kind ≠ .namespace := by rw [hk]; decide
      exact ih _ _ _ (hother hn)

theorem parseSheet_nsdistinct (rs : List Rule) : NsDistinct (parseSheet true rs) :=
  clean_of_pfxok (parseLoop_pfxok rs 0 [] true pfxok_nil)

theorem assign_nsdistinct (s : Sheet) (hc : NsDistinct s) (rs : List Rule) : NsDistinct (assignSheet true s rs).1 := by
  unfold assignSheet
  simp only
  split
  · exact clean_of_pfxok (parseLoop_pfxok rs 0 [] true pfxok_nil)
  · exact hc

theorem step_nsdistinct (s : Sheet) (hc : NsDistinct s) (op : Op) : NsDistinct (step true s op).1 := by
  cases op with
  | insert r i o => exact insertRule_nsdistinct s hc r i o
  | delete i => exact nsdistinct_sublist (deleteRule_sublist _ _) hc
  | encoding e => exact setEncoding_nsdistinct s hc e
  | nsSet p u => exact nsSet_nsdistinct s hc p u
  | nsDel p => exact nsDel_nsdistinct s hc p
  | assign rs => exact assign_nsdistinct s hc rs


/-! ### histories that never bring in an @variables rule -/

/-- the operation carries no @variables rule -/
def OpNoVar : Op → Prop
  | .insert r _ _ => r.kind ≠ .variables
  | .assign rs => ∀ r ∈ rs, r.kind ≠ .variables
  | _ => True

theorem noVariables_sublist {s s' : Sheet} (h : s'.Sublist s) (hn : noVariables s) : noVariables s' :=
  fun x hx => hn x (h.subset hx)

theorem noVariables_insertAt {s : Sheet} (i : Nat) {r : Rule} (hn : noVariables s) (hr : r.kind ≠ .variables) :
    noVariables (insertAt s i r) := by
  intro x hx
  rw [insertAt_eq] at hx
  rcases List.mem_append.mp hx with h | h
  · exact hn x (List.mem_of_mem_take h)
  · rcases List.mem_cons.mp h with rfl | h'
    · exact hr
    · exact hn x (List.mem_of_mem_drop h')

theorem noVariables_shape {s s' : Sheet} {r : Rule} {cl : Bool} (h : Shape s r cl s') (hn : noVariables s)
    (hr : r.kind ≠ .variables) : noVariables s' := by
  rcases h with h | ⟨_, i, h⟩ | ⟨h', t, q, hs, hk, h⟩ | ⟨_, _, i, h⟩
  · rw [h]; exact hn
  · rw [h]; exact noVariables_insertAt i hn hr
  · rw [h]; subst hs
    intro x hx
    rcases List.mem_cons.mp hx with rfl | hx'
    · simp [hk]
    · exact hn x (List.mem_cons_of_mem _ hx')
  · rcases h with ⟨_, h⟩ | ⟨_, h⟩
    · have hsub := cleanNamespaces_sublist (insertAt s i r)
      rw [h] at hsub
      exact noVariables_sublist hsub (noVariables_insertAt i hn hr)
    · rw [h]; exact noVariables_insertAt i hn hr

theorem parseLoop_noVariables : ∀ (rs : List Rule) (expected : Nat) (acc : Sheet) (ok : Bool),
    noVariables acc → (∀ r ∈ rs, r.kind ≠ .variables) → noVariables (parseLoop true rs expected acc ok).1 := by
  intro rs
  induction rs with
  | nil => intro _ acc _ hn _; exact hn
  | cons r rs ih =>
    intro expected acc ok hn hrs
    have hr : r.kind ≠ .variables := hrs r (by simp)
    have hrs' : ∀ x ∈ rs, x.kind ≠ .variables := fun x hx => hrs x (List.mem_cons_of_mem _ hx)
    have hins : noVariables (parseInsert true acc r).1 := by
      rw [parseInsert_fst]
      exact noVariables_shape (insertRule_shape_rp true acc r none false false) hn hr
    unfold parseLoop
    cases hk : r.kind with
    | «namespace» =>
      simp only
      split
      · exact ih _ _ _ hn hrs'
      · split
        · exact ih _ _ _ hins hrs'
        · apply ih _ _ _ _ hrs'
          intro x hx
          obtain ⟨y, hy, hyx⟩ := List.mem_map.mp hx
          have := hn y hy
          rw [← hyx]
          split <;> exact this
    | variables => exact absurd hk hr
    | charset | «import» =>
      simp only
      split
      · exact ih _ _ _ hn hrs'
      · exact ih _ _ _ hins hrs'
    | unknown | comment | margin | style | media | page | fontface =>
      exact ih _ _ _ hins hrs'

theorem step_noVariables (s : Sheet) (hn : noVariables s) (op : Op) (ho : OpNoVar op) :
    noVariables (step true s op).1 := by
  cases op with
  | insert r i o => exact noVariables_shape (insertRule_shape_rp true s r i o true) hn ho
  | delete i => exact noVariables_sublist (deleteRule_sublist _ _) hn
  | encoding e =>
    simp only [step, setEncoding]
    split
    · split
      · rename_i enc h t _
        intro x hx
        rcases List.mem_cons.mp hx with rfl | hx'
        · exact hn h (by simp)
        · exact hn x (List.mem_cons_of_mem _ hx')
      · exact noVariables_sublist (deleteRule_sublist _ _) hn
      · exact hn
    · split
      · rename_i enc
        have := noVariables_shape (insertRule_shape_rp true s { kind := .charset, p := enc } (some 0) false true) hn
          (by simp)
        generalize insertRule true s { kind := .charset, p := enc } (some 0) false = x at this ⊢
        obtain ⟨s', r'⟩ := x
        cases r' <;> exact this
      · exact hn
  | nsSet p u =>
    simp only [step, nsSet]
    split
    · have := noVariables_shape (insertRule_shape_rp true s { kind := .namespace, p := p, u := u } none true true) hn
        (by simp)
      generalize insertRule true s { kind := .namespace, p := p, u := u } none true = x at this ⊢
      obtain ⟨s', r'⟩ := x
      cases r' <;> exact this
    · split
      · exact hn
      · split <;> exact hn
  | nsDel p =>
    simp only [step, nsDel]
    split
    · exact hn
    · exact noVariables_sublist (deleteRule_sublist _ _) hn
  | assign rs =>
    simp only [step, assignSheet]
    split
    · exact noVariables_sublist (cleanNamespaces_sublist _)
        (parseLoop_noVariables rs 0 [] true (fun x hx => by cases hx) ho)
    · exact hn

/-! ### every history -/

theorem reachable_nsdistinct' (ops : List Op) : NsDistinct (ops.foldl (fun s op => (step true s op).1) []) := by
  suffices h : ∀ (s : Sheet), NsDistinct s → NsDistinct (ops.foldl (fun s op => (step true s op).1) s) from h [] nsdistinct_nil
  induction ops with
  | nil => intro s hc; exact hc
  | cons op ops ih =>
    intro s hc
    simp only [List.foldl_cons]
    exact ih _ (step_nsdistinct s hc op)

theorem reachable_noVariables (ops : List Op) (ho : ∀ op ∈ ops, OpNoVar op) :
    noVariables (ops.foldl (fun s op => (step true s op).1) []) := by
  suffices h : ∀ (s : Sheet), noVariables s → noVariables (ops.foldl (fun s op => (step true s op).1) s) from
    h [] (fun x hx => by cases hx)
  induction ops with
  | nil => intro s hn; exact hn
  | cons op ops ih =>
    intro s hn
    simp only [List.foldl_cons]
    exact ih (fun o h => ho o (List.mem_cons_of_mem _ h)) _ (step_noVariables s hn op (ho op (by simp)))

end CssVerif.Sheet
