import CssVerif.Model.Import
namespace CssVerif.Import

/-- below the root segment the loop of `urljoin` is the RFC's, as long as no `..` climbs above the root -/
theorem resolveLoop_rfc (rest : List String) : ∀ (st : List String), noClimb st.length rest = true →
    resolveLoop rest (st ++ [""]) = "" :: rfcLoop rest st := by
  induction rest with
  | nil => intro st _; simp [resolveLoop, rfcLoop]
  | cons seg rest ih =>
    intro st h
    by_cases h1 : seg = ".."
    · subst h1
      simp only [noClimb, if_true, Bool.and_eq_true, decide_eq_true_eq] at h
      cases st with
      | nil => simp at h
      | cons x st' =>
        simp only [resolveLoop, rfcLoop, if_true, List.cons_append, List.tail_cons]
        exact ih st' (by simpa using h.2)
    · by_cases h2 : seg = "."
      · subst h2
        simp only [noClimb, h1, if_false, if_true] at h
        simp only [resolveLoop, rfcLoop, h1, if_false, if_true]
        exact ih st h
      · simp only [noClimb, h1, h2, if_false] at h
        simp only [resolveLoop, rfcLoop, h1, h2, if_false]
        have := ih (seg :: st) (by simpa using h)
        simpa using this

/-- **`urljoin` follows RFC 3986** for an absolute merged path without empty inner segments whose `..`
never climb above the root -/
theorem joinPath_rfc (base rel : Path) (hrel : rel.head? ≠ some "")
    (segs : List String) (hsegs : (if base.getLast? == some "" then base else base.dropLast) ++ rel = "" :: segs)
    (hne : dropInnerEmpty ("" :: segs) = "" :: segs) (hclimb : noClimb 0 segs = true) :
    joinPath base rel = rfcPath ("" :: segs) := by
  have hh : (rel.head? == some "") = false := by
    cases hr : rel.head? with
    | none => rfl
    | some x =>
      have : x ≠ "" := by intro hx; apply hrel; rw [hr, hx]
      simp [this]
  simp only [joinPath, hh, Bool.false_eq_true, if_false, hsegs, hne, rfcPath, List.tail_cons]
  have := resolveLoop_rfc segs [] hclimb
  simp only [List.nil_append] at this
  have h0 : resolveLoop ("" :: segs) [] = resolveLoop segs [""] := by
    simp [resolveLoop]
  rw [h0, this]
  split <;> simp

/-! ### the encoding decision -/

theorem choose_override (o : Nat) (h e p : Option Nat) (u : Nat) : chooseEncoding (some o) h e p u = (o, .override) := rfl
theorem choose_http (h : Nat) (e p : Option Nat) (u : Nat) : chooseEncoding none (some h) e p u = (h, .http) := rfl
theorem choose_content (e : Nat) (p : Option Nat) (u : Nat) : chooseEncoding none none (some e) p u = (e, .content) := rfl
theorem choose_parent (p u : Nat) : chooseEncoding none none none (some p) u = (p, .parent) := rfl
theorem choose_default (u : Nat) : chooseEncoding none none none none u = (u, .default) := rfl

/-- the choice is the first available source in the documented order -/
theorem choose_first (o h e p : Option Nat) (u : Nat) :
    (chooseEncoding o h e p u).1 = ((o.or h).or (e.or p)).getD u := by
  cases o <;> cases h <;> cases e <;> cases p <;> rfl

/-- an explicit override decides at every level, whatever the nested sheet says about itself -/
theorem nested_override (o : Nat) (h1 e1 p1 h2 e2 : Option Nat) (u : Nat) :
    chooseNested (some o) h1 e1 p1 h2 e2 u = (o, .override) := rfl

/-- without an override the nested sheet's own sources come first, then the encoding the importing
(imported) sheet was decoded with — unless that was only the UTF-8 default -/
theorem nested_first (h1 e1 p1 h2 e2 : Option Nat) (u : Nat) :
    (chooseNested none h1 e1 p1 h2 e2 u).1 = ((h2.or e2).or ((h1.or e1).or p1)).getD u := by
  cases h1 <;> cases e1 <;> cases p1 <;> cases h2 <;> cases e2 <;> rfl

/-! ### whatever the fetcher does -/

def loads (f : Fetch) : Bool := f = .text || f = .bytesOk

theorem contained (f : Fetch) :
    setHref true f = some (if loads f then .loaded else .failedEmpty) := by
  cases f <;> rfl

theorem snapshot_escapes : setHref false .unknownEncoding = none ∧ setHref false .cyclic = none := ⟨rfl, rfl⟩

end CssVerif.Import
