import CssVerif.Model.Links
namespace CssVerif.Links

@[simp] theorem get_set_same (st : St) (x : Nat) (o : Obj) : get (set st x o) x = o := by simp [get, set]
@[simp] theorem get_set_other (st : St) (x y : Nat) (o : Obj) (h : y ≠ x) : get (set st x o) y = get st y := by
  simp [get, set, h]
@[simp] theorem get_top (st : St) (l : List Nat) (x : Nat) : get { st with top := l } x = get st x := rfl

/-- a containment chain from a rule of the sheet down to the last element: every link field along it is as
the operations set it -/
inductive Chain (st : St) : List Nat → Prop
  | top (x : Nat) : (get st x).pr = none → (get st x).raw = some 0 → Chain st [x]
  | nest (l : List Nat) (p x : Nat) : Chain st (l ++ [p]) → (get st x).pr = some p → Chain st (l ++ [p, x])

/-- **the derived getter finds the sheet at any depth** (the repaired getter) -/
theorem getter_chain (st : St) (l : List Nat) (h : Chain st l) :
    ∀ x, l.getLast? = some x → ∀ fuel, l.length ≤ fuel → parentStyleSheet true st fuel x = some 0 := by
  induction h with
  | top x hp hr =>
    intro y hy fuel hf
    simp at hy; subst hy
    cases fuel with
    | zero => simp at hf
    | succ f => simp [parentStyleSheet, hp, hr]
  | nest l p x _ hp ih =>
    intro y hy fuel hf
    have : y = x := by simpa using hy.symm
    subst this
    cases fuel with
    | zero => simp at hf
    | succ f =>
      simp only [parentStyleSheet, hp, if_true]
      exact ih p (by simp) f (by simp at hf ⊢; omega)

/-- the pinned snapshot: one level up only — a rule two containers deep (raw field of its parent cleared by
the container's insertRule) reported no sheet -/
theorem snapshot_counterexample :
    let st : St := step (step (step {} (.insTop 0 1)) (.insIn 1 0 2)) (.insIn 2 0 3)
    parentStyleSheet false st 5 3 = none ∧ parentStyleSheet true st 5 3 = some 0 ∧
    parentStyleSheet false st 5 2 = some 0 := by decide

/-! ### the operations keep every chain that does not go through the rule they move, and link that rule -/

theorem chain_frame (st st' : St) (l : List Nat) (h : Chain st l)
    (hf : ∀ y ∈ l, (get st' y).pr = (get st y).pr ∧ (get st' y).raw = (get st y).raw) : Chain st' l := by
  induction h with
  | top x hp hr =>
    have := hf x (by simp)
    exact .top x (this.1.trans hp) (this.2.trans hr)
  | nest l p x _ hp ih =>
    refine .nest l p x (ih (fun y hy => hf y ?_)) ((hf x (by simp)).1.trans hp)
    simp only [List.mem_append, List.mem_cons, List.not_mem_nil, or_false] at hy ⊢
    rcases hy with hy | hy
    · exact Or.inl hy
    · exact Or.inr (Or.inl hy)

theorem insertTop_fields (st : St) (i r y : Nat) :
    (get (insertTop st i r) y).pr = (get st y).pr ∧
    (get (insertTop st i r) y).raw = if y = r then some 0 else (get st y).raw := by
  by_cases h : y = r
  · subst h; simp [insertTop]
  · simp [insertTop, h]

theorem insertIn_fields (st : St) (c i r y : Nat) (hrc : r ≠ c) :
    (get (insertIn st c i r) y).pr = (if y = r then some c else (get st y).pr) ∧
    (get (insertIn st c i r) y).raw = (if y = r then none else (get st y).raw) := by
  by_cases h : y = r
  · subst h; simp [insertIn, hrc]
  · by_cases hc : y = c
    · subst hc; simp [insertIn, h]
    · simp [insertIn, h, hc]

/-- inserting a detached rule into the sheet links it -/
theorem insertTop_chain (st : St) (i r : Nat) (hpr : (get st r).pr = none) : Chain (insertTop st i r) [r] :=
  .top r ((insertTop_fields st i r r).1.trans hpr) (by simp [(insertTop_fields st i r r).2])

/-- inserting a rule into a container that hangs on a chain links it below that chain — at any depth -/
theorem insertIn_chain (st : St) (l : List Nat) (c i r : Nat) (h : Chain st (l ++ [c])) (hr : r ∉ l ++ [c]) :
    Chain (insertIn st c i r) (l ++ [c, r]) := by
  have hrc : r ≠ c := by intro e; apply hr; simp [e]
  refine .nest l c r (chain_frame st _ _ h ?_) (by simp [(insertIn_fields st c i r r hrc).1])
  intro y hy
  have hyr : y ≠ r := by intro e; apply hr; rw [← e]; exact hy
  have := insertIn_fields st c i r y hrc
  simp only [hyr, if_false] at this
  exact this

/-- … so the sheet is found from the inserted rule, however deep the container is -/
theorem insertIn_getter (st : St) (l : List Nat) (c i r : Nat) (h : Chain st (l ++ [c])) (hr : r ∉ l ++ [c])
    (fuel : Nat) (hf : l.length + 2 ≤ fuel) : parentStyleSheet true (insertIn st c i r) fuel r = some 0 :=
  getter_chain _ _ (insertIn_chain st l c i r h hr) r (by simp) fuel (by simpa using hf)

/-- other chains survive an insertion elsewhere -/
theorem insertIn_keeps (st : St) (l : List Nat) (c i r : Nat) (h : Chain st l) (hr : r ∉ l) (hrc : r ≠ c) :
    Chain (insertIn st c i r) l := by
  refine chain_frame st _ _ h ?_
  intro y hy
  have hyr : y ≠ r := by intro e; apply hr; rw [← e]; exact hy
  have := insertIn_fields st c i r y hrc
  simp only [hyr, if_false] at this
  exact this

/-! ### a deleted rule reports no parent -/

theorem deleteTop_detached (st : St) (i r : Nat) (hi : st.top[i]? = some r) (hp : (get st r).pr = none) (fuel : Nat) :
    parentStyleSheet true (deleteTop st i) (fuel + 1) r = none ∧ (get (deleteTop st i) r).pr = none := by
  simp [deleteTop, hi, parentStyleSheet, hp]

theorem deleteIn_detached (st : St) (c i r : Nat) (hi : (get st c).kids[i]? = some r) (hrc : r ≠ c)
    (hraw : (get st r).raw = none) (fuel : Nat) :
    parentStyleSheet true (deleteIn st c i) (fuel + 1) r = none ∧ (get (deleteIn st c i) r).pr = none := by
  simp [deleteIn, hi, parentStyleSheet, hrc, hraw]

end CssVerif.Links
