/-
Totality of the combinator engine (`Model/ProdParser`): the fuel `parse` gives is always enough, and the
`spin` / `crash` outcomes are unreachable for well-formed grammars without an all-optional unbounded Sequence
that can be entered.
-/
import CssVerif.Model.MediaQuery
import CssVerif.Model.PPSynth
namespace CssVerif.PP

/-! ### the conditions on a grammar -/

def Pred.isComment : Pred → Bool
  | .kind k => k == .comment
  | _ => false

def GL.isNil : GL → Bool
  | .nil => true
  | .cons _ _ => false

/-- some item is not optional -/
def GL.hasReq : GL → Bool
  | .nil => false
  | .cons g tl => !g.optional || tl.hasReq

mutual
  /-- every Sequence has an item and `max ≠ 0` -/
  def G.wf : G → Bool
    | .prod _ _ => true
    | .seq items _ mx => items.wfL && !items.isNil && mx != some 0
    | .choice items _ => items.wfL
  def GL.wfL : GL → Bool
    | .nil => true
    | .cons g tl => g.wf && tl.wfL
end

mutual
  /-- every Prod inside matches COMMENT tokens only -/
  def G.dead : G → Bool
    | .prod _ m => m.isComment
    | .seq items _ _ => items.deadL
    | .choice items _ => items.deadL
  def GL.deadL : GL → Bool
    | .nil => true
    | .cons g tl => g.dead && tl.deadL
end

mutual
  /-- an unbounded Sequence has a non-optional item, or can never be entered -/
  def G.noSpin : G → Bool
    | .prod _ _ => true
    | .seq items _ mx => items.noSpinL && (mx.isSome || items.hasReq || items.deadL)
    | .choice items _ => items.noSpinL
  def GL.noSpinL : GL → Bool
    | .nil => true
    | .cons g tl => g.noSpin && tl.noSpinL
end

/-- the root is entered without a match: a dead unbounded root would spin at the end of input -/
def G.rootOK : G → Bool
  | .seq items _ none => items.hasReq
  | _ => true

mutual
  def G.noSAK : G → Bool
    | .prod f _ => !f.stopAndKeep
    | .seq items _ _ => items.noSAKL
    | .choice items _ => items.noSAKL
  def GL.noSAKL : GL → Bool
    | .nil => true
    | .cons g tl => g.noSAK && tl.noSAKL
end

structure HookOK (hook : Hook) : Prop where
  status : ∀ k t toks saved pushed, (hook k t toks saved pushed).status = .ok
  measure : ∀ k t toks saved pushed,
    (hook k t toks saved pushed).toks.length + (hook k t toks saved pushed).saved.length +
      (hook k t toks saved pushed).pushed.length ≤ toks.length + saved.length + pushed.length

/-! ### dead terms match no token that is not a comment -/

theorem Pred.isComment_eval (m : Pred) (t : Tok) (h : m.isComment = true) (ht : t.kind ≠ .comment) :
    m.eval t = false := by
  cases m <;> simp [Pred.isComment] at h
  subst h
  simp [Pred.eval, ht]

mutual
  theorem G.dead_matches (t : Tok) (ht : t.kind ≠ .comment) : ∀ g : G, g.dead = true → g.matches t = false
    | .prod f m, h => by
      simp only [G.dead] at h
      simp only [G.matches]
      exact Pred.isComment_eval m t h ht
    | .seq items _ _, h => by
      simp only [G.dead] at h
      simp only [G.matches]
      exact GL.dead_seqMatches t ht items h
    | .choice items _, h => by
      simp only [G.dead] at h
      simp only [G.matches]
      exact GL.dead_choiceMatches t ht items h
  theorem GL.dead_seqMatches (t : Tok) (ht : t.kind ≠ .comment) : ∀ l : GL, l.deadL = true → l.seqMatches t = false
    | .nil, _ => by simp [GL.seqMatches]
    | .cons g tl, h => by
      simp only [GL.deadL, Bool.and_eq_true] at h
      simp [GL.seqMatches, G.dead_matches t ht g h.1, GL.dead_seqMatches t ht tl h.2]
  theorem GL.dead_choiceMatches (t : Tok) (ht : t.kind ≠ .comment) : ∀ l : GL, l.deadL = true → l.choiceMatches t = false
    | .nil, _ => by simp [GL.choiceMatches]
    | .cons g tl, h => by
      simp only [GL.deadL, Bool.and_eq_true] at h
      simp [GL.choiceMatches, G.dead_matches t ht g h.1, GL.dead_choiceMatches t ht tl h.2]
end

/-! ### lists of items -/

def GL.mem (g : G) : GL → Prop
  | .nil => False
  | .cons h tl => g = h ∨ GL.mem g tl

theorem GL.get?_mem : ∀ (items : GL) (i : Nat) (p : G), items.get? i = some p → GL.mem p items
  | .nil, _, _, h => by simp [GL.get?] at h
  | .cons g tl, 0, p, h => by
    simp only [GL.get?, Option.some.injEq] at h
    exact Or.inl h.symm
  | .cons g tl, i + 1, p, h => by
    simp only [GL.get?] at h
    exact Or.inr (GL.get?_mem tl i p h)

theorem GL.get?_lt : ∀ (items : GL) (i : Nat) (p : G), items.get? i = some p → i < items.length
  | .nil, _, _, h => by simp [GL.get?] at h
  | .cons g tl, 0, p, h => by simp [GL.length]
  | .cons g tl, i + 1, p, h => by
    simp only [GL.get?] at h
    have := GL.get?_lt tl i p h
    simp only [GL.length]
    omega

theorem GL.get?_of_lt : ∀ (items : GL) (i : Nat), i < items.length → ∃ p, items.get? i = some p
  | .nil, _, h => by simp [GL.length] at h
  | .cons g tl, 0, _ => ⟨g, rfl⟩
  | .cons g tl, i + 1, h => by
    simp only [GL.length] at h
    simp only [GL.get?]
    exact GL.get?_of_lt tl i (by omega)

theorem G.size_pos (g : G) : 1 ≤ g.size := by
  cases g <;> simp [G.size]

theorem GL.mem_size : ∀ (items : GL) (p : G), GL.mem p items → p.size ≤ items.size
  | .nil, _, h => by simp [GL.mem] at h
  | .cons g tl, p, h => by
    simp only [GL.mem] at h
    simp only [GL.size]
    rcases h with rfl | h
    · omega
    · have := GL.mem_size tl p h
      omega

theorem GL.firstMatch_some : ∀ (items : GL) (tok : Option Tok) (p : G), items.firstMatch tok = some p →
    p.matchesO tok = true ∧ GL.mem p items
  | .nil, _, _, h => by simp [GL.firstMatch] at h
  | .cons g tl, tok, p, h => by
    simp only [GL.firstMatch] at h
    split at h
    · rename_i hm
      simp only [Option.some.injEq] at h
      subst h
      exact ⟨hm, Or.inl rfl⟩
    · have := GL.firstMatch_some tl tok p h
      exact ⟨this.1, Or.inr this.2⟩

theorem GL.hasReq_get : ∀ (items : GL), items.hasReq = true → ∃ j p, items.get? j = some p ∧ p.optional = false
  | .nil, h => by simp [GL.hasReq] at h
  | .cons g tl, h => by
    simp only [GL.hasReq, Bool.or_eq_true, Bool.not_eq_true'] at h
    rcases h with h | h
    · exact ⟨0, g, rfl, h⟩
    · obtain ⟨j, p, hj, hp⟩ := GL.hasReq_get tl h
      exact ⟨j + 1, p, by simpa [GL.get?] using hj, hp⟩

/-- the conditions that pass from a term to its items; `c`: also `noSAK` -/
def GL.okL (c : Bool) (items : GL) : Prop :=
  items.wfL = true ∧ items.noSpinL = true ∧ (c = true → items.noSAKL = true)

def G.okG (c : Bool) (g : G) : Prop :=
  g.wf = true ∧ g.noSpin = true ∧ (c = true → g.noSAK = true)

theorem GL.mem_ok (c : Bool) : ∀ (items : GL) (p : G), GL.mem p items → GL.okL c items → G.okG c p
  | .nil, _, h, _ => by simp [GL.mem] at h
  | .cons g tl, p, h, ho => by
    simp only [GL.mem] at h
    simp only [GL.okL, GL.wfL, GL.noSpinL, GL.noSAKL, Bool.and_eq_true] at ho
    rcases h with rfl | h
    · exact ⟨ho.1.1, ho.2.1.1, fun hc => (ho.2.2 hc).1⟩
    · exact GL.mem_ok c tl p h ⟨ho.1.2, ho.2.1.2, fun hc => (ho.2.2 hc).2⟩

/-! ### `nextProd` -/

def NP.Good (S : Prop) (Q : Frame → Prop) (R : G → Prop) : NP → Prop
  | .found g fr => R g ∧ Q fr
  | .none_ fr => Q fr
  | .exhausted fr => Q fr
  | .noMatch fr => Q fr
  | .missing fr => Q fr
  | .done fr => Q fr
  | .spin => S
  | .crash => False

theorem NP.Good.mono {S S' : Prop} {Q Q' : Frame → Prop} {R R' : G → Prop} {r : NP}
    (h : r.Good S Q R) (hS : S → S') (hQ : ∀ fr, Q fr → Q' fr) (hR : ∀ g, R g → R' g) : r.Good S' Q' R' := by
  cases r <;> simp only [NP.Good] at h ⊢
  · exact ⟨hR _ h.1, hQ _ h.2⟩
  all_goals first | exact hQ _ h | exact hS h

def nextI (items : GL) (i : Nat) : Nat := if i + 1 == items.length then 0 else i + 1
def nextR (items : GL) (i round : Nat) : Nat := if i + 1 == items.length then round + 1 else round
def nextS (i : Nat) (started : Bool) : Bool := if i == 0 then false else started

theorem seqNext_succ (items : GL) (mn : Nat) (mx : Option Nat) (tok : Option Tok) (k i round : Nat) (started : Bool) :
    seqNext items mn mx tok (k + 1) i round started =
      if ltMax round mx then
        match items.get? i with
        | none => .crash
        | some p =>
          if p.matchesO tok then .found p (.seq items mn mx (nextI items i) (nextR items i round) true)
          else if p.optional then seqNext items mn mx tok k (nextI items i) (nextR items i round) (nextS i started)
          else if round < mn || nextS i started then
            .missing (.seq items mn mx (nextI items i) (nextR items i round) (nextS i started))
          else if tok.isNone then .done (.seq items mn mx (nextI items i) (nextR items i round) (nextS i started))
          else .noMatch (.seq items mn mx (nextI items i) (nextR items i round) (nextS i started))
      else if tok.isSome then .exhausted (.seq items mn mx i round started)
      else .none_ (.seq items mn mx i round started) := rfl

theorem nextI_lt (items : GL) (i : Nat) (h : i < items.length) : nextI items i < items.length := by
  unfold nextI
  split
  · omega
  · rename_i hne
    simp only [beq_iff_eq] at hne
    omega

def SeqFr (items : GL) (mn : Nat) (mx : Option Nat) (fr : Frame) : Prop :=
  ∃ i r s, fr = .seq items mn mx i r s ∧ i < items.length

theorem seqNext_good (items : GL) (mn : Nat) (mx : Option Nat) (tok : Option Tok) :
    ∀ (k i round : Nat) (started : Bool), i < items.length →
      (seqNext items mn mx tok k i round started).Good True (SeqFr items mn mx)
        (fun g => g.matchesO tok = true ∧ GL.mem g items) := by
  intro k
  induction k with
  | zero =>
    intro i round started hi
    simp only [seqNext]
    split
    · trivial
    · split <;> exact ⟨0, _, false, rfl, by omega⟩
  | succ k ih =>
    intro i round started hi
    rw [seqNext_succ]
    have hi' := nextI_lt items i hi
    split
    · split
      · rename_i hn
        obtain ⟨p, hp⟩ := GL.get?_of_lt items i hi
        rw [hp] at hn
        cases hn
      · rename_i p hp
        split
        · rename_i hm
          exact ⟨⟨hm, GL.get?_mem items i p hp⟩, _, _, _, rfl, hi'⟩
        · split
          · exact ih _ _ _ hi'
          · split
            · exact ⟨_, _, _, rfl, hi'⟩
            · split <;> exact ⟨_, _, _, rfl, hi'⟩
    · split <;> exact ⟨_, _, _, rfl, hi⟩

/-- the `while` loop only runs through when every item it has looked at is optional -/
theorem seqNext_spin (items : GL) (mn : Nat) (mx : Option Nat) (tok : Option Tok) :
    ∀ (k i round : Nat) (started : Bool), i < items.length →
      seqNext items mn mx tok k i round started = .spin →
      mx = none ∧ ∀ j, j < items.length → ((i ≤ j ∧ j < i + k) ∨ j + items.length < i + k) →
        ∃ p, items.get? j = some p ∧ p.optional = true := by
  intro k
  induction k with
  | zero =>
    intro i round started hi h
    simp only [seqNext] at h
    split at h
    · refine ⟨rfl, ?_⟩
      intro j hj hc
      omega
    · split at h <;> cases h
  | succ k ih =>
    intro i round started hi h
    rw [seqNext_succ] at h
    have hi' := nextI_lt items i hi
    split at h
    · split at h
      · cases h
      · rename_i p hp
        split at h
        · cases h
        · split at h
          · rename_i hopt
            obtain ⟨hmx, hall⟩ := ih _ _ _ hi' h
            refine ⟨hmx, ?_⟩
            intro j hj hc
            by_cases hji : j = i
            · subst hji
              exact ⟨p, hp, hopt⟩
            · apply hall j hj
              unfold nextI
              split
              · rename_i he
                simp only [beq_iff_eq] at he
                omega
              · rename_i he
                simp only [beq_iff_eq] at he
                omega
          · split at h
            · cases h
            · split at h <;> cases h
    · split at h <;> cases h

theorem seqNext_no_spin (items : GL) (mn : Nat) (mx : Option Nat) (tok : Option Tok) (i round : Nat) (started : Bool)
    (hi : i < items.length) (hr : mx = none → items.hasReq = true) :
    seqNext items mn mx tok items.length i round started ≠ .spin := by
  intro h
  obtain ⟨hmx, hall⟩ := seqNext_spin items mn mx tok _ _ _ _ hi h
  obtain ⟨j, p, hj, hp⟩ := GL.hasReq_get items (hr hmx)
  have hjl := GL.get?_lt items j p hj
  obtain ⟨q, hq, hqo⟩ := hall j hjl (by omega)
  rw [hj] at hq
  cases hq
  rw [hp] at hqo
  cases hqo

theorem NP.Good.no_spin {Q : Frame → Prop} {R : G → Prop} {r : NP} (h : r.Good True Q R) (hs : r ≠ .spin) :
    r.Good False Q R := by
  cases r <;> simp only [NP.Good] at h ⊢ <;> first | exact h | exact hs rfl

/-! ### frames -/

def Frame.items : Frame → GL
  | .seq items _ _ _ _ _ => items
  | .choice items _ _ => items

def Frame.size (fr : Frame) : Nat := fr.items.size + 1

def Frame.ok (c : Bool) : Frame → Prop
  | .seq items _ mx i _ _ => GL.okL c items ∧ i < items.length ∧ (mx = none → items.hasReq = true)
  | .choice items _ _ => GL.okL c items

theorem choiceNext_good (items : GL) (opt : Option Bool) (ex : Bool) (tok : Option Tok) :
    (choiceNext items opt ex tok).Good False (fun fr => ∃ e, fr = .choice items opt e)
      (fun g => g.matchesO tok = true ∧ GL.mem g items) := by
  unfold choiceNext
  split
  · split <;> exact ⟨_, rfl⟩
  · split
    · rename_i p hp
      exact ⟨GL.firstMatch_some items tok p hp, _, rfl⟩
    · split <;> exact ⟨_, rfl⟩

theorem Frame.next_good (c : Bool) (fr : Frame) (tok : Option Tok) (h : fr.ok c) :
    (fr.next tok).Good False (fun fr' => fr'.ok c ∧ fr'.items = fr.items)
      (fun g => g.matchesO tok = true ∧ GL.mem g fr.items) := by
  cases fr with
  | seq items mn mx i round started =>
    simp only [Frame.ok] at h
    simp only [Frame.next]
    have h1 := (seqNext_good items mn mx tok items.length i round started h.2.1).no_spin
      (seqNext_no_spin items mn mx tok i round started h.2.1 h.2.2)
    refine h1.mono id ?_ (fun g hg => hg)
    rintro fr' ⟨i', r', s', rfl, hi'⟩
    exact ⟨⟨h.1, hi', h.2.2⟩, rfl⟩
  | choice items opt ex =>
    simp only [Frame.ok] at h
    simp only [Frame.next]
    refine (choiceNext_good items opt ex tok).mono id ?_ (fun g hg => hg)
    rintro fr' ⟨e, rfl⟩
    exact ⟨h, rfl⟩

/-! ### the first `nextProd` of an object that has just matched -/

def GL.drop : Nat → GL → GL
  | 0, l => l
  | _ + 1, .nil => .nil
  | n + 1, .cons _ tl => GL.drop n tl

theorem GL.drop_none : ∀ (items : GL) (i : Nat), items.get? i = none → GL.drop i items = .nil
  | .nil, 0, _ => rfl
  | .nil, _ + 1, _ => rfl
  | .cons g tl, 0, h => by simp [GL.get?] at h
  | .cons g tl, i + 1, h => by
    simp only [GL.get?] at h
    simp only [GL.drop]
    exact GL.drop_none tl i h

theorem GL.drop_some : ∀ (items : GL) (i : Nat) (p : G), items.get? i = some p →
    GL.drop i items = .cons p (GL.drop (i + 1) items)
  | .nil, _, _, h => by simp [GL.get?] at h
  | .cons g tl, 0, p, h => by
    simp only [GL.get?, Option.some.injEq] at h
    subst h
    simp [GL.drop]
  | .cons g tl, i + 1, p, h => by
    simp only [GL.get?] at h
    simp only [GL.drop]
    exact GL.drop_some tl i p h

theorem seqNext_found (items : GL) (mn : Nat) (mx : Option Nat) (t : Tok) :
    ∀ (k i round : Nat) (started : Bool), ltMax round mx = true → (GL.drop i items).seqMatches t = true →
      items.length ≤ i + k → ∃ p fr', seqNext items mn mx (some t) k i round started = .found p fr' := by
  intro k
  induction k with
  | zero =>
    intro i round started _ hm hk
    have : items.get? i = none := by
      cases hg : items.get? i with
      | none => rfl
      | some p =>
        have := GL.get?_lt items i p hg
        omega
    rw [GL.drop_none items i this] at hm
    simp [GL.seqMatches] at hm
  | succ k ih =>
    intro i round started hr hm hk
    rw [seqNext_succ]
    simp only [hr, if_true]
    cases hg : items.get? i with
    | none =>
      rw [GL.drop_none items i hg] at hm
      simp [GL.seqMatches] at hm
    | some p =>
      simp only []
      rw [GL.drop_some items i p hg] at hm
      simp only [GL.seqMatches, Bool.or_eq_true, Bool.and_eq_true] at hm
      by_cases hp : p.matches t = true
      · simp only [G.matchesO, hp, if_true]
        exact ⟨_, _, rfl⟩
      · have hm2 : p.optional = true ∧ (GL.drop (i + 1) items).seqMatches t = true := by
          rcases hm with hm | hm
          · exact absurd hm hp
          · exact hm
        simp only [G.matchesO, hp, hm2.1, if_true]
        have hlt : i + 1 < items.length := by
          cases hg' : items.get? (i + 1) with
          | none =>
            rw [GL.drop_none items (i + 1) hg'] at hm2
            simp [GL.seqMatches] at hm2
          | some q => exact GL.get?_lt items (i + 1) q hg'
        have hI : nextI items i = i + 1 := by
          unfold nextI
          have : (i + 1 == items.length) = false := by simp only [beq_eq_false_iff_ne]; omega
          simp only [this]
          rfl
        have hR : nextR items i round = round := by
          unfold nextR
          have : (i + 1 == items.length) = false := by simp only [beq_eq_false_iff_ne]; omega
          simp only [this]
          rfl
        rw [hI, hR]
        exact ih (i + 1) round _ hr hm2.2 (by omega)

theorem GL.firstMatch_of_choiceMatches : ∀ (items : GL) (t : Tok), items.choiceMatches t = true →
    ∃ p, items.firstMatch (some t) = some p
  | .nil, _, h => by simp [GL.choiceMatches] at h
  | .cons g tl, t, h => by
    simp only [GL.choiceMatches, Bool.or_eq_true] at h
    simp only [GL.firstMatch, G.matchesO]
    by_cases hg : g.matches t = true
    · simp only [hg, if_true]
      exact ⟨g, rfl⟩
    · simp only [hg]
      rcases h with h | h
      · exact absurd h hg
      · exact GL.firstMatch_of_choiceMatches tl t h

def G.isProd : G → Bool
  | .prod _ _ => true
  | _ => false

theorem fresh_next_found (g : G) (t : Tok) (hw : g.wf = true) (hm : g.matches t = true) (hp : g.isProd = false) :
    ∃ p fr', (fresh g).next (some t) = .found p fr' := by
  cases g with
  | prod f m => simp [G.isProd] at hp
  | seq items mn mx =>
    simp only [G.wf, Bool.and_eq_true, bne_iff_ne, ne_eq] at hw
    simp only [G.matches] at hm
    simp only [fresh, Frame.next]
    apply seqNext_found items mn mx t items.length 0 0 false
    · cases mx with
      | none => rfl
      | some m =>
        simp only [ltMax, decide_eq_true_eq]
        have : m ≠ 0 := fun h => hw.2 (by rw [h])
        omega
    · exact hm
    · omega
  | choice items opt =>
    simp only [G.matches] at hm
    obtain ⟨p, hp⟩ := GL.firstMatch_of_choiceMatches items t hm
    simp only [fresh, Frame.next, choiceNext, hp]
    exact ⟨_, _, rfl⟩

theorem fresh_items_size (g : G) : (fresh g).size = g.size := by
  cases g <;> simp [fresh, Frame.size, Frame.items, G.size, GL.size]

theorem GL.length_pos_of_not_nil : ∀ (items : GL), items.isNil = false → 0 < items.length
  | .nil, h => by simp [GL.isNil] at h
  | .cons _ _, _ => by simp [GL.length]

/-- the frame of a term that is entered: the root, or a term that has matched a token that is not a comment -/
theorem fresh_ok (c : Bool) (g : G) (ho : G.okG c g)
    (hr : g.rootOK = true ∨ ∃ t : Tok, t.kind ≠ .comment ∧ g.matches t = true) : (fresh g).ok c := by
  obtain ⟨hw, hn, hs⟩ := ho
  cases g with
  | prod f m => exact ⟨rfl, rfl, fun _ => rfl⟩
  | choice items opt =>
    simp only [G.wf, G.noSpin, G.noSAK] at hw hn hs
    exact ⟨hw, hn, hs⟩
  | seq items mn mx =>
    simp only [G.wf, G.noSpin, G.noSAK, Bool.and_eq_true, Bool.or_eq_true, Bool.not_eq_true'] at hw hn hs
    refine ⟨⟨hw.1.1, hn.1, hs⟩, GL.length_pos_of_not_nil items hw.1.2, ?_⟩
    intro hmx
    subst hmx
    rcases hr with hr | ⟨t, ht, hm⟩
    · exact hr
    · rcases hn.2 with (h | h) | h
      · simp at h
      · exact h
      · have := G.dead_matches t ht (.seq items mn none) (by simpa [G.dead] using h)
        rw [this] at hm
        cases hm

/-! ### the production stack -/

/-- every frame is in order and the sizes grow strictly from the top (`lo` bounds the top from below, `B` the
    bottom from above) -/
def Inv (c : Bool) (B : Nat) : Nat → List Frame → Prop
  | lo, [] => lo ≤ B + 1
  | lo, fr :: rest => fr.ok c ∧ lo ≤ fr.size ∧ Inv c B (fr.size + 1) rest

theorem Inv.mono (c : Bool) (B : Nat) : ∀ (stack : List Frame) (lo lo' : Nat), lo' ≤ lo → Inv c B lo stack →
    Inv c B lo' stack
  | [], lo, lo', hl, h => by
    simp only [Inv] at h ⊢
    omega
  | fr :: rest, lo, lo', hl, h => by
    simp only [Inv] at h ⊢
    exact ⟨h.1, by omega, h.2.2⟩

theorem Inv.length (c : Bool) (B : Nat) : ∀ (stack : List Frame) (lo : Nat), Inv c B lo stack →
    stack.length + lo ≤ B + 1
  | [], lo, h => by
    simp only [Inv] at h
    simp only [List.length_nil]
    omega
  | fr :: rest, lo, h => by
    simp only [Inv] at h
    have := Inv.length c B rest _ h.2.2
    simp only [List.length_cons]
    omega

theorem Inv.all_ok (c : Bool) (B : Nat) : ∀ (stack : List Frame) (lo : Nat), Inv c B lo stack →
    ∀ fr, fr ∈ stack → fr.ok c
  | [], _, _, fr, hm => by simp at hm
  | fr0 :: rest, lo, h, fr, hm => by
    simp only [Inv] at h
    simp only [List.mem_cons] at hm
    rcases hm with rfl | hm
    · exact h.1
    · exact Inv.all_ok c B rest _ h.2.2 fr hm

def DR.Good (c : Bool) (B : Nat) : DR → Prop
  | .prod f stack => Inv c B 1 stack ∧ stack ≠ [] ∧ (c = true → f.stopAndKeep = false)
  | .noMatch stack => Inv c B 1 stack
  | .parseErr _ stack => Inv c B 1 stack
  | .spin => False
  | .crash => False
  | .fuel => False

theorem Frame.size_eq_of_items {fr fr' : Frame} (h : fr'.items = fr.items) : fr'.size = fr.size := by
  simp only [Frame.size, h]

theorem Frame.size_pos (fr : Frame) : 1 ≤ fr.size := by
  simp only [Frame.size]
  omega

/-- descent into a term that has just matched goes straight down to a Prod -/
theorem descend_fresh (c : Bool) (t : Tok) (ht : t.kind ≠ .comment) :
    ∀ (n : Nat) (g : G) (rest : List Frame) (last : Option PF), G.okG c g → g.matches t = true →
      g.isProd = false → g.size ≤ n →
      ∃ f stack', descend t n (fresh g :: rest) last = .prod f stack' ∧ stack' ≠ [] ∧
        (c = true → f.stopAndKeep = false) ∧ ∀ B, Inv c B (g.size + 1) rest → Inv c B 1 stack' := by
  intro n
  induction n with
  | zero =>
    intro g rest last _ _ _ hn
    have := g.size_pos
    omega
  | succ n ih =>
    intro g rest last ho hm hp hn
    obtain ⟨p, fr', hnext⟩ := fresh_next_found g t ho.1 hm hp
    have hfo : (fresh g).ok c := fresh_ok c g ho (Or.inr ⟨t, ht, hm⟩)
    have hg := Frame.next_good c (fresh g) (some t) hfo
    rw [hnext] at hg
    simp only [NP.Good] at hg
    obtain ⟨⟨hpm, hmem⟩, hok', hitems⟩ := hg
    have hpo : G.okG c p := GL.mem_ok c _ p hmem (by
      cases g with
      | prod f m => simp [G.isProd] at hp
      | seq items mn mx => exact hfo.1
      | choice items opt => exact hfo)
    have hsz' : fr'.size = g.size := by
      rw [Frame.size_eq_of_items hitems, fresh_items_size]
    have hpsz : p.size + 1 ≤ g.size := by
      have := GL.mem_size _ p hmem
      rw [← fresh_items_size g]
      simp only [Frame.size]
      omega
    cases p with
    | prod f m =>
      simp only [descend, hnext]
      refine ⟨f, fr' :: rest, rfl, by simp, ?_, ?_⟩
      · intro hc
        have := hpo.2.2 hc
        simpa [G.noSAK] using this
      · intro B hI
        exact ⟨hok', fr'.size_pos, by rw [hsz']; exact hI⟩
    | seq items mn mx =>
      simp only [descend, hnext]
      obtain ⟨f, stack', h1, h2, h3, h4⟩ := ih (.seq items mn mx) (fr' :: rest) none hpo hpm rfl (by omega)
      refine ⟨f, stack', h1, h2, h3, ?_⟩
      intro B hI
      apply h4 B
      exact ⟨hok', by omega, by rw [hsz']; exact hI⟩
    | choice items opt =>
      simp only [descend, hnext]
      obtain ⟨f, stack', h1, h2, h3, h4⟩ := ih (.choice items opt) (fr' :: rest) none hpo hpm rfl (by omega)
      refine ⟨f, stack', h1, h2, h3, ?_⟩
      intro B hI
      apply h4 B
      exact ⟨hok', by omega, by rw [hsz']; exact hI⟩

/-- one descent over a stack in order ends in a Prod, `NoMatch` at the bottom or a `ParseError` -/
theorem descend_good (c : Bool) (B : Nat) (t : Tok) (ht : t.kind ≠ .comment) :
    ∀ (n : Nat) (stack : List Frame) (last : Option PF), Inv c B 1 stack → stack ≠ [] →
      stack.length + B + 1 ≤ n → (descend t n stack last).Good c B := by
  intro n
  induction n with
  | zero =>
    intro stack last _ _ hn
    omega
  | succ n ih =>
    intro stack last hI hne hn
    cases stack with
    | nil => exact absurd rfl hne
    | cons fr rest =>
      have hI' := hI
      simp only [Inv] at hI'
      obtain ⟨hok, _, hrest⟩ := hI'
      have hlen := Inv.length c B _ _ hI
      simp only [List.length_cons] at hlen hn
      have hg := Frame.next_good c fr (some t) hok
      have hrest1 : Inv c B 1 rest := Inv.mono c B rest _ 1 (by omega) hrest
      have hpop : ∀ (rest' : List Frame) (fr' : Frame), rest = rest' → fr'.ok c ∧ fr'.items = fr.items →
          DR.Good c B (match rest' with
            | [] => DR.noMatch [fr']
            | _ :: _ => descend t n rest' none) := by
        intro rest' fr' he hq
        subst he
        have hsz := Frame.size_eq_of_items hq.2
        cases rest with
        | nil =>
          simp only [Inv] at hrest
          exact ⟨hq.1, fr'.size_pos, by simp only [Inv]; omega⟩
        | cons fr2 rest2 =>
          exact ih _ none hrest1 (by simp) (by simp only [List.length_cons] at hn ⊢; omega)
      cases hnext : fr.next (some t) with
      | found p fr' =>
        rw [hnext] at hg
        simp only [NP.Good] at hg
        obtain ⟨⟨hpm, hmem⟩, hok', hitems⟩ := hg
        have hsz' := Frame.size_eq_of_items hitems
        have hpo : G.okG c p := GL.mem_ok c _ p hmem (by
          cases fr with
          | seq items mn mx i round started => exact hok.1
          | choice items opt ex => exact hok)
        have hpsz : p.size + 1 ≤ fr.size := by
          have := GL.mem_size _ p hmem
          simp only [Frame.size]
          omega
        have hlen2 := Inv.length c B _ _ hrest
        have hfB : fr.size ≤ B := by omega
        cases p with
        | prod f m =>
          simp only [descend, hnext]
          refine ⟨⟨hok', fr'.size_pos, by rw [hsz']; exact hrest⟩, by simp, ?_⟩
          intro hc
          have := hpo.2.2 hc
          simpa [G.noSAK] using this
        | seq items mn mx =>
          simp only [descend, hnext]
          obtain ⟨f, stack', h1, h2, h3, h4⟩ :=
            descend_fresh c t ht n (.seq items mn mx) (fr' :: rest) none hpo hpm rfl (by omega)
          rw [h1]
          exact ⟨h4 B ⟨hok', by omega, by rw [hsz']; exact hrest⟩, h2, h3⟩
        | choice items opt =>
          simp only [descend, hnext]
          obtain ⟨f, stack', h1, h2, h3, h4⟩ :=
            descend_fresh c t ht n (.choice items opt) (fr' :: rest) none hpo hpm rfl (by omega)
          rw [h1]
          exact ⟨h4 B ⟨hok', by omega, by rw [hsz']; exact hrest⟩, h2, h3⟩
      | none_ fr' =>
        rw [hnext] at hg
        simp only [descend, hnext]
        exact hpop rest fr' rfl hg
      | exhausted fr' =>
        rw [hnext] at hg
        simp only [descend, hnext]
        exact hpop rest fr' rfl hg
      | noMatch fr' =>
        rw [hnext] at hg
        simp only [descend, hnext]
        exact hpop rest fr' rfl hg
      | missing fr' =>
        rw [hnext] at hg
        simp only [NP.Good] at hg
        simp only [descend, hnext]
        exact ⟨hg.1, fr'.size_pos, by rw [Frame.size_eq_of_items hg.2]; exact hrest⟩
      | done fr' =>
        rw [hnext] at hg
        simp only [NP.Good] at hg
        simp only [descend, hnext]
        exact ⟨hg.1, fr'.size_pos, by rw [Frame.size_eq_of_items hg.2]; exact hrest⟩
      | spin =>
        rw [hnext] at hg
        exact absurd hg (by simp [NP.Good])
      | crash =>
        rw [hnext] at hg
        exact absurd hg (by simp [NP.Good])

/-! ### the end of input -/

theorem endLoop_ok (c : Bool) (last : Option PF) : ∀ (stack : List Frame) (wf : Bool) (errs : List Err),
    (∀ fr, fr ∈ stack → fr.ok c) → (endLoop last stack wf errs).2.2 = .ok
  | [], _, _, _ => rfl
  | fr :: rest, wf, errs, h => by
    have hg := Frame.next_good c fr none (h fr (by simp))
    have hr : ∀ fr', fr' ∈ rest → fr'.ok c := fun fr' hm => h fr' (by simp [hm])
    cases hnext : fr.next none <;> rw [hnext] at hg <;> simp only [endLoop, hnext, NP.Good] at hg ⊢
    all_goals try exact endLoop_ok c last rest _ _ hr
    cases last with
    | none => exact endLoop_ok c none rest _ _ hr
    | some f =>
      simp only []
      split <;> exact endLoop_ok c _ rest _ _ hr

def Res.Ok (r : Res) (m : Nat) : Prop :=
  r.status = .ok ∧ r.rest.length + r.saved.length + r.pushed.length ≤ m

theorem finish_ok (c : Bool) (cfg : Cfg) (st : LS) (toks : List Tok) (m : Nat)
    (h : ∀ fr, fr ∈ st.stack → fr.ok c) (hm : toks.length + st.saved.length + st.pushed.length ≤ m) :
    (finish cfg st toks).Ok m := by
  have h1 : (if st.stopall then (st.wf, st.errs, Status.ok) else endLoop st.last st.stack st.wf st.errs).2.2 = .ok := by
    split
    · rfl
    · exact endLoop_ok c _ _ _ _ h
  unfold finish
  generalize (if st.stopall then (st.wf, st.errs, Status.ok) else endLoop st.last st.stack st.wf st.errs) = x at h1
  obtain ⟨wf, errs, status⟩ := x
  simp only at h1
  subst h1
  have hb : (Status.ok != Status.ok) = false := rfl
  simp only [hb, Bool.false_eq_true, if_false]
  split
  · exact ⟨rfl, hm⟩
  · split
    · exact ⟨rfl, by simp only [List.length_nil]; omega⟩
    · exact ⟨rfl, hm⟩

/-! ### reading a token -/

def pend : Option Filt → Nat
  | none => 0
  | some f => f.pending.length

/-- what is still to be read -/
def mu (st : LS) (toks : List Tok) : Nat := toks.length + st.saved.length + st.pushed.length + pend st.filt

theorem dropWhile_length_le (p : Tok → Bool) : ∀ l : List Tok, (l.dropWhile p).length ≤ l.length
  | [] => by simp
  | a :: l => by
    simp only [List.dropWhile]
    split
    · have := dropWhile_length_le p l
      simp only [List.length_cons]
      omega
    · simp

theorem sorNext_measure (f : Filt) (toks : List Tok) (t : Tok) (f' : Filt) (r : List Tok)
    (h : sorNext f toks = some (t, f', r)) : r.length + f'.pending.length + 1 ≤ toks.length + f.pending.length := by
  unfold sorNext at h
  split at h
  · rename_i p ps hp
    simp only [Option.some.injEq, Prod.mk.injEq] at h
    obtain ⟨rfl, rfl, rfl⟩ := h
    simp only [hp, List.length_cons]
    omega
  · rename_i hp
    split at h
    · cases h
    · rename_i t0 r0
      split at h
      · simp only [Option.some.injEq, Prod.mk.injEq] at h
        obtain ⟨rfl, rfl, rfl⟩ := h
        simp only [List.length_cons]
        omega
      · split at h
        · have hd := dropWhile_length_le isS r0
          split at h
          · simp only [Option.some.injEq, Prod.mk.injEq] at h
            obtain ⟨rfl, rfl, rfl⟩ := h
            simp only [List.length_cons, List.length_nil]
            omega
          · rename_i n r' hdw
            rw [hdw] at hd
            simp only [List.length_cons] at hd
            split at h
            · simp only [Option.some.injEq, Prod.mk.injEq] at h
              obtain ⟨rfl, rfl, rfl⟩ := h
              simp only [List.length_cons]
              omega
            · split at h
              · simp only [Option.some.injEq, Prod.mk.injEq] at h
                obtain ⟨rfl, rfl, rfl⟩ := h
                simp only [List.length_cons]
                omega
              · simp only [Option.some.injEq, Prod.mk.injEq] at h
                obtain ⟨rfl, rfl, rfl⟩ := h
                simp only [List.length_cons, List.length_nil]
                omega
        · split at h
          · simp only [Option.some.injEq, Prod.mk.injEq] at h
            obtain ⟨rfl, rfl, rfl⟩ := h
            simp only [List.length_cons]
            omega
          · simp only [Option.some.injEq, Prod.mk.injEq] at h
            obtain ⟨rfl, rfl, rfl⟩ := h
            simp only [List.length_cons]
            omega

theorem readTok_some (cfg : Cfg) (st : LS) (toks : List Tok) (t : Tok) (st' : LS) (toks' : List Tok)
    (h : readTok cfg st toks = some (t, st', toks')) :
    st'.stack = st.stack ∧ st'.simm = st.simm ∧ mu st' toks' + 1 ≤ mu st toks := by
  unfold readTok at h
  split at h
  · rename_i t0 sv hs
    simp only [Option.some.injEq, Prod.mk.injEq] at h
    obtain ⟨rfl, rfl, rfl⟩ := h
    refine ⟨rfl, rfl, ?_⟩
    simp only [mu, hs, List.length_cons]
    omega
  · rename_i hs
    have hx : (if (cfg.global && !toks.isEmpty) = true then (st.pushed ++ toks, ([] : List Tok))
        else (toks, st.pushed)).1.length +
        (if (cfg.global && !toks.isEmpty) = true then (st.pushed ++ toks, ([] : List Tok))
        else (toks, st.pushed)).2.length = toks.length + st.pushed.length := by
      split
      · simp only [List.length_append, List.length_nil]
        omega
      · rfl
    generalize (if (cfg.global && !toks.isEmpty) = true then (st.pushed ++ toks, ([] : List Tok))
        else (toks, st.pushed)) = x at h hx
    obtain ⟨tk, pu⟩ := x
    simp only at h hx
    split at h
    · rename_i hf
      split at h
      · cases h
      · rename_i t1 r1
        simp only [Option.some.injEq, Prod.mk.injEq] at h
        obtain ⟨rfl, rfl, rfl⟩ := h
        refine ⟨rfl, rfl, ?_⟩
        simp only [mu, hs, hf, pend, List.length_cons, List.length_nil] at hx ⊢
        omega
    · rename_i f hf
      split at h
      · cases h
      · rename_i t1 f1 r1 hsn
        simp only [Option.some.injEq, Prod.mk.injEq] at h
        obtain ⟨rfl, rfl, rfl⟩ := h
        refine ⟨rfl, rfl, ?_⟩
        have := sorNext_measure f tk _ _ _ hsn
        simp only [mu, hs, hf, pend, List.length_nil] at hx ⊢
        omega

/-! ### the token loop, cut into its branches -/

/-- the effect of a matched Prod on the sequence: the new state, the token source, the status of a nested parse -/
def prodStep (hook : Hook) (st : LS) (f : PF) (t : Tok) (toks : List Tok) : LS × List Tok × Status :=
  if f.stopAndKeep then (st, toks, Status.ok) else
    match f.toSeq with
    | .drop => (st, toks, Status.ok)
    | .keep => ({ st with items := .tok f.name t :: st.items }, toks, Status.ok)
    | .nested k =>
      let r := hook k t toks st.saved st.pushed
      ({ st with items := r.item :: st.items, saved := r.saved, pushed := r.pushed,
                 errs := r.errs.reverse ++ st.errs }, r.toks, r.status)

def prodCont (hook : Hook) (cfg : Cfg) (n : Nat) (f : PF) (t : Tok) (x : LS × List Tok × Status) : Res :=
  match x with
  | (st, toks, hs) =>
    if hs != .ok then failRes st toks hs
    else if f.stop then finish cfg st toks
    else if f.stopAndKeep then finish cfg { st with pushed := t :: st.pushed, stopall := true } toks
    else if f.nextSor then
      let filt : Filt := match st.filt with
        | some fl => { fl with active := true }
        | none => { active := true, pending := [] }
      loop hook cfg n { st with filt := some filt, defaultS := false } toks
    else loop hook cfg n { st with defaultS := true } toks

def descStep (hook : Hook) (cfg : Cfg) (n : Nat) (st : LS) (t : Tok) (toks : List Tok) : Res :=
  match descend t cfg.dfuel st.stack st.last with
  | .noMatch stack =>
    if st.simm then finish cfg { st with stack := stack, saved := t :: st.saved, stopall := true, last := none } toks
    else finish cfg { st with stack := stack, wf := false, errs := .noMatch :: st.errs, last := none } toks
  | .parseErr last stack =>
    if st.simm then finish cfg { st with stack := stack, pushed := t :: st.pushed, stopall := true, last := last } toks
    else finish cfg { st with stack := stack, wf := false, errs := .parseErr :: st.errs, last := last } toks
  | .spin => failRes st toks .spin
  | .crash => failRes st toks .crash
  | .fuel => failRes st toks .fuel
  | .prod f stack =>
    prodCont hook cfg n f t
      (prodStep hook { st with stack := stack, last := some f, simm := f.simm || st.simm } f t toks)

def tokStep (hook : Hook) (cfg : Cfg) (n : Nat) (t : Tok) (st : LS) (toks : List Tok) : Res :=
  if t.kind == .comment then loop hook cfg n { st with items := .comment :: st.items } toks
  else if st.defaultS && t.kind == .s && !cfg.checkS then
    if !cfg.keepS || !st.started then loop hook cfg n st toks
    else loop hook cfg n { st with items := .s :: st.items } toks
  else if t.kind == .invalid then finish cfg { st with wf := false, errs := .invalid :: st.errs } toks
  else if t.kind == .eof then loop hook cfg n { st with stopall := true } toks
  else descStep hook cfg n { st with started := true } t toks

theorem loop_succ (hook : Hook) (cfg : Cfg) (n : Nat) (st : LS) (toks : List Tok) :
    loop hook cfg (n + 1) st toks =
      match readTok cfg st toks with
      | none => finish cfg st toks
      | some (t, st, toks) => tokStep hook cfg n t st toks := rfl

theorem Res.Ok.mono {r : Res} {a b : Nat} (h : r.Ok a) (hab : a ≤ b) : r.Ok b :=
  ⟨h.1, Nat.le_trans h.2 hab⟩

/-- the statement of the loop for the fuel `n` -/
def LoopIH (hook : Hook) (cfg : Cfg) (c : Bool) (B n : Nat) : Prop :=
  ∀ (st : LS) (toks : List Tok), Inv c B 1 st.stack → st.stack ≠ [] → mu st toks + 1 ≤ n →
    (loop hook cfg n st toks).Ok (mu st toks)

theorem prodStep_spec (hook : Hook) (hh : HookOK hook) (st : LS) (f : PF) (t : Tok) (toks : List Tok) :
    (prodStep hook st f t toks).2.2 = .ok ∧ (prodStep hook st f t toks).1.stack = st.stack ∧
    (prodStep hook st f t toks).1.filt = st.filt ∧
    (prodStep hook st f t toks).2.1.length + (prodStep hook st f t toks).1.saved.length +
      (prodStep hook st f t toks).1.pushed.length ≤ toks.length + st.saved.length + st.pushed.length := by
  unfold prodStep
  split
  · exact ⟨rfl, rfl, rfl, Nat.le_refl _⟩
  · split
    · exact ⟨rfl, rfl, rfl, Nat.le_refl _⟩
    · exact ⟨rfl, rfl, rfl, Nat.le_refl _⟩
    · rename_i k _
      exact ⟨hh.status k t toks st.saved st.pushed, rfl, rfl, hh.measure k t toks st.saved st.pushed⟩

theorem prodCont_ok (hook : Hook) (cfg : Cfg) (c : Bool) (B n : Nat) (ih : LoopIH hook cfg c B n) (f : PF) (t : Tok)
    (x : LS × List Tok × Status) (m : Nat) (hs : x.2.2 = .ok) (hI : Inv c B 1 x.1.stack) (hne : x.1.stack ≠ [])
    (hn : mu x.1 x.2.1 + 1 ≤ n) (hm : mu x.1 x.2.1 + (if f.stopAndKeep = true then 1 else 0) ≤ m) :
    (prodCont hook cfg n f t x).Ok m := by
  obtain ⟨st, toks, s⟩ := x
  simp only at hs hI hne hn hm
  subst hs
  have hb : (Status.ok != Status.ok) = false := rfl
  simp only [prodCont, hb, Bool.false_eq_true, if_false]
  have hall := Inv.all_ok c B _ _ hI
  split
  · apply finish_ok c cfg st toks m hall
    simp only [mu] at hm
    omega
  · split
    · rename_i hk
      simp only [hk, if_true] at hm
      refine finish_ok c cfg _ toks m (by exact hall) ?_
      simp only [mu, List.length_cons] at hm ⊢
      omega
    · rename_i hk
      simp only [hk, Bool.false_eq_true, if_false] at hm
      split
      · refine Res.Ok.mono (ih _ toks (by exact hI) (by exact hne) ?_) ?_
        · cases hf : st.filt <;> simp only [mu, pend, hf, List.length_nil] at hn ⊢ <;> omega
        · cases hf : st.filt <;> simp only [mu, pend, hf, List.length_nil] at hm ⊢ <;> omega
      · exact Res.Ok.mono (ih _ toks (by exact hI) (by exact hne) (by exact hn)) (by simpa [mu] using hm)

theorem descStep_ok (hook : Hook) (cfg : Cfg) (c : Bool) (B n : Nat) (hh : HookOK hook)
    (hd : 2 * B + 2 ≤ cfg.dfuel) (ih : LoopIH hook cfg c B n) (st : LS) (t : Tok) (toks : List Tok)
    (ht : t.kind ≠ .comment) (hI : Inv c B 1 st.stack) (hne : st.stack ≠ []) (hn : mu st toks + 1 ≤ n) (m : Nat)
    (hm : mu st toks + (if (st.simm || !c) = true then 1 else 0) ≤ m) :
    (descStep hook cfg n st t toks).Ok m := by
  have hlen := Inv.length c B _ _ hI
  have hg := descend_good c B t ht cfg.dfuel st.stack st.last hI hne (by omega)
  unfold descStep
  cases hdesc : descend t cfg.dfuel st.stack st.last with
  | spin => rw [hdesc] at hg; exact absurd hg (by simp [DR.Good])
  | crash => rw [hdesc] at hg; exact absurd hg (by simp [DR.Good])
  | fuel => rw [hdesc] at hg; exact absurd hg (by simp [DR.Good])
  | noMatch stack =>
    rw [hdesc] at hg
    simp only [DR.Good] at hg
    have hall := Inv.all_ok c B _ _ hg
    simp only []
    split
    · rename_i hk
      simp only [hk, Bool.true_or, if_true] at hm
      refine finish_ok c cfg _ toks m (by exact hall) ?_
      simp only [mu, List.length_cons] at hm ⊢
      omega
    · refine finish_ok c cfg _ toks m (by exact hall) ?_
      simp only [mu] at hm ⊢
      omega
  | parseErr last stack =>
    rw [hdesc] at hg
    simp only [DR.Good] at hg
    have hall := Inv.all_ok c B _ _ hg
    simp only []
    split
    · rename_i hk
      simp only [hk, Bool.true_or, if_true] at hm
      refine finish_ok c cfg _ toks m (by exact hall) ?_
      simp only [mu, List.length_cons] at hm ⊢
      omega
    · refine finish_ok c cfg _ toks m (by exact hall) ?_
      simp only [mu] at hm ⊢
      omega
  | prod f stack =>
    rw [hdesc] at hg
    simp only [DR.Good] at hg
    obtain ⟨hI', hne', hsak⟩ := hg
    simp only []
    have hp := prodStep_spec hook hh { st with stack := stack, last := some f, simm := f.simm || st.simm } f t toks
    obtain ⟨hp1, hp2, hp3, hp4⟩ := hp
    have hmu : mu (prodStep hook { st with stack := stack, last := some f, simm := f.simm || st.simm } f t toks).1
        (prodStep hook { st with stack := stack, last := some f, simm := f.simm || st.simm } f t toks).2.1 ≤
        mu st toks := by
      simp only [mu, hp3] at hp4 ⊢
      omega
    apply prodCont_ok hook cfg c B n ih f t _ m hp1
    · rw [hp2]; exact hI'
    · rw [hp2]; exact hne'
    · omega
    · cases c with
      | true =>
        simp only [hsak rfl, Bool.false_eq_true, if_false]
        omega
      | false =>
        simp only [Bool.not_false, Bool.or_true, if_true] at hm
        split <;> omega

theorem tokStep_ok (hook : Hook) (cfg : Cfg) (c : Bool) (B n : Nat) (hh : HookOK hook)
    (hd : 2 * B + 2 ≤ cfg.dfuel) (ih : LoopIH hook cfg c B n) (t : Tok) (st : LS) (toks : List Tok)
    (hI : Inv c B 1 st.stack) (hne : st.stack ≠ []) (hn : mu st toks + 1 ≤ n) (m : Nat)
    (hm : mu st toks + (if (st.simm || !c) = true then 1 else 0) ≤ m) :
    (tokStep hook cfg n t st toks).Ok m := by
  have hm0 : mu st toks ≤ m := by omega
  unfold tokStep
  split
  · exact Res.Ok.mono (ih _ toks (by exact hI) (by exact hne) (by exact hn)) hm0
  · rename_i hcm
    split
    · split
      · exact Res.Ok.mono (ih _ toks (by exact hI) (by exact hne) (by exact hn)) hm0
      · exact Res.Ok.mono (ih _ toks (by exact hI) (by exact hne) (by exact hn)) hm0
    · split
      · refine finish_ok c cfg _ toks m (by exact Inv.all_ok c B _ _ hI) ?_
        simp only [mu] at hm0 ⊢
        omega
      · split
        · exact Res.Ok.mono (ih _ toks (by exact hI) (by exact hne) (by exact hn)) hm0
        · exact descStep_ok hook cfg c B n hh hd ih _ t toks (by simpa using hcm) (by exact hI) (by exact hne)
            (by exact hn) m (by exact hm)

theorem loop_ok (hook : Hook) (cfg : Cfg) (c : Bool) (B : Nat) (hh : HookOK hook) (hd : 2 * B + 2 ≤ cfg.dfuel) :
    ∀ n, LoopIH hook cfg c B n := by
  intro n
  induction n with
  | zero =>
    intro st toks _ _ hn
    omega
  | succ n ih =>
    intro st toks hI hne hn
    rw [loop_succ]
    cases hr : readTok cfg st toks with
    | none =>
      simp only []
      apply finish_ok c cfg st toks _ (Inv.all_ok c B _ _ hI)
      simp only [mu]
      omega
    | some x =>
      obtain ⟨t, st', toks'⟩ := x
      simp only []
      obtain ⟨h1, h2, h3⟩ := readTok_some cfg st toks t st' toks' hr
      apply tokStep_ok hook cfg c B n hh hd ih t st' toks' (by rw [h1]; exact hI) (by rw [h1]; exact hne) (by omega)
      split <;> omega

/-- the first turn of the loop consumes a token for good when nothing can push it back -/
theorem loop_strict (hook : Hook) (cfg : Cfg) (B : Nat) (hh : HookOK hook) (hd : 2 * B + 2 ≤ cfg.dfuel)
    (n : Nat) (st : LS) (toks : List Tok) (hI : Inv true B 1 st.stack) (hne : st.stack ≠ [])
    (hn : mu st toks ≤ n) (hs : st.simm = false) (hr : readTok cfg st toks ≠ none) :
    (loop hook cfg (n + 1) st toks).Ok (mu st toks - 1) := by
  rw [loop_succ]
  cases hr' : readTok cfg st toks with
  | none => exact absurd hr' hr
  | some x =>
    obtain ⟨t, st', toks'⟩ := x
    simp only []
    obtain ⟨h1, h2, h3⟩ := readTok_some cfg st toks t st' toks' hr'
    apply tokStep_ok hook cfg true B n hh hd (loop_ok hook cfg true B hh hd n) t st' toks'
      (by rw [h1]; exact hI) (by rw [h1]; exact hne) (by omega)
    simp only [h2, hs, Bool.not_true, Bool.or_false, Bool.false_eq_true, if_false]
    omega

/-! ### `parse` -/

theorem root_inv (c : Bool) (g : G) (ho : G.okG c g) (hr : g.rootOK = true) : Inv c g.size 1 [fresh g] := by
  refine ⟨fresh_ok c g ho (Or.inl hr), (fresh g).size_pos, ?_⟩
  simp only [Inv, fresh_items_size]
  omega

theorem parse_ok (c : Bool) (hook : Hook) (cfg : Cfg) (g : G) (toks saved : List Tok) (ho : G.okG c g)
    (hr : g.rootOK = true) (hh : HookOK hook) : (parse hook cfg g toks saved).Ok (toks.length + saved.length) := by
  have h := loop_ok hook { cfg with dfuel := dfuelOf g } c g.size hh (by simp only [dfuelOf]; omega)
    (loopFuel toks saved []) { stack := [fresh g], saved := saved } toks (root_inv c g ho hr) (by simp)
    (by simp only [mu, loopFuel, pend, List.length_nil]; omega)
  exact h.mono (by simp only [mu, pend, List.length_nil]; omega)

/-- 1. the fuel is enough, no `spin`, no `crash` -/
theorem parse_total (hook : Hook) (cfg : Cfg) (g : G) (toks saved : List Tok) (hwf : g.wf = true)
    (hns : g.noSpin = true) (hr : g.rootOK = true) (hh : HookOK hook) :
    (parse hook cfg g toks saved).status = .ok :=
  (parse_ok false hook cfg g toks saved ⟨hwf, hns, fun h => by cases h⟩ hr hh).1

/-- 2. a parse never leaves more to read than it was given -/
theorem parse_measure (hook : Hook) (cfg : Cfg) (g : G) (toks saved : List Tok) (hwf : g.wf = true)
    (hns : g.noSpin = true) (hr : g.rootOK = true) (hh : HookOK hook) :
    let r := parse hook cfg g toks saved
    r.rest.length + r.saved.length + r.pushed.length ≤ toks.length + saved.length :=
  (parse_ok false hook cfg g toks saved ⟨hwf, hns, fun h => by cases h⟩ hr hh).2

theorem readTok_init (cfg : Cfg) (stack : List Frame) (toks saved : List Tok) (h : toks ≠ [] ∨ saved ≠ []) :
    readTok cfg { stack := stack, saved := saved } toks ≠ none := by
  unfold readTok
  cases saved with
  | cons t sv => simp
  | nil =>
    cases toks with
    | nil => simp at h
    | cons t r =>
      simp

/-- 3. a parse that has something to read consumes at least one token for good -/
theorem parse_progress (hook : Hook) (cfg : Cfg) (g : G) (toks saved : List Tok) (hwf : g.wf = true)
    (hns : g.noSpin = true) (hr : g.rootOK = true) (hh : HookOK hook) (hsak : g.noSAK = true)
    (hne : toks ≠ [] ∨ saved ≠ []) :
    let r := parse hook cfg g toks saved
    r.rest.length + r.saved.length + r.pushed.length + 1 ≤ toks.length + saved.length := by
  have h := loop_strict hook { cfg with dfuel := dfuelOf g } g.size hh (by simp only [dfuelOf]; omega)
    (toks.length + saved.length + ([] : List Tok).length) { stack := [fresh g], saved := saved } toks
    (root_inv true g ⟨hwf, hns, fun _ => hsak⟩ hr) (by simp)
    (by simp only [mu, pend, List.length_nil]; omega) rfl (readTok_init _ _ toks saved hne)
  have hpos : 0 < toks.length + saved.length := by
    rcases hne with h | h
    · have := List.length_pos_iff.mpr h
      omega
    · have := List.length_pos_iff.mpr h
      omega
  have h2 : (parse hook cfg g toks saved).rest.length + (parse hook cfg g toks saved).saved.length +
      (parse hook cfg g toks saved).pushed.length ≤ toks.length + saved.length + 0 + 0 - 1 := h.2
  show (parse hook cfg g toks saved).rest.length + _ + _ + 1 ≤ _
  omega

/-! ### the hooks and grammars of the model -/

theorem noHook_ok : HookOK noHook :=
  ⟨fun _ _ _ _ _ => rfl, fun _ _ _ _ _ => Nat.le_refl _⟩

theorem valueHook_ok : HookOK MQ.valueHook :=
  ⟨fun _ _ _ _ _ => rfl, fun _ _ toks saved pushed => by simp only [MQ.valueHook, List.length_nil]; omega⟩

theorem grammar_wf (p : Bool) (colors : List Text) : (MQ.grammar p colors).wf = true := rfl
theorem grammar_noSpin (p : Bool) (colors : List Text) : (MQ.grammar p colors).noSpin = true := rfl
theorem grammar_rootOK (p : Bool) (colors : List Text) : (MQ.grammar p colors).rootOK = true := rfl
theorem grammar_noSAK (p : Bool) (colors : List Text) : (MQ.grammar p colors).noSAK = true := rfl

theorem listHook_ok (colors : List Text) (global : Bool) : HookOK (MQ.listHook colors global) := by
  constructor
  · intro k t toks saved pushed
    exact parse_total MQ.valueHook _ _ _ _ (grammar_wf _ _) (grammar_noSpin _ _) (grammar_rootOK _ _) valueHook_ok
  · intro k t toks saved pushed
    have := parse_progress MQ.valueHook { toplevel := false, global := global } (MQ.grammar true colors) (t :: toks)
      saved (grammar_wf _ _) (grammar_noSpin _ _) (grammar_rootOK _ _) valueHook_ok (grammar_noSAK _ _)
      (Or.inl (by simp))
    simp only [List.length_cons] at this
    simp only [MQ.listHook]
    omega

theorem listGrammar_wf : MQ.listGrammar.wf = true := rfl
theorem listGrammar_noSpin : MQ.listGrammar.noSpin = true := rfl
theorem listGrammar_rootOK : MQ.listGrammar.rootOK = true := rfl

theorem mediaQuery_total (colors : List Text) (toks : List Tok) : (MQ.mediaQuery colors toks).status = .ok :=
  parse_total MQ.valueHook _ _ _ _ (grammar_wf _ _) (grammar_noSpin _ _) (grammar_rootOK _ _) valueHook_ok

theorem mediaList_total (colors : List Text) (global : Bool) (toks : List Tok) :
    (MQ.mediaList colors global toks).2.status = .ok :=
  parse_total (MQ.listHook colors global) _ _ _ _ listGrammar_wf listGrammar_noSpin listGrammar_rootOK
    (listHook_ok colors global)

theorem s1_total (cfg : Cfg) (toks saved : List Tok) : (parse noHook cfg Synth.s1 toks saved).status = .ok :=
  parse_total noHook cfg _ toks saved rfl rfl rfl noHook_ok

theorem s2_total (cfg : Cfg) (toks saved : List Tok) : (parse noHook cfg Synth.s2 toks saved).status = .ok :=
  parse_total noHook cfg _ toks saved rfl rfl rfl noHook_ok

theorem s3_total (cfg : Cfg) (toks saved : List Tok) : (parse noHook cfg Synth.s3 toks saved).status = .ok :=
  parse_total noHook cfg _ toks saved rfl rfl rfl noHook_ok

/-- the hazard is real: `s4` (every item optional, no upper bound) fails `noSpin`, and the engine spins on it -/
example : Synth.s4.noSpin = false := rfl
example : (parse noHook {} Synth.s4 [⟨.ident, [98], [98]⟩] []).status = .spin := by decide

/-- `rootOK` is needed: a dead unbounded all-optional root passes `wf` and `noSpin` and spins at the end of input -/
example : (G.seq (.cons (.prod { optional := true } (.kind .comment)) .nil) 0 none).wf = true ∧
    (G.seq (.cons (.prod { optional := true } (.kind .comment)) .nil) 0 none).noSpin = true ∧
    (parse noHook {} (.seq (.cons (.prod { optional := true } (.kind .comment)) .nil) 0 none) [] []).status = .spin := by
  decide

/-- `noSAK` is needed for `parse_progress`: `stopAndKeep` pushes the one token back -/
example : (parse noHook {} (.seq (.cons (.prod { stopAndKeep := true } .any) .nil) 1 (some 1))
    [⟨.ident, [98], [98]⟩] []).pushed.length = 1 := by
  decide

end CssVerif.PP
