import CssVerif.Proofs.Resolve
/-!
`resolveImports`, second part: how the flat sheet is arranged — [one comment] @imports, @namespaces
without clashes, everything else (`NF`, `resolve_NF`) — and that adding the rules of an arranged sheet
one by one rebuilds it (`addAll_rebuild`), which gives idempotence.
-/
namespace CssVerif.Resolve

theorem insertAt_append (a b : Sheet) (r : Rule) : insertAt (a ++ b) a.length r = a ++ r :: b := by
  simp [insertAt]

theorem afterLast_none_of (p : Rule → Bool) : ∀ (s : Sheet), (∀ y ∈ s, p y = false) → afterLast p s = none
  | [], _ => rfl
  | x :: xs, h => by
    unfold afterLast
    rw [afterLast_none_of p xs (fun y hy => h y (by simp [hy])), h x (by simp)]
    simp

theorem afterLast_eq (p : Rule → Bool) (x : Rule) (b : Sheet) (hb : ∀ y ∈ b, p y = false) (hx : p x = true) :
    ∀ (a : Sheet), afterLast p (a ++ x :: b) = some (a.length + 1)
  | [] => by
    simp only [List.nil_append, afterLast, afterLast_none_of p b hb, hx, if_true, List.length_nil]
  | a0 :: a => by
    simp only [List.cons_append, afterLast, afterLast_eq p x b hb hx a, List.length_cons]

theorem firstFrom_none (p : Rule → Bool) (start : Nat) : ∀ (s : Sheet) (i : Nat), i + s.length ≤ start →
    firstFrom p start s i = none
  | [], _, _ => rfl
  | x :: xs, i, h => by
    unfold firstFrom
    have : ¬ (i ≥ start) := by simp at h ⊢; omega
    simp only [this, decide_false, Bool.false_and, Bool.false_eq_true, if_false]
    exact firstFrom_none p start xs (i + 1) (by simp at h ⊢; omega)

theorem firstFrom_hit (p : Rule → Bool) (x : Rule) (b : Sheet) (hx : p x = true) :
    ∀ (a : Sheet) (i : Nat), firstFrom p (i + a.length) (a ++ x :: b) i = some (i + a.length)
  | [], i => by simp [firstFrom, hx]
  | a0 :: a, i => by
    unfold firstFrom
    have : ¬ (i ≥ i + (a0 :: a).length) := by simp
    simp only [List.cons_append, this, decide_false, Bool.false_and, Bool.false_eq_true, if_false]
    have := firstFrom_hit p x b hx a (i + 1)
    simp only [List.length_cons] at this ⊢
    rw [show i + (a.length + 1) = i + 1 + a.length by omega]
    exact this

/-! ### the view of namespace pairs without clashes -/

def compat (a b : Nat × Nat) : Bool := a.1 != b.1 && a.2 != b.2
def Inj (l : List (Nat × Nat)) : Prop := l.Pairwise (fun a b => compat a b = true)

theorem compat_symm (a b : Nat × Nat) : compat a b = compat b a := by
  unfold compat
  rw [bne_comm, @bne_comm _ _ _ a.2]

def viewStep (d : List (Nat × Nat)) (pu : Nat × Nat) : List (Nat × Nat) :=
  if d.any (·.2 = pu.2) || d.any (·.1 = pu.1) then d else d ++ [pu]

theorem viewOf_eq (l : List (Nat × Nat)) : viewOf l = l.reverse.foldl viewStep [] := rfl

theorem viewStep_compat (d : List (Nat × Nat)) (pu : Nat × Nat) (h : ∀ y ∈ d, compat y pu = true) :
    viewStep d pu = d ++ [pu] := by
  unfold viewStep
  have : (d.any (·.2 = pu.2) || d.any (·.1 = pu.1)) = false := by
    rw [Bool.or_eq_false_iff]
    constructor <;>
    · rw [List.any_eq_false]
      intro y hy
      have := h y hy
      simp only [compat, Bool.and_eq_true, bne_iff_ne, ne_eq] at this
      simp [this.1, this.2]
  rw [this]; simp

theorem viewStep_clash (d : List (Nat × Nat)) (pu : Nat × Nat) (y : Nat × Nat) (hy : y ∈ d) (h : compat y pu = false) :
    viewStep d pu = d := by
  unfold viewStep
  have : (d.any (·.2 = pu.2) || d.any (·.1 = pu.1)) = true := by
    simp only [compat, Bool.and_eq_false_iff, bne_eq_false_iff_eq] at h
    rw [Bool.or_eq_true, List.any_eq_true, List.any_eq_true]
    rcases h with h | h
    · exact Or.inr ⟨y, hy, by simp [h]⟩
    · exact Or.inl ⟨y, hy, by simp [h]⟩
  rw [this]; simp

theorem foldl_view_inj : ∀ (m d : List (Nat × Nat)), (∀ x ∈ m, ∀ y ∈ d, compat y x = true) → Inj m →
    m.foldl viewStep d = d ++ m
  | [], d, _, _ => by simp
  | x :: m, d, h, hi => by
    rw [List.foldl_cons, viewStep_compat d x (fun y hy => h x (by simp) y hy)]
    unfold Inj at hi
    rw [List.pairwise_cons] at hi
    rw [foldl_view_inj m (d ++ [x]) ?_ hi.2]
    · simp
    · intro x' hx' y hy
      rcases List.mem_append.1 hy with hy | hy
      · exact h x' (by simp [hx']) y hy
      · simp only [List.mem_singleton] at hy; subst hy; exact hi.1 x' hx'

theorem inj_reverse (l : List (Nat × Nat)) (h : Inj l) : Inj l.reverse := by
  unfold Inj at h ⊢
  rw [List.pairwise_reverse]
  exact h.imp (fun {a b} hab => by rw [compat_symm]; exact hab)

/-- without clashes every declaration is effective -/
theorem viewOf_inj (l : List (Nat × Nat)) (h : Inj l) : viewOf l = l.reverse := by
  rw [viewOf_eq, foldl_view_inj l.reverse [] (by simp) (inj_reverse l h)]; simp

/-- a new last declaration displaces exactly the ones it clashes with -/
theorem foldl_view_new (pu : Nat × Nat) : ∀ (m d : List (Nat × Nat)),
    (∀ x ∈ m, ∀ y ∈ d, compat y x = true) → Inj m →
    m.foldl viewStep (pu :: d) = pu :: (d ++ m.filter (fun x => compat pu x))
  | [], d, _, _ => by simp
  | x :: m, d, h, hi => by
    unfold Inj at hi
    rw [List.pairwise_cons] at hi
    rw [List.foldl_cons, List.filter_cons]
    cases hc : compat pu x with
    | true =>
      rw [viewStep_compat (pu :: d) x (by
        intro y hy
        rcases List.mem_cons.1 hy with hy | hy
        · subst hy; exact hc
        · exact h x (by simp) y hy)]
      have := foldl_view_new pu m (d ++ [x]) (by
        intro x' hx' y hy
        rcases List.mem_append.1 hy with hy | hy
        · exact h x' (by simp [hx']) y hy
        · simp only [List.mem_singleton] at hy; subst hy; exact hi.1 x' hx') hi.2
      simp only [List.cons_append] at this ⊢
      rw [this]; simp
    | false =>
      rw [viewStep_clash (pu :: d) x pu (by simp) hc]
      simp only [Bool.false_eq_true, if_false]
      exact foldl_view_new pu m d (fun x' hx' y hy => h x' (by simp [hx']) y hy) hi.2

theorem viewOf_new (P : List (Nat × Nat)) (pu : Nat × Nat) (h : Inj P) :
    viewOf (P ++ [pu]) = pu :: P.reverse.filter (fun x => compat pu x) := by
  rw [viewOf_eq, List.reverse_append]
  simp only [List.reverse_cons, List.reverse_nil, List.nil_append, List.cons_append, List.foldl_cons]
  have h0 : viewStep [] pu = [pu] := by simp [viewStep]
  rw [h0, foldl_view_new pu P.reverse [] (by simp) (inj_reverse P h)]; simp

theorem dictGet_of_mem : ∀ (l : List (Nat × Nat)) (p u : Nat), Inj l → (p, u) ∈ l → dictGet l p = some u
  | [], _, _, _, h => by simp at h
  | (a, b) :: l, p, u, hi, h => by
    unfold Inj at hi
    rw [List.pairwise_cons] at hi
    unfold dictGet
    rw [List.find?_cons]
    by_cases hap : a = p
    · subst hap
      simp only [decide_true, Option.map_some]
      rcases List.mem_cons.1 h with h | h
      · simp at h; simp [h]
      · have := hi.1 (a, u) h
        simp [compat] at this
    · simp only [hap, decide_false]
      rcases List.mem_cons.1 h with h | h
      · simp at h; exact absurd h.1.symm hap
      · exact dictGet_of_mem l p u hi.2 h

/-! ### the arrangement of a flat sheet -/

def nsRules (P : List (Nat × Nat)) : Sheet := P.map (fun pu => Rule.ns pu.1 pu.2)

theorem nsPairs_append : ∀ (a b : Sheet), nsPairs (a ++ b) = nsPairs a ++ nsPairs b
  | [], b => rfl
  | r :: a, b => by cases r <;> simp [nsPairs, nsPairs_append a b]

theorem nsPairs_nsRules : ∀ (P : List (Nat × Nat)), nsPairs (nsRules P) = P
  | [] => rfl
  | pu :: P => by simp [nsRules, nsPairs] at *; exact nsPairs_nsRules P

theorem nsPairs_noNs (a : Sheet) (h : ∀ x ∈ a, x.isNs = false) : nsPairs a = [] :=
  nsPairs_nil_of_noNs a (by simp only [hasNs, List.any_eq_false]; intro x hx; simp [h x hx])

theorem mem_nsRules (P : List (Nat × Nat)) (x : Rule) (h : x ∈ nsRules P) : ∃ p u, x = .ns p u ∧ (p, u) ∈ P := by
  simp only [nsRules, List.mem_map] at h
  obtain ⟨pu, hpu, rfl⟩ := h
  exact ⟨pu.1, pu.2, rfl, hpu⟩

theorem filter_nsRules (items : List (Nat × Nat)) : ∀ (P : List (Nat × Nat)),
    (nsRules P).filter (keepNs items) =
    nsRules (P.filter (fun pu => items.contains pu))
  | [] => rfl
  | (p, u) :: P => by
    have ih := filter_nsRules items P
    simp only [nsRules] at ih
    by_cases h : items.contains (p, u) = true
    · simp only [nsRules, List.map_cons, List.filter_cons, keepNs, h, if_true, ih]
    · simp only [nsRules, List.map_cons, List.filter_cons, keepNs, h, Bool.false_eq_true, if_false, ih]

theorem filter_keep_noNs (items : List (Nat × Nat)) (a : Sheet) (h : ∀ x ∈ a, x.isNs = false) :
    a.filter (keepNs items) = a := by
  rw [List.filter_eq_self]
  intro x hx
  have := h x hx
  cases x <;> simp [Rule.isNs, keepNs] at this ⊢

def HeadOk (c I : Sheet) : Prop := c = [] ∨ ∃ x, c = [x] ∧ x.isComment = true ∧ I ≠ []

/-- [one comment] @imports, @namespaces without clashes, then everything else -/
def NF (t : Sheet) : Prop := ∃ c I P B, t = c ++ I ++ nsRules P ++ B ∧ HeadOk c I ∧
  (∀ x ∈ I, x.isImport = true) ∧ Inj P ∧ (∀ x ∈ B, x.isBody = true)

theorem isNs_of_comment (x : Rule) (h : x.isComment = true) : x.isNs = false ∧ x.isImport = false ∧ x.isCharset = false ∧ x.isBody = true := by
  cases x <;> simp [Rule.isComment] at h <;> simp [Rule.isNs, Rule.isImport, Rule.isCharset, Rule.isBody]

theorem of_import (x : Rule) (h : x.isImport = true) : x.isNs = false ∧ x.isCharset = false ∧ x.isComment = false ∧ x.isBody = false := by
  cases x <;> simp [Rule.isImport] at h <;> simp [Rule.isNs, Rule.isComment, Rule.isCharset, Rule.isBody, Rule.isImport]

theorem of_body (x : Rule) (h : x.isBody = true) : x.isNs = false ∧ x.isCharset = false ∧ x.isImport = false ∧ x.isCand = true := by
  cases x <;> simp [Rule.isBody, Rule.isNs, Rule.isCharset, Rule.isImport] at h <;> simp [Rule.isNs, Rule.isCand, Rule.isCharset, Rule.isImport]

theorem headOk_noNs (c I : Sheet) (h : HeadOk c I) : ∀ x ∈ c, x.isNs = false ∧ x.isImport = false ∧ x.isCharset = false := by
  intro x hx
  rcases h with h | ⟨y, h, hy, _⟩
  · subst h; simp at hx
  · subst h; simp at hx; subst hx; exact ⟨(isNs_of_comment _ hy).1, (isNs_of_comment _ hy).2.1, (isNs_of_comment _ hy).2.2.1⟩

theorem view_NF (c I B : Sheet) (P : List (Nat × Nat)) (hc : HeadOk c I) (hI : ∀ x ∈ I, x.isImport = true)
    (hB : ∀ x ∈ B, x.isBody = true) : nsPairs (c ++ I ++ nsRules P ++ B) = P := by
  rw [nsPairs_append, nsPairs_append, nsPairs_append, nsPairs_nsRules,
    nsPairs_noNs c (fun x hx => (headOk_noNs c I hc x hx).1),
    nsPairs_noNs I (fun x hx => (of_import x (hI x hx)).1),
    nsPairs_noNs B (fun x hx => (of_body x (hB x hx)).1)]
  simp


theorem nsRules_append (P Q : List (Nat × Nat)) : nsRules (P ++ Q) = nsRules P ++ nsRules Q := by simp [nsRules]

theorem nsRules_isNs (P : List (Nat × Nat)) : ∀ x ∈ nsRules P, x.isNs = true ∧ x.isImport = false ∧ x.isCharset = false ∧ x.isComment = false := by
  intro x hx
  obtain ⟨p, u, rfl, _⟩ := mem_nsRules P x hx
  simp [Rule.isNs, Rule.isImport, Rule.isCharset, Rule.isComment]

theorem concat_of_ne_nil {α : Type} (l : List α) (h : l ≠ []) : ∃ l' x, l = l' ++ [x] :=
  ⟨_, _, (List.dropLast_concat_getLast h).symm⟩

/-- index behind the last @import of an arranged sheet with an @import -/
theorem afterLast_import_NF (c I rest : Sheet) (hI : ∀ x ∈ I, x.isImport = true) (hne : I ≠ [])
    (hrest : ∀ y ∈ rest, y.isImport = false) :
    afterLast Rule.isImport (c ++ I ++ rest) = some (c ++ I).length := by
  obtain ⟨I', x, rfl⟩ := concat_of_ne_nil I hne
  have := afterLast_eq Rule.isImport x rest hrest (hI x (by simp)) (c ++ I')
  simp only [List.append_assoc, List.cons_append, List.nil_append, List.length_append, List.length_cons,
    List.length_nil] at this ⊢
  rw [this]; congr 1

theorem add_NF_import (t t' : Sheet) (i q : Nat) (tg : Option (List Rule)) (hn : NF t)
    (h : add t (.imp i q tg) = some t') : NF t' := by
  obtain ⟨c, I, P, B, rfl, hc, hI, hP, hB⟩ := hn
  simp only [add, Option.some.injEq] at h
  subst h
  by_cases hIe : I = []
  · subst hIe
    have hc0 : c = [] := by
      rcases hc with hc | ⟨x, _, _, hne⟩
      · exact hc
      · exact absurd rfl hne
    subst hc0
    simp only [List.nil_append, List.append_nil]
    have hnone : afterLast Rule.isImport (nsRules P ++ B) = none := by
      apply afterLast_none_of
      intro y hy
      rcases List.mem_append.1 hy with hy | hy
      · exact (nsRules_isNs P y hy).2.1
      · exact (of_body y (hB y hy)).2.2.1
    unfold importIdx
    rw [hnone]
    simp only [Option.getD_none]
    cases P with
    | cons pu P' =>
      refine ⟨[], [.imp i q tg], pu :: P', B, ?_, Or.inl rfl, by simp [Rule.isImport], hP, hB⟩
      simp [nsRules, headIs, Rule.isCharset, Rule.isComment, insertAt]
    | nil =>
      cases B with
      | nil =>
        refine ⟨[], [.imp i q tg], [], [], ?_, Or.inl rfl, by simp [Rule.isImport], hP, by simp⟩
        simp [nsRules, headIs, insertAt]
      | cons x B' =>
        have hx := of_body x (hB x (by simp))
        by_cases hxc : x.isComment = true
        · refine ⟨[x], [.imp i q tg], [], B', ?_, Or.inr ⟨x, rfl, hxc, by simp⟩, by simp [Rule.isImport], hP,
            fun y hy => hB y (by simp [hy])⟩
          simp [nsRules, headIs, hxc, insertAt]
        · refine ⟨[], [.imp i q tg], [], x :: B', ?_, Or.inl rfl, by simp [Rule.isImport], hP, hB⟩
          simp [nsRules, headIs, hxc, hx.2.1, insertAt]
  · have hal := afterLast_import_NF c I (nsRules P ++ B) hI hIe (by
      intro y hy
      rcases List.mem_append.1 hy with hy | hy
      · exact (nsRules_isNs P y hy).2.1
      · exact (of_body y (hB y hy)).2.2.1)
    unfold importIdx
    rw [show c ++ I ++ nsRules P ++ B = c ++ I ++ (nsRules P ++ B) by simp, hal]
    simp only [Option.getD_some]
    rw [insertAt_append]
    refine ⟨c, I ++ [.imp i q tg], P, B, by simp, ?_, ?_, hP, hB⟩
    · rcases hc with hc | ⟨x, hx, hxc, _⟩
      · exact Or.inl hc
      · exact Or.inr ⟨x, hx, hxc, by simp⟩
    · intro y hy
      rcases List.mem_append.1 hy with hy | hy
      · exact hI y hy
      · simp at hy; subst hy; rfl


theorem nsIdx_NF (c I B : Sheet) (P : List (Nat × Nat)) (hc : HeadOk c I) (hI : ∀ x ∈ I, x.isImport = true)
    (hB : ∀ x ∈ B, x.isBody = true) :
    nsIdx (c ++ I ++ nsRules P ++ B) = (c ++ I ++ nsRules P).length := by
  unfold nsIdx
  by_cases hPe : P = []
  · subst hPe
    simp only [nsRules, List.map_nil, List.append_nil]
    have hnone : afterLast Rule.isNs (c ++ I ++ B) = none := by
      apply afterLast_none_of
      intro y hy
      rcases List.mem_append.1 hy with hy | hy
      · rcases List.mem_append.1 hy with hy | hy
        · exact (headOk_noNs c I hc y hy).1
        · exact (of_import y (hI y hy)).1
      · exact (of_body y (hB y hy)).1
    rw [hnone]
    simp only [Option.getD_none]
    have hstart : (afterLast (fun x => x.isCharset || x.isImport) (c ++ I ++ B)).getD 0 = (c ++ I).length := by
      by_cases hIe : I = []
      · subst hIe
        have hc0 : c = [] := by
          rcases hc with hc | ⟨x, _, _, hne⟩
          · exact hc
          · exact absurd rfl hne
        subst hc0
        simp only [List.nil_append, List.length_nil]
        rw [afterLast_none_of _ B (fun y hy => by simp [(of_body y (hB y hy)).2.1, (of_body y (hB y hy)).2.2.1])]
        rfl
      · obtain ⟨I', x, rfl⟩ := concat_of_ne_nil I hIe
        have := afterLast_eq (fun x => x.isCharset || x.isImport) x B
          (fun y hy => by simp [(of_body y (hB y hy)).2.1, (of_body y (hB y hy)).2.2.1])
          (by simp [hI x (by simp)]) (c ++ I')
        simp only [List.append_assoc, List.cons_append, List.nil_append, List.length_append, List.length_cons,
          List.length_nil] at this ⊢
        rw [this]; rfl
    rw [hstart]
    cases B with
    | nil =>
      rw [firstFrom_none _ _ _ 0 (by simp)]
      simp
    | cons x B' =>
      have := firstFrom_hit Rule.isCand x B' (of_body x (hB x (by simp))).2.2.2 (c ++ I) 0
      simp only [Nat.zero_add] at this
      rw [this]; simp
  · obtain ⟨P', pu, rfl⟩ := concat_of_ne_nil P hPe
    have := afterLast_eq Rule.isNs (.ns pu.1 pu.2) B (fun y hy => (of_body y (hB y hy)).1) rfl (c ++ I ++ nsRules P')
    rw [nsRules_append]
    simp only [nsRules, List.map_cons, List.map_nil, List.append_assoc, List.cons_append, List.nil_append] at this ⊢
    rw [this]
    simp; omega


theorem kept_pairs (P : List (Nat × Nat)) (pu : Nat × Nat) (hP : Inj P) (hnot : pu ∉ P) :
    (P ++ [pu]).filter (fun x => (viewOf (P ++ [pu])).contains x) = P.filter (fun x => compat pu x) ++ [pu] := by
  rw [viewOf_new P pu hP, List.filter_append]
  congr 1
  · apply List.filter_congr
    intro x hx
    have hne : x ≠ pu := fun h => hnot (h ▸ hx)
    rw [Bool.eq_iff_iff]
    simp only [List.contains_iff_mem, List.mem_cons, List.mem_filter, List.mem_reverse]
    constructor
    · rintro (h | ⟨_, h⟩)
      · exact absurd h hne
      · exact h
    · intro h; exact Or.inr ⟨hx, h⟩
  · simp

theorem inj_kept (P : List (Nat × Nat)) (pu : Nat × Nat) (hP : Inj P) : Inj (P.filter (fun x => compat pu x) ++ [pu]) := by
  unfold Inj at hP ⊢
  rw [List.pairwise_append]
  refine ⟨hP.filter _, by simp, ?_⟩
  intro a ha b hb
  simp only [List.mem_singleton] at hb; subst hb
  rw [compat_symm]
  exact (List.mem_filter.1 ha).2

theorem add_NF_ns (t t' : Sheet) (p u : Nat) (hn : NF t) (h : add t (.ns p u) = some t') : NF t' := by
  obtain ⟨c, I, P, B, rfl, hc, hI, hP, hB⟩ := hn
  simp only [add] at h
  split at h
  · injection h with h; subst h; exact ⟨c, I, P, B, rfl, hc, hI, hP, hB⟩
  · rename_i hnd
    have hview : view (c ++ I ++ nsRules P ++ B) = P.reverse := by
      unfold view; rw [view_NF c I B P hc hI hB, viewOf_inj P hP]
    rw [hview] at hnd
    have hnot : (p, u) ∉ P := by
      intro hm
      exact hnd (dictGet_of_mem P.reverse p u (inj_reverse P hP) (by simpa using hm))
    rw [nsIdx_NF c I B P hc hI hB, insertAt_append] at h
    have hshape : c ++ I ++ nsRules P ++ Rule.ns p u :: B = c ++ I ++ nsRules (P ++ [(p, u)]) ++ B := by
      simp [nsRules]
    rw [hshape] at h
    unfold cleanNamespaces at h
    have he := cleanGo_eq _ _ _ _ _ h
    have hv : view (c ++ I ++ nsRules (P ++ [(p, u)]) ++ B) = viewOf (P ++ [(p, u)]) := by
      unfold view; rw [view_NF c I B _ hc hI hB]
    rw [hv] at he
    simp only [List.nil_append, List.filter_append] at he
    rw [filter_keep_noNs _ c (fun x hx => (headOk_noNs c I hc x hx).1),
      filter_keep_noNs _ I (fun x hx => (of_import x (hI x hx)).1),
      filter_keep_noNs _ B (fun x hx => (of_body x (hB x hx)).1),
      filter_nsRules, kept_pairs P (p, u) hP hnot] at he
    exact ⟨c, I, _, B, he, hc, hI, inj_kept P (p, u) hP, hB⟩

theorem NF_append_body (t : Sheet) (r : Rule) (hn : NF t) (hb : r.isBody = true) : NF (t ++ [r]) := by
  obtain ⟨c, I, P, B, rfl, hc, hI, hP, hB⟩ := hn
  exact ⟨c, I, P, B ++ [r], by simp, hc, hI, hP, by
    intro y hy; rcases List.mem_append.1 hy with hy | hy
    · exact hB y hy
    · simp at hy; subst hy; exact hb⟩

theorem add_NF (t t' : Sheet) (r : Rule) (hn : NF t) (hr : r.isCharset = false) (h : add t r = some t') : NF t' := by
  cases r with
  | charset e => simp [Rule.isCharset] at hr
  | imp i q tg => exact add_NF_import t t' i q tg hn h
  | ns p u => exact add_NF_ns t t' p u hn h
  | media q rs => simp only [add, Option.some.injEq] at h; subst h; exact NF_append_body _ _ hn rfl
  | comment i => simp only [add, Option.some.injEq] at h; subst h; exact NF_append_body _ _ hn rfl
  | start i => simp only [add, Option.some.injEq] at h; subst h; exact NF_append_body _ _ hn rfl
  | style i us => simp only [add, Option.some.injEq] at h; subst h; exact NF_append_body _ _ hn rfl
  | block k i => simp only [add, Option.some.injEq] at h; subst h; exact NF_append_body _ _ hn rfl


theorem NF_nil : NF [] := ⟨[], [], [], [], rfl, Or.inl rfl, by simp, List.Pairwise.nil, by simp⟩

theorem NF_noCharset (t : Sheet) (hn : NF t) : ∀ x ∈ t, x.isCharset = false := by
  obtain ⟨c, I, P, B, rfl, hc, hI, hP, hB⟩ := hn
  intro x hx
  simp only [List.mem_append] at hx
  rcases hx with ((hx | hx) | hx) | hx
  · exact (headOk_noNs c I hc x hx).2.2
  · exact (of_import x (hI x hx)).2.1
  · exact (nsRules_isNs P x hx).2.2.1
  · exact (of_body x (hB x hx)).2.1

theorem addAll_NF : ∀ (rs t t' : Sheet), NF t → (∀ x ∈ rs, x.isCharset = false) → addAll t rs = some t' → NF t'
  | [], t, t', hn, _, h => by simp [addAll] at h; subst h; exact hn
  | r :: rs, t, t', hn, hc, h => by
    unfold addAll at h
    cases ha : add t r with
    | none => rw [ha] at h; simp at h
    | some t1 =>
      rw [ha] at h
      exact addAll_NF rs t1 t' (add_NF t t1 r hn (hc r (by simp)) ha) (fun x hx => hc x (by simp [hx])) h

theorem liftAdd_ok (x : Option Sheet) (t : Sheet) (h : liftAdd x = .ok t) : x = some t := by
  cases x <;> simp [liftAdd] at h; rw [h]

theorem step_NF (rec : Sheet → Res) (hrec : ∀ sub t', rec sub = .ok t' → NF t') (t0 t : Sheet) (r : Rule)
    (hn : NF t0) (h : step rec t0 r = .ok t) : NF t := by
  cases r with
  | charset e => simp [step] at h; subst h; exact hn
  | ns p u => exact add_NF t0 t (Rule.ns p u) hn rfl (liftAdd_ok (add t0 (Rule.ns p u)) t h)
  | media q rs => exact add_NF t0 t (Rule.media q rs) hn rfl (liftAdd_ok (add t0 (Rule.media q rs)) t h)
  | comment i => exact add_NF t0 t (Rule.comment i) hn rfl (liftAdd_ok (add t0 (Rule.comment i)) t h)
  | start i => exact add_NF t0 t (Rule.start i) hn rfl (liftAdd_ok (add t0 (Rule.start i)) t h)
  | style i us => exact add_NF t0 t (Rule.style i us) hn rfl (liftAdd_ok (add t0 (Rule.style i us)) t h)
  | block k i => exact add_NF t0 t (Rule.block k i) hn rfl (liftAdd_ok (add t0 (Rule.block k i)) t h)
  | imp i q tg =>
    cases tg with
    | none => exact add_NF t0 t (Rule.imp i q none) hn rfl (liftAdd_ok (add t0 (Rule.imp i q none)) t h)
    | some sub =>
      have hn1 : NF (t0 ++ [Rule.start i]) := NF_append_body _ _ hn rfl
      simp only [step, add_start] at h
      cases hres : rec sub with
      | raised e =>
        rw [hres] at h
        cases e with
        | hierarchy => exact add_NF _ _ _ hn1 rfl (liftAdd_ok _ _ h)
        | noModification => simp at h
        | fuel => simp at h
      | ok imported =>
        rw [hres] at h
        have hni := hrec sub imported hres
        simp only [] at h
        by_cases hq : q = 0
        · simp only [hq, if_true] at h
          exact addAll_NF imported _ t hn1 (NF_noCharset imported hni) (liftAdd_ok _ _ h)
        · simp only [hq, if_false] at h
          split at h
          · exact add_NF _ _ _ hn1 rfl (liftAdd_ok _ _ h)
          · cases hw : wrapAll [] imported with
            | none => rw [hw] at h; simp at h
            | some kids =>
              rw [hw] at h
              exact add_NF _ _ _ hn1 rfl (liftAdd_ok _ _ h)

theorem run_NF (rec : Sheet → Res) (hrec : ∀ sub t', rec sub = .ok t' → NF t') : ∀ (s t0 t : Sheet),
    NF t0 → run rec s t0 = .ok t → NF t
  | [], t0, t, hn, h => by simp [run] at h; subst h; exact hn
  | r :: rs, t0, t, hn, h => by
    unfold run at h
    cases hst : step rec t0 r with
    | ok t1 =>
      rw [hst] at h
      exact run_NF rec hrec rs t1 t (step_NF rec hrec t0 t1 r hn hst) h
    | raised e => rw [hst] at h; simp at h

/-- **the arrangement of every flat sheet** -/
theorem resolve_NF : ∀ (fuel : Nat) (s t : Sheet), resolve fuel s = .ok t → NF t
  | 0, s, t, h => by simp [resolve] at h
  | fuel + 1, s, t, h => by
    simp only [resolve] at h
    exact run_NF (resolve fuel) (fun sub t' h' => resolve_NF fuel sub t' h') s [] t NF_nil h


/-! ### adding the rules of an arranged sheet one by one rebuilds it -/

theorem addAll_append : ∀ (a b t : Sheet), addAll t (a ++ b) = (addAll t a).bind (fun t' => addAll t' b)
  | [], b, t => rfl
  | r :: a, b, t => by
    simp only [List.cons_append, addAll]
    cases add t r with
    | none => rfl
    | some t1 => exact addAll_append a b t1

theorem add_body (t : Sheet) (x : Rule) (h : x.isBody = true) : add t x = some (t ++ [x]) := by
  cases x <;> first | rfl | (simp [Rule.isBody, Rule.isCharset, Rule.isImport, Rule.isNs] at h)

theorem addAll_body : ∀ (B t : Sheet), (∀ x ∈ B, x.isBody = true) → addAll t B = some (t ++ B)
  | [], t, _ => by simp [addAll]
  | x :: B, t, h => by
    simp only [addAll, add_body t x (h x (by simp))]
    rw [addAll_body B (t ++ [x]) (fun y hy => h y (by simp [hy]))]; simp

theorem insertAt_end (s : Sheet) (r : Rule) : insertAt s s.length r = s ++ [r] := by
  have := insertAt_append s [] r
  simpa using this

theorem importIdx_end (c I : Sheet) (hc : c = [] ∨ ∃ x, c = [x] ∧ x.isComment = true)
    (hI : ∀ x ∈ I, x.isImport = true) : importIdx (c ++ I) = (c ++ I).length := by
  by_cases hIe : I = []
  · subst hIe
    rcases hc with hc | ⟨x, hc, hx⟩
    · subst hc; rfl
    · subst hc
      have hx' := isNs_of_comment x hx
      simp [importIdx, afterLast, hx'.2.1, headIs, hx]
  · have := afterLast_import_NF c I [] hI hIe (by simp)
    simp only [List.append_nil] at this
    simp [importIdx, this]

theorem addAll_imports (c : Sheet) (hc : c = [] ∨ ∃ x, c = [x] ∧ x.isComment = true) : ∀ (I2 I1 : Sheet),
    (∀ x ∈ I1, x.isImport = true) → (∀ x ∈ I2, x.isImport = true) →
    addAll (c ++ I1) I2 = some (c ++ I1 ++ I2)
  | [], I1, _, _ => by simp [addAll]
  | r :: I2, I1, h1, h2 => by
    have hr := h2 r (by simp)
    have hadd : add (c ++ I1) r = some (c ++ I1 ++ [r]) := by
      cases r <;> simp [Rule.isImport] at hr
      simp only [add, importIdx_end c I1 hc h1, insertAt_end]
    simp only [addAll, hadd]
    have := addAll_imports c hc I2 (I1 ++ [r]) (by
      intro x hx
      rcases List.mem_append.1 hx with hx | hx
      · exact h1 x hx
      · simp at hx; subst hx; exact hr) (fun x hx => h2 x (by simp [hx]))
    simp only [List.append_assoc, List.cons_append, List.nil_append] at this ⊢
    exact this

theorem cleanGo_all (items : List (Nat × Nat)) (used : List Nat) : ∀ (rest acc : Sheet),
    (∀ p u, Rule.ns p u ∈ rest → items.contains (p, u) = true) → cleanGo items used acc rest = some (acc ++ rest)
  | [], acc, _ => by simp [cleanGo]
  | r :: rest, acc, h => by
    have ih := fun acc' => cleanGo_all items used rest acc' (fun p u hm => h p u (by simp [hm]))
    cases r with
    | ns p u =>
      unfold cleanGo
      rw [if_pos (h p u (by simp)), ih]; simp
    | charset e => unfold cleanGo; rw [ih]; simp
    | imp i q t => unfold cleanGo; rw [ih]; simp
    | media q rs => unfold cleanGo; rw [ih]; simp
    | comment i => unfold cleanGo; rw [ih]; simp
    | start i => unfold cleanGo; rw [ih]; simp
    | style i us => unfold cleanGo; rw [ih]; simp
    | block k i => unfold cleanGo; rw [ih]; simp

theorem dictGet_mem (l : List (Nat × Nat)) (p u : Nat) (h : dictGet l p = some u) : (p, u) ∈ l := by
  unfold dictGet at h
  cases hf : l.find? (fun x => decide (x.1 = p)) with
  | none => rw [hf] at h; simp at h
  | some x =>
    rw [hf] at h
    simp only [Option.map_some, Option.some.injEq] at h
    have h1 := List.find?_some hf
    have h2 := List.mem_of_find?_eq_some hf
    simp only [decide_eq_true_eq] at h1
    obtain ⟨a, b⟩ := x
    simp only at h1 h; subst h1; subst h
    exact h2

theorem addAll_namespaces (c I : Sheet) (hc : HeadOk c I) (hI : ∀ x ∈ I, x.isImport = true) :
    ∀ (P2 P1 : List (Nat × Nat)), Inj (P1 ++ P2) →
    addAll (c ++ I ++ nsRules P1) (nsRules P2) = some (c ++ I ++ nsRules (P1 ++ P2))
  | [], P1, _ => by simp [addAll, nsRules]
  | (p, u) :: P2, P1, hinj => by
    have hinj1 : Inj P1 := by
      unfold Inj at hinj ⊢; exact (List.pairwise_append.1 hinj).1
    have hnot : (p, u) ∉ P1 := by
      intro hm
      unfold Inj at hinj
      have := (List.pairwise_append.1 hinj).2.2 (p, u) hm (p, u) (by simp)
      simp [compat] at this
    have hinj2 : Inj (P1 ++ [(p, u)]) := by
      unfold Inj at hinj ⊢
      have : P1 ++ (p, u) :: P2 = (P1 ++ [(p, u)]) ++ P2 := by simp
      rw [this] at hinj
      exact (List.pairwise_append.1 hinj).1
    have hT : c ++ I ++ nsRules P1 = c ++ I ++ nsRules P1 ++ [] := by simp
    have hadd : add (c ++ I ++ nsRules P1) (.ns p u) = some (c ++ I ++ nsRules (P1 ++ [(p, u)])) := by
      simp only [add]
      have hview : view (c ++ I ++ nsRules P1) = P1.reverse := by
        unfold view; rw [hT, view_NF c I [] P1 hc hI (by simp), viewOf_inj P1 hinj1]
      rw [hview]
      have hnd : ¬ dictGet P1.reverse p = some u := fun hd => hnot (by simpa using dictGet_mem _ _ _ hd)
      rw [if_neg hnd]
      have hidx : nsIdx (c ++ I ++ nsRules P1) = (c ++ I ++ nsRules P1).length := by
        have := nsIdx_NF c I [] P1 hc hI (by simp)
        simpa using this
      rw [hidx, insertAt_end]
      have hshape : c ++ I ++ nsRules P1 ++ [Rule.ns p u] = c ++ I ++ nsRules (P1 ++ [(p, u)]) ++ [] := by
        simp [nsRules]
      unfold cleanNamespaces
      rw [cleanGo_all]
      · simp [nsRules]
      · intro p' u' hm
        have hv : view (c ++ I ++ nsRules P1 ++ [Rule.ns p u]) = (P1 ++ [(p, u)]).reverse := by
          unfold view; rw [hshape, view_NF c I [] _ hc hI (by simp), viewOf_inj _ hinj2]
        rw [hv]
        have := (mem_nsPairs _ p' u').2 hm
        rw [hshape, view_NF c I [] _ hc hI (by simp)] at this
        simp only [List.contains_iff_mem, List.mem_reverse]
        exact this
    simp only [nsRules, List.map_cons, addAll] at hadd ⊢
    rw [hadd]
    have ih := addAll_namespaces c I hc hI P2 (P1 ++ [(p, u)]) (by simpa using hinj)
    simp only [nsRules, List.append_assoc, List.cons_append, List.nil_append] at ih ⊢
    exact ih


theorem addAll_rebuild (t : Sheet) (hn : NF t) : addAll [] t = some t := by
  obtain ⟨c, I, P, B, rfl, hc, hI, hP, hB⟩ := hn
  have hc' : c = [] ∨ ∃ x, c = [x] ∧ x.isComment = true := by
    rcases hc with hc | ⟨x, h1, h2, _⟩
    · exact Or.inl hc
    · exact Or.inr ⟨x, h1, h2⟩
  have h1 : addAll [] c = some c := by
    rcases hc' with hc' | ⟨x, hc', hx⟩
    · subst hc'; rfl
    · subst hc'; simp [addAll, add_body [] x (isNs_of_comment x hx).2.2.2]
  have h2 : addAll c I = some (c ++ I) := by
    have := addAll_imports c hc' I [] (by simp) hI
    simpa using this
  have h3 : addAll (c ++ I) (nsRules P) = some (c ++ I ++ nsRules P) := by
    have := addAll_namespaces c I hc hI P [] (by simpa using hP)
    simpa [nsRules] using this
  rw [addAll_append, addAll_append, addAll_append, h1]
  simp only [Option.bind_some]
  rw [h2]
  simp only [Option.bind_some]
  rw [h3]
  simp only [Option.bind_some]
  exact addAll_body B _ hB

theorem run_flat (rec : Sheet → Res) : ∀ (s t0 : Sheet),
    (∀ r ∈ s, r.isLoaded = false ∧ r.isCharset = false) → run rec s t0 = liftAdd (addAll t0 s)
  | [], t0, _ => rfl
  | r :: rs, t0, h => by
    have hr := h r (by simp)
    have hstep : step rec t0 r = liftAdd (add t0 r) := by
      cases r with
      | imp i q tg =>
        cases tg with
        | none => rfl
        | some sub => simp [Rule.isLoaded] at hr
      | charset e => simp [Rule.isCharset] at hr
      | _ => rfl
    unfold run addAll
    rw [hstep]
    cases add t0 r with
    | none => rfl
    | some t1 => exact run_flat rec rs t1 (fun r' hr' => h r' (by simp [hr']))

theorem heightL_flat : ∀ (t : Sheet), (∀ r ∈ t, r.isLoaded = false) → heightL t = 1
  | [], _ => rfl
  | r :: rs, h => by
    have ih := heightL_flat rs (fun r' hr' => h r' (by simp [hr']))
    have hr := h r (by simp)
    have : r.height = 0 := by
      cases r with
      | imp i q tg =>
        cases tg with
        | none => simp [Rule.height]
        | some sub => simp [Rule.isLoaded] at hr
      | _ => simp [Rule.height]
    simp [heightL, this, ih]

/-- **idempotence**: a flat sheet without loaded @import is a fixed point -/
theorem resolve_idempotent (s t : Sheet) (h : resolveImports s = .ok t) (hl : ∀ r ∈ t, r.isLoaded = false) :
    resolveImports t = .ok t := by
  have hn : NF t := resolve_NF _ s t h
  unfold resolveImports
  rw [heightL_flat t hl]
  simp only [resolve]
  rw [run_flat _ t [] (fun r hr => ⟨hl r hr, NF_noCharset t hn r hr⟩), addAll_rebuild t hn]
  rfl

end CssVerif.Resolve
