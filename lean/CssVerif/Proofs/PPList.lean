/-
Media query LISTS on the combinator engine: `MQ.mediaList` (the engine running the grammar of
`MediaList._setMediaText`, every query parsed by a nested engine run with `_partof=True` on the same token
stream) gives the verdict of `MQ.listAccepts`, a recogniser written independently of the engine.
-/
import CssVerif.Proofs.ProdParser
import CssVerif.Proofs.PPTotal
namespace CssVerif.PP.MQ
open CssVerif.PP

/-! ### one query inside a list: how far it reads and how it stops -/

def skip (t : Tok) : Bool := t.kind == .s || t.kind == .comment

/-- how the nested parser ends -/
inductive Out
  | done (wf : Bool)                   -- the tokens are used up
  | back (x : Tok) (rest : List Tok)   -- quiet stop before `x`: handed back through `savedTokens`
  | lost (x : Tok) (rest : List Tok)   -- quiet stop at `x`: pushed to the global tokenizer
  | fail                               -- syntax error

/- `sim`: `stopIfNoMoreMatch` has been set — by a known media type or (inside a list) by a closing parenthesis -/
mutual
  def sAnd (c : List Text) (sim : Bool) : List Tok → Out
    | [] => .done true
    | t :: ts =>
      if skip t then sAnd c sim ts else if bad t then .fail
      else if pAnd.eval t then sAfterAnd c sim ts else if sim then .back t ts else .fail
  def sAfterAnd (c : List Text) (sim : Bool) : List Tok → Out
    | [] => .done false
    | t :: ts =>
      if skip t then sAfterAnd c sim ts else if bad t then .fail
      else if pLpar.eval t then sLpar c sim ts else if sim then .lost t ts else .fail
  def sLpar (c : List Text) (sim : Bool) : List Tok → Out
    | [] => .done false
    | t :: ts =>
      if skip t then sLpar c sim ts else if bad t then .fail
      else if pIdent.eval t then sFeature c sim ts else if sim then .lost t ts else .fail
  def sFeature (c : List Text) (sim : Bool) : List Tok → Out
    | [] => .done false
    | t :: ts =>
      if skip t then sFeature c sim ts else if bad t then .fail
      else if pColon.eval t then sColon c sim ts else if pRpar.eval t then sAnd c true ts
      else if sim then .lost t ts else .fail
  def sColon (c : List Text) (sim : Bool) : List Tok → Out
    | [] => .done false
    | t :: ts =>
      if skip t then sColon c sim ts else if bad t then .fail
      else if isValue c t then sValue c sim ts else if sim then .lost t ts else .fail
  def sValue (c : List Text) (sim : Bool) : List Tok → Out
    | [] => .done false
    | t :: ts =>
      if skip t then sValue c sim ts else if bad t then .fail
      else if pRpar.eval t then sAnd c true ts else if sim then .lost t ts else .fail
end

def sON (c : List Text) (sim : Bool) : List Tok → Out
  | [] => .done false
  | t :: ts =>
    if skip t then sON c sim ts else if bad t then .fail
    else if pKnown.eval t then sAnd c true ts else if sim then .lost t ts else .fail

/-- one media query at the head of the token list -/
def sQuery (c : List Text) : List Tok → Out
  | [] => .done false
  | t :: ts =>
    if skip t then sQuery c ts else if bad t then .fail
    else if pOnlyNot.eval t then sON c false ts
    else if pKnown.eval t then sAnd c true ts
    else if pLpar.eval t then sLpar c false ts
    else if pIdent.eval t then sAnd c false ts
    else .fail

def Q.scan (c : List Text) (sim : Bool) : Q → List Tok → Out
  | .afterON => sON c sim
  | .afterType _ => sAnd c sim
  | .afterAnd _ _ => sAfterAnd c sim
  | .inExpr _ .lpar => sLpar c sim
  | .inExpr _ .feature => sFeature c sim
  | .inExpr _ .colon => sColon c sim
  | .inExpr _ .value => sValue c sim
  | .inExpr _ .rpar => sAnd c sim

variable (c : List Text) (t : Tok)

theorem scan_skip (q : Q) (sim : Bool) (ts : List Tok) (h : skip t = true) : q.scan c sim (t :: ts) = q.scan c sim ts := by
  cases q with
  | afterON => simp [Q.scan, sON, h]
  | afterType k => simp [Q.scan, sAnd, h]
  | afterAnd b r => simp [Q.scan, sAfterAnd, h]
  | inExpr x e => cases e <;> simp [Q.scan, sLpar, sFeature, sColon, sValue, sAnd, h]

theorem scan_bad (q : Q) (sim : Bool) (ts : List Tok) (h : skip t = false) (hb : bad t = true) :
    q.scan c sim (t :: ts) = .fail := by
  cases q with
  | afterON => simp [Q.scan, sON, h, hb]
  | afterType k => simp [Q.scan, sAnd, h, hb]
  | afterAnd b r => simp [Q.scan, sAfterAnd, h, hb]
  | inExpr x e => cases e <;> simp [Q.scan, sLpar, sFeature, sColon, sValue, sAnd, h, hb]

theorem scan_step (q : Q) (sim : Bool) (ts : List Tok) (h : skip t = false) (hb : bad t = false) :
    q.scan c sim (t :: ts) = match q.step true c t with
      | .go f q' => q'.scan c (f.simm || sim) ts
      | .rej => if sim then .back t ts else .fail
      | .err => if sim then .lost t ts else .fail := by
  cases q with
  | afterON => by_cases h1 : pKnown.eval t = true <;> simp [Q.scan, Q.step, sON, h, hb, h1, fType]
  | afterType k => by_cases h1 : pAnd.eval t = true <;> simp [Q.scan, Q.step, sAnd, h, hb, h1, fAnd]
  | afterAnd b r => by_cases h1 : pLpar.eval t = true <;> simp [Q.scan, Q.step, sAfterAnd, h, hb, h1, fOpen]
  | inExpr x e =>
    cases e with
    | lpar => by_cases h1 : pIdent.eval t = true <;> simp [Q.scan, Q.step, sLpar, h, hb, h1, fFeature]
    | feature =>
      by_cases h1 : pColon.eval t = true <;> by_cases h2 : pRpar.eval t = true <;>
        simp [Q.scan, Q.step, sFeature, h, hb, h1, h2, fColon, fClose]
    | colon => by_cases h1 : isValue c t = true <;> simp [Q.scan, Q.step, sColon, h, hb, h1, vF_simm]
    | value => by_cases h1 : pRpar.eval t = true <;> simp [Q.scan, Q.step, sValue, h, hb, h1, fClose]
    | rpar =>
      cases x with
      | inAnd b r => by_cases h1 : pAnd.eval t = true <;> simp [Q.scan, Q.step, sAnd, h, hb, h1, fAnd]
      | first => by_cases h1 : pAnd.eval t = true <;> simp [Q.scan, Q.step, sAnd, h, hb, h1, fAnd]

/-! ### the nested run: `MediaQuery(pushtoken(t, tokens), _partof=True)` -/

/-- what the nested parser returns, by the way the scan ends -/
def OutOK (o : Out) (r : Res) : Prop :=
  match o with
  | .done w => r.wf = w ∧ r.rest = [] ∧ r.saved = [] ∧ r.pushed = []
  | .back x rest => r.wf = true ∧ r.rest = rest ∧ r.saved = [x] ∧ r.pushed = []
  | .lost x rest => r.wf = true ∧ r.rest = rest ∧ r.saved = [] ∧ r.pushed = [x]
  | .fail => r.wf = false

theorem loopN_noMatch (hook : Hook) (g : Bool) (d n : Nat) (st : LS) (ts : List Tok) (hr : Ready st) (hk : Real t)
    (stack' : List Frame) (hd : descend t d st.stack st.last = .noMatch stack') :
    OutOK (if st.simm then .back t ts else .fail) (loop hook (cfgG false g d) (n + 1) st (t :: ts)) := by
  obtain ⟨h1, h2, h3, h4, h5, h6⟩ := hr
  obtain ⟨k1, k2, k3, k4⟩ := hk
  cases st with
  | mk stack wf started defaultS simm stopall last items errs filt saved pushed =>
  simp at h1 h2 h3 h4 h5 h6 hd
  subst h1 h2 h3 h4 h5 h6
  cases simm with
  | false => cases g <;> simp [OutOK, loop, readTok, cfgG, k1, k2, k3, k4, hd] <;> exact finish_false _ _ _ rfl
  | true => cases g <;> simp [OutOK, loop, readTok, cfgG, k1, k2, k3, k4, hd, finish]

theorem loopN_parseErr (hook : Hook) (g : Bool) (d n : Nat) (st : LS) (ts : List Tok) (hr : Ready st) (hk : Real t)
    (l : Option PF) (stack' : List Frame) (hd : descend t d st.stack st.last = .parseErr l stack') :
    OutOK (if st.simm then .lost t ts else .fail) (loop hook (cfgG false g d) (n + 1) st (t :: ts)) := by
  obtain ⟨h1, h2, h3, h4, h5, h6⟩ := hr
  obtain ⟨k1, k2, k3, k4⟩ := hk
  cases st with
  | mk stack wf started defaultS simm stopall last items errs filt saved pushed =>
  simp at h1 h2 h3 h4 h5 h6 hd
  subst h1 h2 h3 h4 h5 h6
  cases simm with
  | false => cases g <;> simp [OutOK, loop, readTok, cfgG, k1, k2, k3, k4, hd] <;> exact finish_false _ _ _ rfl
  | true => cases g <;> simp [OutOK, loop, readTok, cfgG, k1, k2, k3, k4, hd, finish]

/-- the end of the tokens in a nested run: verdict of the end-of-input walk, nothing left anywhere -/
theorem finishN (g : Bool) (d : Nat) (st : LS) (hr : Ready st) (hi : st.items ≠ []) :
    OutOK (.done (endLoop st.last st.stack true st.errs).1) (finish (cfgG false g d) st []) := by
  obtain ⟨h1, h2, h3, h4, h5, h6⟩ := hr
  cases st with
  | mk stack wf started defaultS simm stopall last items errs filt saved pushed =>
  simp at h1 h2 h3 h4 h5 h6 hi
  subst h1 h2 h3 h4 h5 h6
  simp only [finish, cfgG, OutOK]
  generalize endLoop last stack true errs = e
  obtain ⟨w, er, stt⟩ := e
  cases items with
  | nil => exact absurd rfl hi
  | cons it its => by_cases hs : stt = .ok <;> simp [hs]

theorem finishN_false (g : Bool) (d : Nat) (st : LS) (hr : Ready st)
    (h : (endLoop st.last st.stack true st.errs).1 = false) :
    OutOK (.done false) (finish (cfgG false g d) st []) := by
  obtain ⟨h1, h2, h3, h4, h5, h6⟩ := hr
  cases st with
  | mk stack wf started defaultS simm stopall last items errs filt saved pushed =>
  simp at h1 h2 h3 h4 h5 h6 h
  subst h1 h2 h3 h4 h5 h6
  simp only [finish, cfgG, OutOK]
  generalize endLoop last stack true errs = e at h
  obtain ⟨w, er, stt⟩ := e
  simp at h; subst h
  by_cases hs : stt = .ok <;> simp [hs]
  split <;> simp

theorem end_Qp (p : Bool) (q : Q) (f : PF) (hm : f.mayEnd = false) (errs : List Err) :
    (endLoop (some f) (q.stack p c) true errs).1 = q.lang c [] := by
  cases q with
  | afterON =>
    simp only [Q.stack, Q.lang, afterOnlyNot]
    rw [endLoop_missing f _ _ _ _ (eT1 p c true true) hm]; exact endLoop_false _ _ _
  | afterType k =>
    simp only [Q.stack, Q.lang, andExprs]
    rw [endLoop_skip _ _ _ _ _ (Or.inl (eT2 p c k true)), endLoop_skip _ _ _ _ _ (Or.inl (eRend p c))]; rfl
  | afterAnd b r =>
    simp only [Q.stack, Q.lang, afterAnd]
    rw [endLoop_missing f _ _ _ _ (eA1 p c r) hm]; exact endLoop_false _ _ _
  | inExpr x e =>
    cases e with
    | lpar =>
      simp only [Q.stack, Q.lang, afterLpar, EPos.frames, List.cons_append, List.nil_append]
      rw [endLoop_missing f _ _ _ _ (eE p c 1 true (Or.inl rfl)) hm]; exact endLoop_false _ _ _
    | feature =>
      simp only [Q.stack, Q.lang, afterFeature, EPos.frames, List.cons_append, List.nil_append]
      rw [endLoop_missing f _ _ _ _ (eE p c 2 true (Or.inr (Or.inl rfl))) hm]; exact endLoop_false _ _ _
    | colon =>
      simp only [Q.stack, Q.lang, afterColon, EPos.frames, List.cons_append, List.nil_append]
      rw [endLoop_missing f _ _ _ _ (eC1 c) hm]; exact endLoop_false _ _ _
    | value =>
      simp only [Q.stack, Q.lang, afterValue, EPos.frames, List.cons_append, List.nil_append]
      rw [endLoop_skip _ _ _ _ _ (Or.inl (eVend c)), endLoop_skip _ _ _ _ _ (Or.inl (eCend c true)),
        endLoop_missing f _ _ _ _ (eE p c 3 true (Or.inr (Or.inr rfl))) hm]; exact endLoop_false _ _ _
    | rpar =>
      simp only [Q.stack, Q.lang, andExprs, EPos.frames, List.cons_append, List.nil_append]
      rw [endLoop_skip _ _ _ _ _ (Or.inl (eEend p c true))]
      cases x with
      | inAnd b r =>
        simp only [Ctx.below]
        rw [endLoop_skip _ _ _ _ _ (Or.inr (eA0 p c (r + 1) true))]
        cases b with
        | ty k =>
          simp only [Base.stack]
          rw [endLoop_skip _ _ _ _ _ (Or.inl (eTend p c k true)), endLoop_skip _ _ _ _ _ (Or.inl (eRend p c))]; rfl
        | ex =>
          simp only [Base.stack]
          rw [endLoop_skip _ _ _ _ _ (Or.inl (eXend p c true)), endLoop_skip _ _ _ _ _ (Or.inl (eRend p c))]; rfl
      | first =>
        simp only [Ctx.below]
        rw [endLoop_skip _ _ _ _ _ (Or.inl (eX1 p c true)), endLoop_skip _ _ _ _ _ (Or.inl (eRend p c))]; rfl

/-- the scan at the end of the tokens: the same verdict as the language of the top-level query -/
theorem scan_nil (q : Q) (sim : Bool) : q.scan c sim [] = .done (q.lang c []) := by
  cases q with
  | afterON => simp [Q.scan, sON, Q.lang, afterOnlyNot]
  | afterType k => simp [Q.scan, sAnd, Q.lang, andExprs]
  | afterAnd b r => simp [Q.scan, sAfterAnd, Q.lang, afterAnd]
  | inExpr x e => cases e <;> simp [Q.scan, sLpar, sFeature, sColon, sValue, sAnd, Q.lang, afterLpar, afterFeature, afterColon,
      afterValue, andExprs]

theorem runN_Q (g : Bool) : ∀ (toks : List Tok) (q : Q) (sim : Bool) (n : Nat) (st : LS), toks.length + 1 ≤ n → Ready st →
    st.stack = q.stack true c → st.simm = sim → (∃ f, st.last = some f ∧ f.mayEnd = false) → st.items ≠ [] →
    (∀ t ∈ toks, t.kind ≠ .eof) →
    OutOK (q.scan c sim toks) (loop valueHook (cfgG false g 118) n st toks) := by
  intro toks
  induction toks with
  | nil =>
    intro q sim n st hn hr hst hsm hl hi _
    obtain ⟨m, rfl⟩ : ∃ m, n = m + 1 := ⟨n - 1, by simp at hn; omega⟩
    obtain ⟨f, hf, hm⟩ := hl
    rw [loop_nil _ _ _ _ _ _ hr, scan_nil, ← end_Qp c true q f hm st.errs, ← hst, ← hf]
    exact finishN g 118 st hr hi
  | cons t ts ih =>
    intro q sim n st hn hr hst hsm hl hi he
    obtain ⟨m, rfl⟩ : ∃ m, n = m + 1 := ⟨n - 1, by simp at hn; omega⟩
    have hm : ts.length + 1 ≤ m := by simp at hn; omega
    have he' : ∀ t ∈ ts, t.kind ≠ .eof := fun u hu => he u (List.mem_cons_of_mem _ hu)
    have hte : t.kind ≠ .eof := he t (List.mem_cons_self ..)
    by_cases hc : t.kind = .comment
    · rw [loop_comment _ _ _ _ _ _ _ _ hr hc, scan_skip c t q sim ts (by simp [skip, hc])]
      exact ih q sim m _ hm ⟨hr.saved, hr.filt, hr.pushed, hr.defaultS, hr.stopall, hr.wf⟩ hst hsm hl (by simp) he'
    by_cases hs : t.kind = .s
    · rw [loop_space _ _ _ _ _ _ _ _ hr hs, scan_skip c t q sim ts (by simp [skip, hs])]
      exact ih q sim m st hm hr hst hsm hl hi he'
    have hsk : skip t = false := by simp [skip, hs, hc]
    by_cases hv : t.kind = .invalid
    · rw [scan_bad c t q sim ts hsk (by simp [bad, hv])]
      exact loop_invalid _ _ _ _ _ _ _ _ hr hv
    have hreal : Real t := ⟨hc, hs, hv, hte⟩
    rw [scan_step c t q sim ts hsk (by simp [bad, hv])]
    cases hq : q.step true c t with
    | go f q' =>
      obtain ⟨hd, hp⟩ := step_go true c t q q' f st.last hq
      rw [← hst] at hd
      obtain ⟨st', hloop, hr', hst', hl', hsm', hi'⟩ := loop_prod false g 118 m st t ts hr hreal f _ hd hp
      rw [hloop]
      exact ih q' (f.simm || sim) m st' hm hr' hst' (by rw [hsm', hsm]) ⟨f, hl', hp.mayEnd⟩ hi' he'
    | rej =>
      have hd := step_rej true c t q st.last hq
      rw [← hst] at hd
      simp only []
      rw [← hsm]
      exact loopN_noMatch t _ g 118 m st ts hr hreal _ hd
    | err =>
      obtain ⟨l, s', hd⟩ := step_err true c t q st.last hq
      rw [← hst] at hd
      simp only []
      rw [← hsm]
      exact loopN_parseErr t _ g 118 m st ts hr hreal l s' hd

theorem runN_start (g : Bool) : ∀ (toks : List Tok) (n : Nat) (st : LS), toks.length + 1 ≤ n → Ready st →
    st.stack = [fR true c false] → st.simm = false → st.last = none → (∀ t ∈ toks, t.kind ≠ .eof) →
    OutOK (sQuery c toks) (loop valueHook (cfgG false g 118) n st toks) := by
  intro toks
  induction toks with
  | nil =>
    intro n st hn hr hst _ hl _
    obtain ⟨m, rfl⟩ : ∃ m, n = m + 1 := ⟨n - 1, by simp at hn; omega⟩
    rw [loop_nil _ _ _ _ _ _ hr]
    apply finishN_false g 118 st hr
    rw [hst, endLoop_other _ _ _ _ _ (eR0 true c)]; exact endLoop_false _ _ _
  | cons t ts ih =>
    intro n st hn hr hst hsm hl he
    obtain ⟨m, rfl⟩ : ∃ m, n = m + 1 := ⟨n - 1, by simp at hn; omega⟩
    have hm : ts.length + 1 ≤ m := by simp at hn; omega
    have he' : ∀ t ∈ ts, t.kind ≠ .eof := fun u hu => he u (List.mem_cons_of_mem _ hu)
    have hte : t.kind ≠ .eof := he t (List.mem_cons_self ..)
    by_cases hc : t.kind = .comment
    · rw [loop_comment _ _ _ _ _ _ _ _ hr hc]
      have : sQuery c (t :: ts) = sQuery c ts := by simp [sQuery, skip, hc]
      rw [this]
      exact ih m _ hm ⟨hr.saved, hr.filt, hr.pushed, hr.defaultS, hr.stopall, hr.wf⟩ hst hsm hl he'
    by_cases hs : t.kind = .s
    · rw [loop_space _ _ _ _ _ _ _ _ hr hs]
      have : sQuery c (t :: ts) = sQuery c ts := by simp [sQuery, skip, hs]
      rw [this]
      exact ih m st hm hr hst hsm hl he'
    have hsk : skip t = false := by simp [skip, hs, hc]
    by_cases hv : t.kind = .invalid
    · have : sQuery c (t :: ts) = .fail := by simp [sQuery, hsk, bad, hv]
      rw [this]
      exact loop_invalid _ _ _ _ _ _ _ _ hr hv
    have hreal : Real t := ⟨hc, hs, hv, hte⟩
    have hb : bad t = false := by simp [bad, hv]
    have hd := d_start true c t 115
    rw [← hst, ← hl] at hd
    by_cases h1 : pOnlyNot.eval t = true
    · simp only [h1, if_true] at hd
      obtain ⟨st', hloop, hr', hst', hl', hsm', hi'⟩ :=
        loop_prod false g 118 m st t ts hr hreal fOnlyNot _ hd (by constructor <;> simp [fOnlyNot])
      have : sQuery c (t :: ts) = Q.afterON.scan c false ts := by simp [sQuery, hsk, hb, h1, Q.scan]
      rw [hloop, this]
      exact runN_Q c g ts .afterON false m st' hm hr' hst' (by simp [hsm', hsm, fOnlyNot]) ⟨_, hl', rfl⟩ hi' he'
    by_cases h2 : pKnown.eval t = true
    · simp only [h1, h2, if_true] at hd
      obtain ⟨st', hloop, hr', hst', hl', hsm', hi'⟩ :=
        loop_prod false g 118 m st t ts hr hreal (fType true) _ hd (by constructor <;> simp [fType])
      have : sQuery c (t :: ts) = (Q.afterType true).scan c true ts := by simp [sQuery, hsk, hb, h1, h2, Q.scan]
      rw [hloop, this]
      exact runN_Q c g ts (.afterType true) true m st' hm hr' hst' (by simp [hsm', fType]) ⟨_, hl', rfl⟩ hi' he'
    by_cases h3 : pLpar.eval t = true
    · simp only [h1, h2, h3, if_true] at hd
      obtain ⟨st', hloop, hr', hst', hl', hsm', hi'⟩ :=
        loop_prod false g 118 m st t ts hr hreal fOpen _ hd (by constructor <;> simp [fOpen])
      have : sQuery c (t :: ts) = (Q.inExpr .first .lpar).scan c false ts := by simp [sQuery, hsk, hb, h1, h2, h3, Q.scan]
      rw [hloop, this]
      exact runN_Q c g ts (.inExpr .first .lpar) false m st' hm hr' (by simp [hst', Q.stack, EPos.frames, Ctx.below])
        (by simp [hsm', hsm, fOpen]) ⟨_, hl', rfl⟩ hi' he'
    by_cases h4 : pIdent.eval t = true
    · simp only [h1, h2, h3, h4, if_true] at hd
      obtain ⟨st', hloop, hr', hst', hl', hsm', hi'⟩ :=
        loop_prod false g 118 m st t ts hr hreal (fType false) _ hd (by constructor <;> simp [fType])
      have : sQuery c (t :: ts) = (Q.afterType false).scan c false ts := by simp [sQuery, hsk, hb, h1, h2, h3, h4, Q.scan]
      rw [hloop, this]
      exact runN_Q c g ts (.afterType false) false m st' hm hr' hst' (by simp [hsm', hsm, fType]) ⟨_, hl', rfl⟩ hi' he'
    · simp only [h1, h2, h3, h4] at hd
      have : sQuery c (t :: ts) = .fail := by simp [sQuery, hsk, hb, h1, h2, h3, h4]
      rw [this]
      have := loopN_noMatch t valueHook g 118 m st ts hr hreal _ hd
      rw [hsm] at this
      exact this

/-- the callable of the list grammar, by the scan of the tokens it is given -/
theorem listHook_spec (g : Bool) (k : Nat) (toks pushed : List Tok) (he : ∀ u ∈ t :: toks, u.kind ≠ .eof) :
    ∃ r : Res, listHook c g k t toks [] pushed =
        { item := .nested k r.wf r.items, toks := r.rest, saved := r.saved, pushed := r.pushed, errs := r.errs,
          status := r.status } ∧ r.status = .ok ∧ OutOK (sQuery c (t :: toks)) r := by
  refine ⟨parse valueHook { toplevel := false, global := g } (grammar true c) (t :: toks) [], rfl, ?_, ?_⟩
  · exact parse_total _ _ _ _ _ (grammar_wf _ _) (grammar_noSpin _ _) (grammar_rootOK _ _) valueHook_ok
  · have h : parse valueHook { toplevel := false, global := g } (grammar true c) (t :: toks) [] =
        loop valueHook (cfgG false g 118) ((t :: toks).length + 1) { stack := [fR true c false] } (t :: toks) := rfl
    rw [h]
    exact runN_start c g (t :: toks) _ _ (Nat.le_refl _) ⟨rfl, rfl, rfl, rfl, rfl, rfl⟩ rfl rfl rfl he

/-! ### an item that is in the sequence stays in it -/

theorem rstripRev_keeps (it : Item) (h : it.isS = false) : ∀ l : List Item, it ∈ l → it ∈ rstripRev l
  | [], hm => by cases hm
  | a :: l, hm => by
    simp only [rstripRev]
    split
    · rename_i ha
      rcases List.mem_cons.1 hm with rfl | hm'
      · rw [h] at ha; cases ha
      · exact rstripRev_keeps it h l hm'
    · exact hm

theorem finish_keeps (cfg : Cfg) (st : LS) (toks : List Tok) (it : Item) (h : it.isS = false) (hm : it ∈ st.items) :
    it ∈ (finish cfg st toks).items := by
  unfold finish
  have hne : st.items.isEmpty = false := by
    cases hi : st.items with
    | nil => rw [hi] at hm; cases hm
    | cons a l => rfl
  have h2 := rstripRev_keeps it h st.items hm
  generalize (if st.stopall = true then (st.wf, st.errs, Status.ok) else endLoop st.last st.stack st.wf st.errs) = e
  obtain ⟨w, er, stt⟩ := e
  simp only [hne]
  split
  · simp [hm]
  · split
    · simp_all
    · split <;> simp [h2]

theorem failRes_keeps (st : LS) (toks : List Tok) (s : Status) (it : Item) (hm : it ∈ st.items) :
    it ∈ (failRes st toks s).items := by simp [failRes, hm]

theorem readTok_items (cfg : Cfg) (st : LS) (toks : List Tok) (t : Tok) (st' : LS) (toks' : List Tok)
    (h : readTok cfg st toks = some (t, st', toks')) : st'.items = st.items := by
  unfold readTok at h
  split at h
  · simp only [Option.some.injEq, Prod.mk.injEq] at h
    obtain ⟨rfl, rfl, rfl⟩ := h
    rfl
  · generalize (if (cfg.global && !toks.isEmpty) = true then (st.pushed ++ toks, ([] : List Tok))
        else (toks, st.pushed)) = x at h
    obtain ⟨tk, pu⟩ := x
    simp only at h
    split at h
    · split at h
      · cases h
      · simp only [Option.some.injEq, Prod.mk.injEq] at h
        obtain ⟨rfl, rfl, rfl⟩ := h
        rfl
    · split at h
      · cases h
      · simp only [Option.some.injEq, Prod.mk.injEq] at h
        obtain ⟨rfl, rfl, rfl⟩ := h
        rfl

theorem prodStep_items (hook : Hook) (st : LS) (f : PF) (t : Tok) (toks : List Tok) (it : Item) (hm : it ∈ st.items) :
    it ∈ (prodStep hook st f t toks).1.items := by
  simp only [prodStep]
  split
  · exact hm
  · split
    · exact hm
    · exact List.mem_cons_of_mem _ hm
    · exact List.mem_cons_of_mem _ hm

theorem prodCont_keeps (hook : Hook) (cfg : Cfg) (n : Nat) (f : PF) (t : Tok) (it : Item) (h : it.isS = false)
    (ih : ∀ (st : LS) (toks : List Tok), it ∈ st.items → it ∈ (loop hook cfg n st toks).items)
    (x : LS × List Tok × Status) (hx : it ∈ x.1.items) : it ∈ (prodCont hook cfg n f t x).items := by
  obtain ⟨st2, toks2, hs2⟩ := x
  simp only [prodCont]
  split
  · exact failRes_keeps _ _ _ it hx
  · split
    · exact finish_keeps _ _ _ it h hx
    · split
      · exact finish_keeps _ _ _ it h hx
      · split
        · exact ih _ _ hx
        · exact ih _ _ hx

theorem loop_keeps (hook : Hook) (cfg : Cfg) (it : Item) (h : it.isS = false) :
    ∀ (n : Nat) (st : LS) (toks : List Tok), it ∈ st.items → it ∈ (loop hook cfg n st toks).items := by
  intro n
  induction n with
  | zero => intro st toks hm; simp [loop, failRes, hm]
  | succ n ih =>
    intro st toks hm
    rw [loop_succ]
    cases hr : readTok cfg st toks with
    | none => exact finish_keeps cfg st toks it h hm
    | some x =>
      obtain ⟨t, st', toks'⟩ := x
      have hm' : it ∈ st'.items := by rw [readTok_items cfg st toks t st' toks' hr]; exact hm
      simp only [tokStep]
      split
      · exact ih _ _ (List.mem_cons_of_mem _ hm')
      · split
        · split
          · exact ih _ _ hm'
          · exact ih _ _ (List.mem_cons_of_mem _ hm')
        · split
          · exact finish_keeps _ _ _ it h hm'
          · split
            · exact ih _ _ hm'
            · simp only [descStep]
              split
              · split <;> exact finish_keeps _ _ _ it h hm'
              · split <;> exact finish_keeps _ _ _ it h hm'
              · exact failRes_keeps _ _ _ it hm'
              · exact failRes_keeps _ _ _ it hm'
              · exact failRes_keeps _ _ _ it hm'
              · exact prodCont_keeps hook cfg n _ t it h ih _ (prodStep_items hook _ _ t toks' it hm')

/-! ### the list grammar as named pieces, `nextProd` of its frames -/

def pStart : Pred := .or (.kind .ident) (.val tLpar)
def pComma : Pred := .val tComma
def pComment : Pred := .kind .comment
def fQuery : PF := { name := nQuery, toSeq := .nested nQuery }
def fComma : PF := { name := nComma, toSeq := .drop }

def commentItems : GL := .cons (.prod { name := nComment, optional := true } pComment) .nil
def commaItems : GL := .cons (.prod fComma pComma) (.cons (.prod fQuery pStart) .nil)
def listItems : GL := .cons (.seq commentItems 0 none) (.cons (.prod fQuery pStart) (.cons (.seq commaItems 0 none) .nil))

theorem listGrammar_eq : listGrammar = .seq listItems 1 (some 1) := rfl

abbrev fL (i r : Nat) (s : Bool) : Frame := .seq listItems 1 (some 1) i r s
abbrev fK (i r : Nat) (s : Bool) : Frame := .seq commaItems 0 none i r s

macro "lsimp" "[" ts:Lean.Parser.Tactic.simpLemma,* "]" : tactic => `(tactic|
  simp [Frame.next, seqNext, choiceNext, ltMax, GL.length, GL.get?, GL.firstMatch, GL.anyOptional, G.matchesO, G.matches,
    GL.seqMatches, GL.choiceMatches, G.optional, commentItems, commaItems, listItems, fQuery, fComma, fL, fK, $ts,*])

theorem nL0 (hc : pComment.eval t = false) : (fL 0 0 false).next (some t) =
    if pStart.eval t then .found (.prod fQuery pStart) (fL 2 0 true) else .missing (fL 2 0 false) := by lsimp [hc]
theorem nL2 (s : Bool) : (fL 2 0 s).next (some t) =
    if pComma.eval t then .found (.seq commaItems 0 none) (fL 0 1 true) else .exhausted (fL 0 1 s) := by lsimp []
theorem nLend (s : Bool) (o : Option Tok) : (fL 0 1 s).next o = if o.isSome then .exhausted (fL 0 1 s) else .none_ (fL 0 1 s) := by
  lsimp []
theorem nK0 (r : Nat) (s : Bool) : (fK 0 r s).next (some t) =
    if pComma.eval t then .found (.prod fComma pComma) (fK 1 r true) else .noMatch (fK 1 r false) := by lsimp []
theorem nK1 (r : Nat) : (fK 1 r true).next (some t) =
    if pStart.eval t then .found (.prod fQuery pStart) (fK 0 (r + 1) true) else .missing (fK 0 (r + 1) true) := by lsimp []

theorem eL0 : ((fL 0 0 false).next none).tag = 4 := by lsimp [NP.tag]
theorem eL2 (s : Bool) : ((fL 2 0 s).next none).tag = 1 := by lsimp [NP.tag]
theorem eLend (s : Bool) : ((fL 0 1 s).next none).tag = 1 := by lsimp [NP.tag]
theorem eK0 (r : Nat) (s : Bool) : ((fK 0 r s).next none).tag = 5 := by lsimp [NP.tag]
theorem eK1 (r : Nat) : ((fK 1 r true).next none).tag = 4 := by lsimp [NP.tag]

/-- where a query is expected: at the start, after a comma -/
inductive OQ | start | afterComma (r : Nat)
/-- after a query: the first, a later one -/
inductive OS | first | later (r : Nat)

def OQ.stack : OQ → List Frame
  | .start => [fL 0 0 false]
  | .afterComma r => [fK 1 r true, fL 0 1 true]
def OS.stack : OS → List Frame
  | .first => [fL 2 0 true]
  | .later r => [fK 0 r true, fL 0 1 true]
def OQ.next : OQ → OS
  | .start => .first
  | .afterComma r => .later (r + 1)
def OS.next : OS → OQ
  | .first => .afterComma 0
  | .later r => .afterComma r

theorem dOQ (q : OQ) (last : Option PF) (hc : pComment.eval t = false) :
    descend t 16 q.stack last = if pStart.eval t then .prod fQuery q.next.stack
      else .parseErr last (match q with | .start => [fL 2 0 false] | .afterComma r => [fK 0 (r + 1) true, fL 0 1 true]) := by
  cases q with
  | start => by_cases h : pStart.eval t = true <;> simp [descend, OQ.stack, OQ.next, OS.stack, nL0 t hc, h]
  | afterComma r => by_cases h : pStart.eval t = true <;> simp [descend, OQ.stack, OQ.next, OS.stack, nK1, h]

theorem dOS (s : OS) (last : Option PF) :
    descend t 16 s.stack last = if pComma.eval t then .prod fComma s.next.stack else .noMatch [fL 0 1 true] := by
  cases s with
  | first => by_cases h : pComma.eval t = true <;> simp [descend, fresh, OS.stack, OS.next, OQ.stack, nL2, nK0, nLend, h]
  | later r => by_cases h : pComma.eval t = true <;> simp [descend, fresh, OS.stack, OS.next, OQ.stack, nL2, nK0, nLend, h]

/-! ### the language of media query lists, written independently of the engine

Over the raw tokens (S and COMMENT are skipped where they stand).  `g`: the list is parsed from a string (the token
source is the global tokenizer) — then a token at which a query stopped quietly *inside* an `and ( … )` part
comes back before the next token of the text, if there is one; otherwise (`MediaList` of an `@media` / `@import`
rule, or nothing follows) that token is lost. -/

mutual
  /-- a query is expected -/
  def lQuery (c : List Text) (g : Bool) : Nat → List Tok → Bool
    | 0, _ => false
    | _ + 1, [] => false
    | f + 1, t :: ts =>
      if skip t then lQuery c g f ts else if bad t then false
      else if pStart.eval t then
        match sQuery c (t :: ts) with
        | .done w => w
        | .back x r => lSep c g f (x :: r)
        | .lost x r => if g && !r.isEmpty then lSep c g f (x :: r) else lSep c g f r
        | .fail => false
      else false
  /-- after a query: the end, or a comma and another query -/
  def lSep (c : List Text) (g : Bool) : Nat → List Tok → Bool
    | 0, _ => false
    | _ + 1, [] => true
    | f + 1, t :: ts =>
      if skip t then lSep c g f ts else if bad t then false else if pComma.eval t then lQuery c g f ts else false
end

def listAccepts (c : List Text) (g : Bool) (toks : List Tok) : Bool := lQuery c g (toks.length + 1) toks

/-! ### the verdict of `MediaList._setMediaText` -/

def verdict (r : Res) : Bool := r.wf && (allQueriesWf r.items false).1 && (allQueriesWf r.items false).2

theorem mediaList_verdict (g : Bool) (toks : List Tok) : (mediaList c g toks).1 = verdict (mediaList c g toks).2 := by
  simp only [mediaList, verdict]

theorem allQ_bad : ∀ (l : List Item) (s : Bool), (∃ it ∈ l, Item.queryWf it = some false) → (allQueriesWf l s).1 = false
  | [], _, h => by obtain ⟨it, hm, _⟩ := h; cases hm
  | a :: l, s, h => by
    obtain ⟨it, hm, hq⟩ := h
    simp only [allQueriesWf]
    cases ha : Item.queryWf a with
    | none =>
      simp only []
      rcases List.mem_cons.1 hm with rfl | hm'
      · rw [ha] at hq; cases hq
      · exact allQ_bad l s ⟨it, hm', hq⟩
    | some b =>
      cases b with
      | false => rfl
      | true =>
        simp only []
        rcases List.mem_cons.1 hm with rfl | hm'
        · rw [ha] at hq; cases hq
        · exact allQ_bad l true ⟨it, hm', hq⟩

theorem allQ_ok : ∀ (l : List Item) (s : Bool), (∀ it ∈ l, Item.queryWf it ≠ some false) →
    (allQueriesWf l s).1 = true ∧ ((allQueriesWf l s).2 = true ↔ (s = true ∨ ∃ it ∈ l, Item.queryWf it = some true))
  | [], s, _ => by simp [allQueriesWf]
  | a :: l, s, h => by
    have hl : ∀ it ∈ l, Item.queryWf it ≠ some false := fun it hm => h it (List.mem_cons_of_mem _ hm)
    simp only [allQueriesWf]
    cases ha : Item.queryWf a with
    | none =>
      obtain ⟨h1, h2⟩ := allQ_ok l s hl
      refine ⟨h1, h2.trans ?_⟩
      constructor
      · rintro (h | ⟨it, hm, hq⟩)
        · exact Or.inl h
        · exact Or.inr ⟨it, List.mem_cons_of_mem _ hm, hq⟩
      · rintro (h | ⟨it, hm, hq⟩)
        · exact Or.inl h
        · rcases List.mem_cons.1 hm with rfl | hm'
          · rw [ha] at hq; cases hq
          · exact Or.inr ⟨it, hm', hq⟩
    | some b =>
      cases b with
      | false => exact absurd ha (h a (List.mem_cons_self ..))
      | true =>
        obtain ⟨h1, h2⟩ := allQ_ok l true hl
        refine ⟨h1, ?_⟩
        simp only [h2]
        constructor
        · intro _; exact Or.inr ⟨a, List.mem_cons_self .., ha⟩
        · intro _; exact Or.inl trivial

theorem verdict_bad (r : Res) (h : ∃ it ∈ r.items, Item.queryWf it = some false) : verdict r = false := by
  simp [verdict, allQ_bad r.items false h]

theorem verdict_wf_false (r : Res) (h : r.wf = false) : verdict r = false := by simp [verdict, h]

/-! ### how far a scan reads -/

theorem scan_suffix (q : Q) : ∀ (toks : List Tok) (sim : Bool) (x : Tok) (r : List Tok),
    (q.scan c sim toks = .back x r ∨ q.scan c sim toks = .lost x r) → ∃ pre, toks = pre ++ x :: r := by
  intro toks
  induction toks generalizing q with
  | nil => intro sim x r h; rw [scan_nil] at h; rcases h with h | h <;> cases h
  | cons t ts ih =>
    intro sim x r h
    by_cases hsk : skip t = true
    · rw [scan_skip c t q sim ts hsk] at h
      obtain ⟨pre, hp⟩ := ih q sim x r h
      exact ⟨t :: pre, by rw [hp]; rfl⟩
    have hsk' : skip t = false := by simpa using hsk
    by_cases hb : bad t = true
    · rw [scan_bad c t q sim ts hsk' hb] at h; rcases h with h | h <;> cases h
    have hb' : bad t = false := by simpa using hb
    rw [scan_step c t q sim ts hsk' hb'] at h
    cases hq : q.step true c t with
    | go f q' =>
      rw [hq] at h
      obtain ⟨pre, hp⟩ := ih q' (f.simm || sim) x r h
      exact ⟨t :: pre, by rw [hp]; rfl⟩
    | rej =>
      rw [hq] at h
      cases sim <;> simp at h
      obtain ⟨rfl, rfl⟩ := h; exact ⟨[], rfl⟩
    | err =>
      rw [hq] at h
      cases sim <;> simp at h
      obtain ⟨rfl, rfl⟩ := h; exact ⟨[], rfl⟩

theorem sQuery_suffix (ts : List Tok) (x : Tok) (r : List Tok) (hsk : skip t = false)
    (h : sQuery c (t :: ts) = .back x r ∨ sQuery c (t :: ts) = .lost x r) : ∃ pre, ts = pre ++ x :: r := by
  simp only [sQuery, hsk] at h
  by_cases hb : bad t = true
  · simp [hb] at h
  simp only [hb] at h
  by_cases h1 : pOnlyNot.eval t = true
  · simp only [h1, if_true] at h; exact scan_suffix c .afterON ts false x r h
  by_cases h2 : pKnown.eval t = true
  · simp only [h1, h2, if_true] at h; exact scan_suffix c (.afterType true) ts true x r h
  by_cases h3 : pLpar.eval t = true
  · simp only [h1, h2, h3, if_true] at h; exact scan_suffix c (.inExpr .first .lpar) ts false x r h
  by_cases h4 : pIdent.eval t = true
  · simp only [h1, h2, h3, h4, if_true] at h; exact scan_suffix c (.afterType false) ts false x r h
  · simp [h1, h2, h3, h4] at h

/-! ### one turn of the outer loop -/

/-- the outer loop between two tokens: nothing wrong so far, every query so far well-formed -/
structure OInv (st : LS) : Prop where
  saved : st.saved = []
  filt : st.filt = none
  defaultS : st.defaultS = true
  stopall : st.stopall = false
  wf : st.wf = true
  simm : st.simm = false
  items : ∀ it ∈ st.items, it.isS = false ∧ Item.queryWf it ≠ some false

theorem readO (tl g : Bool) (d : Nat) (st : LS) (ts : List Tok) (h1 : st.saved = []) (h2 : st.filt = none)
    (h3 : g = true → st.pushed = []) : readTok (cfgG tl g d) st (t :: ts) = some (t, st, ts) := by
  cases st; cases g <;> simp_all [readTok, cfgG]

theorem loopO_cons (hook : Hook) (tl g : Bool) (d n : Nat) (st : LS) (ts : List Tok) (h1 : st.saved = [])
    (h2 : st.filt = none) (h3 : g = true → st.pushed = []) :
    loop hook (cfgG tl g d) (n + 1) st (t :: ts) = tokStep hook (cfgG tl g d) n t st ts := by
  rw [loop_succ, readO t tl g d st ts h1 h2 h3]

theorem loopO_nil (hook : Hook) (tl g : Bool) (d n : Nat) (st : LS) (h1 : st.saved = []) (h2 : st.filt = none) :
    loop hook (cfgG tl g d) (n + 1) st [] = finish (cfgG tl g d) st [] := by
  rw [loop_succ]
  cases st; cases g <;> simp_all [readTok, cfgG]

/-- a token handed back through `savedTokens` is the next token -/
theorem loop_saved (hook : Hook) (tl g : Bool) (d n : Nat) (st : LS) (x : Tok) (ts : List Tok) (h1 : st.saved = [x])
    (h2 : st.filt = none) (h3 : st.pushed = []) :
    loop hook (cfgG tl g d) (n + 1) st ts = loop hook (cfgG tl g d) (n + 1) { st with saved := [] } (x :: ts) := by
  rw [loop_succ, loop_succ]
  cases st; cases g <;> simp_all [readTok, cfgG]

/-- a token pushed to the global tokenizer comes back before the next token of the text -/
theorem loop_pushed (hook : Hook) (tl : Bool) (d n : Nat) (st : LS) (x : Tok) (ts : List Tok) (h1 : st.saved = [])
    (h2 : st.filt = none) (h3 : st.pushed = [x]) (hne : ts ≠ []) :
    loop hook (cfgG tl true d) (n + 1) st ts = loop hook (cfgG tl true d) (n + 1) { st with pushed := [] } (x :: ts) := by
  rw [loop_succ, loop_succ]
  cases ts with
  | nil => exact absurd rfl hne
  | cons u us => cases st; simp_all [readTok, cfgG]

theorem finish_endfalse' (cfg : Cfg) (st : LS) (toks : List Tok) (hs : st.stopall = false)
    (h : (endLoop st.last st.stack st.wf st.errs).1 = false) : (finish cfg st toks).wf = false := by
  unfold finish
  simp only [hs]
  generalize endLoop st.last st.stack st.wf st.errs = e at h
  obtain ⟨w, er, stt⟩ := e
  simp at h; subst h
  simp; split <;> (try split) <;> (try split) <;> simp_all

theorem endLoop_missing_none (fr : Frame) (rest : List Frame) (wf : Bool) (errs : List Err)
    (h : (fr.next none).tag = 4) : endLoop none (fr :: rest) wf errs = endLoop none rest wf errs := by
  cases hn : fr.next none <;> simp [hn, NP.tag] at h
  simp [endLoop, hn]

theorem rstripRev_subset (it : Item) : ∀ l : List Item, it ∈ rstripRev l → it ∈ l
  | [], h => h
  | a :: l, h => by
    simp only [rstripRev] at h
    split at h
    · exact List.mem_cons_of_mem _ (rstripRev_subset it l h)
    · exact h

theorem tok_comment (hook : Hook) (cfg : Cfg) (n : Nat) (st : LS) (ts : List Tok) (h : t.kind = .comment) :
    tokStep hook cfg n t st ts = loop hook cfg n { st with items := .comment :: st.items } ts := by simp [tokStep, h]

theorem tok_space (hook : Hook) (tl g : Bool) (d n : Nat) (st : LS) (ts : List Tok) (hd : st.defaultS = true) (h : t.kind = .s) :
    tokStep hook (cfgG tl g d) n t st ts = loop hook (cfgG tl g d) n st ts := by simp [tokStep, h, hd, cfgG]

theorem tok_invalid (hook : Hook) (cfg : Cfg) (n : Nat) (st : LS) (ts : List Tok) (hc : t.kind ≠ .comment) (hs : t.kind ≠ .s)
    (h : t.kind = .invalid) : (tokStep hook cfg n t st ts).wf = false := by
  simp [tokStep, h]; exact finish_false _ _ _ rfl

theorem tok_real (hook : Hook) (cfg : Cfg) (n : Nat) (st : LS) (ts : List Tok) (hk : Real t) :
    tokStep hook cfg n t st ts = descStep hook cfg n { st with started := true } t ts := by
  obtain ⟨k1, k2, k3, k4⟩ := hk
  simp [tokStep, k1, k2, k3, k4]

theorem desc_noMatch (hook : Hook) (cfg : Cfg) (n : Nat) (st : LS) (ts : List Tok) (stack' : List Frame) (hs : st.simm = false)
    (hd : descend t cfg.dfuel st.stack st.last = .noMatch stack') : (descStep hook cfg n st t ts).wf = false := by
  simp only [descStep, hd, hs]; exact finish_false _ _ _ rfl

theorem desc_parseErr (hook : Hook) (cfg : Cfg) (n : Nat) (st : LS) (ts : List Tok) (l : Option PF) (stack' : List Frame)
    (hs : st.simm = false) (hd : descend t cfg.dfuel st.stack st.last = .parseErr l stack') :
    (descStep hook cfg n st t ts).wf = false := by
  simp only [descStep, hd, hs]; exact finish_false _ _ _ rfl

/-- the comma: nothing is recorded, the loop goes on -/
theorem comma_step (hook : Hook) (g : Bool) (n : Nat) (st : LS) (ts : List Tok) (hI : OInv st) (hp : g = true → st.pushed = [])
    (hk : Real t) (stack' : List Frame) (hd : descend t 16 st.stack st.last = .prod fComma stack') :
    ∃ st2, loop hook (cfgG g g 16) (n + 1) st (t :: ts) = loop hook (cfgG g g 16) n st2 ts ∧ OInv st2 ∧ st2.stack = stack' ∧
      st2.last = some fComma ∧ st2.items = st.items ∧ st2.pushed = st.pushed := by
  refine ⟨{ st with started := true, stack := stack', last := some fComma, simm := fComma.simm || st.simm, defaultS := true }, ?_,
    ⟨hI.saved, hI.filt, rfl, hI.stopall, hI.wf, by simp [fComma, hI.simm], hI.items⟩, rfl, rfl, rfl, rfl⟩
  rw [loopO_cons t hook g g 16 n st ts hI.saved hI.filt hp, tok_real t _ _ _ _ _ hk]
  have hd' : descend t (cfgG g g 16).dfuel ({ st with started := true } : LS).stack ({ st with started := true } : LS).last =
      .prod fComma stack' := hd
  simp only [descStep, hd', prodStep, prodCont, fComma]
  simp

/-- a query: the nested parser runs on the same tokens -/
theorem query_step (g : Bool) (n : Nat) (st : LS) (ts : List Tok) (hI : OInv st) (hp : g = true → st.pushed = [])
    (hk : Real t) (stack' : List Frame) (hd : descend t 16 st.stack st.last = .prod fQuery stack')
    (he : ∀ u ∈ t :: ts, u.kind ≠ .eof) :
    ∃ (r : Res) (st2 : LS), r.status = .ok ∧ OutOK (sQuery c (t :: ts)) r ∧
      loop (listHook c g) (cfgG g g 16) (n + 1) st (t :: ts) = loop (listHook c g) (cfgG g g 16) n st2 r.rest ∧
      st2.stack = stack' ∧ st2.last = some fQuery ∧ st2.items = .nested nQuery r.wf r.items :: st.items ∧
      st2.saved = r.saved ∧ st2.pushed = r.pushed ∧ st2.filt = none ∧ st2.defaultS = true ∧ st2.stopall = false ∧
      st2.wf = true ∧ st2.simm = false := by
  obtain ⟨r, hr, hok, hout⟩ := listHook_spec c t g nQuery ts st.pushed he
  let st1 : LS := { st with started := true, stack := stack', last := some fQuery, simm := false, defaultS := true }
  let st2 : LS := { st1 with items := .nested nQuery r.wf r.items :: st.items, saved := r.saved, pushed := r.pushed, errs := r.errs.reverse ++ st.errs }
  refine ⟨r, st2, hok, hout, ?_, rfl, rfl, rfl, rfl, rfl, hI.filt, rfl, hI.stopall, hI.wf, rfl⟩
  rw [loopO_cons t _ g g 16 n st ts hI.saved hI.filt hp, tok_real t _ _ _ _ _ hk]
  have hd' : descend t (cfgG g g 16).dfuel ({ st with started := true } : LS).stack ({ st with started := true } : LS).last =
      .prod fQuery stack' := hd
  simp only [descStep, hd', prodStep, prodCont, fQuery, hI.saved, hr, hok, hI.simm]
  simp
  rfl

/-! ### the list theorem -/

theorem pComment_false (h : t.kind ≠ .comment) : pComment.eval t = false := by
  simp [pComment, Pred.eval, h]

/-- what is known about `lastprod` and the items where a query is expected -/
def OQ.lastOK (st : LS) : OQ → Prop
  | .start => st.last = none ∧ ∀ it ∈ st.items, Item.queryWf it = none
  | .afterComma _ => ∃ f, st.last = some f ∧ f.mayEnd = false

theorem endQ_false (g : Bool) (q : OQ) (st : LS) (hI : OInv st) (hst : st.stack = q.stack) (hl : q.lastOK st) :
    verdict (finish (cfgG g g 16) st []) = false := by
  cases q with
  | start =>
    obtain ⟨hl1, hl2⟩ := hl
    have he : endLoop st.last st.stack st.wf st.errs = (true, st.errs, .ok) := by
      rw [hst, hl1, hI.wf]; simp only [OQ.stack]
      rw [endLoop_missing_none _ _ _ _ eL0]; rfl
    simp only [finish, hI.stopall, he, hI.saved, cfgG]
    by_cases hi : st.items.isEmpty = true
    · simp [hi, verdict]
    · simp only [hi]
      simp only [verdict]
      have hall : ∀ it ∈ (rstripRev st.items).reverse, Item.queryWf it ≠ some false := by
        intro it hm; rw [hl2 it (rstripRev_subset it _ (List.mem_reverse.1 hm))]; simp
      have h2 := (allQ_ok _ false hall).2
      have : (allQueriesWf (rstripRev st.items).reverse false).2 = false := by
        cases hx : (allQueriesWf (rstripRev st.items).reverse false).2 with
        | false => rfl
        | true =>
          rcases h2.1 hx with h | ⟨it, hm, hq⟩
          · cases h
          · rw [hl2 it (rstripRev_subset it _ (List.mem_reverse.1 hm))] at hq; cases hq
      simp [this]
  | afterComma r =>
    obtain ⟨f, hf, hm⟩ := hl
    apply verdict_wf_false
    apply finish_endfalse' _ _ _ hI.stopall
    rw [hst, hf, hI.wf]; simp only [OQ.stack]
    rw [endLoop_missing f _ _ _ _ (eK1 r) hm]; exact endLoop_false _ _ _

theorem endS_true (g : Bool) (s : OS) (st : LS) (hI : OInv st) (hst : st.stack = s.stack)
    (hseen : ∃ it ∈ st.items, Item.queryWf it = some true) : verdict (finish (cfgG g g 16) st []) = true := by
  have he : endLoop st.last st.stack st.wf st.errs = (true, st.errs, .ok) := by
    rw [hst, hI.wf]
    cases s with
    | first => simp only [OS.stack]; rw [endLoop_skip _ _ _ _ _ (Or.inl (eL2 true))]; rfl
    | later r =>
      simp only [OS.stack]
      rw [endLoop_skip _ _ _ _ _ (Or.inr (eK0 r true)), endLoop_skip _ _ _ _ _ (Or.inl (eLend true))]; rfl
  obtain ⟨it0, hm0, hq0⟩ := hseen
  have hne : st.items.isEmpty = false := by
    cases hi : st.items with
    | nil => rw [hi] at hm0; cases hm0
    | cons a l => rfl
  simp only [finish, hI.stopall, he, hI.saved, cfgG, hne]
  simp only [verdict]
  have hall : ∀ it ∈ (rstripRev st.items).reverse, Item.queryWf it ≠ some false := by
    intro it hm; exact (hI.items it (rstripRev_subset it _ (List.mem_reverse.1 hm))).2
  obtain ⟨h1, h2⟩ := allQ_ok _ false hall
  have h3 : (allQueriesWf (rstripRev st.items).reverse false).2 = true :=
    h2.2 (Or.inr ⟨it0, List.mem_reverse.2 (rstripRev_keeps it0 (hI.items it0 hm0).1 _ hm0), hq0⟩)
  simp [h1, h3]

theorem runO (g : Bool) : ∀ (f : Nat),
    (∀ (toks : List Tok) (n : Nat) (st : LS) (q : OQ), toks.length + 1 ≤ f → toks.length + 1 ≤ n → OInv st →
      st.stack = q.stack → (g = true → st.pushed = [] ∨ toks = []) → (∀ t ∈ toks, t.kind ≠ .eof) → q.lastOK st →
      verdict (loop (listHook c g) (cfgG g g 16) n st toks) = lQuery c g f toks) ∧
    (∀ (toks : List Tok) (n : Nat) (st : LS) (s : OS), toks.length + 1 ≤ f → toks.length + 1 ≤ n → OInv st →
      st.stack = s.stack → (g = true → st.pushed = [] ∨ toks = []) → (∀ t ∈ toks, t.kind ≠ .eof) →
      (∃ it ∈ st.items, Item.queryWf it = some true) →
      verdict (loop (listHook c g) (cfgG g g 16) n st toks) = lSep c g f toks) := by
  intro f
  induction f with
  | zero => exact ⟨fun toks n st q h => by omega, fun toks n st s h => by omega⟩
  | succ f ih =>
    obtain ⟨ihQ, ihS⟩ := ih
    constructor
    · -- a query is expected
      intro toks n st q hf hn hI hst hp he hl
      obtain ⟨m, rfl⟩ : ∃ m, n = m + 1 := ⟨n - 1, by omega⟩
      cases toks with
      | nil =>
        rw [loopO_nil _ _ _ _ _ _ hI.saved hI.filt, endQ_false g q st hI hst hl]; simp [lQuery]
      | cons t ts =>
        have hp' : g = true → st.pushed = [] := fun hg => (hp hg).resolve_right (by simp)
        have hf' : ts.length + 1 ≤ f := by simp at hf; omega
        have hm : ts.length + 1 ≤ m := by simp at hn; omega
        have he' : ∀ t ∈ ts, t.kind ≠ .eof := fun u hu => he u (List.mem_cons_of_mem _ hu)
        have hte : t.kind ≠ .eof := he t (List.mem_cons_self ..)
        rw [loopO_cons t _ g g 16 m st ts hI.saved hI.filt hp']
        by_cases hc : t.kind = .comment
        · rw [tok_comment t _ _ _ _ _ hc]
          have : lQuery c g (f + 1) (t :: ts) = lQuery c g f ts := by simp [lQuery, skip, hc]
          rw [this]
          refine ihQ ts m _ q hf' hm ⟨hI.saved, hI.filt, hI.defaultS, hI.stopall, hI.wf, hI.simm, ?_⟩ hst
            (fun hg => Or.inl (hp' hg)) he' ?_
          · intro it hm'
            rcases List.mem_cons.1 hm' with rfl | h
            · exact ⟨rfl, by simp [Item.queryWf]⟩
            · exact hI.items it h
          · cases q with
            | start =>
              refine ⟨hl.1, ?_⟩
              intro it hm'
              rcases List.mem_cons.1 hm' with rfl | h
              · rfl
              · exact hl.2 it h
            | afterComma r => exact hl
        by_cases hs : t.kind = .s
        · rw [tok_space t _ g g 16 m st ts hI.defaultS hs]
          have : lQuery c g (f + 1) (t :: ts) = lQuery c g f ts := by simp [lQuery, skip, hs]
          rw [this]
          exact ihQ ts m st q hf' hm hI hst (fun hg => Or.inl (hp' hg)) he' hl
        have hsk : skip t = false := by simp [skip, hs, hc]
        by_cases hv : t.kind = .invalid
        · rw [verdict_wf_false _ (tok_invalid t _ _ _ _ _ hc hs hv)]
          simp [lQuery, hsk, bad, hv]
        have hreal : Real t := ⟨hc, hs, hv, hte⟩
        have hb : bad t = false := by simp [bad, hv]
        have hd := dOQ t q st.last (pComment_false t hc)
        rw [← hst] at hd
        by_cases hps : pStart.eval t = true
        · simp only [hps, if_true] at hd
          rw [← loopO_cons t _ g g 16 m st ts hI.saved hI.filt hp']
          obtain ⟨r, st2, hok, hout, hloop, h1, h2, h3, h4, h5, h6, h7, h8, h9, h10⟩ :=
            query_step c t g m st ts hI hp' hreal _ hd he
          rw [hloop]
          have hlq : lQuery c g (f + 1) (t :: ts) = match sQuery c (t :: ts) with
              | .done w => w
              | .back x r => lSep c g f (x :: r)
              | .lost x r => if g && !r.isEmpty then lSep c g f (x :: r) else lSep c g f r
              | .fail => false := by simp [lQuery, hsk, hb, hps]
          rw [hlq]
          have hitems : ∀ it ∈ st2.items, r.wf = true → it.isS = false ∧ Item.queryWf it ≠ some false := by
            intro it hm' hw
            rw [h3] at hm'
            rcases List.mem_cons.1 hm' with rfl | h
            · exact ⟨rfl, by simp [Item.queryWf, hw]⟩
            · exact hI.items it h
          have hbadv : r.wf = false → verdict (loop (listHook c g) (cfgG g g 16) m st2 r.rest) = false := by
            intro hw
            apply verdict_bad
            exact ⟨.nested nQuery r.wf r.items, loop_keeps _ _ _ rfl m st2 r.rest (by rw [h3]; exact List.mem_cons_self ..),
              by simp [Item.queryWf, hw]⟩
          have hseen : r.wf = true → ∃ it ∈ st2.items, Item.queryWf it = some true := by
            intro hw
            exact ⟨.nested nQuery r.wf r.items, by rw [h3]; exact List.mem_cons_self .., by simp [Item.queryWf, hw]⟩
          cases hsq : sQuery c (t :: ts) with
          | done w =>
            rw [hsq] at hout
            obtain ⟨o1, o2, o3, o4⟩ := hout
            simp only []
            cases w with
            | false => exact hbadv o1
            | true =>
              rw [o2]
              have hI2 : OInv st2 := ⟨by rw [h4, o3], h6, h7, h8, h9, h10, fun it hm' => hitems it hm' o1⟩
              rw [ihS [] m st2 q.next (by simp; omega) (by simp; omega) hI2 h1 (fun _ => Or.inr rfl) (by simp) (hseen o1)]
              obtain ⟨f', rfl⟩ : ∃ f', f = f' + 1 := ⟨f - 1, by omega⟩
              simp [lSep]
          | back x rest =>
            rw [hsq] at hout
            obtain ⟨o1, o2, o3, o4⟩ := hout
            simp only []
            obtain ⟨pre, hpre⟩ := sQuery_suffix c t ts x rest hsk (Or.inl hsq)
            have hlen : rest.length + 1 ≤ ts.length := by rw [hpre]; simp
            obtain ⟨m', rfl⟩ : ∃ m', m = m' + 1 := ⟨m - 1, by omega⟩
            rw [o2, loop_saved _ g g 16 m' st2 x rest (by rw [h4, o3]) h6 (by rw [h5, o4])]
            have hI2 : OInv { st2 with saved := [] } := ⟨rfl, h6, h7, h8, h9, h10, fun it hm' => hitems it hm' o1⟩
            have hex : ∀ u ∈ x :: rest, u.kind ≠ .eof := fun u hu => he' u (by rw [hpre]; exact List.mem_append_right _ hu)
            exact ihS (x :: rest) (m' + 1) _ q.next (by simp; omega) (by simp; omega) hI2 h1
              (fun _ => Or.inl (by show st2.pushed = []; rw [h5, o4])) hex (hseen o1)
          | lost x rest =>
            rw [hsq] at hout
            obtain ⟨o1, o2, o3, o4⟩ := hout
            simp only []
            obtain ⟨pre, hpre⟩ := sQuery_suffix c t ts x rest hsk (Or.inr hsq)
            have hlen : rest.length + 1 ≤ ts.length := by rw [hpre]; simp
            have hex : ∀ u ∈ x :: rest, u.kind ≠ .eof := fun u hu => he' u (by rw [hpre]; exact List.mem_append_right _ hu)
            by_cases hgr : (g && !rest.isEmpty) = true
            · simp only [hgr, if_true]
              have hg : g = true := by simp at hgr; exact hgr.1
              have hne : rest ≠ [] := by simp at hgr; exact hgr.2
              subst hg
              obtain ⟨m', rfl⟩ : ∃ m', m = m' + 1 := ⟨m - 1, by omega⟩
              rw [o2, loop_pushed _ true 16 m' st2 x rest (by rw [h4, o3]) h6 (by rw [h5, o4]) hne]
              have hI2 : OInv { st2 with pushed := [] } := ⟨by show st2.saved = []; rw [h4, o3], h6, h7, h8, h9, h10,
                fun it hm' => hitems it hm' o1⟩
              exact ihS (x :: rest) (m' + 1) _ q.next (by simp; omega) (by simp; omega) hI2 h1 (fun _ => Or.inl rfl) hex (hseen o1)
            · simp only [hgr]
              rw [o2]
              have hI2 : OInv st2 := ⟨by rw [h4, o3], h6, h7, h8, h9, h10, fun it hm' => hitems it hm' o1⟩
              refine ihS rest m st2 q.next (by omega) (by omega) hI2 h1 (fun hg => Or.inr ?_)
                (fun u hu => hex u (List.mem_cons_of_mem _ hu)) (hseen o1)
              cases rest with
              | nil => rfl
              | cons a b => simp [hg] at hgr
          | fail =>
            rw [hsq] at hout
            exact hbadv hout
        · have hps' : pStart.eval t = false := by simpa using hps
          rw [hps'] at hd
          simp only [Bool.false_eq_true, if_false] at hd
          rw [tok_real t _ _ _ _ _ hreal]
          rw [verdict_wf_false _ (desc_parseErr t (listHook c g) (cfgG g g 16) m { st with started := true } ts _ _ hI.simm hd)]
          simp [lQuery, hsk, hb, hps']
    · -- after a query
      intro toks n st s hf hn hI hst hp he hseen
      obtain ⟨m, rfl⟩ : ∃ m, n = m + 1 := ⟨n - 1, by omega⟩
      cases toks with
      | nil =>
        rw [loopO_nil _ _ _ _ _ _ hI.saved hI.filt, endS_true g s st hI hst hseen]; simp [lSep]
      | cons t ts =>
        have hp' : g = true → st.pushed = [] := fun hg => (hp hg).resolve_right (by simp)
        have hf' : ts.length + 1 ≤ f := by simp at hf; omega
        have hm : ts.length + 1 ≤ m := by simp at hn; omega
        have he' : ∀ t ∈ ts, t.kind ≠ .eof := fun u hu => he u (List.mem_cons_of_mem _ hu)
        have hte : t.kind ≠ .eof := he t (List.mem_cons_self ..)
        rw [loopO_cons t _ g g 16 m st ts hI.saved hI.filt hp']
        by_cases hc : t.kind = .comment
        · rw [tok_comment t _ _ _ _ _ hc]
          have : lSep c g (f + 1) (t :: ts) = lSep c g f ts := by simp [lSep, skip, hc]
          rw [this]
          obtain ⟨it0, hm0, hq0⟩ := hseen
          refine ihS ts m _ s hf' hm ⟨hI.saved, hI.filt, hI.defaultS, hI.stopall, hI.wf, hI.simm, ?_⟩ hst
            (fun hg => Or.inl (hp' hg)) he' ⟨it0, List.mem_cons_of_mem _ hm0, hq0⟩
          intro it hm'
          rcases List.mem_cons.1 hm' with rfl | h
          · exact ⟨rfl, by simp [Item.queryWf]⟩
          · exact hI.items it h
        by_cases hs : t.kind = .s
        · rw [tok_space t _ g g 16 m st ts hI.defaultS hs]
          have : lSep c g (f + 1) (t :: ts) = lSep c g f ts := by simp [lSep, skip, hs]
          rw [this]
          exact ihS ts m st s hf' hm hI hst (fun hg => Or.inl (hp' hg)) he' hseen
        have hsk : skip t = false := by simp [skip, hs, hc]
        by_cases hv : t.kind = .invalid
        · rw [verdict_wf_false _ (tok_invalid t _ _ _ _ _ hc hs hv)]
          simp [lSep, hsk, bad, hv]
        have hreal : Real t := ⟨hc, hs, hv, hte⟩
        have hb : bad t = false := by simp [bad, hv]
        have hd := dOS t s st.last
        rw [← hst] at hd
        by_cases hcm : pComma.eval t = true
        · simp only [hcm, if_true] at hd
          rw [← loopO_cons t _ g g 16 m st ts hI.saved hI.filt hp']
          obtain ⟨st2, hloop, hI2, h1, h2, h3, h4⟩ := comma_step t (listHook c g) g m st ts hI hp' hreal _ hd
          rw [hloop]
          have : lSep c g (f + 1) (t :: ts) = lQuery c g f ts := by simp [lSep, hsk, hb, hcm]
          rw [this]
          refine ihQ ts m st2 s.next hf' hm hI2 h1 (fun hg => Or.inl (by rw [h4]; exact hp' hg)) he' ?_
          cases s <;> exact ⟨fComma, h2, rfl⟩
        · have hcm' : pComma.eval t = false := by simpa using hcm
          rw [hcm'] at hd
          simp only [Bool.false_eq_true, if_false] at hd
          rw [tok_real t _ _ _ _ _ hreal]
          rw [verdict_wf_false _ (desc_noMatch t (listHook c g) (cfgG g g 16) m { st with started := true } ts _ hI.simm hd)]
          simp [lSep, hsk, hb, hcm']

/-- **Media-query-list correctness.**  For every token list without an EOF token, the verdict of
    `MediaList(text)` (`g = true`) / `MediaList._setMediaText(tokens)` (`g = false`) — the engine running the list
    grammar, every query parsed by a nested engine run on the same token stream — is `listAccepts`. -/
theorem mediaList_correct (g : Bool) (toks : List Tok) (he : ∀ t ∈ toks, t.kind ≠ .eof) :
    (mediaList c g toks).1 = listAccepts c g toks := by
  rw [mediaList_verdict]
  have h : (mediaList c g toks).2 =
      loop (listHook c g) (cfgG g g 16) (toks.length + 1) { stack := [fL 0 0 false] } toks := rfl
  rw [h]
  exact (runO c g (toks.length + 1)).1 toks _ _ .start (Nat.le_refl _) (Nat.le_refl _)
    ⟨rfl, rfl, rfl, rfl, rfl, rfl, fun it hm => by cases hm⟩ rfl (fun _ => Or.inl rfl) he
    ⟨rfl, fun it hm => by cases hm⟩

/-! ### concrete lists (kernel-evaluated) -/

def tTv : Tok := ident [116, 118]
def tCommaTok : Tok := chr 44

/-- `print, tv` and `print and (width: 1px), tv`: accepted in both modes, and the engine says so -/
example : listAccepts [] true [tPrint, tCommaTok, tTv] = true ∧ (mediaList [] true [tPrint, tCommaTok, tTv]).1 = true ∧
    listAccepts [] false [tPrint, tAndTok, chr 40, tWidth, chr 58, tDim, chr 41, tCommaTok, tTv] = true ∧
    (mediaList [] false [tPrint, tAndTok, chr 40, tWidth, chr 58, tDim, chr 41, tCommaTok, tTv]).1 = true := by decide

/-- `print and , tv`: from a string the comma at which the first query stops quietly comes back (accepted, two
    queries `print and` and `tv`); from a token list it is lost and `tv` is an error.
    `print and ;` is accepted in both modes. -/
example : listAccepts [] true [tPrint, tAndTok, tCommaTok, tTv] = true ∧ listAccepts [] false [tPrint, tAndTok, tCommaTok, tTv] = false ∧
    listAccepts [] true [tPrint, tAndTok, chr 59] = true ∧ listAccepts [] false [tPrint, tAndTok, chr 59] = true := by decide

/-- an unknown media type is accepted only where nothing follows it: `print, foo` but not `foo, print` -/
example : listAccepts [] true [tPrint, tCommaTok, tFoo] = true ∧ listAccepts [] true [tFoo, tCommaTok, tPrint] = false := by decide

/-- from a string the verdict is NOT independent of comments: after `print and ;` a trailing comment makes the
    pushed-back `;` visible -/
example : listAccepts [] true [tPrint, tAndTok, chr 59] = true ∧
    listAccepts [] true [tPrint, tAndTok, chr 59, ⟨.comment, [], []⟩] = false := by decide

/-- empty list, lone comma, trailing comma, missing comma: rejected -/
example : listAccepts [] true [] = false ∧ listAccepts [] true [tCommaTok, tPrint] = false ∧
    listAccepts [] true [tPrint, tCommaTok] = false ∧ listAccepts [] true [tPrint, tTv] = false := by decide

end CssVerif.PP.MQ
