/-
Refinement of the coded `CSSStyleDeclaration` methods to the ordered entry-list specification.
-/
import CssVerif.Model.Decl
namespace CssVerif.Decl

/-! ### `__nnames` -/

theorem nnamesRev_append (xs ys : List Entry) (acc : List Nat) :
    nnamesRev (xs ++ ys) acc = nnamesRev ys (nnamesRev xs acc) := by
  induction xs generalizing acc with
  | nil => rfl
  | cons x xs ih =>
    simp only [List.cons_append, nnamesRev]
    split <;> exact ih _

theorem mem_nnamesRev (xs : List Entry) (acc : List Nat) (n : Nat) :
    n ∈ nnamesRev xs acc ↔ n ∈ acc ∨ ∃ e ∈ xs, e.name = n := by
  induction xs generalizing acc with
  | nil => simp [nnamesRev]
  | cons x xs ih =>
    simp only [nnamesRev]
    split
    · rename_i hc
      rw [ih]
      constructor
      · rintro (h | ⟨e, he, hn⟩)
        · exact Or.inl h
        · exact Or.inr ⟨e, List.mem_cons_of_mem _ he, hn⟩
      · rintro (h | ⟨e, he, hn⟩)
        · exact Or.inl h
        · rcases List.mem_cons.mp he with rfl | he'
          · left; subst hn; simpa using hc
          · exact Or.inr ⟨e, he', hn⟩
    · rw [ih]
      constructor
      · rintro (h | ⟨e, he, hn⟩)
        · rcases List.mem_append.mp h with h | h
          · exact Or.inl h
          · right; exact ⟨x, List.mem_cons_self, (List.mem_singleton.mp h).symm⟩
        · exact Or.inr ⟨e, List.mem_cons_of_mem _ he, hn⟩
      · rintro (h | ⟨e, he, hn⟩)
        · exact Or.inl (List.mem_append_left _ h)
        · rcases List.mem_cons.mp he with rfl | he'
          · left; subst hn; simp
          · exact Or.inr ⟨e, he', hn⟩

/-- `key in style` ⇔ some entry has that name -/
theorem mem_nnames (l : Block) (n : Nat) : n ∈ nnames l ↔ ∃ e ∈ l, e.name = n := by
  simp only [nnames, List.mem_reverse, mem_nnamesRev, List.not_mem_nil, false_or]

theorem nnames_cons (e : Entry) (es : Block) :
    nnames (e :: es) = if es.any (fun x => x.name = e.name) then nnames es else e.name :: nnames es := by
  have hmem : (nnamesRev es.reverse []).contains e.name = es.any (fun x => x.name = e.name) := by
    rw [Bool.eq_iff_iff]
    simp only [List.contains_iff_mem, List.any_eq_true, decide_eq_true_eq]
    have := mem_nnames es e.name
    simp only [nnames, List.mem_reverse] at this
    exact this
  simp only [nnames, List.reverse_cons, nnamesRev_append, nnamesRev]
  rw [hmem]
  split
  · rfl
  · simp

/-- keys / length / item / iteration order: distinct names ordered by last occurrence -/
theorem names_spec (l : Block) : nnames l = namesSpec l := by
  induction l with
  | nil => rfl
  | cons e es ih => rw [nnames_cons, namesSpec, ih]

theorem namesSpec_nodup (l : Block) : (namesSpec l).Nodup := by
  induction l with
  | nil => simp [namesSpec]
  | cons e es ih =>
    simp only [namesSpec]
    split
    · exact ih
    · rename_i h
      refine List.nodup_cons.mpr ⟨?_, ih⟩
      rw [← names_spec, mem_nnames]
      intro ⟨x, hx, hn⟩
      apply h
      exact List.any_eq_true.mpr ⟨x, hx, by simpa using hn⟩

theorem nnames_nodup (l : Block) : (nnames l).Nodup := by
  rw [names_spec]; exact namesSpec_nodup l

/-! ### `getProperty` -/

theorem scanE_spec (r : List Entry) (n : Nat) (found : Option Entry) :
    scanE r n found =
      (r.find? (fun e => e.name = n && e.imp)).or (found.or (r.find? (fun e => e.name = n))) := by
  induction r generalizing found with
  | nil => cases found <;> rfl
  | cons e es ih =>
    simp only [scanE, List.find?_cons]
    by_cases hn : e.name = n
    · by_cases hi : e.imp = true
      · simp [hn, hi]
      · simp only [hn, hi, Bool.false_eq_true, if_false, if_true, decide_true, Bool.and_false]
        rw [ih]
        cases found <;> simp
    · simp only [hn, if_false, decide_false, Bool.false_and]
      exact ih found

theorem getLast?_filter_eq_find?_reverse (p : Entry → Bool) (l : List Entry) :
    (l.filter p).getLast? = l.reverse.find? p := by
  rw [List.getLast?_eq_head?_reverse, ← List.filter_reverse, List.head?_filter]

/-- **effective lookup**: `getProperty` returns the last important entry of that name, else the last -/
theorem get_effective (l : Block) (n : Nat) : getProperty l n = effective l n := by
  simp [getProperty, effective, scanE_spec, getLast?_filter_eq_find?_reverse]

theorem effective_mem (l : Block) (n : Nat) (e : Entry) (h : effective l n = some e) :
    e ∈ l ∧ e.name = n := by
  simp only [effective, Option.or_eq_some_iff] at h
  rcases h with h | ⟨_, h⟩
  · have := List.mem_of_getLast? h
    simp only [List.mem_filter, Bool.and_eq_true, decide_eq_true_eq] at this
    exact ⟨this.1, this.2.1⟩
  · have := List.mem_of_getLast? h
    simp only [List.mem_filter, decide_eq_true_eq] at this
    exact this

theorem effective_isSome_iff (l : Block) (n : Nat) : (effective l n).isSome ↔ ∃ e ∈ l, e.name = n := by
  constructor
  · intro h
    cases he : effective l n with
    | none => rw [he] at h; cases h
    | some e => exact ⟨e, effective_mem l n e he⟩
  · rintro ⟨e, he, hn⟩
    have hm : e ∈ l.filter (fun e => decide (e.name = n)) := by simp [he, hn]
    simp only [effective, Option.isSome_or, Bool.or_eq_true]
    right
    cases hl : (l.filter (fun e => decide (e.name = n))).getLast? with
    | none => rw [List.getLast?_eq_none_iff] at hl; rw [hl] at hm; cases hm
    | some x => rfl

/-- `in`, `keys` and `getProperty` agree -/
theorem contains_iff_get (l : Block) (n : Nat) : contains l n = (getProperty l n).isSome := by
  rw [Bool.eq_iff_iff, get_effective, effective_isSome_iff]
  simp only [contains, List.contains_iff_mem, mem_nnames]

theorem effective_name (l : Block) (n : Nat) (e : Entry) (h : effective l n = some e) :
    e ∈ l ∧ e.name = n := effective_mem l n e h

/-- iteration yields exactly one (effective) property per key -/
theorem iter_all_some (l : Block) : ∀ x ∈ iter l, ∃ e, x = some e ∧ e ∈ l := by
  intro x hx
  simp only [iter, List.mem_map] at hx
  obtain ⟨n, hn, rfl⟩ := hx
  have h1 : (getProperty l n).isSome := by
    rw [← contains_iff_get]; simpa [contains] using hn
  cases hg : getProperty l n with
  | none => rw [hg] at h1; cases h1
  | some e =>
    rw [get_effective] at hg
    exact ⟨e, rfl, (effective_name l n e hg).1⟩

theorem iter_names (l : Block) : (iter l).map (fun x => x.map (·.name)) = (keys l).map some := by
  simp only [iter, keys, List.map_map]
  apply List.map_congr_left
  intro n hn
  have h1 : (getProperty l n).isSome := by
    rw [← contains_iff_get]; simpa [contains] using hn
  simp only [Function.comp]
  cases hg : getProperty l n with
  | none => rw [hg] at h1; cases h1
  | some e =>
    rw [get_effective] at hg
    simp [(effective_name l n e hg).2]

/-! ### `removeProperty` -/

theorem remove_spec (l : Block) (n : Nat) :
    (∀ e ∈ removeProperty l n, e.name ≠ n) ∧
    (∀ m, m ≠ n → (removeProperty l n).filter (fun e => e.name = m) = l.filter (fun e => e.name = m)) ∧
    (removeProperty l n).Sublist l := by
  refine ⟨?_, ?_, List.filter_sublist⟩
  · intro e he
    simp only [removeProperty, List.mem_filter, decide_eq_true_eq] at he
    exact he.2
  · intro m hm
    simp only [removeProperty, List.filter_filter]
    apply List.filter_congr
    intro e _
    by_cases h : e.name = m
    · simp [h, hm]
    · simp [h]

theorem remove_get_none (l : Block) (n : Nat) : getProperty (removeProperty l n) n = none := by
  rw [get_effective]
  cases h : effective (removeProperty l n) n with
  | none => rfl
  | some e =>
    have := effective_name _ _ _ h
    exact absurd this.2 ((remove_spec l n).1 e this.1)

theorem effective_congr (l l' : Block) (m : Nat)
    (h : l'.filter (fun e => e.name = m) = l.filter (fun e => e.name = m)) :
    effective l' m = effective l m := by
  have h2 : l'.filter (fun e => decide (e.name = m) && e.imp) = l.filter (fun e => decide (e.name = m) && e.imp) := by
    have e1 : ∀ (x : Block), x.filter (fun e => decide (e.name = m) && e.imp)
        = (x.filter (fun e => decide (e.name = m))).filter (fun e => e.imp) := by
      intro x
      rw [List.filter_filter]
      apply List.filter_congr
      intro e _
      by_cases h1 : e.name = m <;> by_cases h2 : e.imp = true <;> simp [h1, h2]
    rw [e1, e1, h]
  simp only [effective, h, h2]

theorem remove_get_other (l : Block) (n m : Nat) (hm : m ≠ n) :
    getProperty (removeProperty l n) m = getProperty l m := by
  rw [get_effective, get_effective]
  exact effective_congr _ _ _ ((remove_spec l n).2.1 m hm)

/-! ### `setProperty` -/

theorem set_append_when_absent (l : Block) (n lit v : Nat) (imp rep : Bool)
    (h : ∀ e ∈ l, e.name ≠ n) : setProperty l n lit v imp rep = l ++ [⟨n, lit, v, imp⟩] := by
  have hnone : getProperty l n = none := by
    cases hg : getProperty l n with
    | none => rfl
    | some e =>
      rw [get_effective] at hg
      have := effective_name _ _ _ hg
      exact absurd this.2 (h e this.1)
  simp only [setProperty, hnone]
  split <;> rfl

theorem set_noreplace (l : Block) (n lit v : Nat) (imp : Bool) :
    setProperty l n lit v imp false = l ++ [⟨n, lit, v, imp⟩] := by
  simp [setProperty]

theorem updFirst_length (p : Entry → Bool) (f : Entry → Entry) (r : List Entry) :
    (updFirst p f r).length = r.length := by
  induction r with
  | nil => rfl
  | cons e es ih => simp only [updFirst]; split <;> simp [ih]

theorem updFirst_names (p : Entry → Bool) (f : Entry → Entry) (hf : ∀ e, (f e).name = e.name)
    (r : List Entry) : (updFirst p f r).map (·.name) = r.map (·.name) := by
  induction r with
  | nil => rfl
  | cons e es ih => simp only [updFirst]; split <;> simp [ih, hf]

/-- a replace never changes the number of entries, their order of names or any literal name when
the property is present; it appends exactly one entry when absent -/
theorem set_replace_shape (l : Block) (n lit v : Nat) (imp : Bool) :
    ((∃ e ∈ l, e.name = n) →
      (setProperty l n lit v imp true).map (·.name) = l.map (·.name)) ∧
    ((∀ e ∈ l, e.name ≠ n) → setProperty l n lit v imp true = l ++ [⟨n, lit, v, imp⟩]) := by
  refine ⟨?_, set_append_when_absent l n lit v imp true⟩
  intro hex
  have hsome : (getProperty l n).isSome := by
    rw [get_effective, effective_isSome_iff]; exact hex
  cases hg : getProperty l n with
  | none => rw [hg] at hsome; cases hsome
  | some e0 =>
    simp only [setProperty, if_true, hg]
    split
    · rw [List.map_reverse, updFirst_names _ (fun e => { e with val := v, imp := imp }) (fun _ => rfl),
        List.map_reverse, List.reverse_reverse]
    · rw [List.map_reverse, updFirst_names _ (fun e => { e with val := v, imp := imp }) (fun _ => rfl),
        List.map_reverse, List.reverse_reverse]

/-! ### blocks without duplicate names -/

theorem filter_name_of_nodup (l : Block) (hnd : (l.map (·.name)).Nodup) (e : Entry) (he : e ∈ l) :
    l.filter (fun x => x.name = e.name) = [e] := by
  induction l with
  | nil => cases he
  | cons x xs ih =>
    simp only [List.map_cons, List.nodup_cons, List.mem_map, not_exists, not_and] at hnd
    simp only [List.filter_cons]
    rcases List.mem_cons.mp he with rfl | he'
    · simp only [decide_true, if_true]
      congr 1
      apply List.filter_eq_nil_iff.mpr
      intro y hy
      simp only [decide_eq_true_eq]
      intro hyn
      exact hnd.1 y hy hyn
    · have hne : x.name ≠ e.name := fun h => hnd.1 e he' h.symm
      simp only [hne, decide_false, Bool.false_eq_true, if_false]
      exact ih hnd.2 he'

theorem updFirst_unique (p : Entry → Bool) (f : Entry → Entry) (a b : List Entry) (e : Entry)
    (ha : ∀ x ∈ a, p x = false) (he : p e = true) :
    updFirst p f (a ++ e :: b) = a ++ f e :: b := by
  induction a with
  | nil => simp [updFirst, he]
  | cons x xs ih =>
    simp only [List.cons_append, updFirst, ha x List.mem_cons_self, Bool.false_eq_true, if_false]
    rw [ih (fun y hy => ha y (List.mem_cons_of_mem _ hy))]

/-- **read after set** (blocks without duplicate names, default replace): the property just set is
the effective one and carries the value and priority that were set -/
theorem read_after_set (l : Block) (hnd : (l.map (·.name)).Nodup) (n lit v : Nat) (imp : Bool) :
    ∃ e, getProperty (setProperty l n lit v imp true) n = some e ∧ e.name = n ∧ e.val = v ∧ e.imp = imp := by
  by_cases hex : ∃ e ∈ l, e.name = n
  · obtain ⟨e0, he0, hn0⟩ := hex
    obtain ⟨a, b, hab⟩ := List.append_of_mem he0
    have hnd' := hnd
    rw [hab] at hnd'
    simp only [List.map_append, List.map_cons] at hnd'
    have hA : ∀ x ∈ a, x.name ≠ n := by
      intro x hx hxn
      have := (List.nodup_append.mp hnd').2.2 x.name (List.mem_map_of_mem hx) e0.name (by simp)
      exact this (by rw [hxn, hn0])
    have hB : ∀ x ∈ b, x.name ≠ n := by
      intro x hx hxn
      have h2 := (List.nodup_append.mp hnd').2.1
      rw [List.nodup_cons] at h2
      exact h2.1 (by rw [hn0, ← hxn]; exact List.mem_map_of_mem hx)
    have hsome : (getProperty l n).isSome := by
      rw [get_effective, effective_isSome_iff]; exact ⟨e0, he0, hn0⟩
    let e1 : Entry := { e0 with val := v, imp := imp }
    have hset : setProperty l n lit v imp true = a ++ e1 :: b := by
      cases hg : getProperty l n with
      | none => rw [hg] at hsome; cases hsome
      | some g =>
        simp only [setProperty, if_true, hg]
        have hrev : l.reverse = b.reverse ++ e0 :: a.reverse := by rw [hab]; simp
        split
        · rename_i hany
          have hp : (fun e : Entry => e.name = n && e.imp) e0 = true := by
            obtain ⟨x, hx, hpx⟩ := List.any_eq_true.mp hany
            simp only [Bool.and_eq_true, decide_eq_true_eq] at hpx
            rw [hrev] at hx
            rcases List.mem_append.mp hx with hx | hx
            · exact absurd hpx.1 (hB x (List.mem_reverse.mp hx))
            · rcases List.mem_cons.mp hx with rfl | hx
              · simp [hpx.1, hpx.2]
              · exact absurd hpx.1 (hA x (List.mem_reverse.mp hx))
          rw [hrev, updFirst_unique _ _ _ _ _ (fun x hx => by
            have := hB x (List.mem_reverse.mp hx); simp [this]) hp]
          simp [e1]
        · have hp : (fun e : Entry => decide (e.name = n)) e0 = true := by simp [hn0]
          rw [hrev, updFirst_unique _ _ _ _ _ (fun x hx => by
            have := hB x (List.mem_reverse.mp hx); simp [this]) hp]
          simp [e1]
    rw [hset, get_effective]
    have hnd1 : ((a ++ e1 :: b).map (·.name)).Nodup := by
      simpa [e1] using hnd'
    have hf := filter_name_of_nodup (a ++ e1 :: b) hnd1 e1 (by simp)
    have hn1 : e1.name = n := hn0
    rw [hn1] at hf
    refine ⟨e1, ?_, hn1, rfl, rfl⟩
    simp only [effective, hf]
    have hfi : (a ++ e1 :: b).filter (fun e => decide (e.name = n) && e.imp) = if imp then [e1] else [] := by
      have e1' : ∀ (x : Block), x.filter (fun e => decide (e.name = n) && e.imp)
          = (x.filter (fun e => decide (e.name = n))).filter (fun e => e.imp) := by
        intro x
        rw [List.filter_filter]
        apply List.filter_congr
        intro e _
        by_cases h1 : e.name = n <;> by_cases h2 : e.imp = true <;> simp [h1, h2]
      rw [e1', hf]
      cases imp <;> simp [e1]
    rw [hfi]
    cases imp <;> simp
  · have habs : ∀ e ∈ l, e.name ≠ n := fun e he hn => hex ⟨e, he, hn⟩
    rw [set_append_when_absent l n lit v imp true habs, get_effective]
    refine ⟨⟨n, lit, v, imp⟩, ?_, rfl, rfl, rfl⟩
    have hf : (l ++ [(⟨n, lit, v, imp⟩ : Entry)]).filter (fun e => decide (e.name = n)) = [⟨n, lit, v, imp⟩] := by
      rw [List.filter_append]
      have : l.filter (fun e => decide (e.name = n)) = [] :=
        List.filter_eq_nil_iff.mpr (fun e he => by simp [habs e he])
      simp [this]
    have hfi : (l ++ [(⟨n, lit, v, imp⟩ : Entry)]).filter (fun e => decide (e.name = n) && e.imp)
        = if imp then [(⟨n, lit, v, imp⟩ : Entry)] else [] := by
      rw [List.filter_append]
      have : l.filter (fun e => decide (e.name = n) && e.imp) = [] :=
        List.filter_eq_nil_iff.mpr (fun e he => by simp [habs e he])
      cases imp <;> simp [this]
    simp only [effective, hf, hfi]
    cases imp <;> simp

end CssVerif.Decl
