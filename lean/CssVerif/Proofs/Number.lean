/-
Arithmetic and digit-string facts behind number formatting.
-/
import CssVerif.Model.Number
import CssVerif.Proofs.Tokenizer
import CssVerif.Proofs.Sheet
namespace CssVerif.Number

/-! ### rounding to six places is within half a unit of the sixth place -/

/-- `round6 q` is a nearest integer to `|q|·10^6`: twice the distance is at most the denominator -/
theorem round6_error (q : Q) (hd : 0 < q.den) :
    2 * (round6 q * q.den - q.num * 1000000) ≤ q.den ∧ 2 * (q.num * 1000000 - round6 q * q.den) ≤ q.den := by
  unfold round6
  simp only
  have hdm := Nat.div_add_mod (q.num * 1000000) q.den
  have hlt := Nat.mod_lt (q.num * 1000000) hd
  generalize q.num * 1000000 = n at *
  generalize q.den = d at *
  generalize hk : n / d = k at *
  generalize hr : n % d = r at *
  have e1 : (k + 1) * d = k * d + d := by rw [Nat.add_mul, Nat.one_mul]
  have e2 : n = k * d + r := by rw [Nat.mul_comm]; exact hdm.symm
  split
  · rw [e1]; generalize k * d = kd at *; constructor <;> omega
  · split
    · generalize k * d = kd at *; constructor <;> omega
    · split
      · rw [e1]; generalize k * d = kd at *; constructor <;> omega
      · generalize k * d = kd at *; constructor <;> omega

/-! ### digit strings -/

theorem foldl_digits (init : Nat) (b : List Nat) :
    List.foldl (fun a d => 10 * a + (d - 48)) init b =
      init * 10 ^ b.length + List.foldl (fun a d => 10 * a + (d - 48)) 0 b := by
  induction b generalizing init with
  | nil => simp
  | cons x xs ih =>
    simp only [List.foldl_cons, List.length_cons]
    rw [ih (10 * init + (x - 48)), ih (10 * 0 + (x - 48))]
    rw [Nat.pow_succ]
    generalize 10 ^ xs.length = P
    generalize List.foldl (fun a d => 10 * a + (d - 48)) 0 xs = X
    have e : init * (P * 10) = 10 * (init * P) := by
      rw [Nat.mul_comm P 10, ← Nat.mul_assoc, Nat.mul_comm init 10, Nat.mul_assoc]
    simp only [Nat.mul_zero, Nat.zero_add, Nat.add_mul, Nat.zero_mul]
    rw [e, Nat.mul_assoc]
    omega

theorem digitsVal_append (a b : List Nat) : digitsVal (a ++ b) = digitsVal a * 10 ^ b.length + digitsVal b := by
  unfold digitsVal
  rw [List.foldl_append, foldl_digits]

theorem toDigitsAux_val : ∀ (fuel n : Nat) (acc : List Nat), n < fuel →
    digitsVal (toDigitsAux fuel n acc) = n * 10 ^ acc.length + digitsVal acc := by
  intro fuel
  induction fuel with
  | zero => intro n acc h; omega
  | succ f ih =>
    intro n acc h
    unfold toDigitsAux
    split
    · rename_i hn
      have : (48 + n) :: acc = [48 + n] ++ acc := rfl
      rw [this, digitsVal_append]
      simp [digitsVal]
    · rename_i hn
      have hlt : n / 10 < f := by omega
      rw [ih (n / 10) _ hlt]
      have : (48 + n % 10) :: acc = [48 + n % 10] ++ acc := rfl
      rw [this, digitsVal_append]
      simp only [List.length_append, List.length_singleton, digitsVal, List.foldl_cons, List.foldl_nil,
        Nat.mul_zero, Nat.zero_add, Nat.add_sub_cancel_left]
      have h10 : 10 ^ (1 + acc.length) = 10 * 10 ^ acc.length := by rw [Nat.add_comm, Nat.pow_succ, Nat.mul_comm]
      rw [h10]
      generalize 10 ^ acc.length = P
      generalize List.foldl (fun a d => 10 * a + (d - 48)) 0 acc = X
      have hdm := Nat.div_add_mod n 10
      have hn : n * P = n / 10 * (10 * P) + n % 10 * P := by
        conv => lhs; rw [← hdm]
        rw [Nat.add_mul, Nat.mul_comm 10 (n / 10), Nat.mul_assoc]
      rw [hn]
      omega

/-- the digit string of `n` denotes `n` -/
theorem natDigits_val (n : Nat) : digitsVal (natDigits n) = n := by
  unfold natDigits
  rw [toDigitsAux_val (n + 1) n [] (Nat.lt_succ_self n)]
  simp [digitsVal]

theorem toDigitsAux_digits : ∀ (fuel n : Nat) (acc : List Nat), (∀ c ∈ acc, isDigit c = true) →
    ∀ c ∈ toDigitsAux fuel n acc, isDigit c = true := by
  intro fuel
  induction fuel with
  | zero => intro n acc h; exact h
  | succ f ih =>
    intro n acc h
    unfold toDigitsAux
    split
    · rename_i hn
      intro c hc
      rcases List.mem_cons.mp hc with rfl | hc'
      · simp [isDigit]; omega
      · exact h c hc'
    · apply ih
      intro c hc
      rcases List.mem_cons.mp hc with rfl | hc'
      · have := Nat.mod_lt n (by decide : 0 < 10)
        simp [isDigit]; omega
      · exact h c hc'

theorem natDigits_digits (n : Nat) : ∀ c ∈ natDigits n, isDigit c = true :=
  toDigitsAux_digits _ _ [] (fun c hc => by cases hc)

theorem toDigitsAux_ne_nil : ∀ (fuel n : Nat) (acc : List Nat), 0 < fuel → toDigitsAux fuel n acc ≠ [] := by
  intro fuel
  induction fuel with
  | zero => intro n acc h; omega
  | succ f ih =>
    intro n acc _
    unfold toDigitsAux
    split
    · simp
    · cases f with
      | zero => simp [toDigitsAux]
      | succ g => exact ih _ _ (Nat.succ_pos g)

theorem natDigits_ne_nil (n : Nat) : natDigits n ≠ [] := toDigitsAux_ne_nil _ _ _ (Nat.succ_pos n)

/-! ### reading back what was printed -/

theorem takeWhile_digits (ds rest : List Nat) (hd : ∀ c ∈ ds, isDigit c = true)
    (hr : ∀ c ∈ rest.head?, isDigit c = false) :
    (ds ++ rest).takeWhile isDigit = ds ∧ (ds ++ rest).dropWhile isDigit = rest := by
  induction ds with
  | nil =>
    cases rest with
    | nil => simp
    | cons x xs =>
      have := hr x (by simp)
      simp [List.takeWhile_cons, List.dropWhile_cons, this]
  | cons d ds ih =>
    have hdd := hd d List.mem_cons_self
    have := ih (fun c hc => hd c (List.mem_cons_of_mem _ hc))
    simp [List.takeWhile_cons, List.dropWhile_cons, hdd, this.1, this.2]

theorem splitSign_none (t : Text) (h : ∀ c ∈ t.head?, c ≠ 43 ∧ c ≠ 45) : splitSign t = (none, t) := by
  unfold splitSign
  split
  · exact absurd rfl (h 43 (by simp)).1
  · exact absurd rfl (h 45 (by simp)).2
  · rfl

/-- `splitNum` reads `[sign] ip . fp rest` back as its parts -/
theorem splitNum_float (sign : Option Nat) (hs : sign = none ∨ sign = some 43 ∨ sign = some 45)
    (ip fp rest : List Nat) (hip : ∀ c ∈ ip, isDigit c = true) (hfp : ∀ c ∈ fp, isDigit c = true)
    (hne : fp ≠ []) (hr : ∀ c ∈ rest.head?, isDigit c = false) :
    splitNum (signText sign ++ ip ++ 46 :: fp ++ rest) = some (sign, ip, some fp, rest) := by
  have h46 : ∀ c ∈ (46 :: (fp ++ rest)).head?, isDigit c = false := by intro c hc; simp at hc; subst hc; decide
  have h1 := takeWhile_digits ip (46 :: (fp ++ rest)) hip h46
  have h2 := takeWhile_digits fp rest hfp hr
  have hfpe : fp.isEmpty = false := by cases fp with | nil => exact absurd rfl hne | cons _ _ => rfl
  have hsplit : splitSign (signText sign ++ ip ++ 46 :: fp ++ rest)
      = (sign, ip ++ 46 :: (fp ++ rest)) := by
    rcases hs with rfl | rfl | rfl
    · simp only [signText, List.nil_append, List.append_assoc, List.cons_append]
      apply splitSign_none
      intro c hc
      cases ip with
      | nil => simp at hc; subst hc; decide
      | cons d ds =>
        simp at hc; rw [← hc]
        have := hip d List.mem_cons_self
        simp only [isDigit, Bool.and_eq_true, decide_eq_true_eq] at this
        constructor <;> omega
    · simp [splitSign, signText]
    · simp [splitSign, signText]
  unfold splitNum
  simp only [hsplit, h1.1, h1.2, h2.1, h2.2, hfpe, Bool.false_eq_true, if_false]


/-! ### what `'%f'` prints denotes the rounded value; stripping zeros does not change it -/

/-- two fractions with the same sign convention denote the same number -/
def Q.same (a b : Q) : Prop := a.neg = b.neg ∧ a.num * b.den = b.num * a.den

theorem pad6_val (n : Nat) (h : n < 1000000) : digitsVal (pad6 n) = n := by
  simp only [pad6, digitsVal, List.foldl_cons, List.foldl_nil]
  omega

theorem pad6_digits (n : Nat) : ∀ c ∈ pad6 n, isDigit c = true := by
  intro c hc
  simp only [pad6, List.mem_cons, List.not_mem_nil, or_false] at hc
  simp only [isDigit, Bool.and_eq_true, decide_eq_true_eq]
  rcases hc with h | h | h | h | h | h <;> omega

theorem digitsVal_zeros (a : List Nat) (k : Nat) : digitsVal (a ++ List.replicate k 48) = digitsVal a * 10 ^ k := by
  rw [digitsVal_append]
  have : digitsVal (List.replicate k 48) = 0 := by
    induction k with
    | zero => rfl
    | succ j ih =>
      have : List.replicate (j + 1) 48 = [48] ++ List.replicate j 48 := by simp [List.replicate_succ]
      rw [this, digitsVal_append, ih]
      simp [digitsVal]
  simp [this]

theorem all_eq_replicate (l : List Nat) (h : ∀ c ∈ l, c = 48) : l = List.replicate l.length 48 := by
  induction l with
  | nil => rfl
  | cons x xs ih =>
    rw [h x List.mem_cons_self]
    simp only [List.length_cons, List.replicate_succ]
    rw [← ih (fun c hc => h c (List.mem_cons_of_mem _ hc))]

/-- trailing zeros are all that `rstrip('0')` removes -/
theorem strip_decomp (b : List Nat) :
    ∃ k, b = (b.reverse.dropWhile (· == 48)).reverse ++ List.replicate k 48 := by
  have h := List.takeWhile_append_dropWhile (p := (· == 48)) (l := b.reverse)
  have htw : ∀ c ∈ b.reverse.takeWhile (· == 48), c = 48 := by
    intro c hc
    have := CssVerif.Sheet.mem_takeWhile_imp hc
    simpa using this
  refine ⟨(b.reverse.takeWhile (· == 48)).length, ?_⟩
  have hb : b = (b.reverse.dropWhile (· == 48)).reverse ++ (b.reverse.takeWhile (· == 48)).reverse := by
    rw [← List.reverse_append, h, List.reverse_reverse]
  have hrep := all_eq_replicate _ htw
  conv => lhs; rw [hb]
  rw [hrep]
  simp

/-- the decimal text `ip . fp` (digits) with an optional minus -/
def dec (neg : Bool) (ip fp : List Nat) : Text := (if neg then [45] else []) ++ ip ++ 46 :: fp

theorem dec_eq (neg : Bool) (ip fp : List Nat) :
    dec neg ip fp = signText (if neg then some 45 else none) ++ ip ++ 46 :: fp ++ [] := by
  cases neg <;> simp [dec, signText]

theorem decimalValue_dec (neg : Bool) (ip fp : List Nat) (hip : ∀ c ∈ ip, isDigit c = true)
    (hfp : ∀ c ∈ fp, isDigit c = true) (hne : fp ≠ []) :
    decimalValue (dec neg ip fp) = some ⟨neg, digitsVal (ip ++ fp), 10 ^ fp.length⟩ := by
  have h := splitNum_float (if neg then some 45 else none) (by cases neg <;> simp) ip fp [] hip hfp hne
    (by intro c hc; cases hc)
  unfold decimalValue
  rw [dec_eq, h]
  cases neg <;> simp

theorem findIdx_point (pre rest : List Nat) (hl : ∀ c ∈ pre, (c == 46) = false) :
    (pre ++ 46 :: rest).findIdx? (· == 46) = some pre.length := by
  induction pre with
  | nil => simp [List.findIdx?_cons]
  | cons x xs ih =>
    simp only [List.cons_append, List.findIdx?_cons, hl x List.mem_cons_self, Bool.false_eq_true, if_false]
    rw [ih (fun c hc => hl c (List.mem_cons_of_mem _ hc))]
    simp

/-- **`_strip_zeros` keeps the value** of any printed decimal with at least one fraction digit -/
theorem stripZeros_value (neg : Bool) (ip : List Nat) (f0 : Nat) (fs : List Nat)
    (hip : ∀ c ∈ ip, isDigit c = true) :
    ∃ fs', stripZeros (dec neg ip (f0 :: fs)) = dec neg ip (f0 :: fs') ∧ (∀ c ∈ fs', c ∈ fs) ∧
      ∃ k, fs = fs' ++ List.replicate k 48 := by
  -- everything before the point
  have hpre : ∀ c ∈ (if neg then [45] else []) ++ ip, (c == 46) = false := by
    intro c hc
    rcases List.mem_append.mp hc with h | h
    · cases neg <;> simp at h; subst h; decide
    · have := hip c h
      simp only [isDigit, Bool.and_eq_true, decide_eq_true_eq] at this
      simp; omega
  have hd : ∀ (fp : List Nat), dec neg ip fp = ((if neg then [45] else []) ++ ip) ++ 46 :: fp := by
    intro fp; simp [dec]
  obtain ⟨k, hk⟩ := strip_decomp fs
  refine ⟨(fs.reverse.dropWhile (· == 48)).reverse, ?_, ?_, k, hk⟩
  · simp only [hd]
    unfold stripZeros
    rw [findIdx_point _ _ hpre]
    simp only
    generalize (if neg then [45] else []) ++ ip = pre
    have e : pre ++ 46 :: f0 :: fs = (pre ++ [46, f0]) ++ fs := by simp
    rw [e, List.take_left' (by simp), List.drop_left' (by simp)]
    simp
  · intro c hc
    have h1 : c ∈ fs.reverse.dropWhile (· == 48) := List.mem_reverse.mp hc
    exact List.mem_reverse.mp ((List.dropWhile_sublist _).subset h1)

/-- the value read back from the stripped `'%f'` output is exactly the value rounded to six places -/
theorem fmt_strip_value (q : Q) :
    ∃ v, decimalValue (stripZeros (fmtF q)) = some v ∧
      Q.same v ⟨q.neg && !q.isZero, round6 q, 1000000⟩ := by
  have hfm : fmtF q = dec (q.neg && !q.isZero) (natDigits (round6 q / 1000000)) (pad6 (round6 q % 1000000)) := by
    unfold fmtF dec
    simp
  have hlt : round6 q % 1000000 < 1000000 := Nat.mod_lt _ (by decide)
  have hpad : pad6 (round6 q % 1000000) = (48 + round6 q % 1000000 / 100000 % 10) ::
      [48 + round6 q % 1000000 / 10000 % 10, 48 + round6 q % 1000000 / 1000 % 10,
       48 + round6 q % 1000000 / 100 % 10, 48 + round6 q % 1000000 / 10 % 10, 48 + round6 q % 1000000 % 10] := rfl
  have hpd := pad6_digits (round6 q % 1000000)
  rw [hpad] at hpd
  obtain ⟨fs', hst, hsub, k, hk⟩ := stripZeros_value (q.neg && !q.isZero) (natDigits (round6 q / 1000000))
    (48 + round6 q % 1000000 / 100000 % 10)
    [48 + round6 q % 1000000 / 10000 % 10, 48 + round6 q % 1000000 / 1000 % 10,
       48 + round6 q % 1000000 / 100 % 10, 48 + round6 q % 1000000 / 10 % 10, 48 + round6 q % 1000000 % 10]
    (natDigits_digits _)
  have hfs' : ∀ c ∈ fs', isDigit c = true := fun c hc => hpd c (List.mem_cons_of_mem _ (hsub c hc))
  rw [hfm, hpad, hst]
  have hdv := decimalValue_dec (q.neg && !q.isZero) (natDigits (round6 q / 1000000))
    ((48 + round6 q % 1000000 / 100000 % 10) :: fs') (natDigits_digits _)
    (by intro c hc; rcases List.mem_cons.mp hc with rfl | h
        · exact hpd _ List.mem_cons_self
        · exact hfs' c h) (by simp)
  refine ⟨_, hdv, rfl, ?_⟩
  -- value: (ip ++ f0 :: fs') * 10^6 = r6 * 10^(1+|fs'|), using fs = fs' ++ 0^k
  simp only
  have hfull : digitsVal (natDigits (round6 q / 1000000) ++ pad6 (round6 q % 1000000)) = round6 q := by
    rw [digitsVal_append, natDigits_val, pad6_val _ hlt]
    simp only [pad6, List.length_cons, List.length_nil]
    have := Nat.div_add_mod (round6 q) 1000000
    omega
  rw [hpad] at hfull
  have hsplit : natDigits (round6 q / 1000000) ++ (48 + round6 q % 1000000 / 100000 % 10) ::
      [48 + round6 q % 1000000 / 10000 % 10, 48 + round6 q % 1000000 / 1000 % 10,
       48 + round6 q % 1000000 / 100 % 10, 48 + round6 q % 1000000 / 10 % 10, 48 + round6 q % 1000000 % 10]
      = (natDigits (round6 q / 1000000) ++ (48 + round6 q % 1000000 / 100000 % 10) :: fs') ++ List.replicate k 48 := by
    rw [hk]; simp
  rw [hsplit, digitsVal_zeros] at hfull
  have hlen : (5 : Nat) = fs'.length + k := by
    have := congrArg List.length hk
    simpa using this
  simp only [List.length_cons]
  generalize digitsVal (natDigits (round6 q / 1000000) ++ (48 + round6 q % 1000000 / 100000 % 10) :: fs') = D at hfull ⊢
  generalize round6 q = r at hfull ⊢
  have h6 : (1000000 : Nat) = 10 ^ k * 10 ^ (fs'.length + 1) := by
    rw [← Nat.pow_add]
    have : k + (fs'.length + 1) = 6 := by omega
    rw [this]
  calc D * 1000000 = D * (10 ^ k * 10 ^ (fs'.length + 1)) := by rw [h6]
    _ = (D * 10 ^ k) * 10 ^ (fs'.length + 1) := by rw [Nat.mul_assoc]
    _ = r * 10 ^ (fs'.length + 1) := by rw [hfull]


/-! ### omitLeadingZero: dropping the `0` before the point keeps the value -/

theorem natDigits_zero : natDigits 0 = [48] := by decide

theorem digitsVal_leading_zero (fp : List Nat) : digitsVal ([48] ++ fp) = digitsVal fp := by
  rw [digitsVal_append]; simp [digitsVal]

/-- for `0 ≤ |x| < 1` as printed (`0.dddddd`), the surgery `v[1:]` / `v[0] + v[2:]` yields the text
`[-].ddd…` -/
theorem omit_surgery (neg : Bool) (fp : List Nat) :
    (if neg then (dec neg [48] fp).take 1 ++ (dec neg [48] fp).drop 2 else (dec neg [48] fp).drop 1)
      = dec neg [] fp := by
  cases neg <;> simp [dec]

theorem omit_value (neg : Bool) (fp : List Nat) (hfp : ∀ c ∈ fp, isDigit c = true) (hne : fp ≠ []) :
    ∃ v w, decimalValue (dec neg [] fp) = some v ∧ decimalValue (dec neg [48] fp) = some w ∧ Q.same v w := by
  refine ⟨_, _, decimalValue_dec neg [] fp (by intro c hc; cases hc) hfp hne,
    decimalValue_dec neg [48] fp (by intro c hc; simp at hc; subst hc; decide) hfp hne, rfl, ?_⟩
  simp only [List.nil_append]
  rw [digitsVal_leading_zero]

/-! ### the number text that `do_css_Value` writes for a float (repaired code) -/

/-- **re-parse**: for every float-valued literal that is not printed as an integer, and for both
`omitLeadingZero` settings, the number text written by the serializer reads back as exactly the
value rounded to six decimal places, with the sign of the value -/
theorem fmt_reparse_float (om : Bool) (p : Parsed) (hf : p.isFloat = true)
    (hsign : (p.sign == some 45) = p.value.neg) (hnz : round6 p.value ≠ 0)
    (hni : round6 p.value % 1000000 ≠ 0) :
    ∃ v, decimalValue (fmtParts true om p).2.1 = some v ∧
      Q.same v ⟨p.value.neg, round6 p.value, 1000000⟩ := by
  have hq0 : p.value.isZero = false := by
    cases hz : p.value.isZero with
    | false => rfl
    | true =>
      exfalso; apply hnz
      unfold Q.isZero at hz
      have : p.value.num = 0 := by simpa using hz
      simp [round6, this]
  have hneg : (p.value.neg && !p.value.isZero) = p.value.neg := by simp [hq0]
  have h1 : (round6 p.value == 0) = false := by simpa using hnz
  have h2 : (round6 p.value % 1000000 == 0) = false := by simpa using hni
  obtain ⟨v, hv, hsame⟩ := fmt_strip_value p.value
  rw [hneg] at hsame
  unfold fmtParts
  simp only [hf, Bool.and_true, Bool.true_and, if_true, h1, h2, Bool.false_eq_true, if_false]
  by_cases hbr : (om && decide (round6 p.value < 1000000)) = true
  · -- leading zero omitted
    simp only [hbr, if_true]
    simp only [Bool.and_eq_true, decide_eq_true_eq] at hbr
    -- the printed text is `[-]0.f0 fs'`
    have hip : round6 p.value / 1000000 = 0 := Nat.div_eq_of_lt hbr.2
    have hfm : fmtF p.value = dec p.value.neg [48] (pad6 (round6 p.value % 1000000)) := by
      unfold fmtF dec
      simp [hneg, hip, natDigits_zero]
    have hpd := pad6_digits (round6 p.value % 1000000)
    have hpad : pad6 (round6 p.value % 1000000) = (48 + round6 p.value % 1000000 / 100000 % 10) ::
      [48 + round6 p.value % 1000000 / 10000 % 10, 48 + round6 p.value % 1000000 / 1000 % 10,
       48 + round6 p.value % 1000000 / 100 % 10, 48 + round6 p.value % 1000000 / 10 % 10,
       48 + round6 p.value % 1000000 % 10] := rfl
    rw [hpad] at hpd
    obtain ⟨fs', hst, hsub, k, hk⟩ := stripZeros_value p.value.neg [48]
      (48 + round6 p.value % 1000000 / 100000 % 10)
      [48 + round6 p.value % 1000000 / 10000 % 10, 48 + round6 p.value % 1000000 / 1000 % 10,
       48 + round6 p.value % 1000000 / 100 % 10, 48 + round6 p.value % 1000000 / 10 % 10,
       48 + round6 p.value % 1000000 % 10]
      (by intro c hc; simp at hc; subst hc; decide)
    have hfs' : ∀ c ∈ (48 + round6 p.value % 1000000 / 100000 % 10) :: fs', isDigit c = true := by
      intro c hc
      rcases List.mem_cons.mp hc with rfl | h
      · exact hpd _ List.mem_cons_self
      · exact hpd c (List.mem_cons_of_mem _ (hsub c h))
    rw [hfm, hpad, hst] at hv ⊢
    rw [hsign]
    have hs := omit_surgery p.value.neg ((48 + round6 p.value % 1000000 / 100000 % 10) :: fs')
    have hgoal : (if p.value.neg = true then
          (dec p.value.neg [48] ((48 + round6 p.value % 1000000 / 100000 % 10) :: fs')).take 1 ++
            (dec p.value.neg [48] ((48 + round6 p.value % 1000000 / 100000 % 10) :: fs')).drop 2
        else (dec p.value.neg [48] ((48 + round6 p.value % 1000000 / 100000 % 10) :: fs')).drop 1)
        = dec p.value.neg [] ((48 + round6 p.value % 1000000 / 100000 % 10) :: fs') := hs
    rw [hgoal]
    obtain ⟨v', w, hv', hw, hvw⟩ := omit_value p.value.neg _ hfs' (by simp)
    rw [hv] at hw
    cases hw
    refine ⟨v', hv', hvw.1.trans hsame.1, ?_⟩
    -- transitivity of cross-multiplied equality (denominators are powers of ten, hence non-zero)
    have hwd : v.den ≠ 0 := by
      have := decimalValue_dec p.value.neg [48] ((48 + round6 p.value % 1000000 / 100000 % 10) :: fs')
        (by intro c hc; simp at hc; subst hc; decide) hfs' (by simp)
      rw [hv] at this
      cases this
      exact Nat.pos_iff_ne_zero.mp (Nat.pow_pos (by decide))
    have e1 := hvw.2
    have e2 := hsame.2
    simp only at e2
    -- v'.num * v.den = v.num * v'.den ; v.num * 10^6 = r * v.den  ⊢ v'.num * 10^6 = r * v'.den
    apply Nat.eq_of_mul_eq_mul_right (Nat.pos_of_ne_zero hwd)
    calc v'.num * 1000000 * v.den = (v'.num * v.den) * 1000000 := by
          rw [Nat.mul_assoc, Nat.mul_comm 1000000 v.den, ← Nat.mul_assoc]
      _ = (v.num * v'.den) * 1000000 := by rw [e1]
      _ = (v.num * 1000000) * v'.den := by
          rw [Nat.mul_assoc, Nat.mul_comm v'.den 1000000, ← Nat.mul_assoc]
      _ = (round6 p.value * v.den) * v'.den := by rw [e2]
      _ = round6 p.value * v'.den * v.den := by
          rw [Nat.mul_assoc, Nat.mul_comm v.den v'.den, ← Nat.mul_assoc]
  · have hbr' : (om && decide (round6 p.value < 1000000)) = false := by
      cases hb : (om && decide (round6 p.value < 1000000)) with
      | false => rfl
      | true => exact absurd hb hbr
    simp only [hbr', Bool.false_eq_true, if_false]
    exact ⟨v, hv, hsame⟩

/-- within half a unit of the sixth decimal place of what was parsed -/
theorem fmt_reparse_error (p : Parsed) (hd : 0 < p.value.den) :
    2 * (round6 p.value * p.value.den - p.value.num * 1000000) ≤ p.value.den ∧
    2 * (p.value.num * 1000000 - round6 p.value * p.value.den) ≤ p.value.den :=
  round6_error p.value hd

end CssVerif.Number
