import CssVerif.Model.SetterIR
namespace CssVerif.SetterIR

/-! ### concrete semantics -/

abbrev State := Nat → Nat

inductive Res | norm | rais | ret
  deriving DecidableEq, Repr

/-- `σ'` differs from `σ` at most on the fields `fs` -/
def agreeOutside (fs : List Nat) (σ σ' : State) : Prop := ∀ g, g ∉ fs → σ' g = σ g

/-- the handler's `self.f = saved_f` for every field saved at entry -/
def restore (rs : List Nat) (σe σ' : State) : State := fun g => if g ∈ rs then σe g else σ' g

/-- how a `finally` block turns the pending outcome of the body into the final one -/
def afterFinally (pending r : Res) : Res := if r = .norm then pending else r

/-- `σe` is the state of the object when the setter was entered (what the handlers have saved) -/
inductive Exec (σe : State) : IR → State → Res → State → Prop
  | skip (σ) : Exec σe .skip σ .norm σ
  | store (f σ σ') : agreeOutside [f] σ σ' → Exec σe (.store f) σ .norm σ'
  | raiseN (σ) : Exec σe .raise_ σ .norm σ
  | raiseR (σ) : Exec σe .raise_ σ .rais σ
  | callR (fs σ) : Exec σe (.call fs) σ .rais σ
  | callN (fs σ σ') : agreeOutside fs σ σ' → Exec σe (.call fs) σ .norm σ'
  | seqN (a b σ σ1 r σ2) : Exec σe a σ .norm σ1 → Exec σe b σ1 r σ2 → Exec σe (.seq a b) σ r σ2
  | seqX (a b σ r σ1) : r ≠ .norm → Exec σe a σ r σ1 → Exec σe (.seq a b) σ r σ1
  | altL (a b σ r σ1) : Exec σe a σ r σ1 → Exec σe (.alt a b) σ r σ1
  | altR (a b σ r σ1) : Exec σe b σ r σ1 → Exec σe (.alt a b) σ r σ1
  | loop0 (a σ) : Exec σe (.loop a) σ .norm σ
  | loopS (a σ σ1 r σ2) : Exec σe a σ .norm σ1 → Exec σe (.loop a) σ1 r σ2 → Exec σe (.loop a) σ r σ2
  | loopX (a σ r σ1) : r ≠ .norm → Exec σe a σ r σ1 → Exec σe (.loop a) σ r σ1
  | ret (σ) : Exec σe .ret σ .ret σ
  | restoreN (rs σ) : Exec σe (.restore rs) σ .norm (restore rs σe σ)
  | scopeN (a σ r σ1) : r ≠ .ret → Exec σe a σ r σ1 → Exec σe (.scope a) σ r σ1
  | scopeR (a σ σ1) : Exec σe a σ .ret σ1 → Exec σe (.scope a) σ .norm σ1
  | tryN (rs body σ r σ') : r ≠ .rais → Exec σe body σ r σ' → Exec σe (.tryRestore rs body) σ r σ'
  | tryR (rs body σ σ') : Exec σe body σ .rais σ' → Exec σe (.tryRestore rs body) σ .rais (restore rs σe σ')
  | fin (body fin σ p σ1 r σ2) : Exec σe body σ p σ1 → Exec σe fin σ1 r σ2 →
      Exec σe (.tryFinally body fin) σ (afterFinally p r) σ2

/-- every field in which `σ` differs from the entry state is in `D` -/
def Within (σe σ : State) (D : List Nat) : Prop := ∀ g, σ g ≠ σe g → g ∈ D

def Outs.get (o : Outs) : Res → Bound
  | .norm => o.norm | .rais => o.rais | .ret => o.ret

theorem within_mono {σe σ : State} {D D' : List Nat} (h : Within σe σ D) (hs : ∀ g ∈ D, g ∈ D') : Within σe σ D' :=
  fun g hg => hs g (h g hg)

/-! ### joins keep what either side allows -/

theorem join_left (a b : Bound) (U : List Nat) (h : a = some U) :
    ∃ U', a.join b = some U' ∧ ∀ g ∈ U, g ∈ U' := by
  subst h
  cases b with
  | none => exact ⟨U, rfl, fun _ h => h⟩
  | some V => exact ⟨U ++ V, rfl, fun g h => List.mem_append_left _ h⟩

theorem join_right (a b : Bound) (U : List Nat) (h : b = some U) :
    ∃ U', a.join b = some U' ∧ ∀ g ∈ U, g ∈ U' := by
  subst h
  cases a with
  | none => exact ⟨U, rfl, fun _ h => h⟩
  | some V => exact ⟨V ++ U, rfl, fun g h => List.mem_append_right _ h⟩

theorem get_join_left (a b : Outs) (r : Res) (U : List Nat) (h : a.get r = some U) :
    ∃ U', (a.join b).get r = some U' ∧ ∀ g ∈ U, g ∈ U' := by
  cases r <;> exact join_left _ _ U h

theorem get_join_right (a b : Outs) (r : Res) (U : List Nat) (h : b.get r = some U) :
    ∃ U', (a.join b).get r = some U' ∧ ∀ g ∈ U, g ∈ U' := by
  cases r <;> exact join_right _ _ U h

theorem bind_norm (o : Outs) (k : List Nat → Outs) (U1 : List Nat) (r : Res) (U : List Nat)
    (h1 : o.norm = some U1) (h2 : (k U1).get r = some U) :
    ∃ U', (o.bind k).get r = some U' ∧ ∀ g ∈ U, g ∈ U' := by
  simp only [Outs.bind, h1]
  cases r with
  | norm => exact ⟨U, h2, fun _ h => h⟩
  | rais => exact join_right _ _ U h2
  | ret => exact join_right _ _ U h2

theorem bind_other (o : Outs) (k : List Nat → Outs) (r : Res) (U : List Nat) (hr : r ≠ .norm)
    (h : o.get r = some U) : ∃ U', (o.bind k).get r = some U' ∧ ∀ g ∈ U, g ∈ U' := by
  simp only [Outs.bind]
  cases hn : o.norm with
  | none => exact ⟨U, h, fun _ h => h⟩
  | some U1 =>
    cases r with
    | norm => exact absurd rfl hr
    | rais => exact join_left _ _ U h
    | ret => exact join_left _ _ U h

/-! ### `addNew` -/

theorem mem_addNew (D fs : List Nat) (g : Nat) : g ∈ addNew D fs ↔ g ∈ D ∨ g ∈ fs := by
  simp only [addNew, List.mem_append, List.mem_filter, Bool.not_eq_true', List.contains_eq_mem, decide_eq_false_iff_not]
  constructor
  · rintro (h | h)
    · exact Or.inl h
    · exact Or.inr h.1
  · rintro (h | h)
    · exact Or.inl h
    · by_cases hd : g ∈ D
      · exact Or.inl hd
      · exact Or.inr ⟨h, hd⟩

theorem addNew_idem (D fs : List Nat) : addNew (addNew D fs) fs = addNew D fs := by
  have : fs.filter (fun f => !(addNew D fs).contains f) = [] := by
    rw [List.filter_eq_nil_iff]
    intro f hf
    simp only [Bool.not_eq_true', List.contains_eq_mem, decide_eq_false_iff_not]
    exact fun hn => hn ((mem_addNew D fs f).2 (Or.inr hf))
  show addNew D fs ++ fs.filter (fun f => !(addNew D fs).contains f) = addNew D fs
  rw [this, List.append_nil]

theorem run_loop_idem (a : IR) (D : List Nat) : run (.loop a) (addNew D (mutFields a)) = run (.loop a) D := by
  simp only [run, addNew_idem]

/-! ### frame: a field the program does not mention keeps its value — or is put back to its entry value -/

theorem frame {σe : State} {p : IR} {σ σ' : State} {r : Res} (h : Exec σe p σ r σ') :
    ∀ g, g ∉ mutFields p → σ' g = σ g ∨ σ' g = σe g := by
  induction h with
  | skip => intro g _; exact Or.inl rfl
  | store f σ σ' ha => intro g hg; exact Or.inl (ha g (by simpa [mutFields] using hg))
  | raiseN => intro g _; exact Or.inl rfl
  | raiseR => intro g _; exact Or.inl rfl
  | callR => intro g _; exact Or.inl rfl
  | callN fs σ σ' ha => intro g hg; exact Or.inl (ha g (by simpa [mutFields] using hg))
  | seqN a b σ σ1 r σ2 _ _ iha ihb =>
    intro g hg
    simp only [mutFields, List.mem_append, not_or] at hg
    rcases ihb g hg.2 with h2 | h2
    · rcases iha g hg.1 with h1 | h1
      · exact Or.inl (h2.trans h1)
      · exact Or.inr (h2.trans h1)
    · exact Or.inr h2
  | seqX a b σ r σ1 _ _ ih => intro g hg; simp only [mutFields, List.mem_append, not_or] at hg; exact ih g hg.1
  | altL a b σ r σ1 _ ih => intro g hg; simp only [mutFields, List.mem_append, not_or] at hg; exact ih g hg.1
  | altR a b σ r σ1 _ ih => intro g hg; simp only [mutFields, List.mem_append, not_or] at hg; exact ih g hg.2
  | loop0 => intro g _; exact Or.inl rfl
  | loopS a σ σ1 r σ2 _ _ iha ihl =>
    intro g hg
    rcases ihl g hg with h2 | h2
    · rcases iha g (by simpa [mutFields] using hg) with h1 | h1
      · exact Or.inl (h2.trans h1)
      · exact Or.inr (h2.trans h1)
    · exact Or.inr h2
  | loopX a σ r σ1 _ _ ih => intro g hg; exact ih g (by simpa [mutFields] using hg)
  | ret => intro g _; exact Or.inl rfl
  | restoreN rs σ =>
    intro g _
    simp only [restore]
    split
    · exact Or.inr rfl
    · exact Or.inl rfl
  | scopeN a σ r σ1 _ _ ih => intro g hg; exact ih g (by simpa [mutFields] using hg)
  | scopeR a σ σ1 _ ih => intro g hg; exact ih g (by simpa [mutFields] using hg)
  | tryN rs body σ r σ' _ _ ih => intro g hg; exact ih g (by simpa [mutFields] using hg)
  | tryR rs body σ σ' _ ih =>
    intro g hg
    simp only [restore]
    split
    · exact Or.inr rfl
    · exact ih g (by simpa [mutFields] using hg)
  | fin body fin σ p σ1 r σ2 _ _ ihb ihf =>
    intro g hg
    simp only [mutFields, List.mem_append, not_or] at hg
    rcases ihf g hg.2 with h2 | h2
    · rcases ihb g hg.1 with h1 | h1
      · exact Or.inl (h2.trans h1)
      · exact Or.inr (h2.trans h1)
    · exact Or.inr h2

theorem within_after {σe : State} {p : IR} {σ σ' : State} {r : Res} (h : Exec σe p σ r σ') (D : List Nat)
    (hw : Within σe σ D) : Within σe σ' (addNew D (mutFields p)) := by
  intro g hg
  rw [mem_addNew]
  by_cases hm : g ∈ mutFields p
  · exact Or.inr hm
  · rcases frame h g hm with h1 | h1
    · exact Or.inl (hw g (by rw [← h1]; exact hg))
    · exact absurd h1 hg

/-! ### soundness of the abstract run -/

theorem sound {σe : State} {p : IR} {σ σ' : State} {r : Res} (h : Exec σe p σ r σ') :
    ∀ (D : List Nat), Within σe σ D → ∃ U, (run p D).get r = some U ∧ Within σe σ' U := by
  induction h with
  | skip σ => intro D hd; exact ⟨D, rfl, hd⟩
  | store f σ σ' ha =>
    intro D hd
    refine ⟨f :: D, rfl, ?_⟩
    intro g hg
    by_cases hf : g = f
    · exact hf ▸ List.mem_cons_self ..
    · exact List.mem_cons_of_mem _ (hd g (by rw [← ha g (by simpa using hf)]; exact hg))
  | raiseN σ => intro D hd; exact ⟨D, rfl, hd⟩
  | raiseR σ => intro D hd; exact ⟨D, rfl, hd⟩
  | callR fs σ => intro D hd; exact ⟨D, rfl, hd⟩
  | callN fs σ σ' ha =>
    intro D hd
    refine ⟨fs ++ D, rfl, ?_⟩
    intro g hg
    by_cases hf : g ∈ fs
    · exact List.mem_append_left _ hf
    · exact List.mem_append_right _ (hd g (by rw [← ha g hf]; exact hg))
  | seqN a b σ σ1 r σ2 _ _ iha ihb =>
    intro D hd
    obtain ⟨U1, h1, w1⟩ := iha D hd
    obtain ⟨U2, h2, w2⟩ := ihb U1 w1
    obtain ⟨U', h', hs⟩ := bind_norm (run a D) (run b) U1 r U2 h1 h2
    exact ⟨U', h', within_mono w2 hs⟩
  | seqX a b σ r σ1 hr _ ih =>
    intro D hd
    obtain ⟨U1, h1, w1⟩ := ih D hd
    obtain ⟨U', h', hs⟩ := bind_other (run a D) (run b) r U1 hr h1
    exact ⟨U', h', within_mono w1 hs⟩
  | altL a b σ r σ1 _ ih =>
    intro D hd
    obtain ⟨U1, h1, w1⟩ := ih D hd
    obtain ⟨U', h', hs⟩ := get_join_left (run a D) (run b D) r U1 h1
    exact ⟨U', h', within_mono w1 hs⟩
  | altR a b σ r σ1 _ ih =>
    intro D hd
    obtain ⟨U1, h1, w1⟩ := ih D hd
    obtain ⟨U', h', hs⟩ := get_join_right (run a D) (run b D) r U1 h1
    exact ⟨U', h', within_mono w1 hs⟩
  | loop0 a σ =>
    intro D hd
    exact ⟨addNew D (mutFields a), rfl, within_mono hd (fun g hg => (mem_addNew _ _ g).2 (Or.inl hg))⟩
  | loopS a σ σ1 r σ2 hex _ _ ihl =>
    intro D hd
    have w1 : Within σe σ1 (addNew D (mutFields a)) := within_after hex D hd
    obtain ⟨U, h, w⟩ := ihl _ w1
    rw [run_loop_idem] at h
    exact ⟨U, h, w⟩
  | loopX a σ r σ1 hr _ ih =>
    intro D hd
    have w0 : Within σe σ (addNew D (mutFields a)) :=
      within_mono hd (fun g hg => (mem_addNew _ _ g).2 (Or.inl hg))
    obtain ⟨U, h, w⟩ := ih _ w0
    refine ⟨U, ?_, w⟩
    cases r with
    | norm => exact absurd rfl hr
    | rais => exact h
    | ret => exact h
  | ret σ => intro D hd; exact ⟨D, rfl, hd⟩
  | restoreN rs σ =>
    intro D hd
    refine ⟨D.filter (fun f => !rs.contains f), rfl, ?_⟩
    intro g hg
    simp only [restore] at hg
    by_cases hr : g ∈ rs
    · simp [hr] at hg
    · simp only [hr, if_false] at hg
      simp only [List.mem_filter, Bool.not_eq_true', List.contains_eq_mem, decide_eq_false_iff_not]
      exact ⟨hd g hg, hr⟩
  | scopeN a σ r σ1 hr _ ih =>
    intro D hd
    obtain ⟨U, h, w⟩ := ih D hd
    cases r with
    | ret => exact absurd rfl hr
    | rais => exact ⟨U, h, w⟩
    | norm =>
      obtain ⟨U', h', hs⟩ := join_left (run a D).norm (run a D).ret U h
      exact ⟨U', h', within_mono w hs⟩
  | scopeR a σ σ1 _ ih =>
    intro D hd
    obtain ⟨U, h, w⟩ := ih D hd
    obtain ⟨U', h', hs⟩ := join_right (run a D).norm (run a D).ret U h
    exact ⟨U', h', within_mono w hs⟩
  | tryN rs body σ r σ' hr _ ih =>
    intro D hd
    obtain ⟨U, h, w⟩ := ih D hd
    refine ⟨U, ?_, w⟩
    cases r with
    | rais => exact absurd rfl hr
    | norm => exact h
    | ret => exact h
  | tryR rs body σ σ' _ ih =>
    intro D hd
    obtain ⟨U, h, w⟩ := ih D hd
    refine ⟨U.filter (fun f => !rs.contains f), ?_, ?_⟩
    · have : (run body D).rais = some U := h
      simp [run, Outs.get, this]
    · intro g hg
      simp only [restore] at hg
      by_cases hr : g ∈ rs
      · simp [hr] at hg
      · simp only [hr, if_false] at hg
        simp only [List.mem_filter, Bool.not_eq_true', List.contains_eq_mem, decide_eq_false_iff_not]
        exact ⟨w g hg, hr⟩
  | fin body fin σ p σ1 r σ2 _ _ ihb ihf =>
    intro D hd
    obtain ⟨U1, h1, w1⟩ := ihb D hd
    obtain ⟨U2, h2, w2⟩ := ihf U1 w1
    cases p with
    | norm =>
      -- the body ended normally: the finally block decides
      have hb : (run body D).norm = some U1 := h1
      obtain ⟨U', h', hs⟩ := bind_norm ({ norm := (run body D).norm } : Outs) (run fin) U1 r U2 hb h2
      have hr : afterFinally .norm r = r := by cases r <;> rfl
      rw [hr]
      obtain ⟨U'', h'', hs'⟩ := get_join_left _ (match (run body D).rais with
        | none => ({} : Outs)
        | some U => { rais := (run fin U).norm.join (run fin U).rais, ret := (run fin U).ret }) r U' h'
      obtain ⟨U3, h3, hs3⟩ := get_join_left _ (match (run body D).ret with
        | none => ({} : Outs)
        | some U => { ret := (run fin U).norm.join (run fin U).ret, rais := (run fin U).rais }) r U'' h''
      exact ⟨U3, h3, within_mono w2 (fun g hg => hs3 g (hs' g (hs g hg)))⟩
    | rais =>
      have hb : (run body D).rais = some U1 := h1
      -- the pending exception travels on unless the finally block raises or returns itself
      have key : ∃ U', (({ rais := (run fin U1).norm.join (run fin U1).rais, ret := (run fin U1).ret } : Outs).get
          (afterFinally .rais r)) = some U' ∧ ∀ g ∈ U2, g ∈ U' := by
        cases r with
        | norm => exact join_left _ _ U2 h2
        | rais => exact join_right _ _ U2 h2
        | ret => exact ⟨U2, h2, fun _ h => h⟩
      obtain ⟨U', h', hs⟩ := key
      have h'' : ((match (run body D).rais with
        | none => ({} : Outs)
        | some U => { rais := (run fin U).norm.join (run fin U).rais, ret := (run fin U).ret }) : Outs).get
          (afterFinally .rais r) = some U' := by rw [hb]; exact h'
      obtain ⟨U3, h3, hs3⟩ := get_join_right (({ norm := (run body D).norm } : Outs).bind (run fin)) _ _ U' h''
      obtain ⟨U4, h4, hs4⟩ := get_join_left _ (match (run body D).ret with
        | none => ({} : Outs)
        | some U => { ret := (run fin U).norm.join (run fin U).ret, rais := (run fin U).rais }) _ U3 h3
      exact ⟨U4, h4, within_mono w2 (fun g hg => hs4 g (hs3 g (hs g hg)))⟩
    | ret =>
      have hb : (run body D).ret = some U1 := h1
      have key : ∃ U', (({ ret := (run fin U1).norm.join (run fin U1).ret, rais := (run fin U1).rais } : Outs).get
          (afterFinally .ret r)) = some U' ∧ ∀ g ∈ U2, g ∈ U' := by
        cases r with
        | norm => exact join_left _ _ U2 h2
        | rais => exact ⟨U2, h2, fun _ h => h⟩
        | ret => exact join_right _ _ U2 h2
      obtain ⟨U', h', hs⟩ := key
      have h'' : ((match (run body D).ret with
        | none => ({} : Outs)
        | some U => { ret := (run fin U).norm.join (run fin U).ret, rais := (run fin U).rais }) : Outs).get
          (afterFinally .ret r) = some U' := by rw [hb]; exact h'
      obtain ⟨U3, h3, hs3⟩ := get_join_right ((({ norm := (run body D).norm } : Outs).bind (run fin)).join
        (match (run body D).rais with
        | none => ({} : Outs)
        | some U => { rais := (run fin U).norm.join (run fin U).rais, ret := (run fin U).ret })) _ _ U' h''
      exact ⟨U3, h3, within_mono w2 (fun g hg => hs3 g (hs g hg))⟩

/-- **a disciplined setter that raises leaves the object exactly as it was** -/
theorem disciplined_unchanged (p : IR) (hp : Disciplined p) (σ σ' : State) (h : Exec σ p σ .rais σ') : σ' = σ := by
  obtain ⟨U, h1, w⟩ := sound h [] (fun g hg => absurd rfl hg)
  have hU : U = [] := by
    rcases hp with hp | hp
    · rw [show (run p []).get .rais = (run p []).rais from rfl, hp] at h1; cases h1
    · rw [show (run p []).get .rais = (run p []).rais from rfl, hp] at h1; exact (Option.some.inj h1).symm
  subst hU
  funext g
  by_cases hg : σ' g = σ g
  · exact hg
  · exact absurd (w g hg) (by simp)

/-- **a clean program leaves the state exactly as it found it, however it ends** -/
theorem clean_unchanged (p : IR) (hp : Clean p) (σ σ' : State) (r : Res) (h : Exec σ p σ r σ') : σ' = σ := by
  obtain ⟨U, h1, w⟩ := sound h [] (fun g hg => absurd rfl hg)
  have hU : U = [] := by
    obtain ⟨c1, c2, c3⟩ := hp
    have hb : ((run p []).get r).clean = true := by cases r <;> assumption
    rw [h1] at hb
    simpa [Bound.clean] using hb
  subst hU
  funext g
  by_cases hg : σ' g = σ g
  · exact hg
  · exact absurd (w g hg) (by simp)

end CssVerif.SetterIR
