/-
Names with hex escapes: how the tokenizer's `{escape}` expression reads `\` + 1–6 hex digits + optional
white space (exactly one way, by construction of the expression), how `{nmchar}*` runs over a name some
of whose characters are written that way, and what the `\hex` rewrite makes of such a name.
-/
import CssVerif.Proofs.UnicodeSub
namespace CssVerif
open Re

/-! ### the tokenizer's `{unicode}` expression -/

def hexT : Re := .cls false [(48, 57), (65, 70), (97, 102)]
def nahHex : Re := .nahead false [(48, 57), (65, 70), (97, 102)]
def wsT : Re := .cls false [(32, 32), (9, 9), (13, 13), (10, 10), (12, 12)]
def nahWs : Re := .nahead false [(32, 32), (9, 9), (13, 13), (10, 10), (12, 12)]

theorem test_hexT : IsTest hexT isHex :=
  (isTest_cls _ _).congr (fun c => by
    rw [Bool.eq_iff_iff]; simp [clsMatch, inRanges, isHex]; omega)

theorem test_wsT : IsTest wsT isWsC :=
  (isTest_cls _ _).congr (fun c => by
    rw [Bool.eq_iff_iff]; simp [clsMatch, inRanges, isWsC]; omega)

theorem nahHex_cons (c : Nat) (s : Text) : ms nahHex (c :: s) = if isHex c = true then [] else [c :: s] := by
  have : clsMatch false [(48, 57), (65, 70), (97, 102)] c = isHex c := by
    rw [Bool.eq_iff_iff]; simp [clsMatch, inRanges, isHex]; omega
  simp [nahHex, ms, this]

theorem nahWs_cons (c : Nat) (s : Text) : ms nahWs (c :: s) = if isWsC c = true then [] else [c :: s] := by
  have : clsMatch false [(32, 32), (9, 9), (13, 13), (10, 10), (12, 12)] c = isWsC c := by
    rw [Bool.eq_iff_iff]; simp [clsMatch, inRanges, isWsC]; omega
  simp [nahWs, ms, this]

/-- `(?:h(?:h(…|(?!h))|(?!h))|(?!h))`: up to `k + 1` more hex digits, all that are there -/
def ht : Nat → Re
  | 0 => .alt hexT nahHex
  | k + 1 => .alt (.seq hexT (ht k)) nahHex

/-- the text after the digits does not start with a hex digit -/
def noHexHead (t : Text) : Bool := match t with | d :: _ => !isHex d | [] => true
def noWsHead (t : Text) : Bool := match t with | d :: _ => !isWsC d | [] => true

theorem nahHex_stop (t : Text) (h : noHexHead t = true) : ms nahHex t = [t] := by
  cases t with
  | nil => rfl
  | cons d r =>
    have : isHex d = false := by simpa [noHexHead] using h
    rw [nahHex_cons, this]; rfl

theorem hexT_stop (t : Text) (h : noHexHead t = true) : ms hexT t = [] := by
  apply test_hexT.stop
  intro d hd
  cases t with
  | nil => cases hd
  | cons x r => simp at hd; subst hd; simpa [noHexHead] using h

/-- the digits of an escape are read in exactly one way -/
theorem ms_ht : ∀ (k : Nat) (ds t : Text), (∀ x ∈ ds, isHex x = true) → ds.length ≤ k + 1 →
    (ds.length < k + 1 → noHexHead t = true) → ms (ht k) (ds ++ t) = [t] := by
  intro k
  induction k with
  | zero =>
    intro ds t hds hlen hstop
    match ds, hds, hlen, hstop with
    | [], _, _, hstop =>
      have h := hstop (by simp)
      simp [ht, ms_alt, hexT_stop t h, nahHex_stop t h]
    | [d], hds, _, _ =>
      have hd := hds d (by simp)
      simp [ht, ms_alt, test_hexT.pos hd, nahHex_cons, hd]
    | _ :: _ :: _, _, hlen, _ => simp at hlen
  | succ k ih =>
    intro ds t hds hlen hstop
    cases ds with
    | nil =>
      have h := hstop (by simp)
      simp [ht, ms_alt, ms_seq_nil_left _ _ _ (hexT_stop t h), nahHex_stop t h]
    | cons d ds' =>
      have hd := hds d List.mem_cons_self
      have := ih ds' t (fun x hx => hds x (List.mem_cons_of_mem _ hx)) (by simpa using hlen)
        (fun h => hstop (by simp only [List.length_cons]; omega))
      show ms (.alt (.seq hexT (ht k)) nahHex) (d :: (ds' ++ t)) = [t]
      rw [ms_alt, ms_seq_single _ _ _ _ (test_hexT.pos hd _), this, nahHex_cons, hd]
      rfl

/-- `\r\n | [ \t\r\n\f] | (?![ \t\r\n\f])` -/
def termT : Re := .alt (.seq (.cls false [(13, 13)]) (.cls false [(10, 10)])) (.alt wsT nahWs)

/-- the optional terminator, as written: nothing (then no white space follows), or one white-space
character (a `\r` not followed by `\n`) -/
def termOK (term : Option Nat) (t : Text) : Bool :=
  match term with
  | none => noWsHead t
  | some w => isWsC w && !(w == 13 && t.head? == some 10)

theorem ms_termT (term : Option Nat) (t : Text) (h : termOK term t = true) :
    ms termT (term.toList ++ t) = [t] := by
  unfold termT
  rw [ms_alt, ms_alt, ms_lit_seq]
  cases term with
  | none =>
    simp only [Option.toList_none, List.nil_append]
    cases t with
    | nil => simp [test_wsT.nil, nahWs, ms]
    | cons d r =>
      have hd : isWsC d = false := by simpa [termOK, noWsHead] using h
      have h13 : d ≠ 13 := by intro e; subst e; cases hd
      simp [h13, test_wsT.neg hd, nahWs_cons, hd]
  | some w =>
    simp only [termOK, Bool.and_eq_true, Bool.not_eq_true', Bool.and_eq_false_iff, beq_eq_false_iff_ne] at h
    obtain ⟨hw, hcr⟩ := h
    simp only [Option.toList_some, List.singleton_append]
    have hcrlf : (if w = 13 then ms (.cls false [(10, 10)]) t else []) = [] := by
      by_cases h13 : w = 13
      · simp only [h13, if_true]
        rw [ms_lit]
        cases t with
        | nil => rfl
        | cons x r =>
          have : x ≠ 10 := by
            rcases hcr with h | h
            · exact absurd h13 (by simpa using h)
            · simpa using h
          simp [this]
      · simp [h13]
    rw [hcrlf, test_wsT.pos hw, nahWs_cons, hw]
    rfl

/-- `{escape}` without the backslash: `{unicode}` or one character that is neither a newline nor a hex
digit -/
def escX : Re :=
  .alt (.seq hexT (.seq (ht 4) termT)) (.cls true [(10, 10), (13, 13), (12, 12), (48, 57), (97, 102), (65, 70)])

/-- a hex escape as written: 1–6 hex digits, all that are there (fewer than six only if no hex digit
follows), then the optional terminator -/
def escOK (ds : Text) (term : Option Nat) (t : Text) : Bool :=
  !ds.isEmpty && ds.length ≤ 6 && ds.all isHex && (ds.length == 6 || noHexHead (term.toList ++ t)) &&
    termOK term t

theorem escOK_spec {ds : Text} {term : Option Nat} {t : Text} (h : escOK ds term t = true) :
    ∃ d ds', ds = d :: ds' ∧ isHex d = true ∧ (∀ x ∈ ds', isHex x = true) ∧ ds'.length ≤ 5 ∧
      (ds'.length < 5 → noHexHead (term.toList ++ t) = true) ∧ termOK term t = true := by
  simp only [escOK, Bool.and_eq_true, Bool.not_eq_true', List.all_eq_true, Bool.or_eq_true, beq_iff_eq,
    decide_eq_true_eq] at h
  obtain ⟨⟨⟨⟨hne, hlen⟩, hall⟩, hstop⟩, hterm⟩ := h
  cases ds with
  | nil => simp at hne
  | cons d ds' =>
    refine ⟨d, ds', rfl, hall d List.mem_cons_self, fun x hx => hall x (List.mem_cons_of_mem _ hx),
      by simpa using hlen, ?_, hterm⟩
    intro hlt
    rcases hstop with h | h
    · simp only [List.length_cons] at h; omega
    · exact h

/-- the escape expression reads a hex escape in exactly one way, whatever follows -/
theorem ms_escX (ds : Text) (term : Option Nat) (t : Text) (h : escOK ds term t = true) :
    ms escX (ds ++ (term.toList ++ t)) = [t] := by
  obtain ⟨d, ds', rfl, hd, hds', hlen, hstop, hterm⟩ := escOK_spec h
  unfold escX
  have hlit : ms (.cls true [(10, 10), (13, 13), (12, 12), (48, 57), (97, 102), (65, 70)])
      (d :: (ds' ++ (term.toList ++ t))) = [] := by
    have : inRanges d [(10, 10), (13, 13), (12, 12), (48, 57), (97, 102), (65, 70)] = true := by
      simp only [isHex, Bool.or_eq_true, Bool.and_eq_true, decide_eq_true_eq] at hd
      simp [inRanges]; omega
    simp [ms, clsMatch, this]
  show ms _ (d :: (ds' ++ (term.toList ++ t))) = [t]
  rw [ms_alt, hlit, ms_seq_single _ _ _ _ (test_hexT.pos hd _),
    ms_seq_single _ _ _ _ (ms_ht 4 ds' _ hds' (by omega) (fun h => hstop (by omega))), ms_termT term t hterm]
  rfl

/-! ### names written with hex escapes -/

/-- one character of a name, as written -/
inductive NmUnit where
  | plain (c : Nat)
  | esc (ds : Text) (term : Option Nat)
  deriving Repr, DecidableEq

def NmUnit.text : NmUnit → Text
  | .plain c => [c]
  | .esc ds term => 92 :: ds ++ term.toList

def unitsText (us : List NmUnit) : Text := us.flatMap NmUnit.text

/-- what the `\hex` rewrite makes of it: the character with that code point (an escape beyond U+10FFFF is
left as written) -/
def NmUnit.val : NmUnit → Text
  | .plain c => [c]
  | .esc ds term => if hexFold 0 ds ≤ 0x10FFFF then [hexFold 0 ds] else 92 :: ds ++ term.toList

def unitsVal (us : List NmUnit) : Text := us.flatMap NmUnit.val

/-- the unit is a name character (resp. a name-start character) as written, `t` being the text after it -/
def NmUnit.ok (start : Bool) (u : NmUnit) (t : Text) : Bool :=
  match u with
  | .plain c => if start then isNmStart c else isNmChar c
  | .esc ds term => escOK ds term t

def unitsOK : List NmUnit → Text → Bool
  | [], _ => true
  | u :: us, rest => u.ok false (unitsText us ++ rest) && unitsOK us rest

theorem unitsText_cons (u : NmUnit) (us : List NmUnit) : unitsText (u :: us) = u.text ++ unitsText us := rfl

theorem ms_unit (X : Re) (hX : X = escX) (start : Bool) (u : NmUnit) (t : Text) (h : u.ok start t = true) :
    ms (if start then nmstartRe X else nmcharRe X) (u.text ++ t) = [t] := by
  subst hX
  cases u with
  | plain c =>
    cases start with
    | true => exact (test_nmstart escX).pos (nmstart_facts h).1 h t
    | false => exact (test_nmchar escX).pos (nmchar_facts h).1 h t
  | esc ds term =>
    have hesc := ms_escX ds term t h
    have e : (NmUnit.esc ds term).text ++ t = 92 :: (ds ++ (term.toList ++ t)) := by simp [NmUnit.text]
    rw [e]
    have h92 : ∀ rs, ms (nmRe rs escX) (92 :: (ds ++ (term.toList ++ t))) =
        (if clsMatch false rs 92 then [ds ++ (term.toList ++ t)] else []) ++ [t] := by
      intro rs
      unfold nmRe
      rw [ms_alt, ms_alt, ms_seq_single _ _ _ _ (test_bs.pos (by rfl) _), hesc]
      simp [ms, clsMatch, inRanges]
    cases start with
    | true => simp only [if_true, nmstartRe]; rw [h92]; rfl
    | false => simp only [Bool.false_eq_true, if_false, nmcharRe]; rw [h92]; rfl

theorem nmcharRe_not_nullable (X : Re) : nullable (nmcharRe X) = false := by
  simp [nmcharRe, nmRe, nullable, bsR]

/-- `{nmchar}*` over a name with escapes: the greedy choice takes the whole name -/
theorem star_units_head (X : Re) (hX : X = escX) : ∀ (us : List NmUnit) (rest : Text), unitsOK us rest = true →
    NameStop rest → (ms (.star (nmcharRe X)) (unitsText us ++ rest)).head? = some rest := by
  intro us
  induction us with
  | nil =>
    intro rest _ hrest
    rw [ms_star_unroll _ (nmcharRe_not_nullable X)]
    simp [unitsText, (test_nmchar X).stop rest hrest]
  | cons u us ih =>
    intro rest h hrest
    simp only [unitsOK, Bool.and_eq_true] at h
    have hu := ms_unit X hX false u _ h.1
    simp only [Bool.false_eq_true, if_false] at hu
    rw [unitsText_cons, List.append_assoc, ms_star_unroll _ (nmcharRe_not_nullable X), hu]
    simp only [List.flatMap_cons, List.flatMap_nil, List.append_nil]
    rw [List.head?_append, ih rest h.2 hrest]
    rfl

/-- a name as written: optional `-`, a first unit that is a name-start character, more units -/
def nameText (m : Bool) (u : NmUnit) (us : List NmUnit) : Text :=
  (if m then [45] else []) ++ (u.text ++ unitsText us)

def nameOKE (u : NmUnit) (us : List NmUnit) (rest : Text) : Bool :=
  u.ok true (unitsText us ++ rest) && unitsOK us rest

theorem unit_head (start : Bool) (u : NmUnit) (t : Text) (h : u.ok start t = true) :
    (∃ x post, u.text ++ t = x :: post ∧ x ≠ 45) ∨ (∃ post, u.text ++ t = 45 :: post ∧ start = false) := by
  cases u with
  | plain c =>
    by_cases hc : c = 45
    · subst hc
      cases start with
      | true => simp [NmUnit.ok, isNmStart] at h
      | false => exact Or.inr ⟨t, rfl, rfl⟩
    · exact Or.inl ⟨c, t, rfl, hc⟩
  | esc ds term => exact Or.inl ⟨92, ds ++ term.toList ++ t, by simp [NmUnit.text], by decide⟩

/-- IDENT's expression on a name with escapes: the greedy choice takes the whole name -/
theorem ident_units_head (X : Re) (hX : X = escX) (m : Bool) (u : NmUnit) (us : List NmUnit) (rest : Text)
    (h : nameOKE u us rest = true) (hrest : NameStop rest) :
    (ms (identRe X) (nameText m u us ++ rest)).head? = some rest := by
  simp only [nameOKE, Bool.and_eq_true] at h
  have hu := ms_unit X hX true u _ h.1
  simp only [if_true] at hu
  have hname : (ms (nameRe X) (u.text ++ (unitsText us ++ rest))).head? = some rest := by
    unfold nameRe
    rw [ms_seq_single _ _ _ _ hu]
    exact star_units_head X hX us rest h.2 hrest
  have hne45 : ∀ d ∈ (u.text ++ (unitsText us ++ rest)).head?, (d == 45) = false := by
    intro d hd
    rcases unit_head true u _ h.1 with ⟨x, post, hx, hne⟩ | ⟨post, _, hf⟩
    · rw [hx] at hd; simp at hd; subst hd; simpa using hne
    · cases hf
  unfold identRe nameText
  cases m with
  | false =>
    simp only [Bool.false_eq_true, if_false, List.nil_append, List.append_assoc]
    rw [ms_seq_single _ _ _ _ (test_minus.opt_stop _ hne45)]
    exact hname
  | true =>
    simp only [if_true, List.cons_append, List.nil_append, List.append_assoc]
    rw [ms_seq, test_minus.opt_pos (by rfl)]
    exact head?_flatMap_of_head _ _ _ _ rfl hname

/-! ### the value of such a name -/

theorem unescape_fuel (a b : Nat) (s : Text) (ha : s.length ≤ a) (hb : s.length ≤ b) :
    Escape.unescape a s = Escape.unescape b s := by
  rw [← reSub_unescape s.length a s (Nat.le_refl _) ha, ← reSub_unescape s.length b s (Nat.le_refl _) hb]

theorem cssUnescape_plain (c : Nat) (s : Text) (hc : c ≠ 92) :
    Escape.cssUnescape (c :: s) = c :: Escape.cssUnescape s := by
  simp only [Escape.cssUnescape, List.length_cons]
  rw [Escape.unescape_plain _ c s hc]

theorem takeHexPre_digits : ∀ (k : Nat) (ds t : Text), (∀ x ∈ ds, isHex x = true) → ds.length ≤ k →
    (ds.length < k → noHexHead t = true) → takeHexPre k (ds ++ t) = ds ∧ dropHex k (ds ++ t) = t := by
  intro k
  induction k with
  | zero =>
    intro ds t _ hlen _
    have : ds = [] := List.eq_nil_of_length_eq_zero (by omega)
    subst this
    exact ⟨rfl, rfl⟩
  | succ k ih =>
    intro ds t hds hlen hstop
    cases ds with
    | nil =>
      have h := hstop (by simp)
      cases t with
      | nil => exact ⟨rfl, rfl⟩
      | cons d r =>
        have hd : isHex d = false := by simpa [noHexHead] using h
        simp [takeHexPre, dropHex, hd]
    | cons d ds' =>
      have hd := hds d List.mem_cons_self
      obtain ⟨h1, h2⟩ := ih ds' t (fun x hx => hds x (List.mem_cons_of_mem _ hx)) (by simpa using hlen)
        (fun h => hstop (by simp only [List.length_cons]; omega))
      simp [takeHexPre, dropHex, hd, h1, h2]

theorem afterWs_term (term : Option Nat) (t : Text) (h : termOK term t = true) :
    afterWs (term.toList ++ t) = t ∧ wsPart (term.toList ++ t) = term.toList := by
  cases term with
  | none =>
    simp only [Option.toList_none, List.nil_append]
    match t, h with
    | [], _ => exact ⟨rfl, rfl⟩
    | [w], h =>
      have hw : isWsC w = false := by simpa [termOK, noWsHead] using h
      simp [afterWs, wsPart, hw]
    | w :: x :: r, h =>
      have hw : isWsC w = false := by simpa [termOK, noWsHead] using h
      have h13 : w ≠ 13 := by intro e; subst e; cases hw
      simp [afterWs, wsPart, hw, h13]
  | some w =>
    simp only [termOK, Bool.and_eq_true, Bool.not_eq_true', Bool.and_eq_false_iff, beq_eq_false_iff_ne] at h
    obtain ⟨hw, hcr⟩ := h
    simp only [Option.toList_some, List.singleton_append]
    cases t with
    | nil => simp [afterWs, wsPart, hw]
    | cons x r =>
      have : ¬ (w = 13 ∧ x = 10) := by
        rintro ⟨rfl, rfl⟩
        rcases hcr with h | h
        · exact h rfl
        · simp at h
      simp [afterWs, wsPart, hw, this]

theorem cssUnescape_esc (ds : Text) (term : Option Nat) (t : Text) (h : escOK ds term t = true) :
    Escape.cssUnescape ((NmUnit.esc ds term).text ++ t) = (NmUnit.esc ds term).val ++ Escape.cssUnescape t := by
  obtain ⟨d, ds', rfl, hd, hds', hlen, hstop, hterm⟩ := escOK_spec h
  have hall : ∀ x ∈ d :: ds', isHex x = true := by
    intro x hx
    rcases List.mem_cons.mp hx with rfl | hx
    · exact hd
    · exact hds' x hx
  obtain ⟨h1, h2⟩ := takeHexPre_digits 6 (d :: ds') (term.toList ++ t) hall (by simp only [List.length_cons]; omega)
    (fun h => hstop (by simp only [List.length_cons] at h; omega))
  obtain ⟨h3, h4⟩ := afterWs_term term t hterm
  have e : (NmUnit.esc (d :: ds') term).text ++ t = 92 :: ((d :: ds') ++ (term.toList ++ t)) := by
    simp [NmUnit.text]
  rw [e]
  simp only [Escape.cssUnescape, List.length_cons]
  rw [unescape_bs, h1, h2, h3, h4]
  simp only [reduceCtorEq, if_false, NmUnit.val]
  congr 1
  apply unescape_fuel
  · simp only [List.length_append, List.length_cons]; omega
  · omega

/-- **the value of a name with hex escapes**: every escape is replaced by its character -/
theorem cssUnescape_units : ∀ (us : List NmUnit) (rest : Text), unitsOK us rest = true →
    Escape.cssUnescape (unitsText us ++ rest) = unitsVal us ++ Escape.cssUnescape rest := by
  intro us
  induction us with
  | nil => intro rest _; rfl
  | cons u us ih =>
    intro rest h
    simp only [unitsOK, Bool.and_eq_true] at h
    rw [unitsText_cons, List.append_assoc]
    cases u with
    | plain c =>
      have hc : c ≠ 92 := (nmchar_facts (by simpa [NmUnit.ok] using h.1)).1
      show Escape.cssUnescape (c :: (unitsText us ++ rest)) = _
      rw [cssUnescape_plain c _ hc, ih rest h.2]
      rfl
    | esc ds term =>
      rw [cssUnescape_esc ds term _ h.1, ih rest h.2]
      simp [unitsVal]

theorem cssUnescape_nil : Escape.cssUnescape [] = [] := rfl

/-- the side conditions of the last escape only matter if something follows the name -/
theorem unitsOK_nil : ∀ (us : List NmUnit) (rest : Text), unitsOK us rest = true → unitsOK us [] = true := by
  intro us
  induction us with
  | nil => intro _ _; rfl
  | cons u us ih =>
    intro rest h
    simp only [unitsOK, Bool.and_eq_true] at h ⊢
    refine ⟨?_, ih rest h.2⟩
    cases u with
    | plain c => exact h.1
    | esc ds term =>
      have h1 := h.1
      simp only [NmUnit.ok, List.append_nil] at h1 ⊢
      cases us with
      | nil =>
        simp only [unitsText, List.flatMap_nil, List.nil_append] at h1 ⊢
        cases term <;> simp_all [escOK, noHexHead, termOK, noWsHead]
      | cons v vs =>
        have hne : ∃ x post, unitsText (v :: vs) = x :: post := by
          rw [unitsText_cons]
          cases v with
          | plain c => exact ⟨c, _, rfl⟩
          | esc ds' term' => exact ⟨92, ds' ++ term'.toList ++ unitsText vs, by simp [NmUnit.text]⟩
        obtain ⟨x, post, hx⟩ := hne
        rw [hx] at h1 ⊢
        cases term <;> simpa [escOK, noHexHead, termOK, noWsHead] using h1

/-! ### the side conditions look at one character of the text after the name -/

theorem escOK_congr (ds : Text) (term : Option Nat) (t t' : Text) (h : t.head? = t'.head?) :
    escOK ds term t = escOK ds term t' := by
  have h1 : noHexHead (term.toList ++ t) = noHexHead (term.toList ++ t') := by
    cases term with
    | some w => rfl
    | none =>
      simp only [Option.toList_none, List.nil_append]
      cases t <;> cases t' <;> simp_all [noHexHead]
  have h2 : termOK term t = termOK term t' := by
    cases term with
    | some w => simp [termOK, h]
    | none => cases t <;> cases t' <;> simp_all [termOK, noWsHead]
  simp only [escOK, h1, h2]

theorem unit_ok_congr (start : Bool) (u : NmUnit) (t t' : Text) (h : t.head? = t'.head?) :
    u.ok start t = u.ok start t' := by
  cases u with
  | plain c => rfl
  | esc ds term => exact escOK_congr ds term t t' h

theorem unitsOK_congr : ∀ (us : List NmUnit) (t t' : Text), t.head? = t'.head? → unitsOK us t = unitsOK us t' := by
  intro us
  induction us with
  | nil => intro _ _ _; rfl
  | cons u us ih =>
    intro t t' h
    simp only [unitsOK]
    rw [ih t t' h, unit_ok_congr false u (unitsText us ++ t) (unitsText us ++ t')
      (by rw [List.head?_append, List.head?_append, h])]

theorem nameOKE_congr (u : NmUnit) (us : List NmUnit) (t t' : Text) (h : t.head? = t'.head?) :
    nameOKE u us t = nameOKE u us t' := by
  simp only [nameOKE]
  rw [unitsOK_congr us t t' h, unit_ok_congr true u (unitsText us ++ t) (unitsText us ++ t')
    (by rw [List.head?_append, List.head?_append, h])]

theorem nameOKE_nil (u : NmUnit) (us : List NmUnit) (rest : Text) (h : nameOKE u us rest = true) :
    nameOKE u us [] = true := by
  simp only [nameOKE, Bool.and_eq_true] at h ⊢
  refine ⟨?_, unitsOK_nil us rest h.2⟩
  cases u with
  | plain c => exact h.1
  | esc ds term =>
    -- as a unit in front of `us`, with the flag irrelevant for an escape
    have : unitsOK (NmUnit.esc ds term :: us) rest = true := by
      simp only [unitsOK, Bool.and_eq_true]; exact ⟨h.1, h.2⟩
    have := unitsOK_nil _ _ this
    simp only [unitsOK, Bool.and_eq_true] at this
    exact this.1

/-- the text of a unit is not empty -/
theorem unit_text_cons (start : Bool) (u : NmUnit) (t : Text) (h : u.ok start t = true) :
    ∃ x r, u.text = x :: r ∧ x ≠ 64 ∧ (r = [] → x ≠ 45 ∨ start = false) ∧ (r = [] → x ≠ 46) := by
  cases u with
  | plain c =>
    have hc : isNmChar c = true := by
      cases start with
      | true => simp only [NmUnit.ok, if_true] at h; simp [isNmChar, h]
      | false => simpa [NmUnit.ok] using h
    refine ⟨c, [], rfl, ?_, ?_, ?_⟩
    · intro e; subst e; revert hc; decide
    · intro _
      cases start with
      | true =>
        left
        simp only [NmUnit.ok, if_true] at h
        exact (nmstart_facts h).2.1
      | false => exact Or.inr rfl
    · intro _ e; subst e; revert hc; decide
  | esc ds term =>
    obtain ⟨d, ds', rfl, -⟩ := escOK_spec h
    exact ⟨92, d :: ds' ++ term.toList, rfl, by decide, by intro h; simp at h, by intro h; simp at h⟩

end CssVerif
