/-
The tokenizer's `\hex` rewrite, as the model runs it (`unicodeSub`: `re.sub` with the regenerated
regular expression `unicodesub` and the replacement function `_repl`), equals the specification
`Escape.cssUnescape` (backslash, up to six hex digits taken greedily, one optional white-space
character, `\r\n` counting as one) on EVERY text.
-/
import CssVerif.Proofs.ClassifySeq
import CssVerif.Proofs.Escape
namespace CssVerif
open Re

/-! ### hex digits -/

def hexC : Re := .cls false [(48, 57), (97, 102), (65, 70)]

theorem test_hexC : IsTest hexC isHex :=
  (isTest_cls _ _).congr (fun c => by
    rw [Bool.eq_iff_iff]; simp [clsMatch, inRanges, isHex]; omega)

/-- the model's hex tests and the specification's agree -/
theorem escape_hexVal (c : Nat) : Escape.hexVal c = if isHex c = true then some (hexVal c) else none := by
  simp only [Escape.hexVal, isHex, hexVal, Bool.or_eq_true, Bool.and_eq_true, decide_eq_true_eq]
  by_cases h1 : 48 ≤ c ∧ c ≤ 57
  · simp [h1]
  · by_cases h2 : 65 ≤ c ∧ c ≤ 70
    · simp [h1, h2]
    · by_cases h3 : 97 ≤ c ∧ c ≤ 102
      · simp [h1, h2, h3]
      · simp [h1, h2, h3]

theorem escape_isWs (c : Nat) : Escape.isWs c = isWsC c := by
  rw [Bool.eq_iff_iff]
  simp [Escape.isWs, isWsC]
  omega

theorem isHex_not_ws {c : Nat} (h : isWsC c = true) : isHex c = false := by
  simp only [isWsC, Bool.or_eq_true, decide_eq_true_eq] at h
  rcases h with (((h | h) | h) | h) | h <;> subst h <;> rfl

/-- `h`, `h h?`, `h (h h?)?`, …: one to `k + 1` hex digits, greedy -/
def hx : Nat → Re
  | 0 => hexC
  | k + 1 => .seq hexC (.opt (hx k))

/-- the text after at most `k` leading hex digits -/
def dropHex : Nat → Text → Text
  | 0, s => s
  | _ + 1, [] => []
  | k + 1, c :: s => if isHex c = true then dropHex k s else c :: s

/-- the at most `k` leading hex digits -/
def takeHexPre : Nat → Text → Text
  | 0, _ => []
  | _ + 1, [] => []
  | k + 1, c :: s => if isHex c = true then c :: takeHexPre k s else []

theorem takeHexPre_append : ∀ (k : Nat) (s : Text), takeHexPre k s ++ dropHex k s = s := by
  intro k
  induction k with
  | zero => intro s; rfl
  | succ k ih =>
    intro s
    cases s with
    | nil => rfl
    | cons c s =>
      simp only [takeHexPre, dropHex]
      split
      · simp [ih s]
      · rfl

theorem takeHexPre_hex : ∀ (k : Nat) (s : Text), ∀ x ∈ takeHexPre k s, isHex x = true := by
  intro k
  induction k with
  | zero => intro s x hx; cases hx
  | succ k ih =>
    intro s x hx
    cases s with
    | nil => cases hx
    | cons c s =>
      simp only [takeHexPre] at hx
      split at hx
      · rename_i hc
        rcases List.mem_cons.mp hx with rfl | h
        · exact hc
        · exact ih s x h
      · cases hx

theorem dropHex_length_le : ∀ (k : Nat) (s : Text), (dropHex k s).length ≤ s.length := by
  intro k s
  have := congrArg List.length (takeHexPre_append k s)
  simp only [List.length_append] at this
  omega

/-- the greedy choice of `(h (h …)?)?` -/
theorem ms_opt_hx_head : ∀ (k : Nat) (s : Text), (ms (.opt (hx k)) s).head? = some (dropHex (k + 1) s) := by
  intro k
  induction k with
  | zero =>
    intro s
    cases s with
    | nil => simp [ms, hx, test_hexC.nil, dropHex]
    | cons c t =>
      by_cases hc : isHex c = true
      · simp [ms, hx, test_hexC.pos hc, dropHex, hc]
      · have hc' : isHex c = false := by simpa using hc
        simp [ms, hx, test_hexC.neg hc', dropHex, hc']
  | succ k ih =>
    intro s
    cases s with
    | nil =>
      have : ms (hx (k + 1)) [] = [] := ms_seq_nil_left _ _ _ test_hexC.nil
      simp [ms, this, dropHex]
    | cons c t =>
      by_cases hc : isHex c = true
      · have h1 : ms (hx (k + 1)) (c :: t) = ms (.opt (hx k)) t := ms_seq_single _ _ _ _ (test_hexC.pos hc t)
        have h2 := ih t
        show (ms (hx (k + 1)) (c :: t) ++ [c :: t]).head? = _
        rw [h1, List.head?_append, h2]
        simp [dropHex, hc]
      · have hc' : isHex c = false := by simpa using hc
        have h1 : ms (hx (k + 1)) (c :: t) = [] := ms_seq_nil_left _ _ _ (test_hexC.neg hc' t)
        show (ms (hx (k + 1)) (c :: t) ++ [c :: t]).head? = _
        rw [h1]
        simp [dropHex, hc']

/-! ### the optional terminator -/

/-- `\r\n | [ \t\r\n\f]` -/
def termRe : Re := .alt (.seq (.cls false [(13, 13)]) (.cls false [(10, 10)])) wsR

/-- the text after the optional white space that ends an escape -/
def afterWs : Text → Text
  | [] => []
  | [w] => if isWsC w = true then [] else [w]
  | w :: x :: r => if w = 13 ∧ x = 10 then r else if isWsC w = true then x :: r else w :: x :: r

/-- that white space -/
def wsPart : Text → Text
  | [] => []
  | [w] => if isWsC w = true then [w] else []
  | w :: x :: _ => if w = 13 ∧ x = 10 then [13, 10] else if isWsC w = true then [w] else []

theorem wsPart_append (u : Text) : wsPart u ++ afterWs u = u := by
  match u with
  | [] => rfl
  | [w] => by_cases h : isWsC w = true <;> simp [wsPart, afterWs, h]
  | w :: x :: r =>
    by_cases h1 : w = 13 ∧ x = 10
    · obtain ⟨rfl, rfl⟩ := h1; simp [wsPart, afterWs]
    · by_cases h : isWsC w = true <;> simp [wsPart, afterWs, h, h1]

theorem wsPart_head_not_hex (u : Text) : ∀ d ∈ (wsPart u).head?, isHex d = false := by
  intro d hd
  match u with
  | [] => cases hd
  | [w] =>
    by_cases h : isWsC w = true
    · simp [wsPart, h] at hd; subst hd; exact isHex_not_ws h
    · simp [wsPart, h] at hd
  | w :: x :: r =>
    by_cases h1 : w = 13 ∧ x = 10
    · simp [wsPart, h1] at hd; subst hd; rfl
    · by_cases h : isWsC w = true
      · simp [wsPart, h, h1] at hd; subst hd; exact isHex_not_ws h
      · simp [wsPart, h, h1] at hd

theorem afterWs_length_le (u : Text) : (afterWs u).length ≤ u.length := by
  have := congrArg List.length (wsPart_append u)
  simp only [List.length_append] at this
  omega

theorem ms_opt_term_head (u : Text) : (ms (.opt termRe) u).head? = some (afterWs u) := by
  show (ms termRe u ++ [u]).head? = _
  unfold termRe
  rw [ms_alt, ms_lit_seq]
  match u with
  | [] => simp [test_ws.nil, afterWs]
  | [w] =>
    by_cases h : isWsC w = true
    · by_cases h13 : w = 13
      · subst h13; simp [ms_lit, test_ws.pos h, afterWs, h]
      · simp [h13, test_ws.pos h, afterWs, h]
    · have h' : isWsC w = false := by simpa using h
      have h13 : w ≠ 13 := by intro e; subst e; simp [isWsC] at h
      simp [h13, test_ws.neg h', afterWs, h']
  | w :: x :: r =>
    by_cases h13 : w = 13
    · subst h13
      have hws : isWsC 13 = true := rfl
      by_cases h10 : x = 10
      · subst h10; simp [ms_lit, afterWs]
      · simp [ms_lit, h10, test_ws.pos hws, afterWs, hws]
    · by_cases h : isWsC w = true
      · simp [h13, test_ws.pos h, afterWs, h]
      · have h' : isWsC w = false := by simpa using h
        simp [h13, test_ws.neg h', afterWs, h']

/-! ### the expression `unicodesub` -/

/-- obligation on the regenerated table: `unicodesub` is `\\ h (h (h (h (h h?)?)?)?)? (\r\n|[ \t\r\n\f])?` -/
theorem gen_unicodesub_shape :
    Gen.tables.unicodesub = .seq bsR (.seq hexC (.seq (.opt (hx 4)) (.opt termRe))) := rfl

/-- `re.match(unicodesub, …)` at a backslash: it matches iff a hex digit follows, and then takes up to
six of them and the optional terminator -/
theorem exec_unicodesub (s : Text) :
    exec Gen.tables.unicodesub (92 :: s) =
      if (takeHexPre 6 s) = [] then none else some (afterWs (dropHex 6 s)) := by
  rw [gen_unicodesub_shape, exec_eq_head, ms_seq_single _ _ _ _ (test_bs.pos (by rfl) s)]
  cases s with
  | nil => simp [ms_seq_nil_left _ _ _ test_hexC.nil, takeHexPre]
  | cons c t =>
    by_cases hc : isHex c = true
    · rw [ms_seq_single _ _ _ _ (test_hexC.pos hc t), ms_seq]
      rw [head?_flatMap_of_head _ _ _ _ (ms_opt_hx_head 4 t) (ms_opt_term_head _)]
      simp [takeHexPre, dropHex, hc]
    · have hc' : isHex c = false := by simpa using hc
      simp [ms_seq_nil_left _ _ _ (test_hexC.neg hc' t), takeHexPre, hc']

theorem exec_unicodesub_other (c : Nat) (s : Text) (hc : c ≠ 92) :
    exec Gen.tables.unicodesub (c :: s) = none :=
  exec_backslash_none _ (by decide) c s hc

/-! ### the specification's `takeHex` -/

def hexFold (acc : Nat) (t : Text) : Nat := t.foldl (fun a c => 16 * a + hexVal c) acc

theorem takeHex_spec : ∀ (k acc n : Nat) (s : Text),
    Escape.takeHex k acc n s = (hexFold acc (takeHexPre k s), n + (takeHexPre k s).length, dropHex k s) := by
  intro k
  induction k with
  | zero => intro acc n s; simp [Escape.takeHex, takeHexPre, dropHex, hexFold]
  | succ k ih =>
    intro acc n s
    cases s with
    | nil => simp [Escape.takeHex, takeHexPre, dropHex, hexFold]
    | cons c s =>
      simp only [Escape.takeHex, escape_hexVal]
      by_cases hc : isHex c = true
      · simp only [hc, if_true, takeHexPre, dropHex, ih]
        simp only [hexFold, List.foldl_cons, List.length_cons, Nat.mul_comm acc 16]
        congr 2
        omega
      · simp [hc, takeHexPre, dropHex, hexFold]

theorem hexNum_pre (pre w : Text) (hpre : ∀ x ∈ pre, isHex x = true) (hw : ∀ d ∈ w.head?, isHex d = false) :
    hexNum (pre ++ w) = hexFold 0 pre := by
  have : (pre ++ w).takeWhile isHex = pre := by
    induction pre with
    | nil =>
      cases w with
      | nil => rfl
      | cons d r => simp [List.takeWhile, hw d (by simp)]
    | cons x xs ih =>
      simp only [List.cons_append, List.takeWhile, hpre x List.mem_cons_self]
      rw [ih (fun y hy => hpre y (List.mem_cons_of_mem _ hy))]
  simp [hexNum, this, hexFold]

/-! ### `re.sub(unicodesub, _repl, s)` is the specification -/

theorem unescape_nil (a : Nat) : Escape.unescape a [] = [] := by
  cases a <;> rfl

theorem unescape_bs (a : Nat) (s : Text) :
    Escape.unescape (a + 1) (92 :: s) =
      if takeHexPre 6 s = [] then 92 :: Escape.unescape a s
      else (if hexFold 0 (takeHexPre 6 s) ≤ 0x10FFFF then [hexFold 0 (takeHexPre 6 s)]
            else 92 :: takeHexPre 6 s ++ wsPart (dropHex 6 s)) ++ Escape.unescape a (afterWs (dropHex 6 s)) := by
  have htake : s.take (takeHexPre 6 s).length = takeHexPre 6 s := by
    have := List.take_left' (l₁ := takeHexPre 6 s) (l₂ := dropHex 6 s) rfl
    rwa [takeHexPre_append] at this
  simp only [Escape.unescape, takeHex_spec, Nat.zero_add, List.length_eq_zero_iff, htake]
  by_cases h0 : takeHexPre 6 s = []
  · simp [h0]
  · simp only [h0, if_false]
    generalize dropHex 6 s = u
    have hwa : ∀ (w : Nat) (r : Text), (∀ r', w = 13 → r = 10 :: r' → False) →
        wsPart (w :: r) = (if Escape.isWs w = true then [w] else []) ∧
        afterWs (w :: r) = (if Escape.isWs w = true then r else w :: r) := by
      intro w r hne
      rw [escape_isWs]
      cases r with
      | nil => by_cases h : isWsC w = true <;> simp [wsPart, afterWs, h]
      | cons x r' =>
        have h1 : ¬ (w = 13 ∧ x = 10) := by rintro ⟨rfl, rfl⟩; exact hne r' rfl rfl
        by_cases h : isWsC w = true <;> simp [wsPart, afterWs, h, h1]
    by_cases hv : hexFold 0 (takeHexPre 6 s) ≤ 1114111
    · simp only [hv, if_true]
      split
      · simp [afterWs]
      · rename_i w r hne
        rw [(hwa w r hne).2]
        by_cases h : Escape.isWs w = true <;> simp [h]
      · simp [afterWs]
    · simp only [hv, if_false]
      split
      · simp [wsPart, afterWs]
      · rename_i w r hne
        rw [(hwa w r hne).1, (hwa w r hne).2]
        by_cases h : Escape.isWs w = true <;> simp [h]
      · simp [wsPart, afterWs]

theorem take_bs (s : Text) :
    List.take (s.length + 1 - (afterWs (dropHex 6 s)).length) (92 :: s) =
      92 :: takeHexPre 6 s ++ wsPart (dropHex 6 s) := by
  have e : (92 :: takeHexPre 6 s ++ wsPart (dropHex 6 s)) ++ afterWs (dropHex 6 s) = 92 :: s := by
    simp only [List.cons_append, List.append_assoc, wsPart_append, takeHexPre_append]
  have hl : s.length + 1 - (afterWs (dropHex 6 s)).length = (92 :: takeHexPre 6 s ++ wsPart (dropHex 6 s)).length := by
    have := congrArg List.length e
    simp only [List.length_append, List.length_cons] at this ⊢
    omega
  rw [hl]
  conv => lhs; rw [← e]
  exact List.take_left' rfl

theorem reSub_unescape : ∀ (b a : Nat) (s : Text), s.length ≤ b → s.length ≤ a →
    reSub Gen.tables.unicodesub hexRepl b s = Escape.unescape a s := by
  intro b
  induction b with
  | zero =>
    intro a s hb _
    have : s = [] := List.eq_nil_of_length_eq_zero (by omega)
    subst this
    rw [unescape_nil]; rfl
  | succ b ih =>
    intro a s hb ha
    cases s with
    | nil => rw [unescape_nil]; rfl
    | cons c s =>
      obtain ⟨a, rfl⟩ : ∃ a', a = a' + 1 := ⟨a - 1, by simp at ha; omega⟩
      simp only [List.length_cons, Nat.add_le_add_iff_right] at hb ha
      by_cases hc : c = 92
      · subst hc
        rw [unescape_bs]
        simp only [reSub, exec_unicodesub]
        by_cases h0 : takeHexPre 6 s = []
        · simp only [h0, if_true]
          rw [ih a s hb ha]
        · have hlen : (afterWs (dropHex 6 s)).length ≤ s.length :=
            Nat.le_trans (afterWs_length_le _) (dropHex_length_le 6 s)
          simp only [h0, if_false, List.length_cons]
          rw [if_pos (by omega), take_bs, ih a _ (by omega) (by omega)]
          congr 1
          simp only [hexRepl, List.cons_append, List.drop_succ_cons, List.drop_zero]
          rw [hexNum_pre _ _ (takeHexPre_hex 6 s) (wsPart_head_not_hex _)]
      · simp only [reSub, exec_unicodesub_other c s hc]
        rw [Escape.unescape_plain a c s hc, ih a s hb ha]

/-- **the model's `\hex` rewrite is the specification**, on every text -/
theorem unicodeSub_eq_cssUnescape (s : Text) : unicodeSub Gen.tables s = Escape.cssUnescape s :=
  reSub_unescape s.length (s.length + 1) s (Nat.le_refl _) (Nat.le_succ _)

end CssVerif
