import CssVerif.Model.Respell
import CssVerif.Proofs.Escape
namespace CssVerif.Respell
open CssVerif.Escape

/-- what `unicodesub` leaves of one spelling -/
def mid (c : Nat) : Sp → Text
  | .plain => [c]
  | .upper => [up c]
  | .hex _ d1 d2 _ => [((hexVal d1).getD 0) * 16 + (hexVal d2).getD 0]
  | .lit u => [92, if u then up c else c]

def mids : List (Nat × Sp) → Text
  | [] => []
  | (c, s) :: l => mid c s ++ mids l

theorem up_cases (c : Nat) : (up c = c ∧ ¬ (97 ≤ c ∧ c ≤ 122)) ∨ (97 ≤ c ∧ c ≤ 122 ∧ up c = c - 32) := by
  by_cases h : 97 ≤ c ∧ c ≤ 122
  · right
    have hl : isLetter c = true := by simp [isLetter, h]
    simp [up, hl, h]
  · left
    have hl : isLetter c = false := by
      simp only [isLetter, Bool.and_eq_false_iff, decide_eq_false_iff_not]; omega
    exact ⟨by simp [up, hl], h⟩

theorem nameChar_range (c : Nat) (h : isNameChar c = true) :
    (97 ≤ c ∧ c ≤ 122) ∨ (48 ≤ c ∧ c ≤ 57) ∨ c = 45 ∨ c = 95 := by
  simp only [isNameChar, isLetter, Bool.or_eq_true, Bool.and_eq_true, decide_eq_true_eq, beq_iff_eq] at h
  omega

theorem isWs_false (x : Nat) (h : x ≠ 32 ∧ x ≠ 9 ∧ x ≠ 10 ∧ x ≠ 13 ∧ x ≠ 12) : isWs x = false := by
  simp [isWs, h]

theorem isNameChar_ne (c : Nat) (h : isNameChar c = true) : c ≠ 92 ∧ up c ≠ 92 ∧ isWs c = false ∧ c ≠ 10 := by
  have r := nameChar_range c h
  have u := up_cases c
  refine ⟨by omega, by omega, isWs_false c (by omega), by omega⟩

theorem up_props (c : Nat) (h : isNameChar c = true) : isWs (up c) = false ∧ up c ≠ 10 := by
  have r := nameChar_range c h
  have u := up_cases c
  exact ⟨isWs_false _ (by omega), by omega⟩

/-- a rendered name never starts with white space or a line feed -/
theorem render_head (l : List (Nat × Sp)) (h : ok l = true) :
    startsClean (render l) = true ∧ (render l).head? ≠ some 10 := by
  cases l with
  | nil => simp [render, startsClean]
  | cons p l =>
    obtain ⟨c, s⟩ := p
    simp only [ok, Bool.and_eq_true] at h
    obtain ⟨⟨hc, _⟩, _⟩ := h
    have := isNameChar_ne c hc
    have := up_props c hc
    cases s <;> simp_all [render, write, startsClean, isWs]
    all_goals (try split) <;> simp_all [isWs]

theorem takeHex_zeros (z : Nat) : ∀ (k acc n : Nat) (b : Text), z ≤ k → acc = 0 →
    takeHex k acc n (List.replicate z 48 ++ b) = takeHex (k - z) 0 (n + z) b := by
  induction z with
  | zero => intro k acc n b _ h; simp [h]
  | succ z ih =>
    intro k acc n b hk h
    cases k with
    | zero => omega
    | succ k =>
      subst h
      simp only [List.replicate_succ, List.cons_append, takeHex]
      have : hexVal 48 = some 0 := by decide
      simp only [this]
      rw [ih k _ _ b (by omega) (by simp)]
      congr 1 <;> omega

theorem takeHex_stop (k acc n : Nat) (t : Text) (h : k = 0 ∨ ∀ x ∈ t.head?, hexVal x = none) :
    takeHex k acc n t = (acc, n, t) := by
  cases k with
  | zero => simp [takeHex]
  | succ k =>
    cases t with
    | nil => simp [takeHex]
    | cons x t =>
      rcases h with h | h
      · omega
      · simp [takeHex, h x (by simp)]

theorem ws_nonhex (w : Nat) (hw : isWs w = true) : hexVal w = none := by
  simp only [isWs, Bool.or_eq_true, beq_iff_eq] at hw
  rcases hw with (((h | h) | h) | h) | h <;> subst h <;> decide

theorem startsNonHex_head (t : Text) (h : startsNonHex t = true) : ∀ x ∈ t.head?, hexVal x = none := by
  cases t with
  | nil => simp
  | cons y t =>
    simp only [startsNonHex, Bool.and_eq_true, Option.isNone_iff_eq_none] at h
    simpa using h.2

theorem takeHex_hex (z d1 d2 h1 h2 : Nat) (rest : Text) (hz : z ≤ 4)
    (e1 : hexVal d1 = some h1) (e2 : hexVal d2 = some h2)
    (hstop : z = 4 ∨ ∀ x ∈ rest.head?, hexVal x = none) :
    takeHex 6 0 0 (List.replicate z 48 ++ d1 :: d2 :: rest) = (h1 * 16 + h2, z + 2, rest) := by
  rw [takeHex_zeros z 6 0 0 _ (by omega) rfl]
  obtain ⟨k, hk⟩ : ∃ k, 6 - z = k + 2 := ⟨4 - z, by omega⟩
  rw [hk]
  simp only [takeHex, e1, e2, Nat.zero_mul, Nat.zero_add]
  rw [takeHex_stop]
  rcases hstop with h | h
  · left; omega
  · right; exact h

/-- the text after the optional white space that ends an escape -/
def afterWs : Text → Text
  | 13 :: 10 :: r => r
  | w :: r => if isWs w then r else w :: r
  | [] => []

theorem unescape_hex (fuel : Nat) (s : Text) (v n : Nat) (rest : Text) (h : takeHex 6 0 0 s = (v, n, rest))
    (hn : n ≠ 0) (hv : v ≤ 0x10FFFF) : unescape (fuel + 1) (92 :: s) = v :: unescape fuel (afterWs rest) := by
  simp only [unescape, h, hn, if_false, hv, if_true]
  unfold afterWs
  split <;> simp
  split <;> simp

theorem hex_step (fuel z d1 d2 h1 h2 : Nat) (term : Option Nat) (t : Text) (hz : z ≤ 4)
    (e1 : hexVal d1 = some h1) (e2 : hexVal d2 = some h2) (hv : h1 * 16 + h2 ≤ 0x10FFFF)
    (hn : term = none → (z = 4 ∨ startsNonHex t = true) ∧ startsClean t = true)
    (hs : ∀ w, term = some w → isWs w = true ∧ ¬ (w = 13 ∧ t.head? = some 10)) :
    unescape (fuel + 1) (92 :: List.replicate z 48 ++ [d1, d2] ++ term.toList ++ t) =
      (h1 * 16 + h2) :: unescape fuel t := by
  have e : 92 :: List.replicate z 48 ++ [d1, d2] ++ term.toList ++ t =
      92 :: (List.replicate z 48 ++ d1 :: d2 :: (term.toList ++ t)) := by simp
  rw [e]
  cases term with
  | none =>
    obtain ⟨h1', hc⟩ := hn rfl
    rw [unescape_hex fuel _ _ _ _ (takeHex_hex z d1 d2 h1 h2 _ hz e1 e2
      (h1'.imp id (fun h => by simpa using startsNonHex_head t h))) (by omega) hv]
    simp only [Option.toList_none, List.nil_append]
    cases t with
    | nil => rfl
    | cons x t =>
      simp only [startsClean, Bool.not_eq_true'] at hc
      have hx13 : x ≠ 13 := by intro h; subst h; simp [isWs] at hc
      unfold afterWs
      split
      · rename_i r heq; simp only [List.cons.injEq] at heq; exact absurd heq.1 hx13
      · rename_i w r heq
        simp only [List.cons.injEq] at heq
        obtain ⟨rfl, rfl⟩ := heq
        simp [hc]
      · rename_i heq; simp at heq
  | some w =>
    obtain ⟨hw, h13⟩ := hs w rfl
    rw [unescape_hex fuel _ _ _ _ (takeHex_hex z d1 d2 h1 h2 _ hz e1 e2
      (Or.inr (by simpa using ws_nonhex w hw))) (by omega) hv]
    simp only [Option.toList_some, List.singleton_append]
    unfold afterWs
    split
    · rename_i r heq
      simp only [List.cons.injEq] at heq
      obtain ⟨rfl, hr⟩ := heq
      exfalso; apply h13; refine ⟨rfl, ?_⟩; rw [hr]; rfl
    · rename_i w' r heq
      simp only [List.cons.injEq] at heq
      obtain ⟨rfl, rfl⟩ := heq
      simp [hw]
    · rename_i heq; simp at heq

theorem lit_step (fuel c : Nat) (t : Text) (hh : hexVal c = none) (hc : c ≠ 92) :
    unescape (fuel + 2) (92 :: c :: t) = 92 :: c :: unescape fuel t := by
  have hth : takeHex 6 0 0 (c :: t) = (0, 0, c :: t) := by simp [takeHex, hh]
  have h2 : unescape (fuel + 1 + 1) (92 :: c :: t) = 92 :: unescape (fuel + 1) (c :: t) := by
    simp [unescape, hth]
  rw [h2, unescape_plain fuel c t hc]

theorem okOne_hex_val (c z d1 d2 : Nat) (term : Option Nat) (t : Text) (hc : isNameChar c = true)
    (h : okOne c t (.hex z d1 d2 term) = true) :
    ∃ h1 h2, hexVal d1 = some h1 ∧ hexVal d2 = some h2 ∧ (h1 * 16 + h2 = c ∨ h1 * 16 + h2 = up c) ∧
      h1 * 16 + h2 ≤ 0x10FFFF ∧ h1 * 16 + h2 ≠ 92 := by
  simp only [okOne, Bool.and_eq_true] at h
  obtain ⟨⟨_, hm⟩, _⟩ := h
  have r := nameChar_range c hc
  have u := up_cases c
  cases e1 : hexVal d1 with
  | none => simp [e1] at hm
  | some h1 =>
    cases e2 : hexVal d2 with
    | none => simp [e1, e2] at hm
    | some h2 =>
      simp only [e1, e2, Bool.or_eq_true, beq_iff_eq] at hm
      exact ⟨h1, h2, rfl, rfl, hm, by omega, by omega⟩

/-- reading the escapes of a rendered name leaves, per character: the character, its upper-case form, or a
literal escape of one of them -/
theorem unescape_render : ∀ (l : List (Nat × Sp)) (fuel : Nat), ok l = true → (render l).length < fuel →
    unescape fuel (render l) = mids l := by
  intro l
  induction l with
  | nil => intro fuel _ _; cases fuel <;> simp [render, mids, unescape]
  | cons p l ih =>
    obtain ⟨c, s⟩ := p
    intro fuel h hf
    simp only [ok, Bool.and_eq_true] at h
    obtain ⟨⟨hc, ho⟩, hl⟩ := h
    have nc := isNameChar_ne c hc
    have hd := render_head l hl
    cases s with
    | plain =>
      simp only [render, write, List.length_append, List.length_cons, List.length_nil] at hf ⊢
      obtain ⟨f, rfl⟩ : ∃ f, fuel = f + 1 := ⟨fuel - 1, by omega⟩
      simp only [List.singleton_append]
      rw [unescape_plain f c _ nc.1, ih f hl (by omega)]
      simp [mids, mid]
    | upper =>
      simp only [render, write, List.length_append, List.length_cons, List.length_nil] at hf ⊢
      obtain ⟨f, rfl⟩ : ∃ f, fuel = f + 1 := ⟨fuel - 1, by omega⟩
      simp only [List.singleton_append]
      rw [unescape_plain f _ _ nc.2.1, ih f hl (by omega)]
      simp [mids, mid]
    | hex z d1 d2 term =>
      obtain ⟨h1, h2, e1, e2, _, hv, _⟩ := okOne_hex_val c z d1 d2 term _ hc ho
      simp only [okOne, Bool.and_eq_true] at ho
      obtain ⟨⟨hz, _⟩, ht⟩ := ho
      simp only [render, write] at hf ⊢
      obtain ⟨f, rfl⟩ : ∃ f, fuel = f + 1 := ⟨fuel - 1, by simp at hf; omega⟩
      rw [hex_step f z d1 d2 h1 h2 term (render l) (by simpa using hz) e1 e2 hv]
      · rw [ih f hl (by simp at hf; omega)]
        simp [mids, mid, e1, e2]
      · intro hn
        subst hn
        simp only [Bool.and_eq_true, Bool.or_eq_true, beq_iff_eq] at ht
        exact ht
      · intro w hw
        subst hw
        simp only [Bool.and_eq_true, Bool.not_eq_true', Bool.and_eq_false_iff, beq_eq_false_iff_ne] at ht
        refine ⟨ht.1, ?_⟩
        rintro ⟨rfl, h10⟩
        exact hd.2 h10
    | lit u =>
      simp only [okOne, Option.isNone_iff_eq_none] at ho
      have hne : (if u = true then up c else c) ≠ 92 := by split <;> simp [nc.1, nc.2.1]
      simp only [render, write] at hf ⊢
      obtain ⟨f, rfl⟩ : ∃ f, fuel = f + 2 := ⟨fuel - 2, by simp at hf; omega⟩
      show unescape (f + 2) (92 :: (if u = true then up c else c) :: render l) = _
      rw [lit_step f _ _ ho hne, ih f hl (by simp at hf; omega)]
      simp [mids, mid]

theorem stripLit_ne (c : Nat) (t : Text) (h : c ≠ 92) : stripLit (c :: t) = c :: stripLit t := by
  conv => lhs; unfold stripLit
  split
  · rename_i heq; simp only [List.cons.injEq] at heq; exact absurd heq.1 h
  · rename_i heq; simp only [List.cons.injEq] at heq; obtain ⟨rfl, rfl⟩ := heq; rfl
  · rename_i heq; simp at heq

theorem stripLit_lit (c : Nat) (t : Text) (h : hexVal c = none) : stripLit (92 :: c :: t) = c :: stripLit t := by
  simp [stripLit, h]

theorem lower_name (c : Nat) (h : isNameChar c = true) : lowerC c = c ∧ lowerC (up c) = c := by
  have r := nameChar_range c h
  have u := up_cases c
  simp only [lowerC]
  constructor
  · rw [if_neg]; omega
  · split <;> omega

/-- normalising what the escapes left gives the name -/
theorem normalize_mids : ∀ l : List (Nat × Sp), ok l = true → normalize (mids l) = l.map (·.1) := by
  intro l
  induction l with
  | nil => intro _; simp [mids, normalize, stripLit]
  | cons p l ih =>
    obtain ⟨c, s⟩ := p
    intro h
    simp only [ok, Bool.and_eq_true] at h
    obtain ⟨⟨hc, ho⟩, hl⟩ := h
    have nc := isNameChar_ne c hc
    have lw := lower_name c hc
    have ih' := ih hl
    simp only [normalize] at ih' ⊢
    cases s with
    | plain => simp [mids, mid, stripLit_ne c _ nc.1, lw.1, ih']
    | upper => simp [mids, mid, stripLit_ne _ _ nc.2.1, lw.2, ih']
    | hex z d1 d2 term =>
      obtain ⟨h1, h2, e1, e2, hv, _, h92⟩ := okOne_hex_val c z d1 d2 term _ hc ho
      simp only [mids, mid, e1, e2, Option.getD_some, List.singleton_append]
      rw [stripLit_ne _ _ h92]
      rcases hv with hv | hv <;> simp [hv, lw.1, lw.2, ih']
    | lit u =>
      simp only [okOne, Option.isNone_iff_eq_none] at ho
      simp only [mids, mid, List.cons_append, List.nil_append]
      rw [stripLit_lit _ _ ho]
      cases u <;> simp [lw.1, lw.2, ih']

/-- **C10, names**: every equivalent spelling of a name reads as the name -/
theorem decode_render (l : List (Nat × Sp)) (h : ok l = true) : decode (render l) = l.map (·.1) := by
  simp only [decode, cssUnescape]
  rw [unescape_render l _ h (by omega)]
  exact normalize_mids l h

end CssVerif.Respell
