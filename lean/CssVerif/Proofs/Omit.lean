/-
Lemmas about `Model/Omit.lean`: which rules and items the serialiser writes under the omission preferences.
-/
import CssVerif.Model.Omit
namespace CssVerif.Omit

/-! ### declaration blocks -/

theorem any_mono {α} (f : α → Bool) {l l' : List α} (h : ∀ y, y ∈ l' → y ∈ l) (h' : l'.any f = true) : l.any f = true := by
  rw [List.any_eq_true] at h' ⊢
  obtain ⟨y, hy, hf⟩ := h'
  exact ⟨y, h y hy, hf⟩

theorem any_false_mono {α} (f : α → Bool) {l l' : List α} (h : ∀ y, y ∈ l' → y ∈ l) (h' : l.any f = false) : l'.any f = false := by
  cases h'' : l'.any f with
  | false => rfl
  | true => rw [any_mono f h h''] at h'; exact h'

/-- being effective only gets easier when declarations before or after are taken away -/
theorem effective_mono {pre pre' post post' : List Item} (n : Nat) (i : Bool)
    (h1 : ∀ y, y ∈ pre' → y ∈ pre) (h2 : ∀ y, y ∈ post' → y ∈ post) (h : effective pre post n i = true) :
    effective pre' post' n i = true := by
  unfold effective at h ⊢
  cases i with
  | true =>
    simp only [if_true, Bool.not_eq_true'] at h ⊢
    exact any_false_mono _ h2 h
  | false =>
    simp only [Bool.false_eq_true, if_false, Bool.and_eq_true, Bool.not_eq_true'] at h ⊢
    exact ⟨any_false_mono _ h2 h.1, any_false_mono _ h1 h.2⟩

theorem kept_mono (p : Prefs) {pre pre' post post' : List Item} (x : Item)
    (h1 : ∀ y, y ∈ pre' → y ∈ pre) (h2 : ∀ y, y ∈ post' → y ∈ post) (h : kept p pre post x = true) :
    kept p pre' post' x = true := by
  unfold kept at h ⊢
  rw [Bool.and_eq_true] at h ⊢
  refine ⟨?_, h.2⟩
  cases x with
  | decl n i v =>
    have h' := h.1
    simp only [inSeq, Bool.or_eq_true] at h' ⊢
    rcases h' with h' | h'
    · exact Or.inl h'
    · exact Or.inr (effective_mono n i h1 h2 h')
  | comment => rfl
  | atrule => rfl

theorem wItems_sublist (p : Prefs) : ∀ (b pre : List Item), (wItems p pre b).Sublist b
  | [], _ => by simp [wItems]
  | x :: post, pre => by
    unfold wItems
    split
    · exact (wItems_sublist p post _).cons_cons x
    · exact (wItems_sublist p post _).cons x

theorem wBlock_sublist (p : Prefs) (b : Block) : (wBlock p b).Sublist b := wItems_sublist p b []

theorem wItems_mem (p : Prefs) (b pre : List Item) : ∀ y, y ∈ wItems p pre b → y ∈ b :=
  fun _ hy => (wItems_sublist p b pre).subset hy

/-- what is written is written again, whatever is taken away in front of it -/
theorem wItems_idem (p : Prefs) : ∀ (b pre pre' : List Item), (∀ y, y ∈ pre' → y ∈ pre) →
    wItems p pre' (wItems p pre b) = wItems p pre b
  | [], _, _, _ => by simp [wItems]
  | x :: post, pre, pre', h => by
    have hsub : ∀ y, y ∈ pre' ++ [x] → y ∈ pre ++ [x] := by
      intro y hy
      rw [List.mem_append] at hy ⊢
      exact hy.imp (h y) id
    have hsub' : ∀ y, y ∈ pre' → y ∈ pre ++ [x] := fun y hy => List.mem_append_left _ (h y hy)
    rw [wItems]
    split
    · next hk =>
      rw [wItems, if_pos (kept_mono p x h (wItems_mem p post _) hk), wItems_idem p post _ _ hsub]
    · exact wItems_idem p post _ _ hsub'

theorem wBlock_idem (p : Prefs) (b : Block) : wBlock p (wBlock p b) = wBlock p b :=
  wItems_idem p b [] [] (fun _ h => h)

/-- with keepAllProperties the written items are those that have a text -/
theorem wItems_keepAll (p : Prefs) (h : p.keepAllProperties = true) : ∀ (b pre : List Item),
    wItems p pre b = b.filter (writes p)
  | [], _ => by simp [wItems]
  | x :: post, pre => by
    have hk : kept p pre post x = writes p x := by
      unfold kept
      cases x <;> simp [inSeq, h]
    rw [wItems, hk, List.filter_cons, wItems_keepAll p h post]

theorem wItems_all (p : Prefs) (h1 : p.keepAllProperties = true) (h2 : p.keepComments = true)
    (h3 : p.keepUnknownAtRules = true) (h4 : p.validOnly = false) (b pre : List Item) : wItems p pre b = b := by
  rw [wItems_keepAll p h1, List.filter_eq_self]
  intro x _
  cases x <;> simp [writes, h2, h3, h4]

theorem textOf_any (p : Prefs) (x : Item) : (textOf p x).any id = writes p x := by
  cases x <;> simp [textOf, writes] <;> split <;> simp_all

theorem texts_any (p : Prefs) : ∀ (b pre : List Item), (texts p pre b).any id = !(wItems p pre b).isEmpty
  | [], _ => by simp [texts, wItems]
  | x :: post, pre => by
    rw [texts, wItems, List.any_append, texts_any p post]
    unfold kept
    cases hs : inSeq p pre post x <;> cases hw : writes p x <;> simp [textOf_any, hw]

/-- the nested at-rules of a block -/
def nAt : List Item → Nat
  | [] => 0
  | .atrule :: b => nAt b + 1
  | _ :: b => nAt b

theorem nAt_le_texts (p : Prefs) : ∀ (b pre : List Item), nAt b ≤ (texts p pre b).length
  | [], _ => by simp [nAt]
  | x :: post, pre => by
    have ih := nAt_le_texts p post (pre ++ [x])
    rw [texts, List.length_append]
    cases x with
    | atrule => simp [nAt, inSeq, textOf]; omega
    | comment => simp only [nAt]; omega
    | decl n i v => simp only [nAt]; omega

theorem texts_silent (p : Prefs) : ∀ (b pre : List Item), (texts p pre b).any id = false →
    (texts p pre b).length = nAt b
  | [], _, _ => by simp [texts, nAt]
  | x :: post, pre, h => by
    rw [texts, List.any_append, Bool.or_eq_false_iff] at h
    have ih := texts_silent p post (pre ++ [x]) h.2
    rw [texts, List.length_append, ih]
    have h1 := h.1
    cases x with
    | atrule => simp [nAt, inSeq, textOf]; omega
    | comment =>
      simp only [nAt]
      cases hs : inSeq p pre post .comment <;> simp_all [textOf]
    | decl n i v =>
      simp only [nAt]
      cases hs : inSeq p pre post (.decl n i v) <;> simp_all [textOf]

/-- the code's notion of a block that is not empty: something of it is written, or - a quirk - at least two nested
at-rules stand in it and lineSeparator is not the empty string -/
theorem blockText_iff (p : Prefs) (b : Block) :
    blockText p b = true ↔ wBlock p b ≠ [] ∨ (p.lineSep = true ∧ 2 ≤ nAt b) := by
  unfold blockText wBlock
  simp only [Bool.or_eq_true, Bool.and_eq_true, decide_eq_true_eq]
  constructor
  · rintro (h | ⟨h1, h2⟩)
    · rw [texts_any] at h
      left
      intro h0
      rw [h0] at h
      simp at h
    · cases ha : (texts p [] b).any id with
      | true =>
        rw [texts_any] at ha
        left
        intro h0
        rw [h0] at ha
        simp at ha
      | false => right; rw [texts_silent p b [] ha] at h2; exact ⟨h1, h2⟩
  · rintro (h | ⟨h1, h2⟩)
    · left
      rw [texts_any]
      cases hw : wItems p [] b with
      | nil => exact absurd hw h
      | cons _ _ => rfl
    · right; exact ⟨h1, Nat.le_trans h2 (nAt_le_texts p b [])⟩

theorem texts_all_true (p : Prefs) (h : p.keepUnknownAtRules = true) : ∀ (b pre : List Item) t, t ∈ texts p pre b → t = true
  | [], _, t, ht => by simp [texts] at ht
  | x :: post, pre, t, ht => by
    rw [texts, List.mem_append] at ht
    rcases ht with ht | ht
    · split at ht
      · cases x with
        | atrule => simp_all [textOf]
        | comment => simp only [textOf] at ht; split at ht <;> simp_all
        | decl n i v => simp only [textOf] at ht; split at ht <;> simp_all
      · simp at ht
    · exact texts_all_true p h post _ t ht

/-- without the separator quirk "not empty" is "something of it is written" -/
theorem blockText_plain (p : Prefs) (hA : p.keepUnknownAtRules = true ∨ p.lineSep = false) (b : Block) :
    blockText p b = !(wBlock p b).isEmpty := by
  unfold blockText wBlock
  simp only
  rw [← texts_any]
  rcases hA with h | h
  · cases ha : (texts p [] b).any id with
    | true => simp
    | false =>
      have : texts p [] b = [] := by
        cases ht : texts p [] b with
        | nil => rfl
        | cons t ts =>
          have := texts_all_true p h b [] t (by rw [ht]; simp)
          rw [ht, this] at ha
          simp at ha
      simp [this]
  · simp [h]

theorem blockText_nil (p : Prefs) : blockText p [] = false := by simp [blockText, texts]

theorem blockText_ne_nil (p : Prefs) (b : Block) (h : blockText p b = true) : b ≠ [] := by
  intro h0; rw [h0, blockText_nil] at h; exact Bool.noConfusion h

/-- the hypothesis under which "empty" is "nothing of it is written": nested at-rules are kept, or lineSeparator is
the empty string (as useMinified sets it) -/
def NoSepQuirk (p : Prefs) : Prop := p.keepUnknownAtRules = true ∨ p.lineSep = false

theorem blockText_wBlock (p : Prefs) (hA : NoSepQuirk p) (b : Block) : blockText p (wBlock p b) = blockText p b := by
  rw [blockText_plain p hA, blockText_plain p hA, wBlock_idem]

/-! ### margin boxes -/

theorem wMargins_idem (p : Prefs) (hA : NoSepQuirk p) : ∀ ms, wMargins p (wMargins p ms) = wMargins p ms
  | [] => rfl
  | m :: ms => by
    rw [wMargins]
    split
    · next h => rw [wMargins, blockText_wBlock p hA, if_pos h, wBlock_idem, wMargins_idem p hA ms]
    · exact wMargins_idem p hA ms

/-! ### rules: what is written is written again -/

theorem nsOmitted_mono (p : Prefs) (U U' : List Nat) (top : Bool) (u : Nat) (d : Bool)
    (hU : p.keepUsedNamespaceRulesOnly = false ∨ ∀ v, v ∈ U → v ∈ U')
    (h : nsOmitted p U top u d = false) : nsOmitted p U' top u d = false := by
  unfold nsOmitted at h ⊢
  rcases hU with hk | hU
  · simp [hk]
  · cases top <;> cases hk : p.keepUsedNamespaceRulesOnly <;> simp_all
    intro hu
    have h' := h (fun hin => hu (hU _ hin))
    exact ⟨h'.1, hU _ h'.2⟩

mutual
theorem wRule_stable (p : Prefs) (U U' : List Nat) (hA : NoSepQuirk p)
    (hU : p.keepUsedNamespaceRulesOnly = false ∨ ∀ v, v ∈ U → v ∈ U') :
    ∀ (top : Bool) (r r' : Rule), wRule p U top r = some r' → wRule p U' top r' = some r'
  | top, .comment, r', h => by
    simp only [wRule] at h
    split at h
    · next hk => cases h; simp [wRule, hk]
    · cases h
  | top, .charset, r', h => by simp only [wRule] at h; cases h; simp [wRule]
  | top, .imp, r', h => by simp only [wRule] at h; cases h; simp [wRule]
  | top, .unknown, r', h => by
    simp only [wRule] at h
    split at h
    · next hk => cases h; simp [wRule, hk]
    · cases h
  | top, .ns u d, r', h => by
    simp only [wRule] at h
    split at h
    · cases h
    · next hk =>
      cases h
      simp only [Bool.not_eq_true] at hk
      simp [wRule, nsOmitted_mono p U U' top u d hU hk]
  | top, .style u b, r', h => by
    simp only [wRule] at h
    split at h
    · next hk => cases h; simp only [wRule, blockText_wBlock p hA, hk, if_true, wBlock_idem]
    · cases h
  | top, .media kids, r', h => by
    simp only [wRule] at h
    split at h
    · next hk => cases h; simp only [wRule, wRules_stable p U U' hA hU false kids, hk, if_true]
    · cases h
  | top, .page b ms, r', h => by
    simp only [wRule] at h
    split at h
    · next hk => cases h; simp only [wRule, blockText_wBlock p hA, wMargins_idem p hA, hk, if_true, wBlock_idem]
    · cases h
  | top, .fontface b, r', h => by
    simp only [wRule] at h
    split at h
    · next hk => cases h; simp only [wRule, blockText_wBlock p hA, hk, if_true, wBlock_idem]
    · cases h
theorem wRules_stable (p : Prefs) (U U' : List Nat) (hA : NoSepQuirk p)
    (hU : p.keepUsedNamespaceRulesOnly = false ∨ ∀ v, v ∈ U → v ∈ U') :
    ∀ (top : Bool) (rs : List Rule), wRules p U' top (wRules p U top rs) = wRules p U top rs
  | _, [] => by simp [wRules]
  | top, r :: rs => by
    rw [wRules]
    cases h : wRule p U top r with
    | none => exact wRules_stable p U U' hA hU top rs
    | some r' =>
      simp only
      rw [wRules, wRule_stable p U U' hA hU top r r' h]
      simp only
      rw [wRules_stable p U U' hA hU top rs]
end

/-! ### the used uris of what is written -/

mutual
theorem used_wRule (p : Prefs) (U : List Nat) :
    ∀ (top : Bool) (r r' : Rule), wRule p U top r = some r' → ∀ u, u ∈ usedRule r' → u ∈ usedRule r
  | top, .comment, r', h, u, hu => by
    simp only [wRule] at h; split at h <;> cases h; exact hu
  | top, .charset, r', h, u, hu => by simp only [wRule] at h; cases h; exact hu
  | top, .imp, r', h, u, hu => by simp only [wRule] at h; cases h; exact hu
  | top, .unknown, r', h, u, hu => by
    simp only [wRule] at h; split at h <;> cases h; exact hu
  | top, .ns _ _, r', h, u, hu => by
    simp only [wRule] at h; split at h <;> cases h; exact hu
  | top, .style _ _, r', h, u, hu => by
    simp only [wRule] at h; split at h <;> cases h; simpa [usedRule] using hu
  | top, .media kids, r', h, u, hu => by
    simp only [wRule] at h
    split at h <;> cases h
    simp only [usedRule] at hu ⊢
    exact used_wRules p U false kids u hu
  | top, .page _ _, r', h, u, hu => by
    simp only [wRule] at h; split at h <;> cases h; simp [usedRule] at hu
  | top, .fontface _, r', h, u, hu => by
    simp only [wRule] at h; split at h <;> cases h; simp [usedRule] at hu
theorem used_wRules (p : Prefs) (U : List Nat) :
    ∀ (top : Bool) (rs : List Rule) u, u ∈ usedRules (wRules p U top rs) → u ∈ usedRules rs
  | _, [], u, hu => by simp [wRules, usedRules] at hu
  | top, r :: rs, u, hu => by
    rw [wRules] at hu
    simp only [usedRules, List.mem_append]
    cases h : wRule p U top r with
    | none => rw [h] at hu; exact Or.inr (used_wRules p U top rs u hu)
    | some r' =>
      rw [h] at hu
      simp only [usedRules, List.mem_append] at hu
      exact hu.imp (used_wRule p U top r r' h u) (used_wRules p U top rs u)
end

theorem mem_wRules (p : Prefs) (U : List Nat) (top : Bool) (r r' : Rule) (h : wRule p U top r = some r') :
    ∀ rs : List Rule, r ∈ rs → r' ∈ wRules p U top rs
  | [], hm => by simp at hm
  | x :: rs, hm => by
    rw [wRules]
    rcases List.mem_cons.mp hm with rfl | hm
    · rw [h]; simp
    · cases hx : wRule p U top x with
      | none => exact mem_wRules p U top r r' h rs hm
      | some x' => exact List.mem_cons_of_mem _ (mem_wRules p U top r r' h rs hm)

/-! ### "obtained by deleting only": a sublist at every level of the tree -/

inductive BlocksSub : List Block → List Block → Prop
  | nil : BlocksSub [] []
  | drop {ms' ms : List Block} (m : Block) : BlocksSub ms' ms → BlocksSub ms' (m :: ms)
  | keep {ms' ms : List Block} {m' m : Block} : m'.Sublist m → BlocksSub ms' ms → BlocksSub (m' :: ms') (m :: ms)

mutual
/-- `RuleSub r' r`: the rule `r'` is `r` with items of its blocks, margin boxes or child rules deleted -/
inductive RuleSub : Rule → Rule → Prop
  | same (r : Rule) : RuleSub r r
  | style {u : List Nat} {b' b : Block} : b'.Sublist b → RuleSub (.style u b') (.style u b)
  | media {ks' ks : List Rule} : RulesSub ks' ks → RuleSub (.media ks') (.media ks)
  | page {b' b : Block} {ms' ms : List Block} : b'.Sublist b → BlocksSub ms' ms → RuleSub (.page b' ms') (.page b ms)
  | fontface {b' b : Block} : b'.Sublist b → RuleSub (.fontface b') (.fontface b)
/-- `RulesSub rs' rs`: rules deleted, the others in their order and each a `RuleSub` -/
inductive RulesSub : List Rule → List Rule → Prop
  | nil : RulesSub [] []
  | drop {rs' rs : List Rule} (r : Rule) : RulesSub rs' rs → RulesSub rs' (r :: rs)
  | keep {rs' rs : List Rule} {r' r : Rule} : RuleSub r' r → RulesSub rs' rs → RulesSub (r' :: rs') (r :: rs)
end

theorem BlocksSub.ne_nil {ms' ms : List Block} (h : BlocksSub ms' ms) (h' : ms' ≠ []) : ms ≠ [] := by
  cases h <;> simp_all

theorem RulesSub.ne_nil {rs' rs : List Rule} (h : RulesSub rs' rs) (h' : rs' ≠ []) : rs ≠ [] := by
  cases h <;> simp_all

theorem wMargins_sub (p : Prefs) : ∀ ms, BlocksSub (wMargins p ms) ms
  | [] => .nil
  | m :: ms => by
    rw [wMargins]
    split
    · exact .keep (wBlock_sublist p m) (wMargins_sub p ms)
    · exact .drop m (wMargins_sub p ms)

mutual
theorem wRule_sub (p : Prefs) (U : List Nat) : ∀ (top : Bool) (r r' : Rule), wRule p U top r = some r' → RuleSub r' r
  | top, .comment, r', h => by simp only [wRule] at h; split at h <;> cases h; exact .same _
  | top, .charset, r', h => by simp only [wRule] at h; cases h; exact .same _
  | top, .imp, r', h => by simp only [wRule] at h; cases h; exact .same _
  | top, .unknown, r', h => by simp only [wRule] at h; split at h <;> cases h; exact .same _
  | top, .ns _ _, r', h => by simp only [wRule] at h; split at h <;> cases h; exact .same _
  | top, .style _ b, r', h => by simp only [wRule] at h; split at h <;> cases h; exact .style (wBlock_sublist p b)
  | top, .media kids, r', h => by
    simp only [wRule] at h; split at h <;> cases h; exact .media (wRules_sub p U false kids)
  | top, .page b ms, r', h => by
    simp only [wRule] at h; split at h <;> cases h; exact .page (wBlock_sublist p b) (wMargins_sub p ms)
  | top, .fontface b, r', h => by simp only [wRule] at h; split at h <;> cases h; exact .fontface (wBlock_sublist p b)
theorem wRules_sub (p : Prefs) (U : List Nat) : ∀ (top : Bool) (rs : List Rule), RulesSub (wRules p U top rs) rs
  | _, [] => by simp only [wRules]; exact .nil
  | top, r :: rs => by
    rw [wRules]
    cases h : wRule p U top r with
    | none => exact .drop r (wRules_sub p U top rs)
    | some r' => exact .keep (wRule_sub p U top r r' h) (wRules_sub p U top rs)
end

/-! ### against the default serialisation -/

theorem wBlock_default (b : Block) : wBlock {} b = b := wItems_all {} rfl rfl rfl rfl b []

theorem blockText_default (b : Block) : blockText {} b = !b.isEmpty := by
  rw [blockText_plain {} (Or.inl rfl), wBlock_default]

theorem wMargins_default_sub (p : Prefs) : ∀ ms, BlocksSub (wMargins p ms) (wMargins {} ms)
  | [] => .nil
  | m :: ms => by
    rw [wMargins, wMargins, blockText_default, wBlock_default]
    split
    · next h =>
      have : m ≠ [] := blockText_ne_nil p m h
      cases m with
      | nil => exact absurd rfl this
      | cons x m => exact .keep (wBlock_sublist p _) (wMargins_default_sub p ms)
    · split
      · exact .drop m (wMargins_default_sub p ms)
      · exact wMargins_default_sub p ms

theorem isEmpty_false_of_ne_nil {α} {l : List α} (h : l ≠ []) : l.isEmpty = false := by
  cases l <;> simp_all

mutual
theorem wRule_default_sub (p : Prefs) (hE : p.keepEmptyRules = false) (U U0 : List Nat) :
    ∀ (top : Bool) (r r' : Rule), wRule p U top r = some r' → ∃ r0, wRule {} U0 top r = some r0 ∧ RuleSub r' r0
  | top, .comment, r', h => by
    simp only [wRule] at h; split at h <;> cases h; exact ⟨.comment, by simp [wRule], .same _⟩
  | top, .charset, r', h => by simp only [wRule] at h; cases h; exact ⟨.charset, by simp [wRule], .same _⟩
  | top, .imp, r', h => by simp only [wRule] at h; cases h; exact ⟨.imp, by simp [wRule], .same _⟩
  | top, .unknown, r', h => by
    simp only [wRule] at h; split at h <;> cases h; exact ⟨.unknown, by simp [wRule], .same _⟩
  | top, .ns u d, r', h => by
    simp only [wRule] at h; split at h <;> cases h; exact ⟨.ns u d, by simp [wRule, nsOmitted], .same _⟩
  | top, .style u b, r', h => by
    simp only [wRule, hE, Bool.or_false] at h
    split at h <;> cases h
    next hk =>
    refine ⟨.style u b, ?_, .style (wBlock_sublist p b)⟩
    simp [wRule, blockText_default, wBlock_default, blockText_ne_nil p b hk]
  | top, .media kids, r', h => by
    simp only [wRule, hE, Bool.or_false] at h
    split at h <;> cases h
    next hk =>
    have hs := wRules_default_sub p hE U U0 false kids
    have hne : wRules {} U0 false kids ≠ [] := hs.ne_nil (by intro h0; rw [h0] at hk; simp at hk)
    refine ⟨.media (wRules {} U0 false kids), ?_, .media hs⟩
    simp [wRule, isEmpty_false_of_ne_nil hne]
  | top, .page b ms, r', h => by
    simp only [wRule] at h
    split at h <;> cases h
    next hk =>
    have hs := wMargins_default_sub p ms
    refine ⟨.page b (wMargins {} ms), ?_, .page (wBlock_sublist p b) hs⟩
    simp only [wRule, blockText_default, wBlock_default]
    rw [if_pos]
    rw [Bool.or_eq_true] at hk ⊢
    rcases hk with hk | hk
    · left; simp [blockText_ne_nil p b hk]
    · right
      have hne : wMargins {} ms ≠ [] := hs.ne_nil (by intro h0; rw [h0] at hk; simp at hk)
      simp [isEmpty_false_of_ne_nil hne]
  | top, .fontface b, r', h => by
    simp only [wRule] at h
    split at h <;> cases h
    next hk =>
    refine ⟨.fontface b, ?_, .fontface (wBlock_sublist p b)⟩
    simp [wRule, blockText_default, wBlock_default, blockText_ne_nil p b hk]
theorem wRules_default_sub (p : Prefs) (hE : p.keepEmptyRules = false) (U U0 : List Nat) :
    ∀ (top : Bool) (rs : List Rule), RulesSub (wRules p U top rs) (wRules {} U0 top rs)
  | _, [] => by simp only [wRules]; exact .nil
  | top, r :: rs => by
    rw [wRules, wRules]
    cases h : wRule p U top r with
    | none =>
      cases h0 : wRule {} U0 top r with
      | none => exact wRules_default_sub p hE U U0 top rs
      | some r0 => exact .drop r0 (wRules_default_sub p hE U U0 top rs)
    | some r' =>
      obtain ⟨r0, h0, hs⟩ := wRule_default_sub p hE U U0 top r r' h
      rw [h0]
      exact .keep hs (wRules_default_sub p hE U U0 top rs)
end

/-! ### every deletion has a reason that a preference names -/

/-- a reason for leaving out the item that stands between `pre` and `post` -/
inductive ItemReason (p : Prefs) (pre post : List Item) : Item → Prop
  | comment : p.keepComments = false → ItemReason p pre post .comment
  | atrule : p.keepUnknownAtRules = false → ItemReason p pre post .atrule
  | shadowed {n : Nat} {i v : Bool} : p.keepAllProperties = false → effective pre post n i = false →
      ItemReason p pre post (.decl n i v)
  | invalid {n : Nat} {i : Bool} : p.validOnly = true → ItemReason p pre post (.decl n i false)

/-- an item is left out exactly when a switched-off preference names it -/
theorem kept_false_iff (p : Prefs) (pre post : List Item) (x : Item) :
    kept p pre post x = false ↔ ItemReason p pre post x := by
  constructor
  · intro h
    unfold kept at h
    cases x with
    | comment => simp [inSeq, writes] at h; exact .comment h
    | atrule => simp [inSeq, writes] at h; exact .atrule h
    | decl n i v =>
      simp only [inSeq, writes, Bool.and_eq_false_iff, Bool.or_eq_false_iff, Bool.not_eq_false'] at h
      rcases h with ⟨h1, h2⟩ | ⟨h1, h2⟩
      · exact .shadowed h1 h2
      · subst h2; exact .invalid h1
  · intro h
    cases h with
    | comment h => simp [kept, writes, h]
    | atrule h => simp [kept, writes, h]
    | shadowed h1 h2 => simp [kept, inSeq, h1, h2]
    | invalid h => simp [kept, writes, h]

/-- `BlockDoc p pre b b'`: `b'` is `b` (standing after `pre`) less items that each have a reason -/
inductive BlockDoc (p : Prefs) : List Item → List Item → List Item → Prop
  | nil (pre : List Item) : BlockDoc p pre [] []
  | keep {pre post post' : List Item} (x : Item) : BlockDoc p (pre ++ [x]) post post' → BlockDoc p pre (x :: post) (x :: post')
  | drop {pre post post' : List Item} {x : Item} : ItemReason p pre post x → BlockDoc p (pre ++ [x]) post post' →
      BlockDoc p pre (x :: post) post'

theorem wItems_doc (p : Prefs) : ∀ (b pre : List Item), BlockDoc p pre b (wItems p pre b)
  | [], pre => by simp only [wItems]; exact .nil pre
  | x :: post, pre => by
    rw [wItems]
    split
    · exact .keep x (wItems_doc p post _)
    · next h => exact .drop ((kept_false_iff p pre post x).mp (by simpa using h)) (wItems_doc p post _)

theorem wBlock_nil_of_silent (p : Prefs) (b : Block) (h : blockText p b = false) : wBlock p b = [] := by
  cases hw : wBlock p b with
  | nil => rfl
  | cons x l =>
    have := (blockText_iff p b).mpr (Or.inl (by rw [hw]; simp))
    rw [h] at this
    exact Bool.noConfusion this

/-- margin boxes: one is left out when nothing of it is written (no preference is asked) -/
inductive MarginsDoc (p : Prefs) : List Block → List Block → Prop
  | nil : MarginsDoc p [] []
  | keep {m m' : Block} {ms ms' : List Block} : BlockDoc p [] m m' → MarginsDoc p ms ms' → MarginsDoc p (m :: ms) (m' :: ms')
  | hollow {m : Block} {ms ms' : List Block} : BlockDoc p [] m [] → MarginsDoc p ms ms' → MarginsDoc p (m :: ms) ms'

theorem wMargins_doc (p : Prefs) : ∀ ms, MarginsDoc p ms (wMargins p ms)
  | [] => .nil
  | m :: ms => by
    rw [wMargins]
    split
    · exact .keep (wItems_doc p m []) (wMargins_doc p ms)
    · next h =>
      have h0 := wBlock_nil_of_silent p m (by simpa using h)
      have hd := wItems_doc p m []
      unfold wBlock at h0
      rw [h0] at hd
      exact .hollow hd (wMargins_doc p ms)

mutual
/-- `RuleDoc p U r r'`: the rule `r` is written as `r'` -/
inductive RuleDoc (p : Prefs) (U : List Nat) : Rule → Rule → Prop
  | same (r : Rule) : RuleDoc p U r r
  | style {u : List Nat} {b b' : Block} : BlockDoc p [] b b' → RuleDoc p U (.style u b) (.style u b')
  | media {ks ks' : List Rule} : RulesDoc p U false ks ks' → RuleDoc p U (.media ks) (.media ks')
  | page {b b' : Block} {ms ms' : List Block} : BlockDoc p [] b b' → MarginsDoc p ms ms' →
      RuleDoc p U (.page b ms) (.page b' ms')
  | fontface {b b' : Block} : BlockDoc p [] b b' → RuleDoc p U (.fontface b) (.fontface b')
/-- `RulesDoc p U top rs rs'`: `rs'` is `rs` less rules that each have a reason, the others written as `RuleDoc` says -/
inductive RulesDoc (p : Prefs) (U : List Nat) : Bool → List Rule → List Rule → Prop
  | nil (top : Bool) : RulesDoc p U top [] []
  | keep {top : Bool} {r r' : Rule} {rs rs' : List Rule} : RuleDoc p U r r' → RulesDoc p U top rs rs' →
      RulesDoc p U top (r :: rs) (r' :: rs')
  | drop {top : Bool} {r : Rule} {rs rs' : List Rule} : RuleReason p U top r → RulesDoc p U top rs rs' →
      RulesDoc p U top (r :: rs) rs'
/-- the reasons for leaving out a rule; `U`: the uris used by the style rules of the sheet.  The last two name no
preference: an @page / @font-face of which nothing is written is left out whatever keepEmptyRules says. -/
inductive RuleReason (p : Prefs) (U : List Nat) : Bool → Rule → Prop
  | comment {top : Bool} : p.keepComments = false → RuleReason p U top .comment
  | unknown {top : Bool} : p.keepUnknownAtRules = false → RuleReason p U top .unknown
  | unusedNs {u : Nat} {d : Bool} : p.keepUsedNamespaceRulesOnly = true → u ∉ U → (d = false ∨ 0 ∉ U) →
      RuleReason p U true (.ns u d)
  | emptyStyle {top : Bool} {u : List Nat} {b : Block} : p.keepEmptyRules = false → BlockDoc p [] b [] →
      RuleReason p U top (.style u b)
  | emptyMedia {top : Bool} {ks : List Rule} : p.keepEmptyRules = false → RulesDoc p U false ks [] →
      RuleReason p U top (.media ks)
  | hollowPage {top : Bool} {b : Block} {ms : List Block} : BlockDoc p [] b [] → MarginsDoc p ms [] →
      RuleReason p U top (.page b ms)
  | hollowFontface {top : Bool} {b : Block} : BlockDoc p [] b [] → RuleReason p U top (.fontface b)
end

theorem blockDoc_nil_of_silent (p : Prefs) (b : Block) (h : blockText p b = false) : BlockDoc p [] b [] := by
  have h0 := wBlock_nil_of_silent p b h
  have hd := wItems_doc p b []
  unfold wBlock at h0
  rw [h0] at hd
  exact hd

mutual
theorem wRule_doc (p : Prefs) (U : List Nat) : ∀ (top : Bool) (r : Rule),
    (∀ r', wRule p U top r = some r' → RuleDoc p U r r') ∧ (wRule p U top r = none → RuleReason p U top r)
  | top, .comment => by
    simp only [wRule]
    refine ⟨fun r' h => ?_, fun h => ?_⟩
    · split at h <;> cases h; exact .same _
    · split at h
      · cases h
      · next hk => exact .comment (by simpa using hk)
  | top, .charset => by simp only [wRule]; exact ⟨fun r' h => by cases h; exact .same _, fun h => by cases h⟩
  | top, .imp => by simp only [wRule]; exact ⟨fun r' h => by cases h; exact .same _, fun h => by cases h⟩
  | top, .unknown => by
    simp only [wRule]
    refine ⟨fun r' h => ?_, fun h => ?_⟩
    · split at h <;> cases h; exact .same _
    · split at h
      · cases h
      · next hk => exact .unknown (by simpa using hk)
  | top, .ns u d => by
    simp only [wRule]
    refine ⟨fun r' h => ?_, fun h => ?_⟩
    · split at h <;> cases h; exact .same _
    · split at h
      · next hk =>
        unfold nsOmitted at hk
        simp only [Bool.and_eq_true, Bool.not_eq_true', Bool.or_eq_true] at hk
        obtain ⟨⟨⟨ht, hn⟩, hu⟩, hd⟩ := hk
        subst ht
        refine .unusedNs hn ?_ ?_
        · intro hin; rw [List.contains_iff_mem.mpr hin] at hu; exact Bool.noConfusion hu
        · rcases hd with hd | hd
          · exact Or.inl hd
          · right; intro hin; rw [List.contains_iff_mem.mpr hin] at hd; exact Bool.noConfusion hd
      · cases h
  | top, .style u b => by
    simp only [wRule]
    refine ⟨fun r' h => ?_, fun h => ?_⟩
    · split at h <;> cases h; exact .style (wItems_doc p b [])
    · split at h
      · cases h
      · next hk =>
        simp only [Bool.or_eq_true, not_or, Bool.not_eq_true] at hk
        exact .emptyStyle hk.2 (blockDoc_nil_of_silent p b hk.1)
  | top, .media kids => by
    simp only [wRule]
    have hd := wRules_doc p U false kids
    refine ⟨fun r' h => ?_, fun h => ?_⟩
    · split at h <;> cases h; exact .media hd
    · split at h
      · cases h
      · next hk =>
        simp only [Bool.or_eq_true, not_or, Bool.not_eq_true, Bool.not_eq_false'] at hk
        have h0 : wRules p U false kids = [] := by
          cases hw : wRules p U false kids with
          | nil => rfl
          | cons _ _ => rw [hw] at hk; simp at hk
        rw [h0] at hd
        exact .emptyMedia hk.2 hd
  | top, .page b ms => by
    simp only [wRule]
    have hm := wMargins_doc p ms
    refine ⟨fun r' h => ?_, fun h => ?_⟩
    · split at h <;> cases h; exact .page (wItems_doc p b []) hm
    · split at h
      · cases h
      · next hk =>
        simp only [Bool.or_eq_true, not_or, Bool.not_eq_true, Bool.not_eq_false'] at hk
        have h0 : wMargins p ms = [] := by
          cases hw : wMargins p ms with
          | nil => rfl
          | cons _ _ => rw [hw] at hk; simp at hk
        rw [h0] at hm
        exact .hollowPage (blockDoc_nil_of_silent p b hk.1) hm
  | top, .fontface b => by
    simp only [wRule]
    refine ⟨fun r' h => ?_, fun h => ?_⟩
    · split at h <;> cases h; exact .fontface (wItems_doc p b [])
    · split at h
      · cases h
      · next hk => exact .hollowFontface (blockDoc_nil_of_silent p b (by simpa using hk))
theorem wRules_doc (p : Prefs) (U : List Nat) : ∀ (top : Bool) (rs : List Rule), RulesDoc p U top rs (wRules p U top rs)
  | top, [] => by simp only [wRules]; exact .nil top
  | top, r :: rs => by
    rw [wRules]
    cases h : wRule p U top r with
    | none => exact .drop ((wRule_doc p U top r).2 h) (wRules_doc p U top rs)
    | some r' => exact .keep ((wRule_doc p U top r).1 r' h) (wRules_doc p U top rs)
end

/-! ### `written` in two steps: delete what a preference names, then delete what is left without content -/

mutual
/-- step 1: comments, unknown at-rules, unused @namespace rules; in every block the items `wBlock` leaves out -/
def stripRule (p : Prefs) (U : List Nat) (top : Bool) : Rule → Option Rule
  | .comment => if p.keepComments then some .comment else none
  | .charset => some .charset
  | .imp => some .imp
  | .unknown => if p.keepUnknownAtRules then some .unknown else none
  | .ns u d => if nsOmitted p U top u d then none else some (.ns u d)
  | .style u b => some (.style u (wBlock p b))
  | .media ks => some (.media (stripRules p U false ks))
  | .page b ms => some (.page (wBlock p b) (ms.map (wBlock p)))
  | .fontface b => some (.fontface (wBlock p b))
def stripRules (p : Prefs) (U : List Nat) (top : Bool) : List Rule → List Rule
  | [] => []
  | r :: rs =>
    match stripRule p U top r with
    | some r' => r' :: stripRules p U top rs
    | none => stripRules p U top rs
end

mutual
/-- step 2: a style or @media rule without content goes unless keepEmptyRules; an @page, a margin box, an @font-face
without content goes always -/
def pruneRule (keepEmpty : Bool) : Rule → Option Rule
  | .comment => some .comment
  | .charset => some .charset
  | .imp => some .imp
  | .unknown => some .unknown
  | .ns u d => some (.ns u d)
  | .style u b => if !b.isEmpty || keepEmpty then some (.style u b) else none
  | .media ks =>
    let ks' := pruneRules keepEmpty ks
    if !ks'.isEmpty || keepEmpty then some (.media ks') else none
  | .page b ms =>
    let ms' := ms.filter (fun m => !m.isEmpty)
    if !b.isEmpty || !ms'.isEmpty then some (.page b ms') else none
  | .fontface b => if !b.isEmpty then some (.fontface b) else none
def pruneRules (keepEmpty : Bool) : List Rule → List Rule
  | [] => []
  | r :: rs =>
    match pruneRule keepEmpty r with
    | some r' => r' :: pruneRules keepEmpty rs
    | none => pruneRules keepEmpty rs
end

theorem wMargins_eq (p : Prefs) (hA : NoSepQuirk p) : ∀ ms,
    wMargins p ms = (ms.map (wBlock p)).filter (fun m => !m.isEmpty)
  | [] => rfl
  | m :: ms => by
    rw [wMargins, List.map_cons, List.filter_cons, blockText_plain p hA, wMargins_eq p hA ms]

mutual
theorem wRule_eq (p : Prefs) (U : List Nat) (hA : NoSepQuirk p) : ∀ (top : Bool) (r : Rule),
    wRule p U top r = (stripRule p U top r).bind (pruneRule p.keepEmptyRules)
  | top, .comment => by simp only [wRule, stripRule]; split <;> simp [pruneRule]
  | top, .charset => by simp [wRule, stripRule, pruneRule]
  | top, .imp => by simp [wRule, stripRule, pruneRule]
  | top, .unknown => by simp only [wRule, stripRule]; split <;> simp [pruneRule]
  | top, .ns u d => by simp only [wRule, stripRule]; split <;> simp [pruneRule]
  | top, .style u b => by simp [wRule, stripRule, pruneRule, blockText_plain p hA]
  | top, .media ks => by simp [wRule, stripRule, pruneRule, wRules_eq p U hA false ks]
  | top, .page b ms => by simp [wRule, stripRule, pruneRule, blockText_plain p hA, wMargins_eq p hA]
  | top, .fontface b => by simp [wRule, stripRule, pruneRule, blockText_plain p hA]
theorem wRules_eq (p : Prefs) (U : List Nat) (hA : NoSepQuirk p) : ∀ (top : Bool) (rs : List Rule),
    wRules p U top rs = pruneRules p.keepEmptyRules (stripRules p U top rs)
  | _, [] => by simp [wRules, stripRules, pruneRules]
  | top, r :: rs => by
    rw [wRules, stripRules, wRule_eq p U hA top r, wRules_eq p U hA top rs]
    cases hs : stripRule p U top r with
    | none => simp
    | some r1 =>
      simp only [Option.bind_some]
      rw [pruneRules]
      cases pruneRule p.keepEmptyRules r1 <;> rfl
end

/-- with every keep-preference at "keep" step 1 deletes nothing -/
theorem wBlock_keep (p : Prefs) (h1 : p.keepAllProperties = true) (h2 : p.keepComments = true)
    (h3 : p.keepUnknownAtRules = true) (h4 : p.validOnly = false) (b : Block) : wBlock p b = b :=
  wItems_all p h1 h2 h3 h4 b []

mutual
theorem stripRule_keep (p : Prefs) (U : List Nat) (h1 : p.keepAllProperties = true) (h2 : p.keepComments = true)
    (h3 : p.keepUnknownAtRules = true) (h4 : p.validOnly = false) (h5 : p.keepUsedNamespaceRulesOnly = false) :
    ∀ (top : Bool) (r : Rule), stripRule p U top r = some r
  | top, .comment => by simp [stripRule, h2]
  | top, .charset => by simp [stripRule]
  | top, .imp => by simp [stripRule]
  | top, .unknown => by simp [stripRule, h3]
  | top, .ns u d => by simp [stripRule, nsOmitted, h5]
  | top, .style u b => by simp [stripRule, wBlock_keep p h1 h2 h3 h4]
  | top, .media ks => by simp [stripRule, stripRules_keep p U h1 h2 h3 h4 h5 false ks]
  | top, .page b ms => by
    simp only [stripRule, wBlock_keep p h1 h2 h3 h4]
    have : ms.map (wBlock p) = ms := by
      rw [List.map_congr_left (g := id) (fun m _ => wBlock_keep p h1 h2 h3 h4 m)]; simp
    rw [this]
  | top, .fontface b => by simp [stripRule, wBlock_keep p h1 h2 h3 h4]
theorem stripRules_keep (p : Prefs) (U : List Nat) (h1 : p.keepAllProperties = true) (h2 : p.keepComments = true)
    (h3 : p.keepUnknownAtRules = true) (h4 : p.validOnly = false) (h5 : p.keepUsedNamespaceRulesOnly = false) :
    ∀ (top : Bool) (rs : List Rule), stripRules p U top rs = rs
  | _, [] => by simp [stripRules]
  | top, r :: rs => by
    rw [stripRules, stripRule_keep p U h1 h2 h3 h4 h5 top r]
    simp only
    rw [stripRules_keep p U h1 h2 h3 h4 h5 top rs]
end

mutual
/-- no @page, margin box or @font-face without any item -/
def hollowFreeRule : Rule → Bool
  | .media ks => hollowFreeRules ks
  | .page b ms => (!b.isEmpty || !ms.isEmpty) && ms.all (fun m => !m.isEmpty)
  | .fontface b => !b.isEmpty
  | _ => true
def hollowFreeRules : List Rule → Bool
  | [] => true
  | r :: rs => hollowFreeRule r && hollowFreeRules rs
end

mutual
theorem pruneRule_keep : ∀ (r : Rule), hollowFreeRule r = true → pruneRule true r = some r
  | .comment, _ => by simp [pruneRule]
  | .charset, _ => by simp [pruneRule]
  | .imp, _ => by simp [pruneRule]
  | .unknown, _ => by simp [pruneRule]
  | .ns _ _, _ => by simp [pruneRule]
  | .style _ _, _ => by simp [pruneRule]
  | .media ks, h => by
    simp only [hollowFreeRule] at h
    simp [pruneRule, pruneRules_keep ks h]
  | .page b ms, h => by
    simp only [hollowFreeRule, Bool.and_eq_true] at h
    have hf : ms.filter (fun m => !m.isEmpty) = ms := List.filter_eq_self.mpr (fun m hm => List.all_eq_true.mp h.2 m hm)
    simp only [pruneRule, hf]
    rw [if_pos h.1]
  | .fontface b, h => by
    simp only [hollowFreeRule] at h
    simp [pruneRule, h]
theorem pruneRules_keep : ∀ (rs : List Rule), hollowFreeRules rs = true → pruneRules true rs = rs
  | [], _ => by simp [pruneRules]
  | r :: rs, h => by
    simp only [hollowFreeRules, Bool.and_eq_true] at h
    rw [pruneRules, pruneRule_keep r h.1]
    simp only
    rw [pruneRules_keep rs h.2]
end

/-! ### keepAllProperties off: one declaration per name, the effective one -/

theorem isImpNamed_isNamed (n : Nat) (x : Item) (h : isImpNamed n x = true) : isNamed n x = true := by
  cases x <;> simp_all [isImpNamed, isNamed]

theorem wItems_none_named (p : Prefs) (n : Nat) (post pre : List Item) (h : post.any (isNamed n) = false) :
    (wItems p pre post).any (isNamed n) = false :=
  any_false_mono _ (wItems_mem p post pre) h

theorem wItems_none_after_imp (p : Prefs) (hk : p.keepAllProperties = false) (n : Nat) : ∀ (post pre : List Item),
    pre.any (isImpNamed n) = true → post.any (isImpNamed n) = false → (wItems p pre post).any (isNamed n) = false
  | [], _, _, _ => by simp [wItems]
  | x :: post, pre, h1, h2 => by
    rw [List.any_cons, Bool.or_eq_false_iff] at h2
    have ih := wItems_none_after_imp p hk n post (pre ++ [x]) (by rw [List.any_append, h1]; rfl) h2.2
    rw [wItems]
    split
    · next hkept =>
      rw [List.any_cons, ih, Bool.or_false]
      cases x with
      | comment => rfl
      | atrule => rfl
      | decl m i v =>
        cases hm : isNamed n (.decl m i v) with
        | false => rfl
        | true =>
          exfalso
          simp only [isNamed, beq_iff_eq] at hm
          subst hm
          have hi : i = false := by
            cases i with
            | false => rfl
            | true => simp [isImpNamed] at h2
          subst hi
          simp [kept, inSeq, hk, effective, h1] at hkept
    · exact ih

/-- at most one declaration of a name is written -/
theorem at_most_one_per_name (p : Prefs) (hk : p.keepAllProperties = false) (n : Nat) : ∀ (b pre : List Item),
    ((wItems p pre b).filter (isNamed n)).length ≤ 1
  | [], _ => by simp [wItems]
  | x :: post, pre => by
    have ih := at_most_one_per_name p hk n post (pre ++ [x])
    rw [wItems]
    split
    · next hkept =>
      rw [List.filter_cons]
      split
      · next hn =>
        have hrest : (wItems p (pre ++ [x]) post).any (isNamed n) = false := by
          cases x with
          | comment => simp [isNamed] at hn
          | atrule => simp [isNamed] at hn
          | decl m i v =>
            have hm : m = n := by simpa [isNamed] using hn
            subst hm
            have he : effective pre post m i = true := by
              have := hkept
              simp only [kept, inSeq, hk, Bool.false_or, Bool.and_eq_true] at this
              exact this.1
            cases i with
            | true =>
              refine wItems_none_after_imp p hk m post _ ?_ ?_
              · simp [isImpNamed]
              · simpa [effective] using he
            | false =>
              refine wItems_none_named p m post _ ?_
              have := he
              simp only [effective, Bool.false_eq_true, if_false, Bool.and_eq_true, Bool.not_eq_true'] at this
              exact this.1
        have : (wItems p (pre ++ [x]) post).filter (isNamed n) = [] := by
          rw [List.filter_eq_nil_iff]
          intro y hy hny
          have := List.any_eq_true.mpr ⟨y, hy, hny⟩
          rw [hrest] at this
          exact Bool.noConfusion this
        simp [this]
      · exact ih
    · exact ih

/-- and, invalid declarations being written (validOnly off), every name keeps one -/
theorem at_least_one_per_name (p : Prefs) (hk : p.keepAllProperties = false) (hv : p.validOnly = false) (n : Nat) :
    ∀ (post pre : List Item),
    (pre.any (isImpNamed n) = false ∧ post.any (isNamed n) = true) ∨ post.any (isImpNamed n) = true →
    (wItems p pre post).any (isNamed n) = true
  | [], _, h => by simp at h
  | x :: post, pre, h => by
    rw [wItems]
    by_cases hxn : isNamed n x = true
    · -- x is a declaration of the name
      cases x with
      | comment => simp [isNamed] at hxn
      | atrule => simp [isNamed] at hxn
      | decl m i v =>
        have hm : m = n := by simpa [isNamed] using hxn
        subst hm
        by_cases he : effective pre post m i = true
        · have : kept p pre post (.decl m i v) = true := by simp [kept, inSeq, writes, he, hv]
          rw [if_pos this]; simp [isNamed]
        · have hrec : (wItems p (pre ++ [.decl m i v]) post).any (isNamed m) = true := by
            apply at_least_one_per_name p hk hv m post
            cases i with
            | true =>
              right
              simpa [effective] using he
            | false =>
              simp only [effective, Bool.false_eq_true, if_false, Bool.and_eq_true, Bool.not_eq_true', not_and,
                Bool.not_eq_false] at he
              rcases h with ⟨h1, _⟩ | h
              · left
                refine ⟨by simp [List.any_append, h1, isImpNamed], ?_⟩
                cases hp : post.any (isNamed m) with
                | true => rfl
                | false => have := he hp; rw [h1] at this; exact Bool.noConfusion this
              · right; simpa [isImpNamed] using h
          split
          · simp [hrec]
          · exact hrec
    · have hxi : isImpNamed n x = false := by
        cases hi : isImpNamed n x with
        | false => rfl
        | true => exact absurd (isImpNamed_isNamed n x hi) hxn
      have hxn' : isNamed n x = false := by simpa using hxn
      have hrec : (wItems p (pre ++ [x]) post).any (isNamed n) = true := by
        apply at_least_one_per_name p hk hv n post
        rcases h with ⟨h1, h2⟩ | h
        · left; exact ⟨by simp [List.any_append, h1, hxi], by simpa [hxn'] using h2⟩
        · right; simpa [hxi] using h
      split
      · simp [hrec]
      · exact hrec

/-! ### with keepEmptyRules every style rule is written: the used uris stay -/

mutual
theorem used_wRule_keepEmpty (p : Prefs) (U : List Nat) (hE : p.keepEmptyRules = true) :
    ∀ (top : Bool) (r : Rule) u, u ∈ usedRule r → ∃ r', wRule p U top r = some r' ∧ u ∈ usedRule r'
  | top, .comment, u, hu => by simp [usedRule] at hu
  | top, .charset, u, hu => by simp [usedRule] at hu
  | top, .imp, u, hu => by simp [usedRule] at hu
  | top, .unknown, u, hu => by simp [usedRule] at hu
  | top, .ns _ _, u, hu => by simp [usedRule] at hu
  | top, .style us b, u, hu => ⟨.style us (wBlock p b), by simp [wRule, hE], by simpa [usedRule] using hu⟩
  | top, .media ks, u, hu => by
    simp only [usedRule] at hu
    exact ⟨.media (wRules p U false ks), by simp [wRule, hE], by
      simp only [usedRule]; exact used_wRules_keepEmpty p U hE false ks u hu⟩
  | top, .page _ _, u, hu => by simp [usedRule] at hu
  | top, .fontface _, u, hu => by simp [usedRule] at hu
theorem used_wRules_keepEmpty (p : Prefs) (U : List Nat) (hE : p.keepEmptyRules = true) :
    ∀ (top : Bool) (rs : List Rule) u, u ∈ usedRules rs → u ∈ usedRules (wRules p U top rs)
  | _, [], u, hu => by simp [usedRules] at hu
  | top, r :: rs, u, hu => by
    simp only [usedRules, List.mem_append] at hu
    rw [wRules]
    rcases hu with hu | hu
    · obtain ⟨r', h, hr'⟩ := used_wRule_keepEmpty p U hE top r u hu
      rw [h]
      simp only [usedRules, List.mem_append]
      exact Or.inl hr'
    · have ih := used_wRules_keepEmpty p U hE top rs u hu
      cases h : wRule p U top r with
      | none => exact ih
      | some r' => simp only [usedRules, List.mem_append]; exact Or.inr ih
end

/-! ### the equality test is sound (for counterexamples decided by evaluation) -/

mutual
theorem Rule.beq_refl : ∀ r : Rule, Rule.beq r r = true
  | .comment => by simp [Rule.beq]
  | .charset => by simp [Rule.beq]
  | .imp => by simp [Rule.beq]
  | .unknown => by simp [Rule.beq]
  | .ns _ _ => by simp [Rule.beq]
  | .style _ _ => by simp [Rule.beq]
  | .media ks => by simp [Rule.beq, beqRules_refl ks]
  | .page _ _ => by simp [Rule.beq]
  | .fontface _ => by simp [Rule.beq]
theorem beqRules_refl : ∀ rs : List Rule, beqRules rs rs = true
  | [] => by simp [beqRules]
  | r :: rs => by simp [beqRules, Rule.beq_refl r, beqRules_refl rs]
end

theorem ne_of_beqRules_false {a b : List Rule} (h : beqRules a b = false) : a ≠ b := by
  intro hab
  rw [hab, beqRules_refl] at h
  exact Bool.noConfusion h

end CssVerif.Omit
