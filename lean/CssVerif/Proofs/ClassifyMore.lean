/-
First-token lemmas for lexemes of unbounded length: numbers, percentages, dimensions, names.

The expected *shapes* of the productions are defined here (`numRe`, `ratioRe`, `nameRe`, …); that the
regenerated table has these shapes is an obligation discharged by `rfl`/`decide` in Props/C09.lean.
-/
import CssVerif.Proofs.Classify
import CssVerif.Proofs.ReStar
namespace CssVerif
open Re

/-! ### skipping productions that do not match -/

theorem matchProd_none_of_ms_nil (p : Prod) (prev : Option Nat) (s : Text) (h : ms p.re s = []) :
    matchProd p prev s = none := by
  unfold matchProd
  have := exec_none_of_ms_nil p.re s h
  split
  · split <;> simp [this]
  · exact this

theorem matchProd_some_of_head (p : Prod) (hna : p.notAfter = none) (prev : Option Nat) (s t : Text)
    (h : (ms p.re s).head? = some t) : matchProd p prev s = some t := by
  simp only [matchProd, hna]
  exact exec_some_of_head p.re s t h

/-- outside full-sheet mode, productions that do not match are skipped -/
theorem tryProds_skip_none (T : Tables) (cfg : Cfg) (hfs : cfg.fullsheet = false) (st : St) :
    ∀ (pre post : List Prod), (∀ q ∈ pre, matchProd q st.prev st.rest = none) →
      tryProds T cfg st (pre ++ post) = tryProds T cfg st post := by
  intro pre
  induction pre with
  | nil => intro post _; rfl
  | cons q qs ih =>
    intro post hpre
    simp only [List.cons_append, tryProds, hfs, Bool.false_and]
    rw [hpre q List.mem_cons_self]
    simp only
    exact ih post (fun x hx => hpre x (List.mem_cons_of_mem _ hx))

/-- the production that classifies a text: all earlier ones do not match, this one matches, and (if it
is IDENT) the text does not continue with `(` -/
theorem step_of_prefix_none (T : Tables) (cfg : Cfg) (hfs : cfg.fullsheet = false) (st : St) (c : Nat)
    (s : Text) (hr : st.rest = c :: s) (hfast : T.fastChars.contains c = false)
    (pre post : List Prod) (p : Prod) (hT : T.prods = pre ++ p :: post)
    (hpre : ∀ q ∈ pre, matchProd q st.prev (c :: s) = none)
    (rem : Text) (hm : matchProd p st.prev (c :: s) = some rem)
    (hid : (p.name == "IDENT") = false ∨ (rem.head? == some 40) = false) :
    step T cfg st = some (finish T cfg st p.name (consumed (c :: s) rem) rem) := by
  unfold step
  rw [hr]
  simp only [hfast, Bool.false_eq_true, if_false]
  rw [hT, tryProds_skip_none T cfg hfs st pre (p :: post) (by rw [hr]; exact hpre)]
  have hid' : (p.name == "IDENT" && lowerT (consumed (c :: s) rem) != [97, 110, 100] && rem.head? == some 40) = false := by
    rcases hid with h | h <;> simp [h]
  simp only [tryProds, hfs, Bool.false_and, Bool.false_eq_true, if_false, hr, hm, hid']

/-- production `q` is passed over at `st`: it does not match, or it is IDENT followed by `(` (and the
match is not `and`) -/
def Skipped (st : St) (q : Prod) : Prop :=
  matchProd q st.prev st.rest = none ∨
  ∃ rem, matchProd q st.prev st.rest = some rem ∧
    (q.name == "IDENT" && lowerT (consumed st.rest rem) != [97, 110, 100] && rem.head? == some 40) = true

theorem tryProds_skip_gen (T : Tables) (cfg : Cfg) (hfs : cfg.fullsheet = false) (st : St) :
    ∀ (pre post : List Prod), (∀ q ∈ pre, Skipped st q) →
      tryProds T cfg st (pre ++ post) = tryProds T cfg st post := by
  intro pre
  induction pre with
  | nil => intro post _; rfl
  | cons q qs ih =>
    intro post hpre
    have ih' := ih post (fun x hx => hpre x (List.mem_cons_of_mem _ hx))
    simp only [List.cons_append, tryProds, hfs, Bool.false_and]
    rcases hpre q List.mem_cons_self with h | ⟨rem, h, hx⟩
    · rw [h]; exact ih'
    · rw [h]
      simp only [hx, if_true]
      exact ih'

theorem step_of_prefix_skip (T : Tables) (cfg : Cfg) (hfs : cfg.fullsheet = false) (st : St) (c : Nat)
    (s : Text) (hr : st.rest = c :: s) (hfast : T.fastChars.contains c = false)
    (pre post : List Prod) (p : Prod) (hT : T.prods = pre ++ p :: post)
    (hpre : ∀ q ∈ pre, Skipped st q)
    (rem : Text) (hm : matchProd p st.prev (c :: s) = some rem)
    (hid : (p.name == "IDENT") = false ∨ (rem.head? == some 40) = false) :
    step T cfg st = some (finish T cfg st p.name (consumed (c :: s) rem) rem) := by
  unfold step
  rw [hr]
  simp only [hfast, Bool.false_eq_true, if_false]
  rw [hT, tryProds_skip_gen T cfg hfs st pre (p :: post) hpre]
  have hid' : (p.name == "IDENT" && lowerT (consumed (c :: s) rem) != [97, 110, 100] && rem.head? == some 40) = false := by
    rcases hid with h | h <;> simp [h]
  simp only [tryProds, hfs, Bool.false_and, Bool.false_eq_true, if_false, hr, hm, hid']

/-! ### character predicates and the classes that implement them -/

def isDigit (c : Nat) : Bool := 48 ≤ c && c ≤ 57
def isSign (c : Nat) : Bool := c = 43 || c = 45
def isWsC (c : Nat) : Bool := c = 9 || c = 10 || c = 12 || c = 13 || c = 32

def dg : Re := .cls false [(48, 57)]
def sgn : Re := .cls false [(43, 43), (45, 45)]
def dotR : Re := .cls false [(46, 46)]
def pctR : Re := .cls false [(37, 37)]
def slashR : Re := .cls false [(47, 47)]
def wsR : Re := .cls false [(9, 9), (13, 13), (10, 10), (12, 12), (32, 32)]

theorem test_dg : IsTest dg isDigit :=
  (isTest_cls _ _).congr (fun c => by simp [clsMatch, inRanges, isDigit])

theorem test_sgn : IsTest sgn isSign :=
  (isTest_cls _ _).congr (fun c => by
    rw [Bool.eq_iff_iff]; simp [clsMatch, inRanges, isSign]; omega)

theorem test_dot : IsTest dotR (fun c => c == 46) :=
  (isTest_cls _ _).congr (fun c => by
    rw [Bool.eq_iff_iff]; simp [clsMatch, inRanges]; omega)

theorem test_pct : IsTest pctR (fun c => c == 37) :=
  (isTest_cls _ _).congr (fun c => by
    rw [Bool.eq_iff_iff]; simp [clsMatch, inRanges]; omega)

theorem test_slash : IsTest slashR (fun c => c == 47) :=
  (isTest_cls _ _).congr (fun c => by
    rw [Bool.eq_iff_iff]; simp [clsMatch, inRanges]; omega)

theorem test_ws : IsTest wsR isWsC :=
  (isTest_cls _ _).congr (fun c => by
    rw [Bool.eq_iff_iff]; simp [clsMatch, inRanges, isWsC]; omega)

/-! ### numbers -/

/-- `[+-]?[0-9]*\.[0-9]+|[+-]?[0-9]+` -/
def numRe : Re :=
  .alt (.seq (.opt sgn) (.seq (.star dg) (.seq dotR (.seq dg (.star dg)))))
       (.seq (.opt sgn) (.seq dg (.star dg)))

/-- `.` followed by a digit -/
def dotDigit : Text → Bool
  | 46 :: e :: _ => isDigit e
  | _ => false

theorem frac_stop (rest : Text) (h : dotDigit rest = false) :
    ms (.seq dotR (.seq dg (.star dg))) rest = [] := by
  cases rest with
  | nil => exact test_dot.seq_stop _ _ (by simp)
  | cons d r =>
    by_cases hd : d = 46
    · subst hd
      rw [ms_seq_single _ _ _ _ (test_dot.pos (by rfl) r)]
      cases r with
      | nil => exact test_dg.seq_stop _ _ (by simp)
      | cons e r' =>
        simp only [dotDigit] at h
        exact test_dg.seq_stop _ _ (by simpa using h)
    · exact test_dot.seq_stop _ _ (by simpa using hd)

/-- what the successes of the number expression look like: the greedy one first, every other one
starts with a digit or a dot of the lexeme -/
def NumRes (l : List Text) (rest : Text) : Prop :=
  l.head? = some rest ∧ ∀ t ∈ l, t = rest ∨ ∃ x post, t = x :: post ∧ (isDigit x = true ∨ x = 46)

theorem isSign_of_digit {c : Nat} (h : isDigit c = true) : isSign c = false := by
  simp only [isDigit, Bool.and_eq_true, decide_eq_true_eq] at h
  simp [isSign]; omega

theorem ms_num_int (c : Nat) (run rest : Text) (hc : isDigit c = true)
    (hrun : ∀ x ∈ run, isDigit x = true) (hrest : ∀ d ∈ rest.head?, isDigit d = false)
    (hdot : dotDigit rest = false) :
    ms numRe (c :: (run ++ rest)) = backoffs run rest := by
  have hopt : ms (.opt sgn) (c :: (run ++ rest)) = [c :: (run ++ rest)] :=
    test_sgn.opt_stop _ (by simpa using isSign_of_digit hc)
  have hint : ms (.seq dg (.star dg)) (c :: (run ++ rest)) = backoffs run rest :=
    test_dg.plus_run c run rest hc hrun hrest
  have hstar : ms (.star dg) (c :: (run ++ rest)) = backoffs (c :: run) rest :=
    test_dg.star_run (c :: run) rest (by
      intro x hx
      rcases List.mem_cons.mp hx with rfl | hx
      · exact hc
      · exact hrun x hx) hrest
  have hfrac : ms (.seq (.star dg) (.seq dotR (.seq dg (.star dg)))) (c :: (run ++ rest)) = [] := by
    rw [ms_seq, hstar]
    apply flatMap_eq_nil_of_forall
    intro t ht
    rcases backoffs_mem _ _ _ ht with rfl | ⟨x, post, rfl, hx⟩
    · exact frac_stop _ hdot
    · have hxd : isDigit x = true := by
        rcases List.mem_cons.mp hx with rfl | hx
        · exact hc
        · exact hrun x hx
      refine test_dot.seq_stop _ _ ?_
      intro d hd
      simp at hd; subst hd
      simp only [isDigit, Bool.and_eq_true, decide_eq_true_eq] at hxd
      simp; omega
  unfold numRe
  rw [ms_alt, ms_seq_single _ _ _ _ hopt, ms_seq_single _ _ _ _ hopt, hfrac, hint]
  rfl

theorem ms_num_dec (ip : Text) (f : Nat) (fs rest : Text) (hip : ∀ x ∈ ip, isDigit x = true)
    (hf : isDigit f = true) (hfs : ∀ x ∈ fs, isDigit x = true)
    (hrest : ∀ d ∈ rest.head?, isDigit d = false) :
    ∃ more, ms numRe (ip ++ 46 :: f :: (fs ++ rest)) = backoffs fs rest ++ more ∧
      ∀ t ∈ more, ∃ x post, t = x :: post ∧ (isDigit x = true ∨ x = 46) := by
  have hR : ∀ d ∈ (46 :: f :: (fs ++ rest)).head?, isDigit d = false := by
    intro d hd; simp at hd; subst hd; rfl
  have hopt : ms (.opt sgn) (ip ++ 46 :: f :: (fs ++ rest)) = [ip ++ 46 :: f :: (fs ++ rest)] := by
    apply test_sgn.opt_stop
    cases ip with
    | nil => intro d hd; simp at hd; subst hd; rfl
    | cons i is =>
      intro d hd; simp at hd; subst hd
      exact isSign_of_digit (hip _ List.mem_cons_self)
  have hfracR : ms (.seq dotR (.seq dg (.star dg))) (46 :: f :: (fs ++ rest)) = backoffs fs rest := by
    rw [ms_seq_single _ _ _ _ (test_dot.pos (by rfl) _)]
    exact test_dg.plus_run f fs rest hf hfs hrest
  have hfrac : ms (.seq (.star dg) (.seq dotR (.seq dg (.star dg)))) (ip ++ 46 :: f :: (fs ++ rest))
      = backoffs fs rest := by
    have hstar := test_dg.star_run ip (46 :: f :: (fs ++ rest)) hip hR
    rw [ms_seq, hstar, backoffs_flatMap ip _ _ ?_, hfracR]
    intro x hx post
    have hxd := hip x hx
    refine test_dot.seq_stop _ _ ?_
    intro d hd
    simp at hd; subst hd
    simp only [isDigit, Bool.and_eq_true, decide_eq_true_eq] at hxd
    simp; omega
  unfold numRe
  rw [ms_alt, ms_seq_single _ _ _ _ hopt, ms_seq_single _ _ _ _ hopt, hfrac]
  refine ⟨_, rfl, ?_⟩
  intro t ht
  cases ip with
  | nil =>
    rw [List.nil_append, test_dg.seq_stop _ _ hR] at ht
    cases ht
  | cons i is =>
    rw [List.cons_append, test_dg.plus_run i is _ (hip _ List.mem_cons_self)
      (fun x hx => hip x (List.mem_cons_of_mem _ hx)) hR] at ht
    rcases backoffs_mem _ _ _ ht with rfl | ⟨x, post, rfl, hx⟩
    · exact ⟨46, _, rfl, Or.inr rfl⟩
    · exact ⟨x, post, rfl, Or.inl (hip x (List.mem_cons_of_mem _ hx))⟩

theorem numRes_of_backoffs (run rest : Text) (hrun : ∀ x ∈ run, isDigit x = true) :
    NumRes (backoffs run rest) rest := by
  refine ⟨backoffs_head run rest, ?_⟩
  intro t ht
  rcases backoffs_mem _ _ _ ht with h | ⟨x, post, h, hx⟩
  · exact Or.inl h
  · exact Or.inr ⟨x, post, h, Or.inl (hrun x hx)⟩

/-- an integer lexeme -/
theorem numRes_int (c : Nat) (run rest : Text) (hc : isDigit c = true)
    (hrun : ∀ x ∈ run, isDigit x = true) (hrest : ∀ d ∈ rest.head?, isDigit d = false)
    (hdot : dotDigit rest = false) : NumRes (ms numRe (c :: (run ++ rest))) rest := by
  rw [ms_num_int c run rest hc hrun hrest hdot]
  exact numRes_of_backoffs run rest hrun

/-- a decimal lexeme (the integer part may be empty) -/
theorem numRes_dec (ip : Text) (f : Nat) (fs rest : Text) (hip : ∀ x ∈ ip, isDigit x = true)
    (hf : isDigit f = true) (hfs : ∀ x ∈ fs, isDigit x = true)
    (hrest : ∀ d ∈ rest.head?, isDigit d = false) :
    NumRes (ms numRe (ip ++ 46 :: f :: (fs ++ rest))) rest := by
  obtain ⟨more, hms, hmore⟩ := ms_num_dec ip f fs rest hip hf hfs hrest
  rw [hms]
  refine ⟨?_, ?_⟩
  · rw [List.head?_append, backoffs_head]; rfl
  · intro t ht
    rcases List.mem_append.mp ht with ht | ht
    · exact (numRes_of_backoffs fs rest hfs).2 t ht
    · exact Or.inr (hmore t ht)

theorem head?_flatMap_of_head {α β} (l : List α) (g : α → List β) (a : α) (b : β)
    (hl : l.head? = some a) (hg : (g a).head? = some b) : (l.flatMap g).head? = some b := by
  cases l with
  | nil => cases hl
  | cons x xs =>
    simp only [List.head?_cons, Option.some.injEq] at hl
    subst hl
    rw [List.flatMap_cons, List.head?_append, hg]
    rfl

/-- `number k` fails when `k` fails after the lexeme and cannot start with a digit or a dot -/
theorem num_then_nil (s rest : Text) (h : NumRes (ms numRe s) rest) (k : Re)
    (hk : ms k rest = []) (hkd : ∀ x post, (isDigit x = true ∨ x = 46) → ms k (x :: post) = []) :
    ms (.seq numRe k) s = [] := by
  rw [ms_seq]
  apply flatMap_eq_nil_of_forall
  intro t ht
  rcases h.2 t ht with rfl | ⟨x, post, rfl, hx⟩
  · exact hk
  · exact hkd x post hx

/-- `number k` greedy: the first success is the first success of `k` after the lexeme -/
theorem num_then_head (s rest t : Text) (h : NumRes (ms numRe s) rest) (k : Re)
    (hk : (ms k rest).head? = some t) : (ms (.seq numRe k) s).head? = some t := by
  rw [ms_seq]
  exact head?_flatMap_of_head (ms numRe s) (ms k) rest t h.1 hk

/-! ### RATIO does not match a number -/

/-- `{s}*[0-9]+{s}*/…` -/
def ratioRe (k : Re) : Re :=
  .seq (.star wsR) (.seq dg (.seq (.star dg) (.seq (.star wsR) (.seq slashR k))))

theorem isWsC_of_digit {c : Nat} (h : isDigit c = true) : isWsC c = false := by
  simp only [isDigit, Bool.and_eq_true, decide_eq_true_eq] at h
  simp [isWsC]; omega

/-- digits followed by a text that, after optional whitespace, does not continue with `/` -/
theorem ratio_nil (k : Re) (c : Nat) (run rest : Text) (hc : isDigit c = true)
    (hrun : ∀ x ∈ run, isDigit x = true) (hrest : ∀ d ∈ rest.head?, isDigit d = false)
    (hsl : ∀ d ∈ (rest.dropWhile isWsC).head?, (d == 47) = false) :
    ms (ratioRe k) (c :: (run ++ rest)) = [] := by
  unfold ratioRe
  rw [ms_seq_single _ _ _ _ (test_ws.star_stop _ (by simpa using isWsC_of_digit hc)),
    ms_seq_single _ _ _ _ (test_dg.pos hc _)]
  have hstar := test_dg.star_run run rest hrun hrest
  rw [ms_seq, hstar]
  apply flatMap_eq_nil_of_forall
  intro t ht
  rcases backoffs_mem _ _ _ ht with rfl | ⟨x, post, rfl, hx⟩
  · exact test_ws.star_then_stop test_slash (by
      intro c hc
      simp only [isWsC, Bool.or_eq_true, decide_eq_true_eq] at hc
      simp; omega) k _ hsl
  · have hxd := hrun x hx
    rw [ms_seq_single _ _ _ _ (test_ws.star_stop _ (by simpa using isWsC_of_digit hxd))]
    refine test_slash.seq_stop _ _ ?_
    intro d hd
    simp at hd; subst hd
    simp only [isDigit, Bool.and_eq_true, decide_eq_true_eq] at hxd
    simp; omega

theorem ratio_nil_of_not_digit (k : Re) (t : Text)
    (ht : ∀ d ∈ t.head?, isDigit d = false ∧ isWsC d = false) : ms (ratioRe k) t = [] := by
  unfold ratioRe
  rw [ms_seq_single _ _ _ _ (test_ws.star_stop _ (fun d hd => (ht d hd).2))]
  exact test_dg.seq_stop _ _ (fun d hd => (ht d hd).1)

/-- RATIO does not match a decimal lexeme -/
theorem ratio_nil_dec (k : Re) (ip tail : Text) (hip : ∀ x ∈ ip, isDigit x = true) :
    ms (ratioRe k) (ip ++ 46 :: tail) = [] := by
  cases ip with
  | nil => exact ratio_nil_of_not_digit k _ (by intro d hd; simp at hd; subst hd; exact ⟨rfl, rfl⟩)
  | cons i is =>
    exact ratio_nil k i is (46 :: tail) (hip _ List.mem_cons_self)
      (fun x hx => hip x (List.mem_cons_of_mem _ hx))
      (by intro d hd; simp at hd; subst hd; rfl)
      (by intro d hd
          have : List.dropWhile isWsC (46 :: tail) = 46 :: tail := by
            simp [isWsC]
          rw [this] at hd; simp at hd; subst hd; rfl)

/-! ### escape-free names -/

def isNmStart (c : Nat) : Bool := c = 95 || (97 ≤ c && c ≤ 122) || (65 ≤ c && c ≤ 90) || 128 ≤ c
def isNmChar (c : Nat) : Bool := isNmStart c || isDigit c || c = 45

theorem nmstart_facts {c : Nat} (h : isNmStart c = true) :
    c ≠ 92 ∧ c ≠ 45 ∧ c ≠ 46 ∧ c ≠ 40 ∧ c ≠ 43 ∧ c ≠ 47 ∧ isDigit c = false ∧ isWsC c = false := by
  simp only [isNmStart, Bool.or_eq_true, Bool.and_eq_true, decide_eq_true_eq] at h
  simp [isDigit, isWsC]; omega

theorem nmchar_facts {c : Nat} (h : isNmChar c = true) : c ≠ 92 ∧ c ≠ 40 ∧ c ≠ 43 ∧ c ≠ 47 ∧ isWsC c = false := by
  simp only [isNmChar, isNmStart, isDigit, Bool.or_eq_true, Bool.and_eq_true, decide_eq_true_eq] at h
  simp [isWsC]; omega

/-- a one-character test on every first character other than the backslash -/
structure IsTestNB (a : Re) (P : Nat → Bool) : Prop where
  nil : ms a [] = []
  cons : ∀ c s, c ≠ 92 → ms a (c :: s) = if P c = true then [s] else []

theorem IsTestNB.pos {a : Re} {P : Nat → Bool} (h : IsTestNB a P) {c : Nat} (hb : c ≠ 92)
    (hc : P c = true) (s : Text) : ms a (c :: s) = [s] := by
  rw [h.cons c s hb, if_pos hc]

theorem IsTestNB.stop {a : Re} {P : Nat → Bool} (h : IsTestNB a P) (t : Text)
    (ht : ∀ d ∈ t.head?, P d = false ∧ d ≠ 92) : ms a t = [] := by
  cases t with
  | nil => exact h.nil
  | cons d r =>
    have := ht d (by simp)
    rw [h.cons d r this.2, this.1]; rfl

theorem IsTestNB.star_run {a : Re} {P : Nat → Bool} (h : IsTestNB a P) (run rest : Text)
    (hrun : ∀ c ∈ run, P c = true ∧ c ≠ 92) (hrest : ∀ d ∈ rest.head?, P d = false ∧ d ≠ 92) :
    ms (star a) (run ++ rest) = backoffs run rest :=
  ms_star_run a (fun c => P c && c != 92)
    (fun c s hc => by
      simp only [Bool.and_eq_true, bne_iff_ne, ne_eq] at hc
      exact h.pos hc.2 hc.1 s)
    run rest (fun c hc => by
      have := hrun c hc
      simp [this.1, this.2]) (h.stop rest hrest)

def minusR : Re := .cls false [(45, 45)]
def bsR : Re := .cls false [(92, 92)]

theorem test_minus : IsTest minusR (fun c => c == 45) :=
  (isTest_cls _ _).congr (fun c => by
    rw [Bool.eq_iff_iff]; simp [clsMatch, inRanges]; omega)

theorem test_bs : IsTest bsR (fun c => c == 92) :=
  (isTest_cls _ _).congr (fun c => by
    rw [Bool.eq_iff_iff]; simp [clsMatch, inRanges]; omega)

/-- `[ascii class] | [^\0-\177] | \…` -/
def nmRe (rs : List (Nat × Nat)) (X : Re) : Re :=
  .alt (.cls false rs) (.alt (.cls true [(0, 127)]) (.seq bsR X))

theorem test_nm (rs : List (Nat × Nat)) (X : Re) (P : Nat → Bool)
    (hP : ∀ c, P c = (clsMatch false rs c || decide (128 ≤ c)))
    (hrs : ∀ c, clsMatch false rs c = true → c < 128) : IsTestNB (nmRe rs X) P := by
  constructor
  · simp [nmRe, bsR, ms]
  · intro c s hc
    have hbs : ms bsR (c :: s) = [] := test_bs.neg (by simpa using hc) s
    have hna : ms (.cls true [(0, 127)]) (c :: s) = if 128 ≤ c then [s] else [] := by
      simp only [ms, clsMatch, inRanges, if_true]
      by_cases h : 128 ≤ c
      · have : ¬ c ≤ 127 := by omega
        simp [h, this]
      · have : c ≤ 127 := by omega
        simp [h, this]
    unfold nmRe
    rw [ms_alt, ms_alt, ms_seq, hbs, hna, hP]
    cases hA : clsMatch false rs c with
    | true =>
      have : ¬ 128 ≤ c := by have := hrs c hA; omega
      simp [ms, hA, this]
    | false =>
      by_cases h : 128 ≤ c <;> simp [ms, hA, h]

def nmstartRe (X : Re) : Re := nmRe [(95, 95), (97, 122), (65, 90)] X
def nmcharRe (X : Re) : Re := nmRe [(45, 45), (95, 95), (97, 122), (65, 90), (48, 57)] X

theorem test_nmstart (X : Re) : IsTestNB (nmstartRe X) isNmStart :=
  test_nm _ X _ (fun c => by
      rw [Bool.eq_iff_iff]; simp [clsMatch, inRanges, isNmStart]; omega)
    (fun c h => by simp [clsMatch, inRanges] at h; omega)

theorem test_nmchar (X : Re) : IsTestNB (nmcharRe X) isNmChar :=
  test_nm _ X _ (fun c => by
      rw [Bool.eq_iff_iff]; simp [clsMatch, inRanges, isNmChar, isNmStart, isDigit]; omega)
    (fun c h => by simp [clsMatch, inRanges] at h; omega)

/-- `{nmstart}{nmchar}*` -/
def nameRe (X : Re) : Re := .seq (nmstartRe X) (.star (nmcharRe X))
/-- `-?{nmstart}{nmchar}*` -/
def identRe (X : Re) : Re := .seq (.opt minusR) (nameRe X)

/-- the continuation is not a name character and not a backslash -/
def NameStop (rest : Text) : Prop := ∀ d ∈ rest.head?, isNmChar d = false ∧ d ≠ 92

instance (rest : Text) : Decidable (NameStop rest) := by unfold NameStop; infer_instance
instance (t : Text) : Decidable (NoBs t) := by unfold NoBs; infer_instance

theorem ms_nmchars (X : Re) (us rest : Text) (hus : ∀ x ∈ us, isNmChar x = true) (hrest : NameStop rest) :
    ms (.star (nmcharRe X)) (us ++ rest) = backoffs us rest :=
  (test_nmchar X).star_run us rest (fun x hx => ⟨hus x hx, (nmchar_facts (hus x hx)).1⟩) hrest

theorem ms_name (X : Re) (u : Nat) (us rest : Text) (hu : isNmStart u = true)
    (hus : ∀ x ∈ us, isNmChar x = true) (hrest : NameStop rest) :
    ms (nameRe X) (u :: (us ++ rest)) = backoffs us rest := by
  unfold nameRe
  rw [ms_seq_single _ _ _ _ ((test_nmstart X).pos (nmstart_facts hu).1 hu _)]
  exact ms_nmchars X us rest hus hrest

/-- an escape-free identifier: optional `-`, a name-start character, name characters -/
def identLex (m : Bool) (u : Nat) (us : Text) : Text := (if m then [45] else []) ++ u :: us

theorem ms_ident (X : Re) (m : Bool) (u : Nat) (us rest : Text) (hu : isNmStart u = true)
    (hus : ∀ x ∈ us, isNmChar x = true) (hrest : NameStop rest) :
    ms (identRe X) (identLex m u us ++ rest) = backoffs us rest := by
  have hname := ms_name X u us rest hu hus hrest
  unfold identRe identLex
  cases m with
  | false =>
    simp only [Bool.false_eq_true, if_false, List.nil_append, List.cons_append]
    rw [ms_seq_single _ _ _ _ (test_minus.opt_stop _ (by simpa using (nmstart_facts hu).2.1)), hname]
  | true =>
    simp only [if_true, List.cons_append, List.nil_append]
    rw [ms_seq, test_minus.opt_pos (by rfl)]
    have h45 : ms (nameRe X) (45 :: u :: (us ++ rest)) = [] := by
      unfold nameRe
      exact ms_seq_nil_left _ _ _ ((test_nmstart X).stop _ (by simp [isNmStart]))
    simp [hname, h45]

def nameStart : Text → Bool
  | d :: _ => isNmStart d || d == 92
  | [] => false

/-- the text starts like an identifier (or an escape): `-`? then a name-start or a backslash -/
def identStart : Text → Bool
  | d :: r => if d = 45 then nameStart r else nameStart (d :: r)
  | [] => false

theorem name_nil (X : Re) (t : Text) (h : nameStart t = false) : ms (nameRe X) t = [] := by
  unfold nameRe
  apply ms_seq_nil_left
  apply (test_nmstart X).stop
  intro d hd
  cases t with
  | nil => cases hd
  | cons x r =>
    simp at hd; subst hd
    simpa [nameStart] using h

theorem ident_nil (X : Re) (t : Text) (h : identStart t = false) : ms (identRe X) t = [] := by
  unfold identRe
  cases t with
  | nil =>
    rw [ms_seq_single _ _ _ _ (test_minus.opt_stop [] (by simp))]
    exact name_nil X [] rfl
  | cons d r =>
    simp only [identStart] at h
    by_cases hd : d = 45
    · subst hd
      simp only [if_true] at h
      rw [ms_seq, test_minus.opt_pos (by rfl)]
      simp [name_nil X r h, name_nil X (45 :: r) (by simp [nameStart, isNmStart])]
    · simp only [hd, if_false] at h
      rw [ms_seq_single _ _ _ _ (test_minus.opt_stop _ (by simpa using hd))]
      exact name_nil X _ h

theorem identStart_digit_dot (x : Nat) (post : Text) (h : isDigit x = true ∨ x = 46) :
    identStart (x :: post) = false := by
  simp only [isDigit, Bool.and_eq_true, decide_eq_true_eq] at h
  have h45 : x ≠ 45 := by omega
  simp only [identStart, h45, if_false, nameStart, isNmStart, Bool.or_eq_false_iff, beq_eq_false_iff_ne,
    decide_eq_false_iff_not, Bool.and_eq_false_iff]
  omega

theorem identLex_head (m : Bool) (u : Nat) (us rest : Text) (hu : isNmStart u = true) :
    ∃ x post, identLex m u us ++ rest = x :: post ∧ isDigit x = false ∧ x ≠ 46 ∧ x ≠ 47 ∧ isWsC x = false ∧ x ≠ 92 := by
  have := nmstart_facts hu
  cases m with
  | false => exact ⟨u, us ++ rest, rfl, this.2.2.2.2.2.2.1, this.2.2.1, this.2.2.2.2.2.1, this.2.2.2.2.2.2.2, this.1⟩
  | true => exact ⟨45, u :: (us ++ rest), rfl, by decide, by decide, by decide, by decide, by decide⟩

theorem identLex_nobs (m : Bool) (u : Nat) (us : Text) (hu : isNmStart u = true)
    (hus : ∀ x ∈ us, isNmChar x = true) : NoBs (identLex m u us) := by
  intro c hc
  unfold identLex at hc
  rcases List.mem_append.mp hc with h | h
  · cases m <;> simp at h
    omega
  · rcases List.mem_cons.mp h with rfl | h
    · exact (nmstart_facts hu).1
    · exact (nmchar_facts (hus c h)).1

/-! ### unsigned numeric lexemes -/

/-- `[0-9]+` and `[0-9]*\.[0-9]+` -/
inductive NumLex : Text → Prop
  | int (c : Nat) (run : Text) (hc : isDigit c = true) (hrun : ∀ x ∈ run, isDigit x = true) : NumLex (c :: run)
  | dec (ip : Text) (f : Nat) (fs : Text) (hip : ∀ x ∈ ip, isDigit x = true) (hf : isDigit f = true)
      (hfs : ∀ x ∈ fs, isDigit x = true) : NumLex (ip ++ 46 :: f :: fs)

/-- the characters a numeric lexeme (without sign) can start with: `.` and the digits -/
def numStarts : List Nat := [46, 48, 49, 50, 51, 52, 53, 54, 55, 56, 57]

theorem numStarts_of_digit {c : Nat} (h : isDigit c = true) : c ∈ numStarts := by
  simp only [isDigit, Bool.and_eq_true, decide_eq_true_eq] at h
  simp [numStarts]; omega

/-- RATIO is switched off by a preceding `(`, or does not match -/
def NoRatio (prev : Option Nat) (t : Text) : Prop := prev = some 40 ∨ ∀ k, ms (ratioRe k) t = []

theorem not_digit_46_mem {l : Text} (h : ∀ x ∈ l, isDigit x = true) : 46 ∉ l := by
  intro hm
  have := h 46 hm
  simp [isDigit] at this

theorem NumLex.start {num : Text} (h : NumLex num) (t : Text) :
    ∃ c s, num ++ t = c :: s ∧ c ∈ numStarts := by
  cases h with
  | int c run hc hrun => exact ⟨c, run ++ t, rfl, numStarts_of_digit hc⟩
  | dec ip f fs hip hf hfs =>
    cases ip with
    | nil => exact ⟨46, f :: fs ++ t, rfl, by simp [numStarts]⟩
    | cons i is => exact ⟨i, _, rfl, numStarts_of_digit (hip i List.mem_cons_self)⟩

theorem NumLex.nobs {num : Text} (h : NumLex num) : NoBs num := by
  have hd : ∀ x, isDigit x = true → x ≠ 92 := by
    intro x hx
    simp only [isDigit, Bool.and_eq_true, decide_eq_true_eq] at hx
    omega
  cases h with
  | int c run hc hrun =>
    intro x hx
    rcases List.mem_cons.mp hx with rfl | hx
    · exact hd _ hc
    · exact hd _ (hrun x hx)
  | dec ip f fs hip hf hfs =>
    intro x hx
    rcases List.mem_append.mp hx with hx | hx
    · exact hd _ (hip x hx)
    · rcases List.mem_cons.mp hx with rfl | hx
      · decide
      · rcases List.mem_cons.mp hx with rfl | hx
        · exact hd _ hf
        · exact hd _ (hfs x hx)

/-- the successes of the number expression on a numeric lexeme followed by `t`: `t` must not start
with a digit and, after an integer, not with `.digit` -/
theorem NumLex.res {num : Text} (h : NumLex num) (t : Text) (ht : ∀ d ∈ t.head?, isDigit d = false)
    (hdot : 46 ∈ num ∨ dotDigit t = false) : NumRes (ms numRe (num ++ t)) t := by
  cases h with
  | int c run hc hrun =>
    have : dotDigit t = false := by
      rcases hdot with hm | h
      · exact absurd hm (not_digit_46_mem (l := c :: run) (by
          intro x hx
          rcases List.mem_cons.mp hx with rfl | hx
          · exact hc
          · exact hrun x hx))
      · exact h
    exact numRes_int c run t hc hrun ht this
  | dec ip f fs hip hf hfs =>
    have := numRes_dec ip f fs t hip hf hfs ht
    simpa [List.append_assoc] using this

theorem NumLex.noRatio {num : Text} (h : NumLex num) (t : Text) (prev : Option Nat)
    (ht : ∀ d ∈ t.head?, isDigit d = false)
    (hsl : 46 ∈ num ∨ prev = some 40 ∨ ∀ d ∈ (t.dropWhile isWsC).head?, (d == 47) = false) :
    NoRatio prev (num ++ t) := by
  cases h with
  | int c run hc hrun =>
    rcases hsl with hm | hp | hs
    · exact absurd hm (not_digit_46_mem (l := c :: run) (by
        intro x hx
        rcases List.mem_cons.mp hx with rfl | hx
        · exact hc
        · exact hrun x hx))
    · exact Or.inl hp
    · exact Or.inr (fun k => ratio_nil k c run t hc hrun ht hs)
  | dec ip f fs hip hf hfs =>
    refine Or.inr (fun k => ?_)
    have := ratio_nil_dec k ip (f :: fs ++ t) hip
    simpa [List.append_assoc] using this

/-- a continuation that starts with a character that is neither digit, dot, slash nor whitespace -/
theorem NumLex.facts_of_head {num : Text} (h : NumLex num) (prev : Option Nat) (x : Nat) (post : Text)
    (h1 : isDigit x = false) (h2 : x ≠ 46) (h3 : x ≠ 47) (h4 : isWsC x = false) :
    NumRes (ms numRe (num ++ x :: post)) (x :: post) ∧ NoRatio prev (num ++ x :: post) := by
  have ht : ∀ d ∈ (x :: post).head?, isDigit d = false := by
    intro d hd; simp at hd; subst hd; exact h1
  refine ⟨h.res _ ht (Or.inr ?_), h.noRatio _ prev ht (Or.inr (Or.inr ?_))⟩
  · unfold dotDigit
    split
    · rename_i heq
      simp only [List.cons.injEq] at heq
      exact absurd heq.1 h2
    · rfl
  · have : List.dropWhile isWsC (x :: post) = x :: post := by simp [h4]
    rw [this]
    intro d hd; simp at hd; subst hd
    simpa using h3

/-! ### single-letter expressions (`U`, `R`, `L` of `url(` and `U+`) on escape-free names -/

/-- every class that can be consumed first is positive and lies below `M` -/
def firstBounded (M : Nat) : Re → Bool
  | .eps => true
  | .cls neg rs => !neg && rs.all (fun lh => lh.2 < M)
  | .seq a b => firstBounded M a && firstBounded M b
  | .alt a b => firstBounded M a && firstBounded M b
  | .star a => firstBounded M a
  | .opt a => firstBounded M a
  | .lazyStar a => firstBounded M a
  | .ahead _ => true
  | .nahead _ _ => true

theorem inRanges_false_of_bounded (M c : Nat) (hc : M ≤ c) :
    ∀ rs : List (Nat × Nat), rs.all (fun lh => lh.2 < M) = true → inRanges c rs = false := by
  intro rs
  induction rs with
  | nil => intro _; rfl
  | cons lh rs ih =>
    intro h
    simp only [List.all_cons, Bool.and_eq_true, decide_eq_true_eq] at h
    obtain ⟨lo, hi⟩ := lh
    simp only [inRanges, ih h.2, Bool.or_false, Bool.and_eq_false_iff, decide_eq_false_iff_not]
    right
    have := h.1
    simp only at this
    omega

theorem first_of_bounded (M : Nat) (c : Nat) (hc : M ≤ c) :
    ∀ r : Re, firstBounded M r = true → first r c = false := by
  intro r
  induction r with
  | eps => intro _; rfl
  | cls neg rs =>
    intro h
    simp only [firstBounded, Bool.and_eq_true, Bool.not_eq_true'] at h
    simp only [first, clsMatch, h.1, Bool.false_eq_true, if_false]
    exact inRanges_false_of_bounded M c hc rs h.2
  | seq a b iha ihb =>
    intro h
    simp only [firstBounded, Bool.and_eq_true] at h
    simp [first, iha h.1, ihb h.2]
  | alt a b iha ihb =>
    intro h
    simp only [firstBounded, Bool.and_eq_true] at h
    simp [first, iha h.1, ihb h.2]
  | star a iha => intro h; simp only [firstBounded] at h; simp [first, iha h]
  | opt a iha => intro h; simp only [firstBounded] at h; simp [first, iha h]
  | lazyStar a iha => intro h; simp only [firstBounded] at h; simp [first, iha h]
  | ahead _ => intro _; rfl
  | nahead _ _ => intro _; rfl

theorem ms_backslash_nil (r : Re) (h : startsWithBackslash r = true) (c : Nat) (s : Text) (hc : c ≠ 92) :
    ms r (c :: s) = [] := by
  unfold startsWithBackslash at h
  split at h
  · exact test_bs.seq_stop _ _ (by simpa using hc)
  · cases h

theorem ms_backslash_nil' (r : Re) (h : startsWithBackslash r = true) : ms r [] = [] := by
  unfold startsWithBackslash at h
  split at h
  · exact test_bs.seq_stop _ _ (by simp)
  · cases h

/-- an alternation of classes and backslash-led sequences -/
def oneOrBs : Re → Bool
  | .cls _ _ => true
  | .alt a b => oneOrBs a && oneOrBs b
  | r => startsWithBackslash r

theorem oneOrBs_spec : ∀ r : Re, oneOrBs r = true → ∀ (c : Nat) (s : Text), c ≠ 92 →
    ∀ t ∈ ms r (c :: s), t = s ∧ first r c = true := by
  intro r
  induction r with
  | cls neg rs =>
    intro _ c s _ t ht
    simp only [ms] at ht
    split at ht
    · rename_i hm
      simp at ht
      exact ⟨ht, by simpa [first] using hm⟩
    · cases ht
  | alt a b iha ihb =>
    intro h c s hc t ht
    simp only [oneOrBs, Bool.and_eq_true] at h
    rw [ms_alt] at ht
    rcases List.mem_append.mp ht with h1 | h1
    · have := iha h.1 c s hc t h1
      exact ⟨this.1, by simp [first, this.2]⟩
    · have := ihb h.2 c s hc t h1
      exact ⟨this.1, by simp [first, this.2]⟩
  | seq a b _ _ =>
    intro h c s hc t ht
    rw [ms_backslash_nil _ (by simpa [oneOrBs] using h) c s hc] at ht
    cases ht
  | eps => intro h; simp [oneOrBs, startsWithBackslash] at h
  | star a _ => intro h; simp [oneOrBs, startsWithBackslash] at h
  | opt a _ => intro h; simp [oneOrBs, startsWithBackslash] at h
  | lazyStar a _ => intro h; simp [oneOrBs, startsWithBackslash] at h
  | ahead _ => intro h; simp [oneOrBs, startsWithBackslash] at h
  | nahead _ _ => intro h; simp [oneOrBs, startsWithBackslash] at h

theorem oneOrBs_nil : ∀ r : Re, oneOrBs r = true → ms r [] = [] := by
  intro r
  induction r with
  | cls neg rs => intro _; rfl
  | alt a b iha ihb =>
    intro h
    simp only [oneOrBs, Bool.and_eq_true] at h
    rw [ms_alt, iha h.1, ihb h.2]; rfl
  | seq a b _ _ => intro h; exact ms_backslash_nil' _ (by simpa [oneOrBs] using h)
  | eps => intro h; simp [oneOrBs, startsWithBackslash] at h
  | star a _ => intro h; simp [oneOrBs, startsWithBackslash] at h
  | opt a _ => intro h; simp [oneOrBs, startsWithBackslash] at h
  | lazyStar a _ => intro h; simp [oneOrBs, startsWithBackslash] at h
  | ahead _ => intro h; simp [oneOrBs, startsWithBackslash] at h
  | nahead _ _ => intro h; simp [oneOrBs, startsWithBackslash] at h

/-- `r` is `U | u | \…`: decidable on a concrete expression -/
def letterOK (r : Re) (U u : Nat) : Bool :=
  oneOrBs r && firstBounded 128 r &&
    (List.range 128).all (fun d => !first r d || d == U || d == u || d == 92)

theorem letterOK_spec (r : Re) (U u : Nat) (h : letterOK r U u = true) (c : Nat) (s : Text) (hc : c ≠ 92) :
    ∀ t ∈ ms r (c :: s), t = s ∧ (c = U ∨ c = u) := by
  intro t ht
  simp only [letterOK, Bool.and_eq_true] at h
  obtain ⟨⟨h1, h2⟩, h3⟩ := h
  have := oneOrBs_spec r h1 c s hc t ht
  refine ⟨this.1, ?_⟩
  have hlt : c < 128 := by
    apply Nat.lt_of_not_le
    intro hge
    rw [first_of_bounded 128 c hge r h2] at this
    cases this.2
  have htab := List.all_eq_true.mp h3 c (List.mem_range.mpr hlt)
  simp only [this.2, Bool.not_true, Bool.false_or, Bool.or_eq_true, beq_iff_eq] at htab
  rcases htab with (h | h) | h
  · exact Or.inl h
  · exact Or.inr h
  · exact absurd h hc

/-- one step of matching `U…` against an escape-free name followed by a non-name character: the
letter expression consumes exactly the first character of the name, which must be the letter -/
theorem walk_nil (a K : Re) (U u : Nat) (ha : letterOK a U u = true) (hU : isNmChar U = true)
    (hu : isNmChar u = true) (run rest : Text) (hrun : ∀ x ∈ run, isNmChar x = true) (hrest : NameStop rest)
    (hK : ∀ c run', run = c :: run' → (c = U ∨ c = u) → ms K (run' ++ rest) = []) :
    ms (.seq a K) (run ++ rest) = [] := by
  have hnil : ms a [] = [] := by
    simp only [letterOK, Bool.and_eq_true] at ha
    exact oneOrBs_nil a ha.1.1
  rw [ms_seq]
  apply flatMap_eq_nil_of_forall
  intro t ht
  cases run with
  | nil =>
    rw [List.nil_append] at ht
    cases rest with
    | nil => rw [hnil] at ht; cases ht
    | cons d r =>
      have hd := hrest d (by simp)
      have := (letterOK_spec a U u ha d r hd.2 t ht).2
      rcases this with rfl | rfl
      · rw [hU] at hd; cases hd.1
      · rw [hu] at hd; cases hd.1
  | cons c run' =>
    rw [List.cons_append] at ht
    have hc := (nmchar_facts (hrun c List.mem_cons_self)).1
    have := letterOK_spec a U u ha c (run' ++ rest) hc t ht
    rw [this.1]
    exact hK c run' rfl this.2

def lparR : Re := .cls false [(40, 40)]
def plusR : Re := .cls false [(43, 43)]

theorem test_lpar : IsTest lparR (fun c => c == 40) :=
  (isTest_cls _ _).congr (fun c => by
    rw [Bool.eq_iff_iff]; simp [clsMatch, inRanges]; omega)

theorem test_plus : IsTest plusR (fun c => c == 43) :=
  (isTest_cls _ _).congr (fun c => by
    rw [Bool.eq_iff_iff]; simp [clsMatch, inRanges]; omega)

/-- `U R L \( …` does not match an escape-free name followed by a non-name character, unless the
name is `url` (any case) and the character is `(` -/
theorem uri_nil (a b c k : Re) (ha : letterOK a 85 117 = true) (hb : letterOK b 82 114 = true)
    (hc : letterOK c 76 108 = true) (run rest : Text) (hrun : ∀ x ∈ run, isNmChar x = true)
    (hrest : NameStop rest)
    (hurl : lowerT run = [117, 114, 108] → ∀ d ∈ rest.head?, (d == 40) = false) :
    ms (.seq a (.seq b (.seq c (.seq lparR k)))) (run ++ rest) = [] := by
  apply walk_nil a _ 85 117 ha (by decide) (by decide) run rest hrun hrest
  intro x1 run1 h1 hx1
  have hrun1 : ∀ x ∈ run1, isNmChar x = true := fun x hx => hrun x (by rw [h1]; exact List.mem_cons_of_mem _ hx)
  apply walk_nil b _ 82 114 hb (by decide) (by decide) run1 rest hrun1 hrest
  intro x2 run2 h2 hx2
  have hrun2 : ∀ x ∈ run2, isNmChar x = true := fun x hx => hrun1 x (by rw [h2]; exact List.mem_cons_of_mem _ hx)
  apply walk_nil c _ 76 108 hc (by decide) (by decide) run2 rest hrun2 hrest
  intro x3 run3 h3 hx3
  apply test_lpar.seq_stop
  cases run3 with
  | nil =>
    rw [List.nil_append]
    apply hurl
    rw [h1, h2, h3]
    rcases hx1 with rfl | rfl <;> rcases hx2 with rfl | rfl <;> rcases hx3 with rfl | rfl <;> decide
  | cons y ys =>
    intro d hd
    simp at hd; subst hd
    have := (nmchar_facts (hrun2 y (by rw [h3]; simp))).2.1
    simpa using this

/-- `U \+ …` does not match an escape-free name followed by a non-name character, unless the name
is `u`/`U` and the character is `+` -/
theorem urange_nil (a k : Re) (ha : letterOK a 85 117 = true) (run rest : Text)
    (hrun : ∀ x ∈ run, isNmChar x = true) (hrest : NameStop rest)
    (hplus : lowerT run = [117] → ∀ d ∈ rest.head?, (d == 43) = false) :
    ms (.seq a (.seq plusR k)) (run ++ rest) = [] := by
  apply walk_nil a _ 85 117 ha (by decide) (by decide) run rest hrun hrest
  intro x1 run1 h1 hx1
  apply test_plus.seq_stop
  cases run1 with
  | nil =>
    rw [List.nil_append]
    apply hplus
    rw [h1]
    rcases hx1 with rfl | rfl <;> decide
  | cons y ys =>
    intro d hd
    simp at hd; subst hd
    have := (nmchar_facts (hrun y (by rw [h1]; simp))).2.2.1
    simpa using this

/-! ### productions around names -/

/-- `{s}+` -/
def sRe : Re := .seq wsR (.star wsR)
/-- `-?{nmstart}{nmchar}*\(` -/
def funcRe (X : Re) : Re := .seq (.opt minusR) (.seq (nmstartRe X) (.seq (.star (nmcharRe X)) lparR))
/-- `#{nmchar}+` -/
def hashRe (X : Re) : Re := .seq (.cls false [(35, 35)]) (.seq (nmcharRe X) (.star (nmcharRe X)))
/-- `@-?{nmstart}{nmchar}*` -/
def atRe (X : Re) : Re := .seq (.cls false [(64, 64)]) (identRe X)

theorem identLex_nmchars (m : Bool) (u : Nat) (us : Text) (hu : isNmStart u = true)
    (hus : ∀ x ∈ us, isNmChar x = true) : ∀ x ∈ identLex m u us, isNmChar x = true := by
  intro x hx
  unfold identLex at hx
  rcases List.mem_append.mp hx with h | h
  · cases m <;> simp at h
    subst h; decide
  · rcases List.mem_cons.mp h with rfl | h
    · simp [isNmChar, hu]
    · exact hus x h

/-- FUNCTION on an identifier followed by `(` -/
theorem ms_func (X : Re) (m : Bool) (u : Nat) (us rest : Text) (hu : isNmStart u = true)
    (hus : ∀ x ∈ us, isNmChar x = true) :
    ms (funcRe X) (identLex m u us ++ 40 :: rest) = [rest] := by
  have hstop : NameStop (40 :: rest) := by intro d hd; simp at hd; subst hd; decide
  have hbody : ms (.seq (nmstartRe X) (.seq (.star (nmcharRe X)) lparR)) (u :: (us ++ 40 :: rest)) = [rest] := by
    rw [ms_seq_single _ _ _ _ ((test_nmstart X).pos (nmstart_facts hu).1 hu _), ms_seq,
      ms_nmchars X us (40 :: rest) hus hstop, backoffs_flatMap]
    · exact test_lpar.pos (by rfl) rest
    · intro c hc post
      exact test_lpar.neg (by simpa using (nmchar_facts (hus c hc)).2.1) post
  unfold funcRe identLex
  cases m with
  | false =>
    simp only [Bool.false_eq_true, if_false, List.nil_append, List.cons_append]
    rw [ms_seq_single _ _ _ _ (test_minus.opt_stop _ (by simpa using (nmstart_facts hu).2.1)), hbody]
  | true =>
    simp only [if_true, List.cons_append, List.nil_append]
    rw [ms_seq, test_minus.opt_pos (by rfl)]
    have h45 : ms (.seq (nmstartRe X) (.seq (.star (nmcharRe X)) lparR)) (45 :: u :: (us ++ 40 :: rest)) = [] :=
      ms_seq_nil_left _ _ _ ((test_nmstart X).stop _ (by simp [isNmStart]))
    simp [hbody, h45]

/-- HASH on `#` and a run of name characters -/
theorem ms_hash (X : Re) (n : Nat) (ns rest : Text) (hn : isNmChar n = true)
    (hns : ∀ x ∈ ns, isNmChar x = true) (hrest : NameStop rest) :
    ms (hashRe X) (35 :: n :: (ns ++ rest)) = backoffs ns rest := by
  unfold hashRe
  rw [ms_seq_single _ _ _ _ ((isTest_cls false [(35, 35)]).pos (by decide) _),
    ms_seq_single _ _ _ _ ((test_nmchar X).pos (nmchar_facts hn).1 hn _)]
  exact ms_nmchars X ns rest hns hrest

/-- ATKEYWORD on `@` and an escape-free identifier -/
theorem ms_at (X : Re) (m : Bool) (u : Nat) (us rest : Text) (hu : isNmStart u = true)
    (hus : ∀ x ∈ us, isNmChar x = true) (hrest : NameStop rest) :
    ms (atRe X) (64 :: (identLex m u us ++ rest)) = backoffs us rest := by
  unfold atRe
  rw [ms_seq_single _ _ _ _ ((isTest_cls false [(64, 64)]).pos (by decide) _)]
  exact ms_ident X m u us rest hu hus hrest

/-! ### what cannot start with `--` (for CDC) -/

/-- `-?{nmstart}…` fails on a text that does not start like an identifier -/
theorem minus_nmstart_nil (X K : Re) (t : Text) (h : identStart t = false) :
    ms (.seq (.opt minusR) (.seq (nmstartRe X) K)) t = [] := by
  have hn : ∀ r : Text, nameStart r = false → ms (.seq (nmstartRe X) K) r = [] := by
    intro r hr
    apply ms_seq_nil_left
    apply (test_nmstart X).stop
    intro d hd
    cases r with
    | nil => cases hd
    | cons x r' =>
      simp at hd; subst hd
      simpa [nameStart] using hr
  cases t with
  | nil =>
    rw [ms_seq_single _ _ _ _ (test_minus.opt_stop [] (by simp))]
    exact hn [] rfl
  | cons d r =>
    simp only [identStart] at h
    by_cases hd : d = 45
    · subst hd
      simp only [if_true] at h
      rw [ms_seq, test_minus.opt_pos (by rfl)]
      simp [hn r h, hn (45 :: r) (by simp [nameStart, isNmStart])]
    · simp only [hd, if_false] at h
      rw [ms_seq_single _ _ _ _ (test_minus.opt_stop _ (by simpa using hd))]
      exact hn _ h

/-- the number expression fails on a sign that is not followed by a digit or a dot -/
theorem num_nil_sign (x : Nat) (t : Text) (hx : isSign x = true)
    (h : ∀ d ∈ t.head?, isDigit d = false ∧ (d == 46) = false) : ms numRe (x :: t) = [] := by
  have hu : ∀ r : Text, (∀ d ∈ r.head?, isDigit d = false ∧ (d == 46) = false) →
      ms (.seq (.star dg) (.seq dotR (.seq dg (.star dg)))) r = [] ∧ ms (.seq dg (.star dg)) r = [] := by
    intro r hr
    constructor
    · rw [ms_seq_single _ _ _ _ (test_dg.star_stop r (fun d hd => (hr d hd).1))]
      exact test_dot.seq_stop _ _ (fun d hd => (hr d hd).2)
    · exact test_dg.seq_stop _ _ (fun d hd => (hr d hd).1)
  have hxs : ∀ d ∈ (x :: t).head?, isDigit d = false ∧ (d == 46) = false := by
    intro d hd
    simp at hd; subst hd
    simp only [isSign, Bool.or_eq_true, decide_eq_true_eq] at hx
    simp [isDigit]; omega
  unfold numRe
  rw [ms_alt, ms_seq, ms_seq, test_sgn.opt_pos hx]
  simp [(hu t h).1, (hu t h).2, (hu _ hxs).1, (hu _ hxs).2]

/-! ### comments -/

def starC : Re := .cls false [(42, 42)]
def notStarC : Re := .cls true [(42, 42)]
def notSlashStarC : Re := .cls true [(47, 47), (42, 42)]
/-- `[^/*][^*]*\*+` -/
def grpRe : Re := .seq notSlashStarC (.seq (.star notStarC) (.seq starC (.star starC)))
/-- `([^/*][^*]*\*+)*\/` -/
def cTail : Re := .seq (.star grpRe) slashR
/-- `\**([^/*][^*]*\*+)*\/` -/
def cV : Re := .seq (.star starC) cTail
/-- `[^*]*\*\**([^/*][^*]*\*+)*\/` -/
def cW : Re := .seq (.star notStarC) (.seq starC cV)
/-- `\/\*[^*]*\*+([^/*][^*]*\*+)*\/` -/
def commentRe : Re := .seq slashR (.seq starC cW)

theorem test_star : IsTest starC (fun c => c == 42) :=
  (isTest_cls _ _).congr (fun c => by
    rw [Bool.eq_iff_iff]; simp [clsMatch, inRanges]; omega)

theorem test_nstar : IsTest notStarC (fun c => c != 42) :=
  (isTest_cls _ _).congr (fun c => by
    rw [Bool.eq_iff_iff]; simp [clsMatch, inRanges]; omega)

theorem test_nss : IsTest notSlashStarC (fun c => c != 47 && c != 42) :=
  (isTest_cls _ _).congr (fun c => by
    rw [Bool.eq_iff_iff]; simp [clsMatch, inRanges]; omega)

theorem ms_seq_assoc (x y z : Re) (s : Text) : ms (.seq (.seq x y) z) s = ms (.seq x (.seq y z)) s := by
  rw [ms_seq, ms_seq, ms_seq, List.flatMap_assoc]
  apply flatMap_congr'
  intro t _
  rw [ms_seq]

/-- `a*` on a character that `a` consumes -/
theorem star_cons (a : Re) (hn : nullable a = false) (c : Nat) (s : Text) (h : ms a (c :: s) = [s]) :
    ms (.star a) (c :: s) = ms (.star a) s ++ [c :: s] := by
  rw [ms_star_unroll a hn (c :: s), h]
  simp

theorem grp_cTail (c : Nat) (t : Text) :
    ms (.seq grpRe cTail) (c :: t) = if (c != 47 && c != 42) = true then ms cW t else [] := by
  unfold grpRe
  rw [ms_seq_assoc, ms_seq, test_nss.cons]
  split
  · simp only [List.flatMap_cons, List.flatMap_nil, List.append_nil]
    rw [ms_seq_assoc]
    unfold cW cV
    rw [ms_seq, ms_seq]
    apply flatMap_congr'
    intro u _
    rw [ms_seq_assoc]
  · rfl

theorem cTail_cons (c : Nat) (t : Text) :
    ms cTail (c :: t) = (if (c != 47 && c != 42) = true then ms cW t else []) ++
      (if (c == 47) = true then [t] else []) := by
  have hn : nullable grpRe = false := rfl
  rw [show cTail = .seq (.star grpRe) slashR from rfl, ms_star_seq_unroll grpRe slashR hn (c :: t)]
  rw [show Re.seq (.star grpRe) slashR = cTail from rfl, grp_cTail, test_slash.cons]

/-- no `*/` inside -/
def noClose : Text → Bool
  | [] => true
  | c :: t => !(c == 42 && t.head? == some 47) && noClose t

theorem comment_AB (rest : Text) : ∀ body : Text, noClose body = true →
    ms cW (body ++ 42 :: 47 :: rest) = [rest] ∧
    (body.head? ≠ some 47 → ms cV (body ++ 42 :: 47 :: rest) = [rest]) := by
  have hns : nullable notStarC = false := rfl
  have hst : nullable starC = false := rfl
  intro body
  induction body with
  | nil =>
    intro _
    constructor
    · rw [List.nil_append]
      unfold cW cV
      rw [ms_seq_single _ _ _ _ (test_nstar.star_stop _ (by simp)),
        ms_seq_single _ _ _ _ (test_star.pos (by rfl) _),
        ms_seq_single _ _ _ _ (test_star.star_stop _ (by simp)), cTail_cons]
      rfl
    · intro _
      rw [List.nil_append]
      unfold cV
      rw [ms_seq, star_cons starC hst 42 _ (test_star.pos (by rfl) _), test_star.star_stop _ (by simp)]
      simp [cTail_cons]
  | cons c b ih =>
    intro hnc
    simp only [noClose, Bool.and_eq_true, Bool.not_eq_true', Bool.and_eq_false_iff, beq_eq_false_iff_ne] at hnc
    obtain ⟨hA, hB⟩ := ih hnc.2
    have hb47 : c = 42 → b.head? ≠ some 47 := by
      intro hc
      rcases hnc.1 with h | h
      · exact absurd hc h
      · simpa using h
    constructor
    · rw [List.cons_append]
      by_cases hc : c = 42
      · subst hc
        unfold cW
        rw [ms_seq_single _ _ _ _ (test_nstar.star_stop _ (by simp)),
          ms_seq_single _ _ _ _ (test_star.pos (by rfl) _)]
        exact hB (hb47 rfl)
      · have hcw : ms cW (c :: (b ++ 42 :: 47 :: rest)) =
            ms cW (b ++ 42 :: 47 :: rest) ++ ms (.seq starC cV) (c :: (b ++ 42 :: 47 :: rest)) := by
          unfold cW
          rw [ms_seq, star_cons notStarC hns c _ (test_nstar.pos (by simpa using hc) _), List.flatMap_append,
            ← ms_seq]
          simp
        rw [hcw, hA, test_star.seq_stop _ _ (by simpa using hc)]
        rfl
    · intro h47
      have hc47 : c ≠ 47 := by simpa using h47
      rw [List.cons_append]
      by_cases hc : c = 42
      · subst hc
        have hcv : ms cV (42 :: (b ++ 42 :: 47 :: rest)) =
            ms cV (b ++ 42 :: 47 :: rest) ++ ms cTail (42 :: (b ++ 42 :: 47 :: rest)) := by
          unfold cV
          rw [ms_seq, star_cons starC hst 42 _ (test_star.pos (by rfl) _), List.flatMap_append, ← ms_seq]
          simp
        rw [hcv, hB (hb47 rfl), cTail_cons]
        rfl
      · unfold cV
        rw [ms_seq_single _ _ _ _ (test_star.star_stop _ (by simpa using hc)), cTail_cons]
        simp [hc, hc47, hA]

/-- the comment expression on `/*`, a body without `*/`, `*/` and any continuation: exactly one
success, right after the closing `*/` -/
theorem ms_comment (body rest : Text) (h : noClose body = true) :
    ms commentRe (47 :: 42 :: (body ++ 42 :: 47 :: rest)) = [rest] := by
  unfold commentRe
  rw [ms_seq_single _ _ _ _ (test_slash.pos (by rfl) _), ms_seq_single _ _ _ _ (test_star.pos (by rfl) _)]
  exact (comment_AB rest body h).1

/-! ### escape-free strings -/

/-- `[^…] | \… | \…`: one string character -/
def strCharRe (rs : List (Nat × Nat)) (A B : Re) : Re :=
  .alt (.cls true rs) (.alt (.seq bsR A) (.seq bsR B))

theorem test_strChar (rs : List (Nat × Nat)) (A B : Re) :
    IsTestNB (strCharRe rs A B) (clsMatch true rs) := by
  constructor
  · simp [strCharRe, bsR, ms]
  · intro c s hc
    have hbs : ms bsR (c :: s) = [] := test_bs.neg (by simpa using hc) s
    unfold strCharRe
    rw [ms_alt, ms_alt, ms_seq, ms_seq, hbs]
    simp only [ms, List.flatMap_nil, List.append_nil]

def dqR : Re := .cls false [(34, 34)]
def sqR : Re := .cls false [(39, 39)]
def dqEx : List (Nat × Nat) := [(10, 10), (13, 13), (12, 12), (92, 92), (34, 34)]
def sqEx : List (Nat × Nat) := [(10, 10), (13, 13), (12, 12), (92, 92), (39, 39)]

/-- `"([^\n\r\f\\"]|\…)*" | '([^\n\r\f\\']|\…)*'` -/
def stringRe (A B : Re) : Re :=
  .alt (.seq dqR (.seq (.star (strCharRe dqEx A B)) dqR))
       (.seq sqR (.seq (.star (strCharRe sqEx A B)) sqR))

/-- a character that may appear unescaped in a string quoted with `q` -/
def isStrChar (q c : Nat) : Bool := c != 10 && c != 13 && c != 12 && c != 92 && c != q

theorem test_dq : IsTest dqR (fun c => c == 34) :=
  (isTest_cls _ _).congr (fun c => by
    rw [Bool.eq_iff_iff]; simp [clsMatch, inRanges]; omega)

theorem test_sq : IsTest sqR (fun c => c == 39) :=
  (isTest_cls _ _).congr (fun c => by
    rw [Bool.eq_iff_iff]; simp [clsMatch, inRanges]; omega)

theorem dqEx_spec (c : Nat) : clsMatch true dqEx c = isStrChar 34 c := by
  rw [Bool.eq_iff_iff]; simp [clsMatch, inRanges, dqEx, isStrChar]; omega

theorem sqEx_spec (c : Nat) : clsMatch true sqEx c = isStrChar 39 c := by
  rw [Bool.eq_iff_iff]; simp [clsMatch, inRanges, sqEx, isStrChar]; omega

/-- quote, escape-free body, quote: one success, right after the closing quote -/
theorem ms_quoted (qR : Re) (q : Nat) (hq : IsTest qR (fun c => c == q)) (hq92 : q ≠ 92)
    (rs : List (Nat × Nat)) (A B : Re) (hrs : ∀ c, clsMatch true rs c = isStrChar q c)
    (body rest : Text) (hbody : ∀ c ∈ body, isStrChar q c = true) :
    ms (.seq qR (.seq (.star (strCharRe rs A B)) qR)) (q :: (body ++ q :: rest)) = [rest] := by
  have hch : ∀ c, isStrChar q c = true → c ≠ 92 ∧ c ≠ q := by
    intro c hc
    simp only [isStrChar, Bool.and_eq_true, bne_iff_ne, ne_eq] at hc
    exact ⟨hc.1.2, hc.2⟩
  rw [ms_seq_single _ _ _ _ (hq.pos (by simp) _), ms_seq,
    (test_strChar rs A B).star_run body (q :: rest)
      (fun c hc => ⟨by rw [hrs]; exact hbody c hc, (hch c (hbody c hc)).1⟩)
      (by intro d hd; simp at hd; subst hd; exact ⟨by rw [hrs]; simp [isStrChar], hq92⟩),
    backoffs_flatMap]
  · exact hq.pos (by simp) rest
  · intro c hc post
    exact hq.neg (by simpa using (hch c (hbody c hc)).2) post

theorem ms_string_dq (A B : Re) (body rest : Text) (hbody : ∀ c ∈ body, isStrChar 34 c = true) :
    ms (stringRe A B) (34 :: (body ++ 34 :: rest)) = [rest] := by
  unfold stringRe
  rw [ms_alt, ms_quoted dqR 34 test_dq (by decide) dqEx A B dqEx_spec body rest hbody,
    test_sq.seq_stop _ _ (by simp)]
  rfl

theorem ms_string_sq (A B : Re) (body rest : Text) (hbody : ∀ c ∈ body, isStrChar 39 c = true) :
    ms (stringRe A B) (39 :: (body ++ 39 :: rest)) = [rest] := by
  unfold stringRe
  rw [ms_alt, ms_quoted sqR 39 test_sq (by decide) sqEx A B sqEx_spec body rest hbody,
    test_dq.seq_stop _ _ (by simp)]
  rfl

/-! ### signed numbers -/

theorem unsigned_nil (r : Text) (hr : ∀ d ∈ r.head?, isDigit d = false ∧ (d == 46) = false) :
    ms (.seq (.star dg) (.seq dotR (.seq dg (.star dg)))) r = [] ∧ ms (.seq dg (.star dg)) r = [] := by
  constructor
  · rw [ms_seq_single _ _ _ _ (test_dg.star_stop r (fun d hd => (hr d hd).1))]
    exact test_dot.seq_stop _ _ (fun d hd => (hr d hd).2)
  · exact test_dg.seq_stop _ _ (fun d hd => (hr d hd).1)

/-- a sign in front of an unsigned number does not change the successes of the number expression -/
theorem ms_num_sign (x : Nat) (t : Text) (hx : isSign x = true)
    (ht : ∀ d ∈ t.head?, isSign d = false) : ms numRe (x :: t) = ms numRe t := by
  have hxs : ∀ d ∈ (x :: t).head?, isDigit d = false ∧ (d == 46) = false := by
    intro d hd
    simp at hd; subst hd
    simp only [isSign, Bool.or_eq_true, decide_eq_true_eq] at hx
    simp [isDigit]; omega
  have h1 := (unsigned_nil _ hxs).1
  have h2 := (unsigned_nil _ hxs).2
  unfold numRe
  rw [ms_alt, ms_alt, ms_seq, ms_seq, ms_seq_single _ _ _ _ (test_sgn.opt_stop t ht),
    ms_seq_single _ _ _ _ (test_sgn.opt_stop t ht), test_sgn.opt_pos hx]
  simp [h1, h2]

theorem NumLex.head {num : Text} (h : NumLex num) (t : Text) :
    ∃ y r, num ++ t = y :: r ∧ (isDigit y = true ∨ y = 46) := by
  cases h with
  | int c run hc hrun => exact ⟨c, run ++ t, rfl, Or.inl hc⟩
  | dec ip f fs hip hf hfs =>
    cases ip with
    | nil => exact ⟨46, f :: fs ++ t, rfl, Or.inr rfl⟩
    | cons i is => exact ⟨i, _, rfl, Or.inl (hip i List.mem_cons_self)⟩

/-- the successes of the number expression on a signed numeric lexeme -/
theorem NumLex.res_signed {num : Text} (h : NumLex num) (x : Nat) (hx : isSign x = true) (t : Text)
    (ht : ∀ d ∈ t.head?, isDigit d = false) (hdot : 46 ∈ num ∨ dotDigit t = false) :
    NumRes (ms numRe (x :: (num ++ t))) t := by
  obtain ⟨y, r, hyr, hy⟩ := h.head t
  rw [ms_num_sign x _ hx (by
    rw [hyr]
    intro d hd
    simp at hd; subst hd
    simp only [isDigit, Bool.and_eq_true, decide_eq_true_eq] at hy
    simp [isSign]; omega)]
  exact h.res t ht hdot

theorem NumLex.res_signed_of_head {num : Text} (h : NumLex num) (x : Nat) (hx : isSign x = true)
    (y : Nat) (post : Text) (h1 : isDigit y = false) (h2 : y ≠ 46) :
    NumRes (ms numRe (x :: (num ++ y :: post))) (y :: post) := by
  refine h.res_signed x hx _ (by intro d hd; simp at hd; subst hd; exact h1) (Or.inr ?_)
  unfold dotDigit
  split
  · rename_i heq
    simp only [List.cons.injEq] at heq
    exact absurd heq.1 h2
  · rfl

theorem identStart_sign_num {num : Text} (h : NumLex num) (x : Nat) (hx : isSign x = true) (t : Text) :
    identStart (x :: (num ++ t)) = false := by
  obtain ⟨y, r, hyr, hy⟩ := h.head t
  rw [hyr]
  simp only [isSign, Bool.or_eq_true, decide_eq_true_eq] at hx
  simp only [isDigit, Bool.and_eq_true, decide_eq_true_eq] at hy
  simp only [identStart, nameStart, isNmStart]
  split <;> simp <;> omega

end CssVerif
