/-
Media queries on the combinator engine: `MQ.mediaQuery` (the engine of Model/ProdParser running the grammar of
`MediaQuery._setMediaText`) accepts exactly the language `MQ.accepts`, a six-state recursive recogniser written
from the documented grammar plus the one rule the code adds (see `accepts`).
-/
import CssVerif.Model.MediaQuery

/-! ### generic facts about the engine -/
namespace CssVerif.PP

def NP.tag : NP → Nat
  | .found _ _ => 0 | .none_ _ => 1 | .exhausted _ => 2 | .noMatch _ => 3 | .missing _ => 4 | .done _ => 5 | .spin => 6
  | .crash => 7

theorem endLoop_skip (last : Option PF) (fr : Frame) (rest : List Frame) (wf : Bool) (errs : List Err)
    (h : (fr.next none).tag = 1 ∨ (fr.next none).tag = 5) :
    endLoop last (fr :: rest) wf errs = endLoop last rest wf errs := by
  cases hn : fr.next none <;> simp [hn, NP.tag] at h <;> simp [endLoop, hn]

theorem endLoop_missing (f : PF) (fr : Frame) (rest : List Frame) (wf : Bool) (errs : List Err)
    (h : (fr.next none).tag = 4) (hm : f.mayEnd = false) :
    endLoop (some f) (fr :: rest) wf errs = endLoop (some f) rest false (.endMissing :: errs) := by
  cases hn : fr.next none <;> simp [hn, NP.tag] at h
  simp [endLoop, hn, hm]

theorem endLoop_other (last : Option PF) (fr : Frame) (rest : List Frame) (wf : Bool) (errs : List Err)
    (h : (fr.next none).tag = 3) :
    endLoop last (fr :: rest) wf errs = endLoop last rest false (.endOther :: errs) := by
  cases hn : fr.next none <;> simp [hn, NP.tag] at h
  simp [endLoop, hn]

theorem endLoop_false (last : Option PF) (stack : List Frame) (errs : List Err) :
    (endLoop last stack false errs).1 = false := by
  induction stack generalizing errs with
  | nil => simp [endLoop]
  | cons fr rest ih =>
    cases hn : fr.next none <;> simp [endLoop, hn, ih]
    cases last with
    | none => simp [ih]
    | some f => by_cases hm : f.mayEnd = true <;> simp [hm, ih]

theorem finish_false (cfg : Cfg) (st : LS) (toks : List Tok) (h : st.wf = false) : (finish cfg st toks).wf = false := by
  unfold finish
  have h1 : (endLoop st.last st.stack st.wf st.errs).1 = false := by rw [h]; exact endLoop_false _ _ _
  by_cases hs : st.stopall = true
  · simp only [hs, if_true]; split <;> (try split) <;> (try split) <;> simp_all
  · simp only [hs]
    generalize hE : endLoop st.last st.stack st.wf st.errs = e at h1
    obtain ⟨w, er, stt⟩ := e
    simp at h1; subst h1
    simp; split <;> (try split) <;> (try split) <;> simp_all

/-! ### one turn of the token loop, for a parse started from a string with the value hook of media queries -/

/-- the configuration of `MediaQuery(text)`: top level, tokens from the global tokenizer -/
def cfgG (tl g : Bool) (d : Nat) : Cfg := { toplevel := tl, global := g, dfuel := d }

abbrev cfgS (d : Nat) : Cfg := cfgG true true d

/-- the loop state between two tokens while nothing has gone wrong -/
structure Ready (st : LS) : Prop where
  saved : st.saved = []
  filt : st.filt = none
  pushed : st.pushed = []
  defaultS : st.defaultS = true
  stopall : st.stopall = false
  wf : st.wf = true

/-- flags of a Prod after which the loop simply goes on -/
structure Plain (f : PF) : Prop where
  stop : f.stop = false
  sak : f.stopAndKeep = false
  nextSor : f.nextSor = false
  mayEnd : f.mayEnd = false
  toSeq : f.toSeq ≠ .drop

theorem loop_comment (hook : Hook) (tl g : Bool) (d n : Nat) (st : LS) (t : Tok) (ts : List Tok) (hr : Ready st) (hk : t.kind = .comment) :
    loop hook (cfgG tl g d) (n + 1) st (t :: ts) = loop hook (cfgG tl g d) n { st with items := .comment :: st.items } ts := by
  obtain ⟨h1, h2, h3, h4, h5, h6⟩ := hr
  cases st; cases g <;> simp_all [loop, readTok, cfgG]

theorem loop_space (hook : Hook) (tl g : Bool) (d n : Nat) (st : LS) (t : Tok) (ts : List Tok) (hr : Ready st) (hk : t.kind = .s) :
    loop hook (cfgG tl g d) (n + 1) st (t :: ts) = loop hook (cfgG tl g d) n st ts := by
  obtain ⟨h1, h2, h3, h4, h5, h6⟩ := hr
  cases st; cases g <;> simp_all [loop, readTok, cfgG]

theorem loop_invalid (hook : Hook) (tl g : Bool) (d n : Nat) (st : LS) (t : Tok) (ts : List Tok) (hr : Ready st) (hk : t.kind = .invalid) :
    (loop hook (cfgG tl g d) (n + 1) st (t :: ts)).wf = false := by
  obtain ⟨h1, h2, h3, h4, h5, h6⟩ := hr
  cases st; cases g <;> simp_all [loop, readTok, cfgG] <;> exact finish_false _ _ _ rfl

/-- a token that reaches the descent -/
structure Real (t : Tok) : Prop where
  nc : t.kind ≠ .comment
  ns : t.kind ≠ .s
  ni : t.kind ≠ .invalid
  ne : t.kind ≠ .eof

theorem loop_prod (tl g : Bool) (d n : Nat) (st : LS) (t : Tok) (ts : List Tok) (hr : Ready st) (hk : Real t) (f : PF) (stack' : List Frame)
    (hd : descend t d st.stack st.last = .prod f stack') (hp : Plain f) :
    ∃ st', loop MQ.valueHook (cfgG tl g d) (n + 1) st (t :: ts) = loop MQ.valueHook (cfgG tl g d) n st' ts ∧ Ready st' ∧
      st'.stack = stack' ∧ st'.last = some f ∧ st'.simm = (f.simm || st.simm) ∧ st'.items ≠ [] := by
  obtain ⟨h1, h2, h3, h4, h5, h6⟩ := hr
  obtain ⟨k1, k2, k3, k4⟩ := hk
  obtain ⟨p1, p2, p3, p4, p5⟩ := hp
  cases st with
  | mk stack wf started defaultS simm stopall last items errs filt saved pushed =>
  simp at h1 h2 h3 h4 h5 h6 hd
  subst h1 h2 h3 h4 h5 h6
  cases hts : f.toSeq with
  | drop => exact absurd hts p5
  | keep =>
    refine ⟨{ stack := stack', wf := true, started := true, defaultS := true, simm := f.simm || simm, stopall := false,
              last := some f, items := .tok f.name t :: items, errs := errs, filt := none, saved := [], pushed := [] }, ?_,
            ⟨rfl, rfl, rfl, rfl, rfl, rfl⟩, rfl, rfl, rfl, by simp⟩
    cases g <;> simp [loop, readTok, cfgG, k1, k2, k3, k4, hd, p1, p2, p3, hts]
  | nested k =>
    refine ⟨{ stack := stack', wf := true, started := true, defaultS := true, simm := f.simm || simm, stopall := false,
              last := some f, items := .nested k true [.tok k t] :: items, errs := errs, filt := none, saved := [], pushed := [] }, ?_,
            ⟨rfl, rfl, rfl, rfl, rfl, rfl⟩, rfl, rfl, rfl, by simp⟩
    cases g <;> simp [loop, readTok, cfgG, k1, k2, k3, k4, hd, p1, p2, p3, hts, MQ.valueHook]

theorem loop_noMatch (hook : Hook) (d n : Nat) (st : LS) (t : Tok) (ts : List Tok) (hr : Ready st) (hk : Real t) (stack' : List Frame)
    (hd : descend t d st.stack st.last = .noMatch stack') :
    (loop hook (cfgS d) (n + 1) st (t :: ts)).wf = false := by
  obtain ⟨h1, h2, h3, h4, h5, h6⟩ := hr
  obtain ⟨k1, k2, k3, k4⟩ := hk
  cases st with
  | mk stack wf started defaultS simm stopall last items errs filt saved pushed =>
  simp at h1 h2 h3 h4 h5 h6 hd
  subst h1 h2 h3 h4 h5 h6
  cases simm with
  | false => simp [loop, readTok, cfgS, cfgG, k1, k2, k3, k4, hd]; exact finish_false _ _ _ rfl
  | true => simp [loop, readTok, cfgS, cfgG, k1, k2, k3, k4, hd, finish]

theorem loop_parseErr (hook : Hook) (d n : Nat) (st : LS) (t : Tok) (ts : List Tok) (hr : Ready st) (hk : Real t) (l : Option PF)
    (stack' : List Frame) (hd : descend t d st.stack st.last = .parseErr l stack') :
    (loop hook (cfgS d) (n + 1) st (t :: ts)).wf = st.simm := by
  obtain ⟨h1, h2, h3, h4, h5, h6⟩ := hr
  obtain ⟨k1, k2, k3, k4⟩ := hk
  cases st with
  | mk stack wf started defaultS simm stopall last items errs filt saved pushed =>
  simp at h1 h2 h3 h4 h5 h6 hd
  subst h1 h2 h3 h4 h5 h6
  cases simm with
  | false => simp [loop, readTok, cfgS, cfgG, k1, k2, k3, k4, hd]; exact finish_false _ _ _ rfl
  | true => simp [loop, readTok, cfgS, cfgG, k1, k2, k3, k4, hd, finish]

theorem loop_nil (hook : Hook) (tl g : Bool) (d n : Nat) (st : LS) (hr : Ready st) :
    loop hook (cfgG tl g d) (n + 1) st [] = finish (cfgG tl g d) st [] := by
  obtain ⟨h1, h2, h3, h4, h5, h6⟩ := hr
  cases st; cases g <;> simp_all [loop, readTok, cfgG]

theorem finish_wf (d : Nat) (st : LS) (toks : List Tok) (hr : Ready st) (hi : st.items ≠ []) :
    (finish (cfgS d) st toks).wf = (endLoop st.last st.stack true st.errs).1 := by
  obtain ⟨h1, h2, h3, h4, h5, h6⟩ := hr
  cases st with
  | mk stack wf started defaultS simm stopall last items errs filt saved pushed =>
  simp at h1 h2 h3 h4 h5 h6 hi
  subst h1 h2 h3 h4 h5 h6
  simp only [finish, cfgS, cfgG]
  generalize endLoop last stack true errs = e
  obtain ⟨w, er, stt⟩ := e
  cases items with
  | nil => exact absurd rfl hi
  | cons it its => by_cases hs : stt = .ok <;> simp [hs]

theorem finish_endfalse (d : Nat) (st : LS) (toks : List Tok) (hr : Ready st)
    (h : (endLoop st.last st.stack true st.errs).1 = false) : (finish (cfgS d) st toks).wf = false := by
  obtain ⟨h1, h2, h3, h4, h5, h6⟩ := hr
  cases st with
  | mk stack wf started defaultS simm stopall last items errs filt saved pushed =>
  simp at h1 h2 h3 h4 h5 h6 h
  subst h1 h2 h3 h4 h5 h6
  simp only [finish, cfgS, cfgG]
  generalize endLoop last stack true errs = e at h
  obtain ⟨w, er, stt⟩ := e
  simp at h; subst h
  by_cases hs : stt = .ok <;> simp [hs]
  split <;> simp

end CssVerif.PP

namespace CssVerif.PP.MQ
open CssVerif.PP

/-! ### the token tests of the grammar -/

def pAnd : Pred := .kindVal .ident tAnd
def pOnlyNot : Pred := .kindValIn .ident [tOnly, tNot]
def pKnown : Pred := .kindValIn .ident mediaTypes
def pIdent : Pred := .kind .ident
def pLpar : Pred := .val tLpar
def pRpar : Pred := .val tRpar
def pColon : Pred := .val tColon
def pColor (colors : List Text) : Pred := .or .hexcolor (.or (.kindValIn .function colorFns) (.kindValIn .ident colors))
def pDim : Pred := .kindIn [.dimension, .number, .percentage]
def pVal : Pred := .kindIn [.ident, .string, .urange]
def pRatio : Pred := .kind .ratio

/-! ### the grammar as named pieces (definitionally the terms of Model/MediaQuery) -/

def fOpen : PF := { name := nOpen }
def fFeature : PF := { name := nFeature }
def fColon : PF := { name := nColon }
def fClose (partof : Bool) : PF := { name := nClose, simm := partof }
def fAnd : PF := { name := nAnd }
def fOnlyNot : PF := { name := nOnlyNot, optional := true }
def fType (known : Bool) : PF := { name := nType, simm := known }

def valueItems (colors : List Text) : GL :=
  .cons (.prod { name := nColor, toSeq := .nested nColor } (pColor colors))
  (.cons (.prod { name := nDim, toSeq := .nested nDim } pDim)
  (.cons (.prod { name := nValue, toSeq := .nested nValue } pVal)
  (.cons (.prod { name := nRatio } pRatio) .nil)))

def colonItems (colors : List Text) : GL :=
  .cons (.prod fColon pColon) (.cons (.choice (valueItems colors) none) .nil)

def exprItems (partof : Bool) (colors : List Text) : GL :=
  .cons (.prod fOpen pLpar)
  (.cons (.prod fFeature pIdent)
  (.cons (.seq (colonItems colors) 0 (some 1))
  (.cons (.prod (fClose partof) pRpar) .nil)))

def andItems (partof : Bool) (colors : List Text) : GL :=
  .cons (.prod fAnd pAnd) (.cons (.seq (exprItems partof colors) 1 (some 1)) .nil)

def typeItems (known : Bool) (partof : Bool) (colors : List Text) : GL :=
  .cons (.prod fOnlyNot pOnlyNot)
  (.cons (.prod (fType known) (if known then pKnown else pIdent))
  (.cons (.seq (andItems partof colors) 0 none) .nil))

def exprFirstItems (partof : Bool) (colors : List Text) : GL :=
  .cons (.seq (exprItems partof colors) 1 (some 1)) (.cons (.seq (andItems partof colors) 0 none) .nil)

def rootItems (partof : Bool) (colors : List Text) : GL :=
  .cons (.seq (typeItems true partof colors) 1 (some 1))
  (.cons (.seq (exprFirstItems partof colors) 1 (some 1))
  (.cons (.seq (typeItems false partof colors) 1 (some 1)) .nil))

theorem grammar_eq (partof : Bool) (colors : List Text) : grammar partof colors = .choice (rootItems partof colors) none := rfl

/-! ### frames -/

abbrev fV (c : List Text) (ex : Bool) : Frame := .choice (valueItems c) none ex
abbrev fC (c : List Text) (i r : Nat) (s : Bool) : Frame := .seq (colonItems c) 0 (some 1) i r s
abbrev fE (p : Bool) (c : List Text) (i r : Nat) (s : Bool) : Frame := .seq (exprItems p c) 1 (some 1) i r s
abbrev fA (p : Bool) (c : List Text) (i r : Nat) (s : Bool) : Frame := .seq (andItems p c) 0 none i r s
abbrev fT (k p : Bool) (c : List Text) (i r : Nat) (s : Bool) : Frame := .seq (typeItems k p c) 1 (some 1) i r s
abbrev fX (p : Bool) (c : List Text) (i r : Nat) (s : Bool) : Frame := .seq (exprFirstItems p c) 1 (some 1) i r s
abbrev fR (p : Bool) (c : List Text) (ex : Bool) : Frame := .choice (rootItems p c) none ex

/-! ### `nextProd` of every frame of the grammar, for a token and for `None` -/

def isValue (c : List Text) (t : Tok) : Bool := (pColor c).eval t || (pDim.eval t || (pVal.eval t || pRatio.eval t))

macro "ppsimp" : tactic => `(tactic|
  simp [Frame.next, seqNext, choiceNext, ltMax, GL.length, GL.get?, GL.firstMatch, GL.anyOptional, G.matchesO, G.matches,
    GL.seqMatches, GL.choiceMatches, G.optional, exprItems, colonItems, valueItems, andItems, typeItems, exprFirstItems,
    rootItems, fOpen, fFeature, fColon, fClose, fAnd, fOnlyNot, fType, isValue, fV, fC, fE, fA, fT, fX, fR])

macro "ppsimp" "[" ts:Lean.Parser.Tactic.simpLemma,* "]" : tactic => `(tactic|
  simp [Frame.next, seqNext, choiceNext, ltMax, GL.length, GL.get?, GL.firstMatch, GL.anyOptional, G.matchesO, G.matches,
    GL.seqMatches, GL.choiceMatches, G.optional, exprItems, colonItems, valueItems, andItems, typeItems, exprFirstItems,
    rootItems, fOpen, fFeature, fColon, fClose, fAnd, fOnlyNot, fType, isValue, fV, fC, fE, fA, fT, fX, fR, $ts,*])

variable (p : Bool) (c : List Text) (t : Tok)

theorem nE0 : (fE p c 0 0 false).next (some t) =
    if pLpar.eval t then .found (.prod fOpen pLpar) (fE p c 1 0 true) else .missing (fE p c 1 0 false) := by ppsimp
theorem nE1 (s : Bool) : (fE p c 1 0 s).next (some t) =
    if pIdent.eval t then .found (.prod fFeature pIdent) (fE p c 2 0 true) else .missing (fE p c 2 0 s) := by ppsimp
theorem nE2 (s : Bool) : (fE p c 2 0 s).next (some t) =
    if pColon.eval t then .found (.seq (colonItems c) 0 (some 1)) (fE p c 3 0 true)
    else if pRpar.eval t then .found (.prod (fClose p) pRpar) (fE p c 0 1 true) else .missing (fE p c 0 1 s) := by ppsimp
theorem nE3 (s : Bool) : (fE p c 3 0 s).next (some t) =
    if pRpar.eval t then .found (.prod (fClose p) pRpar) (fE p c 0 1 true) else .missing (fE p c 0 1 s) := by ppsimp
theorem nEend (s : Bool) (o : Option Tok) : (fE p c 0 1 s).next o =
    if o.isSome then .exhausted (fE p c 0 1 s) else .none_ (fE p c 0 1 s) := by ppsimp

theorem nC0 : (fC c 0 0 false).next (some t) =
    if pColon.eval t then .found (.prod fColon pColon) (fC c 1 0 true) else .noMatch (fC c 1 0 false) := by ppsimp
theorem nC1 : (fC c 1 0 true).next (some t) =
    if isValue c t then .found (.choice (valueItems c) none) (fC c 0 1 true) else .missing (fC c 0 1 true) := by ppsimp
theorem nCend (s : Bool) (o : Option Tok) : (fC c 0 1 s).next o =
    if o.isSome then .exhausted (fC c 0 1 s) else .none_ (fC c 0 1 s) := by ppsimp

theorem nVend (o : Option Tok) : (fV c true).next o = if o.isSome then .exhausted (fV c true) else .none_ (fV c true) := by ppsimp

theorem nA0 (r : Nat) (s : Bool) : (fA p c 0 r s).next (some t) =
    if pAnd.eval t then .found (.prod fAnd pAnd) (fA p c 1 r true) else .noMatch (fA p c 1 r false) := by ppsimp
theorem nA1 (r : Nat) : (fA p c 1 r true).next (some t) =
    if pLpar.eval t then .found (.seq (exprItems p c) 1 (some 1)) (fA p c 0 (r + 1) true) else .missing (fA p c 0 (r + 1) true) := by
  ppsimp

theorem nT0 (k : Bool) : (fT k p c 0 0 false).next (some t) =
    if pOnlyNot.eval t then .found (.prod fOnlyNot pOnlyNot) (fT k p c 1 0 true)
    else if (if k then pKnown else pIdent).eval t then .found (.prod (fType k) (if k then pKnown else pIdent)) (fT k p c 2 0 true)
    else .missing (fT k p c 2 0 false) := by ppsimp
theorem nT1 (k s : Bool) : (fT k p c 1 0 s).next (some t) =
    if (if k then pKnown else pIdent).eval t then .found (.prod (fType k) (if k then pKnown else pIdent)) (fT k p c 2 0 true)
    else .missing (fT k p c 2 0 s) := by ppsimp
theorem nT2 (k s : Bool) : (fT k p c 2 0 s).next (some t) =
    if pAnd.eval t then .found (.seq (andItems p c) 0 none) (fT k p c 0 1 true) else .exhausted (fT k p c 0 1 s) := by ppsimp
theorem nTend (k s : Bool) (o : Option Tok) : (fT k p c 0 1 s).next o =
    if o.isSome then .exhausted (fT k p c 0 1 s) else .none_ (fT k p c 0 1 s) := by ppsimp

theorem nX0 : (fX p c 0 0 false).next (some t) =
    if pLpar.eval t then .found (.seq (exprItems p c) 1 (some 1)) (fX p c 1 0 true) else .missing (fX p c 1 0 false) := by ppsimp
theorem nX1 (s : Bool) : (fX p c 1 0 s).next (some t) =
    if pAnd.eval t then .found (.seq (andItems p c) 0 none) (fX p c 0 1 true) else .exhausted (fX p c 0 1 s) := by ppsimp
theorem nXend (s : Bool) (o : Option Tok) : (fX p c 0 1 s).next o =
    if o.isSome then .exhausted (fX p c 0 1 s) else .none_ (fX p c 0 1 s) := by ppsimp

theorem nR0 : (fR p c false).next (some t) =
    if pOnlyNot.eval t || pKnown.eval t then .found (.seq (typeItems true p c) 1 (some 1)) (fR p c true)
    else if pLpar.eval t then .found (.seq (exprFirstItems p c) 1 (some 1)) (fR p c true)
    else if pOnlyNot.eval t || pIdent.eval t then .found (.seq (typeItems false p c) 1 (some 1)) (fR p c true)
    else .noMatch (fR p c false) := by
  by_cases h1 : pOnlyNot.eval t = true <;> by_cases h2 : pKnown.eval t = true <;> by_cases h3 : pLpar.eval t = true <;>
    by_cases h4 : pIdent.eval t = true <;> ppsimp [h1, h2, h3, h4]
theorem nRend (o : Option Tok) : (fR p c true).next o = if o.isSome then .exhausted (fR p c true) else .none_ (fR p c true) := by
  ppsimp

/-- the Prod of `MediaQueryValueProd` that takes `t` -/
def vF (c : List Text) (t : Tok) : PF :=
  if (pColor c).eval t then { name := nColor, toSeq := .nested nColor }
  else if pDim.eval t then { name := nDim, toSeq := .nested nDim }
  else if pVal.eval t then { name := nValue, toSeq := .nested nValue }
  else { name := nRatio }

def vM (c : List Text) (t : Tok) : Pred :=
  if (pColor c).eval t then pColor c else if pDim.eval t then pDim else if pVal.eval t then pVal else pRatio

theorem nV0 (h : isValue c t = true) : (fV c false).next (some t) = .found (.prod (vF c t) (vM c t)) (fV c true) := by
  by_cases h1 : (pColor c).eval t = true <;> by_cases h2 : pDim.eval t = true <;> by_cases h3 : pVal.eval t = true <;>
    by_cases h4 : pRatio.eval t = true <;> simp [isValue, h1, h2, h3, h4] at h <;> ppsimp [vF, vM, h1, h2, h3, h4]

/- `nextProd(None)` -/
theorem eE (i : Nat) (s : Bool) (hi : i = 1 ∨ i = 2 ∨ i = 3) : ((fE p c i 0 s).next none).tag = 4 := by
  rcases hi with h | h | h <;> subst h <;> ppsimp [NP.tag]
theorem eEend (s : Bool) : ((fE p c 0 1 s).next none).tag = 1 := by ppsimp [NP.tag]
theorem eC1 : ((fC c 1 0 true).next none).tag = 4 := by ppsimp [NP.tag]
theorem eCend (s : Bool) : ((fC c 0 1 s).next none).tag = 1 := by ppsimp [NP.tag]
theorem eVend : ((fV c true).next none).tag = 1 := by ppsimp [NP.tag]
theorem eA0 (r : Nat) (s : Bool) : ((fA p c 0 r s).next none).tag = 5 := by ppsimp [NP.tag]
theorem eA1 (r : Nat) : ((fA p c 1 r true).next none).tag = 4 := by ppsimp [NP.tag]
theorem eT1 (k s : Bool) : ((fT k p c 1 0 s).next none).tag = 4 := by ppsimp [NP.tag]
theorem eT2 (k s : Bool) : ((fT k p c 2 0 s).next none).tag = 1 := by ppsimp [NP.tag]
theorem eTend (k s : Bool) : ((fT k p c 0 1 s).next none).tag = 1 := by ppsimp [NP.tag]
theorem eX1 (s : Bool) : ((fX p c 1 0 s).next none).tag = 1 := by ppsimp [NP.tag]
theorem eXend (s : Bool) : ((fX p c 0 1 s).next none).tag = 1 := by ppsimp [NP.tag]
theorem eR0 : ((fR p c false).next none).tag = 3 := by ppsimp [NP.tag]
theorem eRend : ((fR p c true).next none).tag = 1 := by ppsimp [NP.tag]

/-! ### the descent in every control state -/

macro "dsimp1" "[" ts:Lean.Parser.Tactic.simpLemma,* "]" : tactic => `(tactic|
  simp [descend, fresh, nE0, nE1, nE2, nE3, nEend, nC0, nC1, nCend, nVend, nA0, nA1, nT0, nT1, nT2, nTend, nX0, nX1, nXend, nR0, nRend,
    $ts,*])

/-- the frames below an `(and expr)*` loop: the alternative it belongs to, exhausted, and the root -/
inductive Base
  | ty (k : Bool)     -- `[only|not]? type …`, `k`: the alternative with the known media types
  | ex                -- `expr …`

def Base.stack (p : Bool) (c : List Text) : Base → List Frame
  | .ty k => [fT k p c 0 1 true, fR p c true]
  | .ex => [fX p c 0 1 true, fR p c true]

theorem base_noMatch (b : Base) (n : Nat) : descend t (n + 2) (b.stack p c) none = .noMatch [fR p c true] := by
  cases b <;> dsimp1 [Base.stack]

theorem d_afterON (n : Nat) (last : Option PF) :
    descend t (n + 1) [fT true p c 1 0 true, fR p c true] last =
      if pKnown.eval t then .prod (fType true) [fT true p c 2 0 true, fR p c true]
      else .parseErr last [fT true p c 2 0 true, fR p c true] := by
  by_cases h : pKnown.eval t = true <;> dsimp1 [h]

theorem d_afterType (k : Bool) (n : Nat) (last : Option PF) :
    descend t (n + 2) [fT k p c 2 0 true, fR p c true] last =
      if pAnd.eval t then .prod fAnd (fA p c 1 0 true :: (Base.ty k).stack p c) else .noMatch [fR p c true] := by
  by_cases h : pAnd.eval t = true <;> dsimp1 [h, Base.stack]

theorem d_afterAnd (b : Base) (r n : Nat) (last : Option PF) :
    descend t (n + 2) (fA p c 1 r true :: b.stack p c) last =
      if pLpar.eval t then .prod fOpen (fE p c 1 0 true :: fA p c 0 (r + 1) true :: b.stack p c)
      else .parseErr last (fA p c 0 (r + 1) true :: b.stack p c) := by
  by_cases h : pLpar.eval t = true <;> dsimp1 [h]

theorem d_lpar (below : List Frame) (n : Nat) (last : Option PF) :
    descend t (n + 1) (fE p c 1 0 true :: below) last =
      if pIdent.eval t then .prod fFeature (fE p c 2 0 true :: below) else .parseErr last (fE p c 2 0 true :: below) := by
  by_cases h : pIdent.eval t = true <;> dsimp1 [h]

theorem d_feature (below : List Frame) (n : Nat) (last : Option PF) :
    descend t (n + 2) (fE p c 2 0 true :: below) last =
      if pColon.eval t then .prod fColon (fC c 1 0 true :: fE p c 3 0 true :: below)
      else if pRpar.eval t then .prod (fClose p) (fE p c 0 1 true :: below)
      else .parseErr last (fE p c 0 1 true :: below) := by
  by_cases h : pColon.eval t = true <;> by_cases h2 : pRpar.eval t = true <;> dsimp1 [h, h2]

theorem d_colon (below : List Frame) (n : Nat) (last : Option PF) :
    descend t (n + 2) (fC c 1 0 true :: fE p c 3 0 true :: below) last =
      if isValue c t then .prod (vF c t) (fV c true :: fC c 0 1 true :: fE p c 3 0 true :: below)
      else .parseErr last (fC c 0 1 true :: fE p c 3 0 true :: below) := by
  by_cases h : isValue c t = true
  · dsimp1 [h, nV0 c t h]
  · dsimp1 [h]

theorem d_value (below : List Frame) (n : Nat) (last : Option PF) :
    descend t (n + 3) (fV c true :: fC c 0 1 true :: fE p c 3 0 true :: below) last =
      if pRpar.eval t then .prod (fClose p) (fE p c 0 1 true :: below) else .parseErr none (fE p c 0 1 true :: below) := by
  by_cases h : pRpar.eval t = true <;> dsimp1 [h]

theorem d_rpar_and (b : Base) (r n : Nat) (last : Option PF) :
    descend t (n + 4) (fE p c 0 1 true :: fA p c 0 (r + 1) true :: b.stack p c) last =
      if pAnd.eval t then .prod fAnd (fA p c 1 (r + 1) true :: b.stack p c) else .noMatch [fR p c true] := by
  by_cases h : pAnd.eval t = true
  · dsimp1 [h]
  · have hb := base_noMatch p c t b n
    cases b <;> dsimp1 [h, Base.stack]

theorem d_rpar_first (n : Nat) (last : Option PF) :
    descend t (n + 3) [fE p c 0 1 true, fX p c 1 0 true, fR p c true] last =
      if pAnd.eval t then .prod fAnd (fA p c 1 0 true :: Base.ex.stack p c) else .noMatch [fR p c true] := by
  by_cases h : pAnd.eval t = true <;> dsimp1 [h, Base.stack]

theorem d_start (n : Nat) :
    descend t (n + 3) [fR p c false] none =
      if pOnlyNot.eval t then .prod fOnlyNot [fT true p c 1 0 true, fR p c true]
      else if pKnown.eval t then .prod (fType true) [fT true p c 2 0 true, fR p c true]
      else if pLpar.eval t then .prod fOpen [fE p c 1 0 true, fX p c 1 0 true, fR p c true]
      else if pIdent.eval t then .prod (fType false) [fT false p c 2 0 true, fR p c true]
      else .noMatch [fR p c false] := by
  by_cases h1 : pOnlyNot.eval t = true <;> by_cases h2 : pKnown.eval t = true <;> by_cases h3 : pLpar.eval t = true <;>
    by_cases h4 : pIdent.eval t = true <;> dsimp1 [h1, h2, h3, h4]

/-! ### the language, written independently of the engine

Tokens are tested with the predicates of the grammar (`pAnd` … `isValue`).  `len` ("lenient") is set when the
query began with `[only|not]? <known media type>`: then a token that does not fit *inside* an `and ( … )` part
ends the query there and the query counts as well-formed — that is the one rule of the code that the documented
grammar does not have (`stopIfNoMoreMatch` on the known media type turns `Missing` into a quiet stop). -/

def bad (t : Tok) : Bool := t.kind == .invalid

mutual
  /-- `[ AND expression ]*` up to the end of the text -/
  def andExprs (c : List Text) (len : Bool) : List Tok → Bool
    | [] => true
    | t :: ts => if bad t then false else if pAnd.eval t then afterAnd c len ts else false
  /-- after AND: `(` -/
  def afterAnd (c : List Text) (len : Bool) : List Tok → Bool
    | [] => false
    | t :: ts => if bad t then false else if pLpar.eval t then afterLpar c len ts else len
  /-- after `(`: the media feature -/
  def afterLpar (c : List Text) (len : Bool) : List Tok → Bool
    | [] => false
    | t :: ts => if bad t then false else if pIdent.eval t then afterFeature c len ts else len
  /-- after the feature: `:` value `)` or `)` -/
  def afterFeature (c : List Text) (len : Bool) : List Tok → Bool
    | [] => false
    | t :: ts =>
      if bad t then false else if pColon.eval t then afterColon c len ts else if pRpar.eval t then andExprs c len ts else len
  def afterColon (c : List Text) (len : Bool) : List Tok → Bool
    | [] => false
    | t :: ts => if bad t then false else if isValue c t then afterValue c len ts else len
  def afterValue (c : List Text) (len : Bool) : List Tok → Bool
    | [] => false
    | t :: ts => if bad t then false else if pRpar.eval t then andExprs c len ts else len
end

/-- after ONLY / NOT: a known media type -/
def afterOnlyNot (c : List Text) : List Tok → Bool
  | [] => false
  | t :: ts => if bad t then false else if pKnown.eval t then andExprs c true ts else false

/-- `media_query` as the code accepts it, over the tokens without S and COMMENT:
    `[ONLY|NOT]? known-type [AND expr]*  |  expr [AND expr]*  |  IDENT [AND expr]*` -/
def accepts (c : List Text) : List Tok → Bool
  | [] => false
  | t :: ts =>
    if bad t then false
    else if pOnlyNot.eval t then afterOnlyNot c ts
    else if pKnown.eval t then andExprs c true ts
    else if pLpar.eval t then afterLpar c false ts
    else if pIdent.eval t then andExprs c false ts
    else false

/-- S and COMMENT tokens never reach the grammar -/
def strip (toks : List Tok) : List Tok := toks.filter (fun t => t.kind != .s && t.kind != .comment)

/-! ### control states of the engine on this grammar -/

def Base.len : Base → Bool
  | .ty k => k
  | .ex => false

inductive Ctx
  | inAnd (b : Base) (r : Nat)      -- inside the `(r+1)`-th `and ( … )` of base `b`
  | first                            -- the expression that opens an `expr …` query

def Ctx.below (p : Bool) (c : List Text) : Ctx → List Frame
  | .inAnd b r => fA p c 0 (r + 1) true :: b.stack p c
  | .first => [fX p c 1 0 true, fR p c true]

def Ctx.len : Ctx → Bool
  | .inAnd b _ => b.len
  | .first => false

inductive EPos | lpar | feature | colon | value | rpar

def EPos.frames (p : Bool) (c : List Text) : EPos → List Frame
  | .lpar => [fE p c 1 0 true]
  | .feature => [fE p c 2 0 true]
  | .colon => [fC c 1 0 true, fE p c 3 0 true]
  | .value => [fV c true, fC c 0 1 true, fE p c 3 0 true]
  | .rpar => [fE p c 0 1 true]

inductive Q
  | afterON
  | afterType (k : Bool)
  | afterAnd (b : Base) (r : Nat)
  | inExpr (x : Ctx) (e : EPos)

def Q.stack (p : Bool) (c : List Text) : Q → List Frame
  | .afterON => [fT true p c 1 0 true, fR p c true]
  | .afterType k => [fT k p c 2 0 true, fR p c true]
  | .afterAnd b r => fA p c 1 r true :: b.stack p c
  | .inExpr x e => e.frames p c ++ x.below p c

/-- `stopIfNoMoreMatch` in that state (top-level query: only the known media type sets it) -/
def Q.len : Q → Bool
  | .afterON => false
  | .afterType k => k
  | .afterAnd b _ => b.len
  | .inExpr x _ => x.len

/-- what the rest of the text has to look like in that state -/
def Q.lang (c : List Text) : Q → List Tok → Bool
  | .afterON => afterOnlyNot c
  | .afterType k => andExprs c k
  | .afterAnd b _ => MQ.afterAnd c b.len
  | .inExpr x .lpar => afterLpar c x.len
  | .inExpr x .feature => afterFeature c x.len
  | .inExpr x .colon => afterColon c x.len
  | .inExpr x .value => afterValue c x.len
  | .inExpr x .rpar => andExprs c x.len

/-! ### one token: the engine and the language move alike -/

inductive Step
  | go (f : PF) (q : Q)     -- the Prod `f` takes the token
  | rej                     -- NoMatch at the bottom of the stack
  | err                     -- Missing

def Q.step (p : Bool) (c : List Text) (t : Tok) : Q → Step
  | .afterON => if pKnown.eval t then .go (fType true) (.afterType true) else .err
  | .afterType k => if pAnd.eval t then .go fAnd (.afterAnd (.ty k) 0) else .rej
  | .afterAnd b r => if pLpar.eval t then .go fOpen (.inExpr (.inAnd b r) .lpar) else .err
  | .inExpr x .lpar => if pIdent.eval t then .go fFeature (.inExpr x .feature) else .err
  | .inExpr x .feature =>
    if pColon.eval t then .go fColon (.inExpr x .colon) else if pRpar.eval t then .go (fClose p) (.inExpr x .rpar) else .err
  | .inExpr x .colon => if isValue c t then .go (vF c t) (.inExpr x .value) else .err
  | .inExpr x .value => if pRpar.eval t then .go (fClose p) (.inExpr x .rpar) else .err
  | .inExpr (.inAnd b r) .rpar => if pAnd.eval t then .go fAnd (.afterAnd b (r + 1)) else .rej
  | .inExpr .first .rpar => if pAnd.eval t then .go fAnd (.afterAnd .ex 0) else .rej

theorem vF_plain : Plain (vF c t) := by
  unfold vF; split <;> (try split) <;> (try split) <;> constructor <;> simp

theorem vF_simm : (vF c t).simm = false := by
  unfold vF; split <;> (try split) <;> (try split) <;> rfl

theorem step_go (q q' : Q) (f : PF) (last : Option PF) (h : q.step p c t = .go f q') :
    descend t 118 (q.stack p c) last = .prod f (q'.stack p c) ∧ Plain f := by
  cases q with
  | afterON =>
    simp only [Q.step] at h; split at h <;> simp at h
    obtain ⟨rfl, rfl⟩ := h
    refine ⟨by simp [Q.stack, d_afterON p c t 117 last, *], by constructor <;> simp [fType]⟩
  | afterType k =>
    simp only [Q.step] at h; split at h <;> simp at h
    obtain ⟨rfl, rfl⟩ := h
    refine ⟨by simp [Q.stack, d_afterType p c t k 116 last, *], by constructor <;> simp [fAnd]⟩
  | afterAnd b r =>
    simp only [Q.step] at h; split at h <;> simp at h
    obtain ⟨rfl, rfl⟩ := h
    refine ⟨by simp [Q.stack, d_afterAnd p c t b r 116 last, EPos.frames, Ctx.below, *], by constructor <;> simp [fOpen]⟩
  | inExpr x e =>
    cases e with
    | lpar =>
      simp only [Q.step] at h; split at h <;> simp at h
      obtain ⟨rfl, rfl⟩ := h
      refine ⟨by simp [Q.stack, EPos.frames, d_lpar p c t _ 117 last, *], by constructor <;> simp [fFeature]⟩
    | feature =>
      simp only [Q.step] at h; split at h
      · simp at h; obtain ⟨rfl, rfl⟩ := h
        refine ⟨by simp [Q.stack, EPos.frames, d_feature p c t _ 116 last, *], by constructor <;> simp [fColon]⟩
      · split at h <;> simp at h
        obtain ⟨rfl, rfl⟩ := h
        refine ⟨by simp [Q.stack, EPos.frames, d_feature p c t _ 116 last, *], by constructor <;> simp [fClose]⟩
    | colon =>
      simp only [Q.step] at h; split at h <;> simp at h
      obtain ⟨rfl, rfl⟩ := h
      refine ⟨by simp [Q.stack, EPos.frames, d_colon p c t _ 116 last, *], vF_plain c t⟩
    | value =>
      simp only [Q.step] at h; split at h <;> simp at h
      obtain ⟨rfl, rfl⟩ := h
      refine ⟨by simp [Q.stack, EPos.frames, d_value p c t _ 115 last, *], by constructor <;> simp [fClose]⟩
    | rpar =>
      cases x with
      | inAnd b r =>
        simp only [Q.step] at h; split at h <;> simp at h
        obtain ⟨rfl, rfl⟩ := h
        refine ⟨by simp [Q.stack, EPos.frames, Ctx.below, d_rpar_and p c t b r 114 last, *], by constructor <;> simp [fAnd]⟩
      | first =>
        simp only [Q.step] at h; split at h <;> simp at h
        obtain ⟨rfl, rfl⟩ := h
        refine ⟨by simp [Q.stack, EPos.frames, Ctx.below, d_rpar_first p c t 115 last, *], by constructor <;> simp [fAnd]⟩

theorem step_rej (q : Q) (last : Option PF) (h : q.step p c t = .rej) :
    descend t 118 (q.stack p c) last = .noMatch [fR p c true] := by
  cases q with
  | afterON => simp only [Q.step] at h; split at h <;> simp at h
  | afterType k =>
    simp only [Q.step] at h; split at h <;> simp at h
    simp [Q.stack, d_afterType p c t k 116 last, *]
  | afterAnd b r => simp only [Q.step] at h; split at h <;> simp at h
  | inExpr x e =>
    cases e with
    | lpar => simp only [Q.step] at h; split at h <;> simp at h
    | feature => simp only [Q.step] at h; split at h <;> (try split at h) <;> simp at h
    | colon => simp only [Q.step] at h; split at h <;> simp at h
    | value => simp only [Q.step] at h; split at h <;> simp at h
    | rpar =>
      cases x with
      | inAnd b r =>
        simp only [Q.step] at h; split at h <;> simp at h
        simp [Q.stack, EPos.frames, Ctx.below, d_rpar_and p c t b r 114 last, *]
      | first =>
        simp only [Q.step] at h; split at h <;> simp at h
        simp [Q.stack, EPos.frames, Ctx.below, d_rpar_first p c t 115 last, *]

theorem step_err (q : Q) (last : Option PF) (h : q.step p c t = .err) :
    ∃ l s, descend t 118 (q.stack p c) last = .parseErr l s := by
  cases q with
  | afterON =>
    simp only [Q.step] at h; split at h <;> simp at h
    exact ⟨_, _, by simp [Q.stack, d_afterON p c t 117 last, *]; exact ⟨rfl, rfl⟩⟩
  | afterType k => simp only [Q.step] at h; split at h <;> simp at h
  | afterAnd b r =>
    simp only [Q.step] at h; split at h <;> simp at h
    exact ⟨_, _, by simp [Q.stack, d_afterAnd p c t b r 116 last, *]; exact ⟨rfl, rfl⟩⟩
  | inExpr x e =>
    cases e with
    | lpar =>
      simp only [Q.step] at h; split at h <;> simp at h
      exact ⟨_, _, by simp [Q.stack, EPos.frames, d_lpar p c t _ 117 last, *]; exact ⟨rfl, rfl⟩⟩
    | feature =>
      simp only [Q.step] at h; split at h <;> (try split at h) <;> simp at h
      exact ⟨_, _, by simp [Q.stack, EPos.frames, d_feature p c t _ 116 last, *]; exact ⟨rfl, rfl⟩⟩
    | colon =>
      simp only [Q.step] at h; split at h <;> simp at h
      exact ⟨_, _, by simp [Q.stack, EPos.frames, d_colon p c t _ 116 last, *]; exact ⟨rfl, rfl⟩⟩
    | value =>
      simp only [Q.step] at h; split at h <;> simp at h
      exact ⟨_, _, by simp [Q.stack, EPos.frames, d_value p c t _ 115 last, *]; exact ⟨rfl, rfl⟩⟩
    | rpar =>
      cases x with
      | inAnd b r => simp only [Q.step] at h; split at h <;> simp at h
      | first => simp only [Q.step] at h; split at h <;> simp at h

/-- top-level query: `stopIfNoMoreMatch` after the step is the `len` of the new state -/
theorem step_len (q q' : Q) (f : PF) (h : q.step false c t = .go f q') : (f.simm || q.len) = q'.len := by
  cases q with
  | afterON => simp only [Q.step] at h; split at h <;> simp at h; obtain ⟨rfl, rfl⟩ := h; simp [fType, Q.len]
  | afterType k => simp only [Q.step] at h; split at h <;> simp at h; obtain ⟨rfl, rfl⟩ := h; simp [fAnd, Q.len, Base.len]
  | afterAnd b r => simp only [Q.step] at h; split at h <;> simp at h; obtain ⟨rfl, rfl⟩ := h; simp [fOpen, Q.len, Ctx.len]
  | inExpr x e =>
    cases e with
    | lpar => simp only [Q.step] at h; split at h <;> simp at h; obtain ⟨rfl, rfl⟩ := h; simp [fFeature, Q.len]
    | feature =>
      simp only [Q.step] at h; split at h
      · simp at h; obtain ⟨rfl, rfl⟩ := h; simp [fColon, Q.len]
      · split at h <;> simp at h; obtain ⟨rfl, rfl⟩ := h; simp [fClose, Q.len]
    | colon => simp only [Q.step] at h; split at h <;> simp at h; obtain ⟨rfl, rfl⟩ := h; simp [vF_simm, Q.len]
    | value => simp only [Q.step] at h; split at h <;> simp at h; obtain ⟨rfl, rfl⟩ := h; simp [fClose, Q.len]
    | rpar =>
      cases x with
      | inAnd b r => simp only [Q.step] at h; split at h <;> simp at h; obtain ⟨rfl, rfl⟩ := h; simp [fAnd, Q.len, Ctx.len]
      | first => simp only [Q.step] at h; split at h <;> simp at h; obtain ⟨rfl, rfl⟩ := h; simp [fAnd, Q.len, Ctx.len, Base.len]

/-- the language makes the same move -/
theorem lang_step (q : Q) (ts : List Tok) (hb : bad t = false) :
    q.lang c (t :: ts) = match q.step false c t with
      | .go _ q' => q'.lang c ts
      | .rej => false
      | .err => q.len := by
  cases q with
  | afterON => by_cases h : pKnown.eval t = true <;> simp [Q.lang, Q.step, afterOnlyNot, hb, h, Q.len]
  | afterType k => by_cases h : pAnd.eval t = true <;> simp [Q.lang, Q.step, andExprs, hb, h, Base.len]
  | afterAnd b r => by_cases h : pLpar.eval t = true <;> simp [Q.lang, Q.step, afterAnd, hb, h, Q.len, Ctx.len]
  | inExpr x e =>
    cases e with
    | lpar => by_cases h : pIdent.eval t = true <;> simp [Q.lang, Q.step, afterLpar, hb, h, Q.len]
    | feature =>
      by_cases h : pColon.eval t = true <;> by_cases h2 : pRpar.eval t = true <;>
        simp [Q.lang, Q.step, afterFeature, hb, h, h2, Q.len]
    | colon => by_cases h : isValue c t = true <;> simp [Q.lang, Q.step, afterColon, hb, h, Q.len]
    | value => by_cases h : pRpar.eval t = true <;> simp [Q.lang, Q.step, afterValue, hb, h, Q.len]
    | rpar =>
      cases x with
      | inAnd b r => by_cases h : pAnd.eval t = true <;> simp [Q.lang, Q.step, andExprs, hb, h, Ctx.len]
      | first => by_cases h : pAnd.eval t = true <;> simp [Q.lang, Q.step, andExprs, hb, h, Ctx.len, Base.len]

theorem lang_bad (q : Q) (ts : List Tok) (hb : bad t = true) : q.lang c (t :: ts) = false := by
  cases q with
  | afterON => simp [Q.lang, afterOnlyNot, hb]
  | afterType k => simp [Q.lang, andExprs, hb]
  | afterAnd b r => simp [Q.lang, afterAnd, hb]
  | inExpr x e => cases e <;> simp [Q.lang, afterLpar, afterFeature, afterColon, afterValue, andExprs, hb]

/-- the end of the text in every control state -/
theorem end_Q (q : Q) (f : PF) (hm : f.mayEnd = false) (errs : List Err) :
    (endLoop (some f) (q.stack false c) true errs).1 = q.lang c [] := by
  cases q with
  | afterON =>
    simp only [Q.stack, Q.lang, afterOnlyNot]
    rw [endLoop_missing f _ _ _ _ (eT1 false c true true) hm]; exact endLoop_false _ _ _
  | afterType k =>
    simp only [Q.stack, Q.lang, andExprs]
    rw [endLoop_skip _ _ _ _ _ (Or.inl (eT2 false c k true)), endLoop_skip _ _ _ _ _ (Or.inl (eRend false c))]; rfl
  | afterAnd b r =>
    simp only [Q.stack, Q.lang, afterAnd]
    rw [endLoop_missing f _ _ _ _ (eA1 false c r) hm]; exact endLoop_false _ _ _
  | inExpr x e =>
    cases e with
    | lpar =>
      simp only [Q.stack, Q.lang, afterLpar, EPos.frames, List.cons_append, List.nil_append]
      rw [endLoop_missing f _ _ _ _ (eE false c 1 true (Or.inl rfl)) hm]; exact endLoop_false _ _ _
    | feature =>
      simp only [Q.stack, Q.lang, afterFeature, EPos.frames, List.cons_append, List.nil_append]
      rw [endLoop_missing f _ _ _ _ (eE false c 2 true (Or.inr (Or.inl rfl))) hm]; exact endLoop_false _ _ _
    | colon =>
      simp only [Q.stack, Q.lang, afterColon, EPos.frames, List.cons_append, List.nil_append]
      rw [endLoop_missing f _ _ _ _ (eC1 c) hm]; exact endLoop_false _ _ _
    | value =>
      simp only [Q.stack, Q.lang, afterValue, EPos.frames, List.cons_append, List.nil_append]
      rw [endLoop_skip _ _ _ _ _ (Or.inl (eVend c)), endLoop_skip _ _ _ _ _ (Or.inl (eCend c true)),
        endLoop_missing f _ _ _ _ (eE false c 3 true (Or.inr (Or.inr rfl))) hm]; exact endLoop_false _ _ _
    | rpar =>
      simp only [Q.stack, Q.lang, andExprs, EPos.frames, List.cons_append, List.nil_append]
      rw [endLoop_skip _ _ _ _ _ (Or.inl (eEend false c true))]
      cases x with
      | inAnd b r =>
        simp only [Ctx.below]
        rw [endLoop_skip _ _ _ _ _ (Or.inr (eA0 false c (r + 1) true))]
        cases b with
        | ty k =>
          simp only [Base.stack]
          rw [endLoop_skip _ _ _ _ _ (Or.inl (eTend false c k true)), endLoop_skip _ _ _ _ _ (Or.inl (eRend false c))]; rfl
        | ex =>
          simp only [Base.stack]
          rw [endLoop_skip _ _ _ _ _ (Or.inl (eXend false c true)), endLoop_skip _ _ _ _ _ (Or.inl (eRend false c))]; rfl
      | first =>
        simp only [Ctx.below]
        rw [endLoop_skip _ _ _ _ _ (Or.inl (eX1 false c true)), endLoop_skip _ _ _ _ _ (Or.inl (eRend false c))]; rfl

theorem strip_cons_real (t : Tok) (ts : List Tok) (h1 : t.kind ≠ .s) (h2 : t.kind ≠ .comment) : strip (t :: ts) = t :: strip ts := by
  simp [strip, List.filter_cons, h1, h2]

theorem strip_cons_skip (t : Tok) (ts : List Tok) (h : t.kind = .s ∨ t.kind = .comment) : strip (t :: ts) = strip ts := by
  rcases h with h | h <;> simp [strip, List.filter_cons, h]

/-- from any control state, for any rest of the text: the engine's verdict is the language's -/
theorem run_Q : ∀ (toks : List Tok) (q : Q) (n : Nat) (st : LS), toks.length + 1 ≤ n → Ready st →
    st.stack = q.stack false c → st.simm = q.len → (∃ f, st.last = some f ∧ f.mayEnd = false) → st.items ≠ [] →
    (∀ t ∈ toks, t.kind ≠ .eof) →
    (loop valueHook (cfgS 118) n st toks).wf = q.lang c (strip toks) := by
  intro toks
  induction toks with
  | nil =>
    intro q n st hn hr hst hsm hl hi _
    obtain ⟨m, rfl⟩ : ∃ m, n = m + 1 := ⟨n - 1, by simp at hn; omega⟩
    obtain ⟨f, hf, hm⟩ := hl
    rw [loop_nil _ _ _ _ _ _ hr, finish_wf _ _ _ hr hi, hf, hst]
    exact end_Q c q f hm _
  | cons t ts ih =>
    intro q n st hn hr hst hsm hl hi he
    obtain ⟨m, rfl⟩ : ∃ m, n = m + 1 := ⟨n - 1, by simp at hn; omega⟩
    have hm : ts.length + 1 ≤ m := by simp at hn; omega
    have he' : ∀ t ∈ ts, t.kind ≠ .eof := fun u hu => he u (List.mem_cons_of_mem _ hu)
    have hte : t.kind ≠ .eof := he t (List.mem_cons_self ..)
    by_cases hc : t.kind = .comment
    · rw [loop_comment _ _ _ _ _ _ _ _ hr hc, strip_cons_skip _ _ (Or.inr hc)]
      exact ih q m _ hm ⟨hr.saved, hr.filt, hr.pushed, hr.defaultS, hr.stopall, hr.wf⟩ hst hsm hl (by simp) he'
    by_cases hs : t.kind = .s
    · rw [loop_space _ _ _ _ _ _ _ _ hr hs, strip_cons_skip _ _ (Or.inl hs)]
      exact ih q m st hm hr hst hsm hl hi he'
    rw [strip_cons_real _ _ hs hc]
    by_cases hv : t.kind = .invalid
    · rw [loop_invalid _ _ _ _ _ _ _ _ hr hv, lang_bad c t q _ (by simp [bad, hv])]
    have hreal : Real t := ⟨hc, hs, hv, hte⟩
    rw [lang_step c t q _ (by simp [bad, hv])]
    cases hq : q.step false c t with
    | go f q' =>
      obtain ⟨hd, hp⟩ := step_go false c t q q' f st.last hq
      have hsim := step_len c t q q' f hq
      rw [← hst] at hd
      obtain ⟨st', hloop, hr', hst', hl', hsm', hi'⟩ := loop_prod true true 118 m st t ts hr hreal f _ hd hp
      rw [hloop]
      exact ih q' m st' hm hr' hst' (by rw [hsm', hsm, hsim]) ⟨f, hl', hp.mayEnd⟩ hi' he'
    | rej =>
      have hd := step_rej false c t q st.last hq
      rw [← hst] at hd
      simp only []
      exact loop_noMatch _ 118 m st t ts hr hreal _ hd
    | err =>
      obtain ⟨l, s', hd⟩ := step_err false c t q st.last hq
      rw [← hst] at hd
      simp only []
      rw [loop_parseErr _ 118 m st t ts hr hreal l s' hd, hsm]

/-- before the first real token -/
theorem run_start : ∀ (toks : List Tok) (n : Nat) (st : LS), toks.length + 1 ≤ n → Ready st →
    st.stack = [fR false c false] → st.simm = false → st.last = none → (∀ t ∈ toks, t.kind ≠ .eof) →
    (loop valueHook (cfgS 118) n st toks).wf = accepts c (strip toks) := by
  intro toks
  induction toks with
  | nil =>
    intro n st hn hr hst _ hl _
    obtain ⟨m, rfl⟩ : ∃ m, n = m + 1 := ⟨n - 1, by simp at hn; omega⟩
    rw [loop_nil _ _ _ _ _ _ hr]
    apply finish_endfalse _ _ _ hr
    rw [hst, endLoop_other _ _ _ _ _ (eR0 false c)]; exact endLoop_false _ _ _
  | cons t ts ih =>
    intro n st hn hr hst hsm hl he
    obtain ⟨m, rfl⟩ : ∃ m, n = m + 1 := ⟨n - 1, by simp at hn; omega⟩
    have hm : ts.length + 1 ≤ m := by simp at hn; omega
    have he' : ∀ t ∈ ts, t.kind ≠ .eof := fun u hu => he u (List.mem_cons_of_mem _ hu)
    have hte : t.kind ≠ .eof := he t (List.mem_cons_self ..)
    by_cases hc : t.kind = .comment
    · rw [loop_comment _ _ _ _ _ _ _ _ hr hc, strip_cons_skip _ _ (Or.inr hc)]
      exact ih m _ hm ⟨hr.saved, hr.filt, hr.pushed, hr.defaultS, hr.stopall, hr.wf⟩ hst hsm hl he'
    by_cases hs : t.kind = .s
    · rw [loop_space _ _ _ _ _ _ _ _ hr hs, strip_cons_skip _ _ (Or.inl hs)]
      exact ih m st hm hr hst hsm hl he'
    rw [strip_cons_real _ _ hs hc]
    by_cases hv : t.kind = .invalid
    · rw [loop_invalid _ _ _ _ _ _ _ _ hr hv]; simp [accepts, bad, hv]
    have hreal : Real t := ⟨hc, hs, hv, hte⟩
    have hb : bad t = false := by simp [bad, hv]
    have hd := d_start false c t 115
    rw [← hst, ← hl] at hd
    -- which Prod takes the first token
    by_cases h1 : pOnlyNot.eval t = true
    · simp only [h1, if_true] at hd
      obtain ⟨st', hloop, hr', hst', hl', hsm', hi'⟩ :=
        loop_prod true true 118 m st t ts hr hreal fOnlyNot _ hd (by constructor <;> simp [fOnlyNot])
      rw [hloop, run_Q c ts .afterON m st' hm hr' hst' (by simp [hsm', hsm, fOnlyNot, Q.len]) ⟨_, hl', rfl⟩ hi' he']
      simp [accepts, hb, h1, Q.lang]
    by_cases h2 : pKnown.eval t = true
    · simp only [h1, h2, if_true] at hd
      obtain ⟨st', hloop, hr', hst', hl', hsm', hi'⟩ :=
        loop_prod true true 118 m st t ts hr hreal (fType true) _ hd (by constructor <;> simp [fType])
      rw [hloop, run_Q c ts (.afterType true) m st' hm hr' hst' (by simp [hsm', fType, Q.len]) ⟨_, hl', rfl⟩ hi' he']
      simp [accepts, hb, h1, h2, Q.lang]
    by_cases h3 : pLpar.eval t = true
    · simp only [h1, h2, h3, if_true] at hd
      obtain ⟨st', hloop, hr', hst', hl', hsm', hi'⟩ :=
        loop_prod true true 118 m st t ts hr hreal fOpen _ hd (by constructor <;> simp [fOpen])
      rw [hloop, run_Q c ts (.inExpr .first .lpar) m st' hm hr' (by simp [hst', Q.stack, EPos.frames, Ctx.below])
        (by simp [hsm', hsm, fOpen, Q.len, Ctx.len]) ⟨_, hl', rfl⟩ hi' he']
      simp [accepts, hb, h1, h2, h3, Q.lang, Ctx.len]
    by_cases h4 : pIdent.eval t = true
    · simp only [h1, h2, h3, h4, if_true] at hd
      obtain ⟨st', hloop, hr', hst', hl', hsm', hi'⟩ :=
        loop_prod true true 118 m st t ts hr hreal (fType false) _ hd (by constructor <;> simp [fType])
      rw [hloop, run_Q c ts (.afterType false) m st' hm hr' hst' (by simp [hsm', hsm, fType, Q.len]) ⟨_, hl', rfl⟩ hi' he']
      simp [accepts, hb, h1, h2, h3, h4, Q.lang]
    · simp only [h1, h2, h3, h4] at hd
      rw [loop_noMatch _ 118 m st t ts hr hreal _ hd]
      simp [accepts, hb, h1, h2, h3, h4]

/-- **Media-query correctness.**  For every token list without an EOF token, `MediaQuery(text)` — the engine of
    `prodparser` running the grammar of `_setMediaText` — is well-formed exactly when the tokens, S and COMMENT
    removed, are in the language `accepts`. -/
theorem mediaQuery_correct (c : List Text) (toks : List Tok) (he : ∀ t ∈ toks, t.kind ≠ .eof) :
    (mediaQuery c toks).wf = accepts c (strip toks) := by
  have h : mediaQuery c toks = loop valueHook (cfgS 118) (toks.length + 1) { stack := [fR false c false] } toks := rfl
  rw [h]
  exact run_start c toks _ _ (Nat.le_refl _) ⟨rfl, rfl, rfl, rfl, rfl, rfl⟩ rfl rfl rfl he

/-! ### the documented grammar, and where the code differs from it -/

mutual
  /-- `[ AND S* expression ]*` of the docstring -/
  def docAndExprs (c : List Text) : List Tok → Bool
    | [] => true
    | t :: ts => !bad t && pAnd.eval t && docAfterAnd c ts
  def docAfterAnd (c : List Text) : List Tok → Bool
    | [] => false
    | t :: ts => !bad t && pLpar.eval t && docAfterLpar c ts
  def docAfterLpar (c : List Text) : List Tok → Bool
    | [] => false
    | t :: ts => !bad t && pIdent.eval t && docAfterFeature c ts
  def docAfterFeature (c : List Text) : List Tok → Bool
    | [] => false
    | t :: ts => !bad t && ((pColon.eval t && docAfterColon c ts) || (!pColon.eval t && pRpar.eval t && docAndExprs c ts))
  def docAfterColon (c : List Text) : List Tok → Bool
    | [] => false
    | t :: ts => !bad t && isValue c t && docAfterValue c ts
  def docAfterValue (c : List Text) : List Tok → Bool
    | [] => false
    | t :: ts => !bad t && pRpar.eval t && docAndExprs c ts
end

/-- the docstring of `MediaQuery`: `[ONLY|NOT]? IDENT [AND expression]* | expression [AND expression]*`
    (`media_type : IDENT` — any identifier) -/
def documented (c : List Text) : List Tok → Bool
  | [] => false
  | t :: ts =>
    if bad t then false
    else if pLpar.eval t then docAfterLpar c ts
    else if pOnlyNot.eval t then
      match ts with
      | u :: us => (!bad u && pIdent.eval u && docAndExprs c us) || docAndExprs c ts     -- `only` may itself be the type
      | [] => true
    else if pIdent.eval t then docAndExprs c ts
    else false

/-- the strict recogniser is the documented `[AND expression]*` -/
theorem strict_eq_doc : ∀ ts : List Tok,
    andExprs c false ts = docAndExprs c ts ∧ afterAnd c false ts = docAfterAnd c ts ∧ afterLpar c false ts = docAfterLpar c ts ∧
    afterFeature c false ts = docAfterFeature c ts ∧ afterColon c false ts = docAfterColon c ts ∧
    afterValue c false ts = docAfterValue c ts := by
  intro ts
  induction ts with
  | nil => simp [andExprs, afterAnd, afterLpar, afterFeature, afterColon, afterValue, docAndExprs, docAfterAnd, docAfterLpar,
      docAfterFeature, docAfterColon, docAfterValue]
  | cons t ts ih =>
    obtain ⟨i1, i2, i3, i4, i5, i6⟩ := ih
    refine ⟨?_, ?_, ?_, ?_, ?_, ?_⟩
    · by_cases hb : bad t = true <;> by_cases h : pAnd.eval t = true <;> simp [andExprs, docAndExprs, hb, h, i2]
    · by_cases hb : bad t = true <;> by_cases h : pLpar.eval t = true <;> simp [afterAnd, docAfterAnd, hb, h, i3]
    · by_cases hb : bad t = true <;> by_cases h : pIdent.eval t = true <;> simp [afterLpar, docAfterLpar, hb, h, i4]
    · by_cases hb : bad t = true <;> by_cases h : pColon.eval t = true <;> by_cases h2 : pRpar.eval t = true <;>
        simp [afterFeature, docAfterFeature, hb, h, h2, i5, i1]
    · by_cases hb : bad t = true <;> by_cases h : isValue c t = true <;> simp [afterColon, docAfterColon, hb, h, i6]
    · by_cases hb : bad t = true <;> by_cases h : pRpar.eval t = true <;> simp [afterValue, docAfterValue, hb, h, i1]

/-- lenient accepts at least what strict accepts -/
theorem lenient_of_strict : ∀ ts : List Tok,
    (andExprs c false ts = true → andExprs c true ts = true) ∧ (afterAnd c false ts = true → afterAnd c true ts = true) ∧
    (afterLpar c false ts = true → afterLpar c true ts = true) ∧ (afterFeature c false ts = true → afterFeature c true ts = true) ∧
    (afterColon c false ts = true → afterColon c true ts = true) ∧ (afterValue c false ts = true → afterValue c true ts = true) := by
  intro ts
  induction ts with
  | nil => simp [andExprs, afterAnd, afterLpar, afterFeature, afterColon, afterValue]
  | cons t ts ih =>
    obtain ⟨i1, i2, i3, i4, i5, i6⟩ := ih
    refine ⟨?_, ?_, ?_, ?_, ?_, ?_⟩
    · by_cases hb : bad t = true <;> by_cases h : pAnd.eval t = true <;> simp [andExprs, hb, h]; exact i2
    · by_cases hb : bad t = true <;> by_cases h : pLpar.eval t = true <;> simp [afterAnd, hb, h]; exact i3
    · by_cases hb : bad t = true <;> by_cases h : pIdent.eval t = true <;> simp [afterLpar, hb, h]; exact i4
    · by_cases hb : bad t = true <;> by_cases h : pColon.eval t = true <;> by_cases h2 : pRpar.eval t = true <;>
        simp [afterFeature, hb, h, h2] <;> first | exact i5 | exact i1
    · by_cases hb : bad t = true <;> by_cases h : isValue c t = true <;> simp [afterColon, hb, h]; exact i6
    · by_cases hb : bad t = true <;> by_cases h : pRpar.eval t = true <;> simp [afterValue, hb, h]; exact i1

/-- a known media type is an identifier, and not `only` / `not` -/
theorem known_ident (h : pKnown.eval t = true) : pIdent.eval t = true := by
  simp [pKnown, pIdent, Pred.eval] at h ⊢; exact h.1

theorem known_not_and (h : pKnown.eval t = true) : pAnd.eval t = false := by
  simp [pKnown, pAnd, Pred.eval, mediaTypes, tAnd] at h ⊢
  intro _ h2; rw [h2] at h; simp at h

/-- Every documented query is accepted, except `ONLY|NOT` followed by something that is not a known media type
    (hypothesis `hon`): the code reads `only` / `not` as the prefix and then insists on one of `MEDIA_TYPES`.
    `hs`: an opening parenthesis is not an IDENT token (true of every token of the tokenizer). -/
theorem documented_accepted (ts : List Tok) (hd : documented c ts = true)
    (hs : ∀ t rest, ts = t :: rest → pLpar.eval t = true → pIdent.eval t = false)
    (hon : ∀ t rest, ts = t :: rest → pOnlyNot.eval t = true → ∃ u us, rest = u :: us ∧ pKnown.eval u = true) :
    accepts c ts = true := by
  cases ts with
  | nil => simp [documented] at hd
  | cons t rest =>
    by_cases hb : bad t = true
    · simp [documented, hb] at hd
    have hlp : pLpar.eval t = true → pIdent.eval t = false := hs t rest rfl
    by_cases h1 : pOnlyNot.eval t = true
    · obtain ⟨u, us, rfl, hk⟩ := hon t rest rfl h1
      have hid : pIdent.eval t = true := by simp [pOnlyNot, pIdent, Pred.eval] at h1 ⊢; exact h1.1
      have h3 : pLpar.eval t = false := by
        cases h : pLpar.eval t with
        | false => rfl
        | true => rw [hlp h] at hid; cases hid
      have hna := known_not_and u hk
      simp [documented, hb, h3, h1, docAndExprs, hna] at hd
      simp [accepts, hb, h1, afterOnlyNot, hd.1, hk]
      exact (lenient_of_strict c us).1 (by rw [(strict_eq_doc c us).1]; exact hd.2)
    by_cases h2 : pKnown.eval t = true
    · have hid := known_ident t h2
      have h3 : pLpar.eval t = false := by
        cases h : pLpar.eval t with
        | false => rfl
        | true => rw [hlp h] at hid; cases hid
      simp [documented, hb, h3, h1, hid] at hd
      simp [accepts, hb, h1, h2]
      exact (lenient_of_strict c rest).1 (by rw [(strict_eq_doc c rest).1]; exact hd)
    by_cases h3 : pLpar.eval t = true
    · simp [documented, hb, h3] at hd
      simp [accepts, hb, h1, h2, h3, (strict_eq_doc c rest).2.2.1, hd]
    by_cases h4 : pIdent.eval t = true
    · simp [documented, hb, h3, h1, h4] at hd
      simp [accepts, hb, h1, h2, h3, h4, (strict_eq_doc c rest).1, hd]
    · simp [documented, hb, h3, h1, h4] at hd

/-- what is accepted beyond the documented grammar begins with `[only|not]? <known media type>` -/
def knownHead : List Tok → Bool
  | t :: u :: _ => pKnown.eval t || (pOnlyNot.eval t && pKnown.eval u)
  | [t] => pKnown.eval t
  | [] => false

theorem accepted_documented (ts : List Tok) (ha : accepts c ts = true)
    (hs : ∀ t rest, ts = t :: rest → pLpar.eval t = true → pIdent.eval t = false) :
    documented c ts = true ∨ knownHead ts = true := by
  cases ts with
  | nil => simp [accepts] at ha
  | cons t rest =>
    by_cases hb : bad t = true
    · simp [accepts, hb] at ha
    have hlp : pLpar.eval t = true → pIdent.eval t = false := hs t rest rfl
    by_cases h1 : pOnlyNot.eval t = true
    · right
      cases rest with
      | nil => simp [accepts, hb, h1, afterOnlyNot] at ha
      | cons u us =>
        by_cases hk : pKnown.eval u = true
        · simp [knownHead, h1, hk]
        · by_cases hbu : bad u = true <;> simp [accepts, hb, h1, afterOnlyNot, hk, hbu] at ha
    by_cases h2 : pKnown.eval t = true
    · right; cases rest <;> simp [knownHead, h2]
    left
    by_cases h3 : pLpar.eval t = true
    · simp [accepts, hb, h1, h2, h3] at ha
      simp [documented, hb, h3, ← (strict_eq_doc c rest).2.2.1, ha]
    by_cases h4 : pIdent.eval t = true
    · simp [accepts, hb, h1, h2, h3, h4] at ha
      simp [documented, hb, h1, h3, h4, ← (strict_eq_doc c rest).1, ha]
    · simp [accepts, hb, h1, h2, h3, h4] at ha

/-! ### concrete queries (kernel-evaluated); no colour names are needed -/

def ident (s : Text) : Tok := { kind := .ident, val := s }
def chr (n : Nat) : Tok := { kind := .char, val := [n] }
def tPrint : Tok := ident [112, 114, 105, 110, 116]
def tFoo : Tok := ident [102, 111, 111]
def tAndTok : Tok := ident tAnd
def tNotTok : Tok := ident tNot
def tWidth : Tok := ident [119, 105, 100, 116, 104]
def tDim : Tok := { kind := .dimension, val := [49, 112, 120] }

/-- `print and (width: 1px)` with white space and a comment: in the language, and the engine says so -/
example : accepts [] (strip [tPrint, ⟨.s, [32], [32]⟩, tAndTok, ⟨.comment, [], []⟩, chr 40, tWidth, chr 58, tDim, chr 41]) = true ∧
    (mediaQuery [] [tPrint, ⟨.s, [32], [32]⟩, tAndTok, ⟨.comment, [], []⟩, chr 40, tWidth, chr 58, tDim, chr 41]).wf = true := by
  decide

/-- `print and ;`, `print and (width 1px)`: accepted, not in the documented grammar (silent truncation) -/
example : accepts [] [tPrint, tAndTok, chr 59] = true ∧ documented [] [tPrint, tAndTok, chr 59] = false ∧
    accepts [] [tPrint, tAndTok, chr 40, tWidth, tDim, chr 41] = true ∧
    documented [] [tPrint, tAndTok, chr 40, tWidth, tDim, chr 41] = false := by decide

/-- the same after an unknown media type is an error -/
example : accepts [] [tFoo, tAndTok, chr 59] = false := by decide

/-- `not foo`: documented (`media_type : IDENT`), rejected; `foo` alone is accepted; `not (width)` is rejected -/
example : documented [] [tNotTok, tFoo] = true ∧ accepts [] [tNotTok, tFoo] = false ∧ accepts [] [tFoo] = true ∧
    accepts [] [tNotTok, chr 40, tWidth, chr 41] = false := by decide

/-- a type after an expression, a trailing `and`, an expression without `and`: rejected -/
example : accepts [] [chr 40, tWidth, chr 41, tAndTok, tPrint] = false ∧ accepts [] [tPrint, tAndTok] = false ∧
    accepts [] [tPrint, chr 40, tWidth, chr 41] = false := by decide

/-- the hypothesis of `mediaQuery_correct` is needed: after an EOF token the end-of-input check is skipped
    (`stopall`), `only EOF` is well-formed -/
example : (mediaQuery [] [ident tOnly, ⟨.eof, [], []⟩]).wf = true ∧ accepts [] (strip [ident tOnly, ⟨.eof, [], []⟩]) = false := by
  decide

end CssVerif.PP.MQ
