/-
L11 — parent links of the rule tree: the raw fields the code keeps (`_parentRule`, `_parentStyleSheet`),
the derived `parentStyleSheet` getter of css/cssrule.py, and the link updates of insertRule / deleteRule on
the sheet and on container rules (@media, @page).  Objects are ids; the sheet is id 0.
-/
namespace CssVerif.Links

structure Obj where
  pr : Option Nat := none       -- _parentRule
  raw : Option Nat := none      -- _parentStyleSheet
  kids : List Nat := []         -- cssRules of a container rule
  deriving Repr, DecidableEq

structure St where
  objs : Nat → Obj := fun _ => {}
  top : List Nat := []          -- cssRules of the sheet

def get (st : St) (x : Nat) : Obj := st.objs x

def set (st : St) (x : Nat) (o : Obj) : St :=
  { st with objs := fun y => if y = x then o else st.objs y }

/-- `CSSRule._getParentStyleSheet`; `fx = false`: the pinned snapshot looked one level up only -/
def parentStyleSheet (fx : Bool) (st : St) : Nat → Nat → Option Nat
  | 0, _ => none
  | fuel + 1, x =>
    match (get st x).pr with
    | none => (get st x).raw
    | some p => if fx then parentStyleSheet fx st fuel p else (get st p).raw

def insertAt (l : List Nat) (i : Nat) (x : Nat) : List Nat := l.take i ++ x :: l.drop i

/-- sheet.insertRule(rule, index): `rule._parentStyleSheet = self` -/
def insertTop (st : St) (i : Nat) (r : Nat) : St :=
  let st := set st r { get st r with raw := some 0 }
  { st with top := insertAt st.top i r }

/-- container.insertRule(rule, index): `rule._parentRule = self; rule._parentStyleSheet = None` -/
def insertIn (st : St) (c : Nat) (i : Nat) (r : Nat) : St :=
  let st := set st r { get st r with pr := some c, raw := none }
  set st c { get st c with kids := insertAt (get st c).kids i r }

/-- sheet.deleteRule(index): `rule._parentStyleSheet = None` -/
def deleteTop (st : St) (i : Nat) : St :=
  match st.top[i]? with
  | none => st
  | some r =>
    let st := set st r { get st r with raw := none }
    { st with top := st.top.eraseIdx i }

/-- container.deleteRule(index): `rule._parentRule = None` -/
def deleteIn (st : St) (c : Nat) (i : Nat) : St :=
  match (get st c).kids[i]? with
  | none => st
  | some r =>
    let st := set st r { get st r with pr := none }
    set st c { get st c with kids := (get st c).kids.eraseIdx i }

inductive Op
  | insTop (i r : Nat) | insIn (c i r : Nat) | delTop (i : Nat) | delIn (c i : Nat)
  deriving Repr

def step (st : St) : Op → St
  | .insTop i r => insertTop st i r
  | .insIn c i r => insertIn st c i r
  | .delTop i => deleteTop st i
  | .delIn c i => deleteIn st c i

end CssVerif.Links
