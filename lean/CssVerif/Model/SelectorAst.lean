/-
The level-3 selector grammar as an inductive type, with the CSS definition of specificity and a
rendering to the (pre-pass) token stream.  This is the *specification* side of C16.
-/
import CssVerif.Model.Selector
namespace CssVerif.Selector

/-- namespace part of a type / universal selector -/
inductive Pfx
  | none                 -- `e`
  | any                  -- `*|e`
  | empty                -- `|e`
  | named (p : Text)     -- `p|e`
  deriving Repr, DecidableEq

/-- tokens allowed in the argument of a functional pseudo-class -/
inductive ArgTok
  | ident (v : Text) | number (v : Text) | dimension (v : Text) | string (v : Text) | plus | minus | ws
  deriving Repr, DecidableEq

def ArgTok.tok : ArgTok → T2
  | .ident v => (.ident, v) | .number v => (.number, v) | .dimension v => (.dimension, v)
  | .string v => (.string, v) | .plus => (.char, str "+") | .minus => (.char, str "-") | .ws => (.s, str " ")

def ArgTok.nonWs : ArgTok → Bool
  | .ws => false
  | _ => true

inductive AttrOp | eq | pre | suf | sub | dash | inc
  deriving Repr, DecidableEq

def AttrOp.tok : AttrOp → T2
  | .eq => (.char, str "=") | .pre => (.prefixmatch, str "^=") | .suf => (.suffixmatch, str "$=")
  | .sub => (.substringmatch, str "*=") | .dash => (.dashmatch, str "|=") | .inc => (.includes, str "~=")

inductive AttrVal | ident (v : Text) | string (v : Text)
  deriving Repr, DecidableEq

def AttrVal.tok : AttrVal → T2
  | .ident v => (.ident, v)
  | .string v => (.string, v)

/-- simple selectors other than type / universal / negation -/
inductive Simple
  | id (v : Text)                                    -- `#x` (token value incl. `#`)
  | cls (v : Text)                                   -- `.x`
  | attrib (p : Option Text) (name : Text) (rhs : Option (AttrOp × AttrVal))
  | pclass (v : Text)                                -- `:hover` (normalised, not one of the legacy elements)
  | pfunc (v : Text) (a : ArgTok) (args : List ArgTok)   -- `:nth-child(` first-arg more-args `)`
  deriving Repr

inductive NegArg
  | type (p : Pfx) (name : Text)
  | universal (p : Pfx)
  | simple (s : Simple)
  deriving Repr

inductive Part
  | simple (s : Simple)
  | neg (a : NegArg)
  deriving Repr

inductive Head
  | type (p : Pfx) (name : Text)
  | universal (p : Pfx)
  deriving Repr

/-- a pseudo-element: `::name`, or one of the four CSS 2.1 elements in single-colon notation -/
inductive PElem
  | dbl (v : Text)             -- token value `::name`, normalised, not functional
  | legacy (v : Text)          -- `:before` `:after` `:first-line` `:first-letter`
  deriving Repr

structure Compound where
  head : Option Head
  parts : List Part
  pelem : Option PElem
  deriving Repr

inductive Comb | descendant | child | adjacent | following
  deriving Repr, DecidableEq

/-- whitespace around an explicit combinator -/
structure Layout where
  before : Bool
  after : Bool
  deriving Repr

structure Sel where
  first : Compound
  rest : List (Comb × Layout × Compound)
  deriving Repr

/-! ### the CSS definition of specificity: (ids, classes + attributes + pseudo-classes, types + pseudo-elements) -/

abbrev Spec := Nat × Nat × Nat

def Spec.add (x y : Spec) : Spec := (x.1 + y.1, x.2.1 + y.2.1, x.2.2 + y.2.2)

def Simple.spec : Simple → Spec
  | .id _ => (1, 0, 0)
  | .cls _ => (0, 1, 0)
  | .attrib _ _ _ => (0, 1, 0)
  | .pclass _ => (0, 1, 0)
  | .pfunc v _ _ => if v == str ":where(" then (0, 0, 0) else (0, 1, 0)

/-- the argument of `:not()` counts as its own kind; the negation itself counts nothing -/
def NegArg.spec : NegArg → Spec
  | .type _ _ => (0, 0, 1)
  | .universal _ => (0, 0, 0)
  | .simple s => s.spec

def Part.spec : Part → Spec
  | .simple s => s.spec
  | .neg a => a.spec

def Head.spec : Head → Spec
  | .type _ _ => (0, 0, 1)
  | .universal _ => (0, 0, 0)

def sumSpec : List Spec → Spec := fun l => l.foldl Spec.add (0, 0, 0)

def Compound.spec (c : Compound) : Spec :=
  (((c.head.map Head.spec).getD (0, 0, 0)).add (sumSpec (c.parts.map Part.spec))).add
    (if c.pelem.isSome then (0, 0, 1) else (0, 0, 0))

def Sel.spec (s : Sel) : Spec := s.first.spec.add (sumSpec (s.rest.map (fun x => x.2.2.spec)))

/-! ### rendering to the merged token stream -/

def Pfx.toks : Pfx → List T2
  | .none => []
  | .any => [(.nsprefix, str "*|")]
  | .empty => [(.nsprefix, str "|")]
  | .named p => [(.nsprefix, p ++ str "|")]

def Pfx.text : Pfx → Text
  | .none => []
  | .any => str "*|"
  | .empty => str "|"
  | .named p => p ++ str "|"

def Simple.toks : Simple → List T2
  | .id v => [(.hash, v)]
  | .cls v => [(.cls, v)]
  | .attrib p name rhs =>
    [(.char, str "[")] ++ (match p with | some p => [(.nsprefix, p ++ str "|")] | none => []) ++ [(.ident, name)] ++
      (match rhs with | some (op, v) => [op.tok, v.tok] | none => []) ++ [(.char, str "]")]
  | .pclass v => [(.pclass, v)]
  | .pfunc v a args => [(.pclass, v), a.tok] ++ args.map ArgTok.tok ++ [(.char, str ")")]

def NegArg.toks : NegArg → List T2
  | .type p name => p.toks ++ [(.ident, name)]
  | .universal p => [(.universal, p.text ++ str "*")]
  | .simple s => s.toks

def Part.toks : Part → List T2
  | .simple s => s.toks
  | .neg a => [(.negation, str ":not(")] ++ a.toks ++ [(.char, str ")")]

def Head.toks : Head → List T2
  | .type p name => p.toks ++ [(.ident, name)]
  | .universal p => [(.universal, p.text ++ str "*")]

def PElem.toks : PElem → List T2
  | .dbl v => [(.pelem, v)]
  | .legacy v => [(.pclass, v)]

def Compound.toks (c : Compound) : List T2 :=
  (c.head.map Head.toks).getD [] ++ c.parts.flatMap Part.toks ++ (c.pelem.map PElem.toks).getD []

def Comb.toks (c : Comb) (l : Layout) : List T2 :=
  match c with
  | .descendant => [(.s, str " ")]
  | .child => (if l.before then [(.s, str " ")] else []) ++ [(.char, str ">")] ++ (if l.after then [(.s, str " ")] else [])
  | .adjacent => (if l.before then [(.s, str " ")] else []) ++ [(.char, str "+")] ++ (if l.after then [(.s, str " ")] else [])
  | .following => (if l.before then [(.s, str " ")] else []) ++ [(.char, str "~")] ++ (if l.after then [(.s, str " ")] else [])

def Sel.toks (s : Sel) : List T2 :=
  s.first.toks ++ s.rest.flatMap (fun x => x.1.toks x.2.1 ++ x.2.2.toks)

end CssVerif.Selector
