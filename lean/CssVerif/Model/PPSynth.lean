/-
Synthetic grammars for the correspondence of the combinator engine (`harness/props/c02pp.py` builds the same
objects from the real `Prod` / `Sequence` / `Choice` classes).  Tokens are IDENTs with one-letter values unless
said otherwise.
-/
import CssVerif.Model.ProdParser
namespace CssVerif.PP.Synth
open CssVerif.PP

/-- IDENT with the one-character value `c` -/
def lit (name : Nat) (c : Nat) (f : PF := {}) : G := .prod { f with name := name } (.kindVal .ident [c])

/-- s1 — repetition bounds, optional items, Choice exhaustion:
    `a (b c?){1,3} (d | e f | (g? h){1,2}) i? (j? k)* (l | m?)`, the whole thing once or twice -/
def s1 : G :=
  .seq (.cons (lit 1 97)
       (.cons (.seq (.cons (lit 2 98) (.cons (lit 3 99 { optional := true }) .nil)) 1 (some 3))
       (.cons (.choice (.cons (lit 4 100)
                       (.cons (.seq (.cons (lit 5 101) (.cons (lit 6 102) .nil)) 1 (some 1))
                       (.cons (.seq (.cons (lit 7 103 { optional := true }) (.cons (lit 8 104) .nil)) 1 (some 2)) .nil))) none)
       (.cons (lit 9 105 { optional := true })
       (.cons (.seq (.cons (lit 10 106 { optional := true }) (.cons (lit 11 107) .nil)) 0 none)
       (.cons (.choice (.cons (lit 12 108) (.cons (lit 13 109 { optional := true }) .nil)) none) .nil)))))) 1 (some 2)

/-- s2 — the shape of `PropertyValue`: terms with `nextSor`, operators S (dropped, `mayEnd`) `,` `/`, an optional
    `;` with `stopAndKeep`, a hash term with `stopIfNoMoreMatch`, an optional `)` with `stop` -/
def s2 : G :=
  let term : G := .choice (.cons (.prod { name := 1, nextSor := true } (.kind .ident))
                          (.cons (.prod { name := 2, nextSor := true } (.kind .number))
                          (.cons (.prod { name := 3, nextSor := true, simm := true } (.kind .hash)) .nil))) none
  let operator : G := .choice (.cons (.prod { name := 4, toSeq := .drop, mayEnd := true } (.kind .s))
                              (.cons (.prod { name := 5, optional := true } (.val [44]))
                              (.cons (.prod { name := 6, optional := true } (.val [47])) .nil))) (some true)
  .seq (.cons term
       (.cons (.seq (.cons operator
                    (.cons (.prod { name := 7, stopAndKeep := true, optional := true } (.val [59]))
                    (.cons term .nil))) 0 none)
       (.cons (.prod { name := 8, stop := true, optional := true } (.val [41])) .nil))) 1 (some 1)

/-- s3 — the shape of `calc()` (parsed with `checkS`): `f S? n (S op S n)* )` where S tokens are productions -/
def s3 : G :=
  .seq (.cons (.prod { name := 1 } (.kind .function))
       (.cons (.prod { name := 2, optional := true, mayEnd := true } (.kind .s))
       (.cons (.prod { name := 3 } (.kindIn [.number, .dimension]))
       (.cons (.seq (.cons (.prod { name := 4, mayEnd := true } (.kind .s))
                    (.cons (.choice (.cons (.seq (.cons (.prod { name := 5 } (.kindValIn .char [[42], [47]]))
                                                 (.cons (.prod { name := 6, optional := true, mayEnd := true } (.kind .s)) .nil)) 1 (some 1))
                                    (.cons (.seq (.cons (.prod { name := 7 } (.kindValIn .char [[43], [45]]))
                                                 (.cons (.prod { name := 8, mayEnd := true } (.kind .s)) .nil)) 1 (some 1))
                                    (.cons (.prod { name := 9, stop := true, mayEnd := true } (.val [41])) .nil))) none)
                    (.cons (.prod { name := 3, optional := true } (.kindIn [.number, .dimension])) .nil))) 0 none)
       (.cons (.prod { name := 9, stop := true } (.val [41])) .nil))))) 1 (some 1)

/-- s4 — the hazard of Appendix A.3: every item optional, no upper bound -/
def s4 : G := .seq (.cons (lit 1 97 { optional := true }) .nil) 0 none

end CssVerif.PP.Synth
